package c13

import (
	"fmt"
	"strings"

	"pgregory.net/rapid"

	"verif/harness/memnet"
)

// A Scenario is one generated case (DESIGN Appendix C). Plain JSON-serialisable.
type Scenario struct {
	Transport  string   // memTCP | memTLS | memPacket | realUDP | realTCP
	Clients    []Client // client j (1-based) = connection j for stream transports
	Trigger    string   // event (pattern) at which the controller calls Shutdown
	FallbackMs int      // Shutdown is called anyway after this long without the trigger ("trigger-fallback")
	Ctx        string   // background | expired | expireAt
	CtxAt      string   // expireAt: the event at which the context is cancelled
	CtxAPI     bool     // background: call ShutdownContext(context.Background()) instead of Shutdown()
	HoldMs     int      // how long after shutdown.call the controller logs "release" (frees held handlers)
	Misuse     []Misuse // start/stop misuse operations
	MaxTCP     int      // Server.MaxTCPQueries: -1 (unlimited), 0 (default 128), 1, 2, 128
	// transient faults of the accept / datagram-read step (in-memory transports and the wrapped
	// loopback listener): errors that are Temporary() - with or without Timeout() - must be
	// retried by the serve loop, the service goes on as if nothing had happened
	TempErrs  []string      // kinds (tempNotTimeout | tempTimeout) queued before the server starts
	TempErrAt string        // one more tempNotTimeout error is injected when this event is logged ("" = none)
	Waits     []memnet.Wait // interposition plan
}

type Client struct {
	Reqs     []Req
	Close    string // end (keeps the conn until teardown) | afterRecv | afterSend (closes without reading the last reply)
	StartAt  string // event at which the client starts dialling/sending; "" = srv.started
	Pipeline bool   // send all requests before reading any reply
	Partial  int    // stream, Close == end: afterwards send an incomplete frame and idle: 1 = first prefix octet, 2 = prefix + half a message
}

type Req struct {
	Mode  string // fast: reply, return | block: reply, wait, return | late: wait, reply, return
	Until string // event that ends the wait; "release" always ends it too
}

type Misuse struct {
	Op string // shutdownBeforeStart | failedStart | secondStart | secondShutdown | restartAfterShutdown
	At string // event at which the controller performs it (ignored for the first and last); failedStart: the kind of failure
}

func (s Scenario) stream() bool {
	return s.Transport == "memTCP" || s.Transport == "memTLS" || s.Transport == "realTCP"
}
func (s Scenario) spied() bool { return s.Transport != "realUDP" } // I/O-level events available

// postShutdown reports whether an event can only happen once Shutdown has been called.
func postShutdown(ev string) bool {
	return ev == "release" || ev == "shutdown.call" || ev == "lis.close" || ev == "pc.close" || ev == "ctx.cancel" ||
		strings.HasPrefix(ev, "shutdown.return") || strings.HasPrefix(ev, "serve.return") ||
		strings.HasSuffix(ev, "setReadDeadline(past)")
}

// reachable lists events that the scenario is expected to produce before Shutdown is called
// (so that they are usable as trigger / misuse / start points), in a deterministic order.
func (s Scenario) reachable() []string {
	out := []string{"srv.started"}
	if s.stream() {
		out = append(out, "lis.accept.enter")
	} else {
		out = append(out, "reader.enter(pc,1)")
		if s.spied() {
			out = append(out, "pc.setReadDeadline.enter(future)", "pc.readFrom.enter")
		}
	}
	allDone := true
	for ji, c := range s.Clients {
		j := ji + 1
		if c.StartAt != "" && postShutdown(c.StartAt) {
			allDone = false
			continue
		}
		out = append(out, fmt.Sprintf("client(%d).dial", j))
		if s.stream() {
			out = append(out, fmt.Sprintf("lis.accept.return(%d)", j), "serveconn.start", fmt.Sprintf("reader.enter(%d,1)", j))
			if s.spied() && s.Transport != "memTLS" {
				out = append(out, fmt.Sprintf("conn(%d).setReadDeadline.enter(future)", j), fmt.Sprintf("conn(%d).setReadDeadline(future)", j), fmt.Sprintf("conn(%d).read.enter", j))
			}
		}
		stopped := false
		if c.Pipeline {
			for qi := range c.Reqs {
				out = append(out, fmt.Sprintf("client(%d).sent(%d)", j, qi+1))
			}
		}
		for qi, r := range c.Reqs {
			q := qi + 1
			if !c.Pipeline {
				out = append(out, fmt.Sprintf("client(%d).sent(%d)", j, q))
			}
			if s.stream() && s.MaxTCP > 0 && qi >= s.MaxTCP {
				stopped = true // the server closes the connection after MaxTCPQueries requests
			}
			if stopped { // stream: the conn goroutine is still inside an earlier handler
				break
			}
			out = append(out, fmt.Sprintf("accept.policy(%d,%d)", j, q), fmt.Sprintf("handler.enter(%d,%d)", j, q))
			if qi == len(c.Reqs)-1 && c.Close == "afterSend" {
				out = append(out, fmt.Sprintf("client(%d).close", j))
			}
			held := r.Mode != "fast" && postShutdown(r.Until)
			if r.Mode == "late" && held {
				stopped = true
				break
			}
			out = append(out, fmt.Sprintf("writer.enter(%d,%d)", j, q), fmt.Sprintf("handler.written(%d,%d)", j, q))
			if !(c.Close == "afterSend" && (qi == len(c.Reqs)-1 || c.Pipeline)) {
				out = append(out, fmt.Sprintf("client(%d).recv(%d)", j, q))
			}
			if held {
				if s.stream() {
					stopped = true
				}
				continue // packet transports: the next datagram gets its own goroutine
			}
			out = append(out, fmt.Sprintf("handler.exit(%d,%d)", j, q))
			if s.stream() {
				out = append(out, fmt.Sprintf("reader.enter(%d,%d)", j, q+1))
			}
		}
		if stopped {
			allDone = false
		} else if c.Close == "afterRecv" {
			out = append(out, fmt.Sprintf("client(%d).close", j))
		} else if c.Close == "end" && c.Partial > 0 && s.stream() {
			out = append(out, fmt.Sprintf("client(%d).partial", j))
		}
	}
	if allDone {
		out = append(out, "clients.done")
	}
	return out
}

// failedStartKinds: ways in which a start fails before (or, closedListener, right after) the server
// begins to serve. Afterwards Shutdown must return at once and the same Server value must start.
var failedStartKinds = []string{"closedUDP", "closedUDP", "closedListener", "closedPacketConn", "closedMemListener", "permanentAcceptErr", "permanentReadErr", "timeoutNotTemporaryAccept", "timeoutNotTemporaryRead", "nilListeners", "readerWithoutPacketConn", "readerWithoutPacketConn", "badAddrTCP", "badAddrUDP", "badNet", "portInUseTCP", "portInUseUDP", "tlsNoCert"}

var transportsMem = []string{"memTCP", "memTCP", "memTCP", "memTLS", "memPacket", "memPacket", "memPacket"}
var transportsReal = []string{"realUDP", "realTCP"}

func genMem(t *rapid.T) Scenario  { return genScenario(t, transportsMem) }
func genReal(t *rapid.T) Scenario { return genScenario(t, transportsReal) }

func genScenario(t *rapid.T, transports []string) Scenario {
	var s Scenario
	s.Transport = rapid.SampledFrom(transports).Draw(t, "transport")
	s.MaxTCP = rapid.SampledFrom([]int{-1, -1, -1, 0, 0, 1, 2, 128}).Draw(t, "maxTCP")
	if s.Transport != "realUDP" {
		for i, n := 0, rapid.SampledFrom([]int{0, 0, 0, 1, 2, 3}).Draw(t, "tempErrs"); i < n; i++ {
			s.TempErrs = append(s.TempErrs, rapid.SampledFrom([]string{"tempNotTimeout", "tempNotTimeout", "tempTimeout"}).Draw(t, "tempErrKind"))
		}
	}
	nc := rapid.SampledFrom([]int{0, 1, 1, 1, 2, 2, 3, 4}).Draw(t, "clients")
	postEvents := []string{"release", "release", "release", "shutdown.call"}
	if s.stream() && s.spied() {
		postEvents = append(postEvents, "lis.close")
	} else if s.spied() {
		postEvents = append(postEvents, "pc.setReadDeadline(past)")
	}
	for j := 1; j <= nc; j++ {
		var c Client
		nr := rapid.SampledFrom([]int{0, 1, 1, 1, 2, 2, 3}).Draw(t, "reqs")
		for q := 1; q <= nr; q++ {
			r := Req{Mode: rapid.SampledFrom([]string{"fast", "fast", "block", "late", "late"}).Draw(t, "mode")}
			if r.Mode != "fast" {
				r.Until = rapid.SampledFrom(postEvents).Draw(t, "until")
				if s.stream() && s.spied() && rapid.IntRange(0, 5).Draw(t, "untilConn") == 0 {
					r.Until = fmt.Sprintf("conn(%d).setReadDeadline(past)", j)
				}
			}
			c.Reqs = append(c.Reqs, r)
		}
		c.Close = rapid.SampledFrom([]string{"end", "end", "afterRecv", "afterRecv", "afterSend"}).Draw(t, "close")
		if nr == 0 && c.Close == "afterSend" {
			c.Close = "afterRecv"
		}
		c.Pipeline = nr > 1 && rapid.IntRange(0, 3).Draw(t, "pipeline") == 0
		if s.stream() && c.Close == "end" && rapid.IntRange(0, 3).Draw(t, "partialOn") == 0 {
			c.Partial = rapid.IntRange(1, 2).Draw(t, "partial")
		}
		s.Clients = append(s.Clients, c)
	}
	// client start points: mostly at once; sometimes chained to an earlier client's event or to the shutdown
	for ji := range s.Clients {
		switch rapid.IntRange(0, 9).Draw(t, "startKind") {
		case 0:
			s.Clients[ji].StartAt = rapid.SampledFrom([]string{"shutdown.call", "shutdown.call", "shutdown.return(*)"}).Draw(t, "startPost")
			if s.spied() && rapid.Bool().Draw(t, "startLis") {
				if s.stream() {
					s.Clients[ji].StartAt = "lis.close"
				} else {
					s.Clients[ji].StartAt = "pc.setReadDeadline(past)"
				}
			}
		case 1:
			if ji > 0 {
				tmp := s
				tmp.Clients = s.Clients[:ji]
				r := tmp.reachable()
				s.Clients[ji].StartAt = rapid.SampledFrom(r).Draw(t, "startAt")
			}
		}
	}
	reach := s.reachable()
	if s.Transport != "realUDP" && rapid.IntRange(0, 4).Draw(t, "tempErrLate") == 0 {
		s.TempErrAt = rapid.SampledFrom(reach).Draw(t, "tempErrAt")
	}
	// trigger
	s.Trigger = rapid.SampledFrom(reach).Draw(t, "trigger")
	if rapid.IntRange(0, 3).Draw(t, "triggerLate") == 0 {
		s.Trigger = reach[len(reach)-1] // late in the scenario
	}
	// the windows the property names: between the started flag, connection registration and the
	// read-deadline updates – i.e. reader entry, Accept's return, start of a conn's goroutine,
	// between read and handler
	var core []string
	for _, ev := range reach {
		if strings.HasPrefix(ev, "reader.enter(") || strings.HasPrefix(ev, "lis.accept.return(") || ev == "serveconn.start" || strings.HasPrefix(ev, "accept.policy(") || strings.HasSuffix(ev, "setReadDeadline.enter(future)") {
			core = append(core, ev)
		}
	}
	if len(core) > 0 && rapid.IntRange(0, 9).Draw(t, "triggerCore") < 3 {
		s.Trigger = rapid.SampledFrom(core).Draw(t, "coreTrigger")
	}
	// the narrowest of them: between a reader's started-check and the effect of its SetReadDeadline
	var arm []string
	for _, ev := range reach {
		if strings.HasSuffix(ev, "setReadDeadline.enter(future)") {
			arm = append(arm, ev)
		}
	}
	if len(arm) > 0 && rapid.IntRange(0, 9).Draw(t, "triggerArm") == 0 {
		s.Trigger = rapid.SampledFrom(arm).Draw(t, "armTrigger")
	}
	if rapid.IntRange(0, 11).Draw(t, "triggerWild") == 0 && nc > 0 {
		j := rapid.IntRange(1, nc).Draw(t, "tj")
		q := rapid.IntRange(1, 4).Draw(t, "tq")
		s.Trigger = rapid.SampledFrom([]string{
			fmt.Sprintf("handler.exit(%d,%d)", j, q), fmt.Sprintf("client(%d).recv(%d)", j, q),
			fmt.Sprintf("reader.enter(%d,%d)", j, q), fmt.Sprintf("client(%d).close", j), "clients.done",
		}).Draw(t, "wild")
	}
	s.FallbackMs = rapid.SampledFrom([]int{60, 100, 150}).Draw(t, "fallback")
	s.HoldMs = rapid.SampledFrom([]int{0, 1, 3, 5, 10, 20}).Draw(t, "hold")
	if !s.spied() && s.HoldMs == 0 {
		s.HoldMs = 2 // real UDP: "release" is the only observable sign that Shutdown has set its deadline
	}
	// context
	switch rapid.IntRange(0, 9).Draw(t, "ctx") {
	case 0:
		s.Ctx = "expired"
	case 1, 2:
		s.Ctx = "expireAt"
		s.CtxAt = rapid.SampledFrom(postEvents).Draw(t, "ctxAt")
		if s.CtxAt == "release" && rapid.Bool().Draw(t, "ctxEarly") {
			s.CtxAt = "shutdown.call"
		}
	default:
		s.Ctx = "background"
		s.CtxAPI = rapid.Bool().Draw(t, "ctxAPI")
	}
	// misuse
	nm := rapid.SampledFrom([]int{0, 0, 0, 1, 1, 2}).Draw(t, "misuse")
	seen := map[string]bool{}
	for i := 0; i < nm; i++ {
		op := rapid.SampledFrom([]string{"shutdownBeforeStart", "failedStart", "failedStart", "secondStart", "secondStart", "secondShutdown", "secondShutdown", "restartAfterShutdown"}).Draw(t, "op")
		if seen[op] {
			continue
		}
		seen[op] = true
		m := Misuse{Op: op}
		switch op {
		case "failedStart":
			m.At = rapid.SampledFrom(failedStartKinds).Draw(t, "failKind")
		case "secondStart":
			m.At = rapid.SampledFrom(reach).Draw(t, "startAgainAt")
		case "secondShutdown":
			cands := []string{"shutdown.call", "shutdown.return(*)", "serve.return(*)"}
			if s.spied() {
				if s.stream() {
					cands = append(cands, "lis.close")
				} else {
					cands = append(cands, "pc.setReadDeadline(past)")
				}
			}
			m.At = rapid.SampledFrom(cands).Draw(t, "stopAgainAt")
		}
		s.Misuse = append(s.Misuse, m)
	}
	// interposition plan: first the schedule that belongs to the trigger, then a few generic waits
	if rapid.IntRange(0, 9).Draw(t, "pin") < 7 {
		if w, ok := pinFor(s, s.Trigger); ok {
			s.Waits = append(s.Waits, w)
			var j int
			if s.spied() && scan(s.Trigger, "lis.accept.return(%d)", &j) && rapid.IntRange(0, 2).Draw(t, "holdSd") > 0 {
				// keep Shutdown inside its critical section (it calls Listener.Close with the
				// server lock held) while the accept loop and the new conn's goroutine queue up
				// behind the lock; "hold-expired" is never logged, the wait simply lasts TimeoutMs
				s.Waits = append(s.Waits, memnet.Wait{At: "lis.close", For: "hold-expired", Once: true, TimeoutMs: rapid.SampledFrom([]int{5, 10, 20}).Draw(t, "holdSdMs")})
			}
		}
	}
	if s.Transport == "memPacket" && rapid.Bool().Draw(t, "slowClose") {
		// a slow Close: the serve loop's own deferred Close of the PacketConn does not take effect
		// before Shutdown has returned - whatever Shutdown promises about the socket must then be
		// Shutdown's own doing
		s.Waits = append(s.Waits, memnet.Wait{At: "pc.close.enter", For: "shutdown.return(*)", Once: true, TimeoutMs: 30})
	}
	if s.spied() {
		nw := rapid.SampledFrom([]int{0, 0, 1, 1, 2}).Draw(t, "waits")
		for i := 0; i < nw; i++ {
			s.Waits = append(s.Waits, genWait(t, s, reach))
		}
	}
	return s
}

// pinFor returns the wait that turns "Shutdown is triggered at ev" into the tightest schedule the
// I/O boundaries allow: the goroutine that produced ev is held until Shutdown has done the step
// that is supposed to stop it.
func pinFor(s Scenario, ev string) (memnet.Wait, bool) {
	var j, q int
	switch {
	case s.stream() && scan(ev, "reader.enter(%d,%d)", &j, &q):
		// between isStarted() and readTCP: Shutdown sets the past deadline, then readTCP runs
		return memnet.Wait{At: ev, For: fmt.Sprintf("conn(%d).setReadDeadline(past)", j), Once: true}, true
	case !s.stream() && strings.HasPrefix(ev, "reader.enter(pc,"):
		if !s.spied() {
			// real UDP socket: its deadline calls are not observable; "release" is logged HoldMs
			// after shutdown.call, when Shutdown has long set the past deadline
			return memnet.Wait{At: ev, For: "release", Once: true}, true
		}
		return memnet.Wait{At: ev, For: "pc.setReadDeadline(past)", Once: true}, true
	case scan(ev, "lis.accept.return(%d)", &j):
		// Accept has produced conn j, which gets registered only after Shutdown walked the conns
		return memnet.Wait{At: ev, For: "lis.close", Once: true}, true
	case scan(ev, "conn(%d).read.enter", &j):
		return memnet.Wait{At: ev, For: fmt.Sprintf("conn(%d).setReadDeadline(past)", j), Once: true}, true
	case scan(ev, "conn(%d).setReadDeadline.enter(future)", &j):
		// the reader has decided to arm its deadline (it saw the server started) but the deadline
		// is not in effect yet: if Shutdown can run in between, its past deadline is overwritten.
		// (In the pinned code the decision and the call sit under the read lock, Shutdown cannot
		// get in and this wait simply runs out.)
		return memnet.Wait{At: ev, For: fmt.Sprintf("conn(%d).setReadDeadline(past)", j), Once: true, TimeoutMs: 60}, true
	case ev == "pc.setReadDeadline.enter(future)":
		return memnet.Wait{At: ev, For: "pc.setReadDeadline(past)", Once: true, TimeoutMs: 60}, true
	case scan(ev, "conn(%d).setReadDeadline(future)", &j):
		// readTCP holds the read lock here; Shutdown must wait for it
		return memnet.Wait{At: ev, For: "shutdown.call", Once: true, TimeoutMs: 50}, true
	case ev == "serveconn.start":
		// the conn's goroutine has started but not yet looked at the started flag
		return memnet.Wait{At: ev, For: "lis.close", Once: true}, true
	case scan(ev, "accept.policy(%d,%d)", &j, &q):
		// the request has been read; the handler starts only after Shutdown has done its part
		if s.stream() {
			return memnet.Wait{At: ev, For: "lis.close", Once: true}, true
		}
		if s.spied() {
			return memnet.Wait{At: ev, For: "pc.setReadDeadline(past)", Once: true}, true
		}
		return memnet.Wait{At: ev, For: "release", Once: true}, true
	case ev == "pc.readFrom.enter":
		return memnet.Wait{At: ev, For: "pc.setReadDeadline(past)", Once: true}, true
	case ev == "lis.accept.enter":
		return memnet.Wait{At: ev, For: "lis.close", Once: true}, true
	case scan(ev, "writer.enter(%d,%d)", &j, &q) || scan(ev, "handler.enter(%d,%d)", &j, &q):
		if s.stream() {
			return memnet.Wait{At: ev, For: "lis.close", Once: true}, true
		}
		return memnet.Wait{At: ev, For: "pc.setReadDeadline(past)", Once: true}, true
	}
	return memnet.Wait{}, false
}

func scan(s, format string, a ...any) bool {
	n, err := fmt.Sscanf(s, format, a...)
	if err != nil || n != len(a) {
		return false
	}
	// Sscanf ignores trailing input: compare the re-rendered form
	vals := make([]any, len(a))
	for i, p := range a {
		vals[i] = *(p.(*int))
	}
	return fmt.Sprintf(format, vals...) == s
}

func genWait(t *rapid.T, s Scenario, reach []string) memnet.Wait {
	var ats, fors []string
	if s.stream() {
		ats = []string{"lis.close", "conn(*).setReadDeadline(past)", "lis.accept.enter", "lis.accept.return(*)", "reader.enter(*)", "conn(*).read.enter", "conn(*).close", "conn(*).setReadDeadline(future)", "conn(*).write(*)"}
		fors = []string{"shutdown.call", "lis.close", "release", "conn(*).setReadDeadline(past)", "handler.exit(*)", "handler.enter(*)", "client(*).sent(*)", "reader.enter(*)", "lis.accept.return(*)"}
	} else {
		ats = []string{"pc.setReadDeadline(past)", "pc.readFrom.enter", "pc.readFrom.return(*)", "reader.enter(*)", "pc.writeTo(*)", "pc.setReadDeadline(future)"}
		fors = []string{"shutdown.call", "pc.setReadDeadline(past)", "release", "handler.exit(*)", "handler.enter(*)", "client(*).sent(*)", "reader.enter(*)"}
	}
	ats = append(ats, "handler.enter(*)", "writer.enter(*)", "handler.written(*)", "handler.exit(*)", "shutdown.call", "srv.started", "accept.policy(*)", "serveconn.start")
	w := memnet.Wait{Once: true, TimeoutMs: rapid.SampledFrom([]int{20, 40, 80}).Draw(t, "wt")}
	w.At = rapid.SampledFrom(ats).Draw(t, "at")
	w.For = rapid.SampledFrom(fors).Draw(t, "for")
	if rapid.Bool().Draw(t, "atConcrete") {
		w.At = rapid.SampledFrom(reach).Draw(t, "atR")
	}
	return w
}
