package c13

import (
	"fmt"
	"strings"

	"pgregory.net/rapid"

	"verif/harness/memnet"
	"verif/harness/pbt"
)

// A Scenario is one generated case (DESIGN Appendix C). Plain JSON-serialisable.
type Scenario struct {
	// memTCP | memTLS | memPacket | realUDP | realTCP: the harness makes the socket, the server is
	// started with ActivateAndServe. lnsUDP | lnsTCP (round 8): the server is started with
	// ListenAndServe on 127.0.0.1:0 - the library makes the socket and overwrites Server.PacketConn /
	// Server.Listener itself, at every start; nothing below the server can be observed
	Transport  string
	Clients    []Client // client j (1-based) = connection j for stream transports
	Trigger    string   // event (pattern) at which the controller calls Shutdown
	FallbackMs int      // Shutdown is called anyway after this long without the trigger ("trigger-fallback")
	Ctx        string   // background | expired | expireAt
	CtxAt      string   // expireAt: the event at which the context is cancelled
	CtxAPI     bool     // background: call ShutdownContext(context.Background()) instead of Shutdown()
	HoldMs     int      // how long after shutdown.call the controller logs "release" (frees held handlers)
	Misuse     []Misuse // start/stop misuse operations
	MaxTCP     int      // Server.MaxTCPQueries: -1 (unlimited), 0 (default 128), 1, 2, 128
	// transient faults of the accept / datagram-read step (in-memory transports and the wrapped
	// loopback listener): errors that are Temporary() - with or without Timeout() - must be
	// retried by the serve loop, the service goes on as if nothing had happened
	TempErrs  []string      // kinds (tempNotTimeout | tempTimeout) queued before the server starts
	TempErrAt string        // one more tempNotTimeout error is injected when this event is logged ("" = none)
	Waits     []memnet.Wait // interposition plan
	// the second life cycle on the same Server value (misuse restartAfterShutdown); the zero value is
	// the simplest one: after run 1 is completely over, one fast exchange, Shutdown
	Restart Restart
	// Server.WriteTimeout in milliseconds (round 9): 0 = not set (the library's default, 2 s) | 1, 2, 5 =
	// shorter than the time a held handler takes to answer once Shutdown has been called (HoldMs, and
	// Restart.HoldMs for the second run, are then mostly stretched beyond it) | 3600000. The statement
	// puts no time limit on "replies written by those handlers are still delivered": a handler that was
	// started gets its reply through however long after the Shutdown call it writes it, whatever the
	// server's timeouts are. (The pinned library does not use the field at all.)
	WriteTimeoutMs int `json:",omitempty"`
	// round 10: a fatal (non-temporary) error of the listener / socket while the server is running
	// (fatal_test.go); the zero value = none
	Fatal Fatal `json:",omitzero"`
}

// Restart describes the second run of the same Server value. Its clients are numbered 9, 10, ...
// (one connection and one request each), its events are shutdown2.call / shutdown2.return(...) /
// serve2.return(...) / release2; everything else (handler.*, client(j).*, lis.*, pc.*) keeps its name.
type Restart struct {
	// complete (""): run 1 is over - Shutdown has returned (nil or, when its context expired, the
	// context's error), the held handlers were released, the serve call has returned, nothing leaked.
	// drain: the second start follows at once on a Shutdown that gave up on its context, while the
	// handlers of run 1 are still held (they are released at Release1).
	// shutting (ListenAndServe transports only - there the library itself replaces the sockets in the
	// Server value): the second start is made while the Shutdown call of run 1 has not returned yet -
	// it is waiting for a held handler of run 1. The start is repeated while it answers "server already
	// started" (Shutdown 1 has not got to the flag yet). Shutdown 1 returns at Release1: because the
	// handlers of run 1 are let go (Ctx background) or because its context is cancelled (Ctx expireAt,
	// CtxAt release1; the handlers are then let go when run 2 is over). Whatever Shutdown 1 does when
	// it returns must leave run 2 alone
	When string
	// lnsUDP | lnsTCP: the transport of the second run when it differs from the first ("" = the same)
	Transport string   `json:",omitempty"`
	Reqs      []string // handler mode per request of run 2: fast | block (reply, wait for release2) | late (wait, reply); empty = one fast request
	// Hijack per request of run 2 ("" | before | after, see Req.Hijack); shorter than Reqs = not hijacked
	Hijack []string `json:",omitempty"`
	// when Shutdown of run 2 is called: entered ("": every request of run 2 has reached its handler,
	// the fast ones are answered) | sent (the requests are on their way) | started (right after the start notification)
	At     string
	CtxAPI bool // ShutdownContext(context.Background()) instead of Shutdown()
	HoldMs int  // how long the controller gives Shutdown 2 to return (it must not, while a handler of run 2 is held) before release2
	// drain / shutting: when the held handlers of run 1 are released (shutting with a context: when
	// the context of Shutdown 1 is cancelled): started2 (run 2 has just started) |
	// entered2 (run 2's handlers are running, before Shutdown 2) | held2 (Shutdown 2 has been called
	// and is waiting for run 2's handlers) | after2 (run 2 is over)
	Release1 string
}

func (s Scenario) hasRestart() bool {
	for _, m := range s.Misuse {
		if m.Op == "restartAfterShutdown" {
			return true
		}
	}
	return false
}

// drain reports whether the second start is to happen while run 1 is still draining. It needs a
// context that expires without the controller's release and no other Shutdown caller.
func (s Scenario) drain() bool {
	if !s.hasRestart() || s.Restart.When != "drain" {
		return false
	}
	for _, m := range s.Misuse {
		if m.Op == "secondShutdown" {
			return false
		}
	}
	return s.Ctx == "expired" || (s.Ctx == "expireAt" && s.CtxAt != "release")
}

// shutting reports whether the second start is to happen while the Shutdown call of run 1 is still
// waiting (see Restart.When).
func (s Scenario) shutting() bool {
	if !s.hasRestart() || s.Restart.When != "shutting" || !s.lns() {
		return false
	}
	for _, m := range s.Misuse {
		if m.Op == "secondShutdown" {
			return false
		}
	}
	return s.Ctx == "background" || (s.Ctx == "expireAt" && s.CtxAt == "release1")
}

// transport2 is the transport of the second run.
func (s Scenario) transport2() string {
	if s.lns() && strings.HasPrefix(s.Restart.Transport, "lns") {
		return s.Restart.Transport
	}
	return s.Transport
}

// restartReqs returns the handler modes of the second run's requests.
func (s Scenario) restartReqs() []string {
	if len(s.Restart.Reqs) == 0 {
		return []string{"fast"}
	}
	return s.Restart.Reqs
}

// knownRestartDrain: see KNOWN_FINDINGS.txt. While it is live the generator turns a drawn
// "restart during drain" into a restart after run 1 is over.
const knownRestartDrain = "restart-during-drain"

// knownListenRestart (round 8, remark 1): ShutdownContext closes Server.PacketConn when it returns,
// and reads that field then, without the lock; a ListenAndServe("udp") made while it was waiting has
// put the socket of the NEXT run there. While it is live a drawn restart(shutting) whose second run
// is on lnsUDP becomes a restart after run 1 is over.
const knownListenRestart = "shutdown-closes-socket-of-next-listen"

// knownStaleSocket (round 8, found by the thorough tier while remark 1 was being reproduced): the
// mirror image - ShutdownContext also acts on a socket that an EARLIER run left in the Server value.
// Run 1 (ListenAndServe udp) is still waited for by its Shutdown, run 2 is ListenAndServe tcp:
// Server.PacketConn still holds the socket of run 1, and the Shutdown of run 2 closes it under the
// handlers of run 1. While it is live a drawn restart(shutting) lnsUDP -> lnsTCP becomes a restart
// after run 1 is over.
const knownStaleSocket = "shutdown-closes-socket-of-draining-run"

// knownSdInsideFailingStart (round 8, remark 3): a Shutdown that gets in between the start's unlock
// and serveUDP's "Reader has no ReadPacketConn" return waits for ever. While it is live the
// generator makes that Shutdown wait for the start to return (Sd = "").
const knownSdInsideFailingStart = "shutdown-inside-failing-start"

// knownLateHandover (round 10): after a ShutdownContext that gave up on its context has returned, a
// request that the server's Reader was still busy with is handed to the serve loop and gets a
// handler. While it is live the generator does not draw the schedule that places the return of a
// Reader behind the return of such a Shutdown, and a case that gets there by chance (a race between
// the read and a Shutdown whose context has already expired) is not judged on that point.
const knownLateHandover = "handler-started-after-shutdown-gave-up"

// knownStaleReader (round 10): readTCP / readUDP / readPacketConn arm the read deadline "if
// srv.started" - the flag of whatever run the Server value is on - so a Reader of a run that has been
// shut down, entered before and continued after the same value was started again, overwrites the past
// deadline of its Shutdown and sleeps for ReadTimeout. While it is live, a restart during drain /
// during Shutdown is generated without plan waits that hold a Reader at its entry.
const knownStaleReader = "reader-of-shut-down-run-rearms-deadline-after-restart"

type Client struct {
	Reqs     []Req
	Close    string // end (keeps the conn until teardown) | afterRecv | afterSend (closes without reading the last reply)
	StartAt  string // event at which the client starts dialling/sending; "" = srv.started
	Pipeline bool   // send all requests before reading any reply
	Partial  int    // stream, Close == end: afterwards send an incomplete frame and idle: 1 = first prefix octet, 2 = prefix + half a message
}

type Req struct {
	Mode  string // fast: reply, return | block: reply, wait, return | late: wait, reply, return
	Until string // event that ends the wait; "release" always ends it too
	// Hijack: the handler takes the connection over with ResponseWriter.Hijack() - before it does
	// anything else ("before") or right after it has written its reply ("after") - goes on as Mode
	// says and closes the connection itself (ResponseWriter.Close) just before it returns: the
	// zone-transfer pattern. The handler has been started all the same: Shutdown waits for it (I1),
	// its reply is delivered (I2); the server serves nothing more on that connection.
	Hijack string `json:",omitempty"`
}

type Misuse struct {
	Op string // shutdownBeforeStart | failedStart | secondStart | secondShutdown | restartAfterShutdown
	At string // event at which the controller performs it (ignored for the first and last); failedStart: the kind of failure
	// failedStart: a Shutdown that runs concurrently with the start that fails. It is called (on a
	// goroutine of its own) from inside a callback the library makes during that start - decorate:
	// DecorateReader, i.e. inside serveUDP before the serve loop exists | notify: NotifyStartedFunc,
	// i.e. the serve loop is about to make the accept / read that fails - and the callback returns
	// only when that Shutdown has done its locked part (observed on the in-memory sockets) or a few
	// milliseconds later. "" = Shutdown only after the start has returned. Neither call may block.
	Sd string `json:",omitempty"`
}

func (s Scenario) stream() bool {
	return s.Transport == "memTCP" || s.Transport == "memTLS" || s.Transport == "realTCP" || s.Transport == "lnsTCP"
}
func (s Scenario) lns() bool       { return strings.HasPrefix(s.Transport, "lns") }             // started with ListenAndServe
func (s Scenario) spied() bool     { return s.Transport != "realUDP" && !s.lns() }              // I/O-level events available
func (s Scenario) loopback() bool  { return strings.HasPrefix(s.Transport, "real") || s.lns() } // kernel sockets on 127.0.0.1
func (s Scenario) kernelUDP() bool { return s.Transport == "realUDP" || s.Transport == "lnsUDP" }
func (s Scenario) kernelTCP() bool { return s.Transport == "realTCP" || s.Transport == "lnsTCP" }

// postShutdown reports whether an event can only happen once Shutdown has been called.
func postShutdown(ev string) bool {
	return ev == "release" || ev == "shutdown.call" || ev == "lis.close" || ev == "pc.close" || ev == "ctx.cancel" ||
		strings.HasPrefix(ev, "shutdown.return") || strings.HasPrefix(ev, "serve.return") ||
		strings.HasSuffix(ev, "setReadDeadline(past)")
}

// reachable lists events that the scenario is expected to produce before Shutdown is called
// (so that they are usable as trigger / misuse / start points), in a deterministic order.
func (s Scenario) reachable() []string {
	out := []string{"srv.started"}
	if s.stream() {
		if s.spied() {
			out = append(out, "lis.accept.enter")
		}
	} else {
		out = append(out, "reader.enter(pc,1)")
		if s.spied() {
			out = append(out, "pc.setReadDeadline.enter(future)", "pc.readFrom.enter")
		}
	}
	allDone := true
	for ji, c := range s.Clients {
		j := ji + 1
		if c.StartAt != "" && postShutdown(c.StartAt) {
			allDone = false
			continue
		}
		out = append(out, fmt.Sprintf("client(%d).dial", j))
		if s.stream() {
			if s.spied() {
				out = append(out, fmt.Sprintf("lis.accept.return(%d)", j))
			}
			out = append(out, "serveconn.start", fmt.Sprintf("reader.enter(%d,1)", j))
			if s.spied() && s.Transport != "memTLS" {
				out = append(out, fmt.Sprintf("conn(%d).setReadDeadline.enter(future)", j), fmt.Sprintf("conn(%d).setReadDeadline(future)", j), fmt.Sprintf("conn(%d).read.enter", j))
			}
		}
		stopped := false
		if c.Pipeline {
			for qi := range c.Reqs {
				out = append(out, fmt.Sprintf("client(%d).sent(%d)", j, qi+1))
			}
		}
		for qi, r := range c.Reqs {
			q := qi + 1
			if !c.Pipeline {
				out = append(out, fmt.Sprintf("client(%d).sent(%d)", j, q))
			}
			if s.stream() && s.MaxTCP > 0 && qi >= s.MaxTCP {
				stopped = true // the server closes the connection after MaxTCPQueries requests
			}
			if stopped { // stream: the conn goroutine is still inside an earlier handler
				break
			}
			out = append(out, fmt.Sprintf("accept.policy(%d,%d)", j, q), fmt.Sprintf("handler.enter(%d,%d)", j, q))
			if qi == len(c.Reqs)-1 && c.Close == "afterSend" {
				out = append(out, fmt.Sprintf("client(%d).close", j))
			}
			held := r.Mode != "fast" && postShutdown(r.Until)
			if r.Mode == "late" && held {
				stopped = true
				break
			}
			out = append(out, fmt.Sprintf("writer.enter(%d,%d)", j, q), fmt.Sprintf("handler.written(%d,%d)", j, q))
			if !(c.Close == "afterSend" && (qi == len(c.Reqs)-1 || c.Pipeline)) {
				out = append(out, fmt.Sprintf("client(%d).recv(%d)", j, q))
			}
			if held {
				if s.stream() {
					stopped = true
				}
				continue // packet transports: the next datagram gets its own goroutine
			}
			out = append(out, fmt.Sprintf("handler.exit(%d,%d)", j, q))
			if s.stream() {
				if r.Hijack != "" { // the connection is the handler's now, and the handler has closed it
					stopped = true
					break
				}
				out = append(out, fmt.Sprintf("reader.enter(%d,%d)", j, q+1))
			}
		}
		if stopped {
			allDone = false
		} else if c.Close == "afterRecv" {
			out = append(out, fmt.Sprintf("client(%d).close", j))
		} else if c.Close == "end" && c.Partial > 0 && s.stream() {
			out = append(out, fmt.Sprintf("client(%d).partial", j))
		}
	}
	if allDone {
		out = append(out, "clients.done")
	}
	return out
}

// failedStartKinds: ways in which a start fails before (or, closedListener, right after) the server
// begins to serve. Afterwards Shutdown must return at once and the same Server value must start.
var failedStartKinds = []string{"closedUDP", "closedUDP", "closedListener", "closedPacketConn", "closedMemListener", "permanentAcceptErr", "permanentReadErr", "timeoutNotTemporaryAccept", "timeoutNotTemporaryRead", "nilListeners", "readerWithoutPacketConn", "readerWithoutPacketConn", "badAddrTCP", "badAddrUDP", "badNet", "portInUseTCP", "portInUseUDP", "tlsNoCert"}

var transportsMem = []string{"memTCP", "memTCP", "memTCP", "memTLS", "memPacket", "memPacket", "memPacket"}
var transportsReal = []string{"realUDP", "realTCP"}
var transportsAll = []string{"memTCP", "memTCP", "memTLS", "memPacket", "memPacket", "memPacket", "realUDP", "realUDP", "realTCP"}

func genMem(t *rapid.T) Scenario  { return genScenario(t, transportsMem) }
func genReal(t *rapid.T) Scenario { return genScenario(t, transportsReal) }

// transportsLns: the server makes its own sockets (ListenAndServe).
var transportsLns = []string{"lnsUDP", "lnsUDP", "lnsTCP"}

// genScenario draws a scenario; when it contains a restart, the second run is drawn last but one
// and the round-8 dimensions last (so that the draws of everything else do not depend on them).
func genScenario(t *rapid.T, transports []string) Scenario {
	s := genCore(t, transports)
	if s.hasRestart() {
		drawRestart(t, &s)
	}
	drawExtras(t, &s)
	drawFatal(t, &s, false)
	drawReaderBusy(t, &s)
	return s
}

// genRestart (sub scenario-restart): every case restarts the same Server value, and in 70 % of the
// cases the first run ends the way that leaves most state behind: a handler is held when Shutdown
// is called and the context of ShutdownContext expires before the handler is released.
func genRestart(t *rapid.T) Scenario { return genRestartOn(t, transportsAll) }

// genListen (sub scenario-listen): the same through ListenAndServe; one case in four is an ordinary
// scenario (no restart unless drawn).
func genListen(t *rapid.T) Scenario {
	if rapid.IntRange(0, 3).Draw(t, "plainListen") == 0 {
		return genScenario(t, transportsLns)
	}
	return genRestartOn(t, transportsLns)
}

func genRestartOn(t *rapid.T, transports []string) Scenario {
	s := genCore(t, transports)
	if !s.hasRestart() {
		s.Misuse = append(s.Misuse, Misuse{Op: "restartAfterShutdown"})
	}
	if rapid.IntRange(0, 9).Draw(t, "giveUp") < 7 {
		holdFirst(t, &s)
		s.CtxAPI = false
		s.Ctx = rapid.SampledFrom([]string{"expired", "expireAt", "expireAt"}).Draw(t, "ctxGiveUp")
		if s.Ctx == "expireAt" {
			s.CtxAt = "shutdown.call"
			if s.spied() && rapid.Bool().Draw(t, "ctxAtIO") {
				if s.stream() {
					s.CtxAt = "lis.close"
				} else {
					s.CtxAt = "pc.setReadDeadline(past)"
				}
			}
		}
	}
	drawRestart(t, &s)
	drawExtras(t, &s)
	drawFatal(t, &s, false)
	drawReaderBusy(t, &s)
	return s
}

// holdFirst makes request (1,1) one whose handler is held until the controller lets go, and (three
// times out of four) Shutdown is called when that handler has been entered.
func holdFirst(t *rapid.T, s *Scenario) {
	if len(s.Clients) == 0 {
		s.Clients = append(s.Clients, Client{Close: "end"})
	}
	c := &s.Clients[0]
	c.StartAt = ""
	if len(c.Reqs) == 0 {
		c.Reqs = append(c.Reqs, Req{})
	}
	c.Reqs[0] = Req{Mode: rapid.SampledFrom([]string{"block", "late"}).Draw(t, "heldMode"), Until: "release"}
	if rapid.IntRange(0, 3).Draw(t, "keepTrigger") > 0 {
		s.Trigger = "handler.enter(1,1)"
	}
}

func dropMisuse(s *Scenario, op string) {
	var ms []Misuse
	for _, m := range s.Misuse {
		if m.Op != op {
			ms = append(ms, m)
		}
	}
	s.Misuse = ms
}

// drawRestart draws the second run and, for a restart during drain / during Shutdown, removes from
// the first run what cannot be combined with it (see Scenario.drain, Scenario.shutting).
func drawRestart(t *rapid.T, s *Scenario) {
	var rs Restart
	whens := []string{"complete", "drain"}
	if s.lns() {
		whens = []string{"complete", "drain", "shutting", "shutting"}
	}
	rs.When = rapid.SampledFrom(whens).Draw(t, "restartWhen")
	if rs.When == "drain" && pbt.Known(knownRestartDrain) {
		pbt.Excluded(knownRestartDrain)
		rs.When = "complete"
	}
	for i, n := 0, rapid.SampledFrom([]int{1, 1, 2, 3}).Draw(t, "restartReqs"); i < n; i++ {
		rs.Reqs = append(rs.Reqs, rapid.SampledFrom([]string{"fast", "block", "late", "late"}).Draw(t, "restartMode"))
	}
	rs.At = rapid.SampledFrom([]string{"entered", "entered", "entered", "sent", "started"}).Draw(t, "restartAt")
	rs.CtxAPI = rapid.Bool().Draw(t, "restartCtxAPI")
	rs.HoldMs = rapid.SampledFrom([]int{2, 5, 10, 20}).Draw(t, "restartHold")
	if s.lns() && rapid.IntRange(0, 2).Draw(t, "restartSwitch") == 0 {
		// the Server value changes its transport: the field of the other kind keeps the (closed) socket of run 1
		rs.Transport = map[string]string{"lnsUDP": "lnsTCP", "lnsTCP": "lnsUDP"}[s.Transport]
	}
	if rs.When == "shutting" {
		eff2 := s.Transport
		if rs.Transport != "" {
			eff2 = rs.Transport
		}
		if eff2 == "lnsUDP" && pbt.Known(knownListenRestart) {
			pbt.Excluded(knownListenRestart)
			rs.When = "complete"
		} else if s.Transport == "lnsUDP" && eff2 == "lnsTCP" && pbt.Known(knownStaleSocket) {
			pbt.Excluded(knownStaleSocket)
			rs.When = "complete"
		}
	}
	switch rs.When {
	case "drain":
		rs.Release1 = rapid.SampledFrom([]string{"started2", "entered2", "held2", "held2", "after2"}).Draw(t, "release1")
		if s.Ctx == "background" {
			s.Ctx, s.CtxAPI = "expired", false
		}
		if s.Ctx == "expireAt" && s.CtxAt == "release" {
			s.CtxAt = "shutdown.call"
		}
		dropMisuse(s, "secondShutdown")
	case "shutting":
		rs.Release1 = rapid.SampledFrom([]string{"started2", "entered2", "entered2", "held2", "held2", "after2"}).Draw(t, "release1")
		// Shutdown 1 must still be waiting when the second start is made
		holdFirst(t, s)
		if rapid.Bool().Draw(t, "shuttingCtx") {
			s.Ctx, s.CtxAt, s.CtxAPI = "expireAt", "release1", false
		} else {
			s.Ctx, s.CtxAt, s.CtxAPI = "background", "", rapid.Bool().Draw(t, "shuttingCtxAPI")
		}
		dropMisuse(s, "secondShutdown")
		if pbt.Known(knownStaleReader) {
			// no Reader of run 1 is held at its entry across the second start
			var ws []memnet.Wait
			for _, w := range s.Waits {
				if strings.HasPrefix(w.At, "reader.enter(") {
					pbt.Excluded(knownStaleReader)
					continue
				}
				ws = append(ws, w)
			}
			s.Waits = ws
		}
	}
	s.Restart = rs
}

// drawExtras draws the dimensions that were added in round 8, after everything else:
// handlers that hijack their connection (first and second run), and a Shutdown that is concurrent
// with a start that fails.
func drawExtras(t *rapid.T, s *Scenario) {
	den := 4 // one request in four on a stream transport
	if !s.stream() {
		den = 10 // a no-op for the library there, but a legal call
	}
	for ji := range s.Clients {
		for qi := range s.Clients[ji].Reqs {
			if rapid.IntRange(1, den).Draw(t, "hijackOn") == 1 {
				s.Clients[ji].Reqs[qi].Hijack = rapid.SampledFrom([]string{"before", "before", "after"}).Draw(t, "hijack")
			}
		}
	}
	if s.hasRestart() {
		any := false
		hj := make([]string, len(s.Restart.Reqs))
		for i := range hj {
			if rapid.IntRange(1, den).Draw(t, "hijackOn2") == 1 {
				hj[i] = rapid.SampledFrom([]string{"before", "before", "after"}).Draw(t, "hijack2")
				any = true
			}
		}
		if any {
			s.Restart.Hijack = hj
		}
	}
	for i := range s.Misuse {
		m := &s.Misuse[i]
		if m.Op != "failedStart" {
			continue
		}
		switch rapid.IntRange(0, 3).Draw(t, "failSd") {
		case 2:
			m.Sd = "decorate"
			if !contains(sdDecorateKinds, m.At) {
				m.At = rapid.SampledFrom(sdDecorateKinds).Draw(t, "failSdKind")
			}
		case 3:
			m.Sd = "notify"
			if !contains(sdNotifyKinds, m.At) {
				m.At = rapid.SampledFrom(sdNotifyKinds).Draw(t, "failSdKind")
			}
		}
		if m.Sd == "decorate" && m.At == "readerWithoutPacketConn" && pbt.Known(knownSdInsideFailingStart) {
			pbt.Excluded(knownSdInsideFailingStart)
			m.Sd = ""
		}
	}
	// round 9, drawn after everything else: the server's write timeout, and - when it is a short one -
	// handlers that answer later than that after the Shutdown call
	s.WriteTimeoutMs = rapid.SampledFrom([]int{0, 0, 0, 1, 1, 2, 2, 5, 3600000}).Draw(t, "writeTimeoutMs")
	if s.WriteTimeoutMs > 0 && s.WriteTimeoutMs <= 5 && rapid.IntRange(0, 3).Draw(t, "answerPastWriteTimeout") > 0 {
		if min := 3*s.WriteTimeoutMs + 4; s.HoldMs < min {
			s.HoldMs = min
		}
		if min := 3*s.WriteTimeoutMs + 4; s.hasRestart() && s.Restart.HoldMs < min {
			s.Restart.HoldMs = min
		}
	}
}

// failing starts during which the library calls DecorateReader (serveUDP is reached) / NotifyStartedFunc
// (a serve loop is reached)
var sdDecorateKinds = []string{"readerWithoutPacketConn", "readerWithoutPacketConn", "closedPacketConn", "permanentReadErr", "timeoutNotTemporaryRead"}
var sdNotifyKinds = []string{"closedPacketConn", "permanentReadErr", "timeoutNotTemporaryRead", "closedMemListener", "closedListener", "permanentAcceptErr", "timeoutNotTemporaryAccept"}

func contains(l []string, x string) bool {
	for _, y := range l {
		if x == y {
			return true
		}
	}
	return false
}

func genCore(t *rapid.T, transports []string) Scenario {
	var s Scenario
	s.Transport = rapid.SampledFrom(transports).Draw(t, "transport")
	s.MaxTCP = rapid.SampledFrom([]int{-1, -1, -1, 0, 0, 1, 2, 128}).Draw(t, "maxTCP")
	if s.spied() {
		for i, n := 0, rapid.SampledFrom([]int{0, 0, 0, 1, 2, 3}).Draw(t, "tempErrs"); i < n; i++ {
			s.TempErrs = append(s.TempErrs, rapid.SampledFrom([]string{"tempNotTimeout", "tempNotTimeout", "tempTimeout"}).Draw(t, "tempErrKind"))
		}
	}
	nc := rapid.SampledFrom([]int{0, 1, 1, 1, 2, 2, 3, 4}).Draw(t, "clients")
	postEvents := []string{"release", "release", "release", "shutdown.call"}
	if s.stream() && s.spied() {
		postEvents = append(postEvents, "lis.close")
	} else if s.spied() {
		postEvents = append(postEvents, "pc.setReadDeadline(past)")
	}
	for j := 1; j <= nc; j++ {
		var c Client
		nr := rapid.SampledFrom([]int{0, 1, 1, 1, 2, 2, 3}).Draw(t, "reqs")
		for q := 1; q <= nr; q++ {
			r := Req{Mode: rapid.SampledFrom([]string{"fast", "fast", "block", "late", "late"}).Draw(t, "mode")}
			if r.Mode != "fast" {
				r.Until = rapid.SampledFrom(postEvents).Draw(t, "until")
				if s.stream() && s.spied() && rapid.IntRange(0, 5).Draw(t, "untilConn") == 0 {
					r.Until = fmt.Sprintf("conn(%d).setReadDeadline(past)", j)
				}
			}
			c.Reqs = append(c.Reqs, r)
		}
		c.Close = rapid.SampledFrom([]string{"end", "end", "afterRecv", "afterRecv", "afterSend"}).Draw(t, "close")
		if nr == 0 && c.Close == "afterSend" {
			c.Close = "afterRecv"
		}
		c.Pipeline = nr > 1 && rapid.IntRange(0, 3).Draw(t, "pipeline") == 0
		if s.stream() && c.Close == "end" && rapid.IntRange(0, 3).Draw(t, "partialOn") == 0 {
			c.Partial = rapid.IntRange(1, 2).Draw(t, "partial")
		}
		s.Clients = append(s.Clients, c)
	}
	// client start points: mostly at once; sometimes chained to an earlier client's event or to the shutdown
	for ji := range s.Clients {
		switch rapid.IntRange(0, 9).Draw(t, "startKind") {
		case 0:
			s.Clients[ji].StartAt = rapid.SampledFrom([]string{"shutdown.call", "shutdown.call", "shutdown.return(*)"}).Draw(t, "startPost")
			if s.spied() && rapid.Bool().Draw(t, "startLis") {
				if s.stream() {
					s.Clients[ji].StartAt = "lis.close"
				} else {
					s.Clients[ji].StartAt = "pc.setReadDeadline(past)"
				}
			}
		case 1:
			if ji > 0 {
				tmp := s
				tmp.Clients = s.Clients[:ji]
				r := tmp.reachable()
				s.Clients[ji].StartAt = rapid.SampledFrom(r).Draw(t, "startAt")
			}
		}
	}
	reach := s.reachable()
	if s.spied() && rapid.IntRange(0, 4).Draw(t, "tempErrLate") == 0 {
		s.TempErrAt = rapid.SampledFrom(reach).Draw(t, "tempErrAt")
	}
	// trigger
	s.Trigger = rapid.SampledFrom(reach).Draw(t, "trigger")
	if rapid.IntRange(0, 3).Draw(t, "triggerLate") == 0 {
		s.Trigger = reach[len(reach)-1] // late in the scenario
	}
	// the windows the property names: between the started flag, connection registration and the
	// read-deadline updates – i.e. reader entry, Accept's return, start of a conn's goroutine,
	// between read and handler
	var core []string
	for _, ev := range reach {
		if strings.HasPrefix(ev, "reader.enter(") || strings.HasPrefix(ev, "lis.accept.return(") || ev == "serveconn.start" || strings.HasPrefix(ev, "accept.policy(") || strings.HasSuffix(ev, "setReadDeadline.enter(future)") {
			core = append(core, ev)
		}
	}
	if len(core) > 0 && rapid.IntRange(0, 9).Draw(t, "triggerCore") < 3 {
		s.Trigger = rapid.SampledFrom(core).Draw(t, "coreTrigger")
	}
	// the narrowest of them: between a reader's started-check and the effect of its SetReadDeadline
	var arm []string
	for _, ev := range reach {
		if strings.HasSuffix(ev, "setReadDeadline.enter(future)") {
			arm = append(arm, ev)
		}
	}
	if len(arm) > 0 && rapid.IntRange(0, 9).Draw(t, "triggerArm") == 0 {
		s.Trigger = rapid.SampledFrom(arm).Draw(t, "armTrigger")
	}
	if rapid.IntRange(0, 11).Draw(t, "triggerWild") == 0 && nc > 0 {
		j := rapid.IntRange(1, nc).Draw(t, "tj")
		q := rapid.IntRange(1, 4).Draw(t, "tq")
		s.Trigger = rapid.SampledFrom([]string{
			fmt.Sprintf("handler.exit(%d,%d)", j, q), fmt.Sprintf("client(%d).recv(%d)", j, q),
			fmt.Sprintf("reader.enter(%d,%d)", j, q), fmt.Sprintf("client(%d).close", j), "clients.done",
		}).Draw(t, "wild")
	}
	s.FallbackMs = rapid.SampledFrom([]int{60, 100, 150}).Draw(t, "fallback")
	s.HoldMs = rapid.SampledFrom([]int{0, 1, 3, 5, 10, 20}).Draw(t, "hold")
	if !s.spied() && s.HoldMs == 0 {
		s.HoldMs = 2 // real UDP: "release" is the only observable sign that Shutdown has set its deadline
	}
	// context
	switch rapid.IntRange(0, 9).Draw(t, "ctx") {
	case 0:
		s.Ctx = "expired"
	case 1, 2:
		s.Ctx = "expireAt"
		s.CtxAt = rapid.SampledFrom(postEvents).Draw(t, "ctxAt")
		if s.CtxAt == "release" && rapid.Bool().Draw(t, "ctxEarly") {
			s.CtxAt = "shutdown.call"
		}
	default:
		s.Ctx = "background"
		s.CtxAPI = rapid.Bool().Draw(t, "ctxAPI")
	}
	// misuse
	nm := rapid.SampledFrom([]int{0, 0, 0, 1, 1, 2}).Draw(t, "misuse")
	seen := map[string]bool{}
	for i := 0; i < nm; i++ {
		op := rapid.SampledFrom([]string{"shutdownBeforeStart", "failedStart", "failedStart", "secondStart", "secondStart", "secondShutdown", "secondShutdown", "restartAfterShutdown"}).Draw(t, "op")
		if seen[op] {
			continue
		}
		seen[op] = true
		m := Misuse{Op: op}
		switch op {
		case "failedStart":
			m.At = rapid.SampledFrom(failedStartKinds).Draw(t, "failKind")
		case "secondStart":
			m.At = rapid.SampledFrom(reach).Draw(t, "startAgainAt")
		case "secondShutdown":
			cands := []string{"shutdown.call", "shutdown.return(*)", "serve.return(*)"}
			if s.spied() {
				if s.stream() {
					cands = append(cands, "lis.close")
				} else {
					cands = append(cands, "pc.setReadDeadline(past)")
				}
			}
			m.At = rapid.SampledFrom(cands).Draw(t, "stopAgainAt")
		}
		s.Misuse = append(s.Misuse, m)
	}
	// interposition plan: first the schedule that belongs to the trigger, then a few generic waits
	if rapid.IntRange(0, 9).Draw(t, "pin") < 7 {
		if w, ok := pinFor(s, s.Trigger); ok {
			s.Waits = append(s.Waits, w)
			var j int
			if s.spied() && scan(s.Trigger, "lis.accept.return(%d)", &j) && rapid.IntRange(0, 2).Draw(t, "holdSd") > 0 {
				// keep Shutdown inside its critical section (it calls Listener.Close with the
				// server lock held) while the accept loop and the new conn's goroutine queue up
				// behind the lock; "hold-expired" is never logged, the wait simply lasts TimeoutMs
				s.Waits = append(s.Waits, memnet.Wait{At: "lis.close", For: "hold-expired", Once: true, TimeoutMs: rapid.SampledFrom([]int{5, 10, 20}).Draw(t, "holdSdMs")})
			}
		}
	}
	if s.Transport == "memPacket" && rapid.Bool().Draw(t, "slowClose") {
		// a slow Close: the serve loop's own deferred Close of the PacketConn does not take effect
		// before Shutdown has returned - whatever Shutdown promises about the socket must then be
		// Shutdown's own doing
		s.Waits = append(s.Waits, memnet.Wait{At: "pc.close.enter", For: "shutdown.return(*)", Once: true, TimeoutMs: 30})
	}
	if s.spied() {
		nw := rapid.SampledFrom([]int{0, 0, 1, 1, 2}).Draw(t, "waits")
		for i := 0; i < nw; i++ {
			s.Waits = append(s.Waits, genWait(t, s, reach))
		}
	}
	return s
}

// pinFor returns the wait that turns "Shutdown is triggered at ev" into the tightest schedule the
// I/O boundaries allow: the goroutine that produced ev is held until Shutdown has done the step
// that is supposed to stop it.
func pinFor(s Scenario, ev string) (memnet.Wait, bool) {
	w, ok := pinFor0(s, ev)
	if ok && s.lns() && w.For != "shutdown.call" {
		// nothing below the server is observable: "release" is logged HoldMs after shutdown.call,
		// when Shutdown has long done its locked part
		w.For = "release"
	}
	return w, ok
}

func pinFor0(s Scenario, ev string) (memnet.Wait, bool) {
	var j, q int
	switch {
	case s.stream() && scan(ev, "reader.enter(%d,%d)", &j, &q):
		// between isStarted() and readTCP: Shutdown sets the past deadline, then readTCP runs
		return memnet.Wait{At: ev, For: fmt.Sprintf("conn(%d).setReadDeadline(past)", j), Once: true}, true
	case !s.stream() && strings.HasPrefix(ev, "reader.enter(pc,"):
		if !s.spied() {
			// real UDP socket: its deadline calls are not observable; "release" is logged HoldMs
			// after shutdown.call, when Shutdown has long set the past deadline
			return memnet.Wait{At: ev, For: "release", Once: true}, true
		}
		return memnet.Wait{At: ev, For: "pc.setReadDeadline(past)", Once: true}, true
	case scan(ev, "lis.accept.return(%d)", &j):
		// Accept has produced conn j, which gets registered only after Shutdown walked the conns
		return memnet.Wait{At: ev, For: "lis.close", Once: true}, true
	case scan(ev, "conn(%d).read.enter", &j):
		return memnet.Wait{At: ev, For: fmt.Sprintf("conn(%d).setReadDeadline(past)", j), Once: true}, true
	case scan(ev, "conn(%d).setReadDeadline.enter(future)", &j):
		// the reader has decided to arm its deadline (it saw the server started) but the deadline
		// is not in effect yet: if Shutdown can run in between, its past deadline is overwritten.
		// (In the pinned code the decision and the call sit under the read lock, Shutdown cannot
		// get in and this wait simply runs out.)
		return memnet.Wait{At: ev, For: fmt.Sprintf("conn(%d).setReadDeadline(past)", j), Once: true, TimeoutMs: 60}, true
	case ev == "pc.setReadDeadline.enter(future)":
		return memnet.Wait{At: ev, For: "pc.setReadDeadline(past)", Once: true, TimeoutMs: 60}, true
	case scan(ev, "conn(%d).setReadDeadline(future)", &j):
		// readTCP holds the read lock here; Shutdown must wait for it
		return memnet.Wait{At: ev, For: "shutdown.call", Once: true, TimeoutMs: 50}, true
	case ev == "serveconn.start":
		// the conn's goroutine has started but not yet looked at the started flag
		return memnet.Wait{At: ev, For: "lis.close", Once: true}, true
	case scan(ev, "accept.policy(%d,%d)", &j, &q):
		// the request has been read; the handler starts only after Shutdown has done its part
		if s.stream() {
			return memnet.Wait{At: ev, For: "lis.close", Once: true}, true
		}
		if s.spied() {
			return memnet.Wait{At: ev, For: "pc.setReadDeadline(past)", Once: true}, true
		}
		return memnet.Wait{At: ev, For: "release", Once: true}, true
	case ev == "pc.readFrom.enter":
		return memnet.Wait{At: ev, For: "pc.setReadDeadline(past)", Once: true}, true
	case ev == "lis.accept.enter":
		return memnet.Wait{At: ev, For: "lis.close", Once: true}, true
	case scan(ev, "writer.enter(%d,%d)", &j, &q) || scan(ev, "handler.enter(%d,%d)", &j, &q):
		if s.stream() {
			return memnet.Wait{At: ev, For: "lis.close", Once: true}, true
		}
		return memnet.Wait{At: ev, For: "pc.setReadDeadline(past)", Once: true}, true
	}
	return memnet.Wait{}, false
}

func scan(s, format string, a ...any) bool {
	n, err := fmt.Sscanf(s, format, a...)
	if err != nil || n != len(a) {
		return false
	}
	// Sscanf ignores trailing input: compare the re-rendered form
	vals := make([]any, len(a))
	for i, p := range a {
		vals[i] = *(p.(*int))
	}
	return fmt.Sprintf(format, vals...) == s
}

func genWait(t *rapid.T, s Scenario, reach []string) memnet.Wait {
	var ats, fors []string
	if s.stream() {
		ats = []string{"lis.close", "conn(*).setReadDeadline(past)", "lis.accept.enter", "lis.accept.return(*)", "reader.enter(*)", "conn(*).read.enter", "conn(*).close", "conn(*).setReadDeadline(future)", "conn(*).write(*)"}
		fors = []string{"shutdown.call", "lis.close", "release", "conn(*).setReadDeadline(past)", "handler.exit(*)", "handler.enter(*)", "client(*).sent(*)", "reader.enter(*)", "lis.accept.return(*)"}
	} else {
		ats = []string{"pc.setReadDeadline(past)", "pc.readFrom.enter", "pc.readFrom.return(*)", "reader.enter(*)", "pc.writeTo(*)", "pc.setReadDeadline(future)"}
		fors = []string{"shutdown.call", "pc.setReadDeadline(past)", "release", "handler.exit(*)", "handler.enter(*)", "client(*).sent(*)", "reader.enter(*)"}
	}
	ats = append(ats, "handler.enter(*)", "writer.enter(*)", "handler.written(*)", "handler.exit(*)", "shutdown.call", "srv.started", "accept.policy(*)", "serveconn.start")
	w := memnet.Wait{Once: true, TimeoutMs: rapid.SampledFrom([]int{20, 40, 80}).Draw(t, "wt")}
	w.At = rapid.SampledFrom(ats).Draw(t, "at")
	w.For = rapid.SampledFrom(fors).Draw(t, "for")
	if rapid.Bool().Draw(t, "atConcrete") {
		w.At = rapid.SampledFrom(reach).Draw(t, "atR")
	}
	return w
}
