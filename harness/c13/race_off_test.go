//go:build !race

package c13

const raceBuild = false
