//go:build race

package c13

// raceBuild: this binary was built with -race.
const raceBuild = true
