package c13

import (
	"testing"

	"verif/harness/pbt"
)

func init() { pbt.Property("C13") }

func TestMain(m *testing.M)   { pbt.Main(m) }
func TestProps(t *testing.T)  { pbt.RunAll(t) }
func TestReplay(t *testing.T) { pbt.ReplayAll(t) }

// TestRaceScenarios runs the same sub-checks (fewer cases: race_checks in vconfig.json) in the
// binary built with -race; the driver treats any "WARNING: DATA RACE" as a violation (I8).
func TestRaceScenarios(t *testing.T) { pbt.RunAll(t) }
