package c13

import (
	"os"
	"testing"

	"verif/harness/pbt"
)

func init() { pbt.Property("C13") }

func TestMain(m *testing.M) {
	if os.Getenv(earlyChildEnv) != "" {
		// child process of the probe of finding start-reads-run-channel-unlocked (early_test.go): one
		// fixed case, outside the framework; whatever the race detector says goes to the parent
		earlyChild()
		os.Exit(0)
	}
	pbt.Main(m)
}
func TestProps(t *testing.T)  { pbt.RunAll(t) }
func TestReplay(t *testing.T) { pbt.ReplayAll(t) }

// TestRaceScenarios runs the same sub-checks (fewer cases: race_checks in vconfig.json) in the
// binary built with -race; the driver treats any "WARNING: DATA RACE" as a violation (I8).
func TestRaceScenarios(t *testing.T) { pbt.RunAll(t) }
