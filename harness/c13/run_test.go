package c13

import (
	"context"
	"crypto/ed25519"
	"crypto/rand"
	"crypto/tls"
	"crypto/x509"
	"crypto/x509/pkix"
	"encoding/json"
	"errors"
	"fmt"
	"math/big"
	"net"
	"os"
	"reflect"
	"runtime"
	"strings"
	"sync"
	"sync/atomic"
	"time"

	"github.com/miekg/dns"

	"verif/harness/memnet"
	"verif/harness/pbt"
)

// ---------------------------------------------------------------------------------------------
// watchdog / wedge state (process wide)

var (
	watchdogFull  = 20 * time.Second // first detection of a hang: 5-6 orders of magnitude above the normal cost
	watchdogShort = 3 * time.Second  // after a hang has been proven once in this process (shrinking, re-run)
	leakPoll      = 5 * time.Second  // how long server goroutines may take to disappear after shutdown completed
	hangProven    atomic.Bool        // a goroutine was found stuck inside miekg/dns once already
	wedged        atomic.Bool        // stuck goroutines could not be rescued: later cases cannot be judged
)

func watchdog() time.Duration {
	if hangProven.Load() {
		return watchdogShort
	}
	return watchdogFull
}

// dnsGoroutines returns the stack blocks of all goroutines that have a frame inside miekg/dns.
func dnsGoroutines() []string {
	buf := make([]byte, 1<<20)
	for {
		n := runtime.Stack(buf, true)
		if n < len(buf) {
			buf = buf[:n]
			break
		}
		buf = make([]byte, 2*len(buf))
	}
	var out []string
	for _, g := range strings.Split(string(buf), "\n\n") {
		if strings.Contains(g, "github.com/miekg/dns.") {
			out = append(out, g)
		}
	}
	return out
}

func clip(s string, n int) string {
	if len(s) > n {
		return s[:n] + "…"
	}
	return s
}

// ---------------------------------------------------------------------------------------------
// TLS material (memTLS)

var (
	tlsOnce   sync.Once
	tlsServer *tls.Config
	tlsClient *tls.Config
)

func tlsConfigs() (*tls.Config, *tls.Config) {
	tlsOnce.Do(func() {
		pub, priv, err := ed25519.GenerateKey(rand.Reader)
		if err != nil {
			panic(err)
		}
		tmpl := &x509.Certificate{SerialNumber: big.NewInt(1), Subject: pkix.Name{CommonName: "c13"},
			NotBefore: time.Now().Add(-time.Hour), NotAfter: time.Now().Add(24 * time.Hour), DNSNames: []string{"c13"}}
		der, err := x509.CreateCertificate(rand.Reader, tmpl, tmpl, pub, priv)
		if err != nil {
			panic(err)
		}
		cert := tls.Certificate{Certificate: [][]byte{der}, PrivateKey: priv}
		tlsServer = &tls.Config{Certificates: []tls.Certificate{cert}}
		tlsClient = &tls.Config{InsecureSkipVerify: true}
	})
	return tlsServer, tlsClient
}

// ---------------------------------------------------------------------------------------------
// one execution

type run struct {
	s   Scenario
	log *memnet.Log
	srv *dns.Server

	lis    *memnet.Listener    // memTCP, memTLS
	spy    *memnet.SpyListener // realTCP
	rawLis net.Listener        // realTCP (the real listener under spy)
	pnet   *memnet.PacketNet   // memPacket
	pc     *memnet.PacketConn  // memPacket
	udp    *net.UDPConn        // realUDP

	sh *shared // what the two runs of one execution have in common

	mu        sync.Mutex
	cliConns  []net.Conn        // to be closed at teardown
	addr2idx  map[string]string // realTCP: client local address -> client index
	sdCalled  bool              // Shutdown has been (or is being) called: pre-shutdown misuse ops are skipped
	sdErr     error
	results   map[string]error // misuse results by op
	resultSet map[string]bool
	wg        sync.WaitGroup // client + controller helper goroutines
	phase     int            // 1, 2 (restart)
	parent    *run           // phase 2: the run that owns the Server value, the handler and the violations
	child     *run           // phase 1: the second run, once it exists (for rescue)
	viol      []string
	torn      bool // teardown has begun: no new client conns
	// openAtReturn: what of the server's listener / PacketConn was still open at the moment the
	// effective Shutdown call returned ("" = nothing)
	openAtReturn string
	nonce        string
	// sdcWatch (probes only): how long a Shutdown concurrent with a failing start may take once that
	// start has returned; 0 = the watchdog
	sdcWatch time.Duration
	// when Shutdown of run 1 / of run 2 was called (UnixNano, 0 = not yet); read by the handlers for
	// the evidence class "reply written later than WriteTimeout after the Shutdown call" only - no
	// verdict depends on it
	sdCallAt [2]atomic.Int64
	// strict (probes only): the oracle does not consult the list of known findings (a probe runs while
	// that list is being evaluated)
	strict bool
}

// shared: state of one execution that both runs of the Server value (and the server's callbacks,
// which belong to the value, not to a run) use.
type shared struct {
	mu    sync.Mutex
	addrs map[string]string // lnsTCP: client local address -> client index
	socks []lnsSock         // ListenAndServe transports: what the k-th successful start left in the Server value
}

type lnsSock struct {
	pc net.PacketConn
	l  net.Listener
}

// lookup returns the client index registered for a local address, waiting up to 2 s for the
// client to register it ("" = unknown).
func (sh *shared) lookup(addr string) string {
	for i := 0; i < 2000; i++ {
		sh.mu.Lock()
		idx, ok := sh.addrs[addr]
		sh.mu.Unlock()
		if ok {
			return idx
		}
		time.Sleep(time.Millisecond)
	}
	return ""
}

// adopt makes the sockets that the k-th successful ListenAndServe created the sockets of this run.
func (r *run) adopt(k int) {
	if !r.s.lns() {
		return
	}
	r.sh.mu.Lock()
	defer r.sh.mu.Unlock()
	if k < 1 || k > len(r.sh.socks) {
		return
	}
	sk := r.sh.socks[k-1]
	if r.s.Transport == "lnsUDP" {
		r.udp, _ = sk.pc.(*net.UDPConn)
	} else {
		r.rawLis = sk.l
	}
}

// serve is the start call of the scenario's transport.
func (r *run) serve() error {
	if r.s.lns() {
		return r.srv.ListenAndServe()
	}
	return r.srv.ActivateAndServe()
}

func (r *run) violate(format string, a ...any) {
	if r.parent != nil {
		r.parent.violate(format, a...)
		return
	}
	r.mu.Lock()
	r.viol = append(r.viol, fmt.Sprintf(format, a...))
	r.mu.Unlock()
}

func errTag(err error) string {
	if err == nil {
		return "nil"
	}
	return "err:" + clip(err.Error(), 60)
}

func isNotStarted(err error) bool {
	return err != nil && strings.Contains(err.Error(), "server not started")
}
func isAlreadyStarted(err error) bool {
	return err != nil && strings.Contains(err.Error(), "server already started")
}

// Every execution tags its names and tokens with a nonce that is unique across processes and
// runs: on loopback sockets a port that this server (or this client) has just released can be
// reassigned to a socket of ANOTHER process (other checks and other shards of this check run on
// the same machine), so a request or a reply "nobody sent" may be somebody else's. Such alien
// traffic is recognised by the missing nonce and ignored on real transports; on in-memory
// transports it cannot exist and is a violation.
var runSeq atomic.Uint64

func newNonce() string { return fmt.Sprintf("n%dx%d", os.Getpid(), runSeq.Add(1)) }

func (r *run) real() bool { return r.s.loopback() }

func (r *run) qname(j, q int) string { return fmt.Sprintf("q%d.c%d.%s.test.", q, j, r.nonce) }

func (r *run) parseQname(n string) (j, q int, ok bool) {
	f := strings.Split(strings.ToLower(n), ".")
	if len(f) != 5 || f[2] != r.nonce || f[3] != "test" || f[4] != "" {
		return 0, 0, false
	}
	_, e1 := fmt.Sscanf(f[0], "q%d", &q)
	_, e2 := fmt.Sscanf(f[1], "c%d", &j)
	return j, q, e1 == nil && e2 == nil
}

func (r *run) token(j, q int) string { return fmt.Sprintf("reply-%s-c%d-q%d", r.nonce, j, q) }

// replyToken returns the token a reply carries ("" when it has none).
func replyToken(m *dns.Msg) string {
	if m != nil && len(m.Answer) == 1 {
		if t, ok := m.Answer[0].(*dns.TXT); ok && len(t.Txt) == 1 {
			return t.Txt[0]
		}
	}
	return ""
}

// restartBase is the index of the first client of the second run.
const restartBase = 9

// spec returns the handler behaviour for request (j,q).
func (r *run) spec(j, q int) Req {
	if j >= restartBase { // the second run's requests are held until release2 only
		sp := Req{Mode: "fast", Until: "release2"}
		if m := r.s.restartReqs(); j-restartBase < len(m) && q == 1 {
			sp.Mode = m[j-restartBase]
			if h := r.s.Restart.Hijack; j-restartBase < len(h) {
				sp.Hijack = h[j-restartBase]
			}
		}
		return sp
	}
	if j >= 1 && j <= len(r.s.Clients) && q >= 1 && q <= len(r.s.Clients[j-1].Reqs) {
		return r.s.Clients[j-1].Reqs[q-1]
	}
	return Req{Mode: "fast"}
}

func (r *run) handler(w dns.ResponseWriter, req *dns.Msg) {
	var j, q int
	ok := len(req.Question) == 1
	if ok {
		j, q, ok = r.parseQname(req.Question[0].Name)
	}
	if !ok {
		if r.real() { // traffic of another process that reached a reassigned port
			r.log.Add("alien.request")
			return
		}
		r.violate("handler got a request nobody sent: %v", req.Question)
		return
	}
	r.log.Pointf("handler.enter(%d,%d)", j, q)
	sp := r.spec(j, q)
	reply := new(dns.Msg)
	reply.SetReply(req)
	reply.Answer = []dns.RR{&dns.TXT{Hdr: dns.RR_Header{Name: req.Question[0].Name, Rrtype: dns.TypeTXT, Class: dns.ClassINET, Ttl: 1}, Txt: []string{r.token(j, q)}}}
	hijacked := false
	hijack := func() {
		w.Hijack() // from here on the connection is the handler's: it closes it itself, below
		hijacked = true
		r.log.Pointf("handler.hijack(%d,%d)", j, q)
	}
	if sp.Hijack == "before" {
		hijack()
	}
	write := func() {
		if wt := time.Duration(r.s.WriteTimeoutMs) * time.Millisecond; wt > 0 {
			k := 0
			if j >= restartBase {
				k = 1
			}
			if t0 := r.sdCallAt[k].Load(); t0 != 0 && time.Since(time.Unix(0, t0)) > wt {
				r.log.Addf("handler.write-past-writetimeout(%d,%d)", j, q)
			}
		}
		if err := w.WriteMsg(reply); err != nil {
			r.log.Addf("handler.writeerr(%d,%d)", j, q)
			r.log.Addf("  (write error of handler %d,%d: %v)", j, q, err)
		} else {
			r.log.Pointf("handler.written(%d,%d)", j, q)
		}
		if sp.Hijack == "after" && !hijacked {
			hijack()
		}
	}
	wait := func() {
		rel := "release"
		if j >= restartBase {
			rel = "release2"
		}
		if r.log.WaitAny(2*watchdogFull, sp.Until, rel) < 0 {
			r.log.Addf("handler.wait-abandoned(%d,%d)", j, q)
		}
	}
	switch sp.Mode {
	case "block":
		write()
		wait()
	case "late":
		wait()
		write()
	default:
		write()
	}
	if hijacked {
		w.Close()
		r.log.Addf("handler.closed(%d,%d)", j, q)
	}
	r.log.Pointf("handler.exit(%d,%d)", j, q)
}

// spyReader is the DecorateReader wrapper: reader.enter(j,q) / reader.return(j,q,…) around the
// library's own reader. j is the conn index (stream) or "pc"; q counts the reads of this reader.
type spyReader struct {
	dns.Reader
	r *run
	q int
	j string // stream: the index of this reader's connection, once known
}

// idx returns the index of the connection (one reader per connection). A connection that the
// library accepted on its own listener is recognised by the address its client registered.
func (s *spyReader) idx(conn net.Conn) string {
	if s.j == "" {
		s.j = connIdx(conn)
		if s.j == "?" && s.r.s.lns() {
			if c, ok := conn.(*tls.Conn); ok {
				conn = c.NetConn()
			}
			if j := s.r.sh.lookup(conn.RemoteAddr().String()); j != "" {
				s.j = j
			}
		}
	}
	return s.j
}

func connIdx(c net.Conn) string {
	switch x := c.(type) {
	case *memnet.Conn:
		return strings.TrimSuffix(strings.TrimPrefix(x.Name(), "conn("), ")")
	case *memnet.SpyConn:
		return strings.TrimSuffix(strings.TrimPrefix(x.Name(), "conn("), ")")
	case *tls.Conn:
		return connIdx(x.NetConn())
	}
	return "?"
}

func retTag(err error) string {
	if err == nil {
		return "ok"
	}
	return "err"
}

func (s *spyReader) ReadTCP(conn net.Conn, timeout time.Duration) ([]byte, error) {
	s.q++
	j := s.idx(conn)
	s.r.log.Pointf("reader.enter(%s,%d)", j, s.q)
	m, err := s.Reader.ReadTCP(conn, timeout)
	s.r.log.Pointf("reader.return(%s,%d,%s)", j, s.q, retTag(err))
	s.handover(m, err)
	return m, err
}

func (s *spyReader) ReadUDP(conn *net.UDPConn, timeout time.Duration) ([]byte, *dns.SessionUDP, error) {
	s.q++
	s.r.log.Pointf("reader.enter(pc,%d)", s.q)
	m, sess, err := s.Reader.ReadUDP(conn, timeout)
	s.r.log.Pointf("reader.return(pc,%d,%s)", s.q, retTag(err))
	s.handover(m, err)
	return m, sess, err
}

func (s *spyReader) ReadPacketConn(conn net.PacketConn, timeout time.Duration) ([]byte, net.Addr, error) {
	s.q++
	s.r.log.Pointf("reader.enter(pc,%d)", s.q)
	m, a, err := s.Reader.(dns.PacketConnReader).ReadPacketConn(conn, timeout)
	s.r.log.Pointf("reader.return(pc,%d,%s)", s.q, retTag(err))
	s.handover(m, err)
	return m, a, err
}

// handover logs reader.handover(j,q): the Reader is about to hand request (j,q) - identified by the
// message id, as everywhere - to the serve loop. It is logged after the interposition point
// reader.return, i.e. after whatever time the (decorated) Reader took once the octets were read:
// from here on the serve loop has the request, not before.
func (s *spyReader) handover(m []byte, err error) {
	if err == nil && len(m) >= 2 {
		id := int(m[0])<<8 | int(m[1])
		s.r.log.Addf("reader.handover(%d,%d)", id/16, id%16)
	}
}

type spyWriter struct {
	dns.Writer
	r *run
}

func (w spyWriter) Write(p []byte) (int, error) {
	if len(p) >= 2 {
		id := int(p[0])<<8 | int(p[1])
		w.r.log.Pointf("writer.enter(%d,%d)", id/16, id%16)
	}
	return w.Writer.Write(p)
}

func (r *run) newServer() *dns.Server {
	srv := &dns.Server{
		ReadTimeout: time.Hour, // a lost wake-up must not be rescued by a timeout (I7)
		// IdleTimeout is called once per connection, by the connection's goroutine, before it
		// looks at the started flag for the first time: an interposition point of its own
		IdleTimeout: func() time.Duration { r.log.Point("serveconn.start"); return time.Hour },
		// the accept policy runs between the read and the handler
		MsgAcceptFunc: func(dh dns.Header) dns.MsgAcceptAction {
			r.log.Pointf("accept.policy(%d,%d)", dh.Id/16, dh.Id%16)
			return dns.DefaultMsgAcceptFunc(dh)
		},
		Handler: dns.HandlerFunc(r.handler),
		NotifyStartedFunc: func() {
			if r.s.lns() { // on the goroutine that has just stored them (ListenAndServe)
				r.sh.mu.Lock()
				r.sh.socks = append(r.sh.socks, lnsSock{pc: r.srv.PacketConn, l: r.srv.Listener})
				r.sh.mu.Unlock()
			}
			r.log.Point("srv.started")
		},
		DecorateReader: func(rd dns.Reader) dns.Reader { return &spyReader{Reader: rd, r: r} },
		DecorateWriter: func(w dns.Writer) dns.Writer { return spyWriter{w, r} },
		MaxTCPQueries:  r.s.MaxTCP,
		// 0 = the library's default; no timeout of the server entitles it to drop the reply of a
		// handler that was started (I2), however late after the Shutdown call it is written
		WriteTimeout: time.Duration(r.s.WriteTimeoutMs) * time.Millisecond,
	}
	return srv
}

// attach creates fresh transport objects for the current phase and hooks them into the server.
func (r *run) attach() error {
	r.lis, r.spy, r.rawLis, r.pnet, r.pc, r.udp = nil, nil, nil, nil, nil, nil
	if r.s.lns() {
		// the library makes the socket and stores it in the Server value (adopt); the field of the
		// other kind keeps whatever an earlier run left there
		r.srv.Addr = "127.0.0.1:0"
		r.srv.Net = map[string]string{"lnsUDP": "udp", "lnsTCP": "tcp"}[r.s.Transport]
		if r.srv.Net == "" {
			return fmt.Errorf("unknown transport %q", r.s.Transport)
		}
		return nil
	}
	r.srv.Listener, r.srv.PacketConn = nil, nil
	switch r.s.Transport {
	case "memTCP":
		r.lis = memnet.NewListener(r.log, "lis")
		r.srv.Listener = r.lis
	case "memTLS":
		r.lis = memnet.NewListener(r.log, "lis")
		sc, _ := tlsConfigs()
		r.srv.Listener = tls.NewListener(r.lis, sc)
	case "memPacket":
		r.pnet = memnet.NewPacketNet(r.log)
		r.pc = r.pnet.Listen("pc", memnet.UDPAddr(53))
		r.srv.PacketConn = r.pc
	case "realTCP":
		l, err := net.Listen("tcp", "127.0.0.1:0")
		if err != nil {
			return err
		}
		r.rawLis = l
		r.spy = memnet.WrapListener(r.log, "lis", l)
		r.spy.NameFunc = func(c net.Conn) string {
			key := c.RemoteAddr().String()
			for i := 0; i < 2000; i++ {
				r.mu.Lock()
				idx, ok := r.addr2idx[key]
				r.mu.Unlock()
				if ok {
					return idx
				}
				time.Sleep(time.Millisecond)
			}
			return ""
		}
		r.srv.Listener = r.spy
	case "realUDP":
		pc, err := net.ListenPacket("udp", "127.0.0.1:0")
		if err != nil {
			return err
		}
		r.udp = pc.(*net.UDPConn)
		r.srv.PacketConn = r.udp
	default:
		return fmt.Errorf("unknown transport %q", r.s.Transport)
	}
	return nil
}

// dial opens the client side of connection j.
func (r *run) dial(j int) (net.Conn, error) {
	var c net.Conn
	var err error
	switch r.s.Transport {
	case "memTCP":
		c, err = r.lis.DialNamed(fmt.Sprintf("cli(%d)", j), fmt.Sprintf("conn(%d)", j))
		if err != nil {
			return nil, err
		}
	case "memTLS":
		var mc *memnet.Conn
		mc, err = r.lis.DialNamed("", fmt.Sprintf("conn(%d)", j))
		if err != nil {
			return nil, err
		}
		_, cc := tlsConfigs()
		c = tls.Client(mc, cc)
	case "memPacket":
		c = r.pnet.Dial("", memnet.UDPAddr(40000+j), r.pc.LocalAddr())
	case "realTCP":
		// the local address must be known to the Accept side before the conn is named: bind first
		d := net.Dialer{Timeout: 2 * time.Second, Control: nil}
		c, err = d.Dial("tcp", r.rawLis.Addr().String())
		if err != nil {
			return nil, err
		}
		r.mu.Lock()
		r.addr2idx[c.LocalAddr().String()] = fmt.Sprint(j)
		r.mu.Unlock()
	case "realUDP", "lnsUDP":
		if r.udp == nil {
			return nil, errors.New("no socket")
		}
		c, err = net.Dial("udp", r.udp.LocalAddr().String())
		if err != nil {
			return nil, err
		}
	case "lnsTCP":
		if r.rawLis == nil {
			return nil, errors.New("no listener")
		}
		d := net.Dialer{Timeout: 2 * time.Second}
		c, err = d.Dial("tcp", r.rawLis.Addr().String())
		if err != nil {
			return nil, err
		}
		r.sh.mu.Lock()
		r.sh.addrs[c.LocalAddr().String()] = fmt.Sprint(j)
		r.sh.mu.Unlock()
	}
	r.mu.Lock()
	torn := r.torn
	if !torn {
		r.cliConns = append(r.cliConns, c)
	}
	r.mu.Unlock()
	if torn { // the scenario is over: a late starter must not be left behind
		c.Close()
		return nil, errors.New("torn down")
	}
	return c, nil
}

// client runs client j: dial, then request/reply sequentially, then close as specified.
func (r *run) client(j int, c Client) {
	defer r.wg.Done()
	conn, err := r.dial(j)
	if err != nil {
		r.log.Addf("client(%d).dialerr", j)
		return
	}
	r.log.Pointf("client(%d).dial", j)
	co := &dns.Conn{Conn: conn}
	mk := func(q int) *dns.Msg {
		m := new(dns.Msg)
		m.SetQuestion(r.qname(j, q), dns.TypeTXT)
		m.Id = uint16(j*16 + q)
		return m
	}
	// recv reads one reply and checks that it is the client's own; want = 0 accepts any outstanding q
	recv := func(want int) bool {
		rep, err := co.ReadMsg()
		// A connected UDP socket reports the ICMP "port unreachable" provoked by one of the
		// client's own later datagrams (sent after the server had gone) on the next receive, ahead
		// of replies that are already queued. That is the client's kernel, not the server: the
		// error is consumed by reporting it, so read again.
		for i := 0; err != nil && r.s.kernelUDP() && strings.Contains(err.Error(), "connection refused") && i < 8; i++ {
			rep, err = co.ReadMsg()
		}
		// replies of another process's server (see newNonce): skip datagrams, give up on a stream
		for i := 0; err == nil && r.real() && !strings.Contains(replyToken(rep), r.nonce) && i < 8; i++ {
			r.log.Add("alien.reply")
			if r.s.kernelTCP() {
				err = errors.New("connected to a foreign server")
				break
			}
			rep, err = co.ReadMsg()
		}
		if err != nil {
			r.log.Addf("client(%d).recverr(%d)", j, want)
			return false
		}
		q := int(rep.Id) % 16
		if int(rep.Id)/16 != j || q < 1 || q > len(c.Reqs) || (want != 0 && q != want) || replyToken(rep) != r.token(j, q) {
			r.violate("I2: client %d (waiting for request %d) got a reply that is not its own: %v", j, want, rep)
			return false
		}
		r.log.Pointf("client(%d).recv(%d)", j, q)
		return true
	}
	ok := true
	if c.Pipeline {
		sent := 0
		for qi := range c.Reqs {
			r.log.Addf("client(%d).sending(%d)", j, qi+1) // before the first octet leaves
			if err := co.WriteMsg(mk(qi + 1)); err != nil {
				// the server is gone; the replies to what was sent before must still be read
				r.log.Addf("client(%d).senderr(%d)", j, qi+1)
				ok = false
				break
			}
			sent++
			r.log.Pointf("client(%d).sent(%d)", j, qi+1)
		}
		if c.Close != "afterSend" {
			for i := 0; i < sent; i++ {
				want := 0 // datagram replies may arrive in any order; a stream keeps the order
				if r.s.stream() {
					want = i + 1
				}
				if !recv(want) {
					ok = false
					break
				}
			}
		}
	} else {
		for qi := range c.Reqs {
			q := qi + 1
			r.log.Addf("client(%d).sending(%d)", j, q)
			if err := co.WriteMsg(mk(q)); err != nil {
				r.log.Addf("client(%d).senderr(%d)", j, q)
				ok = false
				break
			}
			r.log.Pointf("client(%d).sent(%d)", j, q)
			if qi == len(c.Reqs)-1 && c.Close == "afterSend" {
				break
			}
			if !recv(q) {
				ok = false
				break
			}
		}
	}
	if !ok {
		return
	}
	if c.Close == "end" && c.Partial > 0 && r.s.stream() {
		// an incomplete frame: the server is left in the middle of a read
		b, _ := mk(1).Pack()
		fr := append([]byte{byte(len(b) >> 8), byte(len(b))}, b...)
		n := 1
		if c.Partial == 2 {
			n = 2 + len(b)/2
		}
		if _, err := conn.Write(fr[:n]); err == nil {
			r.log.Pointf("client(%d).partial", j)
		}
	}
	switch c.Close {
	case "afterRecv", "afterSend":
		conn.Close()
		r.log.Pointf("client(%d).close", j)
	}
}

// within runs f and reports whether it finished within the watchdog.
func within(d time.Duration, f func()) bool {
	done := make(chan struct{})
	go func() { defer close(done); f() }()
	select {
	case <-done:
		return true
	case <-time.After(d):
		return false
	}
}

// hang is called when something did not return within the watchdog. It decides between a
// violation (a goroutine is stuck inside miekg/dns) and an infrastructure problem, and then tries
// to free the stuck goroutines so that the rest of the run is not wedged.
func (r *run) hang(what string) error { return r.hangOpt(what, true) }

func (r *run) hangOpt(what string, rescue bool) error {
	wd := r.patience()
	stuck := dnsGoroutines()
	evs := r.log.String()
	r.release()
	r.log.Add("release2")
	if len(stuck) == 0 {
		fmt.Fprintf(os.Stderr, "c13: INFRASTRUCTURE: %s did not finish within %v but no goroutine is inside miekg/dns\n%s\n", what, wd, evs)
		os.Exit(2)
	}
	if r.root().sdcWatch == 0 { // (the known hang of a probe does not shorten the watchdog of the cases that follow)
		hangProven.Store(true)
	}
	var sb strings.Builder
	fmt.Fprintf(&sb, "I7: %s did not return within the watchdog (%v) with ReadTimeout=IdleTimeout=1h; %d goroutine(s) stuck inside miekg/dns:\n", what, wd, len(stuck))
	for i, g := range stuck {
		if i >= 4 {
			break
		}
		sb.WriteString(clip(g, 1500))
		sb.WriteString("\n\n")
	}
	sb.WriteString("event log:\n" + clip(evs, 12000))
	if rescue {
		r.rescue()
	} else {
		r.log.Add("teardown")
		wedged.Store(true)
	}
	return errors.New(sb.String())
}

// root is the run that owns the execution (the first run).
func (r *run) root() *run {
	if r.parent != nil {
		return r.parent
	}
	return r
}

// patience is how long a call that has nothing left to wait for may take: the watchdog, or the
// probe's own bound for a hang that is known.
func (r *run) patience() time.Duration {
	if w := r.root().sdcWatch; w > 0 {
		return w
	}
	return watchdog()
}

// release frees every held handler.
func (r *run) release() { r.log.Add("release") }

// rescue closes every transport object so that goroutines stuck in reads can leave.
func (r *run) rescue() {
	if r.parent != nil {
		r.parent.rescue()
		return
	}
	r.release()
	r.log.Add("release2")
	r.log.Add("teardown")
	r.closeAll()
	if r.child != nil {
		r.child.closeAll()
	}
	deadline := time.Now().Add(3 * time.Second)
	for time.Now().Before(deadline) {
		if len(dnsGoroutines()) == 0 {
			return
		}
		time.Sleep(10 * time.Millisecond)
	}
	wedged.Store(true)
}

// teardown ends the clients of this run: no new connections, the existing ones are closed.
func (r *run) teardown() {
	r.log.Add("teardown")
	r.mu.Lock()
	r.torn = true
	conns := append([]net.Conn(nil), r.cliConns...)
	r.mu.Unlock()
	for _, c := range conns {
		c.Close()
	}
}

// closeAll closes the client connections and the server side transport objects of this run.
func (r *run) closeAll() {
	r.mu.Lock()
	r.torn = true
	conns := append([]net.Conn(nil), r.cliConns...)
	r.mu.Unlock()
	for _, c := range conns {
		c.Close()
	}
	if r.lis != nil {
		r.lis.Close()
		for _, c := range r.lis.Accepted() {
			c.Close()
		}
	}
	if r.spy != nil {
		r.spy.Close()
		for _, c := range r.spy.Accepted() {
			c.Close()
		}
	} else if r.rawLis != nil {
		r.rawLis.Close()
	}
	if r.pc != nil {
		r.pc.Close()
	}
	if r.udp != nil {
		r.udp.Close()
	}
}

// runScenario executes one scenario and returns its evidence classes and the oracle's verdict.
func runScenario(s Scenario) ([]string, error) {
	r := &run{s: s, nonce: newNonce(), log: memnet.NewLog(), addr2idx: map[string]string{}, results: map[string]error{}, resultSet: map[string]bool{}, phase: 1, sh: &shared{addrs: map[string]string{}}}
	r.log.SetPlan(s.Waits)
	err := r.execute()
	return r.classes(), err
}

// runScenarioOpt is runScenario with a bound of its own for a Shutdown that is concurrent with a
// failing start (probes: a known hang must not cost the full watchdog in every process).
func runScenarioOpt(s Scenario, sdcWatch time.Duration) ([]string, error) {
	r := &run{s: s, nonce: newNonce(), log: memnet.NewLog(), addr2idx: map[string]string{}, results: map[string]error{}, resultSet: map[string]bool{}, phase: 1, sh: &shared{addrs: map[string]string{}}, sdcWatch: sdcWatch}
	r.log.SetPlan(s.Waits)
	err := r.execute()
	return r.classes(), err
}

// probeScenario runs the fixed case of a probe: the oracle is the same, but it does not look at the
// list of known findings (pbt.Known must not be called while that list is being evaluated).
func probeScenario(s Scenario, sdcWatch time.Duration) error {
	r := &run{s: s, nonce: newNonce(), log: memnet.NewLog(), addr2idx: map[string]string{}, results: map[string]error{}, resultSet: map[string]bool{}, phase: 1, sh: &shared{addrs: map[string]string{}}, sdcWatch: sdcWatch, strict: true}
	r.log.SetPlan(s.Waits)
	return r.execute()
}

func checkScenario(s Scenario) error {
	key, _ := json.Marshal(s)
	if wedged.Load() {
		// an earlier case of this process left goroutines that could not be freed: nothing can be
		// judged any more (the violation that caused it has been reported)
		pbt.Note(key, false, "skipped-after-wedge")
		return nil
	}
	classes, err := runScenario(s)
	nontrivial := false
	for _, c := range classes {
		if c == "sd-while-handler-running" || c == "sd-while-conn-unread" || c == "sd-while-reader-busy-with-request" || strings.HasPrefix(c, "misuse=") || c == "fatal:serve-loop-ended-before-shutdown-call" {
			nontrivial = true
		}
	}
	pbt.Note(key, nontrivial, classes...)
	if nontrivial {
		pbt.Sample(s.Transport, s)
	}
	return err
}

func (r *run) hasMisuse(op string) (Misuse, bool) {
	for _, m := range r.s.Misuse {
		if m.Op == op {
			return m, true
		}
	}
	return Misuse{}, false
}

func (r *run) execute() (err error) {
	s := r.s
	r.srv = r.newServer()
	if err := r.attach(); err != nil {
		fmt.Fprintln(os.Stderr, "c13: INFRASTRUCTURE:", err)
		os.Exit(2)
	}
	ctx, cancel := context.WithCancel(context.Background())
	defer cancel()

	// --- misuse: a start that fails, then Shutdown, then (below) the real start on the same value
	if m, ok := r.hasMisuse("failedStart"); ok {
		if e := r.failedStart(m.At, m.Sd); e != nil {
			return e
		}
	}

	// --- misuse: Shutdown before the server was ever started
	if _, ok := r.hasMisuse("shutdownBeforeStart"); ok {
		var e error
		r.log.Add("misuse.shutdownBeforeStart.call")
		if !within(watchdog(), func() { e = r.srv.Shutdown() }) {
			return r.hang("Shutdown of a server that was never started")
		}
		r.log.Add("misuse.shutdownBeforeStart.return(" + errTag(e) + ")")
		if !isNotStarted(e) {
			return r.fail("I5: Shutdown of a server that was never started returned %v, want the 'server not started' error", e)
		}
	}

	// --- transient faults queued for the accept / read step
	for _, k := range s.TempErrs {
		r.injectFault(k)
	}
	if s.TempErrAt != "" {
		r.wg.Add(1)
		go func() {
			defer r.wg.Done()
			if r.log.WaitAny(2*watchdogFull, s.TempErrAt, "shutdown.call", "teardown") == 0 {
				r.injectFault("tempNotTimeout")
			}
		}()
	}

	// --- a fatal fault of the accept / read step while the server is running (round 10)
	if s.fatal() {
		r.wg.Add(1)
		go r.fatalFault()
	}

	// --- start
	serveDone := make(chan struct{})
	go func() {
		defer close(serveDone)
		defer func() { // the serve loop's deferred clean-up runs on this goroutine
			if p := recover(); p != nil {
				r.log.Add("serve.panic(" + clip(fmt.Sprint(p), 80) + ")")
			}
		}()
		e := r.serve()
		r.log.Point("serve.return(" + errTag(e) + ")")
	}()
	if r.log.WaitAny(watchdog(), "srv.started", "serve.return(*)") < 0 {
		return r.hang("ActivateAndServe (never reported started)")
	}
	if !r.log.Has("srv.started") {
		return r.fail("I4/I5: ActivateAndServe on a fresh transport returned instead of serving: %s", r.log.Names()[r.log.Index("serve.return(*)")])
	}
	r.adopt(1)

	// --- clients
	clientsDone := make(chan struct{})
	var cwg sync.WaitGroup
	for ji, c := range s.Clients {
		j, c := ji+1, c
		r.wg.Add(1)
		cwg.Add(1)
		go func() {
			defer cwg.Done()
			if c.StartAt != "" {
				if r.log.WaitAny(2*watchdogFull, c.StartAt, "teardown") != 0 {
					r.wg.Done()
					return
				}
			}
			r.client(j, c)
		}()
	}
	go func() { cwg.Wait(); r.log.Point("clients.done"); close(clientsDone) }()

	// --- misuse: second start while running
	hangCh := make(chan string, 4)
	if m, ok := r.hasMisuse("secondStart"); ok {
		r.wg.Add(1)
		go func() {
			defer r.wg.Done()
			if r.log.WaitAny(2*watchdogFull, m.At, "shutdown.call", "teardown") != 0 {
				return
			}
			r.mu.Lock()
			if r.sdCalled {
				r.mu.Unlock()
				r.log.Add("misuse.secondStart.skipped")
				return
			}
			// the controller does not call Shutdown while this is in flight (r.mu is held)
			var e error
			r.log.Add("misuse.secondStart.call")
			ok := within(watchdog(), func() { e = r.serve() })
			if ok {
				r.results["secondStart"] = e
				r.resultSet["secondStart"] = true
				r.log.Add("misuse.secondStart.return(" + errTag(e) + ")")
			}
			r.mu.Unlock()
			if !ok {
				hangCh <- "a second ActivateAndServe on a started server (it must return an error instead of blocking)"
			}
		}()
	}

	// --- context expiry
	if s.Ctx == "expired" {
		cancel()
		r.log.Add("ctx.cancel")
	} else if s.Ctx == "expireAt" {
		r.wg.Add(1)
		go func() {
			defer r.wg.Done()
			if r.log.WaitAny(2*watchdogFull, s.CtxAt, "teardown") == 0 {
				cancel()
				r.log.Add("ctx.cancel")
			}
		}()
	}

	// --- misuse: second shutdown
	sd2Done := make(chan struct{})
	if m, ok := r.hasMisuse("secondShutdown"); ok {
		go func() {
			defer close(sd2Done)
			if r.log.WaitAny(2*watchdogFull, m.At, "teardown") != 0 {
				return
			}
			r.log.Add("misuse.secondShutdown.call")
			e := r.srv.Shutdown()
			open := ""
			if !isNotStarted(e) {
				open = r.openTransport()
			}
			r.mu.Lock()
			if !isNotStarted(e) {
				r.openAtReturn = open
			}
			r.results["secondShutdown"] = e
			r.resultSet["secondShutdown"] = true
			r.mu.Unlock()
			r.log.Point("misuse.secondShutdown.return(" + errTag(e) + ")")
		}()
	} else {
		close(sd2Done)
	}

	// --- the trigger
	fb := time.Duration(s.FallbackMs) * time.Millisecond
	trig := make(chan bool, 1)
	go func() { trig <- r.log.WaitFor(s.Trigger, fb) }()
	select {
	case hit := <-trig:
		if !hit {
			r.log.Add("trigger-fallback")
		}
	case what := <-hangCh:
		return r.hangOpt(what, false)
	}
	r.mu.Lock() // waits for a second start in flight
	r.sdCalled = true
	r.mu.Unlock()
	select {
	case what := <-hangCh:
		// no rescue: two serve loops on one Server value would both close srv.shutdown when freed
		return r.hangOpt(what, false)
	default:
	}
	sdDone := make(chan struct{})
	go func() {
		r.sdCallAt[0].Store(time.Now().UnixNano())
		r.log.Point("shutdown.call")
		var e error
		switch {
		case s.Ctx == "background" && !s.CtxAPI:
			e = r.srv.Shutdown()
		case s.Ctx == "background":
			e = r.srv.ShutdownContext(context.Background())
		default:
			e = r.srv.ShutdownContext(ctx)
		}
		open := ""
		if !isNotStarted(e) { // only the call that really shut the server down may be probed (the probe of a real UDP socket resets its deadline)
			open = r.openTransport() // AT the moment Shutdown returns, before anything else happens
		}
		r.mu.Lock()
		r.sdErr = e
		if !isNotStarted(e) {
			r.openAtReturn = open
		}
		r.mu.Unlock()
		r.log.Point("shutdown.return(" + errTag(e) + ")")
		close(sdDone)
	}()

	// --- hold, then release the handlers; everything must now terminate (I7)
	select {
	case <-sdDone:
	case <-time.After(time.Duration(s.HoldMs) * time.Millisecond):
	}
	// --- misuse: restart during drain - the context of this Shutdown expires on its own; when it has
	// given up, the same Server value is started again while the handlers of run 1 are still held
	if s.drain() {
		select {
		case <-sdDone:
		case <-time.After(watchdog()):
			return r.hang("ShutdownContext whose context has expired")
		}
		r.mu.Lock()
		e := r.sdErr
		r.mu.Unlock()
		if e != nil && !isNotStarted(e) {
			return r.secondRun("drain", serveDone, clientsDone, sdDone)
		}
		// Shutdown completed before it looked at its context: the restart follows after run 1 as usual
	}
	// --- misuse: restart while Shutdown is still waiting for the handlers of run 1 (ListenAndServe)
	if s.shutting() {
		select {
		case <-sdDone: // Shutdown 1 had nothing to wait for: the restart follows after run 1 as usual
		default:
			return r.secondRun("shutting", serveDone, clientsDone, sdDone)
		}
	}
	r.release()
	wd := time.After(watchdog())
	select {
	case <-sdDone:
	case <-wd:
		return r.hang("Shutdown (all handlers released)")
	}
	select {
	case <-serveDone:
	case <-wd:
		return r.hang("ActivateAndServe after Shutdown returned")
	}
	select {
	case <-sd2Done:
	case <-wd:
		return r.hang("a second Shutdown")
	}
	// handlers that were still running when a context-limited Shutdown gave up
	if !r.waitHandlersExited(watchdog()) {
		return r.hang("a released handler")
	}

	// --- I2: wait for the replies that were written to arrive, then tear the clients down
	if e := r.awaitReplies(); e != nil {
		return e
	}
	r.teardown()
	if !within(watchdog(), func() { r.wg.Wait(); <-clientsDone }) {
		return r.hang("harness clients/controllers")
	}

	if e := r.invariants(); e != nil {
		return e
	}
	if e := r.closedAndLeakFree(); e != nil {
		return e
	}

	// --- misuse: restart the same Server value after run 1 is over
	if _, ok := r.hasMisuse("restartAfterShutdown"); ok {
		return r.secondRun("complete", nil, nil, nil)
	}
	return nil
}

func (r *run) fail(format string, a ...any) error {
	return fmt.Errorf("%s\nevent log:\n%s", fmt.Sprintf(format, a...), clip(r.log.String(), 12000))
}

// waitHandlersExited waits until every handler.enter has its handler.exit.
func (r *run) waitHandlersExited(d time.Duration) bool {
	deadline := time.Now().Add(d)
	for {
		if r.log.Count("handler.enter(*)") == r.log.Count("handler.exit(*)") {
			return true
		}
		if time.Now().After(deadline) {
			return false
		}
		time.Sleep(time.Millisecond)
	}
}

// exemptI2 reports whether the reply of request (j,q) need not arrive: the client itself closed
// without reading it, or Shutdown gave up on its context (a PacketConn is then closed under the
// handlers, and nothing is promised for handlers that outlive Shutdown).
func (r *run) exemptI2(j, q int) bool {
	r.mu.Lock()
	sdErr := r.sdErr
	r.mu.Unlock()
	if sdErr != nil && !isNotStarted(sdErr) {
		return true
	}
	if j >= 1 && j <= len(r.s.Clients) {
		c := r.s.Clients[j-1]
		if c.Close == "afterSend" && (q == len(c.Reqs) || c.Pipeline) {
			return true
		}
	}
	return false
}

func (r *run) awaitReplies() error {
	for _, name := range r.log.Names() {
		var j, q int
		if scan(name, "handler.written(%d,%d)", &j, &q) {
			if r.exemptI2(j, q) {
				continue
			}
			if r.log.WaitAny(10*time.Second, fmt.Sprintf("client(%d).recv(%d)", j, q), fmt.Sprintf("client(%d).recverr(%d)", j, q)) != 0 {
				r.rescue()
				return r.fail("I2: handler (%d,%d) wrote its reply without error but client %d did not receive it", j, q, j)
			}
		}
	}
	return nil
}

func (r *run) invariants() error {
	names := r.log.Names()
	idx := func(pat string) int {
		for i, n := range names {
			if memnet.Match(pat, n) {
				return i
			}
		}
		return -1
	}
	r.mu.Lock()
	viol := append([]string(nil), r.viol...)
	sdErr := r.sdErr
	res := map[string]error{}
	for k, v := range r.results {
		res[k] = v
	}
	set := map[string]bool{}
	for k, v := range r.resultSet {
		set[k] = v
	}
	r.mu.Unlock()
	if len(viol) > 0 {
		return r.fail("%s", strings.Join(viol, "; "))
	}

	// which Shutdown call was the effective one
	effErr, effRet := sdErr, idx("shutdown.return(*)")
	if set["secondShutdown"] {
		e2 := res["secondShutdown"]
		switch {
		case isNotStarted(e2) && !isNotStarted(sdErr):
		case isNotStarted(sdErr) && !isNotStarted(e2):
			effErr, effRet = e2, idx("misuse.secondShutdown.return(*)")
		default:
			return r.fail("I5: two Shutdown calls returned %v and %v; exactly one of them must report 'server not started'", sdErr, e2)
		}
	} else if isNotStarted(sdErr) {
		if !r.fatalConsumed() {
			return r.fail("I4: Shutdown of a started server returned %v", sdErr)
		}
		// The serve loop of this run had ended on its own, with a fatal error of its listener / socket.
		// Whether the server then still counts as started is not for the statement to say - but the
		// handlers of the run have been started, and a Shutdown call returns only after they have
		// returned, whatever it answers.
		for i, n := range names {
			var j, q int
			if !scan(n, "handler.enter(%d,%d)", &j, &q) || j >= restartBase || i > effRet {
				continue
			}
			if x := idx(fmt.Sprintf("handler.exit(%d,%d)", j, q)); x < 0 || x > effRet {
				return r.fail("I1: Shutdown returned (%v) while handler (%d,%d), which had been started, was still running - the serve loop had ended with a fatal error of its %s and was waiting for that handler itself", sdErr, j, q, map[bool]string{true: "socket", false: "listener"}[r.pc != nil])
			}
		}
		effErr = nil // the run was over when Shutdown was called: nothing more to judge about that call
	}
	// I4 Shutdown result
	ctxGaveUp := false
	switch {
	case effErr == nil:
	case r.s.Ctx != "background" && (errors.Is(effErr, context.Canceled) || errors.Is(effErr, context.DeadlineExceeded)):
		ctxGaveUp = true
	default:
		return r.fail("I4: Shutdown returned %v (ctx=%s)", effErr, r.s.Ctx)
	}
	if r.s.Ctx != "background" && ctxGaveUp && idx("ctx.cancel") < 0 {
		return r.fail("I4: Shutdown returned %v although the context was never cancelled", effErr)
	}
	// I4 serve result
	if i := idx("serve.panic(*)"); i >= 0 {
		return r.fail("I4: the serve call did not return nil, it panicked: %s", names[i])
	}
	if idx("serve.return(nil)") < 0 {
		if i := idx("serve.return(*)"); i >= 0 {
			if !(r.fatalConsumed() && names[i] == r.fatalServeTag()) {
				return r.fail("I4: the serve call returned %v, want nil", names[i])
			}
			// the serve loop ended with the injected fatal error and says so - but only once the
			// handlers of its run have returned ("no goroutine of the server remains")
			for k, n := range names {
				var j, q int
				if scan(n, "handler.enter(%d,%d)", &j, &q) && j < restartBase && k < i {
					if x := idx(fmt.Sprintf("handler.exit(%d,%d)", j, q)); x < 0 || x > i {
						return r.fail("I4/I6: the serve call returned (%s) while handler (%d,%d) of its run was still running", names[i], j, q)
					}
				}
			}
		} else {
			return r.fail("I4: the serve call has not returned")
		}
	}
	// I5 second start
	if set["secondStart"] && !isAlreadyStarted(res["secondStart"]) {
		return r.fail("I5: ActivateAndServe on a started server returned %v, want the 'server already started' error", res["secondStart"])
	}
	// I1 / I3 over the handlers
	for i, n := range names {
		var j, q int
		if !scan(n, "handler.enter(%d,%d)", &j, &q) {
			continue
		}
		if ctxGaveUp {
			// I1 waived, and nothing is asserted about handlers of requests that were on their way
			// when Shutdown gave up (a request that has been read is served, whenever its handler gets
			// to run). What can be decided: a request whose client began to send it only after that
			// Shutdown had returned was read after it - the server must have stopped reading by then.
			// (Not when the same Server value was started again meanwhile: on loopback the new run may
			// have been given the port the old one has just released.)
			if snd := idx(fmt.Sprintf("client(%d).sending(%d)", j, q)); snd > effRet && effRet >= 0 && j < restartBase && r.child == nil {
				return r.fail("I3: the request of handler (%d,%d) was sent only after Shutdown had returned (%v), yet it was read and its handler was started", j, q, effErr)
			}
			// ... and (round 10) a request that the server's Reader handed to the serve loop only after
			// that Shutdown had returned: the loop got it from a server that has been shut down - the
			// caller has been told so - and "no handler is started after Shutdown has returned" does not
			// depend on whether Shutdown had waited for the handlers that were running
			if ho := idx(fmt.Sprintf("reader.handover(%d,%d)", j, q)); ho > effRet && effRet >= 0 && j < restartBase && r.child == nil {
				if !r.strict && pbt.Known(knownLateHandover) {
					pbt.Excluded(knownLateHandover)
					continue
				}
				return r.fail("I3: handler (%d,%d) was started after Shutdown had returned (%v): the server's Reader handed that request to the serve loop only after the return of Shutdown (it was still busy with it when the context expired), and the loop passed it on to a handler all the same", j, q, effErr)
			}
			continue
		}
		if j >= restartBase {
			continue // a handler of the second run (restart while Shutdown 1 was still waiting): judged there
		}
		if r.child != nil && r.s.loopback() {
			// the same Server value was started again while this run was ending: a request that a
			// client of this run sent after that may have reached the NEW run (the kernel can give it the
			// port that this run has just released), which serves it rightly
			if mark := idx("restart(*)"); mark >= 0 && idx(fmt.Sprintf("client(%d).sending(%d)", j, q)) > mark {
				continue
			}
		}
		if i > effRet {
			return r.fail("I3: handler (%d,%d) was started after Shutdown had returned", j, q)
		}
		x := idx(fmt.Sprintf("handler.exit(%d,%d)", j, q))
		if x < 0 || x > effRet {
			return r.fail("I1: Shutdown returned nil while handler (%d,%d) was still running", j, q)
		}
	}
	// I2 write errors
	for _, n := range names {
		var j, q int
		if scan(n, "handler.writeerr(%d,%d)", &j, &q) && !r.exemptI2(j, q) {
			return r.fail("I2: the reply of handler (%d,%d) could not be written although its client was still there", j, q)
		}
	}
	// I6 at the moment of return: Shutdown itself leaves no socket of the server open
	r.mu.Lock()
	openAt := r.openAtReturn
	r.mu.Unlock()
	if openAt != "" {
		return r.fail("I6: when Shutdown returned (%v), %s of the server was still open", effErr, openAt)
	}
	// documented bound: a connection is served at most MaxTCPQueries requests
	if r.s.stream() && r.s.MaxTCP > 0 {
		perConn := map[int]int{}
		for _, n := range names {
			var j, q int
			if scan(n, "handler.enter(%d,%d)", &j, &q) {
				perConn[j]++
				if perConn[j] > r.s.MaxTCP {
					return r.fail("connection %d was served %d requests with MaxTCPQueries = %d", j, perConn[j], r.s.MaxTCP)
				}
			}
		}
	}
	// each handler ran at most once per request (no duplicate dispatch)
	seen := map[string]bool{}
	for _, n := range names {
		if strings.HasPrefix(n, "handler.enter(") {
			if seen[n] {
				return r.fail("request dispatched twice: %s", n)
			}
			seen[n] = true
		}
	}
	return nil
}

// faultError builds the injected error of a fault kind.
func faultError(kind string) *memnet.NetError {
	switch kind {
	case "tempTimeout":
		return &memnet.NetError{Msg: "injected: temporary timeout", IsTimeout: true, IsTemporary: true}
	case "tempNotTimeout": // like EMFILE / ENFILE / ECONNABORTED from accept(2)
		return &memnet.NetError{Msg: "injected: temporary, not a timeout", IsTemporary: true}
	case "timeoutNotTemporary":
		return &memnet.NetError{Msg: "injected: timeout that is not temporary", IsTimeout: true}
	}
	return &memnet.NetError{Msg: "injected: permanent failure"}
}

// injectFault makes the next accept / datagram read of the current transport fail once.
func (r *run) injectFault(kind string) {
	e := faultError(kind)
	switch {
	case r.lis != nil:
		r.lis.InjectAcceptError(e)
	case r.spy != nil:
		r.spy.InjectAcceptError(e)
	case r.pc != nil:
		r.pc.InjectReadError(e)
	default:
		return
	}
	r.log.Add("fault.injected(" + kind + ")")
}

// failedStart makes one start attempt that must fail, checks that it returns an error instead of
// blocking, that a following Shutdown returns at once (the "server not started" error when the
// server never began to serve), and leaves the Server value ready for the real start.
//
// sd = decorate | notify: a Shutdown runs concurrently with that start - it is called from inside
// the named callback of the library (see Misuse.Sd). Then neither call may block; when that
// Shutdown was the one that stopped the server (it returned nil) the start may return nil as well.
func (r *run) failedStart(kind, sd string) error {
	srv := r.srv
	savedL, savedP, savedNotify, savedNet, savedAddr := srv.Listener, srv.PacketConn, srv.NotifyStartedFunc, srv.Net, srv.Addr
	srv.Listener, srv.PacketConn = nil, nil
	// the concurrent Shutdown: launched once, from the callback named by sd
	var (
		sdcOnce   sync.Once
		sdcDone   = make(chan struct{})
		sdcErr    error
		sdcCalled atomic.Bool
	)
	sdcCtx, sdcCancel := context.WithCancel(context.Background()) // cancelled only to free a Shutdown that hangs
	defer sdcCancel()
	var flog *memnet.Log // in-memory sockets of the failing start log their events (names fpc.*, flis.*) only when sd is set
	if sd != "" {
		flog = r.log
	}
	hook := func(at string) {
		if sd != at {
			return
		}
		sdcOnce.Do(func() {
			sdcCalled.Store(true)
			r.log.Add("misuse.failedStart.shutdown-inside(" + at + ").call")
			go func() {
				defer close(sdcDone)
				sdcErr = srv.ShutdownContext(sdcCtx)
				r.log.Add("misuse.failedStart.shutdown-inside.return(" + errTag(sdcErr) + ")")
			}()
			// the callback returns when that Shutdown has done its locked part (it closes the listener /
			// sets the past deadline under the lock), when it has returned, or a few milliseconds later
			r.log.WaitAny(5*time.Millisecond, "fpc.setReadDeadline(past)", "flis.close", "misuse.failedStart.shutdown-inside.return(*)")
		})
	}
	srv.NotifyStartedFunc = func() { r.log.Add("failedstart.serving"); hook("notify") }
	savedDeco := srv.DecorateReader
	defer func() { srv.DecorateReader = savedDeco }()
	if sd == "decorate" {
		srv.DecorateReader = func(inner dns.Reader) dns.Reader { hook("decorate"); return savedDeco(inner) }
	}
	var holder interface{ Close() error }
	var injected *memnet.NetError
	listen := false
	switch kind {
	case "closedUDP":
		pc, err := net.ListenPacket("udp", "127.0.0.1:0")
		if err != nil {
			return nil
		}
		pc.Close()
		srv.PacketConn = pc
	case "closedPacketConn": // a generic (non-UDPConn) PacketConn that is already closed
		pc := memnet.NewPacketConn(flog, fname(flog, "fpc"), memnet.UDPAddr(53))
		pc.Close()
		srv.PacketConn = pc
	case "closedMemListener":
		l := memnet.NewListener(flog, fname(flog, "flis"))
		l.Close()
		srv.Listener = l
	case "closedListener":
		l, err := net.Listen("tcp", "127.0.0.1:0")
		if err != nil {
			return nil
		}
		l.Close()
		srv.Listener = l
	case "permanentAcceptErr", "timeoutNotTemporaryAccept": // a healthy listener whose first Accept fails for good
		l := memnet.NewListener(flog, fname(flog, "flis"))
		injected = faultError(strings.TrimSuffix(strings.TrimSuffix(kind, "Accept"), "AcceptErr"))
		l.InjectAcceptError(injected)
		srv.Listener = l
	case "permanentReadErr", "timeoutNotTemporaryRead":
		pc := memnet.NewPacketConn(flog, fname(flog, "fpc"), memnet.UDPAddr(53))
		injected = faultError(strings.TrimSuffix(strings.TrimSuffix(kind, "Read"), "ReadErr"))
		pc.InjectReadError(injected)
		srv.PacketConn = pc
	case "readerWithoutPacketConn": // a generic PacketConn, but the decorated Reader only knows ReadUDP/ReadTCP
		pc := memnet.NewPacketConn(flog, fname(flog, "fpc"), memnet.UDPAddr(53))
		holder = pc
		srv.PacketConn = pc
		srv.DecorateReader = func(inner dns.Reader) dns.Reader { hook("decorate"); return plainReader{inner} }
	case "nilListeners":
	case "badAddrTCP":
		listen, srv.Net, srv.Addr = true, "tcp", "127.0.0.1:99999"
	case "badAddrUDP":
		listen, srv.Net, srv.Addr = true, "udp", "127.0.0.1:99999"
	case "badNet":
		listen, srv.Net, srv.Addr = true, "bogus", "127.0.0.1:0"
	case "tlsNoCert":
		listen, srv.Net, srv.Addr = true, "tcp-tls", "127.0.0.1:0"
	case "portInUseTCP":
		l, err := net.Listen("tcp", "127.0.0.1:0")
		if err != nil {
			return nil
		}
		holder = l
		listen, srv.Net, srv.Addr = true, "tcp", l.Addr().String()
	case "portInUseUDP":
		pc, err := net.ListenPacket("udp", "127.0.0.1:0")
		if err != nil {
			return nil
		}
		holder = pc
		listen, srv.Net, srv.Addr = true, "udp", pc.LocalAddr().String()
	default:
		return fmt.Errorf("unknown failedStart kind %q", kind)
	}
	var startErr, sdErr error
	r.log.Add("misuse.failedStart(" + kind + ").call")
	okStart := within(watchdog(), func() {
		if listen {
			startErr = srv.ListenAndServe()
		} else {
			startErr = srv.ActivateAndServe()
		}
	})
	if holder != nil {
		holder.Close()
	}
	if !okStart {
		return r.hangOpt("a start that cannot succeed ("+kind+")", false)
	}
	r.log.Add("misuse.failedStart.return(" + errTag(startErr) + ")")
	stoppedInside := false // the concurrent Shutdown found a started server and stopped it
	if sdcCalled.Load() {
		// the start has returned: whatever that Shutdown was waiting for is over
		wd := watchdog()
		if r.sdcWatch > 0 {
			wd = r.sdcWatch
		}
		select {
		case <-sdcDone:
		case <-time.After(wd):
			stuck := dnsGoroutines()
			evs := r.log.String()
			sdcCancel() // frees it: ShutdownContext gives up on its context
			select {
			case <-sdcDone:
			case <-time.After(3 * time.Second):
				wedged.Store(true)
			}
			if r.sdcWatch == 0 {
				hangProven.Store(true)
			}
			srv.Net, srv.Addr = savedNet, savedAddr
			srv.Listener, srv.PacketConn, srv.NotifyStartedFunc = savedL, savedP, savedNotify
			return fmt.Errorf("I7: a Shutdown that was called from inside %s while a start that cannot succeed (%s) was under way did not return within %v after that start had returned (%v); %d goroutine(s) inside miekg/dns:\n%s\nevent log:\n%s",
				map[string]string{"decorate": "DecorateReader", "notify": "NotifyStartedFunc"}[sd], kind, wd, startErr, len(stuck), clip(strings.Join(stuck, "\n\n"), 3000), clip(evs, 6000))
		}
		switch {
		case sdcErr == nil:
			stoppedInside = true
		case isNotStarted(sdcErr):
		default:
			return r.fail("I4/I5: a Shutdown concurrent with a start that cannot succeed (%s) returned %v, want nil or the 'server not started' error", kind, sdcErr)
		}
	}
	if startErr == nil && !stoppedInside {
		return r.fail("I5: start with %s returned nil", kind)
	}
	if injected != nil && startErr != error(injected) && !stoppedInside {
		return r.fail("I4: the serve call hit the non-temporary error %q at its first accept/read but returned %v", injected.Msg, startErr)
	}
	served := r.log.Has("failedstart.serving")
	if !within(watchdog(), func() { sdErr = srv.Shutdown() }) {
		return r.hangOpt("Shutdown after a failed start ("+kind+": "+startErr.Error()+")", false)
	}
	r.log.Add("misuse.failedStart.shutdown(" + errTag(sdErr) + ")")
	// a server whose start failed before it began to serve is not started; one whose serve loop
	// ended with an error may still count as started until Shutdown is called (then nil is fine)
	if !isNotStarted(sdErr) && !(served && sdErr == nil) {
		return r.fail("I5: Shutdown after a failed start (%s: %v) returned %v, want the 'server not started' error", kind, startErr, sdErr)
	}
	srv.Net, srv.Addr = savedNet, savedAddr
	srv.Listener, srv.PacketConn, srv.NotifyStartedFunc = savedL, savedP, savedNotify
	return nil
}

// fname names an in-memory socket of a failing start only when its events are wanted.
func fname(l *memnet.Log, name string) string {
	if l == nil {
		return ""
	}
	return name
}

// plainReader hides the optional ReadPacketConn method of the server's default reader.
type plainReader struct{ dns.Reader }

// openTransport reports which of the server's own sockets is still open right now ("" = none).
func (r *run) openTransport() string {
	switch {
	case r.lis != nil:
		if !r.lis.Closed() {
			return "the listener (Close has not been called, or has not returned)"
		}
	case r.spy != nil:
		if !r.spy.Closed() {
			return "the TCP listener"
		}
	case r.rawLis != nil: // made by ListenAndServe
		if tl, ok := r.rawLis.(*net.TCPListener); ok && tl.SetDeadline(time.Time{}) == nil {
			return "the TCP listener that ListenAndServe opened"
		}
	case r.pc != nil:
		if !r.pc.Closed() {
			return "the PacketConn (Close has not been called, or has not returned)"
		}
	case r.udp != nil:
		if err := r.udp.SetReadDeadline(time.Time{}); err == nil {
			return "the UDP socket"
		}
	}
	return ""
}

// connsLeft returns the number of connections the server still tracks (Server.conns, read by
// reflection; 0 when the field does not exist). Only meaningful once the server is quiescent.
func connsLeft(srv *dns.Server) int {
	f := reflect.ValueOf(srv).Elem().FieldByName("conns")
	if !f.IsValid() || f.Kind() != reflect.Map {
		return 0
	}
	return f.Len()
}

// closedAndLeakFree is I6.
func (r *run) closedAndLeakFree() error {
	switch {
	case r.lis != nil:
		if !r.lis.Closed() {
			return r.fail("I6: listener not closed after shutdown")
		}
		for _, c := range r.lis.Accepted() {
			if !c.Closed() {
				return r.fail("I6: accepted connection %s not closed after shutdown", c.Name())
			}
		}
	case r.spy != nil:
		if !r.spy.Closed() {
			return r.fail("I6: listener not closed after shutdown")
		}
		for _, c := range r.spy.Accepted() {
			if !c.Closed() {
				return r.fail("I6: accepted connection %s not closed after shutdown", c.Name())
			}
		}
	case r.rawLis != nil:
		if tl, ok := r.rawLis.(*net.TCPListener); ok && tl.SetDeadline(time.Time{}) == nil {
			tl.Close()
			return r.fail("I6: the TCP listener that ListenAndServe opened is not closed after shutdown")
		}
	case r.pc != nil:
		if !r.pc.Closed() {
			return r.fail("I6: PacketConn not closed after shutdown")
		}
	case r.udp != nil:
		if err := r.udp.SetReadDeadline(time.Time{}); err == nil || !strings.Contains(err.Error(), "closed") {
			r.udp.Close()
			return r.fail("I6: UDP socket not closed after shutdown (SetReadDeadline returned %v)", err)
		}
	}
	deadline := time.Now().Add(leakPoll)
	for {
		g := dnsGoroutines()
		if len(g) == 0 {
			if n := connsLeft(r.srv); n != 0 {
				return r.fail("I6: %d connection(s) are still registered with the server (Server.conns) after shutdown completed and every goroutine has gone", n)
			}
			return nil
		}
		if time.Now().After(deadline) {
			r.rescue()
			return r.fail("I6: %d goroutine(s) of the server remain 5s after shutdown completed:\n%s", len(g), clip(strings.Join(g, "\n\n"), 4000))
		}
		time.Sleep(2 * time.Millisecond)
	}
}

// secondRun is the second life cycle on the same Server value (misuse restartAfterShutdown, see
// Restart): fresh transport, start, one client per request, Shutdown while the handlers of this
// run are held, release, and the invariants I1..I7 for THIS run: Shutdown 2 returns nil, and only
// after every handler of run 2 has returned; their replies arrive; no handler of run 2 starts
// after it; the serve call returns nil (a panic of the serve loop is caught here); nothing is left.
//
// drain = false: run 1 is completely over and has been checked (its Shutdown may have given up on
// its context - then the handlers it left behind have been released and have returned).
// drain = true: Shutdown 1 has just returned its context's error; handlers of run 1 may still be
// held. They are released at Restart.Release1. Nothing is asserted about THEM (the statement waives
// handlers that outlive an expired context), but run 1's serve call must still return nil, and
// whatever run 1 does while it drains must not break any promise made to run 2.
//
// mode shutting (ListenAndServe transports): the Shutdown call of run 1 has not returned - it is
// waiting for a held handler of run 1 - when the second start is made. At Restart.Release1 it is
// made to return (handlers of run 1 released, or its context cancelled) and must then return; what
// it does on its way out must not touch run 2. With a background context run 1 is judged in full
// (I1, I2, I4), with a context that was cancelled as in mode drain.
func (r *run) secondRun(mode string, serve1Done, clients1Done, sd1Done <-chan struct{}) error {
	rs := r.s.Restart
	reqs := r.s.restartReqs()
	drain := mode != "complete" // run 1 is not over yet
	ctxMode := mode == "shutting" && r.s.Ctx != "background"
	r.log.Add("restart(" + mode + ")")
	mark := r.log.Len()
	s2 := r.s
	s2.Transport = r.s.transport2()
	r2 := &run{s: s2, nonce: r.nonce, log: r.log, srv: r.srv, sh: r.sh, addr2idx: map[string]string{}, phase: 2, parent: r}
	r.child = r2
	if err := r2.attach(); err != nil {
		fmt.Fprintln(os.Stderr, "c13: INFRASTRUCTURE:", err)
		os.Exit(2)
	}
	released1 := false
	release1 := func() error {
		if !drain || released1 {
			return nil
		}
		released1 = true
		r.log.Add("release1") // shutting with a context: the context of Shutdown 1 is cancelled at this event
		if !ctxMode {
			r.release()
		}
		if mode == "shutting" {
			select {
			case <-sd1Done:
			case <-time.After(r.patience()):
				return r.hang("the Shutdown call of run 1 (its handlers are released or its context is cancelled; the same Server value has been started again meanwhile)")
			}
		}
		return nil
	}
	serve2Done := make(chan struct{})
	go func() {
		defer close(serve2Done)
		defer func() {
			if p := recover(); p != nil {
				r.log.Add("serve2.panic(" + clip(fmt.Sprint(p), 80) + ")")
			}
		}()
		e := r2.serve()
		if mode == "shutting" && isAlreadyStarted(e) {
			// Shutdown 1 has been called but has not got to the started flag yet: the refusal is the
			// right answer (I5); the start is repeated until Shutdown 1 has done its locked part
			r.log.Add("serve2.refused-while-started")
			for deadline := time.Now().Add(watchdog()); isAlreadyStarted(e) && time.Now().Before(deadline); {
				time.Sleep(100 * time.Microsecond)
				e = r2.serve()
			}
		}
		r.log.Point("serve2.return(" + errTag(e) + ")")
	}()
	started2 := make(chan bool, 1)
	go func() { started2 <- r.log.WaitCount("srv.started", 2, watchdog()) }()
	select {
	case ok := <-started2:
		if !ok {
			return r.hang("ActivateAndServe of the second run (never reported started)")
		}
	case <-serve2Done:
		if !r.log.WaitCount("srv.started", 2, 0) {
			r.log.Add("release1")
			r.release()
			r.rescue()
			return r.fail("restart(%s): the start on the same Server value with a fresh transport did not serve: %s", mode, r.lastOf("serve2.*"))
		}
	}
	r2.adopt(2)
	if rs.Release1 == "started2" {
		if e := release1(); e != nil {
			return e
		}
		r.paceRun1(drain && !ctxMode)
	}

	// --- clients of run 2
	for i := range reqs {
		j := restartBase + i
		r2.wg.Add(1)
		go r2.client(j, Client{Reqs: []Req{{Mode: reqs[i], Until: "release2"}}, Close: "end"})
	}
	const reach = 2 * time.Second // a request that has not got that far by then is not waited for
	gone := func(j int) []string {
		return []string{fmt.Sprintf("client(%d).dialerr", j), fmt.Sprintf("client(%d).senderr(1)", j), fmt.Sprintf("client(%d).recverr(1)", j)}
	}
	switch rs.At {
	case "started":
	case "sent":
		for i := range reqs {
			j := restartBase + i
			r.log.WaitAny(reach, append(gone(j), fmt.Sprintf("client(%d).sent(1)", j))...)
		}
	default: // entered
		for i, m := range reqs {
			j := restartBase + i
			want := fmt.Sprintf("handler.enter(%d,1)", j)
			if m == "fast" {
				want = fmt.Sprintf("client(%d).recv(1)", j)
			}
			if r.log.WaitAny(reach, append(gone(j), want)...) < 0 {
				r.log.Add("trigger2-fallback")
			}
		}
	}
	if rs.Release1 == "entered2" {
		if e := release1(); e != nil {
			return e
		}
		r.paceRun1(drain && !ctxMode)
	}

	// --- Shutdown of run 2
	var sd2Err error
	var open2 string
	sd2Done := make(chan struct{})
	go func() {
		defer close(sd2Done)
		r.sdCallAt[1].Store(time.Now().UnixNano())
		r.log.Point("shutdown2.call")
		var e error
		if rs.CtxAPI {
			e = r.srv.ShutdownContext(context.Background())
		} else {
			e = r.srv.Shutdown()
		}
		if !isNotStarted(e) {
			open2 = r2.openTransport()
		}
		sd2Err = e
		r.log.Point("shutdown2.return(" + errTag(e) + ")")
	}()
	// Shutdown 2 gets HoldMs to return although handlers of run 2 are held - it must not. (A longer
	// hold only gives a faulty library more time to show itself; no verdict depends on it.)
	hold := func() {
		select {
		case <-sd2Done:
		case <-time.After(time.Duration(rs.HoldMs) * time.Millisecond):
		}
	}
	hold()
	if rs.Release1 == "held2" {
		if e := release1(); e != nil { // run 1 finishes draining while Shutdown 2 waits for run 2
			return e
		}
		hold()
	}
	r.log.Add("release2")
	wd := time.After(watchdog())
	select {
	case <-sd2Done:
	case <-wd:
		return r.hang("Shutdown of the second run (all handlers released)")
	}
	select {
	case <-serve2Done:
	case <-wd:
		return r.hang("ActivateAndServe of the second run after Shutdown returned")
	}

	// --- run 1 finishes (drain)
	if drain {
		if e := release1(); e != nil {
			return e
		}
		r.release() // shutting with a context: only now are the handlers of run 1 let go
		if !r.waitHandlersExited(watchdog()) {
			return r.hang("a released handler")
		}
		if mode == "shutting" && !ctxMode {
			// Shutdown 1 waited for its handlers and returned nil: their replies are owed (I2)
			if e := r.awaitReplies(); e != nil {
				return e
			}
		}
		// both Shutdown calls have returned and every handler too: a connection of run 1 that was
		// inside a handler when the server was started again must now be let go by the server itself
		if e := r.staleConns(mark); e != nil {
			return e
		}
		r.teardown()
		select {
		case <-serve1Done:
		case <-time.After(watchdog()):
			return r.hang("the serve call of run 1 (its handlers are released, its clients gone)")
		}
	}
	if !r.waitHandlersExited(watchdog()) {
		return r.hang("a released handler")
	}

	// --- I2 of run 2: wait for the replies that were written, then tear the clients down
	names := r.log.Names()
	for _, n := range names[mark:] {
		var j, q int
		if scan(n, "handler.written(%d,%d)", &j, &q) && j >= restartBase {
			if r.log.WaitAny(10*time.Second, fmt.Sprintf("client(%d).recv(%d)", j, q), fmt.Sprintf("client(%d).recverr(%d)", j, q)) != 0 {
				r.rescue()
				return r.fail("I2 (second run): handler (%d,%d) wrote its reply without error but client %d did not receive it", j, q, j)
			}
		}
	}
	r2.teardown()
	if !within(watchdog(), func() {
		r2.wg.Wait()
		if drain {
			r.wg.Wait()
			<-clients1Done
		}
	}) {
		return r.hang("harness clients/controllers")
	}

	// --- invariants
	if drain {
		if e := r.invariants(); e != nil { // run 1: its handlers are waived (Shutdown 1 gave up), its serve call is not
			return e
		}
	} else {
		r.mu.Lock()
		viol := append([]string(nil), r.viol...)
		r.mu.Unlock()
		if len(viol) > 0 {
			return r.fail("%s", strings.Join(viol, "; "))
		}
	}
	names = r.log.Names()
	at := func(pat string) int {
		for i := mark; i < len(names); i++ {
			if memnet.Match(pat, names[i]) {
				return i
			}
		}
		return -1
	}
	if i := at("serve2.panic(*)"); i >= 0 {
		return r.fail("I4 (second run): the serve call did not return nil, it panicked: %s", names[i])
	}
	ret2 := at("shutdown2.return(*)")
	if sd2Err != nil {
		return r.fail("I4 (second run): Shutdown of the restarted server returned %v, want nil", sd2Err)
	}
	if at("serve2.return(nil)") < 0 {
		return r.fail("I4 (second run): the serve call of the restarted server returned %s, want nil", r.lastOf("serve2.*"))
	}
	for i := mark; i < len(names); i++ {
		var j, q int
		if !scan(names[i], "handler.enter(%d,%d)", &j, &q) || j < restartBase {
			continue
		}
		if i > ret2 {
			return r.fail("I3 (second run): handler (%d,%d) was started after Shutdown had returned", j, q)
		}
		if x := at(fmt.Sprintf("handler.exit(%d,%d)", j, q)); x < 0 || x > ret2 {
			return r.fail("I1 (second run of the same Server value): Shutdown returned nil while handler (%d,%d) was still running", j, q)
		}
		if at(fmt.Sprintf("handler.writeerr(%d,%d)", j, q)) >= 0 {
			return r.fail("I2 (second run): the reply of handler (%d,%d) could not be written although its client was still there", j, q)
		}
	}
	if open2 != "" {
		return r.fail("I6 (second run): when Shutdown returned, %s of the server was still open", open2)
	}
	if drain {
		if e := r.closedAndLeakFree(); e != nil {
			return e
		}
	}
	return r2.closedAndLeakFree()
}

// staleConns (drain, stream transports): every connection of run 1 whose handler was still running
// when the same Server value was started again (log position mark) must be closed by the server once
// that handler has returned and the second run has been shut down - without its client closing
// first. A connection that the server goes on reading belongs to no run any more: no Shutdown call
// will ever wake its reader, and run 1's serve call stays blocked on it (I6 / I4).
func (r *run) staleConns(mark int) error {
	if r.lis == nil && r.spy == nil {
		return nil
	}
	names := r.log.Names()
	held := map[int]bool{}
	for i, n := range names {
		var j, q int
		if i < mark && scan(n, "handler.enter(%d,%d)", &j, &q) && j < restartBase {
			held[j] = true
		}
		if i < mark && scan(n, "handler.exit(%d,%d)", &j, &q) {
			delete(held, j)
		}
	}
	closed := func(name string) (found, isClosed bool) {
		if r.lis != nil {
			for _, c := range r.lis.Accepted() {
				if c.Name() == name {
					return true, c.Closed()
				}
			}
		}
		if r.spy != nil {
			for _, c := range r.spy.Accepted() {
				if c.Name() == name {
					return true, c.Closed()
				}
			}
		}
		return false, false
	}
	for j := 1; j <= len(r.s.Clients); j++ {
		if !held[j] {
			continue
		}
		name := fmt.Sprintf("conn(%d)", j)
		deadline := time.Now().Add(leakPoll)
		for {
			found, cl := closed(name)
			if !found || cl {
				break
			}
			if time.Now().After(deadline) {
				g := dnsGoroutines()
				r.rescue()
				return r.fail("I6/I4: %s was accepted by the first run and was inside a handler when the same Server value was started again; its handler has returned and both Shutdown calls have returned, but 5s later the server still holds the connection open (%d goroutine(s) inside miekg/dns) - it belongs to no run, no Shutdown will unblock its reader and the first serve call cannot return:\n%s", name, len(g), clip(strings.Join(g, "\n\n"), 3000))
			}
			time.Sleep(2 * time.Millisecond)
		}
	}
	return nil
}

// paceRun1 gives the released handlers of run 1 the time to return before the controller goes on,
// so that whatever run 1 does when it has drained happens while run 2 is being served (pacing only:
// nothing is decided here, and after 2s the controller goes on regardless).
func (r *run) paceRun1(drain bool) {
	if !drain {
		return
	}
	for deadline := time.Now().Add(2 * time.Second); time.Now().Before(deadline); time.Sleep(300 * time.Microsecond) {
		open := 0
		for _, n := range r.log.Names() {
			var j, q int
			if scan(n, "handler.enter(%d,%d)", &j, &q) && j < restartBase {
				open++
			} else if scan(n, "handler.exit(%d,%d)", &j, &q) && j < restartBase {
				open--
			}
		}
		if open <= 0 {
			return
		}
	}
}

// lastOf returns the last logged event matching pat ("nothing" when there is none).
func (r *run) lastOf(pat string) string {
	names := r.log.Names()
	if i := r.log.LastIndex(pat); i >= 0 {
		return names[i]
	}
	return "nothing"
}

// classes derives the evidence classes from the scenario and the log.
func (r *run) classes() []string {
	s := r.s
	names := r.log.Names()
	cl := []string{"transport=" + s.Transport, "ctx=" + s.Ctx}
	for _, m := range s.Misuse {
		cl = append(cl, "misuse="+m.Op)
		if m.Op == "failedStart" {
			cl = append(cl, "failedStart="+m.At)
			if m.Sd != "" {
				cl = append(cl, "failedStart-shutdown-inside="+m.Sd)
			}
		}
	}
	hij := map[string]bool{}
	for _, c := range s.Clients {
		for _, q := range c.Reqs {
			if q.Hijack != "" {
				hij[q.Hijack] = true
			}
		}
	}
	if s.hasRestart() {
		for _, h := range s.Restart.Hijack {
			if h != "" {
				hij[h] = true
			}
		}
	}
	for _, h := range []string{"before", "after"} {
		if hij[h] {
			cl = append(cl, "handler-hijacks="+h)
		}
	}
	if s.stream() {
		cl = append(cl, fmt.Sprintf("maxTCP=%d", s.MaxTCP))
	}
	switch {
	case s.WriteTimeoutMs == 0:
		cl = append(cl, "writeTimeout=default")
	case s.WriteTimeoutMs <= 5:
		cl = append(cl, "writeTimeout=1..5ms")
	default:
		cl = append(cl, "writeTimeout=1h")
	}
	for _, n := range names {
		if strings.HasPrefix(n, "handler.write-past-writetimeout(") {
			cl = append(cl, "reply-written-later-than-WriteTimeout-after-shutdown-call")
			if s.stream() {
				cl = append(cl, "reply-written-later-than-WriteTimeout-after-shutdown-call:stream")
			}
			break
		}
	}
	pipe, part := false, false
	for _, c := range s.Clients {
		pipe = pipe || c.Pipeline
		part = part || (c.Partial > 0 && c.Close == "end" && s.stream())
	}
	if pipe {
		cl = append(cl, "client-pipelined")
	}
	if part {
		cl = append(cl, "client-partial-frame")
	}
	for _, n := range names {
		if n == "alien.request" || n == "alien.reply" {
			cl = append(cl, "alien-traffic-ignored")
			break
		}
	}
	for _, n := range names {
		if n == "failedstart.serving" {
			cl = append(cl, "failedStart-serve-loop-ended-with-error")
		}
		if n == "misuse.failedStart.shutdown(nil)" {
			cl = append(cl, "failedStart-shutdown-nil")
		}
		if n == "misuse.failedStart.shutdown-inside.return(nil)" {
			cl = append(cl, "failedStart-stopped-by-shutdown-inside")
		}
		if n == "misuse.failedStart.shutdown-inside.return(err:dns: server not started)" {
			cl = append(cl, "failedStart-shutdown-inside-not-started")
		}
		if n == "serve2.refused-while-started" {
			cl = append(cl, "restart(shutting):refused-until-shutdown-took-the-flag")
		}
	}
	call := -1
	for i, n := range names {
		if n == "shutdown.call" {
			call = i
			break
		}
	}
	if call < 0 {
		return append(cl, "no-shutdown")
	}
	running := map[string]bool{}
	unread := map[string]bool{}
	hijacker := map[string]bool{}
	for _, n := range names[:call] {
		switch {
		case strings.HasPrefix(n, "handler.enter("):
			running[strings.TrimPrefix(n, "handler.enter")] = true
		case strings.HasPrefix(n, "handler.hijack("):
			hijacker[strings.TrimPrefix(n, "handler.hijack")] = true
		case strings.HasPrefix(n, "handler.exit("):
			delete(running, strings.TrimPrefix(n, "handler.exit"))
		case strings.HasPrefix(n, "lis.accept.return(") && n != "lis.accept.return(closed)" && n != "lis.accept.return(err)":
			unread[strings.TrimSuffix(strings.TrimPrefix(n, "lis.accept.return("), ")")] = true
		case strings.HasPrefix(n, "reader.return(") && strings.HasSuffix(n, ",ok)"):
			f := strings.Split(strings.TrimPrefix(n, "reader.return("), ",")
			delete(unread, f[0])
		}
	}
	if len(running) > 0 {
		cl = append(cl, "sd-while-handler-running")
		for k := range running {
			if hijacker[k] {
				cl = append(cl, "sd-while-hijacking-handler-running")
				break
			}
		}
	}
	if len(unread) > 0 {
		cl = append(cl, "sd-while-conn-unread")
	}
	// Shutdown was called while a Reader had read a request and had not yet returned it to the serve loop
	lastRet := -1
	for i, n := range names {
		if strings.HasPrefix(n, "reader.return(") && strings.HasSuffix(n, ",ok)") {
			lastRet = i
		} else if strings.HasPrefix(n, "reader.handover(") && lastRet >= 0 && lastRet < call && call < i {
			cl = append(cl, "sd-while-reader-busy-with-request")
			break
		}
	}
	trig := s.Trigger
	if i := strings.Index(trig, "("); i > 0 {
		trig = trig[:i]
	}
	cl = append(cl, "trigger="+trig)
	cl = append(cl, r.fatalClasses(names, call)...)
	hasFallback, infeasible, late, gaveUp := false, false, false, false
	for i, n := range names {
		switch {
		case n == "trigger-fallback":
			hasFallback = true
		case strings.HasPrefix(n, "plan-infeasible"):
			infeasible = true
		case strings.HasPrefix(n, "handler.written(") && i > call:
			late = true
		case strings.HasPrefix(n, "shutdown.return(err:context"):
			gaveUp = true
		}
	}
	if hasFallback {
		cl = append(cl, "trigger-fallback")
	} else {
		cl = append(cl, "trigger-hit")
	}
	if infeasible {
		cl = append(cl, "plan-infeasible")
	}
	if len(s.Waits) > 0 {
		cl = append(cl, "with-plan")
	}
	for _, n := range names {
		if strings.HasPrefix(n, "fault.injected(") {
			cl = append(cl, "transient-"+strings.TrimPrefix(n, "fault.injected"))
		}
	}
	if late {
		cl = append(cl, "reply-written-after-shutdown-call")
	}
	if gaveUp {
		cl = append(cl, "shutdown-gave-up-on-ctx")
		ret := -1
		for i, n := range names {
			if strings.HasPrefix(n, "shutdown.return(") {
				ret = i
				break
			}
		}
		for i, n := range names {
			var j, q int
			if ret >= 0 && i > ret && scan(n, "reader.handover(%d,%d)", &j, &q) && j < restartBase {
				cl = append(cl, "gave-up:reader-hands-request-over-after-shutdown-returned")
				break
			}
		}
	}
	// the second run
	at2, call2 := -1, -1
	for i, n := range names {
		if strings.HasPrefix(n, "restart(") && at2 < 0 {
			at2 = i
			cl = append(cl, n)
		}
		if n == "shutdown2.call" && call2 < 0 {
			call2 = i
		}
	}
	if at2 >= 0 {
		if gaveUp {
			cl = append(cl, "restart-after-shutdown-gave-up")
		}
		run1, run2 := map[string]bool{}, map[string]bool{}
		upto := len(names)
		if call2 >= 0 {
			upto = call2
		}
		for i, n := range names[:upto] {
			var j, q int
			switch {
			case scan(n, "handler.enter(%d,%d)", &j, &q):
				if j >= restartBase {
					run2[fmt.Sprint(j, q)] = true
				} else if i < at2 {
					run1[fmt.Sprint(j, q)] = true
				}
			case scan(n, "handler.exit(%d,%d)", &j, &q):
				if j >= restartBase {
					delete(run2, fmt.Sprint(j, q))
				} else if i < at2 {
					delete(run1, fmt.Sprint(j, q))
				}
			}
		}
		if len(run1) > 0 {
			cl = append(cl, "restart-while-handler-of-run1-running")
		}
		if call2 >= 0 && len(run2) > 0 {
			cl = append(cl, "restart:sd2-while-handler-running")
		}
		if names[at2] != "restart(complete)" {
			cl = append(cl, "restart-release1="+s.Restart.Release1)
		}
		if names[at2] == "restart(shutting)" {
			cl = append(cl, "restart(shutting):ctx="+s.Ctx)
		}
		if s.lns() {
			cl = append(cl, "restart:"+s.Transport+"->"+s.transport2())
		}
		for i, n := range names[:upto] {
			var j, q int
			if i > at2 && scan(n, "handler.hijack(%d,%d)", &j, &q) && run2[fmt.Sprint(j, q)] {
				cl = append(cl, "restart:sd2-while-hijacking-handler-running")
				break
			}
		}
		if call2 >= 0 {
			cl = append(cl, "restart-at="+s.Restart.At)
		}
	}
	return cl
}
