package c13

import (
	"encoding/json"
	"fmt"
	"os"
	"testing"
	"time"

	"pgregory.net/rapid"
	"verif/harness/memnet"
)

func TestZZDebug(t *testing.T) {
	if os.Getenv("ZZDEBUG") == "" {
		t.Skip()
	}
	gen := rapid.Custom(genFault)
	shown := 0
	for i := 0; i < 120; i++ {
		s := gen.Example(i)
		r := &run{s: s, nonce: newNonce(), log: memnet.NewLog(), addr2idx: map[string]string{}, results: map[string]error{}, resultSet: map[string]bool{}, phase: 1, sh: &shared{addrs: map[string]string{}}}
		r.log.SetPlan(s.Waits)
		t0 := time.Now()
		err := r.execute()
		d := time.Since(t0)
		cons := r.log.Has("fault.fatal.consumed")
		fmt.Printf("case %d %s at=%s sd=%s trig=%s consumed=%v fallback=%v dur=%v err=%v\n", i, s.Transport, s.Fatal.At, s.Fatal.Sd, s.Trigger, cons, r.log.Has("trigger-fallback"), d.Round(time.Millisecond), err != nil)
		if (!cons || d > 100*time.Millisecond) && shown < 6 {
			shown++
			b, _ := json.Marshal(s)
			fmt.Println(string(b))
			fmt.Println(clip(r.log.String(), 5000))
		}
	}
}
