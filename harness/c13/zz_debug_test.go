package c13

import (
	"encoding/json"
	"fmt"
	"os"
	"testing"

	"verif/harness/memnet"
)

func TestZZDebug(t *testing.T) {
	f := os.Getenv("ZZDEBUG")
	if f == "" {
		t.Skip()
	}
	b, _ := os.ReadFile(f)
	var rep struct{ Case Scenario }
	if err := json.Unmarshal(b, &rep); err != nil {
		t.Fatal(err)
	}
	s := rep.Case
	watchdogFull = 3e9
	r := &run{s: s, nonce: newNonce(), log: memnet.NewLog(), addr2idx: map[string]string{}, results: map[string]error{}, resultSet: map[string]bool{}, phase: 1, sh: &shared{addrs: map[string]string{}}, strict: true}
	r.log.SetPlan(s.Waits)
	err := r.execute()
	fmt.Println("ERR:", err != nil)
	if err != nil {
		fmt.Println(err.Error())
	}
}
