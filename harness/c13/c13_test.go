package c13

import "verif/harness/pbt"

// restartDuringDrainCase is the breaker's sequence (round 7, remark 1) on a generic PacketConn:
// a handler of run 1 is held, ShutdownContext gives up on its context, the same Server value is
// started again at once, a handler of run 2 is held too, Shutdown() of run 2 is called, and while it
// waits the handler of run 1 is let go: the serve loop of run 1 then closes Server.shutdown - which
// since the second init() is the channel of run 2 - so Shutdown 2 returns nil under run 2's handler,
// and when run 2's own serve loop is done it closes the channel once more and panics.
func restartDuringDrainCase() Scenario {
	return Scenario{
		Transport: "memPacket", MaxTCP: -1,
		Clients:    []Client{{Reqs: []Req{{Mode: "late", Until: "release"}}, Close: "end"}},
		Trigger:    "handler.enter(1,1)",
		FallbackMs: 150, HoldMs: 5,
		Ctx:     "expired",
		Misuse:  []Misuse{{Op: "restartAfterShutdown"}},
		Restart: Restart{When: "drain", Reqs: []string{"late"}, At: "entered", HoldMs: 20, Release1: "held2"},
	}
}

func init() {
	pbt.Probe(knownRestartDrain, func() error {
		_, err := runScenario(restartDuringDrainCase())
		return err
	})
	pbt.Register(pbt.Sub[Scenario]{Name: "scenario-mem", Weight: 1, Gen: genMem, Check: checkScenario})
	pbt.Register(pbt.Sub[Scenario]{Name: "scenario-real", Weight: 0.3, Gen: genReal, Check: checkScenario})
	// restarts of the same Server value: after a Shutdown that completed or gave up on its context, and during the drain
	pbt.Register(pbt.Sub[Scenario]{Name: "scenario-restart", Weight: 0.15, Gen: genRestart, Check: checkScenario})
	pbt.Register(pbt.Sub[Stress]{Name: "stress", Weight: 0.5, Gen: genStress, Check: checkStress})
}
