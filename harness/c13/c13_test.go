package c13

import (
	"time"

	"verif/harness/memnet"
	"verif/harness/pbt"
)

// restartDuringDrainCase is the breaker's sequence (round 7, remark 1) on a generic PacketConn:
// a handler of run 1 is held, ShutdownContext gives up on its context, the same Server value is
// started again at once, a handler of run 2 is held too, Shutdown() of run 2 is called, and while it
// waits the handler of run 1 is let go: the serve loop of run 1 then closes Server.shutdown - which
// since the second init() is the channel of run 2 - so Shutdown 2 returns nil under run 2's handler,
// and when run 2's own serve loop is done it closes the channel once more and panics.
func restartDuringDrainCase() Scenario {
	return Scenario{
		Transport: "memPacket", MaxTCP: -1,
		Clients:    []Client{{Reqs: []Req{{Mode: "late", Until: "release"}}, Close: "end"}},
		Trigger:    "handler.enter(1,1)",
		FallbackMs: 150, HoldMs: 5,
		Ctx:     "expired",
		Misuse:  []Misuse{{Op: "restartAfterShutdown"}},
		Restart: Restart{When: "drain", Reqs: []string{"late"}, At: "entered", HoldMs: 20, Release1: "held2"},
	}
}

// listenRestartCase is remark 1 of round 8: Server{Net: "udp", Addr: "127.0.0.1:0"} is started with
// ListenAndServe, the handler of request (1,1) is held, ShutdownContext(ctx) is called and waits;
// ListenAndServe is called again on the same value and succeeds on a new port (Shutdown has cleared
// the flag); a request of run 2 is inside its handler when the context of the first Shutdown is
// cancelled: on its way out that call closes "srv.PacketConn" - read there, without the lock - which
// by now is the socket of run 2.
func listenRestartCase() Scenario {
	return Scenario{
		Transport: "lnsUDP", MaxTCP: -1,
		Clients:    []Client{{Reqs: []Req{{Mode: "late", Until: "release"}}, Close: "end"}},
		Trigger:    "handler.enter(1,1)",
		FallbackMs: 150, HoldMs: 5,
		Ctx: "expireAt", CtxAt: "release1",
		Misuse:  []Misuse{{Op: "restartAfterShutdown"}},
		Restart: Restart{When: "shutting", Reqs: []string{"late"}, At: "entered", HoldMs: 10, Release1: "entered2"},
	}
}

// staleSocketCase: run 1 is ListenAndServe("udp"), the handler of request (1,1) is held and Shutdown()
// is waiting for it; the same value is started again with ListenAndServe("tcp"), serves one request
// and is shut down: that second Shutdown finds the socket of run 1 in Server.PacketConn (ListenAndServe
// replaces only the field it uses) and closes it. Only then is the handler of run 1 let go: its reply
// cannot be written, although the Shutdown that is waiting for it has not even returned.
func staleSocketCase() Scenario {
	return Scenario{
		Transport: "lnsUDP", MaxTCP: -1,
		Clients:    []Client{{Reqs: []Req{{Mode: "late", Until: "release"}}, Close: "end"}},
		Trigger:    "handler.enter(1,1)",
		FallbackMs: 150, HoldMs: 5,
		Ctx:     "background",
		Misuse:  []Misuse{{Op: "restartAfterShutdown"}},
		Restart: Restart{When: "shutting", Transport: "lnsTCP", Reqs: []string{"fast"}, At: "entered", HoldMs: 5, Release1: "after2"},
	}
}

// sdInsideFailingStartCase is remark 3 of round 8: ActivateAndServe on a generic PacketConn with a
// DecorateReader whose Reader has no ReadPacketConn; Shutdown is called (on its own goroutine) from
// inside that DecorateReader call, which returns once Shutdown has set the past read deadline, i.e.
// has seen started == true and cleared it. serveUDP then returns its error without closing the
// channel that Shutdown is waiting on.
func sdInsideFailingStartCase() Scenario {
	return Scenario{
		Transport: "memPacket", MaxTCP: -1,
		Trigger:    "srv.started",
		FallbackMs: 60,
		Ctx:        "background",
		Misuse:     []Misuse{{Op: "failedStart", At: "readerWithoutPacketConn", Sd: "decorate"}},
	}
}

// lateHandoverCase is the open remark of round 10 (a decidable part of remark 2 of round 8): a
// generic PacketConn, one request; the server's (decorated) Reader has read the datagram and is still
// busy with it - it returns only when Shutdown has returned - when ShutdownContext is called with a
// context that has expired: that call returns the context's error at once, the Reader then hands the
// request to the serve loop, and the loop starts a handler for it. (The handler's reply cannot be
// written either: that Shutdown closed the socket on its way out.)
func lateHandoverCase(transport string) Scenario {
	at := "reader.return(pc,1,ok)"
	if transport == "memTCP" {
		at = "reader.return(1,1,ok)"
	}
	return Scenario{
		Transport: transport, MaxTCP: -1,
		Clients:    []Client{{Reqs: []Req{{Mode: "fast"}}, Close: "end"}},
		Trigger:    at,
		FallbackMs: 150, HoldMs: 2,
		Ctx:   "expired",
		Waits: []memnet.Wait{{At: at, For: "shutdown.return(*)", Once: true, TimeoutMs: 2000}},
	}
}

// staleReaderCase (round 10, found by the thorough tier in class restart(shutting) once the repairs of
// round 9 had made that class generable on every transport pair): run 1 is ListenAndServe("tcp");
// connection 1 is inside a held handler, connection 2 is idle and its goroutine sits at the entry of
// its (decorated) Reader - after serveTCPConn's "is my run still serving" test, before readTCP;
// Shutdown() is called and waits for the handler; the same Server value is started again and serves;
// then the handler is let go and the Reader of connection 2 goes on: readTCP arms the read deadline
// "if srv.started" - a flag that is true again, because of run 2 - over the past deadline Shutdown
// has set, and sleeps for ReadTimeout (1 h). Shutdown 1 never returns, nor does the serve call of run 1.
func staleReaderCase() Scenario {
	return Scenario{
		Transport: "lnsTCP", MaxTCP: -1,
		Clients: []Client{
			{Reqs: []Req{{Mode: "late", Until: "release"}}, Close: "end", StartAt: "reader.enter(2,1)"}, // connection 2 first
			{Close: "end"},
		},
		Trigger:    "handler.enter(1,1)",
		FallbackMs: 1000, HoldMs: 5,
		Ctx:     "background",
		Misuse:  []Misuse{{Op: "restartAfterShutdown"}},
		Waits:   []memnet.Wait{{At: "reader.enter(2,1)", For: "release", Once: true, TimeoutMs: 3000}},
		Restart: Restart{When: "shutting", Reqs: []string{"fast"}, At: "entered", HoldMs: 5, Release1: "entered2"},
	}
}

func init() {
	pbt.Probe(knownStaleReader, func() error { return probeScenario(staleReaderCase(), 2*time.Second) })
	pbt.Probe(knownLateHandover, func() error {
		if err := probeScenario(lateHandoverCase("memPacket"), 0); err != nil {
			return err
		}
		return probeScenario(lateHandoverCase("memTCP"), 0)
	})
	pbt.Probe(knownRestartDrain, func() error {
		return probeScenario(restartDuringDrainCase(), 0)
	})
	pbt.Probe(knownListenRestart, func() error {
		return probeScenario(listenRestartCase(), 0)
	})
	pbt.Probe(knownStaleSocket, func() error {
		return probeScenario(staleSocketCase(), 0)
	})
	pbt.Probe(knownSdInsideFailingStart, func() error {
		return probeScenario(sdInsideFailingStartCase(), 3*time.Second)
	})
	pbt.Register(pbt.Sub[Scenario]{Name: "scenario-mem", Weight: 1, Gen: genMem, Check: checkScenario})
	pbt.Register(pbt.Sub[Scenario]{Name: "scenario-real", Weight: 0.3, Gen: genReal, Check: checkScenario})
	// restarts of the same Server value: after a Shutdown that completed or gave up on its context, and during the drain
	pbt.Register(pbt.Sub[Scenario]{Name: "scenario-restart", Weight: 0.15, Gen: genRestart, Check: checkScenario})
	// the same through ListenAndServe (the library makes the sockets and replaces them in the Server value), and restarts while Shutdown is still waiting
	pbt.Register(pbt.Sub[Scenario]{Name: "scenario-listen", Weight: 0.12, Gen: genListen, Check: checkScenario})
	// round 10: a fatal error of the listener / socket ends the serve loop while handlers of the run are in flight; then Shutdown
	pbt.Register(pbt.Sub[Scenario]{Name: "scenario-fault", Weight: 0.12, Gen: genFault, Check: checkScenario})
	pbt.Register(pbt.Sub[Stress]{Name: "stress", Weight: 0.5, Gen: genStress, Check: checkStress})
}
