package c13

import "verif/harness/pbt"

func init() {
	pbt.Register(pbt.Sub[Scenario]{Name: "scenario-mem", Weight: 1, Gen: genMem, Check: checkScenario})
	pbt.Register(pbt.Sub[Scenario]{Name: "scenario-real", Weight: 0.3, Gen: genReal, Check: checkScenario})
	pbt.Register(pbt.Sub[Stress]{Name: "stress", Weight: 0.5, Gen: genStress, Check: checkStress})
}
