package c13

import (
	"errors"
	"fmt"
	"runtime"
	"strings"
	"time"

	"pgregory.net/rapid"

	"verif/harness/memnet"
	"verif/harness/pbt"
)

// Round 10: a FATAL fault of the listener / socket while the server is running.
//
// Until now the accept / datagram-read step of a RUNNING server only ever failed with errors that
// are Temporary() (retried, round 5); errors that end the serve loop were injected only into a start
// (failedStart kinds permanentAcceptErr, ...), i.e. with nothing in flight. The statement quantifies
// over every interleaving of start, accept, request read, handler execution and Shutdown, and its
// first clause - "Shutdown returns only after every handler that was started has returned" - does
// not care why the serve loop is no longer accepting: a loop that has left with ENOMEM / ENOBUFS, an
// error of a custom Listener / PacketConn, or because the owner closed the socket, still has the
// handlers (and, for streams, the connections) of its run, and a Shutdown that is called then has to
// wait for them like any other.
//
// Fatal is that dimension: at event At an error that is not Temporary() is queued for the pending
// (or next) Accept / ReadFrom of the run's in-memory listener / PacketConn; the controller calls
// Shutdown as Sd says. Everything else of the scenario (clients, held handlers, context, restart of
// the same Server value afterwards, ...) is what it is without the fault.
//
// Expectations (I1, I2, I3, I6, I7 as always; only I4 knows about the fault):
//   - the serve call returns nil (Shutdown got there first) or exactly the injected error;
//   - a Shutdown call that is made while a handler that was started is still running returns only
//     after that handler has returned (unless its context expired) - whatever it returns. "server not
//     started" is accepted from a call that found the run completely over (every handler returned):
//     the statement does not say whether a server whose serve loop has ended on its own still counts
//     as started (the pinned library says it does, and Shutdown returns nil).
type Fatal struct {
	// permanent: a net.Error that is neither Temporary() nor Timeout() | timeoutNotTemporary: Timeout()
	// but not Temporary() | plain: an error that is no net.Error at all
	Kind string
	At   string // the event at which the fault is injected
	// when Shutdown is called: parked (the serve loop has left its loop: it is waiting for the handlers
	// / connections of its run, or the serve call has returned) | consumed (Accept / ReadFrom has just
	// returned the error: Shutdown races with the loop's way out) | trigger (the scenario's own trigger,
	// wherever that falls)
	Sd string
}

func (s Scenario) fatal() bool { return s.Fatal.Kind != "" }

// fatalTransports: transports whose pending Accept / ReadFrom can be made to fail.
func fatalTransport(tr string) bool { return tr == "memTCP" || tr == "memTLS" || tr == "memPacket" }

// errPlainFatal is fault kind "plain".
var errPlainFatal = errors.New("injected: fatal error that is no net.Error")

func fatalError(kind string) error {
	switch kind {
	case "timeoutNotTemporary":
		return faultError("timeoutNotTemporary")
	case "plain":
		return errPlainFatal
	}
	return faultError("permanent")
}

// drawFatal draws the fault (after every other draw of the scenario). force: every case gets one
// (sub scenario-fault); otherwise about one case in ten of those that can have it (rapid favours the small values of a range).
func drawFatal(t *rapid.T, s *Scenario, force bool) {
	if !fatalTransport(s.Transport) || s.drain() || s.shutting() {
		return
	}
	if !force && rapid.IntRange(0, 15).Draw(t, "fatalOn") != 0 {
		return
	}
	var f Fatal
	f.Kind = rapid.SampledFrom([]string{"permanent", "permanent", "timeoutNotTemporary", "plain"}).Draw(t, "fatalKind")
	// mostly with a handler of the run in flight: request (1,1) is held until the controller lets go
	held := rapid.IntRange(0, 3).Draw(t, "fatalHold") > 0
	if held {
		holdFirst(t, s)
	}
	// these would compete with the one Shutdown call whose return is judged / rely on what the pinned
	// library happens to say about a second start after its serve loop has gone
	dropMisuse(s, "secondShutdown")
	dropMisuse(s, "secondStart")
	s.TempErrAt = ""
	if rapid.IntRange(0, 3).Draw(t, "fatalCtx") > 0 { // a Shutdown that waits
		s.Ctx, s.CtxAt = "background", ""
		s.CtxAPI = rapid.Bool().Draw(t, "fatalCtxAPI")
	}
	reach := s.reachable()
	f.At = rapid.SampledFrom(reach).Draw(t, "fatalAt")
	if held && rapid.IntRange(0, 2).Draw(t, "fatalAtHeld") > 0 {
		f.At = "handler.enter(1,1)"
	}
	f.Sd = rapid.SampledFrom([]string{"parked", "parked", "parked", "consumed", "trigger"}).Draw(t, "fatalSd")
	if f.Sd != "trigger" {
		s.Trigger = "fault.fatal." + f.Sd
		if s.FallbackMs < 150 {
			s.FallbackMs = 150
		}
		// the plan was drawn for the trigger this one replaces: a wait that holds something back until
		// Shutdown has acted would only hold the fault back (Shutdown now follows the fault); waits that
		// begin once Shutdown has been called stay
		var ws []memnet.Wait
		for _, w := range s.Waits {
			if afterShutdown(w.At) || !afterShutdown(w.For) {
				ws = append(ws, w)
			}
		}
		s.Waits = ws
	}
	if s.HoldMs < 2 {
		s.HoldMs = 2 // a Shutdown that does not wait shows itself before the controller releases the handlers
	}
	if s.hasRestart() && s.Restart.When != "complete" {
		// (dropping secondShutdown must not turn a restart that was to follow run 1 into one during its drain)
		s.Restart.When, s.Restart.Release1 = "complete", ""
	}
	s.Fatal = f
}

// afterShutdown reports whether an event (pattern) of a plan can only occur once Shutdown has been called.
func afterShutdown(ev string) bool {
	return postShutdown(ev) || ev == "hold-expired" || ev == "pc.close.enter" || ev == "lis.close.enter"
}

// genFault (sub scenario-fault): every case has the fault.
func genFault(t *rapid.T) Scenario {
	s := genCore(t, transportsMem)
	if s.hasRestart() {
		drawRestart(t, &s)
	}
	drawExtras(t, &s)
	drawFatal(t, &s, true)
	drawReaderBusy(t, &s)
	return s
}

// errReturn is the event that the run's listener / PacketConn logs when Accept / ReadFrom returns an
// injected error.
func (r *run) errReturn() string {
	if r.pc != nil {
		return "pc.readFrom.return(err)"
	}
	return "lis.accept.return(err)"
}

// fatalConsumed reports whether the fatal fault was returned to the serve loop: injected errors
// are returned in FIFO order, the transient ones of the scenario were queued before the start.
func (r *run) fatalConsumed() bool {
	return r.s.fatal() && r.log.Has("fatal.injected(*)") && r.log.Count(r.errReturn()) > len(r.s.TempErrs)
}

// serveLoopParked reports whether the goroutine of the serve call has left its loop and sits in the
// deferred wait for the handlers / connections of its run (scheduling aid only: no verdict depends
// on it; when the frames are not recognised the controller's fallback takes over).
func serveLoopParked() bool {
	buf := make([]byte, 1<<18)
	for {
		n := runtime.Stack(buf, true)
		if n < len(buf) {
			buf = buf[:n]
			break
		}
		buf = make([]byte, 2*len(buf))
	}
	for _, g := range strings.Split(string(buf), "\n\n") {
		if (strings.Contains(g, "dns.(*Server).serveTCP(") || strings.Contains(g, "dns.(*Server).serveUDP(")) && strings.Contains(g, "sync.(*WaitGroup).Wait") {
			return true
		}
	}
	return false
}

// fatalFault is the controller's helper goroutine for the fault: inject at Fatal.At, report when the
// serve loop has got the error (fault.fatal.consumed) and when it has left the loop (fault.fatal.parked).
func (r *run) fatalFault() {
	defer r.wg.Done()
	f := r.s.Fatal
	if r.log.WaitAny(2*watchdogFull, f.At, "shutdown.call", "teardown") != 0 {
		return
	}
	e := fatalError(f.Kind)
	switch {
	case r.lis != nil:
		r.lis.InjectAcceptError(e)
	case r.pc != nil:
		r.pc.InjectReadError(e)
	default:
		return
	}
	r.log.Add("fatal.injected(" + f.Kind + ")")
	pat, want := r.errReturn(), len(r.s.TempErrs)+1
	for i := 0; !r.log.WaitCount(pat, want, 20*time.Millisecond); i++ {
		if i >= 100 || r.log.Has("shutdown.call") || r.log.Has("teardown") {
			return // Shutdown got there first (the error is never returned), or the accept step is pinned
		}
	}
	r.log.Add("fault.fatal.consumed")
	for deadline := time.Now().Add(time.Second); time.Now().Before(deadline); time.Sleep(200 * time.Microsecond) {
		if r.log.Has("serve.return(*)") || serveLoopParked() {
			r.log.Add("fault.fatal.parked")
			return
		}
		if r.log.Has("shutdown.call") {
			return
		}
	}
	r.log.Add("fault.fatal.park-timeout")
}

// fatalClasses: evidence classes of the dimension.
func (r *run) fatalClasses(names []string, call int) []string {
	if !r.s.fatal() {
		return nil
	}
	cl := []string{"fatal=" + r.s.Fatal.Kind, "fatal-sd=" + r.s.Fatal.Sd}
	pos := func(pat string) int {
		for i, n := range names {
			if memnet.Match(pat, n) {
				return i
			}
		}
		return -1
	}
	cons := pos("fault.fatal.consumed")
	if cons < 0 || call < 0 {
		return append(cl, "fatal:not-consumed-before-shutdown")
	}
	if cons > call {
		return append(cl, "fatal:consumed-after-shutdown-call")
	}
	cl = append(cl, "fatal:serve-loop-ended-before-shutdown-call")
	if p := pos("fault.fatal.parked"); p >= 0 && p < call {
		cl = append(cl, "fatal:serve-loop-parked-at-shutdown-call")
	}
	if sr := pos("serve.return(*)"); sr >= 0 && sr < call {
		cl = append(cl, "fatal:serve-call-returned-before-shutdown-call")
	}
	running, open := 0, 0
	for _, n := range names[:call] {
		var j, q int
		switch {
		case scan(n, "handler.enter(%d,%d)", &j, &q):
			running++
		case scan(n, "handler.exit(%d,%d)", &j, &q):
			running--
		case strings.HasPrefix(n, "lis.accept.return(") && n != "lis.accept.return(err)" && n != "lis.accept.return(closed)":
			open++
		case strings.HasPrefix(n, "conn(") && strings.HasSuffix(n, ").close"):
			open--
		}
	}
	if running > 0 {
		cl = append(cl, "fatal:sd-after-serve-loop-ended-while-handler-running")
	}
	if open > 0 {
		cl = append(cl, "fatal:sd-after-accept-loop-ended-while-conn-open")
	}
	if pos("serve.return(err:*)") >= 0 {
		cl = append(cl, "fatal:serve-call-returned-the-error")
	}
	return cl
}

// fatalServeTag is the serve.return(...) event of a serve call that returned the injected error.
func (r *run) fatalServeTag() string {
	return fmt.Sprintf("serve.return(%s)", errTag(fatalError(r.s.Fatal.Kind)))
}

// ---------------------------------------------------------------------------------------------
// Round 10: a Reader that is still busy with a request it has read when Shutdown is called.
//
// The window "request read, not yet with the serve loop" is one of the interleavings the statement
// names ({request read, handler enter, Shutdown}); with the library's own reader it is a few
// instructions wide, with a DecorateReader that does anything after the inner read it is as wide as
// that work. The scenario's Reader wrapper has an interposition point there (reader.return(...),
// after the library's reader has returned); drawReaderBusy (drawn last, cases without a fatal
// fault, every transport) calls Shutdown at that point and holds the Reader
//
//   - "served" (about one case in eight): until Shutdown has done its locked part (the past read
//     deadline is set on the connection / the PacketConn; "release" where that cannot be observed).
//     The request then reaches its handler while Shutdown is waiting: I1, I2 as for every handler.
//     (Seeded change C13-S of this round lives in exactly this window; it used to be met by chance only.)
//   - "gave-up" (about one case in ten; the remark of round 10): Shutdown is called with a context that
//     has expired or expires at the call, and the Reader is held until shutdown.return is logged.
//     Oracle (invariants, I3 for a Shutdown that gave up): the request must not get a handler. This
//     is the class of known finding handler-started-after-shutdown-gave-up: not drawn while it is live.
func drawReaderBusy(t *rapid.T, s *Scenario) {
	if s.fatal() || s.drain() || s.shutting() {
		return
	}
	mode := ""
	if rapid.IntRange(0, 15).Draw(t, "lateHandoverOn") == 0 {
		mode = "gave-up"
		if pbt.Known(knownLateHandover) {
			pbt.Excluded(knownLateHandover)
			mode = ""
		}
	}
	if mode == "" && rapid.IntRange(0, 11).Draw(t, "readerBusyOn") == 0 {
		mode = "served"
	}
	if mode == "" {
		return
	}
	if len(s.Clients) == 0 {
		s.Clients = append(s.Clients, Client{Close: "end"})
	}
	c := &s.Clients[0]
	c.StartAt = ""
	if len(c.Reqs) == 0 {
		c.Reqs = append(c.Reqs, Req{Mode: "fast"})
	}
	at := "reader.return(pc,*,ok)"
	if s.stream() {
		at = "reader.return(1,1,ok)"
	}
	s.Trigger = at
	if s.FallbackMs < 150 {
		s.FallbackMs = 150
	}
	hold := memnet.Wait{At: at, Once: true}
	if mode == "gave-up" {
		s.Ctx, s.CtxAPI = "expired", false
		if rapid.Bool().Draw(t, "lateHandoverCtxAtCall") {
			s.Ctx, s.CtxAt = "expireAt", "shutdown.call"
		}
		dropMisuse(s, "secondShutdown") // the call that gives up is the effective one
		hold.For, hold.TimeoutMs = "shutdown.return(*)", 300
	} else {
		if rapid.IntRange(0, 3).Draw(t, "readerBusyCtx") > 0 { // a Shutdown that waits
			s.Ctx, s.CtxAt = "background", ""
			s.CtxAPI = rapid.Bool().Draw(t, "readerBusyCtxAPI")
		}
		switch {
		case s.lns() || !s.spied():
			hold.For = "release"
			if s.HoldMs < 2 {
				s.HoldMs = 2
			}
		case s.stream():
			hold.For = "conn(1).setReadDeadline(past)"
		default:
			hold.For = "pc.setReadDeadline(past)"
		}
		hold.TimeoutMs = 150
	}
	var ws []memnet.Wait
	for _, w := range s.Waits {
		if afterShutdown(w.At) || !afterShutdown(w.For) {
			ws = append(ws, w)
		}
	}
	s.Waits = append(ws, hold)
	if s.hasRestart() && s.Restart.When != "complete" {
		s.Restart.When, s.Restart.Release1 = "complete", ""
	}
}
