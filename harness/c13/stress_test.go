package c13

import (
	"crypto/hmac"
	"crypto/sha256"
	"crypto/tls"
	"encoding/hex"
	"encoding/json"
	"fmt"
	"net"
	"os"
	"runtime"
	"strings"
	"sync"
	"sync/atomic"
	"time"

	"github.com/miekg/dns"
	"pgregory.net/rapid"

	"verif/harness/memnet"
	"verif/harness/pbt"
)

// Stress is a start/traffic/stop round with (almost) no instrumentation: no event log, no
// interposition – so that the harness adds as few happens-before edges as possible and the race
// detector sees the library's own synchronisation. The schedule is whatever the Go scheduler and
// the generated delays produce.
type Stress struct {
	Transport string // realUDP | realTCP | memTCP | memPacket
	Clients   int
	Reqs      int
	SleepUs   []int  // handler sleep per request ordinal (cyclic), microseconds
	Mode      string // blind: Shutdown is retried from the very beginning, without waiting for the start notification
	//                  timed: Shutdown DelayUs after the start notification
	DelayUs    int
	Restarts   int      // number of start/stop cycles on the same Server value
	Seq        []string // transport of the 2nd, 3rd … cycle (empty: as the first): restarts that switch transport
	KeepFields bool     // a restart leaves Listener / PacketConn of the previous run in the Server value where the API
	//                      allows it (ListenAndServe overwrites only the field it uses; ActivateAndServe on a PacketConn ignores a stale Listener)
	TsigDelayUs int // > 0: the server has a TsigProvider whose Verify takes this long, clients sign every request,
	//                     the handler requires TsigStatus() == nil (the read loop must not touch a request still being verified)
	MaxTCP      int    // Server.MaxTCPQueries
	SecondStart string // timed mode: "" | activate | listen – a second ActivateAndServe / ListenAndServe once started (must fail at once)
	// Hijack n > 0: the handler of every n-th request takes its connection over with Hijack() - before
	// it sleeps or after it has replied, alternating - and closes it itself before it returns. It is a
	// handler that was started all the same: Shutdown waits for it
	Hijack int `json:",omitempty"`
	// Server.WriteTimeout in microseconds (round 9; 0 = not set): mostly shorter than the handlers'
	// sleep, so that handlers which are in flight when Shutdown is called answer later than that after
	// the call. No timeout of the server takes the reply of a started handler away (I2): a WriteMsg of
	// a handler of this run must not fail - the clients keep their connections until Shutdown and the
	// serve call have returned
	WriteTimeoutUs int `json:",omitempty"`
}

func genStress(t *rapid.T) Stress {
	s := Stress{
		Transport: rapid.SampledFrom([]string{"realUDP", "realTCP", "realTCP", "memTCP", "memTCP", "memPacket", "lnsUDP", "lnsTCP", "lnsUDP6", "lnsTCP6", "lnsTLS"}).Draw(t, "transport"),
		Clients:   rapid.IntRange(0, 8).Draw(t, "clients"),
		Reqs:      rapid.IntRange(1, 4).Draw(t, "reqs"),
		Mode:      rapid.SampledFrom([]string{"blind", "timed", "timed", "timed"}).Draw(t, "mode"),
		DelayUs:   rapid.SampledFrom([]int{0, 0, 5, 20, 50, 100, 200, 400, 800, 1500}).Draw(t, "delay"),
		Restarts:  rapid.SampledFrom([]int{1, 1, 2, 3}).Draw(t, "cycles"),
	}
	s.MaxTCP = rapid.SampledFrom([]int{-1, -1, 0, 0, 1, 2, 128}).Draw(t, "maxTCP")
	if rapid.IntRange(0, 9).Draw(t, "tsig") < 4 {
		s.TsigDelayUs = rapid.SampledFrom([]int{1, 20, 100, 300}).Draw(t, "tsigDelay")
		// many signed datagrams in flight at once, large enough that walking them takes a while
		s.Clients = rapid.IntRange(4, 12).Draw(t, "tsigClients")
		s.Reqs = rapid.IntRange(3, 6).Draw(t, "tsigReqs")
		if rapid.IntRange(0, 9).Draw(t, "tsigDgram") < 7 {
			s.Transport = rapid.SampledFrom([]string{"memPacket", "memPacket", "realUDP", "lnsUDP"}).Draw(t, "tsigTransport")
		}
	}
	if s.Restarts > 1 && rapid.IntRange(0, 9).Draw(t, "switch") < 6 {
		// a Server value that served one transport is restarted on another one
		if rapid.Bool().Draw(t, "firstLns") {
			s.Transport = rapid.SampledFrom([]string{"lnsUDP", "lnsUDP", "lnsTCP"}).Draw(t, "transport0")
		}
		for i := 1; i < s.Restarts; i++ {
			s.Seq = append(s.Seq, rapid.SampledFrom([]string{"lnsTCP", "lnsTCP", "lnsUDP", "lnsUDP", "lnsUDP6", "lnsTCP6", "lnsTLS", "realTCP", "realUDP", "memTCP", "memPacket"}).Draw(t, "transportN"))
		}
		s.KeepFields = rapid.IntRange(0, 3).Draw(t, "keepFields") > 0
	}
	if s.Mode == "timed" {
		s.SecondStart = rapid.SampledFrom([]string{"", "", "activate", "listen"}).Draw(t, "secondStart")
	}
	n := rapid.IntRange(1, 4).Draw(t, "nsleep")
	for i := 0; i < n; i++ {
		s.SleepUs = append(s.SleepUs, rapid.SampledFrom([]int{0, 0, 10, 100, 300, 1000}).Draw(t, "sleep"))
	}
	if rapid.IntRange(0, 3).Draw(t, "hijackOn") == 0 { // drawn last
		s.Hijack = rapid.SampledFrom([]int{1, 1, 2, 3}).Draw(t, "hijackEvery")
	}
	s.WriteTimeoutUs = rapid.SampledFrom([]int{0, 0, 20, 100, 300, 3600000000}).Draw(t, "writeTimeoutUs") // drawn after everything else
	return s
}

func packetTransport(tr string) bool { return strings.Contains(tr, "UDP") || tr == "memPacket" }

// ipv6Loopback reports (once) whether [::1] can be bound.
var ipv6Loopback = sync.OnceValue(func() bool {
	p, err := net.ListenPacket("udp6", "[::1]:0")
	if err != nil {
		return false
	}
	p.Close()
	return true
})

type stressRun struct {
	tsigBad  atomic.Int32
	tsigOK   atomic.Int32
	tsigMsg  atomic.Value
	noV6     bool
	nonce    string
	s        Stress
	active   atomic.Int32
	returned atomic.Bool
	handled  atomic.Int32
	hijacked atomic.Int32 // handlers that took their connection over
	late     atomic.Int32 // handlers that started after Shutdown had returned
	overlap  atomic.Int32 // Shutdown was called while a handler was active (sampled)
	writeBad atomic.Int32 // replies of handlers of this run that could not be written
	writeMsg atomic.Value // the first such error
}

// slowProvider is an HMAC-SHA256 TsigProvider whose Verify can be made slow: the request octets
// must stay untouched for as long as the server needs to verify them.
type slowProvider struct {
	key   []byte
	delay time.Duration
}

func (p slowProvider) Generate(msg []byte, t *dns.TSIG) ([]byte, error) {
	h := hmac.New(sha256.New, p.key)
	h.Write(msg)
	return h.Sum(nil), nil
}

func (p slowProvider) Verify(msg []byte, t *dns.TSIG) error {
	if p.delay > 0 {
		time.Sleep(p.delay)
	}
	mac, err := hex.DecodeString(t.MAC)
	want, _ := p.Generate(msg, t)
	if err != nil || !hmac.Equal(mac, want) {
		return dns.ErrSig
	}
	return nil
}

const stressTsigKey = "stress-key."

func (r *stressRun) handler(w dns.ResponseWriter, req *dns.Msg) {
	if r.returned.Load() {
		r.late.Add(1)
	}
	if r.s.TsigDelayUs > 0 && len(req.Question) == 1 && strings.Contains(req.Question[0].Name, r.nonce) {
		// every request of this run was signed correctly by its client
		if req.IsTsig() == nil || w.TsigStatus() != nil {
			if r.tsigBad.Add(1) == 1 {
				r.tsigMsg.Store(fmt.Sprintf("request %s: TSIG present=%v, TsigStatus()=%v", req.Question[0].Name, req.IsTsig() != nil, w.TsigStatus()))
			}
		} else {
			r.tsigOK.Add(1)
		}
	}
	r.active.Add(1)
	n := r.handled.Add(1)
	hijack := r.s.Hijack > 0 && int(n)%r.s.Hijack == 0
	if hijack && (int(n)/r.s.Hijack)%2 == 0 {
		w.Hijack()
	}
	if us := r.s.SleepUs[int(n)%len(r.s.SleepUs)]; us > 0 {
		time.Sleep(time.Duration(us) * time.Microsecond)
	}
	m := new(dns.Msg)
	m.SetReply(req)
	m.Answer = []dns.RR{&dns.TXT{Hdr: dns.RR_Header{Name: req.Question[0].Name, Rrtype: dns.TypeTXT, Class: dns.ClassINET}, Txt: []string{"tok-" + req.Question[0].Name}}}
	if err := w.WriteMsg(m); err != nil && strings.Contains(req.Question[0].Name, r.nonce) {
		if r.writeBad.Add(1) == 1 {
			r.writeMsg.Store(fmt.Sprintf("request %s: %v", req.Question[0].Name, err))
		}
	}
	if hijack {
		r.hijacked.Add(1)
		w.Hijack()
		w.Close() // the connection is the handler's
	}
	r.active.Add(-1)
}

func checkStress(s Stress) error {
	key, _ := json.Marshal(s)
	if wedged.Load() {
		pbt.Note(key, false, "skipped-after-wedge")
		return nil
	}
	r := &stressRun{s: s, nonce: newNonce()}
	srv := &dns.Server{ReadTimeout: time.Hour, IdleTimeout: func() time.Duration { return time.Hour }, Handler: dns.HandlerFunc(r.handler), MaxTCPQueries: s.MaxTCP,
		WriteTimeout: time.Duration(s.WriteTimeoutUs) * time.Microsecond}
	if s.TsigDelayUs > 0 {
		srv.UDPSize = 4096
		srv.MsgAcceptFunc = func(dns.Header) dns.MsgAcceptAction { return dns.MsgAccept } // nine additional records
		srv.TsigProvider = slowProvider{key: []byte("stress secret"), delay: time.Duration(s.TsigDelayUs) * time.Microsecond}
	}
	overlapAny := false
	for cycle := 0; cycle < s.Restarts; cycle++ {
		ov, err := r.cycle(srv, cycle)
		if err != nil {
			pbt.Note(key, true, "transport="+s.Transport, "mode="+s.Mode, "failed")
			return fmt.Errorf("cycle %d: %v", cycle, err)
		}
		overlapAny = overlapAny || ov
	}
	cl := []string{"transport=" + s.Transport, "mode=" + s.Mode, fmt.Sprintf("cycles=%d", s.Restarts)}
	if r.noV6 {
		cl = append(cl, "ipv6-unavailable")
	}
	prev := s.Transport
	for _, tr := range s.Seq {
		cl = append(cl, "transport="+tr)
		if packetTransport(prev) != packetTransport(tr) {
			if packetTransport(prev) {
				cl = append(cl, "restart:datagram->stream")
			} else {
				cl = append(cl, "restart:stream->datagram")
			}
			if s.KeepFields {
				cl = append(cl, "restart-with-stale-fields")
			}
		}
		prev = tr
	}
	if overlapAny {
		cl = append(cl, "sd-while-handler-running")
	}
	if r.handled.Load() > 0 {
		cl = append(cl, "handled>0")
	}
	if r.tsigOK.Load() > 0 {
		cl = append(cl, "tsig-verified-by-slow-provider")
	}
	if r.hijacked.Load() > 0 {
		cl = append(cl, "handler-hijacks")
	}
	switch {
	case s.WriteTimeoutUs == 0:
		cl = append(cl, "writeTimeout=default")
	case s.WriteTimeoutUs <= 1000:
		cl = append(cl, "writeTimeout=20..300us")
	default:
		cl = append(cl, "writeTimeout=1h")
	}
	pbt.Note(key, overlapAny || s.Mode == "blind" || s.Restarts > 1, cl...)
	return nil
}

func (r *stressRun) cycle(srv *dns.Server, cycle int) (overlap bool, err error) {
	s := r.s
	if cycle > 0 && cycle-1 < len(s.Seq) {
		s.Transport = s.Seq[cycle-1]
	}
	if strings.HasSuffix(s.Transport, "6") && !ipv6Loopback() {
		s.Transport = strings.TrimSuffix(s.Transport, "6") // no IPv6 here: same round over IPv4
		r.noV6 = true
	}
	r.returned.Store(false)
	var (
		lis    *memnet.Listener
		rawLis net.Listener
		pnet   *memnet.PacketNet
		pc     *memnet.PacketConn
		udp    *net.UDPConn
	)
	if !s.KeepFields {
		srv.Listener, srv.PacketConn = nil, nil
	} else if s.Transport == "memTCP" || s.Transport == "realTCP" {
		srv.PacketConn = nil // ActivateAndServe serves the PacketConn when both are set
	}
	switch s.Transport {
	case "memTCP":
		lis = memnet.NewListener(nil, "")
		srv.Listener = lis
	case "memPacket":
		pnet = memnet.NewPacketNet(nil)
		pc = pnet.Listen("", memnet.UDPAddr(53))
		srv.PacketConn = pc
	case "realTCP":
		l, e := net.Listen("tcp", "127.0.0.1:0")
		if e != nil {
			fmt.Fprintln(os.Stderr, "c13: INFRASTRUCTURE:", e)
			os.Exit(2)
		}
		rawLis = l
		srv.Listener = l
	case "realUDP":
		p, e := net.ListenPacket("udp", "127.0.0.1:0")
		if e != nil {
			fmt.Fprintln(os.Stderr, "c13: INFRASTRUCTURE:", e)
			os.Exit(2)
		}
		udp = p.(*net.UDPConn)
		srv.PacketConn = udp
	case "lnsUDP":
		srv.Net, srv.Addr = "udp", "127.0.0.1:0"
	case "lnsTCP":
		srv.Net, srv.Addr = "tcp", "127.0.0.1:0"
	case "lnsUDP6":
		srv.Net, srv.Addr = "udp6", "[::1]:0"
	case "lnsTLS": // ListenAndServe's third start path: DNS over TLS
		srv.Net, srv.Addr = "tcp-tls", "127.0.0.1:0"
		srv.TLSConfig, _ = tlsConfigs()
	case "lnsTCP6":
		srv.Net, srv.Addr = "tcp6", "[::1]:0"
	default:
		return false, fmt.Errorf("unknown transport %q", s.Transport)
	}
	lns := strings.HasPrefix(s.Transport, "lns")
	started := make(chan struct{})
	srv.NotifyStartedFunc = func() { close(started) }
	serveDone := make(chan error, 1)
	var serveRet atomic.Bool
	go func() {
		var e error
		if lns {
			e = srv.ListenAndServe()
		} else {
			e = srv.ActivateAndServe()
		}
		serveRet.Store(true)
		serveDone <- e
	}()
	lnsAddr := func() string { // only valid after the start notification
		if strings.HasPrefix(s.Transport, "lnsT") {
			return srv.Listener.Addr().String()
		}
		return srv.PacketConn.LocalAddr().String()
	}

	var mu sync.Mutex
	var conns []net.Conn
	var bad []string
	torn := false
	dial := func(j int) (net.Conn, error) {
		var c net.Conn
		var e error
		switch s.Transport {
		case "memTCP":
			c, e = lis.DialNamed("", "")
		case "memPacket":
			c = pnet.Dial("", memnet.UDPAddr(41000+j), pc.LocalAddr())
		case "realTCP":
			c, e = net.DialTimeout("tcp", rawLis.Addr().String(), 2*time.Second)
		case "realUDP":
			c, e = net.Dial("udp", udp.LocalAddr().String())
		case "lnsTCP", "lnsTCP6":
			c, e = net.DialTimeout("tcp", lnsAddr(), 2*time.Second)
		case "lnsTLS":
			_, cfg := tlsConfigs()
			c, e = tls.DialWithDialer(&net.Dialer{Timeout: 2 * time.Second}, "tcp", lnsAddr(), cfg)
		case "lnsUDP", "lnsUDP6":
			c, e = net.Dial("udp", lnsAddr())
		}
		if e != nil {
			return nil, e
		}
		mu.Lock()
		defer mu.Unlock()
		if torn {
			c.Close()
			return nil, fmt.Errorf("torn down")
		}
		conns = append(conns, c)
		return c, nil
	}
	var cwg sync.WaitGroup
	for j := 1; j <= s.Clients; j++ {
		j := j
		cwg.Add(1)
		go func() {
			defer cwg.Done()
			if s.Mode == "timed" || lns {
				select {
				case <-started:
				case <-time.After(2 * watchdogFull):
					return
				}
			}
			c, e := dial(j)
			if e != nil {
				return
			}
			co := &dns.Conn{Conn: c}
			if s.TsigDelayUs > 0 {
				co.TsigProvider = slowProvider{key: []byte("stress secret")}
			}
			for q := 1; q <= s.Reqs; q++ {
				m := new(dns.Msg)
				m.SetQuestion(fmt.Sprintf("q%d.c%d.y%d.%s.test.", q, j, cycle, r.nonce), dns.TypeTXT)
				if s.TsigDelayUs > 0 {
					for k := 0; k < 8; k++ { // ~2 KiB of additional records in front of the TSIG record
						m.Extra = append(m.Extra, &dns.TXT{Hdr: dns.RR_Header{Name: "pad.", Rrtype: dns.TypeTXT, Class: dns.ClassINET}, Txt: []string{strings.Repeat("x", 250)}})
					}
					m.SetTsig(stressTsigKey, dns.HmacSHA256, 300, time.Now().Unix())
				}
				if co.WriteMsg(m) != nil {
					return
				}
				rep, e := co.ReadMsg()
				isMem := s.Transport == "memTCP" || s.Transport == "memPacket"
				for i := 0; e == nil && !isMem && !strings.Contains(replyToken(rep), r.nonce) && i < 8; i++ {
					// not from this run's server: a loopback port just released by it (or by this
					// client) now belongs to another process (see newNonce)
					if strings.Contains(s.Transport, "TCP") {
						return
					}
					rep, e = co.ReadMsg()
				}
				if e != nil {
					return // the server is going away; nothing is promised for requests it did not handle
				}
				if rep.Id != m.Id || replyToken(rep) != "tok-"+m.Question[0].Name {
					mu.Lock()
					bad = append(bad, fmt.Sprintf("client %d request %d received a foreign reply: %v", j, q, rep))
					mu.Unlock()
					return
				}
			}
		}()
	}

	// --- Shutdown
	var sdErr, secondErr error
	secondHung := false
	sdDone := make(chan struct{})
	go func() {
		defer close(sdDone)
		if s.Mode == "timed" {
			<-started
			if s.SecondStart != "" {
				var e2 error
				if !within(watchdog(), func() {
					if s.SecondStart == "listen" {
						e2 = srv.ListenAndServe()
					} else {
						e2 = srv.ActivateAndServe()
					}
				}) {
					secondHung = true
					return
				}
				if !isAlreadyStarted(e2) {
					secondErr = fmt.Errorf("I5: a second %s on a started server returned %v, want the 'server already started' error", s.SecondStart, e2)
				}
			}
			for t0 := time.Now(); time.Since(t0) < time.Duration(s.DelayUs)*time.Microsecond; {
				runtime.Gosched()
			}
			if r.active.Load() > 0 {
				overlap = true
			}
			sdErr = srv.Shutdown()
			r.returned.Store(true)
			return
		}
		// blind: until it stops saying "not started"
		for {
			gone := serveRet.Load()
			sdErr = srv.Shutdown()
			if !isNotStarted(sdErr) || gone {
				// gone: the serve call had returned before this attempt although no Shutdown ever
				// succeeded - the server stopped (or never began) serving on its own
				r.returned.Store(true)
				return
			}
			runtime.Gosched()
		}
	}()
	fail := func(what string) (bool, error) {
		stuck := dnsGoroutines()
		if len(stuck) == 0 {
			fmt.Fprintf(os.Stderr, "c13: INFRASTRUCTURE: stress: %s did not finish within %v and no goroutine is inside miekg/dns\n", what, watchdog())
			os.Exit(2)
		}
		wd := watchdog()
		hangProven.Store(true)
		// free what can be freed
		mu.Lock()
		torn = true
		cs := append([]net.Conn(nil), conns...)
		mu.Unlock()
		for _, c := range cs {
			c.Close()
		}
		if lis != nil {
			lis.Close()
			for _, c := range lis.Accepted() {
				c.Close()
			}
		}
		if rawLis != nil {
			rawLis.Close()
		}
		if pc != nil {
			pc.Close()
		}
		if udp != nil {
			udp.Close()
		}
		if lns {
			select {
			case <-started:
				if srv.Listener != nil {
					srv.Listener.Close()
				}
				if srv.PacketConn != nil {
					srv.PacketConn.Close()
				}
			default:
			}
		}
		deadline := time.Now().Add(3 * time.Second)
		for len(dnsGoroutines()) > 0 && time.Now().Before(deadline) {
			time.Sleep(10 * time.Millisecond)
		}
		if len(dnsGoroutines()) > 0 {
			wedged.Store(true)
		}
		return false, fmt.Errorf("I7: %s did not return within the watchdog (%v); %d goroutine(s) stuck inside miekg/dns:\n%s", what, wd, len(stuck), clip(strings.Join(stuck, "\n\n"), 5000))
	}
	wd := time.After(2 * watchdog())
	select {
	case <-sdDone:
	case <-wd:
		return fail("Shutdown")
	}
	if secondHung {
		wedged.Store(true) // two serve loops on one Server value cannot be freed safely
		return false, fmt.Errorf("I5/I7: a second %s on a started server blocked for %v instead of returning an error; goroutines inside miekg/dns:\n%s", s.SecondStart, watchdog(), clip(strings.Join(dnsGoroutines(), "\n\n"), 4000))
	}
	if secondErr != nil {
		return false, secondErr
	}
	if sdErr != nil {
		if isNotStarted(sdErr) {
			select {
			case e := <-serveDone:
				return false, fmt.Errorf("I4: the serve call (%s) returned %v on its own, without a successful Shutdown; Shutdown says %v", s.Transport, e, sdErr)
			default:
			}
		}
		return false, fmt.Errorf("I4: Shutdown returned %v", sdErr)
	}
	if n := r.active.Load(); n != 0 {
		return false, fmt.Errorf("I1: Shutdown returned nil while %d handler(s) were still running", n)
	}
	select {
	case e := <-serveDone:
		if e != nil {
			return false, fmt.Errorf("I4: the serve call returned %v, want nil", e)
		}
	case <-wd:
		return fail("ActivateAndServe after Shutdown returned")
	}
	// --- teardown
	mu.Lock()
	torn = true
	cs := append([]net.Conn(nil), conns...)
	mu.Unlock()
	for _, c := range cs {
		c.Close()
	}
	if !within(watchdog(), cwg.Wait) {
		return fail("harness clients")
	}
	if n := r.late.Load(); n != 0 {
		return false, fmt.Errorf("I3: %d handler(s) were started after Shutdown had returned", n)
	}
	if n := r.writeBad.Load(); n != 0 {
		return false, fmt.Errorf("I2: %d reply(ies) of handlers of this run could not be written although their clients were still there (WriteTimeout = %v): %v", n, time.Duration(s.WriteTimeoutUs)*time.Microsecond, r.writeMsg.Load())
	}
	if n := r.tsigBad.Load(); n != 0 {
		return false, fmt.Errorf("%d correctly signed request(s) reached the handler unverified or with a bad TsigStatus (the request octets changed while they were being verified): %v", n, r.tsigMsg.Load())
	}
	mu.Lock()
	b := append([]string(nil), bad...)
	mu.Unlock()
	if len(b) > 0 {
		return false, fmt.Errorf("I2: %s", strings.Join(b, "; "))
	}
	// --- I6
	switch {
	case lis != nil:
		if !lis.Closed() {
			return false, fmt.Errorf("I6: listener not closed after shutdown")
		}
		for _, c := range lis.Accepted() {
			if !c.Closed() {
				return false, fmt.Errorf("I6: an accepted connection is not closed after shutdown")
			}
		}
	case rawLis != nil:
		if e := rawLis.Close(); e == nil {
			return false, fmt.Errorf("I6: TCP listener was still open after shutdown")
		}
	case pc != nil:
		if !pc.Closed() {
			return false, fmt.Errorf("I6: PacketConn not closed after shutdown")
		}
	case udp != nil:
		if e := udp.SetReadDeadline(time.Time{}); e == nil {
			udp.Close()
			return false, fmt.Errorf("I6: UDP socket was still open after shutdown")
		}
	case strings.HasPrefix(s.Transport, "lnsT"):
		if e := srv.Listener.Close(); e == nil {
			return false, fmt.Errorf("I6: the TCP listener opened by ListenAndServe was still open after shutdown")
		}
	case strings.HasPrefix(s.Transport, "lnsUDP"):
		if e := srv.PacketConn.SetReadDeadline(time.Time{}); e == nil {
			srv.PacketConn.Close()
			return false, fmt.Errorf("I6: the UDP socket opened by ListenAndServe was still open after shutdown")
		}
	}
	deadline := time.Now().Add(leakPoll)
	for {
		g := dnsGoroutines()
		if len(g) == 0 {
			if n := connsLeft(srv); n != 0 {
				return false, fmt.Errorf("I6: %d connection(s) are still registered with the server (Server.conns) after shutdown completed", n)
			}
			break
		}
		if time.Now().After(deadline) {
			return false, fmt.Errorf("I6: %d goroutine(s) of the server remain 5s after shutdown completed:\n%s", len(g), clip(strings.Join(g, "\n\n"), 4000))
		}
		time.Sleep(2 * time.Millisecond)
	}
	return overlap, nil
}
