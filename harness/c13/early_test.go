package c13

import (
	"context"
	"crypto/tls"
	"encoding/json"
	"errors"
	"fmt"
	"net"
	"os"
	"os/exec"
	"path/filepath"
	"regexp"
	"sort"
	"strings"
	"sync"
	"sync/atomic"
	"time"

	"github.com/miekg/dns"
	"pgregory.net/rapid"

	"verif/harness/pbt"
)

// Early (round 9, sub early-restart) is the interleaving {start, Shutdown, ShutdownContext expiry,
// second start} with everything as early as the API allows: Shutdown is retried blindly from the very
// beginning, so that it finds the server started when the first serve call has set the flag and
// dropped the lock but has not necessarily got to its serve loop, and the same Server value is
// started again at once. The only place where user code runs in that stretch is NotifyStartedFunc;
// the harness can keep the first run inside it (Gate). No event log and no interposition: the first
// run touches atomics and channels of the harness only at points that cannot order it against the
// second start, so that the race detector sees the library's own synchronisation between "the start
// path has unlocked" and "the next start initialises the Server".
//
// Started through ListenAndServe only (the library replaces the sockets in the Server value itself;
// with ActivateAndServe the user would have to overwrite Server.Listener / Server.PacketConn while
// the first serve call is still running).
type Early struct {
	Net  string // network of the first ListenAndServe: udp | tcp | tcp-tls
	Net2 string // network of the second one (Sd waiting: the same)
	// Gate: what NotifyStartedFunc does when it is called for the first time, i.e. how long that run
	// stays between the start path's unlock and its serve loop: second = until NotifyStartedFunc has
	// been called for the second time | sleep = GateUs microseconds | none
	Gate   string
	GateUs int `json:",omitempty"`
	// Sd: how the first run is shut down.
	// expired: ShutdownContext with a context that is already cancelled, retried blindly until it finds
	// the server started; it returns at once and the same goroutine starts the server again.
	// waiting: ShutdownContext(background) retried blindly on a goroutine of its own; it waits for the
	// first run (with Gate second: until the second run is up). Two goroutines call ListenAndServe,
	// each repeating it while it is refused as "server already started": whichever comes first is the
	// first run, the other one gets through as soon as Shutdown has taken the flag.
	Sd      string
	Reqs2   int  // requests to the second run, one client each
	SleepUs int  // what the handler sleeps before it answers
	CtxAPI2 bool // second run: ShutdownContext(context.Background()) instead of Shutdown()
	// AfterStarted (set only while finding start-reads-run-channel-unlocked is live): the blind
	// Shutdown begins only when the first run has left NotifyStartedFunc - the restart is then an
	// ordinary one that follows a run which has reached its serve loop
	AfterStarted bool `json:",omitempty"`
}

// knownEarlyRace: see KNOWN_FINDINGS.txt. serveTCP / serveUDP read Server.shutdown - the channel that
// identifies their run - only after the start path has dropped the lock; init() of the next start
// replaces it (under the lock). A Shutdown + start that get in between leave the first run with the
// channel of the second. Deterministically visible to the race detector (Gate second), by chance
// (about one case in 2000 here) also functionally: Shutdown 1 never returns / serve call 1 returns the
// read error of its closed socket and closes the channel of run 2. While it is live every case of
// this sub is replaced by its AfterStarted form.
const knownEarlyRace = "start-reads-run-channel-unlocked"

func earlyProbeCase() Early {
	return Early{Net: "tcp", Net2: "tcp", Gate: "second", Sd: "expired", Reqs2: 1}
}

const earlyChildEnv = "VERIF_C13_CHILD"

// earlyChild is the body of the child process of the probe (see TestMain): the fixed case on tcp,
// then on udp, in a process of their own so that the race detector's report (if any) lands in the
// parent's hands instead of the driver's.
func earlyChild() {
	for _, n := range []string{"tcp", "udp"} {
		c := earlyProbeCase()
		c.Net, c.Net2 = n, n
		if _, err := runEarly(c); err != nil {
			fmt.Println("CHILD-VERDICT:", strings.SplitN(err.Error(), "\n", 2)[0])
		}
	}
	fmt.Println("CHILD-DONE")
}

var raceFrame = regexp.MustCompile(`(?m)^  (github\.com/miekg/dns\.\S+)\(\)\n\s+\S*/(\w+\.go:\d+)`)

// earlyProbe: what reproduces deterministically is the race detector's report. The fixed case is run
// in a child process - the -race build of this package: this binary itself, or, for the normal
// binary, the race.test that the driver has put next to it - and the report is read from the child's
// output. Without a -race binary at hand nothing can be said (the class is then generated).
func earlyProbe() error {
	exe, err := os.Executable()
	if err != nil {
		return nil
	}
	if !raceBuild {
		exe = filepath.Join(filepath.Dir(exe), "race.test")
		if _, err := os.Stat(exe); err != nil {
			return nil
		}
	}
	cmd := exec.Command(exe, "-test.run=^$")
	cmd.Env = append(os.Environ(), earlyChildEnv+"=early", "GORACE=halt_on_error=0")
	done := make(chan struct{})
	var out []byte
	go func() { out, _ = cmd.CombinedOutput(); close(done) }()
	select {
	case <-done:
	case <-time.After(90 * time.Second):
		if cmd.Process != nil {
			cmd.Process.Kill()
		}
		<-done
		return nil // nothing can be said
	}
	o := string(out)
	if !strings.Contains(o, "CHILD-DONE") {
		return nil
	}
	mark := "WARNING: DATA" + " RACE" // (never printed by this process: the driver reads its output)
	i := strings.Index(o, mark)
	if i < 0 {
		if j := strings.Index(o, "CHILD-VERDICT:"); j >= 0 {
			return errors.New(strings.SplitN(o[j+len("CHILD-VERDICT: "):], "\n", 2)[0])
		}
		return nil
	}
	rep := o[i:]
	if j := strings.Index(rep, "\n=================="); j > 0 {
		rep = rep[:j]
	}
	var frames []string // of the first report, in a fixed order (which access the detector calls "previous" depends on the schedule)
	for _, m := range raceFrame.FindAllStringSubmatch(rep, 6) {
		frames = append(frames, strings.TrimPrefix(m[1], "github.com/miekg/dns.")+" "+m[2])
	}
	sort.Strings(frames)
	return fmt.Errorf("I8: the race detector reports unsynchronised accesses to the Server value when the same Server is shut down (ShutdownContext, context already cancelled) and started again with ListenAndServe while its first ListenAndServe is still inside NotifyStartedFunc; library frames of the two accesses: %s", strings.Join(frames, ", "))
}

func genEarly(t *rapid.T) Early {
	nets := []string{"udp", "tcp", "tcp", "tcp-tls"}
	c := Early{
		Net:  rapid.SampledFrom(nets).Draw(t, "net"),
		Gate: rapid.SampledFrom([]string{"second", "second", "second", "sleep", "sleep", "none"}).Draw(t, "gate"),
		Sd:   rapid.SampledFrom([]string{"expired", "expired", "waiting"}).Draw(t, "sd"),
	}
	c.Net2 = c.Net
	if rapid.IntRange(0, 2).Draw(t, "switch") == 0 {
		c.Net2 = rapid.SampledFrom(nets).Draw(t, "net2")
	}
	if c.Gate == "sleep" {
		c.GateUs = rapid.SampledFrom([]int{20, 100, 500, 2000}).Draw(t, "gateUs")
	}
	c.Reqs2 = rapid.IntRange(0, 3).Draw(t, "reqs2")
	c.SleepUs = rapid.SampledFrom([]int{0, 0, 50, 500}).Draw(t, "sleepUs")
	c.CtxAPI2 = rapid.Bool().Draw(t, "ctxAPI2")
	if c.Sd == "waiting" {
		c.Net2 = c.Net // both starters run the same call on an untouched Server value
		if c.Net2 == "udp" && pbt.Known(knownListenRestart) {
			// Shutdown 1 returns when the second run is up and closes "srv.PacketConn" - the new socket
			pbt.Excluded(knownListenRestart)
			c.Sd = "expired"
		}
	}
	if pbt.Known(knownEarlyRace) {
		pbt.Excluded(knownEarlyRace)
		c.AfterStarted = true
		if c.Gate == "second" {
			c.Gate = "none"
		}
	}
	return c
}

func checkEarly(c Early) error {
	key, _ := json.Marshal(c)
	if wedged.Load() {
		pbt.Note(key, false, "skipped-after-wedge")
		return nil
	}
	cl, err := runEarly(c)
	if err != nil {
		cl = []string{"failed"}
	}
	pbt.Note(key, !c.AfterStarted, cl...)
	if !c.AfterStarted {
		pbt.Sample("early:"+c.Sd, c)
	}
	return err
}

type earlyRun struct {
	c        Early
	nonce    string
	returned atomic.Bool  // Shutdown of the second run has returned
	late     atomic.Int32 // handlers started after that
	active   atomic.Int32
	writeBad atomic.Int32
}

func (r *earlyRun) handler(w dns.ResponseWriter, req *dns.Msg) {
	if len(req.Question) != 1 || !strings.Contains(req.Question[0].Name, r.nonce) {
		return // another process's traffic on a reassigned loopback port
	}
	if r.returned.Load() {
		r.late.Add(1)
	}
	r.active.Add(1)
	defer r.active.Add(-1)
	if r.c.SleepUs > 0 {
		time.Sleep(time.Duration(r.c.SleepUs) * time.Microsecond)
	}
	m := new(dns.Msg)
	m.SetReply(req)
	m.Answer = []dns.RR{&dns.TXT{Hdr: dns.RR_Header{Name: req.Question[0].Name, Rrtype: dns.TypeTXT, Class: dns.ClassINET}, Txt: []string{"tok-" + req.Question[0].Name}}}
	if w.WriteMsg(m) != nil {
		r.writeBad.Add(1)
	}
}

// runEarly executes one case; the returned error is the oracle's verdict (nil = the property held).
func runEarly(c Early) (classes []string, err error) {
	r := &earlyRun{c: c, nonce: newNonce()}
	wd := watchdog()
	sc, cc := tlsConfigs()
	srv := &dns.Server{Net: c.Net, Addr: "127.0.0.1:0", TLSConfig: sc, Handler: dns.HandlerFunc(r.handler),
		ReadTimeout: time.Hour, IdleTimeout: func() time.Duration { return time.Hour }}
	var (
		starts     atomic.Int32
		second     = make(chan struct{}) // closed when NotifyStartedFunc has been called twice
		first      = make(chan struct{}) // closed when its first call returns
		secondOnce sync.Once
		conns      []net.Conn
		mu         sync.Mutex
	)
	rescueCtx, rescueCancel := context.WithCancel(context.Background()) // cancelled only to free a Shutdown 1 that hangs
	defer rescueCancel()
	srv.NotifyStartedFunc = func() {
		switch starts.Add(1) {
		case 1:
			switch c.Gate {
			case "second":
				// nothing is released here that the second start could acquire before it initialises
				// the Server value: the receive only orders this goroutine AFTER the second start
				select {
				case <-second:
				case <-time.After(2 * watchdogFull):
				}
			case "sleep":
				time.Sleep(time.Duration(c.GateUs) * time.Microsecond)
			}
			close(first)
		case 2:
			secondOnce.Do(func() { close(second) })
		}
	}
	// failed: the verdict is in; whatever is still running is stopped so that the next case starts clean
	failed := func(format string, a ...any) ([]string, error) {
		e := fmt.Errorf(format, a...)
		rescueCancel()
		secondOnce.Do(func() { close(second) })
		mu.Lock()
		for _, cn := range conns {
			cn.Close()
		}
		mu.Unlock()
		for i := 0; i < 3; i++ { // one per run that may still be up
			within(3*time.Second, func() {
				ctx, cancel := context.WithTimeout(context.Background(), 2*time.Second)
				defer cancel()
				srv.ShutdownContext(ctx)
			})
		}
		if l := srv.Listener; l != nil {
			l.Close()
		}
		if p := srv.PacketConn; p != nil {
			p.Close()
		}
		for deadline := time.Now().Add(3 * time.Second); len(dnsGoroutines()) > 0; time.Sleep(5 * time.Millisecond) {
			if time.Now().After(deadline) {
				wedged.Store(true)
				break
			}
		}
		return nil, e
	}
	hung := func(what string) ([]string, error) {
		stuck := dnsGoroutines()
		if len(stuck) == 0 {
			fmt.Fprintf(os.Stderr, "c13: INFRASTRUCTURE: early-restart: %s did not finish within %v and no goroutine is inside miekg/dns\n", what, wd)
			os.Exit(2)
		}
		hangProven.Store(true)
		return failed("I7: %s did not return within the watchdog (%v); %d goroutine(s) inside miekg/dns:\n%s", what, wd, len(stuck), clip(strings.Join(stuck, "\n\n"), 4000))
	}

	serveRes := make(chan error, 4) // results of the two serve calls, in the order in which they return
	sd1 := make(chan error, 1)
	start := func() {
		defer func() { // the serve loop's deferred clean-up runs on this goroutine
			if p := recover(); p != nil {
				serveRes <- fmt.Errorf("panic in the serve call: %v", p)
			}
		}()
		for {
			e := srv.ListenAndServe()
			if isAlreadyStarted(e) { // the right answer while the other run holds the flag (I5)
				time.Sleep(20 * time.Microsecond)
				continue
			}
			serveRes <- e
			return
		}
	}
	blind := func(call func() error) error {
		if c.AfterStarted {
			select {
			case <-first:
			case <-time.After(wd):
			}
		}
		for deadline := time.Now().Add(wd); ; {
			e := call()
			if !isNotStarted(e) || time.Now().After(deadline) {
				return e
			}
			time.Sleep(20 * time.Microsecond)
		}
	}
	go start()
	switch c.Sd {
	case "waiting":
		go start()
		go func() { sd1 <- blind(func() error { return srv.ShutdownContext(rescueCtx) }) }()
	default: // expired
		go func() {
			ctx, cancel := context.WithCancel(context.Background())
			cancel()
			e := blind(func() error { return srv.ShutdownContext(ctx) })
			sd1 <- e
			if isNotStarted(e) {
				return
			}
			srv.Net = c.Net2 // ordered after the first start's reads by the server's lock
			start()
		}()
	}

	// --- the second run comes up; the first one ends
	select {
	case <-second:
	case <-time.After(wd):
		select {
		case e := <-serveRes:
			if e != nil && starts.Load() == 0 { // the very first start failed: nothing to judge
				fmt.Fprintf(os.Stderr, "c13: INFRASTRUCTURE: early-restart: ListenAndServe(%s) on 127.0.0.1:0 failed: %v\n", c.Net, e)
				os.Exit(2)
			}
			if e != nil {
				return failed("I4: a ListenAndServe on the Server value that had just been shut down returned %v instead of serving", e)
			}
		default:
		}
		return hung("the second ListenAndServe on the same Server value (after a Shutdown that found the server started)")
	}
	select {
	case <-first:
	case <-time.After(wd):
		return hung("NotifyStartedFunc of the first run (harness)")
	}
	var e1 error
	select {
	case e1 = <-sd1:
	case <-time.After(wd):
		return hung("Shutdown of the first run (the first serve call has left NotifyStartedFunc, the same Server value is serving again)")
	}
	switch {
	case e1 == nil:
	case c.Sd == "expired" && errors.Is(e1, context.Canceled):
	default:
		return failed("I4: Shutdown of the first run returned %v", e1)
	}
	select {
	case e := <-serveRes:
		if e != nil {
			return failed("I4: the serve call of the run that was shut down (Shutdown retried blindly from the very beginning, gate %s; the same Server value was started again at once) returned %v, want nil", c.Gate, e)
		}
	case <-time.After(wd):
		return hung("the serve call of the first run (shut down right after its start; the same Server value is serving again)")
	}
	// both start notifications are in: the fields are the second run's (stored before its notification)
	var a2 string
	if srv.Net == "udp" {
		a2 = srv.PacketConn.LocalAddr().String()
	} else {
		a2 = srv.Listener.Addr().String()
	}

	// --- traffic for the second run
	stream := c.Net2 != "udp"
	var cwg sync.WaitGroup
	var bad []string
	for j := 1; j <= c.Reqs2; j++ {
		j := j
		cwg.Add(1)
		go func() {
			defer cwg.Done()
			var cn net.Conn
			var e error
			switch c.Net2 {
			case "udp":
				cn, e = net.Dial("udp", a2)
			case "tcp":
				cn, e = net.DialTimeout("tcp", a2, 2*time.Second)
			default:
				cn, e = tls.DialWithDialer(&net.Dialer{Timeout: 2 * time.Second}, "tcp", a2, cc)
			}
			if e != nil {
				mu.Lock()
				bad = append(bad, fmt.Sprintf("client %d cannot reach the second run at %s: %v", j, a2, e))
				mu.Unlock()
				return
			}
			mu.Lock()
			conns = append(conns, cn)
			mu.Unlock()
			co := &dns.Conn{Conn: cn}
			m := new(dns.Msg)
			m.SetQuestion(fmt.Sprintf("q1.c%d.%s.test.", j, r.nonce), dns.TypeTXT)
			cn.SetDeadline(time.Now().Add(10 * time.Second))
			if e := co.WriteMsg(m); e != nil {
				mu.Lock()
				bad = append(bad, fmt.Sprintf("client %d: send: %v", j, e))
				mu.Unlock()
				return
			}
			rep, e := co.ReadMsg()
			for i := 0; e == nil && !strings.Contains(replyToken(rep), r.nonce) && i < 8 && !stream; i++ {
				rep, e = co.ReadMsg() // a datagram of another process
			}
			if e != nil || rep.Id != m.Id || replyToken(rep) != "tok-"+m.Question[0].Name {
				mu.Lock()
				bad = append(bad, fmt.Sprintf("client %d: no reply of its own from the second run (%v, %v)", j, e, rep))
				mu.Unlock()
			}
		}()
	}
	if !within(wd, cwg.Wait) {
		return hung("clients of the second run")
	}
	mu.Lock()
	b := append([]string(nil), bad...)
	mu.Unlock()
	if len(b) > 0 {
		return failed("I2 (second run, started right after the Shutdown of a run that had just started): %s", strings.Join(b, "; "))
	}

	// --- Shutdown of the second run
	var e2 error
	if !within(wd, func() {
		if c.CtxAPI2 {
			e2 = srv.ShutdownContext(context.Background())
		} else {
			e2 = srv.Shutdown()
		}
		r.returned.Store(true)
	}) {
		return hung("Shutdown of the second run")
	}
	if e2 != nil {
		return failed("I4 (second run): Shutdown returned %v, want nil", e2)
	}
	if n := r.active.Load(); n != 0 {
		return failed("I1 (second run): Shutdown returned nil while %d handler(s) were still running", n)
	}
	select {
	case e := <-serveRes:
		if e != nil {
			return failed("I4 (second run): the serve call returned %v, want nil", e)
		}
	case <-time.After(wd):
		return hung("the serve call of the second run after Shutdown returned")
	}
	mu.Lock()
	for _, cn := range conns {
		cn.Close()
	}
	mu.Unlock()
	if n := r.late.Load(); n != 0 {
		return failed("I3 (second run): %d handler(s) were started after Shutdown had returned", n)
	}
	if n := r.writeBad.Load(); n != 0 {
		return failed("I2 (second run): %d reply(ies) could not be written although the clients were still there", n)
	}
	if stream {
		if e := srv.Listener.Close(); e == nil {
			return failed("I6: the listener opened by the second ListenAndServe was still open after shutdown")
		}
	} else if e := srv.PacketConn.SetReadDeadline(time.Time{}); e == nil {
		return failed("I6: the UDP socket opened by the second ListenAndServe was still open after shutdown")
	}
	for deadline := time.Now().Add(leakPoll); ; time.Sleep(2 * time.Millisecond) {
		g := dnsGoroutines()
		if len(g) == 0 {
			if n := connsLeft(srv); n != 0 {
				return failed("I6: %d connection(s) are still registered with the server after both runs are over", n)
			}
			break
		}
		if time.Now().After(deadline) {
			return failed("I6: %d goroutine(s) of the server remain 5s after both runs were shut down:\n%s", len(g), clip(strings.Join(g, "\n\n"), 4000))
		}
	}
	cl := []string{"net=" + c.Net + "->" + c.Net2, "gate=" + c.Gate, "sd=" + c.Sd, fmt.Sprintf("reqs2=%d", c.Reqs2)}
	if c.AfterStarted {
		cl = append(cl, "shutdown-only-after-start-notification")
	}
	if errors.Is(e1, context.Canceled) {
		cl = append(cl, "shutdown1-gave-up-on-ctx")
	}
	return cl, nil
}

func init() {
	pbt.Probe(knownEarlyRace, earlyProbe)
	pbt.Register(pbt.Sub[Early]{Name: "early-restart", Weight: 0.08, Gen: genEarly, Check: checkEarly})
}
