package c16

import (
	"fmt"
	"reflect"

	"github.com/miekg/dns"

	"verif/harness/aliascheck"
	"verif/harness/pbt"
	wm "verif/harness/wiremodel"
)

// Every EDNS0 option code and every SvcParamKey of the registries' assigned range, as the library's
// OWN decoder represents it. The statement speaks of every EDNS0 option and every SVCB parameter;
// which Go type stands for a code is the library's business and changes when a code gets a type of
// its own (until then it is the generic EDNS0_LOCAL / SVCBLocal). A list of "the kinds there are"
// written into the harness goes stale that day, and values assembled by the model bridge keep using
// the generic type. So the kinds are discovered: for every code 0..255 (and two private-use ones)
// and every one of a fixed family of value shapes (lengths 0..32, lists of 16-bit numbers without
// repetition, addresses, length-prefixed strings, text, a name) an OPT / SVCB / HTTPS record
// carrying just that option is decoded with UnpackRR; whatever decodes is checked against the
// input buffer and goes through the full copy check. Codes that decode to the generic type are
// checked in full for one shape each (they all run the same code), the others for every shape that
// the decoder accepts.

type codeCase struct {
	Kind  int // 0 SvcParam in an SVCB record, 1 in an HTTPS record, 2 EDNS0 option in an OPT record
	Code  uint16
	Shape int
}

var codeShapes = [][]byte{
	{}, {7}, {0, 1}, {1, 187}, {0, 1, 24}, {0, 1, 0, 4}, {192, 0, 2, 1}, {0, 29, 0, 23, 17, 236},
	{1, 2, 3, 4, 5, 6, 7, 8}, {192, 0, 2, 1, 192, 0, 2, 2},
	{0x20, 1, 0xd, 0xb8, 0, 0, 0, 0, 0, 0, 0, 0, 0, 0, 0, 1},
	{0x20, 1, 0xd, 0xb8, 0, 0, 0, 0, 0, 0, 0, 0, 0, 0, 0, 1, 0x20, 1, 0xd, 0xb8, 0, 0, 0, 0, 0, 0, 0, 0, 0, 0, 0, 2},
	{2, 'h', '2'}, {2, 'h', '2', 2, 'h', '3'}, []byte("/dns-query{?dns}"), []byte("u"),
	{0, 1, 0, 2, 0, 0, 1, 2, 3, 4, 5, 6, 7, 8, 0, 0, 14, 16}, // 18 octets
	{0, 1, 24, 0, 192, 0, 2}, {0, 2, 32, 0, 0x20, 1, 0xd, 0xb8}, {0, 5}, {0, 0, 0}, {0, 1, 'x'}, {1, 'a', 0}, {1, 0, 1, 2},
	{0, 0, 0, 9}, {9, 8, 7, 6, 5, 4, 3, 2, 1, 0, 11, 12}, {0, 0, 0, 1, 0, 0, 0, 2},
}

var codeList = func() []uint16 {
	var l []uint16
	for c := 0; c < 256; c++ {
		l = append(l, uint16(c))
	}
	return append(l, 65001, 65280, 65534)
}()

func eachCode(emit func(codeCase)) {
	for kind := 0; kind < 3; kind++ {
		for _, code := range codeList {
			for sh := range codeShapes {
				// (only what the decoder accepts, and the generic type once per code, is a case: the
				// rest would be counted as evaluations that evaluate nothing)
				c := codeCase{Kind: kind, Code: code, Shape: sh}
				if _, elem, _ := codeDecode(c); elem != nil && (!genericElem(elem) || sh == int(code)%len(codeShapes)) {
					emit(c)
				}
			}
		}
	}
}

func codeRec(c codeCase) (wm.Rec, bool) {
	if c.Shape < 0 || c.Shape >= len(codeShapes) || c.Kind < 0 || c.Kind > 2 {
		return wm.Rec{}, false
	}
	o := wm.Option{Code: c.Code, Data: append([]byte{}, codeShapes[c.Shape]...)}
	switch c.Kind {
	case 2:
		return wm.Rec{Type: wm.TOPT, Class: 1232, Fields: []wm.Field{{K: wm.Opts, Opts: []wm.Option{o}}}}, true
	}
	typ := uint16(wm.TSVCB)
	if c.Kind == 1 {
		typ = wm.THTTPS
	}
	return wm.Rec{Name: wm.MustName("s."), Type: typ, Class: 1, Fields: []wm.Field{{K: wm.U16, U: 1}, {K: wm.NameU, N: wm.MustName("t.")}, {K: wm.Params, Opts: []wm.Option{o}}}}, true
}

func genericElem(elem any) bool {
	_, l1 := elem.(*dns.EDNS0_LOCAL)
	_, l2 := elem.(*dns.SVCBLocal)
	return l1 || l2
}

// codeDecode: the record of the case as UnpackRR returns it, its one option / parameter (nil when the
// decoder refuses the value or drops it), and the buffer it was decoded from.
func codeDecode(c codeCase) (rr dns.RR, elem any, buf []byte) {
	r, ok := codeRec(c)
	if !ok {
		return nil, nil, nil
	}
	w, err := wm.EncodeRR(r)
	if err != nil {
		return nil, nil, nil
	}
	buf = append([]byte{}, w...)
	rr, _, err = dns.UnpackRR(buf, 0)
	if err != nil || rr == nil {
		return nil, nil, buf
	}
	switch x := rr.(type) {
	case *dns.OPT:
		if len(x.Option) == 1 {
			elem = x.Option[0]
		}
	case *dns.SVCB:
		if len(x.Value) == 1 {
			elem = x.Value[0]
		}
	case *dns.HTTPS:
		if len(x.Value) == 1 {
			elem = x.Value[0]
		}
	}
	return rr, elem, buf
}

func checkCode(c codeCase) error {
	rr, elem, buf := codeDecode(c)
	if c.Kind < 0 || c.Kind > 2 {
		return nil
	}
	kind := [3]string{"SVCB", "HTTPS", "OPT"}[c.Kind]
	key := []byte(fmt.Sprintf("%d/%d/%d", c.Kind, c.Code, c.Shape))
	if elem == nil {
		pbt.Note(key, false, "code:"+kind+":refused-by-the-decoder")
		return nil
	}
	gotype := reflect.TypeOf(elem).Elem().Name()
	pbt.Note(key, true, "code:"+kind+":decoded-as:"+gotype)
	what := fmt.Sprintf("%s with option/parameter %d (%s, value % x) as UnpackRR returns it", kind, c.Code, gotype, codeShapes[c.Shape])
	// not a window into the input
	if o := aliascheck.OverlapBytes(rr, buf); o != "" {
		return pbt.Errf("%s: %s", what, o)
	}
	before := snap(rr)
	for i := range buf {
		buf[i] ^= 0xff
	}
	if after := snap(rr); after != before {
		return pbt.Errf("%s: overwriting the input buffer changed the record: %s", what, diffAt(after, before))
	}
	// inside a message
	m := new(dns.Msg)
	if c.Kind == 2 {
		m.Extra = []dns.RR{rr}
	} else {
		m.Answer = []dns.RR{rr}
	}
	for variant, cp := range []*dns.Msg{m.Copy(), m.CopyTo(new(dns.Msg))} {
		if snap(cp) != snap(m) {
			return pbt.Errf("%s: message copy (variant %d) differs from the original: %s", what, variant, diffAt(snap(cp), snap(m)))
		}
		if o := aliascheck.Overlap(m, cp); o != "" {
			return pbt.Errf("%s: message copy (variant %d): %s", what, variant, o)
		}
	}
	if err := copyChecks(rr, kind); err != nil {
		return pbt.Errf("%s: %v", what, err)
	}
	return nil
}

func init() {
	pbt.RegisterEnum(pbt.Enum[codeCase]{Name: "copy-every-code-as-decoded", Exhaustive: true, Each: eachCode, Check: checkCode})
}
