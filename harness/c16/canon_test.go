package c16

import (
	"fmt"
	"reflect"
	"sort"
	"strings"
	"sync"

	"github.com/miekg/dns"
	"pgregory.net/rapid"

	"verif/harness/pbt"
	wm "verif/harness/wiremodel"
)

// Signing and verifying bring every record into the canonical form of RFC 4034 6.2 before hashing
// it: owner name in lower case (and reduced to the wildcard it was expanded from), TTL replaced by
// the signature's original TTL, the domain names inside the RDATA in lower case. That is the only
// reason these two operations have to write anything - and the statement wants the writing done
// on copies. An RRset therefore has as many independent dimensions as canonicalisation has steps,
// and each of them is either "already canonical" (nothing to rewrite: the record a zone file or an
// authoritative answer usually holds) or not. A signer that copies only "when needed" is correct
// exactly if its idea of "needed" covers every step; the classes below walk through the steps one
// at a time with everything else already canonical, and in random combinations.

func hasUpper(n wm.Name) bool {
	for _, l := range n {
		for _, c := range l {
			if c >= 'A' && c <= 'Z' {
				return true
			}
		}
	}
	return false
}

// mixedCase gives n at least one upper case letter (the first letter of every label is raised; a
// name without any letter gets a label of its own in front, or is replaced when that would be too long).
func mixedCase(n wm.Name) wm.Name {
	o := n.Lower()
	done := false
	for _, l := range o {
		for i, c := range l {
			if c >= 'a' && c <= 'z' {
				l[i] = c - 0x20
				done = true
				break
			}
		}
	}
	if done {
		return o
	}
	if m := append(wm.Name{[]byte("Mx")}, o...); m.Valid() {
		return m
	}
	return wm.Name{[]byte("Mx"), []byte("example")}
}

// rdataNames: every domain name inside the RDATA of r (single names, the elements of name lists, a
// gateway given as a name), in field order.
func rdataNames(r *wm.Rec) []*wm.Name {
	var out []*wm.Name
	for i := range r.Fields {
		f := &r.Fields[i]
		switch f.K {
		case wm.NameC, wm.NameU:
			out = append(out, &f.N)
		case wm.Names:
			for j := range f.NL {
				out = append(out, &f.NL[j])
			}
		case wm.GW:
			if f.U == 3 {
				out = append(out, &f.N)
			}
		}
	}
	return out
}

// nameTypesOf: those of the given types whose layout has a domain name in the RDATA.
func nameTypesOf(types []uint16) []uint16 {
	var out []uint16
	for _, t := range types {
		l, _ := wm.LayoutOf(t)
		for _, s := range l {
			if s.K == wm.NameC || s.K == wm.NameU || s.K == wm.Names || s.K == wm.GW {
				out = append(out, t)
				break
			}
		}
	}
	return out
}

// canonPlan rewrites a generated RRset (same owner, class, type) along the steps of 6.2.
//
//	plan 0  left as generated: an owner with a capital letter, independent TTLs, names in any case
//	plan 1  every step drawn on its own: owner lower case or not, TTLs equal or not, each RDATA name
//	        lower case or as generated
//	plan 2  canonical throughout, then at most ONE step undone: nothing, the owner of every record,
//	        the TTL of one record, or one name inside one record's RDATA
func canonPlan(t *rapid.T, recs []wm.Rec) {
	plan := rapid.IntRange(0, 3).Draw(t, "canonplan")
	switch plan {
	case 0:
		return
	case 1:
		if rapid.Bool().Draw(t, "ownerlower") {
			for i := range recs {
				recs[i].Name = recs[i].Name.Lower()
			}
		}
		if rapid.Bool().Draw(t, "ttlequal") {
			for i := range recs {
				recs[i].TTL = recs[0].TTL
			}
		}
		for i := range recs {
			for _, p := range rdataNames(&recs[i]) {
				if rapid.Bool().Draw(t, "namelower") {
					*p = p.Lower()
				}
			}
		}
	default:
		type slot struct {
			rec int
			p   *wm.Name
		}
		var names []slot
		for i := range recs {
			recs[i].Name = recs[i].Name.Lower()
			recs[i].TTL = recs[0].TTL
			for _, p := range rdataNames(&recs[i]) {
				*p = p.Lower()
				names = append(names, slot{i, p})
			}
		}
		// the steps are equally likely, the names of the RDATA together count for as much as the others
		kinds := []int{0, 1, 2}
		if len(names) > 0 {
			kinds = []int{0, 1, 2, 3, 3, 3}
		}
		switch rapid.SampledFrom(kinds).Draw(t, "undo") {
		case 1:
			o := mixedCase(recs[0].Name)
			for i := range recs {
				recs[i].Name = o
			}
		case 2:
			i := rapid.IntRange(0, len(recs)-1).Draw(t, "ttlof")
			recs[i].TTL ^= uint32(rapid.IntRange(1, 1<<20).Draw(t, "ttldelta"))
		case 3:
			s := names[rapid.IntRange(0, len(names)-1).Draw(t, "nameof")]
			*s.p = mixedCase(*s.p)
		}
	}
}

// canonClasses says where a generated RRset stands (evidence only).
func canonClasses(recs []wm.Rec) []string {
	owner, ttl, names, off := true, true, 0, 0
	for i := range recs {
		if hasUpper(recs[i].Name) {
			owner = false
		}
		if recs[i].TTL != recs[0].TTL {
			ttl = false
		}
		for _, p := range rdataNames(&recs[i]) {
			names++
			if hasUpper(*p) {
				off++
			}
		}
	}
	var out []string
	if owner {
		out = append(out, "canon:owner-lower-case")
	}
	if ttl {
		out = append(out, "canon:ttls-equal")
	}
	if names > 0 {
		out = append(out, "canon:rdata-has-names")
	}
	switch {
	case owner && ttl && off == 0:
		out = append(out, "canon:already-canonical")
		if names > 0 {
			out = append(out, "canon:already-canonical-with-names")
		}
	case owner && ttl && off == 1:
		out = append(out, "canon:all-but-one-rdata-name")
	case owner && off == 0 && !ttl:
		out = append(out, "canon:all-but-a-ttl")
	case !owner && ttl && off == 0:
		out = append(out, "canon:all-but-the-owner")
	}
	return out
}

// ---------------------------------------------------------------------------------------------
// every domain name of every record type, one at a time (found by reflection from the struct tags
// `domain-name` / `cdomain-name` of whatever dns.TypeToRR registers, embedded structs included: a
// type is covered the day it is registered, and so is a name added to an existing type)

type canonCase struct {
	Type uint16
	// the one thing about the RRset that is NOT yet in canonical form:
	// -4 nothing, -3 the owner (mixed case), -2 a TTL that is not the signature's original TTL,
	// -1 the owner is an expansion of the wildcard the signature was made for (verification only),
	// k >= 0 the k-th domain name inside the RDATA is in mixed case
	Off int
	Pos int // which of the two records of the set carries it (owner: both)
}

// nameSlots: the settable string values holding a domain name inside the RDATA of the record v
// points to (header excluded), in field order; lists of names are given two elements first.
func nameSlots(v reflect.Value) []reflect.Value {
	var out []reflect.Value
	if v.Kind() == reflect.Pointer {
		v = v.Elem()
	}
	if v.Kind() != reflect.Struct {
		return nil
	}
	for i := 0; i < v.NumField(); i++ {
		sf, f := v.Type().Field(i), v.Field(i)
		if !sf.IsExported() || sf.Type == reflect.TypeOf(dns.RR_Header{}) {
			continue
		}
		if f.Kind() == reflect.Struct && sf.Anonymous {
			out = append(out, nameSlots(f)...)
			continue
		}
		if !strings.Contains(sf.Tag.Get("dns"), "domain-name") {
			continue
		}
		switch {
		case f.Kind() == reflect.String:
			out = append(out, f)
		case f.Kind() == reflect.Slice && f.Type().Elem().Kind() == reflect.String:
			if f.Len() == 0 {
				f.Set(reflect.MakeSlice(f.Type(), 2, 2))
			}
			for j := 0; j < f.Len(); j++ {
				out = append(out, f.Index(j))
			}
		}
	}
	return out
}

var canonTypes = sync.OnceValue(func() []uint16 {
	var ts []uint16
	for t := range dns.TypeToRR {
		switch t {
		case dns.TypeOPT, dns.TypeTSIG, dns.TypeTKEY, dns.TypeANY, dns.TypeAXFR, dns.TypeIXFR, dns.TypeRRSIG, dns.TypeNXNAME:
			// meta types and the signature itself are never the content of a signed RRset
			continue
		}
		if _, private := dns.TypeToRR[t]().(*dns.PrivateRR); private {
			continue
		}
		ts = append(ts, t)
	}
	sort.Slice(ts, func(i, j int) bool { return ts[i] < ts[j] })
	return ts
})

func eachCanonStep(emit func(canonCase)) {
	for _, typ := range canonTypes() {
		n := len(nameSlots(reflect.ValueOf(literal(typ))))
		for off := -4; off < n; off++ {
			for pos := 0; pos < 2; pos++ {
				if (off == -4 || off == -3 || off == -1) && pos == 1 {
					continue
				}
				emit(canonCase{Type: typ, Off: off, Pos: pos})
			}
		}
	}
}

const canonOwner = "host.sub.example."

// canonSet builds the two-record RRset of the case: everything lower case, owner and TTL alike,
// but for the one thing the case names.
func canonSet(c canonCase) (set []dns.RR, where string) {
	where = "nothing"
	for i := 0; i < 2; i++ {
		rr := literal(c.Type)
		if rr == nil {
			return nil, ""
		}
		h := rr.Header()
		h.Name, h.Ttl = canonOwner, 3600
		slots := nameSlots(reflect.ValueOf(rr))
		for k, s := range slots {
			s.SetString(fmt.Sprintf("n%d.r%d.example.", k, i))
		}
		switch {
		case c.Off == -3:
			h.Name, where = "Host.sUb.Example.", "owner"
		case c.Off == -2 && i == c.Pos:
			h.Ttl, where = 60, "ttl"
		case c.Off == -1:
			where = "wildcard-expansion"
		case c.Off >= 0 && i == c.Pos && c.Off < len(slots):
			slots[c.Off].SetString(fmt.Sprintf("N%d.R%d.eXample.", c.Off, i))
			where = "rdata-name"
		}
		// (so that the two records differ also when the type has no names)
		if i == 1 {
			differ(rr)
		}
		set = append(set, rr)
	}
	return set, where
}

// differ changes the first plain number or text of the RDATA of rr that it finds, so that two
// literals of one type are two records.
func differ(rr dns.RR) {
	v := reflect.ValueOf(rr).Elem()
	for i := 0; i < v.NumField(); i++ {
		sf, f := v.Type().Field(i), v.Field(i)
		tag := sf.Tag.Get("dns")
		if !sf.IsExported() || sf.Type == reflect.TypeOf(dns.RR_Header{}) || strings.HasPrefix(tag, "size-") || strings.Contains(tag, "domain-name") {
			continue
		}
		switch f.Kind() {
		case reflect.Uint8, reflect.Uint16, reflect.Uint32, reflect.Uint64:
			isLen := false
			for _, lf := range lenFieldsOf(v.Type()) {
				isLen = isLen || lf.Len == i
			}
			if !isLen && tag == "" {
				f.SetUint(f.Uint() + 1)
				return
			}
		}
	}
}

func checkCanonStep(c canonCase) error {
	set, where := canonSet(c)
	if set == nil {
		return nil
	}
	tn := typeName(c.Type)
	key, priv := signKey()
	sig := &dns.RRSIG{Hdr: dns.RR_Header{Ttl: 3600}, Algorithm: dns.ED25519, SignerName: key.Hdr.Name, KeyTag: key.KeyTag(), Inception: 1700000000, Expiration: 1800000000}
	if c.Off == -2 && c.Pos == 0 {
		sig.OrigTtl = 3600 // Sign keeps an original TTL that is set; the first record's is 60
	}
	signSet := set
	if c.Off == -1 {
		// the signature is the one over the wildcard; the set handed to Verify is its expansion
		signSet = nil
		for _, rr := range set {
			w := dns.Copy(rr)
			w.Header().Name = "*.example."
			signSet = append(signSet, w)
		}
	}
	res, err := signVerifyReadOnly(sig, key, priv, signSet, set)
	pbt.Note([]byte(fmt.Sprintf("%d/%d/%d", c.Type, c.Off, c.Pos)), true, "canonstep:"+where, "canonstep-result:"+res)
	if res != "verified" {
		pbt.Class("canonstep-not-signable:" + tn)
	}
	if err != nil {
		return pbt.Errf("%s RRset already in canonical form but for %s (case %+v): %v", tn, where, c, err)
	}
	return nil
}

func init() {
	pbt.RegisterEnum(pbt.Enum[canonCase]{Name: "sign-verify-every-canonical-step", Exhaustive: true, Each: eachCanonStep, Check: checkCanonStep})
}
