package c16

import (
	"encoding/base32"
	"encoding/base64"
	"fmt"
	"reflect"
	"sort"
	"strings"
	"sync"

	"github.com/miekg/dns"

	"verif/harness/pbt"
	wm "verif/harness/wiremodel"
)

// Records as a program holds them when it fills in struct literals instead of going through NewRR
// or Unpack: every field the wire form could be derived without - the length octets in front of a
// counted blob (SaltLength, HashLength, HitLength, PublicKeyLength, KeySize, OtherLen, MACSize), the
// option code every EDNS0 option struct repeats, the address family of a client subnet, the type
// and class of the header - is left at its zero value, or holds what an earlier use left there.
// Whatever a packer makes of such a record (emit the zero, refuse), the statement gives it no
// licence to "complete" the caller's struct: Pack, Len, String, IsDuplicate and Copy read.
//
// Nothing here names a record type: the length fields are found from the struct tags
// `dns:"size-hex:<LenField>"`, `size-base32:`, `size-base64:` of every type in dns.TypeToRR, the
// option codes from a field called Code in whatever implements dns.EDNS0.

// lenField is one redundant length field of a record struct and the text field it counts.
type lenField struct {
	Len, Data int    // field indices in the struct
	Enc       string // hex, base32, base64
}

var (
	lenMu    sync.Mutex
	lenCache = map[reflect.Type][]lenField{}
)

func lenFieldsOf(t reflect.Type) []lenField {
	if t.Kind() != reflect.Struct {
		return nil
	}
	lenMu.Lock()
	defer lenMu.Unlock()
	if l, ok := lenCache[t]; ok {
		return l
	}
	var out []lenField
	for i := 0; i < t.NumField(); i++ {
		tag := t.Field(i).Tag.Get("dns")
		if !strings.HasPrefix(tag, "size-") || t.Field(i).Type.Kind() != reflect.String {
			continue
		}
		enc, name, ok := strings.Cut(strings.TrimPrefix(tag, "size-"), ":")
		if !ok {
			continue
		}
		lf, ok := t.FieldByName(name)
		if !ok || len(lf.Index) != 1 {
			continue
		}
		switch lf.Type.Kind() {
		case reflect.Uint8, reflect.Uint16, reflect.Uint32:
			out = append(out, lenField{Len: lf.Index[0], Data: i, Enc: enc})
		}
	}
	lenCache[t] = out
	return out
}

// lenTypes: the type codes of every registered record type with at least one such field.
var lenTypes = sync.OnceValue(func() []uint16 {
	var ts []uint16
	for t, mk := range dns.TypeToRR {
		if len(lenFieldsOf(reflect.TypeOf(mk()).Elem())) > 0 {
			ts = append(ts, t)
		}
	}
	sort.Slice(ts, func(i, j int) bool { return ts[i] < ts[j] })
	return ts
})

// lenTypesGen: those of them the record generator has a layout for.
var lenTypesGen = sync.OnceValue(func() []uint16 {
	var ts []uint16
	for _, t := range lenTypes() {
		if _, ok := wm.LayoutOf(t); ok {
			ts = append(ts, t)
		}
	}
	return ts
})

func wrapUint(f reflect.Value, x uint64) {
	f.SetUint(x & (1<<(8*f.Type().Size()) - 1))
}

// setLen applies one mode to one length field: 0 zero, 1 one less than it was, 2 one more, else
// left as it is. It returns the class of what the record now is.
func setLen(v reflect.Value, lf lenField, mode int) string {
	f, data := v.Field(lf.Len), v.Field(lf.Data).String()
	empty := data == "" || data == "-"
	switch mode {
	case 0:
		f.SetUint(0)
		if empty {
			return "len:zero-and-no-data"
		}
		return "len:zero-with-data"
	case 1:
		wrapUint(f, f.Uint()-1)
		return "len:stale-short"
	case 2:
		wrapUint(f, f.Uint()+1)
		return "len:stale-long"
	}
	return "len:consistent"
}

// handLens leaves the length fields of one record at zero / stale, per the low 15 bits of seed.
func handLens(rr dns.RR, seed uint32) (classes []string) {
	v := reflect.ValueOf(rr)
	if v.Kind() != reflect.Pointer || v.IsNil() || v.Elem().Kind() != reflect.Struct {
		return nil
	}
	v = v.Elem()
	for i, lf := range lenFieldsOf(v.Type()) {
		mode := [8]int{0, 0, 0, 0, 1, 2, 3, 3}[(seed>>(3*uint(i%5)))&7]
		classes = append(classes, setLen(v, lf, mode))
	}
	return classes
}

// handBuilt edits lib in place according to the bits of seed (0: nothing) and returns the classes
// of what it did.
//
//	bits 0..14  three bits per length field of a record (0-3 zero, 4 short, 5 long, 6-7 as it is)
//	bit 15      set by the generator (a case with all other bits clear still counts)
//	bit 16      every option of an OPT record loses its Code (EDNS0_LOCAL keeps it: there it is data)
//	bit 17      every client-subnet option loses its Family
//	bit 18      one record's Hdr.Rrtype is zero
//	bit 19      one record's Hdr.Class is zero
//	bits 20..   which record
func handBuilt(lib *dns.Msg, seed uint32) []string {
	if seed == 0 {
		return nil
	}
	seen := map[string]bool{}
	all := append(append(append([]dns.RR{}, lib.Answer...), lib.Ns...), lib.Extra...)
	for _, rr := range all {
		for _, cl := range handLens(rr, seed) {
			seen[cl] = true
		}
		opt, ok := rr.(*dns.OPT)
		if !ok {
			continue
		}
		for _, o := range opt.Option {
			ov := reflect.ValueOf(o)
			if ov.Kind() != reflect.Pointer || ov.IsNil() || ov.Elem().Kind() != reflect.Struct {
				continue
			}
			if _, local := o.(*dns.EDNS0_LOCAL); seed&(1<<16) != 0 && !local {
				if f := ov.Elem().FieldByName("Code"); f.IsValid() && f.CanSet() && f.Kind() == reflect.Uint16 {
					f.SetUint(0)
					seen["hand:option-code-zero"] = true
				}
			}
			if sn, ok := o.(*dns.EDNS0_SUBNET); ok && seed&(1<<17) != 0 {
				sn.Family = 0
				seen["hand:subnet-family-zero"] = true
			}
		}
	}
	if len(all) > 0 {
		victim := all[int(seed>>20)%len(all)]
		if seed&(1<<18) != 0 {
			victim.Header().Rrtype = 0
			seen["hand:rrtype-zero"] = true
		}
		if seed&(1<<19) != 0 {
			victim.Header().Class = 0
			seen["hand:class-zero"] = true
		}
	}
	var out []string
	for k := range seen {
		out = append(out, k)
	}
	sort.Strings(out)
	return out
}

// ---------------------------------------------------------------------------------------------
// every length field of every record type, once each way, in a record put together by reflection
// alone (so that a type the layout table does not know yet is covered the day it is registered)

type lenCase struct {
	Type  uint16
	Field int // which of the type's length fields
	Mode  int // 0 zero, 1 one short, 2 one long
	Sec   int // 0 answer, 1 last additional record
}

var sampleText = map[string]string{
	"hex":    "AABBCCDD",                         // 4 octets
	"base32": "2T7B4G4VSA5SMI47K61MV5BV1A22BOJR", // 20 octets (base32hex, no padding)
	"base64": "AQIDBAUGBwg=",                     // 8 octets
}

func textLen(enc, s string) int {
	switch enc {
	case "hex":
		return len(s) / 2
	case "base32":
		return base32.HexEncoding.WithPadding(base32.NoPadding).DecodedLen(len(strings.TrimRight(s, "=")))
	case "base64":
		b, _ := base64.StdEncoding.DecodeString(s)
		return len(b)
	}
	return 0
}

// literal builds a record of the given type the way a struct literal does: header, names, the
// counted blobs and their (consistent) lengths; everything else stays at its zero value.
func literal(typ uint16) dns.RR {
	mk, ok := dns.TypeToRR[typ]
	if !ok {
		return nil
	}
	rr := mk()
	*rr.Header() = dns.RR_Header{Name: "hand.example.", Rrtype: typ, Class: dns.ClassINET, Ttl: 300}
	v := reflect.ValueOf(rr).Elem()
	for i := 0; i < v.NumField(); i++ {
		tag := v.Type().Field(i).Tag.Get("dns")
		if !strings.Contains(tag, "domain-name") {
			continue
		}
		switch f := v.Field(i); {
		case f.Kind() == reflect.String:
			f.SetString("name.example.")
		case f.Kind() == reflect.Slice && f.Type().Elem().Kind() == reflect.String:
			f.Set(reflect.ValueOf([]string{"one.example.", "two.example."}))
		}
	}
	for _, lf := range lenFieldsOf(v.Type()) {
		v.Field(lf.Data).SetString(sampleText[lf.Enc])
		wrapUint(v.Field(lf.Len), uint64(textLen(lf.Enc, sampleText[lf.Enc])))
	}
	return rr
}

func eachLenField(emit func(lenCase)) {
	for _, typ := range lenTypes() {
		n := len(lenFieldsOf(reflect.TypeOf(dns.TypeToRR[typ]()).Elem()))
		for f := 0; f < n; f++ {
			for mode := 0; mode < 3; mode++ {
				for sec := 0; sec < 2; sec++ {
					emit(lenCase{Type: typ, Field: f, Mode: mode, Sec: sec})
				}
			}
		}
	}
}

func checkLenField(c lenCase) error {
	rr := literal(c.Type)
	if rr == nil {
		return nil
	}
	v := reflect.ValueOf(rr).Elem()
	lfs := lenFieldsOf(v.Type())
	if c.Field < 0 || c.Field >= len(lfs) {
		return nil
	}
	lf := lfs[c.Field]
	class := setLen(v, lf, c.Mode)
	where := typeName(c.Type) + "." + v.Type().Field(lf.Len).Name
	pbt.Note([]byte(fmt.Sprintf("%s/%d/%d", where, c.Mode, c.Sec)), true, "lenfield:"+where, class)
	other := &dns.TXT{Hdr: dns.RR_Header{Name: "name.example.", Rrtype: dns.TypeTXT, Class: dns.ClassINET, Ttl: 1}, Txt: []string{"x"}}
	lib := new(dns.Msg)
	lib.SetQuestion("hand.example.", c.Type)
	lib.Response, lib.Compress = true, true
	if c.Sec == 0 {
		lib.Answer = []dns.RR{rr, other}
	} else {
		lib.Answer = []dns.RR{other}
		lib.Extra = []dns.RR{rr}
	}
	if err := readOnlyOps(lib); err != nil {
		return pbt.Errf("%s %s, record built as a struct literal: %v", where, strings.TrimPrefix(class, "len:"), err)
	}
	return nil
}

func init() {
	pbt.RegisterEnum(pbt.Enum[lenCase]{Name: "read-only-every-length-field", Exhaustive: true, Each: eachLenField, Check: checkLenField})
}
