package c16

import (
	"crypto"
	"encoding/json"
	"fmt"
	"net"
	"reflect"
	"regexp"
	"sort"
	"strings"
	"sync"

	"github.com/miekg/dns"
	"pgregory.net/rapid"

	"verif/harness/aliascheck"
	"verif/harness/gen"
	"verif/harness/pbt"
	wm "verif/harness/wiremodel"
)

func typeName(t uint16) string {
	if s, ok := dns.TypeToString[t]; ok {
		return s
	}
	return fmt.Sprintf("TYPE%d", t)
}

var rdlen = regexp.MustCompile(`Rdlength:\d+`)

// snap is the structural snapshot with the documented bookkeeping field blanked.
func snap(v any) string { return rdlen.ReplaceAllString(aliascheck.Snapshot(v), "Rdlength:_") }

func diffAt(a, b string) string {
	i := 0
	for i < len(a) && i < len(b) && a[i] == b[i] {
		i++
	}
	lo := max(0, i-60)
	return fmt.Sprintf("…%s ≠ …%s", a[lo:min(len(a), i+60)], b[lo:min(len(b), i+60)])
}

// ---------------------------------------------------------------------------------------------
// copies of records

type recCase struct {
	R    wm.Rec
	Bare bool `json:",omitempty"` // hand the library a bare *RR_Header carrying R's header instead of the record
	// the record is what UnpackRR makes of R's wire form rather than a value put together field by
	// field: slices carved out of one private array, with spare capacity reaching into the next one
	Decoded bool `json:",omitempty"`
}

// bareHeader is the header of rr as a value of its own. *RR_Header satisfies the RR interface (the
// library's own tests put such values into update messages; UnpackRRWithHeader returns one next to
// an error) without being a record type. Copy gives nil for it today - a nil shares nothing with
// anything, so that is within the statement; what the statement rules out is a "copy" that is the
// original (or shares with it), and the read-only operations writing to it.
func bareHeader(rr dns.RR) *dns.RR_Header {
	h := *rr.Header()
	return &h
}

func mutableShape(r wm.Rec) (string, bool) {
	shape := typeName(r.Type)
	mut := false
	for _, f := range r.Fields {
		switch f.K {
		case wm.IPv4, wm.IPv6, wm.Bitmap, wm.Strs, wm.Names, wm.APLs, wm.Opts, wm.Params:
			mut = true
		case wm.GW:
			if f.U == 1 || f.U == 2 {
				mut = true
			}
		}
		for _, o := range f.Opts {
			shape += fmt.Sprintf("/%d", o.Code)
		}
	}
	if r.Type == wm.TPrivate {
		mut = true
	}
	return shape, mut
}

func checkCopyRR(c recCase) error {
	rr, err := wm.ToLib(c.R)
	if err != nil {
		return nil
	}
	shape, mut := mutableShape(c.R)
	if c.Bare {
		pbt.Note([]byte("bare/"+shape), true, "bare-header")
		h := bareHeader(rr)
		before := snap(h)
		cp := dns.Copy(h)
		if after := snap(h); after != before {
			return pbt.Errf("Copy changed the bare header it was given: %s", diffAt(after, before))
		}
		if cp == nil || reflect.ValueOf(cp).IsNil() {
			pbt.Class("bare-header:nil-copy") // nothing shared; that it is no copy at all is outside the statement
			return nil
		}
		rr = h // a value came back: it is held to the same standard as every other copy
	} else {
		pbt.Note([]byte(shape), mut, "type:"+typeName(c.R.Type))
	}
	if c.Decoded && !c.Bare {
		if w, err := wm.EncodeRR(c.R); err == nil {
			if dec, _, err := dns.UnpackRR(w, 0); err == nil && dec != nil {
				rr = dec
				pbt.Class("decoded")
				if innerOverlap(rr) {
					// e.g. the addresses of an SVCB ipv4hint: sub-slices of one cloned array, cap(Hint[0])
					// reaches over Hint[1]. Sharing inside ONE value - neither copy / original nor
					// message / input buffer, so not the statement's business; what is, is that a copy
					// of such a value stands on its own (the spare capacity included)
					pbt.Class("decoded:elements-share-an-array")
				}
			}
		}
	}
	return copyChecks(rr, typeName(c.R.Type))
}

// copyChecks: Copy(rr) equals rr, shares no mutable memory with it (spare capacity included), and
// no write through one of the two shows through the other. rr is used up.
func copyChecks(rr dns.RR, tn string) error {
	// an emptied or pre-allocated slice (length 0, capacity > 0) must not be shared either: a later
	// append on one side would write into the other
	roomy(rr)
	cp := dns.Copy(rr)
	if snap(cp) != snap(rr) {
		return pbt.Errf("Copy(%s) differs from the original: %s", tn, diffAt(snap(cp), snap(rr)))
	}
	if o := aliascheck.Overlap(rr, cp); o != "" {
		return pbt.Errf("Copy(%s): %s", tn, o)
	}
	// behavioural twin: scribbling over one is invisible through the other
	before := snap(rr)
	aliascheck.Scribble(cp)
	if after := snap(rr); after != before {
		return pbt.Errf("writing through the copy of a %s changed the original: %s", tn, diffAt(after, before))
	}
	cp2 := dns.Copy(rr)
	before = snap(cp2)
	aliascheck.Scribble(rr)
	if after := snap(cp2); after != before {
		return pbt.Errf("writing through the original %s changed its copy: %s", tn, diffAt(after, before))
	}
	// appends within capacity are writes too
	cp3 := dns.Copy(rr)
	before = snap(cp3)
	n := growInto(rr)
	if after := snap(cp3); after != before {
		return pbt.Errf("writing into the spare capacity of the slices of a %s (an append) changed its copy: %s", tn, diffAt(after, before))
	}
	before = snap(rr)
	n += growInto(cp3)
	if after := snap(rr); after != before {
		return pbt.Errf("writing into the spare capacity of the slices of the copy of a %s (an append) changed the original: %s", tn, diffAt(after, before))
	}
	if n > 0 {
		pbt.Class("spare-capacity-written")
	}
	return nil
}

// innerOverlap: two mutable ranges reachable from one value overlap (counted, not judged).
func innerOverlap(v any) bool {
	r := aliascheck.Ranges(v)
	sort.Slice(r, func(i, j int) bool { return r[i].Lo < r[j].Lo })
	for i := 1; i < len(r); i++ {
		if r[i].Lo < r[i-1].Hi {
			return true
		}
	}
	return false
}

// growInto flips every octet / element between the length and the capacity of every slice of
// integers reachable from v through exported fields - what a later append on that slice overwrites.
// It returns the number of elements written.
func growInto(v any) int {
	n := 0
	seen := map[uintptr]bool{}
	var walk func(x reflect.Value)
	walk = func(x reflect.Value) {
		switch x.Kind() {
		case reflect.Interface:
			if !x.IsNil() {
				walk(x.Elem())
			}
		case reflect.Pointer:
			if !x.IsNil() && !seen[x.Pointer()] {
				seen[x.Pointer()] = true
				walk(x.Elem())
			}
		case reflect.Struct:
			for i := 0; i < x.NumField(); i++ {
				if x.Type().Field(i).IsExported() {
					walk(x.Field(i))
				}
			}
		case reflect.Slice:
			switch x.Type().Elem().Kind() {
			case reflect.Uint8, reflect.Uint16, reflect.Uint32, reflect.Uint64:
				if x.Cap() > x.Len() {
					full := x.Slice(0, x.Cap())
					for i := x.Len(); i < x.Cap(); i++ {
						if e := full.Index(i); e.CanSet() {
							e.SetUint(^e.Uint() & (1<<(8*e.Type().Size()) - 1))
							n++
						}
					}
				}
			default:
				for i := 0; i < x.Len(); i++ {
					walk(x.Index(i))
				}
			}
		}
	}
	walk(reflect.ValueOf(v))
	return n
}

// roomy replaces every empty []byte / []uint16 / []string reachable from rr (options and SvcParams
// included) by an empty slice with spare capacity.
func roomy(v any) {
	var walk func(x reflect.Value)
	walk = func(x reflect.Value) {
		switch x.Kind() {
		case reflect.Interface, reflect.Pointer:
			if !x.IsNil() {
				walk(x.Elem())
			}
		case reflect.Struct:
			for i := 0; i < x.NumField(); i++ {
				walk(x.Field(i))
			}
		case reflect.Slice:
			if x.Len() == 0 && x.CanSet() {
				switch x.Type().Elem().Kind() {
				case reflect.Uint8, reflect.Uint16, reflect.String:
					x.Set(reflect.MakeSlice(x.Type(), 0, 8))
				}
				return
			}
			for i := 0; i < x.Len(); i++ {
				walk(x.Index(i))
			}
		}
	}
	walk(reflect.ValueOf(v))
}

func genRec(t *rapid.T) recCase {
	o := &gen.Opts{Unknown: true, NoRdata: true}
	if rapid.IntRange(0, 3).Draw(t, "opt") == 0 {
		return recCase{R: gen.OptRec(t, o), Decoded: rapid.IntRange(0, 3).Draw(t, "decoded") == 0}
	}
	c := recCase{R: gen.Rec(t, o)}
	c.Bare = rapid.IntRange(0, 19).Draw(t, "bare") == 0
	c.Decoded = rapid.IntRange(0, 3).Draw(t, "decoded") == 0
	return c
}

func eachOptionKind(emit0 func(recCase)) {
	// every kind as a value assembled field by field and as UnpackRR hands it out
	emit := func(c recCase) {
		emit0(c)
		if !c.Bare {
			c.Decoded = true
			emit0(c)
		}
	}
	opts := []wm.Option{
		{Code: 1, Data: make([]byte, 18)}, {Code: 2, Data: []byte{0, 0, 0, 9}}, {Code: 3, Data: []byte{1, 2}}, {Code: 4, Data: []byte("u")},
		{Code: 5, Data: []byte{8, 13}}, {Code: 6, Data: []byte{1, 2}}, {Code: 7, Data: []byte{1}},
		{Code: 8, Data: []byte{0, 1, 24, 0, 192, 0, 2}}, {Code: 8, Data: []byte{0, 2, 32, 0, 0x20, 1, 0xd, 0xb8}},
		{Code: 9, Data: []byte{0, 0, 0, 1}}, {Code: 10, Data: []byte{1, 2, 3, 4, 5, 6, 7, 8}}, {Code: 11, Data: []byte{0, 5}},
		{Code: 12, Data: []byte{0, 0, 0}}, {Code: 15, Data: []byte{0, 1, 'x'}}, {Code: 18, Data: []byte{1, 'a', 0}}, {Code: 19, Data: []byte{1, 0, 1, 2}},
		{Code: 65001, Data: []byte{1, 2, 3}},
	}
	for _, o := range opts {
		emit(recCase{R: wm.Rec{Type: wm.TOPT, Class: 1232, Fields: []wm.Field{{K: wm.Opts, Opts: []wm.Option{o}}}}})
	}
	params := []wm.Option{
		{Code: 0, Data: []byte{0, 1, 0, 4}}, {Code: 1, Data: []byte{2, 'h', '2'}}, {Code: 2, Data: []byte{}}, {Code: 3, Data: []byte{1, 187}},
		{Code: 4, Data: []byte{192, 0, 2, 1, 192, 0, 2, 2}}, {Code: 5, Data: []byte{1, 2, 3}}, {Code: 6, Data: append([]byte{0x20, 1}, make([]byte, 14)...)},
		{Code: 6, Data: append(append([]byte{0x20, 1}, make([]byte, 14)...), append([]byte{0x20, 1, 0xd, 0xb8}, make([]byte, 12)...)...)},
		{Code: 7, Data: []byte("/dns-query{?dns}")}, {Code: 8, Data: []byte{}}, {Code: 65280, Data: []byte{9, 9}},
	}
	// bare headers (class ANY / NONE with no RDATA: the RFC 2136 prerequisite and delete forms)
	for _, cl := range []uint16{1, 254, 255} {
		emit(recCase{Bare: true, R: wm.Rec{Name: wm.MustName("bare.example."), Type: wm.TA, Class: cl, NoRdata: true}})
	}
	for _, p := range params {
		for _, typ := range []uint16{wm.TSVCB, wm.THTTPS} {
			emit(recCase{R: wm.Rec{Name: wm.MustName("s."), Type: typ, Class: 1, Fields: []wm.Field{{K: wm.U16, U: 1}, {K: wm.NameU, N: wm.MustName("t.")}, {K: wm.Params, Opts: []wm.Option{p}}}}})
		}
	}
}

// ---------------------------------------------------------------------------------------------
// copies of messages

type msgCase struct {
	M   wm.Msg
	Odd int `json:",omitempty"` // read-only-operations: a hand-assembled oddity applied to the library value (0: none)
	// copy-message, read-only-operations: record (Bare-1) mod n of the message is replaced by a bare
	// *RR_Header carrying its header (0: none) - the way old dynamic-update code spells "no RDATA"
	Bare int `json:",omitempty"`
	// read-only-operations: the library value is turned into what a program that fills in struct
	// literals holds (0: no) - redundant length fields, option codes, header type / class left at
	// zero or stale; see handBuilt for the meaning of the bits
	Hand uint32 `json:",omitempty"`
	// copy-message: the message is also copied onto itself, m.CopyTo(m) - the source of a copy is to
	// come out unchanged whatever the destination is, and a copy of m laid over m is m
	Self bool `json:",omitempty"`
}

// slot addresses one element of one record section.
type slot struct {
	sec int // 0 answer, 1 authority, 2 additional
	i   int
}

func (s slot) in(m *dns.Msg) *dns.RR {
	sec := [][]dns.RR{m.Answer, m.Ns, m.Extra}[s.sec]
	if s.i >= len(sec) {
		return nil
	}
	return &sec[s.i]
}

// makeBare replaces the chosen record of m by a bare header. OPT and TSIG are left alone: the
// library finds those two by their type code and then takes the concrete type for granted.
func makeBare(m *dns.Msg, k int) (slot, bool) {
	n := len(m.Answer) + len(m.Ns) + len(m.Extra)
	if k == 0 || n == 0 {
		return slot{}, false
	}
	k = (k - 1) % n
	s := slot{0, k}
	if k >= len(m.Answer)+len(m.Ns) {
		s = slot{2, k - len(m.Answer) - len(m.Ns)}
	} else if k >= len(m.Answer) {
		s = slot{1, k - len(m.Answer)}
	}
	p := s.in(m)
	if t := (*p).Header().Rrtype; t == dns.TypeOPT || t == dns.TypeTSIG {
		return slot{}, false
	}
	*p = bareHeader(*p)
	return s, true
}

// bareCopied looks at what a message copy holds in the place of the bare header of the original.
// Nil (today's behaviour) shares nothing: it is replaced by an equal header of the harness's own so
// that every other part of the copy is still compared with the original. Anything else stays and
// is examined like every other record of the copy.
func bareCopied(orig, cp *dns.Msg, s slot) (wasNil bool) {
	p := s.in(cp)
	if p == nil {
		return false // a section came back shorter: the comparison that follows says so
	}
	if *p == nil || reflect.ValueOf(*p).IsNil() {
		*p = bareHeader(*s.in(orig))
		return true
	}
	return false
}

func genMsg(t *rapid.T) msgCase {
	mo := &gen.MsgOpts{Share: true, MaxRecs: 3}
	mo.Unknown = true
	mo.NoRdata = true
	c := msgCase{M: gen.Msg(t, mo)}
	if rapid.IntRange(0, 3).Draw(t, "odd") == 0 {
		c.Odd = rapid.IntRange(1, 40).Draw(t, "oddkind")
		if c.Odd%5 == 4 {
			// make sure there is an address prefix list to play with
			apl := gen.RecOfType(t, wm.TAPL, &gen.Opts{})
			apl.Fields = []wm.Field{{K: wm.APLs, APL: []wm.APLItem{{Family: 1, Prefix: uint8(rapid.IntRange(0, 32).Draw(t, "aplp")), Neg: rapid.Bool().Draw(t, "apln"), Afd: []byte{10, byte(rapid.IntRange(1, 255).Draw(t, "aplo"))}}}}}
			c.M.An = append(c.M.An, apl)
		}
	}
	if rapid.IntRange(0, 7).Draw(t, "bare") == 0 {
		c.Bare = rapid.IntRange(1, 12).Draw(t, "barewhich")
	}
	if rapid.IntRange(0, 2).Draw(t, "hand") == 0 {
		c.Hand = 1 << 15 // (marks the case; the other bits as handBuilt reads them)
		for i := 0; i < 5; i++ {
			c.Hand |= uint32(rapid.SampledFrom([]int{0, 0, 0, 4, 5, 6}).Draw(t, "lenmode")) << (3 * i)
		}
		for bit := 16; bit < 18; bit++ {
			if rapid.Bool().Draw(t, "handflag") {
				c.Hand |= 1 << bit
			}
		}
		for bit := 18; bit < 20; bit++ {
			if rapid.IntRange(0, 3).Draw(t, "handhdr") == 0 {
				c.Hand |= 1 << bit
			}
		}
		c.Hand |= uint32(rapid.IntRange(0, 11).Draw(t, "handwhich")) << 20
		// make sure there is a record with a redundant length field to leave at zero
		if ts := lenTypesGen(); len(ts) > 0 && rapid.IntRange(0, 3).Draw(t, "handrec") != 0 {
			r := gen.RecOfType(t, rapid.SampledFrom(ts).Draw(t, "handtype"), &gen.Opts{})
			sec := c.M.Sections()[rapid.IntRange(0, 2).Draw(t, "handsec")]
			*sec = append(*sec, r)
		}
	}
	return c
}

// knownCopyToSelf: m.CopyTo(m) empties the record sections of m (see the probe in init).
const knownCopyToSelf = "copyto-self-empties-message"

// genCopyMsg: genMsg, and one message in four is copied onto itself as well.
func genCopyMsg(t *rapid.T) msgCase {
	c := genMsg(t)
	if rapid.IntRange(0, 3).Draw(t, "self") == 0 {
		if pbt.Known(knownCopyToSelf) {
			pbt.Excluded(knownCopyToSelf)
		} else {
			c.Self = true
		}
	}
	return c
}

// selfCopy: after m.CopyTo(m) the message reads as before. (That the records it then holds are
// fresh copies or the old values is left open: m is source and destination at once.)
func selfCopy(m *dns.Msg) error {
	before := snap(m)
	an, ns, ex := len(m.Answer), len(m.Ns), len(m.Extra)
	m.CopyTo(m)
	if after := snap(m); after != before {
		return pbt.Errf("m.CopyTo(m) changed the message it copied (%d+%d+%d records before, %d+%d+%d after): %s",
			an, ns, ex, len(m.Answer), len(m.Ns), len(m.Extra), diffAt(after, before))
	}
	return nil
}

func msgKey(m wm.Msg) []byte {
	w, _ := wm.Encode(m)
	return w
}

func checkCopyMsg(c msgCase) error {
	lib, err := wm.MsgToLib(c.M, true)
	if err != nil {
		return nil
	}
	pbt.Note(msgKey(c.M), len(c.M.AllRecs()) > 0 || len(c.M.Q) > 0, fmt.Sprintf("records=%d", min(len(c.M.AllRecs()), 6)))
	bareAt, bare := makeBare(lib, c.Bare)
	if bare {
		pbt.Class("bare-header")
	}
	for variant := 0; variant < 2; variant++ {
		var cp *dns.Msg
		if variant == 0 {
			cp = lib.Copy()
		} else {
			cp = lib.CopyTo(new(dns.Msg))
		}
		if bare && bareCopied(lib, cp, bareAt) && variant == 0 {
			pbt.Class("bare-header:nil-in-copy")
		}
		if snap(cp) != snap(lib) {
			return pbt.Errf("Msg copy (variant %d) differs from the original: %s", variant, diffAt(snap(cp), snap(lib)))
		}
		if o := aliascheck.Overlap(lib, cp); o != "" {
			return pbt.Errf("Msg copy (variant %d): %s", variant, o)
		}
		before := snap(lib)
		aliascheck.Scribble(cp)
		if after := snap(lib); after != before {
			return pbt.Errf("writing through a message copy changed the original: %s", diffAt(after, before))
		}
	}
	// CopyTo into a destination that is in use: a scratch message whose sections are (shallow
	// copies of) those of a third message. The copy must share nothing with the source - and the
	// third message, which only lent its slices to the scratch value, must not change either.
	for variant := 0; variant < 2; variant++ {
		lib, _ = wm.MsgToLib(c.M, true)
		makeBare(lib, c.Bare)
		third, err := wm.MsgToLib(c.M, true)
		if err != nil {
			return nil
		}
		if variant == 1 {
			// the third message has its own, different content with roomy slices
			third.Question = append(make([]dns.Question, 0, 8), dns.Question{Name: "scratch.example.", Qtype: 1, Qclass: 1}, dns.Question{Name: "two.example.", Qtype: 2, Qclass: 1})
			third.Answer = append(make([]dns.RR, 0, 8), &dns.A{Hdr: dns.RR_Header{Name: "scratch.example.", Rrtype: 1, Class: 1}, A: []byte{192, 0, 2, 9}})
		}
		thirdBefore := snap(third)
		dst := *third // shares every slice with third
		cp := lib.CopyTo(&dst)
		if bare {
			bareCopied(lib, cp, bareAt)
		}
		if len(lib.Question) > 0 && snap(cp.Question) != snap(lib.Question) {
			return pbt.Errf("CopyTo into a used message: questions differ from the source: %s", diffAt(snap(cp.Question), snap(lib.Question)))
		}
		if after := snap(third); after != thirdBefore {
			return pbt.Errf("CopyTo into a message that shared its slices with another message changed that other message: %s", diffAt(after, thirdBefore))
		}
		if o := aliascheck.Overlap(lib, cp); o != "" {
			return pbt.Errf("CopyTo into a used message: %s", o)
		}
		before := snap(lib)
		aliascheck.Scribble(cp)
		if after := snap(lib); after != before {
			return pbt.Errf("writing through a copy made by CopyTo into a used message changed the source: %s", diffAt(after, before))
		}
		if len(lib.Question) > 0 {
			if after := snap(third); after != thirdBefore {
				return pbt.Errf("writing through a copy made by CopyTo changed the message the destination had borrowed its slices from: %s", diffAt(after, thirdBefore))
			}
		}
	}
	// the message laid over itself. (A bare header is left out: what Copy makes of one is another matter,
	// counted above.)
	if c.Self && !bare {
		lib, _ = wm.MsgToLib(c.M, true)
		pbt.Class("copied-onto-itself")
		if n := len(lib.Answer) + len(lib.Ns) + len(lib.Extra); n > 0 {
			pbt.Class("copied-onto-itself:with-records")
		}
		if err := selfCopy(lib); err != nil {
			return err
		}
	}
	return nil
}

// ---------------------------------------------------------------------------------------------
// unpacked values alias no input buffer

func checkUnpack(c msgCase) error {
	w, err := wm.Encode(c.M)
	if err != nil {
		return nil
	}
	imgs := [][]byte{w}
	if cw, err := wm.EncodeCompressed(c.M, true); err == nil {
		imgs = append(imgs, cw)
	}
	pbt.Note(w, len(c.M.AllRecs()) > 0, fmt.Sprintf("records=%d", min(len(c.M.AllRecs()), 6)))
	for _, img := range imgs {
		buf := append([]byte{}, img...)
		var u dns.Msg
		if err := u.Unpack(buf); err != nil {
			return nil // C01 / C04
		}
		if o := aliascheck.OverlapBytes(&u, buf); o != "" {
			return pbt.Errf("Unpack: %s", o)
		}
		before := snap(&u)
		for i := range buf {
			buf[i] ^= 0xff
		}
		if after := snap(&u); after != before {
			return pbt.Errf("overwriting the input buffer changed the unpacked message: %s", diffAt(after, before))
		}
	}
	// single records through UnpackRR
	for _, r := range c.M.AllRecs() {
		rw, err := wm.EncodeRR(r)
		if err != nil {
			continue
		}
		buf := append([]byte{}, rw...)
		rr, _, err := dns.UnpackRR(buf, 0)
		if err != nil {
			continue
		}
		if o := aliascheck.OverlapBytes(rr, buf); o != "" {
			return pbt.Errf("UnpackRR(%s): %s", typeName(r.Type), o)
		}
		before := snap(rr)
		for i := range buf {
			buf[i] ^= 0xff
		}
		if after := snap(rr); after != before {
			return pbt.Errf("overwriting the input buffer changed the unpacked %s record: %s", typeName(r.Type), diffAt(after, before))
		}
	}
	return nil
}

// ---------------------------------------------------------------------------------------------
// read-only operations leave their arguments unchanged

func checkReadOnly(c msgCase) error {
	// (values as a program holds them: whole client-subnet addresses, 16-octet IPv4, respelled names)
	restore := wm.Spelling(uint64(c.M.ID)*2654435761 + uint64(c.Odd))
	lib, err := wm.MsgToLib(c.M, true)
	restore()
	if err != nil {
		return nil
	}
	if _, err := wm.Encode(c.M); err != nil {
		return nil
	}
	// Pack may write the extended RCODE bits into the OPT record it finds; it may not put another
	// record in its place (a caller holding the *OPT must still be holding the message's OPT)
	if l2, err := wm.MsgToLib(c.M, true); err == nil && l2.IsEdns0() != nil {
		l2.Rcode = 16 + int(c.M.ID)%4000
		if c.M.ID%3 == 0 {
			l2.Rcode = int(c.M.ID) % 16
			l2.IsEdns0().SetExtendedRcode(0xff0) // stale upper bits from an earlier use
		}
		held := append([]dns.RR{}, l2.Extra...)
		l2.Pack()
		for i := range held {
			if i >= len(l2.Extra) || l2.Extra[i] != held[i] {
				return pbt.Errf("Pack (RCODE %d) replaced additional record %d of its argument by another value instead of updating it in place", l2.Rcode, i)
			}
		}
	}
	// the documented bookkeeping: Pack stores the extended RCODE bits in the OPT TTL
	if opt := lib.IsEdns0(); opt != nil {
		opt.SetExtendedRcode(uint16(lib.Rcode))
	}
	pbt.Note(msgKey(c.M), len(c.M.AllRecs()) > 0, fmt.Sprintf("records=%d", min(len(c.M.AllRecs()), 6)))
	// (counted: the layouts of the additional section in which something that is printed or packed
	// apart - an OPT record - stands before other records, e.g. [..., OPT, TSIG])
	for i, rr := range lib.Extra {
		if rr.Header().Rrtype == dns.TypeOPT && i+1 < len(lib.Extra) {
			pbt.Class("extra:opt-before-other-records")
			break
		}
	}
	// the library accepts SVCB parameters (and mandatory key lists) in any order and sorts while
	// packing: hand them over in descending order so that an in-place sort becomes visible
	for _, rr := range append(append(append([]dns.RR{}, lib.Answer...), lib.Ns...), lib.Extra...) {
		var v []dns.SVCBKeyValue
		switch x := rr.(type) {
		case *dns.SVCB:
			v = x.Value
		case *dns.HTTPS:
			v = x.Value
		}
		for i, j := 0, len(v)-1; i < j; i, j = i+1, j-1 {
			v[i], v[j] = v[j], v[i]
		}
		for _, kv := range v {
			if m, ok := kv.(*dns.SVCBMandatory); ok {
				for i, j := 0, len(m.Code)-1; i < j; i, j = i+1, j-1 {
					m.Code[i], m.Code[j] = m.Code[j], m.Code[i]
				}
			}
		}
	}
	// values assembled by hand rather than decoded: owner names left empty or not fully qualified
	// (the packers refuse or mis-encode such a record; they still have no business changing it)
	if all := append(append(append([]dns.RR{}, lib.Answer...), lib.Ns...), lib.Extra...); c.Odd != 0 && len(all) > 0 {
		victim := all[(c.Odd/4)%len(all)]
		if c.Odd%5 == 4 {
			// addresses in the form net.ParseIP / net.IPv4 return them (16 octets for an IPv4 address):
			// fine for A records and hints, an inconsistent prefix (16-octet address under a 4-octet
			// mask) for APL - which the packer refuses; refusing is not a licence to rewrite it
			for _, rr := range all {
				switch x := rr.(type) {
				case *dns.A:
					if v4 := x.A.To4(); v4 != nil {
						x.A = net.IPv4(v4[0], v4[1], v4[2], v4[3])
					}
				case *dns.APL:
					for i := range x.Prefixes {
						if v4 := x.Prefixes[i].Network.IP.To4(); v4 != nil && len(x.Prefixes[i].Network.IP) == 4 {
							x.Prefixes[i].Network.IP = net.IPv4(v4[0], v4[1], v4[2], v4[3])
						}
					}
				}
			}
			pbt.Class("odd:ipv4-in-16-octets")
		} else {
			switch c.Odd % 4 {
			case 0, 1:
				if opt := lib.IsEdns0(); opt != nil {
					victim = opt
				}
				victim.Header().Name = ""
				pbt.Class("odd:empty-owner")
			case 2:
				victim.Header().Name = strings.TrimSuffix(victim.Header().Name, ".")
				pbt.Class("odd:unqualified-owner")
			case 3:
				victim.Header().Rdlength = 0xFFFF
				pbt.Class("odd:stale-rdlength")
			}
		}
	}
	// a record spelled as a bare header (Pack, Len, String and IsDuplicate all take it)
	if _, bare := makeBare(lib, c.Bare); bare {
		pbt.Class("bare-header")
	}
	// values put together as struct literals: the redundant fields (length octets, option codes,
	// header type and class) left at zero or stale - see handBuilt
	for _, cl := range handBuilt(lib, c.Hand) {
		pbt.Class(cl)
	}
	return readOnlyOps(lib)
}

// readOnlyOps runs every read-only operation over lib and its records; after each of them the
// message must read back as it was (RDLENGTH apart), hold the same record values in the same places,
// and nothing may have been written behind the end of a section.
func readOnlyOps(lib *dns.Msg) error {
	// the sections are windows into larger arrays (a reply assembled from slices of a cached RRset):
	// what lies behind a section's length is not the library's to write
	sentinel := dns.RR(&dns.NULL{Hdr: dns.RR_Header{Name: "behind.the.section.", Rrtype: dns.TypeNULL, Class: 1}})
	var arenas [][]dns.RR
	carve := func(sec *[]dns.RR) {
		arr := make([]dns.RR, len(*sec)+3)
		n := copy(arr, *sec)
		for i := n; i < len(arr); i++ {
			arr[i] = sentinel
		}
		*sec = arr[:n]
		arenas = append(arenas, arr[n:])
	}
	carve(&lib.Answer)
	carve(&lib.Ns)
	carve(&lib.Extra)
	identity := func() []dns.RR {
		return append(append(append([]dns.RR{}, lib.Answer...), lib.Ns...), lib.Extra...)
	}
	same := identity()
	before := snap(lib)
	ops := []struct {
		name string
		run  func()
	}{
		{"Len", func() { lib.Len() }},
		{"String", func() { _ = lib.String() }},
		{"Pack", func() { lib.Pack() }},
		{"Pack(uncompressed)", func() { lib.Compress = false; lib.Pack(); lib.Compress = true }},
		{"PackBuffer", func() { lib.PackBuffer(make([]byte, 70000)) }},
		{"Copy", func() { lib.Copy() }},
		{"IsDuplicate", func() {
			all := append(append(append([]dns.RR{}, lib.Answer...), lib.Ns...), lib.Extra...)
			for i := range all {
				for j := range all {
					dns.IsDuplicate(all[i], all[j])
				}
			}
		}},
		{"Len(rr)/String(rr)/PackRR", func() {
			for _, rr := range append(append(append([]dns.RR{}, lib.Answer...), lib.Ns...), lib.Extra...) {
				dns.Len(rr)
				_ = rr.String()
				dns.PackRR(rr, make([]byte, 70000), 0, nil, false)
				dns.PackRR(rr, make([]byte, 70000), 0, map[string]int{}, true)
			}
		}},
	}
	for _, op := range ops {
		op.run()
		if after := snap(lib); after != before {
			return pbt.Errf("%s changed its argument: %s", op.name, diffAt(after, before))
		}
		for i, rr := range identity() {
			if i >= len(same) || rr != same[i] {
				return pbt.Errf("%s replaced a record of its argument by another value (record %d is no longer the one the caller put there; whoever holds the old pointer is cut off)", op.name, i)
			}
		}
		for _, a := range arenas {
			for _, x := range a {
				if x != sentinel {
					return pbt.Errf("%s wrote into the spare capacity behind a section of the message (a record pointer landed in the caller's array)", op.name)
				}
			}
		}
	}
	return nil
}

// signing and verifying leave the RRset and the key unchanged

type signCase struct {
	Recs []wm.Rec // same owner, class, type
	Hand uint32   `json:",omitempty"` // the records' redundant length fields are left at zero / stale (handLens)
}

var (
	keyOnce sync.Once
	zsk     *dns.DNSKEY
	zskPriv crypto.Signer
)

func signKey() (*dns.DNSKEY, crypto.Signer) {
	keyOnce.Do(func() {
		zsk = &dns.DNSKEY{Hdr: dns.RR_Header{Name: "example.", Rrtype: dns.TypeDNSKEY, Class: dns.ClassINET, Ttl: 3600}, Flags: 256, Protocol: 3, Algorithm: dns.ED25519}
		p, err := zsk.Generate(256)
		if err != nil {
			panic(err)
		}
		zskPriv = p.(crypto.Signer)
	})
	return zsk, zskPriv
}

func checkSign(c signCase) error {
	var rrset []dns.RR
	for _, r := range c.Recs {
		rr, err := wm.ToLib(r)
		if err != nil {
			return nil
		}
		rrset = append(rrset, rr)
	}
	if len(rrset) == 0 {
		return nil
	}
	var hand []string
	if c.Hand != 0 {
		for _, rr := range rrset {
			hand = append(hand, handLens(rr, c.Hand)...)
		}
	}
	// (counted: sets in which a record is there twice - same RDATA, the TTL may differ - as a reply
	// from a foreign server may hold them; a signer or validator that drops repeats has to do so on
	// its own copy of the slice)
	rep, repInside := false, false
	for i := range c.Recs {
		for j := i + 1; j < len(c.Recs); j++ {
			if reflect.DeepEqual(c.Recs[i].Fields, c.Recs[j].Fields) {
				rep = true
				repInside = repInside || j+1 < len(c.Recs)
			}
		}
	}
	if rep {
		hand = append(hand, "rrset:repeats-a-record")
	}
	if repInside {
		hand = append(hand, "rrset:repeats-a-record:followed-by-another")
	}
	key, priv := signKey()
	_, mut := mutableShape(c.Recs[0])
	pbt.Note([]byte(snap(rrset)), mut || len(rrset) > 1 || len(rdataNames(&c.Recs[0])) > 0, append(append(hand, canonClasses(c.Recs)...), "type:"+typeName(c.Recs[0].Type), fmt.Sprintf("rrset=%d", len(rrset)))...)
	// the signer name is written the way a zone file might spell it (mixed case): Verify must not "tidy" it
	signer := "eXamPle."
	if len(c.Recs)%2 == 0 {
		signer = key.Hdr.Name
	}
	sig := &dns.RRSIG{Hdr: dns.RR_Header{Name: rrset[0].Header().Name, Rrtype: dns.TypeRRSIG, Class: rrset[0].Header().Class, Ttl: 300},
		Algorithm: dns.ED25519, SignerName: signer, KeyTag: key.KeyTag(), Inception: 1700000000, Expiration: 1800000000}
	res, err := signVerifyReadOnly(sig, key, priv, rrset, rrset)
	pbt.Class("result:" + res)
	return err
}

// signVerifyReadOnly signs signSet with sig and verifies set (the same RRset, or another the
// signature is good for) against the result, each call bracketed by snapshots of everything it was
// handed. A Sign that gives up (a record that does not pack, a class the key is not for) has to
// leave the RRset alone as well. res says how far it got.
func signVerifyReadOnly(sig *dns.RRSIG, key *dns.DNSKEY, priv crypto.Signer, signSet, set []dns.RR) (res string, err error) {
	signer := sig.SignerName
	before, kbefore, sgbefore := snap(set), snap(key), snap(signSet)
	serr := sig.Sign(priv, signSet)
	if after := snap(signSet); after != sgbefore {
		return "", pbt.Errf("RRSIG.Sign changed the RRset: %s", diffAt(after, sgbefore))
	}
	if after := snap(set); after != before {
		return "", pbt.Errf("RRSIG.Sign changed the RRset: %s", diffAt(after, before))
	}
	if serr != nil {
		return "not-signable", nil // (e.g. a record the packer refuses); nothing more to observe
	}
	if len(signSet) > 0 && len(set) > 0 && &signSet[0] != &set[0] {
		// the RRSIG travels with the set it is checked against: in an answer made from a wildcard it
		// carries the expanded owner name (and a label count that says so)
		sig.Hdr.Name = set[0].Header().Name
	}
	sbefore := snap(sig)
	err = sig.Verify(key, set)
	if after := snap(set); after != before {
		return "", pbt.Errf("RRSIG.Verify changed the RRset: %s", diffAt(after, before))
	}
	if after := snap(key); after != kbefore {
		return "", pbt.Errf("RRSIG.Verify changed the key: %s", diffAt(after, kbefore))
	}
	if after := snap(sig); after != sbefore {
		return "", pbt.Errf("RRSIG.Verify changed the RRSIG: %s", diffAt(after, sbefore))
	}
	if err != nil {
		return "", pbt.Errf("RRSIG.Verify of a signature just made (signer name %q, key owner %q) failed: %v", signer, key.Hdr.Name, err)
	}
	// a failing Verify (other key tag) is read-only too
	bad := *sig
	bad.KeyTag++
	bbefore := snap(&bad)
	_ = bad.Verify(key, set)
	if after := snap(&bad); after != bbefore {
		return "", pbt.Errf("a failing RRSIG.Verify changed the RRSIG: %s", diffAt(after, bbefore))
	}
	if after := snap(set); after != before {
		return "", pbt.Errf("a failing RRSIG.Verify changed the RRset: %s", diffAt(after, before))
	}
	return "verified", nil
}

// cloneRec: a model record that shares nothing with r (the model is plain data).
func cloneRec(r wm.Rec) wm.Rec {
	var out wm.Rec
	b, err := json.Marshal(r)
	if err == nil {
		err = json.Unmarshal(b, &out)
	}
	if err != nil {
		panic(err)
	}
	return out
}

func genSign(t *rapid.T) signCase {
	owner := gen.Name(t, gen.NameOpts{MaxLabs: 2, MaxLabel: 6})
	owner = append(owner, []byte("Example"))
	var types []uint16
	for _, x := range gen.AllTypes {
		switch x {
		case wm.TRRSIG, wm.TSIG, wm.TTSIG, wm.TTKEY, wm.TPrivate, wm.TANY, wm.TNXNAME:
		default:
			types = append(types, x)
		}
	}
	typ := rapid.SampledFrom(types).Draw(t, "type")
	var hand uint32
	if rapid.IntRange(0, 7).Draw(t, "hand") == 0 {
		// an RRset of records with redundant length fields, filled in as struct literals
		var lts []uint16
		for _, x := range lenTypesGen() {
			for _, y := range types {
				if x == y {
					lts = append(lts, x)
				}
			}
		}
		if len(lts) > 0 {
			typ = rapid.SampledFrom(lts).Draw(t, "handtype")
			hand = 1 << 15
			for i := 0; i < 5; i++ {
				hand |= uint32(rapid.SampledFrom([]int{0, 0, 0, 4, 5, 6}).Draw(t, "lenmode")) << (3 * i)
			}
		}
	}
	// canonicalisation has most to do where the RDATA holds domain names: one RRset in three is of
	// such a type (the list is read off the layout table)
	if nts := nameTypesOf(types); hand == 0 && len(nts) > 0 && rapid.IntRange(0, 2).Draw(t, "nametype") == 0 {
		typ = rapid.SampledFrom(nts).Draw(t, "ntype")
	}
	n := rapid.IntRange(1, 3).Draw(t, "n")
	o := &gen.Opts{}
	var recs []wm.Rec
	for i := 0; i < n; i++ {
		r := gen.RecOfType(t, typ, o)
		r.Name, r.Class = owner, 1
		recs = append(recs, r)
	}
	// one set in six holds a record twice, the second time with a TTL of its own and anywhere in the
	// slice (what a careless or hostile sender puts into a reply, RFC 2181 5.2): whatever a signer or
	// validator does about repeats, it does to its own copy
	if rapid.IntRange(0, 5).Draw(t, "repeat") == 0 {
		d := cloneRec(recs[rapid.IntRange(0, len(recs)-1).Draw(t, "repeatof")])
		d.TTL = rapid.SampledFrom([]uint32{d.TTL, d.TTL / 2, 0, 60, 0xFFFFFFFF}).Draw(t, "repeatttl")
		k := rapid.IntRange(0, len(recs)).Draw(t, "repeatat")
		recs = append(recs[:k:k], append([]wm.Rec{d}, recs[k:]...)...)
	}
	// where the set stands with respect to each step of RFC 4034 6.2 (see canonPlan)
	canonPlan(t, recs)
	return signCase{Recs: recs, Hand: hand}
}

func init() {
	pbt.Probe(knownCopyToSelf, func() error {
		m := new(dns.Msg)
		m.SetQuestion("example.", dns.TypeA)
		m.Response = true
		m.Answer = []dns.RR{&dns.A{Hdr: dns.RR_Header{Name: "example.", Rrtype: dns.TypeA, Class: dns.ClassINET, Ttl: 60}, A: net.IP{192, 0, 2, 1}}}
		return selfCopy(m)
	})
	pbt.Register(pbt.Sub[recCase]{Name: "copy-record", Weight: 20, Gen: genRec, Check: checkCopyRR})
	pbt.RegisterEnum(pbt.Enum[recCase]{Name: "copy-every-option-kind", Exhaustive: true, Each: eachOptionKind, Check: checkCopyRR})
	pbt.Register(pbt.Sub[msgCase]{Name: "copy-message", Weight: 4, Gen: genCopyMsg, Check: checkCopyMsg})
	pbt.Register(pbt.Sub[msgCase]{Name: "unpack-aliases-no-buffer", Weight: 6, Gen: genMsg, Check: checkUnpack})
	pbt.Register(pbt.Sub[msgCase]{Name: "read-only-operations", Weight: 4, Gen: genMsg, Check: checkReadOnly})
	pbt.Register(pbt.Sub[signCase]{Name: "sign-verify-read-only", Weight: 4, Gen: genSign, Check: checkSign})
}
