package c15

// Several requests over ONE connection to the sending server: the per-connection state of the
// server (response.tsigTimersOnly / tsigRequestMAC) must be re-initialised by every new signed
// request, otherwise the first envelope of a later transfer (or a later signed plain answer) is
// digested as if it continued the previous transfer.

import (
	"encoding/binary"
	"fmt"
	"io"
	"net"
	"sync/atomic"
	"time"

	"github.com/miekg/dns"

	"verif/harness/pbt"
)

// keepOpen lets dns.Transfer.In "close" the connection at the end of a transfer (the close is
// observed) while the stream stays usable for the next request.
type keepOpen struct {
	*endpoint
	closed bool
}

func (k *keepOpen) Close() error        { k.closed = true; return nil }
func (k *keepOpen) isClosed() bool      { return k.closed }
func (k *keepOpen) reopen()             { k.closed = false }
func (k *keepOpen) LocalAddr() net.Addr { return k.endpoint.LocalAddr() }

type closeObserver interface {
	isClosed() bool
	consumed() int
}

func (c xferCase) rounds() []string {
	if len(c.Rounds) == 0 {
		return []string{"xfr"}
	}
	return c.Rounds
}

func (c xferCase) multi() bool { return len(c.Rounds) > 1 }

// plainQuery is a non-transfer request; the sending server answers it with one (signed) message.
func (c xferCase) plainQuery(id uint16) *dns.Msg {
	q := new(dns.Msg)
	q.SetQuestion(c.Zone, dns.TypeSOA)
	q.Id = id
	if c.Tsig != nil {
		q.SetTsig(c.Tsig.KeyName, c.Tsig.Alg, 300, time.Now().Unix())
	}
	return q
}

func plainAnswer(zone string) dns.RR { return recSpec{T: "A", Owner: "plain", V: 9}.rr(zone) }

// libraryRounds: receiver side = the library (Transfer.In / Conn.ReadMsg), one connection.
func libraryRounds(c xferCase, o *outServer, cli *endpoint) error {
	k := &keepOpen{endpoint: cli}
	var shared *dns.Transfer // Reuse: one Transfer value for every transfer of the sequence
	for i, kind := range c.rounds() {
		id := c.QID + uint16(i)
		k.reopen()
		switch kind {
		case "xfr":
			tr := shared
			if tr == nil {
				tr = newTransfer(c, nil)
				if c.Reuse > 0 {
					shared = tr
				}
			}
			tr.Conn = &dns.Conn{Conn: k}
			q := c.query()
			q.Id = id
			if t := q.IsTsig(); t != nil {
				t.OrigId = id
			}
			ch, err := tr.In(q, "mem")
			if err != nil {
				return fmt.Errorf("round %d: Transfer.In returned %v", i, err)
			}
			round := int32(i)
			r := collectUntil(ch, k, watchdog, 0, func() bool { return atomic.LoadInt32(&o.handled) > round && cli.readerIdle() })
			if err := checkComplete(c, r); err != nil {
				if c.Reuse > 0 {
					return pbt.Errf("request %d (%s) on the same connection, made with the same dns.Transfer value as the earlier transfers: %v", i, kind, err)
				}
				return pbt.Errf("request %d (%s) on the same connection: %v", i, kind, err)
			}
		default:
			co := &dns.Conn{Conn: k}
			if c.Tsig != nil {
				co.TsigSecret = c.secrets()
			}
			q := c.plainQuery(id)
			if err := co.WriteMsg(q); err != nil {
				return fmt.Errorf("round %d: WriteMsg %v", i, err)
			}
			k.SetReadDeadline(time.Now().Add(watchdog))
			m, err := co.ReadMsg()
			if err != nil {
				return pbt.Errf("request %d (signed=%v plain query after %v) on the same connection: answer rejected by the library client: %v", i, c.Tsig != nil, c.rounds()[:i], err)
			}
			if m.Id != id || len(m.Answer) != 1 || m.Answer[0].String() != plainAnswer(c.Zone).String() {
				return pbt.Errf("request %d (plain query): unexpected answer %v", i, m)
			}
			if c.Tsig != nil && m.IsTsig() == nil {
				return pbt.Errf("request %d (plain query): the answer to a signed query is unsigned", i)
			}
		}
		var st string
		select {
		case st = <-o.status:
		case <-time.After(watchdog):
			st = "handler-not-called"
		}
		if c.Tsig != nil && st != "signed-ok" || c.Tsig == nil && st != "unsigned" {
			return pbt.Errf("request %d: sending server saw the request as %q", i, st)
		}
	}
	return nil
}

// refRounds: receiver side = this harness (own framing, reference TSIG signer/verifier).
func refRounds(c xferCase, o *outServer, cli *endpoint) error {
	envs := c.envelopes()
	if c.Trailer && !c.multi() {
		envs = append(envs, []recSpec{{T: "A", Owner: "trailer", V: 1}})
	}
	cli.SetReadDeadline(time.Now().Add(watchdog))
	for i, kind := range c.rounds() {
		id := c.QID + uint16(i)
		var q *dns.Msg
		if kind == "xfr" {
			q = c.query()
			q.Id = id
		} else {
			q = c.plainQuery(id)
		}
		q.Extra = nil
		wire, err := q.Pack()
		if err != nil {
			return err
		}
		var reqMAC []byte
		if c.Tsig != nil {
			wire, reqMAC, _ = tsigSign(wire, c.key(), c.Tsig.KeyName, signOpts{now: uint64(time.Now().Unix()), fudge: 300})
		}
		cli.Write(append(binary.BigEndian.AppendUint16(nil, uint16(len(wire))), wire...))
		want := [][]string{{plainAnswer(c.Zone).String()}}
		if kind == "xfr" {
			want = nil
			for _, e := range envs {
				want = append(want, strs(c.Zone, e))
			}
		}
		prior := reqMAC
		for j := range want {
			b, err := readFrame(cli)
			if err != nil {
				return pbt.Errf("request %d (%s): message %d of %d not received: %v", i, kind, j, len(want), err)
			}
			m := new(dns.Msg)
			if err := m.Unpack(b); err != nil {
				return pbt.Errf("request %d (%s): message %d does not decode: %v", i, kind, j, err)
			}
			if m.Id != id || !m.Response || m.Rcode != 0 {
				return pbt.Errf("request %d (%s): message %d: id=%d (want %d) qr=%v rcode=%d", i, kind, j, m.Id, id, m.Response, m.Rcode)
			}
			var got []string
			for _, rr := range m.Answer {
				got = append(got, rr.String())
			}
			if !eqStrs(got, want[j]) {
				return pbt.Errf("request %d (%s): message %d carries %d records, the envelope had %d (first difference at %d)", i, kind, j, len(got), len(want[j]), firstDiff(got, want[j]))
			}
			if c.Tsig != nil {
				mac, err := refVerify(b, c.key(), prior, j > 0)
				if err != nil {
					return pbt.Errf("request %d (%s, after %v on the same connection): message %d of %d fails the reference TSIG check (prior MAC chain, timers-only=%v): %v",
						i, kind, c.rounds()[:i], j, len(want), j > 0, err)
				}
				prior = mac
				// Time Signed is the moment THIS envelope was signed (RFC 8945 §4.2 / §5.3.1: the timers of
				// every message are digested): it cannot lie before the moment the producer handed the
				// envelope's records to Transfer.Out, nor in the future (whole seconds, 1 s slack)
				if kind == "xfr" {
					t, _, _ := findTsig(b)
					o.hmu.Lock()
					hs := o.handoff[id]
					o.hmu.Unlock()
					now := time.Now().Unix()
					if j < len(hs) && (int64(t.Time) < hs[j]-1 || int64(t.Time) > now+1) {
						return pbt.Errf("request %d: envelope %d of %d is signed with Time Signed %d, but its records were handed to Transfer.Out at %d (now %d): every envelope must carry its own signing time, a receiver rejects it once it is older than the fudge (%d s)",
							i, j, len(want), t.Time, hs[j], now, t.Fudge)
					}
					if c.ProducerMs > 0 && j == len(want)-1 {
						pbt.Class("slow-producer-time-checked")
					}
				}
			} else if _, ok, _ := findTsig(b); ok {
				return pbt.Errf("request %d: message %d carries a TSIG although the request had none", i, j)
			}
		}
		var st string
		select {
		case st = <-o.status:
		case <-time.After(watchdog):
			st = "handler-not-called"
		}
		if c.Tsig != nil && st != "signed-ok" {
			return pbt.Errf("request %d signed by the reference signer was not accepted by the server: %s", i, st)
		}
	}
	// nothing may follow: after the client's EOF the server must just close
	cli.closeWrite()
	if b, err := readFrame(cli); err != io.EOF {
		return pbt.Errf("after the last answer the sending server wrote more (%d octets) or did not end the stream cleanly: %v", len(b), err)
	}
	return nil
}
