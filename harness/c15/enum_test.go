package c15

import (
	"github.com/miekg/dns"

	"verif/harness/pbt"
)

// ---------------------------------------------------------------------------------------------
// bounded-exhaustive parts: every composition of short transfers into envelopes; the stream cut
// after every octet; every covered octet of every envelope altered (TSIG).

func bodyRecs(n int) []recSpec {
	kinds := []string{"A", "TXT", "MX", "AAAA", "NS", "CNAME"}
	out := make([]recSpec, n)
	for i := range out {
		out[i] = recSpec{T: kinds[i%len(kinds)], Owner: owners[1+i%(len(owners)-1)], V: uint32(100 + i)}
	}
	return out
}

var enumKey = &tsigSpec{KeyName: "xfr-key.", Alg: dns.HmacSHA256, Secret: []byte("0123456789abcdef0123456789abcdef")}

// shapes returns the short transfers with at most maxN records on the wire.
func shapes(maxN int) []xferCase {
	var out []xferCase
	for r := 0; r+2 <= maxN; r++ {
		out = append(out, xferCase{Mode: "axfr", Zone: "example.", QID: 4660, Serial: 7, Recs: bodyRecs(r)})
		out = append(out, xferCase{Mode: "axfrstyle", Zone: "example.", QID: 4660, QSerial: 5, Serial: 7, Recs: bodyRecs(r)})
	}
	for d := 0; d <= 2; d++ {
		for a := 0; a <= 2; a++ {
			if 4+d+a <= maxN {
				out = append(out, xferCase{Mode: "ixfr", Zone: "example.", QID: 4660, QSerial: 5, Serial: 7,
					Diffs: []diffSpec{{From: 5, To: 7, Del: bodyRecs(d), Add: bodyRecs(a)}}})
			}
			if 6+d+a <= maxN {
				out = append(out, xferCase{Mode: "ixfr", Zone: "example.", QID: 4660, QSerial: 5, Serial: 7,
					Diffs: []diffSpec{{From: 5, To: 6, Del: bodyRecs(d)}, {From: 6, To: 7, Add: bodyRecs(a)}}})
			}
		}
	}
	if maxN >= 8 {
		out = append(out, xferCase{Mode: "ixfr", Zone: "example.", QID: 4660, QSerial: 4, Serial: 7,
			Diffs: []diffSpec{{From: 4, To: 5}, {From: 5, To: 6}, {From: 6, To: 7}}})
	}
	out = append(out, xferCase{Mode: "uptodate", Zone: "example.", QID: 4660, QSerial: 7, Serial: 7})
	return out
}

func compositions(n int, emit func([]int)) {
	if n == 0 {
		return
	}
	for mask := 0; mask < 1<<(n-1); mask++ {
		var sizes []int
		run := 1
		for g := 0; g < n-1; g++ {
			if mask&(1<<g) != 0 {
				sizes = append(sizes, run)
				run = 1
			} else {
				run++
			}
		}
		emit(append(sizes, run))
	}
}

func eachPartition(emit func(xferCase)) {
	maxN := 6
	if pbt.Thorough() {
		maxN = 10
	}
	for _, sh := range shapes(maxN) {
		n := len(sh.flat())
		compositions(n, func(sizes []int) {
			for _, ts := range []*tsigSpec{nil, enumKey} {
				c := sh
				c.Sizes = sizes
				c.Tsig = ts
				c.Sender = "harness"
				c.Trailer = true
				emit(c)
			}
		})
	}
}

func someSizes(n int) [][]int {
	one := make([]int, n)
	for i := range one {
		one[i] = 1
	}
	out := [][]int{{n}, one}
	if n >= 3 {
		out = append(out, []int{1, n - 2, 1})
	}
	return out
}

func streamLen(c xferCase) int {
	var mac []byte
	if c.Tsig != nil {
		mac = make([]byte, macLen(c.Tsig.Alg))
	}
	c.Fault = faultSpec{}
	c.Trailer = false
	return len(buildPlan(c, mac, 1).stream)
}

func eachCut(emit func(xferCase)) {
	maxN := 3
	if pbt.Thorough() {
		maxN = 6
	}
	for _, sh := range shapes(maxN) {
		n := len(sh.flat())
		for _, sizes := range someSizes(n) {
			for _, ts := range []*tsigSpec{nil, enumKey} {
				c := sh
				c.Sizes = sizes
				c.Tsig = ts
				c.Sender = "harness"
				total := streamLen(c)
				for k := 0; k < total; k++ {
					c.Fault = faultSpec{Kind: "cut", K: k}
					c.Trailer = k%2 == 1
					emit(c)
				}
			}
		}
	}
}

func eachAlter(emit func(xferCase)) {
	maxN := 3
	masks := []int{0x01}
	if pbt.Thorough() {
		maxN = 5
		masks = []int{0x01, 0x20, 0x80, 0xff}
	}
	for _, sh := range shapes(maxN) {
		n := len(sh.flat())
		for _, sizes := range someSizes(n) {
			c := sh
			c.Sizes = sizes
			c.Tsig = enumKey
			c.Sender = "harness"
			c.Trailer = true
			// the covered region of an envelope is shorter than the envelope; K is taken modulo the
			// region length, so running K up to the envelope length covers every covered octet
			frames := buildPlan(c, make([]byte, 32), 1).frames
			for j := range sizes {
				for k := 0; k < len(frames[j].b); k++ {
					for _, m := range masks {
						c.Fault = faultSpec{Kind: "alter", Env: j, K: k, Val: m}
						emit(c)
					}
				}
			}
		}
	}
}

// eachStall: the sender stops in the middle (or at an envelope boundary) and keeps the stream open:
// the receiver's read timeout must end the transfer with an error.
func eachStall(emit func(xferCase)) {
	for _, sh := range shapes(3) {
		n := len(sh.flat())
		for _, ts := range []*tsigSpec{nil, enumKey} {
			c := sh
			one := make([]int, n)
			for i := range one {
				one[i] = 1
			}
			c.Sizes = one
			c.Tsig = ts
			c.Sender = "harness"
			total := streamLen(c)
			first := 2 + len(buildPlan(c, make([]byte, 32), 1).frames[0].b)
			for _, k := range []int{0, 1, total / 2, total - 1, first % total} {
				c.Fault = faultSpec{Kind: "stall", K: k}
				emit(c)
			}
		}
	}
}

// eachExactSize: one envelope padded to exactly 65533..65535 octets on the wire (the largest message
// the length prefix can frame), first / middle / last envelope, every sender, with and without TSIG.
func eachExactSize(emit func(xferCase)) {
	for _, target := range []int{65535, 65534, 65533} {
		for _, ts := range []*tsigSpec{nil, enumKey} {
			for _, sender := range []string{"harness", "library", "libout"} {
				for at := 0; at <= 2; at++ {
					c := xferCase{Mode: "axfr", Zone: "example.", QID: 4660, Serial: 7, Sender: sender, Tsig: ts}
					c.Recs = bodyRecs(2)
					c.Recs = append(c.Recs[:at:at], append([]recSpec{{T: "FILL", Owner: "fill", V: 1}}, c.Recs[at:]...)...)
					c.Sizes = [][]int{{5}, {2, 2, 1}, {1, 1, 1, 1, 1}}[at]
					if !sizeFiller(&c, target) {
						panic("harness: cannot size the filler")
					}
					emit(c)
				}
			}
		}
		c := xferCase{Mode: "ixfr", Zone: "example.", QID: 4660, QSerial: 5, Serial: 7, Sender: "harness", Tsig: enumKey,
			Diffs: []diffSpec{{From: 5, To: 7, Del: bodyRecs(1), Add: []recSpec{{T: "FILL", Owner: "fill", V: 1}}}}, Sizes: []int{2, 1, 2, 1}}
		if sizeFiller(&c, target) {
			emit(c)
		}
	}
}

// eachSameConn: two or three requests (transfers and plain queries) over one connection to the
// sending server, read by the library and by the reference verifier.
func eachSameConn(emit func(xferCase)) {
	seqs := [][]string{{"xfr", "xfr"}, {"xfr", "query"}, {"query", "xfr"}, {"xfr", "xfr", "xfr"}, {"xfr", "query", "xfr"}, {"query", "query"}}
	for _, sh := range shapes(4) {
		n := len(sh.flat())
		for _, sizes := range someSizes(n) {
			for _, ts := range []*tsigSpec{nil, enumKey} {
				for _, sender := range []string{"library", "libout"} {
					for _, seq := range seqs {
						c := sh
						c.Sizes = sizes
						c.Tsig = ts
						c.Sender = sender
						c.Rounds = seq
						emit(c)
					}
				}
			}
		}
	}
}

// eachPaced: transfers that last longer than ReadTimeout although no envelope is late: a slow steady
// sender, and a slow consumer of the envelope channel (real time; kept to a handful of cases).
func eachPaced(emit func(xferCase)) {
	one := func(n int) []int {
		s := make([]int, n)
		for i := range s {
			s[i] = 1
		}
		return s
	}
	a := xferCase{Mode: "axfr", Zone: "example.", QID: 4660, Serial: 7, Recs: bodyRecs(3), Sender: "harness", Sizes: one(5), ReadTimeoutMs: 300, PaceMs: 100}
	emit(a)
	i := xferCase{Mode: "ixfr", Zone: "example.", QID: 4660, QSerial: 5, Serial: 7, Sender: "harness", Tsig: enumKey,
		Diffs: []diffSpec{{From: 5, To: 7, Del: bodyRecs(1), Add: bodyRecs(1)}}, Sizes: one(6), ReadTimeoutMs: 300, PaceMs: 80}
	emit(i)
	s := a
	s.PaceMs, s.ConsumerMs, s.Tsig = 0, 100, enumKey
	emit(s)
}

// eachDatagram: IXFR answered in one datagram of 400..4000 octets on a caller-supplied datagram
// conn, for every UDPSize setting (unset, small, large), with and without TSIG.
func eachDatagram(emit func(xferCase)) {
	for _, udp := range []int{0, 512, 600, 1232, 4096} {
		for _, target := range []int{400, 512, 513, 601, 1233, 4000, 4097} {
			for _, ts := range []*tsigSpec{nil, enumKey} {
				fill := recSpec{T: "FILL", Owner: "fill", V: 1}
				i := xferCase{Mode: "ixfr", Zone: "example.", QID: 4660, QSerial: 5, Serial: 7, Sender: "harness", Tsig: ts, Transport: "dgram", UDPSize: udp,
					Diffs: []diffSpec{{From: 5, To: 7, Del: bodyRecs(1), Add: []recSpec{{T: "A", Owner: "n", V: 3}, fill}}}, Sizes: []int{7}}
				a := xferCase{Mode: "axfrstyle", Zone: "example.", QID: 4660, QSerial: 5, Serial: 7, Sender: "harness", Tsig: ts, Transport: "dgram", UDPSize: udp,
					Recs: append(bodyRecs(2), fill), Sizes: []int{5}}
				for _, c := range []xferCase{i, a} {
					if sizeFiller(&c, target) {
						emit(c)
					}
				}
			}
		}
		emit(xferCase{Mode: "uptodate", Zone: "example.", QID: 4660, QSerial: 7, Serial: 7, Sender: "harness", Transport: "dgram", UDPSize: udp, Sizes: []int{1}})
	}
}

// eachSlowProducer: the producer behind Transfer.Out needs a few seconds for the last envelope; the
// reference receiver reads the Time Signed of every envelope (real time: one case in quick).
func eachSlowProducer(emit func(xferCase)) {
	emit(xferCase{Mode: "axfr", Zone: "example.", QID: 4660, Serial: 7, Recs: bodyRecs(2), Sizes: []int{2, 2}, Sender: "libout", Tsig: enumKey, ProducerMs: 2200})
	if pbt.Thorough() {
		emit(xferCase{Mode: "ixfr", Zone: "example.", QID: 4661, QSerial: 5, Serial: 7, Sender: "libout", Tsig: enumKey, ProducerMs: 2200,
			Diffs: []diffSpec{{From: 5, To: 7, Del: bodyRecs(1), Add: bodyRecs(1)}}, Sizes: []int{1, 3, 2}, Rounds: []string{"query", "xfr"}})
	}
}

// eachDialAndBadRequest: Transfer.In dialling itself (a listening harness / nobody listening) and
// requests that cannot be signed or encoded.
func eachDialAndBadRequest(emit func(xferCase)) {
	for _, sh := range shapes(4) {
		n := len(sh.flat())
		for _, ts := range []*tsigSpec{nil, enumKey} {
			c := sh
			c.Sizes = someSizes(n)[len(someSizes(n))-1]
			c.Tsig = ts
			c.Sender = "harness"
			for _, d := range []string{"tcp", "refused"} {
				x := c
				x.Dial = d
				emit(x)
			}
			x := c
			x.Dial = "tcp"
			x.Fault = faultSpec{Kind: "cut", K: 2 + len(packEnvelope(c, 0, c.envelopes()[0])) + c.tsigRRLen()}
			emit(x)
			for _, b := range []string{"nokey", "badalg", "longlabel"} {
				if ts == nil && b != "longlabel" {
					continue
				}
				y := c
				y.BadRequest = b
				emit(y)
			}
		}
	}
}

// eachMacLen: the MAC of the first, a middle and the last envelope replaced by every generated length
// (0, 1, 9, 10, half, full-1, full+1, full+4), with and without forged records under an empty MAC,
// for every HMAC algorithm.
func eachMacLen(emit func(xferCase)) {
	for _, alg := range algs {
		ts := &tsigSpec{KeyName: "xfr-key.", Alg: alg, Secret: []byte("0123456789abcdef")}
		for _, sh := range shapes(3) {
			n := len(sh.flat())
			for _, sizes := range someSizes(n) {
				for j := range sizes {
					for v := 0; v < 8; v++ {
						for k := 0; k < 2; k++ {
							if k == 1 && v != 0 {
								continue
							}
							c := sh
							c.Sizes, c.Tsig, c.Sender, c.Trailer = sizes, ts, "harness", true
							c.Fault = faultSpec{Kind: "maclen", Env: j, K: k, Val: v}
							emit(c)
						}
					}
				}
			}
		}
	}
}

// eachQuestionSpelling: the request spells the zone name differently from the sender (upper / lower /
// mixed case either way round, \DDD and \c escapes): every short shape, three compositions, with and
// without TSIG, every sender. The transfer must end exactly at the closing SOA all the same.
func eachQuestionSpelling(emit func(xferCase)) {
	spell := [][2]string{ // zone as served, zone as asked
		{"example.", "EXAMPLE."}, {"example.", "Example."}, {"Example.ORG.", "example.org."}, {"EXAMPLE.ORG.", "example.ORG."},
		{"example.", "ex\\097mple."}, {"example.", "\\e\\088ample."}, {"z.", "Z."},
	}
	for _, sh := range shapes(4) {
		n := len(sh.flat())
		for _, sizes := range someSizes(n) {
			for _, ts := range []*tsigSpec{nil, enumKey} {
				for k, sp := range spell {
					for _, sender := range []string{"harness", "library", "libout"} {
						if sender != "harness" && k%3 != 0 {
							continue
						}
						c := sh
						c.Zone, c.QName = sp[0], sp[1]
						c.Sizes, c.Tsig, c.Sender = sizes, ts, sender
						c.Trailer = sender == "harness"
						emit(c)
					}
				}
			}
		}
	}
}

var enumKey2 = &tsigSpec{KeyName: "other.", Alg: dns.HmacSHA1, Secret: []byte("another-secret-of-the-receiver")}

// eachOtherKey: the receiver holds two keys, the transfer is requested with the first; every envelope
// in turn is signed - chained and timed correctly - with the second key (algorithm of the request / its
// own), or with the right key under another algorithm (classed only). Plus the fault-free transfer.
func eachOtherKey(emit func(xferCase)) {
	for _, sh := range shapes(3) {
		n := len(sh.flat())
		for _, sizes := range someSizes(n) {
			c := sh
			c.Sizes, c.Tsig, c.OtherKey, c.Sender, c.Trailer = sizes, enumKey, enumKey2, "harness", true
			emit(c)
			for j := range sizes {
				for v := 0; v < 3; v++ {
					c.Fault = faultSpec{Kind: "otherkey", Env: j, K: j, Val: v}
					if c.Fault.otherKeyMust() && pbt.Known(knownOtherKey) {
						pbt.Excluded(knownOtherKey)
						continue
					}
					emit(c)
				}
			}
		}
	}
}

// eachReuse: two or three transfers with ONE dns.Transfer value (a fresh connection each time, or - with
// the library as sender - successive requests on one connection), with and without TSIG; the last one
// fault-free or cut in the middle.
func eachReuse(emit func(xferCase)) {
	for _, sh := range shapes(4) {
		n := len(sh.flat())
		sz := someSizes(n)
		for _, sizes := range [][]int{sz[0], sz[len(sz)-1]} {
			for _, ts := range []*tsigSpec{nil, enumKey} {
				c := sh
				c.Sizes, c.Tsig = sizes, ts
				if c.reuseTimersClass2() && pbt.Known(knownReuse) {
					pbt.Excluded(knownReuse)
					continue
				}
				for reuse := 1; reuse <= 2; reuse++ {
					h := c
					h.Sender, h.Reuse = "harness", reuse
					emit(h)
					h.Fault = faultSpec{Kind: "cut", K: streamLen(h) / 2}
					emit(h)
				}
				for _, seq := range [][]string{{"xfr", "xfr"}, {"xfr", "query", "xfr"}} {
					l := c
					l.Sender, l.Reuse, l.Rounds = "library", 1, seq
					emit(l)
				}
			}
		}
	}
}

// eachHeaderFault: a foreign ID and an error RCODE in EVERY envelope in turn (first, each middle one,
// the closing one) of every short shape - AXFR and IXFR questions, three compositions, with and without
// TSIG; the RCODE both with the envelope's records kept and with an empty answer section.
func eachHeaderFault(emit func(xferCase)) {
	for _, sh := range shapes(4) {
		n := len(sh.flat())
		for _, sizes := range someSizes(n) {
			for _, ts := range []*tsigSpec{nil, enumKey} {
				for j := range sizes {
					c := sh
					c.Sizes, c.Tsig, c.Sender, c.Trailer = sizes, ts, "harness", true
					for _, x := range []int{1, 0x0100, 0xffff} {
						c.Fault = faultSpec{Kind: "id", Env: j, Val: x}
						emit(c)
					}
					for _, rc := range []int{dns.RcodeServerFailure, dns.RcodeRefused, dns.RcodeNotAuth} {
						for k := 0; k < 2; k++ {
							c.Fault = faultSpec{Kind: "rcode", Env: j, K: k, Val: rc - 1}
							if c.Fault.rcodeLaterAxfr(c.Mode, len(sizes)) && pbt.Known(knownRcodeLater) {
								pbt.Excluded(knownRcodeLater)
								continue
							}
							emit(c)
						}
					}
				}
			}
		}
	}
}

// eachRecordType: every type of the layout table in a zone / a difference sequence, in an envelope that
// is NOT the last one (one record per envelope, two envelopes, one envelope), with and without TSIG,
// received from the harness and from the library's own sender. What the caller holds when the channel
// is closed must be what was sent.
func eachRecordType(emit func(xferCase)) {
	for k, r := range fixedTyped() {
		a := recSpec{T: "A", Owner: "www", V: uint32(k)}
		ax := xferCase{Mode: "axfr", Zone: "example.", QID: 4660, Serial: 7, Recs: []recSpec{r, a}}
		ix := xferCase{Mode: "ixfr", Zone: "example.", QID: 4660, QSerial: 5, Serial: 7,
			Diffs: []diffSpec{{From: 5, To: 7, Del: []recSpec{r}, Add: []recSpec{r, a}}}}
		for _, ts := range []*tsigSpec{nil, enumKey} {
			for i, sizes := range [][]int{{1, 1, 1, 1}, {2, 2}, {4}} {
				c := ax
				c.Sizes, c.Tsig, c.Sender, c.Trailer = sizes, ts, "harness", true
				emit(c)
				if i == 1 {
					c.Sender, c.Trailer = "library", false
					emit(c)
				}
			}
			for _, sizes := range [][]int{{1, 1, 1, 1, 1, 1, 1}, {3, 4}} {
				c := ix
				c.Sizes, c.Tsig, c.Sender, c.Trailer = sizes, ts, "harness", true
				emit(c)
			}
		}
	}
}

// eachChainFault: the MAC chain of RFC 8945 5.3.1 broken at every envelope of every composition of every
// short shape, in every way the position allows - the first envelope digested with the timers only or
// without the request MAC; a later envelope digested with ALL the TSIG variables, chained to the request
// MAC, or chained to the envelope before the previous one. The compositions include the opening SOA alone
// in its envelope with more envelopes behind it (then envelope 1 is the first timers-only one).
func eachChainFault(emit func(xferCase)) {
	for _, sh := range shapes(5) {
		compositions(len(sh.flat()), func(sizes []int) {
			for j := range sizes {
				vals := []int{2, 3}
				if j >= 1 {
					vals = []int{0, 1}
				}
				if j >= 2 {
					vals = append(vals, 4)
				}
				for _, v := range vals {
					c := sh
					c.Sizes, c.Tsig, c.Sender, c.Trailer = sizes, enumKey, "harness", j%2 == 0
					c.Fault = faultSpec{Kind: "chain", Env: j, Val: v}
					emit(c)
				}
			}
		})
	}
}

// eachKeyRollOver: the key name of the transfer had another secret before and a transfer was made with
// it (another dns.Transfer value). Afterwards: fault-free transfers from all three senders, and every
// envelope in turn signed with the EARLIER secret (must be refused) - short shapes x three compositions.
func eachKeyRollOver(emit func(xferCase)) {
	old := []byte("the-secret-this-key-name-had-before")
	for _, sh := range shapes(4) {
		for _, sizes := range someSizes(len(sh.flat())) {
			c := sh
			c.Sizes, c.Tsig, c.RolledFrom, c.Sender, c.Trailer = sizes, enumKey, old, "harness", true
			emit(c)
			for j := range sizes {
				f := c
				f.Fault = faultSpec{Kind: "wrongkey", Env: j, Val: 2}
				emit(f)
			}
			c.Trailer = false
			c.Sender = "library"
			emit(c)
			c.Sender = "libout"
			emit(c)
		}
	}
}

// eachQuestionOmitted: a sender other than this library - RFC 5936 2.2.1/2.2.2 requires the question section
// in the FIRST message of the answer only. Every composition of every short shape (<= 5 records; AXFR and
// IXFR questions) x every non-empty subset of the later envelopes sent with QDCOUNT 0 x with and without
// TSIG; a trailer behind the closing SOA (following the same rule) must not be delivered.
func eachQuestionOmitted(emit func(xferCase)) {
	for _, sh := range shapes(5) {
		compositions(len(sh.flat()), func(sizes []int) {
			for mask := uint32(1); mask < 1<<uint(len(sizes)-1); mask++ {
				for _, ts := range []*tsigSpec{nil, enumKey} {
					c := sh
					c.Sizes, c.Tsig, c.Sender, c.NoQuestion = sizes, ts, "harness", mask
					c.Trailer = mask%2 == 1
					if c.Trailer {
						c.NoQuestion |= 1 << uint(len(sizes)-1) // the trailer is written by the same sender
					}
					emit(c)
				}
			}
		})
	}
}

// eachTsigSpelling: the sender writes the key name / the algorithm name of its TSIG records in another
// letter case than the receiver's key set and request (the same domain names): short shapes x three
// compositions, fault-free, plus - under the other spelling - every envelope in turn signed with a wrong
// secret (must still be refused).
func eachTsigSpelling(emit func(xferCase)) {
	spell := [][2]string{{"XFR-KEY.", ""}, {"Xfr-Key.", ""}, {"", "HMAC-SHA256."}, {"xfr-KEY.", "Hmac-Sha256."}}
	for _, sh := range shapes(4) {
		for _, sizes := range someSizes(len(sh.flat())) {
			for _, sp := range spell {
				if sp[0] != "" && pbt.Known(knownKeyCase) {
					pbt.Excluded(knownKeyCase)
					continue
				}
				c := sh
				c.Sizes, c.Tsig, c.Sender, c.Trailer = sizes, enumKey, "harness", true
				c.KeyNameSent, c.AlgSent = sp[0], sp[1]
				emit(c)
				for j := range sizes {
					f := c
					f.Fault = faultSpec{Kind: "wrongkey", Env: j, Val: 2}
					emit(f)
				}
			}
		}
	}
}

func init() {
	pbt.RegisterEnum(pbt.Enum[xferCase]{Name: "question-only-in-first-envelope", Exhaustive: true, Each: eachQuestionOmitted, Check: checkXfer})
	pbt.RegisterEnum(pbt.Enum[xferCase]{Name: "tsig-name-spelling", Each: eachTsigSpelling, Check: checkXfer})

	// known finding (round 10): the secret is looked up under the key name of the RECEIVED TSIG letter for
	// letter; a sender that writes the key name in another letter case (the same domain name; the digest takes
	// it in canonical form) has its correctly keyed envelopes refused with ErrSecret.
	pbt.Probe(knownKeyCase, func() error {
		c := xferCase{Mode: "axfr", Zone: "example.", QID: 4660, Serial: 7, Recs: []recSpec{{T: "A", Owner: "www", V: 1}}, Sizes: []int{2, 1}, Sender: "harness",
			Tsig: &tsigSpec{KeyName: "one.keys.example.", Alg: dns.HmacSHA256, Secret: []byte("secret-of-the-axfr-key")}, KeyNameSent: "One.Keys.Example."}
		if why := c.valid(); why != "" {
			return nil
		}
		r, _, err := runHarnessSender(c)
		if err != nil {
			return nil // the harness could not run the history: nothing known about the finding
		}
		if err := checkComplete(c, r); err != nil {
			return pbt.Errf("Transfer.TsigSecret = {one.keys.example.}, AXFR requested with that key, envelopes [SOA A] [SOA] signed per RFC 8945 with the TSIG owner written One.Keys.Example.: %v", err)
		}
		return nil
	})

	pbt.RegisterEnum(pbt.Enum[xferCase]{Name: "mac-chain-every-envelope", Exhaustive: true, Each: eachChainFault, Check: checkXfer})
	pbt.RegisterEnum(pbt.Enum[xferCase]{Name: "key-roll-over", Each: eachKeyRollOver, Check: checkXfer})
	pbt.RegisterEnum(pbt.Enum[xferCase]{Name: "record-types", Each: eachRecordType, Check: checkXfer})
	pbt.RegisterEnum(pbt.Enum[xferCase]{Name: "header-fault-every-envelope", Exhaustive: true, Each: eachHeaderFault, Check: checkXfer})

	// known finding (round 8): inAxfr checks the RCODE of the first envelope only (inIxfr checks every
	// one). Breaker's input: AXFR answered with [SOA A] rcode 0, then an envelope with rcode SERVFAIL,
	// then [SOA]: delivered as error-free envelopes and reported complete.
	pbt.Probe(knownRcodeLater, func() error {
		for _, emptied := range []int{1, 0} {
			c := xferCase{Mode: "axfr", Zone: "example.", QID: 4660, Serial: 7, Recs: []recSpec{{T: "A", Owner: "www", V: 1}, {T: "A", Owner: "r1", V: 2}}, Sizes: []int{2, 1, 1}, Sender: "harness",
				Fault: faultSpec{Kind: "rcode", Env: 1, K: emptied, Val: dns.RcodeServerFailure - 1}}
			if why := c.valid(); why != "" {
				return nil
			}
			r, p, err := runHarnessSender(c)
			if err != nil {
				return nil // the harness could not run the history: nothing known about the finding
			}
			if err := checkFaulty(c, p, r); err != nil {
				return pbt.Errf("AXFR answered with envelope 0 = [SOA A] rcode 0, envelope 1 = rcode SERVFAIL (answer section emptied: %v), envelope 2 = [SOA]: %v", emptied == 1, err)
			}
		}
		return nil
	})

	pbt.RegisterEnum(pbt.Enum[xferCase]{Name: "other-configured-key", Each: eachOtherKey, Check: checkXfer})
	pbt.RegisterEnum(pbt.Enum[xferCase]{Name: "reused-transfer", Each: eachReuse, Check: checkXfer})
	pbt.RegisterEnum(pbt.Enum[xferCase]{Name: "question-spelling", Each: eachQuestionSpelling, Check: checkXfer})
	pbt.RegisterEnum(pbt.Enum[xferCase]{Name: "mac-length", Exhaustive: true, Each: eachMacLen, Check: checkXfer})
	pbt.RegisterEnum(pbt.Enum[xferCase]{Name: "dial-and-bad-request", Each: eachDialAndBadRequest, Check: checkXfer})
	pbt.RegisterEnum(pbt.Enum[xferCase]{Name: "slow-producer", Each: eachSlowProducer, Check: checkXfer})
	pbt.RegisterEnum(pbt.Enum[xferCase]{Name: "ixfr-datagram", Each: eachDatagram, Check: checkXfer})
	pbt.RegisterEnum(pbt.Enum[xferCase]{Name: "paced", Each: eachPaced, Check: checkXfer})
	pbt.RegisterEnum(pbt.Enum[xferCase]{Name: "exact-size", Each: eachExactSize, Check: checkXfer})
	pbt.RegisterEnum(pbt.Enum[xferCase]{Name: "same-connection", Each: eachSameConn, Check: checkXfer})
	pbt.RegisterEnum(pbt.Enum[xferCase]{Name: "stall", Each: eachStall, Check: checkXfer})
	pbt.RegisterEnum(pbt.Enum[xferCase]{Name: "all-partitions", Exhaustive: true, Each: eachPartition, Check: checkXfer})
	pbt.RegisterEnum(pbt.Enum[xferCase]{Name: "cut-every-octet", Exhaustive: true, Each: eachCut, Check: checkXfer})
	pbt.RegisterEnum(pbt.Enum[xferCase]{Name: "alter-every-octet", Exhaustive: true, Each: eachAlter, Check: checkXfer})

	// known finding (round 7): an envelope signed with another key of the receiver's key set passes.
	// Breaker's input: TsigSecret = {axfr.: s1, other.: s2}, request signed with axfr., the single
	// envelope [SOA, A, SOA] signed with other. (its secret, over the request MAC).
	pbt.Probe(knownOtherKey, func() error {
		c := xferCase{Mode: "axfr", Zone: "example.", QID: 4660, Serial: 7, Recs: []recSpec{{T: "A", Owner: "www", V: 1}}, Sizes: []int{3}, Sender: "harness",
			Tsig:     &tsigSpec{KeyName: "axfr.", Alg: dns.HmacSHA256, Secret: []byte("secret-of-the-axfr-key")},
			OtherKey: &tsigSpec{KeyName: "other.", Alg: dns.HmacSHA256, Secret: []byte("secret-of-the-other-key")},
			Fault:    faultSpec{Kind: "otherkey", Env: 0, Val: 0}}
		if why := c.valid(); why != "" {
			return nil
		}
		r, p, err := runHarnessSender(c)
		if err != nil {
			return nil // the harness could not run the history: nothing known about the finding
		}
		if err := checkFaulty(c, p, r); err != nil {
			return pbt.Errf("Transfer.TsigSecret = {axfr., other.}, AXFR requested with key axfr., the only envelope [SOA A SOA] signed with key other.: %v", err)
		}
		return nil
	})

	// known finding (round 7): Transfer.tsigTimersOnly survives the transfer; the next request made with
	// the same Transfer value is digested timers-only, which no RFC 8945 server accepts.
	pbt.Probe(knownReuse, func() error {
		c := xferCase{Mode: "axfr", Zone: "example.", QID: 4660, Serial: 7, Recs: []recSpec{{T: "A", Owner: "www", V: 1}}, Sizes: []int{3}, Sender: "harness",
			Tsig: &tsigSpec{KeyName: "axfr.", Alg: dns.HmacSHA256, Secret: []byte("secret-of-the-axfr-key")}, Reuse: 1}
		if why := c.valid(); why != "" {
			return nil
		}
		r, _, err := runHarnessSender(c)
		if err == nil {
			err = checkComplete(c, r)
		}
		if err != nil {
			return pbt.Errf("two signed AXFRs [SOA A SOA] with one dns.Transfer value, a fresh connection each: %v", err)
		}
		return nil
	})

	// known finding: serial comparison without RFC 1982 arithmetic
	pbt.Probe(knownWrap, func() error {
		c := xferCase{Mode: "ixfr", Zone: "z.", QID: 7, QSerial: 4294967290, Serial: 3, Sender: "harness",
			Diffs: []diffSpec{{From: 4294967290, To: 3, Del: []recSpec{{T: "A", Owner: "old", V: 1}}, Add: []recSpec{{T: "A", Owner: "new", V: 2}}}},
			Sizes: []int{1, 5}}
		r, _, err := runHarnessSender(c)
		if err != nil {
			return err
		}
		if checkComplete(c, r) != nil {
			n := 0
			for _, e := range r.envs {
				n += len(e.RR)
			}
			return pbt.Errf("IXFR serial 4294967290 -> 3 in envelopes of 1+5 records: %d of 6 records delivered, first error %v", n, firstErr(r))
		}
		u := xferCase{Mode: "uptodate", Zone: "z.", QID: 7, QSerial: 3, Serial: 4294967290, Sender: "harness", Sizes: []int{1}}
		if r, _, err = runHarnessSender(u); err != nil {
			return err
		}
		if checkComplete(u, r) != nil {
			return pbt.Errf("single-SOA answer 4294967290 to request serial 3: first error %v", firstErr(r))
		}
		return nil
	})
}
