package c15

// Reference TSIG signer / verifier written from RFC 8945 (§4.2 record layout, §4.3 digest
// components, §5.3.1 multi-message responses) with the Go standard library only. It never calls
// into tsig.go, so that every fault of the C15 fault list can be injected on the sending side and
// the sending side of the library can be verified independently.

import (
	"crypto/hmac"
	"crypto/sha1"
	"crypto/sha256"
	"crypto/sha512"
	"encoding/binary"
	"errors"
	"hash"
	"strings"
)

type tsigKey struct {
	Name   string // plain labels, fully qualified, e.g. "xfr-key."
	Alg    string // "hmac-sha256." …
	Secret []byte
}

func newHMAC(alg string, secret []byte) hash.Hash {
	switch strings.ToLower(alg) {
	case "hmac-sha1.":
		return hmac.New(sha1.New, secret)
	case "hmac-sha224.":
		return hmac.New(sha256.New224, secret)
	case "hmac-sha256.":
		return hmac.New(sha256.New, secret)
	case "hmac-sha384.":
		return hmac.New(sha512.New384, secret)
	case "hmac-sha512.":
		return hmac.New(sha512.New, secret)
	}
	panic("harness: unknown TSIG algorithm " + alg)
}

func macLen(alg string) int { return newHMAC(alg, nil).Size() }

// encName encodes a name made of plain labels (no escapes) in wire format; lower selects the
// canonical (lower-case) form used inside the digest.
func encName(s string, lower bool) []byte {
	if lower {
		s = strings.ToLower(s)
	}
	var out []byte
	for _, l := range strings.Split(strings.TrimSuffix(s, "."), ".") {
		if l == "" {
			continue
		}
		out = append(out, byte(len(l)))
		out = append(out, l...)
	}
	return append(out, 0)
}

func put16(b []byte, v uint16) []byte { return binary.BigEndian.AppendUint16(b, v) }
func put48(b []byte, v uint64) []byte {
	return append(b, byte(v>>40), byte(v>>32), byte(v>>24), byte(v>>16), byte(v>>8), byte(v))
}

type signOpts struct {
	prior      []byte // request MAC (first message) or MAC of the previous message; nil: none
	timersOnly bool   // RFC 8945 §5.3.1: subsequent messages digest only time signed + fudge
	now        uint64
	fudge      uint16
}

// tsigDigest computes the MAC over: [len16|prior MAC] | message (ID = original ID, ARCOUNT without
// the TSIG) | TSIG variables or timers.
func tsigDigest(msg []byte, key tsigKey, keyNameOnWire string, o signOpts) []byte {
	h := newHMAC(key.Alg, key.Secret)
	if o.prior != nil {
		h.Write(put16(nil, uint16(len(o.prior))))
		h.Write(o.prior)
	}
	h.Write(msg)
	var v []byte
	if o.timersOnly {
		v = put48(v, o.now)
		v = put16(v, o.fudge)
	} else {
		v = append(v, encName(keyNameOnWire, true)...)
		v = put16(v, 255)         // CLASS ANY
		v = append(v, 0, 0, 0, 0) // TTL 0
		v = append(v, encName(key.Alg, true)...)
		v = put48(v, o.now)
		v = put16(v, o.fudge)
		v = put16(v, 0) // error
		v = put16(v, 0) // other len
	}
	h.Write(v)
	return h.Sum(nil)
}

// tsigSign returns msg with a TSIG RR appended (ARCOUNT+1), the MAC, and the offset of the TSIG RR.
// msg is a complete DNS message without TSIG.
func tsigSign(msg []byte, key tsigKey, keyNameOnWire string, o signOpts) (out, mac []byte, tsigOff int) {
	mac = tsigDigest(msg, key, keyNameOnWire, o)
	out, tsigOff = tsigAppend(msg, key, keyNameOnWire, o, mac)
	return
}

// tsigAppend appends a TSIG RR carrying the given MAC octets (whatever their number; MAC Size and
// RDLENGTH follow) to msg.
func tsigAppend(msg []byte, key tsigKey, keyNameOnWire string, o signOpts, mac []byte) (out []byte, tsigOff int) {
	out = append([]byte{}, msg...)
	binary.BigEndian.PutUint16(out[10:], binary.BigEndian.Uint16(out[10:])+1)
	tsigOff = len(out)
	var rd []byte
	rd = append(rd, encName(key.Alg, false)...)
	rd = put48(rd, o.now)
	rd = put16(rd, o.fudge)
	rd = put16(rd, uint16(len(mac)))
	rd = append(rd, mac...)
	rd = append(rd, msg[0], msg[1]) // original ID
	rd = put16(rd, 0)               // error
	rd = put16(rd, 0)               // other len
	out = append(out, encName(keyNameOnWire, false)...)
	out = put16(out, 250) // TSIG
	out = put16(out, 255) // ANY
	out = append(out, 0, 0, 0, 0)
	out = put16(out, uint16(len(rd)))
	out = append(out, rd...)
	return
}

// ---------------------------------------------------------------------------------------------
// minimal wire walker to find the TSIG RR of a message produced by the library

var errWire = errors.New("harness: malformed wire message")

func skipName(b []byte, off int) (int, error) {
	for {
		if off >= len(b) {
			return 0, errWire
		}
		c := int(b[off])
		switch {
		case c == 0:
			return off + 1, nil
		case c&0xc0 == 0xc0:
			if off+2 > len(b) {
				return 0, errWire
			}
			return off + 2, nil
		case c&0xc0 != 0:
			return 0, errWire
		default:
			off += 1 + c
		}
	}
}

// readPlainName reads an uncompressed name and renders its labels joined by dots (plain labels only).
func readPlainName(b []byte, off int) (string, int, error) {
	var labs []string
	for {
		if off >= len(b) {
			return "", 0, errWire
		}
		c := int(b[off])
		if c == 0 {
			return strings.Join(labs, ".") + ".", off + 1, nil
		}
		if c&0xc0 != 0 || off+1+c > len(b) {
			return "", 0, errWire
		}
		labs = append(labs, string(b[off+1:off+1+c]))
		off += 1 + c
	}
}

type wireTsig struct {
	Off      int // offset of the TSIG RR (owner name)
	KeyName  string
	Class    uint16
	TTL      uint32
	Alg      string
	Time     uint64
	Fudge    uint16
	MAC      []byte
	MacOff   int
	TimeOff  int
	OrigID   uint16
	Error    uint16
	OtherLen uint16
	Counts   [4]uint16
	AnOff    int // offset of the first answer RR
}

// findTsig walks a message; ok=false if its last additional record is not a TSIG.
func findTsig(b []byte) (t wireTsig, ok bool, err error) {
	if len(b) < 12 {
		return t, false, errWire
	}
	for i := 0; i < 4; i++ {
		t.Counts[i] = binary.BigEndian.Uint16(b[4+2*i:])
	}
	off := 12
	for i := 0; i < int(t.Counts[0]); i++ {
		if off, err = skipName(b, off); err != nil {
			return
		}
		off += 4
	}
	t.AnOff = off
	n := int(t.Counts[1]) + int(t.Counts[2]) + int(t.Counts[3])
	for i := 0; i < n; i++ {
		start := off
		if off, err = skipName(b, off); err != nil {
			return
		}
		if off+10 > len(b) {
			return t, false, errWire
		}
		typ := binary.BigEndian.Uint16(b[off:])
		cls := binary.BigEndian.Uint16(b[off+2:])
		ttl := binary.BigEndian.Uint32(b[off+4:])
		rdl := int(binary.BigEndian.Uint16(b[off+8:]))
		rd := off + 10
		if rd+rdl > len(b) {
			return t, false, errWire
		}
		off = rd + rdl
		if i == n-1 && typ == 250 && t.Counts[3] > 0 {
			t.Off, t.Class, t.TTL = start, cls, ttl
			if t.KeyName, _, err = readPlainName(b, start); err != nil {
				return
			}
			var p int
			if t.Alg, p, err = readPlainName(b, rd); err != nil {
				return
			}
			if p+10 > off {
				return t, false, errWire
			}
			t.TimeOff = p
			t.Time = uint64(b[p])<<40 | uint64(b[p+1])<<32 | uint64(b[p+2])<<24 | uint64(b[p+3])<<16 | uint64(b[p+4])<<8 | uint64(b[p+5])
			t.Fudge = binary.BigEndian.Uint16(b[p+6:])
			ml := int(binary.BigEndian.Uint16(b[p+8:]))
			p += 10
			if p+ml+6 > off {
				return t, false, errWire
			}
			t.MacOff = p
			t.MAC = append([]byte{}, b[p:p+ml]...)
			p += ml
			t.OrigID = binary.BigEndian.Uint16(b[p:])
			t.Error = binary.BigEndian.Uint16(b[p+2:])
			t.OtherLen = binary.BigEndian.Uint16(b[p+4:])
			if p+6+int(t.OtherLen) != off {
				return t, false, errWire
			}
			ok = true
		}
	}
	if off != len(b) {
		return t, false, errWire
	}
	return
}

// refVerify checks the TSIG of one received message against the reference digest. It returns the
// MAC carried by the message.
func refVerify(b []byte, key tsigKey, prior []byte, timersOnly bool) ([]byte, error) {
	t, ok, err := findTsig(b)
	if err != nil {
		return nil, err
	}
	if !ok {
		return nil, errors.New("no TSIG as last additional record")
	}
	if !strings.EqualFold(t.KeyName, key.Name) || !strings.EqualFold(t.Alg, key.Alg) {
		return nil, errors.New("TSIG key/algorithm name differs: " + t.KeyName + " " + t.Alg)
	}
	if t.Class != 255 || t.TTL != 0 || t.Error != 0 || t.OtherLen != 0 {
		return nil, errors.New("TSIG RR class/ttl/error/other not ANY/0/0/0")
	}
	pre := append([]byte{}, b[:t.Off]...)
	binary.BigEndian.PutUint16(pre[10:], t.Counts[3]-1)
	binary.BigEndian.PutUint16(pre[0:], t.OrigID)
	want := tsigDigest(pre, key, t.KeyName, signOpts{prior: prior, timersOnly: timersOnly, now: t.Time, fudge: t.Fudge})
	if !hmac.Equal(want, t.MAC) {
		return t.MAC, errors.New("MAC differs from the RFC 8945 digest")
	}
	return t.MAC, nil
}
