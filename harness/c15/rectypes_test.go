package c15

// Round 8: zones made of records of EVERY type of the layout table (harness/wiremodel), not just the
// seven plain ones. "Delivers exactly the transmitted records" is a statement about what the caller
// holds when the transfer has ENDED: a record handed out through the channel must still read the same
// after the following envelopes were received. A receiver that decodes every envelope out of one
// long-lived buffer is only correct while every RDATA decoder copies what it keeps (addresses,
// SvcParam values, APL prefixes, bitmaps, opaque octets ...), so the zones carry all of those.
//
// A generated record is kept in the case as (type code, uncompressed RDATA octets); the library
// value that is sent is decoded from a private buffer of the harness that is never written again.

import (
	"encoding/binary"
	"fmt"
	"sort"

	"github.com/miekg/dns"
	"pgregory.net/rapid"

	"verif/harness/gen"
	wm "verif/harness/wiremodel"
)

// genTypes: every type of the layout table that can stand in a zone body. Not: SOA (the transfer's own
// delimiter), OPT / TSIG (meta records of a message), ANY / NXNAME (no RDATA layout), the harness's
// private type.
var genTypes []uint16

// aliasProne: the types whose library structs hold slices (net.IP, []byte, []uint16, lists of
// values) - drawn more often.
var aliasProne = []uint16{wm.TA, wm.TAAAA, wm.TSVCB, wm.THTTPS, wm.TSVCB, wm.THTTPS, wm.TAPL, wm.TIPSECKEY, wm.TAMTRELAY, wm.TL32,
	wm.THIP, wm.TNSEC, wm.TNSEC3, wm.TCSYNC, wm.TTXT, wm.TNULL, wm.TNXT}

// unknownTypes: RFC 3597 records (opaque RDATA).
var unknownTypes = []uint16{1000, 65279, 32770}

func init() {
	for _, t := range gen.AllTypes {
		switch t {
		case wm.TSOA, wm.TOPT, wm.TTSIG, wm.TANY, wm.TNXNAME, wm.TPrivate:
		default:
			genTypes = append(genTypes, t)
		}
	}
	sort.Slice(genTypes, func(i, j int) bool { return genTypes[i] < genTypes[j] })
}

func genTypeOK(t uint16) bool {
	for _, x := range unknownTypes {
		if x == t {
			return true
		}
	}
	i := sort.Search(len(genTypes), func(i int) bool { return genTypes[i] >= t })
	return i < len(genTypes) && genTypes[i] == t
}

// genRR decodes the library value of a generated record from a fresh private buffer.
func genRR(owner string, ty uint16, rd []byte) (dns.RR, error) {
	if !genTypeOK(ty) {
		return nil, fmt.Errorf("type %d cannot stand in a zone body", ty)
	}
	n, _, err := wm.UnescName(owner)
	if err != nil || !n.Valid() {
		return nil, fmt.Errorf("owner %q", owner)
	}
	b := wm.EncodeName(n)
	b = binary.BigEndian.AppendUint16(b, ty)
	b = binary.BigEndian.AppendUint16(b, dns.ClassINET)
	b = binary.BigEndian.AppendUint32(b, 3600)
	b = binary.BigEndian.AppendUint16(b, uint16(len(rd)))
	b = append(b, rd...)
	rr, off, err := dns.UnpackRR(b, 0)
	if err != nil {
		return nil, err
	}
	if off != len(b) {
		return nil, fmt.Errorf("RDATA not consumed (%d of %d)", off, len(b))
	}
	return rr, nil
}

// stableOnWire: the domain of the transfer check. The record can be sent (packs, with and without
// compression), and decoding what was sent out of a private buffer reads like the record itself.
// Whether the codec is right about such a record is C01's question; what is asked here is only that
// the transfer delivers what a plain decode of the same octets delivers.
func stableOnWire(ty uint16, rd []byte) bool {
	if len(rd) == 0 || len(rd) > 600 {
		return false
	}
	rr, err := genRR("r1.example.", ty, rd)
	if err != nil {
		return false
	}
	want := rr.String()
	for _, compress := range []bool{false, true} {
		m := new(dns.Msg)
		m.Response = true
		m.Question = []dns.Question{{Name: "example.", Qtype: dns.TypeAXFR, Qclass: dns.ClassINET}}
		m.Answer = []dns.RR{recSpec{T: "SOA", V: 1}.rr("example."), rr, recSpec{T: "MX", Owner: "www", V: 1}.rr("example.")}
		m.Compress = compress
		b, err := m.Pack()
		if err != nil {
			return false
		}
		back := new(dns.Msg)
		if err := back.Unpack(append([]byte{}, b...)); err != nil || len(back.Answer) != 3 {
			return false
		}
		if back.Answer[1].String() != want || back.Answer[1].Header().Rrtype != ty {
			return false
		}
	}
	rr2, err := genRR("r1.example.", ty, rd)
	return err == nil && rr2.String() == want
}

func genOpts() *gen.Opts {
	return &gen.Opts{Level: gen.Presentable, MaxBlob: 24, NameGen: func(t *rapid.T) wm.Name {
		return gen.Name(t, gen.NameOpts{Plain: true, MaxLabs: 3, MaxLabel: 8})
	}}
}

// genTyped draws a record of any type of the table (or an unknown one), as (type, RDATA); ok = false
// when the draw is outside the domain (see stableOnWire) - the caller falls back to a plain kind.
func genTyped(t *rapid.T) (recSpec, bool) {
	var ty uint16
	switch rapid.IntRange(0, 9).Draw(t, "typool") {
	case 0, 1, 2, 3:
		ty = rapid.SampledFrom(aliasProne).Draw(t, "alias-type")
	case 4:
		ty = rapid.SampledFrom(unknownTypes).Draw(t, "unknown-type")
	default:
		ty = rapid.SampledFrom(genTypes).Draw(t, "any-type")
	}
	var rd []byte
	if _, known := wm.LayoutOf(ty); known {
		rec := gen.RecOfType(t, ty, genOpts())
		if (ty == wm.TSVCB || ty == wm.THTTPS) && rapid.Bool().Draw(t, "with-hints") {
			rec = withHints(t, rec)
		}
		rd = wm.EncodeRdata(rec)
	} else {
		rd = gen.Bytes(t, gen.Len(t, 1, 24), false)
	}
	r := recSpec{T: "GEN", Owner: rapid.SampledFrom(owners).Draw(t, "owner"), Ty: ty, RD: rd}
	return r, stableOnWire(ty, rd)
}

// withHints makes sure an SVCB / HTTPS record carries address hints (keys 4 and 6, RFC 9460 7.3).
func withHints(t *rapid.T, r wm.Rec) wm.Rec {
	for i := range r.Fields {
		if r.Fields[i].K != wm.Params {
			continue
		}
		var out []wm.Option
		for _, o := range r.Fields[i].Opts {
			if o.Code != 4 && o.Code != 6 {
				out = append(out, o)
			}
		}
		v4 := gen.Bytes(t, 4*rapid.IntRange(1, 3).Draw(t, "nv4"), false)
		v6 := gen.Bytes(t, 16*rapid.IntRange(1, 2).Draw(t, "nv6"), false)
		for k := 0; k+16 <= len(v6); k += 16 {
			v6[k] = 0x20 // never an IPv4-mapped address (refused on purpose)
		}
		out = append(out, wm.Option{Code: 4, Data: v4}, wm.Option{Code: 6, Data: v6})
		sort.SliceStable(out, func(a, b int) bool { return out[a].Code < out[b].Code })
		r.Fields[i].Opts = out
	}
	return r
}

// typeName for class labels.
func typeName(ty uint16) string {
	if s, ok := dns.TypeToString[ty]; ok {
		return s
	}
	return fmt.Sprintf("TYPE%d", ty)
}

// fromText: a hand-written record in presentation format, as (type, RDATA).
func fromText(s string) recSpec {
	rr, err := dns.NewRR("r1.example. 3600 IN " + s)
	if err != nil {
		panic("harness: " + s + ": " + err.Error())
	}
	b := make([]byte, 2048)
	off, err := dns.PackRR(rr, b, 0, nil, false)
	if err != nil {
		panic("harness: " + s + ": " + err.Error())
	}
	// owner r1.example. = 12 octets, then type class ttl rdlength
	rd := append([]byte{}, b[12+10:off]...)
	r := recSpec{T: "GEN", Owner: "r1", Ty: rr.Header().Rrtype, RD: rd}
	if !stableOnWire(r.Ty, r.RD) {
		panic("harness: not stable on the wire: " + s)
	}
	return r
}

// fixedTyped: one or two deterministic records per type of the table (rapid's seeded examples, filtered
// to the domain) plus hand-written ones for the types whose structs hold slices.
func fixedTyped() []recSpec {
	var out []recSpec
	for _, s := range []string{
		`HTTPS 1 . alpn="h2" ipv4hint="192.0.2.1,192.0.2.2" ipv6hint="2001:db8::1"`,
		`SVCB 2 alt.example. ipv4hint="198.51.100.7"`,
		`SVCB 3 . ipv6hint="2001:db8::53,2001:db8::54" port="8443" ech="AAECAwQFBgc=" key65333="opaque"`,
		`A 192.0.2.77`,
		`AAAA 2001:db8::77`,
		`APL 1:192.0.2.0/24 !2:2001:db8::/32`,
		`IPSECKEY 10 1 2 192.0.2.38 AQNRU3mG7TVTO2BkR47usntb102uFJtugbo6BSGvgqt4AQ==`,
		`IPSECKEY 10 2 2 2001:db8::38 AQNRU3mG7TVTO2BkR47usntb102uFJtugbo6BSGvgqt4AQ==`,
		`AMTRELAY 10 0 1 203.0.113.15`,
		`AMTRELAY 10 0 2 2001:db8::15`,
		`L32 10 10.1.2.0`,
		`NSEC next.example. A MX RRSIG NSEC TYPE1234`,
		`NSEC3 1 1 12 aabbccdd 2t7b4g4vsa5smi47k61mv5bv1a22bojr NS SOA MX RRSIG DNSKEY NSEC3PARAM`,
		`CSYNC 66 3 A NS AAAA`,
		`HIP 2 200100107B1A74DF365639CC39F1D578 AwEAAbdxyhNuSutc5EMzxTs9LBPCIkOFH8cIvM4p9+LrV4e19WzK00+CI6zBCQTdtWsuxKbWIy87UOoJTwkUs7lBu+Upr1gsNrut79ryra+bSRGQb1slImA8YVJyuIDsj7kwzG7jnERNqnWxZ48AWkskmdHaVDP4BcelrTI3rMXdXF5D rvs.example.`,
		`TXT "one" "two" "three"`,
		`EUI48 00-00-5e-00-53-2a`,
		`CAA 0 issue "ca.example.net"`,
	} {
		out = append(out, fromText(s))
	}
	for _, ty := range genTypes {
		ty := ty
		g := rapid.Custom(func(t *rapid.T) recSpec {
			return recSpec{T: "GEN", Owner: "r1", Ty: ty, RD: wm.EncodeRdata(gen.RecOfType(t, ty, genOpts()))}
		})
		for seed := 0; seed < 8; seed++ {
			if r := g.Example(int(ty)*16 + seed); stableOnWire(r.Ty, r.RD) {
				out = append(out, r)
				break
			}
		}
	}
	out = append(out, recSpec{T: "GEN", Owner: "r1", Ty: 65279, RD: []byte{1, 2, 3, 4, 5, 6, 7, 8, 9, 10, 11, 12, 13, 14, 15, 16}})
	return out
}

// typeClasses: which record types the history moves, and whether a record whose struct holds slices
// is delivered BEFORE the last envelope (only then could a later receive disturb it).
func (c xferCase) typeClasses() []string {
	envs := c.envelopes()
	seen := map[string]bool{}
	var out []string
	add := func(s string) {
		if !seen[s] {
			seen[s] = true
			out = append(out, s)
		}
	}
	typed := false
	for i, e := range envs {
		for _, r := range e {
			if r.T != "GEN" {
				continue
			}
			typed = true
			add("rtype=" + typeName(r.Ty))
			if i < len(envs)-1 {
				add("typed-record-before-the-last-envelope")
				if r.Ty == wm.TSVCB || r.Ty == wm.THTTPS {
					if rr, err := genRR("r1.example.", r.Ty, r.RD); err == nil {
						var vals []dns.SVCBKeyValue
						switch x := rr.(type) {
						case *dns.SVCB:
							vals = x.Value
						case *dns.HTTPS:
							vals = x.Value
						}
						for _, kv := range vals {
							if k := kv.Key(); k == dns.SVCB_IPV4HINT || k == dns.SVCB_IPV6HINT {
								add("svcb-address-hints-before-the-last-envelope")
							}
						}
					}
				}
			}
		}
	}
	if typed {
		add("zone=typed")
	} else {
		add("zone=plain-kinds-only")
	}
	sort.Strings(out)
	return out
}
