package c15

// A small in-memory full-duplex stream (net.Conn) with a read-segmentation plan, a cut point
// ("the stream ends after octet k") and observable Close – the transport under dns.Transfer /
// dns.Server in this package. Deliberately NOT a net.PacketConn, so dns.Conn uses the two-octet
// length framing.

import (
	"errors"
	"io"
	"net"
	"os"
	"sync"
	"time"
)

// half is one direction of the stream.
type half struct {
	mu       sync.Mutex
	cond     *sync.Cond
	buf      []byte
	eof      bool // the writing side is finished: EOF once buf is drained
	rclosed  bool // the reading side closed its conn
	deadline time.Time
	timer    *time.Timer
	seg      []int // at most seg[i mod len] octets per Read (empty: whatever is available)
	segi     int
	cut      int // >= 0: only the first cut octets ever written are delivered, then EOF
	written  int
	nread    int
	waiting  bool      // a Read is blocked with nothing buffered
	events   []ioEvent // SetReadDeadline calls and data-returning Reads on this direction, in order
}

// ioEvent: 'D' = SetReadDeadline(deadline) called at time at; 'R' = a Read returned data, after
// which after octets of the stream had been consumed in total.
type ioEvent struct {
	kind     byte
	at       time.Time
	deadline time.Time
	after    int
}

func newHalf() *half { h := &half{cut: -1}; h.cond = sync.NewCond(&h.mu); return h }

type endpoint struct {
	in, out    *half
	local, rem net.Addr
	mu         sync.Mutex
	closed     bool
	closes     int
}

func memAddr(port int) net.Addr { return &net.TCPAddr{IP: net.IPv4(127, 0, 0, 1), Port: port} }

// newPipe returns the two ends of a stream: a (client side) and b (server side).
func newPipe() (a, b *endpoint) {
	x, y := newHalf(), newHalf()
	a = &endpoint{in: x, out: y, local: memAddr(40000), rem: memAddr(53)}
	b = &endpoint{in: y, out: x, local: memAddr(53), rem: memAddr(40000)}
	return
}

func (e *endpoint) isClosed() bool { e.mu.Lock(); defer e.mu.Unlock(); return e.closed }

func (e *endpoint) Read(p []byte) (int, error) {
	h := e.in
	h.mu.Lock()
	defer h.mu.Unlock()
	for {
		if h.rclosed {
			return 0, net.ErrClosed
		}
		if !h.deadline.IsZero() && !h.deadline.After(time.Now()) {
			return 0, os.ErrDeadlineExceeded
		}
		if len(p) == 0 {
			return 0, nil
		}
		if len(h.buf) > 0 {
			n := len(p)
			if n > len(h.buf) {
				n = len(h.buf)
			}
			if len(h.seg) > 0 {
				s := h.seg[h.segi%len(h.seg)]
				h.segi++
				if s < 1 {
					s = 1
				}
				if n > s {
					n = s
				}
			}
			copy(p, h.buf[:n])
			h.buf = h.buf[n:]
			h.nread += n
			h.events = append(h.events, ioEvent{kind: 'R', at: time.Now(), after: h.nread})
			return n, nil
		}
		if h.eof {
			return 0, io.EOF
		}
		h.waiting = true
		h.cond.Wait()
		h.waiting = false
	}
}

func (e *endpoint) Write(p []byte) (int, error) {
	if e.isClosed() {
		return 0, net.ErrClosed
	}
	h := e.out
	h.mu.Lock()
	defer h.mu.Unlock()
	if h.rclosed {
		return 0, io.ErrClosedPipe
	}
	if h.eof && h.cut < 0 {
		return 0, io.ErrClosedPipe
	}
	q := p
	if h.cut >= 0 {
		room := h.cut - h.written
		if room < 0 {
			room = 0
		}
		if len(q) > room {
			q = q[:room]
		}
		if h.written+len(p) >= h.cut {
			h.eof = true
		}
	}
	h.written += len(p)
	h.buf = append(h.buf, q...)
	h.cond.Broadcast()
	return len(p), nil
}

// closeWrite: the peer reads EOF after draining what was written.
func (e *endpoint) closeWrite() {
	h := e.out
	h.mu.Lock()
	h.eof = true
	h.cond.Broadcast()
	h.mu.Unlock()
}

func (e *endpoint) Close() error {
	e.mu.Lock()
	e.closes++
	already := e.closed
	e.closed = true
	e.mu.Unlock()
	if already {
		return errors.New("memstream: already closed")
	}
	e.in.mu.Lock()
	e.in.rclosed = true
	if e.in.timer != nil {
		e.in.timer.Stop()
	}
	e.in.cond.Broadcast()
	e.in.mu.Unlock()
	e.closeWrite()
	return nil
}

func (e *endpoint) LocalAddr() net.Addr  { return e.local }
func (e *endpoint) RemoteAddr() net.Addr { return e.rem }
func (e *endpoint) SetDeadline(t time.Time) error {
	return e.SetReadDeadline(t)
}
func (e *endpoint) SetWriteDeadline(t time.Time) error { return nil }
func (e *endpoint) SetReadDeadline(t time.Time) error {
	h := e.in
	h.mu.Lock()
	defer h.mu.Unlock()
	h.deadline = t
	h.events = append(h.events, ioEvent{kind: 'D', at: time.Now(), deadline: t})
	if h.timer != nil {
		h.timer.Stop()
		h.timer = nil
	}
	if !t.IsZero() {
		d := time.Until(t)
		if d <= 0 {
			h.cond.Broadcast()
		} else {
			h.timer = time.AfterFunc(d, func() {
				h.mu.Lock()
				h.cond.Broadcast()
				h.mu.Unlock()
			})
		}
	}
	return nil
}

// readerIdle: a Read on this end is blocked and nothing is buffered for it.
func (e *endpoint) readerIdle() bool {
	e.in.mu.Lock()
	defer e.in.mu.Unlock()
	return e.in.waiting && len(e.in.buf) == 0 && !e.in.eof
}

func (e *endpoint) readEvents() []ioEvent {
	e.in.mu.Lock()
	defer e.in.mu.Unlock()
	return append([]ioEvent{}, e.in.events...)
}

// consumed reports how many octets this end has read so far.
func (e *endpoint) consumed() int { e.in.mu.Lock(); defer e.in.mu.Unlock(); return e.in.nread }

// ---------------------------------------------------------------------------------------------

type memListener struct {
	mu     sync.Mutex
	cond   *sync.Cond
	q      []*endpoint
	closed bool
}

func newMemListener() *memListener { l := &memListener{}; l.cond = sync.NewCond(&l.mu); return l }

func (l *memListener) dial() (cli, srv *endpoint) {
	cli, srv = newPipe()
	l.mu.Lock()
	l.q = append(l.q, srv)
	l.cond.Broadcast()
	l.mu.Unlock()
	return
}

func (l *memListener) Accept() (net.Conn, error) {
	l.mu.Lock()
	defer l.mu.Unlock()
	for {
		if l.closed {
			return nil, net.ErrClosed
		}
		if len(l.q) > 0 {
			c := l.q[0]
			l.q = l.q[1:]
			return c, nil
		}
		l.cond.Wait()
	}
}

func (l *memListener) Close() error {
	l.mu.Lock()
	l.closed = true
	l.cond.Broadcast()
	l.mu.Unlock()
	return nil
}

func (l *memListener) Addr() net.Addr { return memAddr(53) }
