package c15

// Transfer.In opening the connection itself (Transfer.Conn == nil) over real loopback TCP, and the
// requests Transfer.In cannot send at all (it must say so instead of starting a transfer).

import (
	"encoding/binary"
	"errors"
	"fmt"
	"io"
	"net"
	"strings"
	"time"

	"verif/harness/pbt"
)

// runDial: the harness listens on 127.0.0.1:0 and plays the sender on the accepted connection;
// Transfer.In is given only the address. Dial == "refused": nobody listens on the address.
func runDial(c xferCase) (result, plan, error) {
	lis, err := net.Listen("tcp", "127.0.0.1:0")
	if err != nil {
		return result{}, plan{}, fmt.Errorf("listen: %v", err)
	}
	addr := lis.Addr().String()
	tr := newTransferOn(c, nil)
	tr.DialTimeout = 20 * time.Second
	if c.Dial == "refused" {
		lis.Close()
		ch, err := tr.In(c.query(), addr)
		if err != nil {
			pbt.Class("dial-refused=error-returned")
			return result{chanClosed: true, connClosed: true, envs: []envOut{{Err: err}}}, plan{strong: true, firstBad: 0}, nil
		}
		// another process of the machine grabbed the port in between: nothing to learn
		pbt.Class("dial-refused=port-taken-by-someone-else")
		go func() {
			for range ch {
			}
		}()
		return result{chanClosed: true, connClosed: true, envs: []envOut{{Err: errors.New("skipped")}}}, plan{strong: true, firstBad: 0}, nil
	}
	defer lis.Close()
	type acc struct {
		conn net.Conn
		req  []byte
		err  error
	}
	accCh := make(chan acc, 1)
	go func() {
		// other processes of the machine may hit the port: take the connection that carries our query
		for tries := 0; tries < 8; tries++ {
			lis.(*net.TCPListener).SetDeadline(time.Now().Add(watchdog))
			conn, err := lis.Accept()
			if err != nil {
				accCh <- acc{err: err}
				return
			}
			conn.SetReadDeadline(time.Now().Add(watchdog))
			var l [2]byte
			if _, err := io.ReadFull(conn, l[:]); err != nil {
				conn.Close()
				continue
			}
			b := make([]byte, binary.BigEndian.Uint16(l[:]))
			if _, err := io.ReadFull(conn, b); err != nil || len(b) < 12 || binary.BigEndian.Uint16(b) != c.QID {
				conn.Close()
				continue
			}
			accCh <- acc{conn: conn, req: b}
			return
		}
		accCh <- acc{err: errors.New("no connection carrying the request arrived")}
	}()
	ch, err := tr.In(c.query(), addr)
	if err != nil {
		return result{}, plan{}, fmt.Errorf("Transfer.In could not connect to the harness listener: %v", err)
	}
	a := <-accCh
	if a.err != nil {
		return result{}, plan{}, a.err
	}
	defer a.conn.Close()
	var reqMAC []byte
	if c.Tsig != nil {
		mac, err := refVerify(a.req, c.key(), nil, false)
		if err != nil {
			return result{}, plan{}, fmt.Errorf("request TSIG: %v", err)
		}
		reqMAC = mac
	}
	p := buildPlan(c, reqMAC, uint64(time.Now().Unix()))
	a.conn.Write(p.stream)
	a.conn.(*net.TCPConn).CloseWrite()
	obs := &socketObserver{}
	r := collect(ch, obs, watchdog)
	r.readTimeout = tr.ReadTimeout
	// the receiver has closed its end when the channel is closed: our read ends (EOF / reset) at once
	a.conn.SetReadDeadline(time.Now().Add(10 * time.Second))
	_, rerr := io.Copy(io.Discard, a.conn)
	var ne net.Error
	r.connClosed = !(errors.As(rerr, &ne) && ne.Timeout())
	return r, p, nil
}

// socketObserver: on a real socket the close is observed from the peer afterwards.
type socketObserver struct{}

func (socketObserver) isClosed() bool { return false }
func (socketObserver) consumed() int  { return 0 }

// checkBadRequest: a request that cannot be encoded or signed must make Transfer.In return an
// error; it must not start a transfer (and then report whatever comes of it).
func checkBadRequest(c xferCase) error {
	cli, srv := newPipe()
	tr := newTransfer(c, cli)
	q := c.query()
	switch c.BadRequest {
	case "nokey": // the TSIG key named in the request is not among the configured secrets
		tr.TsigSecret = map[string]string{"some-other-key.": "c2VjcmV0"}
	case "badalg": // no such HMAC algorithm
		q.Extra = nil
		q.SetTsig(c.Tsig.KeyName, "hmac-sha999.", 300, time.Now().Unix())
	case "longlabel": // a 64-octet label cannot be encoded
		q.Question[0].Name = strings.Repeat("x", 64) + "." + c.Zone
		if c.Zone == "." {
			q.Question[0].Name = strings.Repeat("x", 64) + "."
		}
	}
	ch, err := tr.In(q, "mem")
	if err != nil {
		return nil
	}
	srv.closeWrite()
	r := collect(ch, cli, watchdog)
	srv.Close()
	return pbt.Errf("request that cannot be sent (%s): Transfer.In returned no error and started a transfer (%d octets went out): %s", c.BadRequest, srv.consumedAvail(), describe(r))
}

// consumedAvail: octets the other side wrote towards this end (read or still buffered).
func (e *endpoint) consumedAvail() int {
	e.in.mu.Lock()
	defer e.in.mu.Unlock()
	return e.in.written
}
