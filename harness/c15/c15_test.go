package c15

import (
	"bytes"
	"encoding/base64"
	"encoding/binary"
	"encoding/json"
	"errors"
	"fmt"
	"io"
	"net"
	"os"
	"strings"
	"sync"
	"sync/atomic"
	"time"

	"github.com/miekg/dns"
	"pgregory.net/rapid"

	"verif/harness/gen"
	"verif/harness/pbt"
	wm "verif/harness/wiremodel"
)

// ---------------------------------------------------------------------------------------------
// case

type recSpec struct {
	T     string // A AAAA TXT TXTBIG FILL MX NS CNAME SOA | GEN (any type of the layout table: Ty + RD)
	Owner string // relative owner ("" = apex)
	V     uint32 // content seed; serial for SOA
	Ty    uint16 `json:",omitempty"` // GEN: type code
	RD    []byte `json:",omitempty"` // GEN: RDATA as on the wire, names uncompressed
}

type diffSpec struct {
	From, To uint32
	Del, Add []recSpec
}

type tsigSpec struct {
	KeyName string
	Alg     string
	Secret  []byte
}

type faultSpec struct {
	Kind string // "" id rcode nosoa cut stall runt maclen alter strip wrongkey otherkey chain stale drop dup swap
	Env  int    // envelope index (taken modulo the number of envelopes)
	K    int    // cut: octet (mod stream length); alter: offset (mod covered region)
	Val  int    // id: xor mask; rcode: code; alter: xor mask; nosoa/chain/wrongkey: variant
}

type xferCase struct {
	Mode          string // axfr | ixfr | uptodate | axfrstyle
	Zone          string // the zone name as the sender spells it (owner of its SOA records)
	QName         string // the zone name as the REQUEST spells it ("" = exactly as Zone): the same name with other letter case and/or \DDD, \c escapes
	QID           uint16
	Serial        uint32 // the server's (new) serial
	QSerial       uint32 // serial in the IXFR request
	Recs          []recSpec
	Diffs         []diffSpec
	Sizes         []int // records per envelope
	Tsig          *tsigSpec
	OtherKey      *tsigSpec // a second key the receiver holds as well (Transfer.TsigSecret has both); the request is signed with Tsig
	Reuse         int       // this many complete fault-free transfers were made with the SAME dns.Transfer value (a fresh connection each) before the one under observation
	RolledFrom    []byte    `json:",omitempty"` // key roll-over: the secret the key NAME of Tsig had before; a complete signed transfer is made with it (another dns.Transfer value, its own key set) before anything else happens
	Fault         faultSpec
	Sender        string // harness | library | libout
	Seg           []int
	Trailer       bool
	Compress      bool
	Transport     string   // "" = stream (TCP-like); "dgram" = the caller-supplied Conn is a datagram conn, every envelope one datagram (IXFR only)
	UDPSize       int      // dgram: dns.Conn.UDPSize of the receiver (0 = unset)
	PaceMs        int      // harness sender: pause before each envelope is written (real time; 0 = none)
	ConsumerMs    int      // pause of the consumer between two receives from the envelope channel
	Dial          string   // "" = Transfer.In gets a ready Conn; "tcp" = it dials the harness's loopback listener itself; "refused" = it dials an address nobody listens on
	BadRequest    string   // "" | nokey | badalg | longlabel: a request Transfer.In cannot sign / encode (it must return an error)
	ProducerMs    int      // library / libout sender: pause of the producer before it hands the LAST envelope to Transfer.Out's channel (real time)
	ReadTimeoutMs int      // Transfer.ReadTimeout for paced cases (0 = the harness default of 20 s)
	Rounds        []string // library / libout sender: requests sent over ONE connection ("xfr" | "query"); empty = one transfer
	NoQuestion    uint32   `json:",omitempty"` // harness sender: envelope i >= 1 (the trailer included) is sent WITHOUT the question section (QDCOUNT 0) when bit (i-1)%32 is set; RFC 5936 2.2.1/2.2.2: only the first message must carry it. 0 = every envelope repeats the question
	KeyNameSent   string   `json:",omitempty"` // harness sender: the key name as the SENDER writes it in the TSIG records of its envelopes ("" = as the receiver has it configured): the same domain name in another letter case
	AlgSent       string   `json:",omitempty"` // harness sender: the algorithm name as the sender writes it ("" = as in the request): the same name in another letter case
}

const watchdog = 30 * time.Second

const knownWrap = "ixfr-serial-wrap"

// known findings of round 7 (see KNOWN_FINDINGS.txt)
const knownOtherKey = "envelope-signed-with-another-configured-key"
const knownReuse = "reused-transfer-signs-timers-only"

// known finding of round 10: an envelope whose TSIG spells the key name in another letter case than the
// receiver's key set is refused (ErrSecret) although it is correctly keyed
const knownKeyCase = "tsig-key-name-case-in-envelope"

// known finding of round 8: an error RCODE in the second or a later envelope of an AXFR answer goes unnoticed
const knownRcodeLater = "axfr-rcode-in-later-envelope"

// rcodeLaterAxfr: the fault is an error RCODE in an envelope after the first of an answer to an AXFR question.
func (f faultSpec) rcodeLaterAxfr(mode string, nenv int) bool {
	return f.Kind == "rcode" && mode == "axfr" && nenv > 0 && ((f.Env%nenv)+nenv)%nenv > 0
}

// otherKeyMust: the envelope is signed with a key other than the one the transfer was requested with
// ("wrongly keyed"), although the receiver knows that key too. Val%3 == 2 keeps key name and secret
// and only switches the HMAC algorithm: the sender holds the right secret, so that is not asserted.
func (f faultSpec) otherKeyMust() bool { return f.Kind == "otherkey" && f.Val%3 != 2 }

// reuseTimersClass: an earlier transfer on the same Transfer value has switched it to timers-only digests.
func (c xferCase) reuseTimersClass() bool { return c.Reuse > 0 && c.Tsig != nil && c.Mode != "uptodate" }

// reuseTimersClass2: the same for a case whose Reuse is still to be set.
func (c xferCase) reuseTimersClass2() bool { c.Reuse = 1; return c.reuseTimersClass() }

func (r recSpec) rr(zone string) dns.RR {
	owner := zone
	if r.Owner != "" {
		if zone == "." {
			owner = r.Owner + "."
		} else {
			owner = r.Owner + "." + zone
		}
	}
	sub := func(l string) string {
		if zone == "." {
			return l + "."
		}
		return l + "." + zone
	}
	h := dns.RR_Header{Name: owner, Class: dns.ClassINET, Ttl: 3600}
	v := r.V
	switch r.T {
	case "SOA":
		h.Name = zone
		h.Rrtype = dns.TypeSOA
		return &dns.SOA{Hdr: h, Ns: sub("ns"), Mbox: sub("hostmaster"), Serial: v, Refresh: 7200, Retry: 600, Expire: 86400, Minttl: 60}
	case "A":
		h.Rrtype = dns.TypeA
		return &dns.A{Hdr: h, A: net.IPv4(10, byte(v>>16), byte(v>>8), byte(v)).To4()}
	case "AAAA":
		h.Rrtype = dns.TypeAAAA
		ip := net.ParseIP("2001:db8::1").To16()
		ip = append(net.IP{}, ip...)
		binary.BigEndian.PutUint32(ip[8:], v)
		return &dns.AAAA{Hdr: h, AAAA: ip}
	case "TXT":
		h.Rrtype = dns.TypeTXT
		return &dns.TXT{Hdr: h, Txt: []string{fmt.Sprintf("v=%d", v)}}
	case "TXTBIG":
		h.Rrtype = dns.TypeTXT
		return &dns.TXT{Hdr: h, Txt: []string{strings.Repeat("x", int(v%200)+1), fmt.Sprintf("%d", v)}}
	case "FILL": // a TXT record whose RDATA is exactly V octets long (filler to reach an exact message size)
		h.Rrtype = dns.TypeTXT
		var txt []string
		n := int(v)
		for n >= 256 {
			txt = append(txt, strings.Repeat("f", 255))
			n -= 256
		}
		if n > 0 {
			txt = append(txt, strings.Repeat("g", n-1))
		}
		return &dns.TXT{Hdr: h, Txt: txt}
	case "MX":
		h.Rrtype = dns.TypeMX
		return &dns.MX{Hdr: h, Preference: uint16(v), Mx: sub("mail")}
	case "NS":
		h.Rrtype = dns.TypeNS
		return &dns.NS{Hdr: h, Ns: sub(fmt.Sprintf("ns%d", v%7))}
	case "CNAME":
		h.Rrtype = dns.TypeCNAME
		return &dns.CNAME{Hdr: h, Target: sub(fmt.Sprintf("t%d", v%100))}
	case "GEN":
		rr, err := genRR(owner, r.Ty, r.RD)
		if err != nil {
			panic(fmt.Sprintf("harness: generated record of type %d: %v", r.Ty, err))
		}
		return rr
	}
	panic("harness: bad record kind " + r.T)
}

// serialLess is RFC 1982 §3.2 for SERIAL_BITS = 32: a < b (undefined pairs, distance 2^31, count as not less).
func serialLess(a, b uint32) bool { return a != b && int32(b-a) > 0 }

// wrapClass: the numeric order of the requested and the server's serial differs from their
// RFC 1982 order (the 32-bit serial wrapped between the two versions).
func (c xferCase) wrapClass() bool {
	if c.Mode == "axfr" {
		return false
	}
	return serialLess(c.QSerial, c.Serial) != (c.QSerial < c.Serial)
}

// rebased shifts every serial of the history by one constant so that the oldest becomes 1000.
func (c xferCase) rebased() xferCase {
	anchor := c.QSerial
	switch {
	case c.Mode == "uptodate":
		anchor = c.Serial
	case c.Mode == "ixfr" && len(c.Diffs) > 0 && serialLess(c.Diffs[0].From, anchor):
		anchor = c.Diffs[0].From
	}
	d := 1000 - anchor
	c.Serial += d
	c.QSerial += d
	ds := make([]diffSpec, len(c.Diffs))
	for i, x := range c.Diffs {
		x.From += d
		x.To += d
		ds[i] = x
	}
	c.Diffs = ds
	return c
}

func soaSpec(serial uint32) recSpec { return recSpec{T: "SOA", V: serial} }

// qname is the spelling of the zone name in the question of the request (and, echoed, of every answer).
func (c xferCase) qname() string {
	if c.QName != "" {
		return c.QName
	}
	return c.Zone
}

// qnameClass: how the question's spelling differs from the sender's (domain names compare
// case-insensitively, RFC 1035 2.3.3 / RFC 4343; \DDD and \c are mere spellings of an octet).
func (c xferCase) qnameClass() string {
	if c.QName == "" || c.QName == c.Zone {
		return "qname=as-served"
	}
	q, _, err1 := wm.UnescName(c.QName)
	z, _, err2 := wm.UnescName(c.Zone)
	if err1 != nil || err2 != nil || !q.Lower().Equal(z.Lower()) {
		return "qname=other-name"
	}
	esc := strings.Contains(c.QName, `\`)
	switch {
	case !q.Equal(z) && esc:
		return "qname=case+escapes"
	case !q.Equal(z):
		return "qname=case"
	}
	return "qname=escapes"
}

// flat is the record sequence the sender transmits (RFC 5936 §2.2, RFC 1995 §4).
func (c xferCase) flat() []recSpec {
	var out []recSpec
	switch c.Mode {
	case "axfr", "axfrstyle":
		out = append(out, soaSpec(c.Serial))
		out = append(out, c.Recs...)
		out = append(out, soaSpec(c.Serial))
	case "uptodate":
		out = append(out, soaSpec(c.Serial))
	case "ixfr":
		out = append(out, soaSpec(c.Serial))
		for _, d := range c.Diffs {
			out = append(out, soaSpec(d.From))
			out = append(out, d.Del...)
			out = append(out, soaSpec(d.To))
			out = append(out, d.Add...)
		}
		out = append(out, soaSpec(c.Serial))
	}
	return out
}

// valid states the domain of the check; the generators only produce valid cases (the test is
// repeated here because shrinking and hand-edited replay files go through Check as well).
func (c xferCase) valid() string {
	switch c.Mode {
	case "axfr":
	case "axfrstyle":
		if !serialLess(c.QSerial, c.Serial) {
			return "axfrstyle needs QSerial < Serial (RFC 1982)"
		}
	case "uptodate":
		if serialLess(c.QSerial, c.Serial) {
			return "uptodate needs Serial <= QSerial (RFC 1982)"
		}
	case "ixfr":
		if len(c.Diffs) == 0 || !serialLess(c.QSerial, c.Serial) {
			return "ixfr needs >=1 difference sequence and QSerial < Serial"
		}
		for i, d := range c.Diffs {
			last := i == len(c.Diffs)-1
			if d.From == c.Serial || (!last && d.To == c.Serial) || (last && d.To != c.Serial) {
				return "ixfr serial chain must reach Serial exactly at the last sequence"
			}
			if !serialLess(d.From, d.To) {
				return "ixfr serials must increase"
			}
		}
	default:
		return "mode"
	}
	if c.qnameClass() == "qname=other-name" {
		return "the question must name the zone (other letter case / escapes only)"
	}
	for _, r := range c.Recs {
		if r.T == "SOA" {
			return "zone body must not contain an SOA"
		}
		if r.T == "GEN" && !stableOnWire(r.Ty, r.RD) {
			return "generated record outside the domain (does not survive a plain pack/unpack)"
		}
	}
	for _, d := range c.Diffs {
		for _, r := range append(append([]recSpec{}, d.Del...), d.Add...) {
			if r.T == "SOA" {
				return "difference body must not contain an SOA"
			}
			if r.T == "GEN" && !stableOnWire(r.Ty, r.RD) {
				return "generated record outside the domain (does not survive a plain pack/unpack)"
			}
		}
	}
	n := len(c.flat())
	sum := 0
	for _, s := range c.Sizes {
		if s < 1 {
			return "empty envelope"
		}
		sum += s
	}
	if sum != n {
		return fmt.Sprintf("sizes sum %d != %d records", sum, n)
	}
	if c.Tsig != nil {
		if len(c.Tsig.Secret) == 0 || c.Tsig.KeyName != strings.ToLower(c.Tsig.KeyName) {
			return "tsig key"
		}
	}
	if o := c.OtherKey; o != nil {
		if c.Tsig == nil || len(o.Secret) == 0 || o.KeyName != strings.ToLower(o.KeyName) || o.KeyName == c.Tsig.KeyName {
			return "second key: needs TSIG and another key name"
		}
	}
	if c.NoQuestion != 0 && c.Sender != "harness" {
		return "envelopes without the question section: harness sender (Transfer.Out repeats the question in every envelope)"
	}
	if c.KeyNameSent != "" || c.AlgSent != "" {
		if c.Tsig == nil || c.Sender != "harness" {
			return "the sender's spelling of key / algorithm name: needs TSIG and the harness sender"
		}
		if c.KeyNameSent != "" && (c.KeyNameSent == c.Tsig.KeyName || strings.ToLower(c.KeyNameSent) != c.Tsig.KeyName || strings.Contains(c.KeyNameSent, `\`)) {
			return "the sender's spelling of the key name: the configured name in another letter case"
		}
		if c.AlgSent != "" && (c.AlgSent == c.Tsig.Alg || strings.ToLower(c.AlgSent) != strings.ToLower(c.Tsig.Alg)) {
			return "the sender's spelling of the algorithm name: the request's in another letter case"
		}
	}
	if len(c.RolledFrom) > 0 && (c.Tsig == nil || bytes.Equal(c.RolledFrom, c.Tsig.Secret)) {
		return "key roll-over: needs TSIG and an earlier secret that differs from the present one"
	}
	if c.Fault.Kind == "otherkey" && (c.OtherKey == nil || c.Sender != "harness") {
		return "fault otherkey needs a second configured key"
	}
	if c.Reuse < 0 || c.Reuse > 3 || (c.Reuse > 0 && (c.Transport != "" || c.Dial != "" || c.BadRequest != "" || c.timed() || c.Sender == "libout")) {
		return "reuse: 0..3 earlier transfers, in-memory stream, library receiver"
	}
	if c.Reuse > 0 && c.Sender == "library" && !c.multi() {
		return "reuse with the library sender: several requests on one connection"
	}
	if c.Dial != "" {
		if (c.Dial != "tcp" && c.Dial != "refused") || c.Sender != "harness" || c.Transport != "" || c.timed() || c.Fault.Kind == "stall" || len(c.Seg) > 0 {
			return "dial cases: harness sender on a stream, no stall / pacing / segmentation"
		}
	}
	switch c.BadRequest {
	case "":
	case "nokey", "badalg":
		if c.Tsig == nil || c.Sender != "harness" {
			return "bad request: needs TSIG"
		}
	case "longlabel":
		if c.Sender != "harness" {
			return "bad request"
		}
	default:
		return "bad request kind"
	}
	if c.Transport != "" {
		ok := map[string]bool{"": true, "id": true, "rcode": true, "nosoa": true, "alter": true, "strip": true, "wrongkey": true, "otherkey": true, "chain": true, "stale": true, "maclen": true}
		if c.Transport != "dgram" || c.Mode == "axfr" || c.Sender != "harness" || !ok[c.Fault.Kind] || c.timed() || c.UDPSize < 0 || c.UDPSize > 65535 {
			return "datagram transport: IXFR question, harness sender, envelope-level faults only"
		}
	}
	if c.ProducerMs < 0 || c.ProducerMs > 5000 || (c.ProducerMs > 0 && c.Sender == "harness") {
		return "producer pause: library sender, at most 5 s"
	}
	if c.timed() && (c.Sender != "harness" || c.PaceMs > 1000 || c.ConsumerMs > 1000 || c.PaceMs < 0 || c.ConsumerMs < 0 || c.ReadTimeoutMs < 0 || len(c.Sizes) > 12) {
		return "timed cases: harness sender, short pauses, few envelopes"
	}
	switch c.Sender {
	case "harness":
		if len(c.Rounds) > 0 {
			return "rounds need the library sender"
		}
	case "library", "libout":
		if c.Fault.Kind != "" && c.Fault.Kind != "cut" {
			return "library sender only supports the cut fault"
		}
		if c.Sender == "libout" && c.Fault.Kind != "" {
			return "libout has no faults"
		}
		if len(c.Rounds) > 4 || (len(c.Rounds) > 0 && c.Fault.Kind != "") {
			return "rounds"
		}
		for _, r := range c.Rounds {
			if r != "xfr" && r != "query" {
				return "rounds"
			}
		}
	default:
		return "sender"
	}
	return ""
}

// tsigRRLen is the size of the TSIG RR the case's key adds to every envelope.
func (c xferCase) tsigRRLen() int {
	if c.Tsig == nil {
		return 0
	}
	msg := make([]byte, 12)
	out, _, _ := tsigSign(msg, c.key(), c.keyNameSent(), signOpts{now: 1, fudge: 300})
	return len(out) - len(msg)
}

// maxEnvelopeLen is the size on the wire (without the length prefix) of the largest envelope.
func (c xferCase) maxEnvelopeLen() int {
	hasFill := false
	for _, r := range c.flat() {
		if r.T == "FILL" {
			hasFill = true
		}
	}
	if !hasFill {
		return 0 // ordinary cases stay far below 16 KiB; not worth packing twice
	}
	max := 0
	for i, e := range c.envelopes() {
		if n := len(packEnvelope(c, i, e)) + c.tsigRRLen(); n > max {
			max = n
		}
	}
	return max
}

// sizeFiller sets the V of the (single) FILL record so that the envelope holding it is exactly
// target octets on the wire, TSIG included; false if that is impossible.
func sizeFiller(c *xferCase, target int) bool {
	set := func(v uint32) {
		for i := range c.Recs {
			if c.Recs[i].T == "FILL" {
				c.Recs[i].V = v
			}
		}
		for d := range c.Diffs {
			for i := range c.Diffs[d].Add {
				if c.Diffs[d].Add[i].T == "FILL" {
					c.Diffs[d].Add[i].V = v
				}
			}
		}
	}
	set(1)
	for i, e := range c.envelopes() {
		for _, r := range e {
			if r.T == "FILL" {
				v := 1 + target - (len(packEnvelope(*c, i, e)) + c.tsigRRLen())
				if v < 1 || v > 65535 {
					return false
				}
				set(uint32(v))
				return true
			}
		}
	}
	return false
}

func (c xferCase) envelopes() [][]recSpec {
	f := c.flat()
	var out [][]recSpec
	for _, s := range c.Sizes {
		out = append(out, f[:s])
		f = f[s:]
	}
	return out
}

func (c xferCase) key() tsigKey {
	return tsigKey{Name: c.Tsig.KeyName, Alg: c.Tsig.Alg, Secret: c.Tsig.Secret}
}

func (c xferCase) secrets() map[string]string {
	m := map[string]string{c.Tsig.KeyName: base64.StdEncoding.EncodeToString(c.Tsig.Secret)}
	if c.OtherKey != nil {
		m[c.OtherKey.KeyName] = base64.StdEncoding.EncodeToString(c.OtherKey.Secret)
	}
	return m
}

func (c xferCase) query() *dns.Msg {
	q := new(dns.Msg)
	if c.Mode == "axfr" {
		q.SetAxfr(c.qname())
	} else {
		q.SetIxfr(c.qname(), c.QSerial, "ns."+strings.TrimPrefix(c.Zone, "."), "hostmaster."+strings.TrimPrefix(c.Zone, "."))
	}
	q.Id = c.QID
	if c.Tsig != nil {
		q.SetTsig(c.Tsig.KeyName, c.Tsig.Alg, 300, time.Now().Unix())
	}
	return q
}

func strs(zone string, rs []recSpec) []string {
	out := make([]string, len(rs))
	for i, r := range rs {
		out[i] = r.rr(zone).String()
	}
	return out
}

// ---------------------------------------------------------------------------------------------
// the harness as sender: frames with faults

type frame struct {
	b    []byte   // DNS message (without the length prefix)
	recs []string // records it carries, as sent
}

type plan struct {
	alterAt  string // alter fault: which part of the envelope was hit
	frames   []frame
	stream   []byte // length-prefixed frames, cut applied
	firstBad int    // position (0-based frame index; len(frames) = end of stream) at which an error is due at the latest; -1: none required
	strong   bool   // an error is required
	prefix   bool   // error-free envelopes must equal a prefix of frames
	kind     string // expected error kind at the first error: "" any, "id", "rcode", "soa", "eof"
	benign   bool   // the fault cannot be observed by a receiver that stops at the closing SOA: expect the fault-free outcome
	nreal    int    // frames up to and including the closing envelope (post-fault), before the trailer
	rcode    int
}

// alterClass names the part of a signed envelope that holds octet at and says whether flipping the
// bits x there must be detected by a receiver that verifies per RFC 8945. full = the envelope is
// digested with the complete TSIG variables (first message of the answer), otherwise timers only.
//   - everything before the TSIG RR, Time Signed, Fudge, the MAC and Original ID are always digested;
//   - key name and algorithm name are digested in canonical (lower-case) form when full, and they
//     select key and function in any case: only a pure letter-case flip may go unnoticed;
//   - TYPE: the record is no TSIG any more (unsigned envelope);
//   - CLASS, TTL, Error, Other Len: digested only when full (§4.3.3); in a timers-only envelope a
//     receiver may or may not look at them;
//   - RDLENGTH and MAC Size change how the RDATA is cut up; whether what remains is acceptable
//     (truncated MAC, §5.2.2.1) is left open here.
func alterClass(b []byte, t wireTsig, at int, x byte, full bool) (string, bool) {
	nameFlip := func(start, end int) bool { // must-detect for an octet inside an uncompressed name
		for off := start; off < end; {
			l := int(b[off])
			if at == off {
				return true // a length octet: the name is cut differently
			}
			if at > off && at <= off+l {
				c := b[at]
				letter := c >= 'a' && c <= 'z' || c >= 'A' && c <= 'Z'
				return !(letter && x == 0x20)
			}
			off += 1 + l
		}
		return true
	}
	ownerEnd, _ := skipName(b, t.Off)
	rd := ownerEnd + 10
	origID := t.MacOff + len(t.MAC)
	switch {
	case at < t.Off:
		return "message", true
	case at < ownerEnd:
		return "tsig-owner", nameFlip(t.Off, ownerEnd)
	case at < ownerEnd+2:
		return "tsig-type", true
	case at < ownerEnd+4:
		return "tsig-class", full
	case at < ownerEnd+8:
		return "tsig-ttl", full
	case at < rd:
		return "tsig-rdlength", false
	case at < t.TimeOff:
		return "tsig-algorithm", nameFlip(rd, t.TimeOff)
	case at < t.TimeOff+6:
		return "tsig-time", true
	case at < t.TimeOff+8:
		return "tsig-fudge", true
	case at < t.MacOff:
		return "tsig-macsize", false
	case at < origID:
		return "tsig-mac", true
	case at < origID+2:
		return "tsig-origid", true
	case at < origID+4:
		return "tsig-error", full
	default:
		return "tsig-otherlen", full
	}
}

func macLenName(l, full int) string {
	switch {
	case l == 0:
		return "0"
	case l < 10:
		return "1..9"
	case l < full/2:
		return "10..half-1"
	case l < full:
		return "half..full-1"
	case l == full:
		return "full"
	}
	return "longer"
}

// omitsQuestion: envelope i of the answer is sent with an empty question section. RFC 5936 2.2.1: QDCOUNT
// "MUST be 1 in the first message; MUST be 0 or 1 in all following messages"; 2.2.2: "in subsequent messages
// this section MAY be copied from the query, or it MAY be empty" (BIND, NSD and Knot leave it empty).
func (c xferCase) omitsQuestion(i int) bool {
	return i >= 1 && c.NoQuestion&(1<<(uint(i-1)%32)) != 0
}

// questionClass: which of the envelopes after the first carry the question (n = number of envelopes).
func (c xferCase) questionClass(n int) string {
	with, without := 0, 0
	for i := 1; i < n; i++ {
		if c.omitsQuestion(i) {
			without++
		} else {
			with++
		}
	}
	switch {
	case without == 0:
		return ""
	case with == 0:
		return "question-in-later-envelopes=none"
	}
	return "question-in-later-envelopes=some"
}

// keyNameSent / algSent: key and algorithm name as the sender writes them into its TSIG records.
func (c xferCase) keyNameSent() string {
	if c.KeyNameSent != "" {
		return c.KeyNameSent
	}
	return c.Tsig.KeyName
}

func (c xferCase) algSent() string {
	if c.AlgSent != "" {
		return c.AlgSent
	}
	return c.Tsig.Alg
}

// packEnvelope: envelope i of the answer (i = len(Sizes) for the trailer) carrying recs.
func packEnvelope(c xferCase, i int, recs []recSpec) []byte {
	m := new(dns.Msg)
	m.Id = c.QID
	m.Response = true
	m.Authoritative = true
	qt := dns.TypeIXFR
	if c.Mode == "axfr" {
		qt = dns.TypeAXFR
	}
	if !c.omitsQuestion(i) {
		m.Question = []dns.Question{{Name: c.qname(), Qtype: qt, Qclass: dns.ClassINET}} // the question is echoed as asked; the records are the sender's
	}
	for _, r := range recs {
		m.Answer = append(m.Answer, r.rr(c.Zone))
	}
	m.Compress = c.Compress
	b, err := m.Pack()
	if err != nil {
		panic("harness: cannot pack envelope: " + err.Error())
	}
	return b
}

// buildPlan produces the octet stream the harness writes after it has seen the request.
func buildPlan(c xferCase, reqMAC []byte, now uint64) plan {
	envs := c.envelopes()
	n := len(envs)
	f := c.Fault
	j := 0
	if n > 0 {
		j = ((f.Env % n) + n) % n
	}
	p := plan{firstBad: -1}
	signed := c.Tsig != nil

	// record-level fault
	if f.Kind == "nosoa" {
		e := append([]recSpec{}, envs[0]...)
		other := recSpec{T: "A", Owner: "notsoa", V: 7}
		switch v := f.Val % 3; {
		case v == 1 && len(e) >= 2 && e[1].T != "SOA":
			e = e[1:]
		case v == 2 && len(e) >= 2 && e[1].T != "SOA":
			e[0], e[1] = e[1], e[0]
		default:
			e[0] = other
		}
		envs[0] = e
		p.firstBad, p.strong, p.prefix, p.kind = 0, true, true, "soa"
	}

	var prev []byte = reqMAC
	var macs [][]byte
	key := tsigKey{}
	if signed {
		key = c.key()
	}
	one := func(i int, recs []recSpec, isTrailer bool) frame {
		mb := packEnvelope(c, i, recs)
		if !isTrailer && i == j {
			switch f.Kind {
			case "id":
				x := uint16(f.Val)
				if x == 0 {
					x = 1
				}
				binary.BigEndian.PutUint16(mb, binary.BigEndian.Uint16(mb)^x)
				p.firstBad, p.strong, p.prefix, p.kind = i, true, true, "id"
			case "rcode":
				// "reports an error instead when ... the RCODE is non-zero": in ANY envelope, for both kinds of
				// question (round 8; a later AXFR envelope used to be left out - see knownRcodeLater)
				rc := f.Val%15 + 1
				if f.K%2 == 1 {
					// an error answer the way servers send it: the RCODE and no records
					recs = nil
					mb = packEnvelope(c, i, nil)
				}
				mb[3] = mb[3]&0xf0 | byte(rc)
				p.rcode = rc
				p.firstBad, p.strong, p.prefix, p.kind = i, true, true, "rcode"
			}
		}
		fr := frame{b: mb, recs: strs(c.Zone, recs)}
		if !signed {
			return fr
		}
		o := signOpts{prior: prev, timersOnly: i > 0, now: now, fudge: 300}
		// the sender's own spelling of key and algorithm name (letter case only): the digest takes both in
		// canonical form (RFC 8945 4.3.3), so the MAC is the same whatever the spelling on the wire
		k, nameOnWire := key, c.keyNameSent()
		k.Alg = c.algSent()
		hit := !isTrailer && i == j
		if hit && f.Kind == "chain" {
			v := f.Val % 5
			if i == 0 && v != 2 && v != 3 {
				v = 2 + f.Val%2
			}
			if i > 0 && (v == 2 || v == 3) {
				v = f.Val % 2
			}
			if v == 4 && i < 2 {
				v = 0
			}
			switch v {
			case 0: // later envelope chained to the request MAC instead of the previous envelope
				o.prior = reqMAC
				p.alterAt = "later-envelope-chained-to-the-request-mac"
			case 1: // later envelope digests the full TSIG variables
				o.timersOnly = false
				p.alterAt = "later-envelope-digests-all-variables"
				if i == 1 && len(envs[0]) == 1 {
					p.alterAt = "second-envelope-after-a-lone-soa-digests-all-variables"
				}
			case 2: // first envelope digests timers only
				o.timersOnly = true
				p.alterAt = "first-envelope-digests-timers-only"
			case 3: // first envelope without the request MAC
				o.prior = nil
				p.alterAt = "first-envelope-without-the-request-mac"
			case 4: // chained to the envelope before the previous one
				o.prior = macs[i-2]
				p.alterAt = "chained-to-the-envelope-before-the-previous"
			}
			p.firstBad, p.strong, p.prefix = i, true, true
		}
		if hit && f.Kind == "stale" {
			// signed outside the fudge window (RFC 8945 §5.2.3): correct MAC, unacceptable time
			if f.Val%2 == 0 {
				o.now = now - 1000
			} else {
				o.now = now + 1000
			}
			p.firstBad, p.strong, p.prefix = i, true, true
		}
		if hit && f.Kind == "wrongkey" {
			if f.Val%2 == 0 && len(c.RolledFrom) > 0 {
				// the sender still signs this envelope with the secret the key name had BEFORE the roll-over
				k.Secret = c.RolledFrom
			} else if f.Val%2 == 0 {
				k.Secret = append([]byte{}, k.Secret...)
				k.Secret[0] ^= 0x01
			} else {
				nameOnWire = "other-" + key.Name
			}
			p.firstBad, p.strong, p.prefix = i, true, true
		}
		if hit && f.Kind == "otherkey" {
			// correctly chained and timed, but keyed otherwise than the request (RFC 8945 5.3: a response is
			// signed with the key and algorithm of the request)
			switch f.Val % 3 {
			case 0: // the other key the receiver holds, algorithm of the request
				k = tsigKey{Name: c.OtherKey.KeyName, Alg: key.Alg, Secret: c.OtherKey.Secret}
				nameOnWire = k.Name
				p.alterAt = "other-configured-key"
			case 1: // the other key with its own algorithm
				k = tsigKey{Name: c.OtherKey.KeyName, Alg: c.OtherKey.Alg, Secret: c.OtherKey.Secret}
				nameOnWire = k.Name
				p.alterAt = "other-configured-key+its-algorithm"
			default: // key of the request, another HMAC algorithm
				for a, alg := range algs {
					if alg == key.Alg {
						k.Alg = algs[(a+1+f.K%(len(algs)-1))%len(algs)]
					}
				}
				if c.AlgSent != "" && c.AlgSent == strings.ToUpper(c.AlgSent) {
					k.Alg = strings.ToUpper(k.Alg)
				}
				p.alterAt = "same-key-other-algorithm"
			}
			p.prefix = true
			if f.otherKeyMust() {
				p.firstBad, p.strong = i, true
			}
		}
		out, mac, tsigOff := tsigSign(mb, k, nameOnWire, o)
		macs = append(macs, mac)
		prev = mac
		if hit && f.Kind == "maclen" {
			// only the LENGTH of the MAC differs (MAC Size and RDLENGTH consistent): a prefix of the
			// genuine MAC, or the genuine MAC plus extra octets. RFC 8945 §5.2.2.1: fewer octets than
			// max(10, half the hash) or more than the hash must be refused; in between local policy decides.
			full := len(mac)
			lens := []int{0, 1, 9, 10, full / 2, full - 1, full + 1, full + 4}
			l := lens[f.Val%len(lens)]
			min := full / 2
			if min < 10 {
				min = 10
			}
			must := l < min || l > full
			nm := append(append([]byte{}, mac...), 0xAA, 0xBB, 0xCC, 0xDD)[:l]
			body := mb
			if l == 0 && f.K%2 == 1 {
				// an empty MAC proves nothing: the envelope may as well carry forged records
				forged := append([]recSpec{}, recs...)
				at := len(forged) - 1
				if at < 1 {
					at = len(forged)
				}
				forged = append(forged[:at:at], append([]recSpec{{T: "A", Owner: "forged", V: 66}}, forged[at:]...)...)
				body = packEnvelope(c, i, forged)
				fr.recs = strs(c.Zone, forged)
				p.alterAt = "0+forged-records"
			} else {
				p.alterAt = macLenName(l, full)
			}
			out, _ = tsigAppend(body, k, nameOnWire, o, nm)
			p.prefix = true
			if must {
				p.firstBad, p.strong = i, true
			}
			fr.b = out
			return fr
		}
		if hit && f.Kind == "strip" {
			p.firstBad, p.strong, p.prefix = i, true, true
			return fr // unsigned
		}
		if hit && f.Kind == "alter" {
			// any octet of the signed envelope, the TSIG RR included; the reference (RFC 8945 §4.2,
			// §4.3.3, §5.3.1) decides whether the alteration must be noticed
			t, ok, err := findTsig(out)
			if err != nil || !ok || t.Off != tsigOff {
				panic("harness: cannot locate own TSIG")
			}
			at := ((f.K % len(out)) + len(out)) % len(out)
			x := byte(f.Val)
			if x == 0 {
				x = 0x20
			}
			where, must := alterClass(out, t, at, x, !o.timersOnly)
			p.alterAt = where
			out = append([]byte{}, out...)
			out[at] ^= x
			p.prefix = true
			if must {
				p.firstBad, p.strong = i, true
			}
		}
		fr.b = out
		return fr
	}
	for i, e := range envs {
		p.frames = append(p.frames, one(i, e, false))
	}
	if !signed && f.Kind == "alter" && n > 0 {
		b := append([]byte{}, p.frames[j].b...)
		x := byte(f.Val)
		if x == 0 {
			x = 0x20
		}
		b[((f.K%len(b))+len(b))%len(b)] ^= x
		p.frames[j].b = b
		// undetectable without TSIG: only termination and close are asserted
	}
	if f.Kind == "runt" && n > 0 {
		// a frame shorter than a DNS header (0..11 octets) in place of envelope j: never a message
		l := f.Val % 12
		p.frames[j].b = append([]byte{}, p.frames[j].b[:l]...)
		p.frames[j].recs = nil
		p.prefix = true
		if signed || j == 0 {
			p.firstBad, p.strong = j, true
		}
	}
	// envelope-level faults
	switch f.Kind {
	case "drop":
		last := j == n-1
		p.frames = append(p.frames[:j:j], p.frames[j+1:]...)
		p.prefix = true
		switch {
		case signed && !last:
			p.firstBad, p.strong = j, true
		case last:
			// the closing envelope never arrives: the stream ends early (or, with TSIG, a trailer breaks the chain)
			p.strong = true
			p.firstBad = len(p.frames)
			if c.Trailer {
				if signed {
					p.firstBad = j
				} else {
					p.firstBad = len(p.frames) + 1
				}
			}
		}
	case "dup":
		last := j == n-1
		d := p.frames[j]
		p.frames = append(p.frames[:j+1:j+1], append([]frame{d}, p.frames[j+1:]...)...)
		p.prefix = true
		if last {
			p.benign = true
		} else if signed {
			p.firstBad, p.strong = j+1, true
		}
	case "swap":
		if n >= 2 {
			if j == n-1 {
				j = n - 2
			}
			p.frames[j], p.frames[j+1] = p.frames[j+1], p.frames[j]
			p.prefix = true
			if signed {
				p.firstBad, p.strong = j, true
			}
		}
	}
	p.nreal = len(p.frames)
	if p.benign {
		p.nreal = n
	}
	if c.Trailer {
		tr := one(n, []recSpec{{T: "A", Owner: "trailer", V: 1}}, true)
		p.frames = append(p.frames, tr)
	}
	realLen := 0
	for i, fr := range p.frames {
		p.stream = binary.BigEndian.AppendUint16(p.stream, uint16(len(fr.b)))
		p.stream = append(p.stream, fr.b...)
		if i == n-1 && (f.Kind == "cut" || f.Kind == "stall") {
			realLen = len(p.stream)
		}
	}
	if (f.Kind == "cut" || f.Kind == "stall") && realLen > 0 {
		k := ((f.K % realLen) + realLen) % realLen
		p.stream = p.stream[:k]
		pos, off := 0, 0
		for i, fr := range p.frames {
			if k < off+2+len(fr.b) {
				pos = i
				break
			}
			off += 2 + len(fr.b)
		}
		p.firstBad, p.strong, p.prefix, p.kind = pos, true, true, "eof"
		if k-off < 2 {
			// not one octet of the next message arrived (at most part of its length prefix): the
			// transport's own error must be reported, not a decoding error of an empty message
			p.kind = "transport"
		}
	}
	return p
}

// ---------------------------------------------------------------------------------------------
// running one history

type envOut struct {
	RR    []string // the records of the envelope as they read when the collection ENDED (channel closed / watchdog): what the caller holds
	Early []string // the same records as they read at the moment the envelope came out of the channel
	Err   error
}

type result struct {
	cutTo       int           // dgram: a datagram of this size did not fit into the receiver's read buffer (0 = none)
	stuck       bool          // the receiver went on waiting for data although the sender had finished and everything sent was consumed
	events      []ioEvent     // deadline / read log of the receiver's end of the stream
	readTimeout time.Duration // Transfer.ReadTimeout in force
	envs        []envOut
	chanClosed  bool
	connClosed  bool // observed at the moment the channel was found closed
	consumed    int
}

func collect(ch chan *dns.Envelope, cli closeObserver, limit time.Duration) result {
	return collectSlow(ch, cli, limit, 0)
}

// collectSlow: a consumer that needs pause between two envelopes.
func collectSlow(ch chan *dns.Envelope, cli closeObserver, limit, pause time.Duration) result {
	return collectUntil(ch, cli, limit, pause, nil)
}

// collectUntil: stuck (optional) is polled every 20 ms; two consecutive positive answers end the
// collection early with result.stuck set (the transfer could only end in the receiver's read timeout).
func collectUntil(ch chan *dns.Envelope, cli closeObserver, limit, pause time.Duration, stuck func() bool) (r result) {
	// The delivered records are HELD until the transfer has ended and only then compared with what was
	// transmitted: a record must not change after it was handed to the caller (e.g. because it shares
	// memory with a receive buffer that is used again for the following envelopes).
	var held [][]dns.RR
	defer func() {
		for i := range r.envs {
			r.envs[i].RR = nil
			for _, rr := range held[i] {
				r.envs[i].RR = append(r.envs[i].RR, rr.String())
			}
		}
	}()
	var tick <-chan time.Time
	if stuck != nil {
		tk := time.NewTicker(20 * time.Millisecond)
		defer tk.Stop()
		tick = tk.C
	}
	hits := 0
	wd := time.NewTimer(limit)
	defer wd.Stop()
	for {
		select {
		case e, ok := <-ch:
			if !ok {
				r.chanClosed = true
				r.connClosed = cli.isClosed()
				r.consumed = cli.consumed()
				return r
			}
			eo := envOut{Err: e.Error}
			for _, rr := range e.RR {
				eo.Early = append(eo.Early, rr.String())
			}
			held = append(held, e.RR)
			r.envs = append(r.envs, eo)
			if pause > 0 {
				time.Sleep(pause)
			}
			if len(r.envs) > 10000 {
				return r
			}
		case <-tick:
			if stuck() {
				if hits++; hits >= 2 {
					r.stuck = true
					return r
				}
			} else {
				hits = 0
			}
		case <-wd.C:
			return r
		}
	}
}

func readFrame(e *endpoint) ([]byte, error) {
	var l [2]byte
	if _, err := io.ReadFull(e, l[:]); err != nil {
		return nil, err
	}
	b := make([]byte, binary.BigEndian.Uint16(l[:]))
	if _, err := io.ReadFull(e, b); err != nil {
		return nil, err
	}
	return b, nil
}

func newTransfer(c xferCase, cli *endpoint) *dns.Transfer {
	if cli == nil {
		return newTransferOn(c, nil)
	}
	return newTransferOn(c, cli)
}

func newTransferOn(c xferCase, conn net.Conn) *dns.Transfer {
	tr := &dns.Transfer{ReadTimeout: 20 * time.Second, WriteTimeout: 20 * time.Second}
	if conn != nil {
		tr.Conn = &dns.Conn{Conn: conn, UDPSize: uint16(c.UDPSize)}
	}
	if c.Tsig != nil {
		tr.TsigSecret = c.secrets()
	}
	if c.Fault.Kind == "stall" {
		tr.ReadTimeout = 40 * time.Millisecond
	} else if c.ReadTimeoutMs > 0 {
		tr.ReadTimeout = time.Duration(c.ReadTimeoutMs) * time.Millisecond
	}
	return tr
}

// runHarnessSender: receiver = dns.Transfer.In over the in-memory stream, sender = this harness.
func runHarnessSender(c xferCase) (result, plan, error) {
	if c.Transport == "dgram" {
		return runDgram(c)
	}
	if c.Dial != "" {
		return runDial(c)
	}
	tr := newTransfer(c, nil)
	// Reuse: the caller keeps ONE dns.Transfer value (its configuration) and hands it a fresh connection
	// for every transfer. Every transfer is a transaction of its own: the earlier ones must complete, and
	// the request of each must be signed as a request (RFC 8945 5.1/4.3.3: no prior MAC, full variables).
	for k := 0; k < c.Reuse; k++ {
		pc := c
		pc.Fault, pc.Trailer, pc.Seg, pc.Reuse = faultSpec{}, false, nil, 0
		tr.ReadTimeout = 20 * time.Second
		r, _, err := streamOnce(pc, tr)
		if err == nil {
			err = checkComplete(pc, r)
		}
		if err != nil {
			return result{}, plan{}, pbt.Errf("transfer %d of %d made with one dns.Transfer value (fresh connection each): %v", k+1, c.Reuse+1, err)
		}
	}
	tr.ReadTimeout = newTransfer(c, nil).ReadTimeout
	r, p, err := streamOnce(c, tr)
	if err != nil && c.Reuse > 0 {
		err = pbt.Errf("transfer %d of %d made with one dns.Transfer value (fresh connection each): %v", c.Reuse+1, c.Reuse+1, err)
	}
	return r, p, err
}

// streamOnce: one transfer over a fresh in-memory stream, received by tr.
func streamOnce(c xferCase, tr *dns.Transfer) (result, plan, error) {
	cli, srv := newPipe()
	cli.in.seg = c.Seg
	tr.Conn = &dns.Conn{Conn: cli, UDPSize: uint16(c.UDPSize)}
	ch, err := tr.In(c.query(), "mem")
	if err != nil {
		return result{}, plan{}, fmt.Errorf("Transfer.In returned %v before anything was sent", err)
	}
	srv.SetReadDeadline(time.Now().Add(watchdog))
	req, err := readFrame(srv)
	if err != nil {
		return result{}, plan{}, fmt.Errorf("request not readable from the stream: %v", err)
	}
	var reqMAC []byte
	if c.Tsig != nil {
		// the request itself must be signed as RFC 8945 says (no prior MAC, full variables)
		mac, err := refVerify(req, c.key(), nil, false)
		if err != nil {
			srv.Close()
			for range ch { // let the receiver run into the end of the stream
			}
			return result{}, plan{}, fmt.Errorf("request TSIG: a sender verifying per RFC 8945 (request: no prior MAC, complete TSIG variables) refuses it: %v", err)
		}
		reqMAC = mac
	}
	p := buildPlan(c, reqMAC, uint64(time.Now().Unix()))
	if c.PaceMs > 0 && c.Fault.Kind == "" {
		// a slow but steady sender: every envelope arrives well within ReadTimeout of the previous one
		go func() {
			for _, fr := range p.frames {
				time.Sleep(time.Duration(c.PaceMs) * time.Millisecond)
				srv.Write(append(binary.BigEndian.AppendUint16(nil, uint16(len(fr.b))), fr.b...))
			}
			srv.closeWrite()
		}()
	} else {
		srv.Write(p.stream)
	}
	if c.Fault.Kind != "stall" && !(c.PaceMs > 0 && c.Fault.Kind == "") {
		srv.closeWrite()
	} // stall: the sender keeps the stream open and sends nothing more; the receiver's ReadTimeout must end the transfer
	limit := watchdog
	if c.Fault.Kind == "stall" {
		limit = 10 * time.Second // 250 x the shortened read timeout
	}
	r := collectSlow(ch, cli, limit, time.Duration(c.ConsumerMs)*time.Millisecond)
	r.events = cli.readEvents()
	r.readTimeout = tr.ReadTimeout
	srv.Close()
	return r, p, nil
}

// runDgram: the receiver is given a datagram Conn; the harness answers the IXFR query with one
// datagram per envelope (usually a single one).
func runDgram(c xferCase) (result, plan, error) {
	cli := newDgramConn()
	tr := newTransferOn(c, cli)
	ch, err := tr.In(c.query(), "mem")
	if err != nil {
		return result{}, plan{}, fmt.Errorf("Transfer.In returned %v before anything was sent", err)
	}
	req, err := cli.takeRequest(watchdog)
	if err != nil {
		return result{}, plan{}, err
	}
	var reqMAC []byte
	if c.Tsig != nil {
		mac, err := refVerify(req, c.key(), nil, false)
		if err != nil {
			return result{}, plan{}, fmt.Errorf("request TSIG: %v", err)
		}
		reqMAC = mac
	}
	p := buildPlan(c, reqMAC, uint64(time.Now().Unix()))
	var ds [][]byte
	for _, fr := range p.frames {
		ds = append(ds, fr.b)
	}
	cli.deliver(ds)
	r := collect(ch, cli, watchdog)
	r.readTimeout = tr.ReadTimeout
	cli.mu.Lock()
	r.cutTo = cli.cutTo
	cli.mu.Unlock()
	if !cli.isClosed() {
		cli.Close()
	}
	return r, p, nil
}

// serveOut runs the library's Transfer.Out behind a dns.Server on an in-memory listener and returns
// the client end of a fresh connection plus a stop function.
type outServer struct {
	srv     *dns.Server
	lis     *memListener
	done    chan error
	status  chan string // one entry per handled request
	handled int32       // requests whose handler has returned
	hmu     sync.Mutex
	handoff map[uint16][]int64 // request ID -> wall-clock second at which each envelope was handed to Transfer.Out's channel
	envs    [][]dns.RR
	trailer bool
	zone    string
}

func startOutServer(c xferCase) (*outServer, error) {
	o := &outServer{lis: newMemListener(), done: make(chan error, 1), status: make(chan string, 16), zone: c.Zone, handoff: map[uint16][]int64{}}
	multi := c.multi()
	for _, e := range c.envelopes() {
		var rrs []dns.RR
		for _, r := range e {
			rrs = append(rrs, r.rr(c.Zone))
		}
		o.envs = append(o.envs, rrs)
	}
	if c.Trailer && !multi {
		o.envs = append(o.envs, []dns.RR{recSpec{T: "A", Owner: "trailer", V: 1}.rr(c.Zone)})
	}
	started := make(chan struct{})
	o.srv = &dns.Server{Listener: o.lis, ReadTimeout: time.Hour, NotifyStartedFunc: func() { close(started) }}
	if c.Tsig != nil {
		o.srv.TsigSecret = c.secrets()
	}
	o.srv.Handler = dns.HandlerFunc(func(w dns.ResponseWriter, r *dns.Msg) {
		defer atomic.AddInt32(&o.handled, 1)
		st := "unsigned"
		if r.IsTsig() != nil {
			if err := w.TsigStatus(); err != nil {
				st = "tsig-status:" + err.Error()
			} else {
				st = "signed-ok"
			}
		}
		o.status <- st
		if qt := r.Question[0].Qtype; qt != dns.TypeAXFR && qt != dns.TypeIXFR {
			// an ordinary query on the same connection: one answer, signed when the request was
			m := new(dns.Msg)
			m.SetReply(r)
			m.Answer = []dns.RR{plainAnswer(c.Zone)}
			if t := r.IsTsig(); t != nil && w.TsigStatus() == nil {
				m.SetTsig(t.Hdr.Name, t.Algorithm, t.Fudge, time.Now().Unix())
			}
			w.WriteMsg(m)
			return
		}
		ch := make(chan *dns.Envelope)
		tr := new(dns.Transfer)
		fin := make(chan error, 1)
		go func() { fin <- tr.Out(w, r, ch) }()
		finished := false
	loop:
		for k, e := range o.envs {
			if c.ProducerMs > 0 && k == len(o.envs)-1 && k > 0 {
				time.Sleep(time.Duration(c.ProducerMs) * time.Millisecond) // a producer that needs time for the rest of the zone
			}
			o.hmu.Lock()
			o.handoff[r.Id] = append(o.handoff[r.Id], time.Now().Unix())
			o.hmu.Unlock()
			select {
			case ch <- &dns.Envelope{RR: e}:
			case <-fin:
				finished = true
				break loop
			}
		}
		close(ch)
		if !finished {
			<-fin
		}
		if !multi {
			w.Close()
		} // several requests per connection: the client ends the connection
	})
	go func() { o.done <- o.srv.ActivateAndServe() }()
	select {
	case <-started:
	case <-time.After(watchdog):
		return nil, errors.New("server did not start")
	}
	return o, nil
}

func (o *outServer) stop() error {
	e := make(chan error, 1)
	go func() { e <- o.srv.Shutdown() }()
	select {
	case err := <-e:
		if err != nil {
			return fmt.Errorf("Shutdown: %v", err)
		}
	case <-time.After(watchdog):
		return errors.New("Shutdown of the sending server did not return")
	}
	select {
	case <-o.done:
	case <-time.After(watchdog):
		return errors.New("ActivateAndServe did not return after Shutdown")
	}
	return nil
}

// ---------------------------------------------------------------------------------------------
// oracle

func errKind(err error) string {
	switch {
	case err == nil:
		return "nil"
	case errors.Is(err, dns.ErrId):
		return "id"
	case errors.Is(err, dns.ErrSoa):
		return "soa"
	case strings.Contains(err.Error(), "bad xfr rcode"):
		return "rcode"
	case errors.Is(err, io.EOF), errors.Is(err, io.ErrUnexpectedEOF):
		return "eof"
	case errors.Is(err, os.ErrDeadlineExceeded):
		return "timeout"
	case errors.Is(err, dns.ErrAuth):
		return "auth"
	case errors.Is(err, dns.ErrSig), errors.Is(err, dns.ErrNoSig), errors.Is(err, dns.ErrSecret), errors.Is(err, dns.ErrKeyAlg), errors.Is(err, dns.ErrTime):
		return "tsig"
	}
	return "other"
}

func eqStrs(a, b []string) bool {
	if len(a) != len(b) {
		return false
	}
	for i := range a {
		if a[i] != b[i] {
			return false
		}
	}
	return true
}

func describe(r result) string {
	var sb strings.Builder
	for i, e := range r.envs {
		fmt.Fprintf(&sb, "[%d: %d rr err=%v] ", i, len(e.RR), e.Err)
	}
	fmt.Fprintf(&sb, "chanClosed=%v connClosed=%v consumed=%d", r.chanClosed, r.connClosed, r.consumed)
	return sb.String()
}

// checkDeadlines: ReadTimeout bounds the wait for EACH envelope, not the transfer as a whole
// (a long or slow but steady transfer must not be cut). Schedule-independent form: the first
// octets of every envelope are read under a read deadline that was set after the previous envelope
// had been read completely, and that deadline lies about ReadTimeout ahead.
func checkDeadlines(p plan, r result) error {
	off := 0
	lastDone := -1 // index of the Read event that completed the previous envelope
	for k, fr := range p.frames {
		start := off
		off += 2 + len(fr.b)
		if start >= len(p.stream) {
			break
		}
		first := -1
		for i, e := range r.events {
			if e.kind == 'R' && e.after > start {
				first = i
				break
			}
		}
		if first < 0 {
			break // the receiver never got to this envelope
		}
		fresh := false
		var slack time.Duration
		for i := lastDone + 1; i < first; i++ {
			if e := r.events[i]; e.kind == 'D' && !e.deadline.IsZero() {
				fresh = true
				slack = e.deadline.Sub(e.at)
			}
		}
		if !fresh {
			return pbt.Errf("envelope %d was read under a read deadline set before envelope %d had been received: ReadTimeout bounds the whole transfer instead of the wait for one envelope (a steady transfer longer than ReadTimeout would be cut)", k, k-1)
		}
		// (the harness reads the clock after the library did: a loaded machine only makes slack smaller)
		if (r.readTimeout >= 10*time.Second && slack < r.readTimeout-5*time.Second) || slack > r.readTimeout+time.Second {
			return pbt.Errf("envelope %d: read deadline set %v ahead, ReadTimeout is %v", k, slack, r.readTimeout)
		}
		for i := len(r.events) - 1; i >= 0; i-- {
			if e := r.events[i]; e.kind == 'R' && e.after <= off && e.after > start {
				lastDone = i
				break
			}
		}
	}
	return nil
}

func (c xferCase) timed() bool { return c.PaceMs > 0 || c.ConsumerMs > 0 }

// checkTimed: real-time form of the same requirement. The transfer lasts longer than ReadTimeout
// while every envelope follows the previous one well within it: it must complete. A timeout is only
// held against the library when the expired deadline was a stale one (set before the previous
// envelope arrived); if even a fresh deadline expired the machine was too slow to tell.
func checkTimed(c xferCase, p plan, r result) error {
	err := checkComplete(c, r)
	if err == nil {
		pbt.Class("timed=completed")
		return nil
	}
	if fe := firstErr(r); fe != nil && errors.Is(fe, os.ErrDeadlineExceeded) {
		if derr := checkDeadlines(p, r); derr != nil {
			return pbt.Errf("steady transfer (envelope every %d ms, consumer pause %d ms, ReadTimeout %d ms) was cut: %v; %v", c.PaceMs, c.ConsumerMs, c.ReadTimeoutMs, err, derr)
		}
		pbt.Class("timed=too-slow-to-tell")
		return nil
	}
	return err
}

// common part: the channel closes, and the receiver has closed the connection by then.
func checkTermination(r result) error {
	if r.stuck {
		return pbt.Errf("the sender delivered the complete transfer and went idle, every octet was consumed, but the receiver keeps waiting for more envelopes instead of ending at the closing SOA (it would end in a read timeout): %s", describe(r))
	}
	if !r.chanClosed {
		return pbt.Errf("the envelope channel was not closed within the watchdog time (%v; 10s for a stalled sender): %s", watchdog, describe(r))
	}
	if !r.connClosed {
		return pbt.Errf("the channel was closed but the receiver had not closed the connection: %s", describe(r))
	}
	return checkStable(r)
}

// checkStable: what was delivered stays what was delivered. Every record is read twice - when its
// envelope comes out of the channel and when the transfer has ended - and must read the same.
func checkStable(r result) error {
	for i, e := range r.envs {
		if !eqStrs(e.Early, e.RR) {
			k := firstDiff(e.Early, e.RR)
			was, is := "(none)", "(none)"
			if k < len(e.Early) {
				was = e.Early[k]
			}
			if k < len(e.RR) {
				is = e.RR[k]
			}
			return pbt.Errf("record %d of envelope %d (of %d) changed AFTER it had been delivered through the channel: on arrival it read\n  %s\nat the end of the transfer the caller holds\n  %s\n(the delivered record shares memory with something the receiver went on writing to, e.g. a receive buffer used for the following envelopes)", k, i, len(r.envs), was, is)
		}
	}
	return nil
}

// fault-free: exactly the transmitted records, in order, no Error, nothing after the closing SOA.
func checkComplete(c xferCase, r result) error {
	if err := checkTermination(r); err != nil {
		return err
	}
	var got []string
	for i, e := range r.envs {
		if e.Err != nil {
			return pbt.Errf("fault-free history: envelope %d carries error %v: %s", i, e.Err, describe(r))
		}
		got = append(got, e.RR...)
	}
	want := strs(c.Zone, c.flat())
	if !eqStrs(got, want) {
		return pbt.Errf("fault-free history: delivered %d records, transmitted %d (up to the closing SOA); first difference at %d: %s\n got  %q\n want %q",
			len(got), len(want), firstDiff(got, want), describe(r), got, want)
	}
	return nil
}

func firstDiff(a, b []string) int {
	for i := 0; i < len(a) && i < len(b); i++ {
		if a[i] != b[i] {
			return i
		}
	}
	if len(a) < len(b) {
		return len(a)
	}
	return len(b)
}

func checkFaulty(c xferCase, p plan, r result) error {
	if err := checkTermination(r); err != nil {
		return err
	}
	m := 0 // error-free envelopes before the first error
	var first error
	for _, e := range r.envs {
		if e.Err != nil {
			first = e.Err
			break
		}
		m++
	}
	if p.prefix {
		for i := 0; i < m; i++ {
			if i >= len(p.frames) {
				return pbt.Errf("envelope %d delivered but only %d were sent: %s", i, len(p.frames), describe(r))
			}
			if !eqStrs(r.envs[i].RR, p.frames[i].recs) {
				return pbt.Errf("error-free envelope %d does not carry what was sent at that position:\n got  %q\n sent %q", i, r.envs[i].RR, p.frames[i].recs)
			}
		}
	}
	if !p.strong {
		return nil
	}
	if first == nil {
		return pbt.Errf("fault %+v: the transfer was reported without any error: %s", c.Fault, describe(r))
	}
	if m > p.firstBad {
		return pbt.Errf("fault %+v: %d envelopes were delivered error-free, the error was due at position %d at the latest: %s", c.Fault, m, p.firstBad, describe(r))
	}
	k := errKind(first)
	switch p.kind {
	case "id", "soa":
		if k != p.kind {
			return pbt.Errf("fault %+v: expected error kind %s, got %v", c.Fault, p.kind, first)
		}
	case "rcode":
		if k != "rcode" && !(c.Tsig != nil && p.rcode == dns.RcodeNotAuth && k == "auth") {
			return pbt.Errf("fault %+v: expected a bad-rcode error, got %v", c.Fault, first)
		}
	case "transport":
		want := "eof"
		if c.Fault.Kind == "stall" {
			want = "timeout"
		}
		if k != want {
			return pbt.Errf("fault %+v: the stream ended (or stalled) before any octet of the next envelope: expected the transport's %s error, got %v", c.Fault, want, first)
		}
	case "eof":
		if k == "id" || k == "soa" || k == "rcode" {
			return pbt.Errf("fault %+v (stream ends early): reported as %v", c.Fault, first)
		}
	}
	return nil
}

// rolledTransfer: what happened under the key name of the case before its secret was changed - a short
// signed AXFR ([SOA] [A SOA]) received by a dns.Transfer value of its own whose key set maps the key name
// to the EARLIER secret, sent by the harness's reference signer with that secret.
func (c xferCase) rolledTransfer() xferCase {
	return xferCase{Mode: "axfr", Zone: c.Zone, QID: c.QID ^ 0x5aa5, Serial: c.Serial, Recs: []recSpec{{T: "A", Owner: "www", V: 1}}, Sizes: []int{1, 2},
		Tsig: &tsigSpec{KeyName: c.Tsig.KeyName, Alg: c.Tsig.Alg, Secret: c.RolledFrom}, Sender: "harness"}
}

// checkXfer: one history. A key roll-over under an unchanged key name (RolledFrom) puts a complete transfer
// with the earlier secret in front of it: which secret signs and verifies is decided by the key set of the
// dns.Transfer (dns.Server) in hand, whatever was used under that name before.
func checkXfer(c xferCase) error {
	if why := c.valid(); why != "" {
		pbt.Note(nil, false, "invalid-case")
		return nil
	}
	if len(c.RolledFrom) == 0 {
		return checkXfer1(c)
	}
	pc := c.rolledTransfer()
	r, _, err := streamOnce(pc, newTransfer(pc, nil))
	if err == nil {
		err = checkComplete(pc, r)
	}
	if err != nil {
		kb, _ := json.Marshal(c)
		pbt.Note(kb, true, "key-rolled-over-under-one-name")
		return pbt.Errf("transfer signed with the earlier secret of key %q (receiver configured with that secret): %v", c.Tsig.KeyName, err)
	}
	if err := checkXfer1(c); err != nil {
		return pbt.Errf("after a transfer made by ANOTHER dns.Transfer value with an earlier secret under the same key name %q: %v", c.Tsig.KeyName, err)
	}
	return nil
}

func checkXfer1(c xferCase) error {
	kb, _ := json.Marshal(c)
	nenv := len(c.Sizes)
	classes := []string{"mode=" + c.Mode, "sender=" + c.Sender, fmt.Sprintf("tsig=%v", c.Tsig != nil), "fault=" + orNone(c.Fault.Kind),
		"envs=" + bucket(nenv), "recs=" + bucket(len(c.flat())), fmt.Sprintf("seg=%v", len(c.Seg) > 0), fmt.Sprintf("trailer=%v", c.Trailer)}
	if c.Mode == "ixfr" {
		classes = append(classes, fmt.Sprintf("diffs=%d", len(c.Diffs)))
	}
	if qc := c.qnameClass(); qc != "qname=as-served" {
		mode := "ixfr"
		if c.Mode == "axfr" {
			mode = "axfr"
		}
		classes = append(classes, qc, qc+"/question="+mode)
	}
	if c.wrapClass() {
		classes = append(classes, "serial-wrap")
	}
	classes = append(classes, c.typeClasses()...)
	if c.OtherKey != nil {
		classes = append(classes, "receiver-holds-two-keys")
	}
	if len(c.RolledFrom) > 0 {
		classes = append(classes, "key-rolled-over-under-one-name", "key-rolled-over/sender="+c.Sender+"/fault="+orNone(c.Fault.Kind))
	}
	if nenv >= 2 && c.Sizes[0] == 1 {
		// the opening SOA travels alone and more envelopes follow (RFC 5936 2.2: any composition is legal); with
		// TSIG the second envelope is the first one digested with the timers only (RFC 8945 5.3.1)
		q := "ixfr"
		if c.Mode == "axfr" {
			q = "axfr"
		}
		classes = append(classes, fmt.Sprintf("first-envelope=lone-soa+more-follow/tsig=%v/question=%s", c.Tsig != nil, q))
	}
	if qc := c.questionClass(nenv); qc != "" {
		// a sender other than this library: only the first message of the answer must carry the question
		q := "ixfr"
		if c.Mode == "axfr" {
			q = "axfr"
		}
		classes = append(classes, qc, fmt.Sprintf("%s/question=%s/tsig=%v", qc, q, c.Tsig != nil), "question-in-later-envelopes-omitted/fault="+orNone(c.Fault.Kind))
	}
	if c.KeyNameSent != "" {
		classes = append(classes, "tsig-key-name-sent-in-other-letter-case", "tsig-key-name-sent-in-other-letter-case/fault="+orNone(c.Fault.Kind))
	}
	if c.AlgSent != "" {
		classes = append(classes, "tsig-algorithm-name-sent-in-other-letter-case", "tsig-algorithm-name-sent-in-other-letter-case/fault="+orNone(c.Fault.Kind))
	}
	if c.Reuse > 0 {
		classes = append(classes, fmt.Sprintf("reused-transfer=%d/tsig=%v/sender=%s", c.Reuse, c.Tsig != nil, c.Sender))
		if c.reuseTimersClass() {
			classes = append(classes, "reused-transfer/after-a-signed-multi-envelope-state")
		}
	}
	if c.Transport == "dgram" {
		sz := 0
		for i, e := range c.envelopes() {
			if n := len(packEnvelope(c, i, e)) + c.tsigRRLen(); n > sz {
				sz = n
			}
		}
		eff := c.UDPSize
		if eff < 512 {
			eff = 512
		}
		classes = append(classes, "transport=dgram", fmt.Sprintf("dgram/udpsize=%d", c.UDPSize), fmt.Sprintf("dgram/answer>max(512,UDPSize)=%v", sz > eff), fmt.Sprintf("dgram/datagrams=%s", bucket(len(c.Sizes))))
	}
	if c.multi() {
		classes = append(classes, fmt.Sprintf("rounds=%d", len(c.Rounds)), fmt.Sprintf("rounds/tsig=%v", c.Tsig != nil))
	}
	if sz := c.maxEnvelopeLen(); sz >= 65533 {
		classes = append(classes, fmt.Sprintf("envelope-size=%d", sz), fmt.Sprintf("envelope-64k/tsig=%v/sender=%s", c.Tsig != nil, c.Sender))
	} else if sz > 16384 {
		classes = append(classes, "envelope-size>16k")
	}
	nontrivial := nenv >= 2 || c.Mode == "ixfr" || c.Fault.Kind != ""
	if c.Fault.Kind != "" {
		classes = append(classes, fmt.Sprintf("fault=%s/tsig=%v", c.Fault.Kind, c.Tsig != nil))
	}
	if k := c.Fault.Kind; (k == "id" || k == "rcode") && nenv > 0 {
		q, pos := "ixfr", "first"
		if c.Mode == "axfr" {
			q = "axfr"
		}
		if j := ((c.Fault.Env % nenv) + nenv) % nenv; j == nenv-1 && j > 0 {
			pos = "last"
		} else if j > 0 {
			pos = "middle"
		}
		classes = append(classes, fmt.Sprintf("%s-in-envelope=%s/question=%s", k, pos, q))
		if k == "rcode" {
			classes = append(classes, fmt.Sprintf("rcode-answer-emptied=%v", c.Fault.K%2 == 1))
		}
	}

	if c.BadRequest != "" {
		pbt.Note(kb, true, append(classes, "bad-request="+c.BadRequest)...)
		return checkBadRequest(c)
	}
	if c.Dial != "" {
		classes = append(classes, "dial="+c.Dial)
	}
	switch c.Sender {
	case "harness":
		r, p, err := runHarnessSender(c)
		if err != nil {
			pbt.Note(kb, nontrivial, classes...)
			return err
		}
		switch {
		case c.Fault.Kind == "" || p.benign:
			classes = append(classes, "expect=complete")
			if p.benign {
				classes = append(classes, "benign-fault")
			}
		case p.strong:
			classes = append(classes, "expect=error", "errkind="+errKind(firstErr(r)))
			if p.alterAt != "" {
				classes = append(classes, fmt.Sprintf("%s=%s/first=%v/must", c.Fault.Kind, p.alterAt, c.Fault.Env%len(c.Sizes) == 0))
			}
		default:
			classes = append(classes, "expect=terminates-only")
			if p.alterAt != "" {
				classes = append(classes, fmt.Sprintf("%s=%s/first=%v/may(detected=%v)", c.Fault.Kind, p.alterAt, c.Fault.Env%len(c.Sizes) == 0, firstErr(r) != nil))
			}
		}
		if len(r.envs) > 0 && firstErr(r) == nil && len(r.envs) == nenv {
			classes = append(classes, "envelope-boundaries-preserved")
		}
		pbt.Note(kb, nontrivial, classes...)
		if c.Fault.Kind != "" {
			pbt.Sample("fault="+c.Fault.Kind, fmt.Sprintf("%s tsig=%v sizes=%v fault=%+v -> %s", c.Mode, c.Tsig != nil, c.Sizes, c.Fault, describe(r)))
		}
		if c.timed() && c.Fault.Kind == "" {
			return checkTimed(c, p, r)
		}
		if c.Transport == "dgram" {
			if c.Fault.Kind == "" {
				if err := checkComplete(c, r); err != nil {
					if r.cutTo > 0 {
						return pbt.Errf("IXFR over a datagram conn (UDPSize %d): an answer of %d octets was read into a smaller buffer and cut: %v", c.UDPSize, r.cutTo, err)
					}
					return err
				}
				return nil
			}
			return checkFaulty(c, p, r)
		}
		if c.Dial == "refused" {
			return nil // runDial has classified it: an error was returned (or the port was taken)
		}
		if c.Dial == "" {
			if err := checkDeadlines(p, r); err != nil {
				return err
			}
		}
		if c.Fault.Kind == "" || p.benign {
			return checkComplete(c, r)
		}
		return checkFaulty(c, p, r)
	case "library":
		pbt.Note(kb, nontrivial, classes...)
		return checkLibrarySender(c)
	case "libout":
		pbt.Note(kb, nontrivial, classes...)
		return checkLibOut(c)
	}
	return nil
}

func firstErr(r result) error {
	for _, e := range r.envs {
		if e.Err != nil {
			return e.Err
		}
	}
	return nil
}

func orNone(s string) string {
	if s == "" {
		return "none"
	}
	return s
}

func bucket(n int) string {
	switch {
	case n <= 3:
		return fmt.Sprint(n)
	case n <= 8:
		return "4-8"
	case n <= 20:
		return "9-20"
	}
	return "21+"
}

// checkLibrarySender: sender = Transfer.Out behind a dns.Server, receiver = Transfer.In; both
// halves of the library must interoperate (optionally with the stream cut after octet k).
func checkLibrarySender(c xferCase) error {
	o, err := startOutServer(c)
	if err != nil {
		return err
	}
	cli, _ := o.lis.dial()
	cli.in.seg = c.Seg
	if c.multi() {
		err := libraryRounds(c, o, cli)
		cli.Close()
		if serr := o.stop(); err == nil {
			err = serr
		}
		return err
	}
	// length of the fault-free stream as this harness would write it (same messages, same TSIG sizes)
	var mac []byte
	if c.Tsig != nil {
		mac = make([]byte, macLen(c.Tsig.Alg))
	}
	cc := c
	cc.Fault = faultSpec{}
	cc.Trailer = false
	cc.Compress = false
	total := len(buildPlan(cc, mac, 1).stream)
	cut := -1
	if c.Fault.Kind == "cut" {
		cut = ((c.Fault.K % total) + total) % total
		cli.in.mu.Lock()
		cli.in.cut = cut
		cli.in.mu.Unlock()
	}
	tr := newTransfer(c, cli)
	ch, err := tr.In(c.query(), "mem")
	if err != nil {
		o.stop()
		return fmt.Errorf("Transfer.In returned %v", err)
	}
	r := collect(ch, cli, watchdog)
	stopErr := o.stop()
	var st string
	select {
	case st = <-o.status:
	default:
		st = "handler-not-called"
	}
	if stopErr != nil {
		return stopErr
	}
	if c.Tsig != nil && st != "signed-ok" || c.Tsig == nil && st != "unsigned" {
		return pbt.Errf("sending server saw the request as %q", st)
	}
	cli.in.mu.Lock()
	written := cli.in.written
	cli.in.mu.Unlock()
	if cut < 0 && !c.Trailer && written != total {
		return pbt.Errf("harness self-check: Transfer.Out wrote %d octets, the harness expected %d for the same envelopes", written, total)
	}
	if cut >= 0 {
		if err := checkTermination(r); err != nil {
			return err
		}
		envs := c.envelopes()
		m := 0
		var first error
		for _, e := range r.envs {
			if e.Err != nil {
				first = e.Err
				break
			}
			if m >= len(envs) || !eqStrs(e.RR, strs(c.Zone, envs[m])) {
				return pbt.Errf("cut stream: error-free envelope %d is not the %d-th envelope sent: %s", m, m, describe(r))
			}
			m++
		}
		if first == nil {
			return pbt.Errf("stream cut after octet %d of %d written, but no error was reported: %s", cut, written, describe(r))
		}
		return nil
	}
	return checkComplete(c, r)
}

// checkLibOut: sender = Transfer.Out behind a dns.Server, receiver = this harness with the
// reference TSIG verifier: the sending side must produce one message per envelope with the
// request's ID and a MAC chain as RFC 8945 §5.3.1 describes it.
func checkLibOut(c xferCase) error {
	o, err := startOutServer(c)
	if err != nil {
		return err
	}
	cli, _ := o.lis.dial()
	cli.in.seg = c.Seg
	err = refRounds(c, o, cli)
	cli.Close()
	if serr := o.stop(); err == nil {
		err = serr
	}
	return err
}

// ---------------------------------------------------------------------------------------------
// generators

var recKinds = []string{"A", "A", "AAAA", "TXT", "TXTBIG", "MX", "NS", "CNAME"}
var owners = []string{"", "www", "a.b", "r1", "r2", "r3", "Mixed", "x-y", "_srv._tcp"}
var zones = []string{"example.", "z.", "Sub.Example.ORG.", "."}
var algs = []string{dns.HmacSHA1, dns.HmacSHA224, dns.HmacSHA256, dns.HmacSHA384, dns.HmacSHA512}
var keyNames = []string{"xfr-key.", "k.", "key.example.org."}

func genRecs(t *rapid.T, max int, label string, typed bool) []recSpec {
	n := 0
	if max > 0 {
		if rapid.IntRange(0, 2).Draw(t, label+"small") > 0 {
			m := 5
			if m > max {
				m = max
			}
			n = rapid.IntRange(0, m).Draw(t, label+"n")
		} else {
			n = rapid.IntRange(0, max).Draw(t, label+"N")
		}
	}
	out := make([]recSpec, n)
	for i := range out {
		if typed && rapid.Bool().Draw(t, "typed-rec") {
			// a record of any type of the layout table; a draw outside the domain (not stable under a plain
			// pack/unpack - C01's matter) is replaced by a plain kind
			if r, ok := genTyped(t); ok {
				out[i] = r
				continue
			}
		}
		out[i] = recSpec{
			T:     rapid.SampledFrom(recKinds).Draw(t, "kind"),
			Owner: rapid.SampledFrom(owners).Draw(t, "owner"),
			V:     uint32(rapid.IntRange(0, 1<<20).Draw(t, "v")),
		}
	}
	return out
}

func genSizes(t *rapid.T, n int) []int {
	switch rapid.IntRange(0, 5).Draw(t, "part") {
	case 0:
		return []int{n}
	case 1:
		out := make([]int, n)
		for i := range out {
			out[i] = 1
		}
		return out
	case 2: // the leading SOA alone, the rest in one
		if n >= 2 {
			return []int{1, n - 1}
		}
		return []int{n}
	}
	var out []int
	left := n
	for left > 0 {
		m := left
		if m > 8 && rapid.Bool().Draw(t, "smallenv") {
			m = 8
		}
		s := rapid.IntRange(1, m).Draw(t, "size")
		out = append(out, s)
		left -= s
	}
	return out
}

// genQName: another spelling of the zone name for the question - letter case (all letters flipped,
// or a generated subset) and/or \DDD / \c escapes of single octets. The sender keeps its own spelling.
func genQName(t *rapid.T, zone string) string {
	n := wm.MustName(zone)
	flipAll := func() wm.Name {
		o := n.Clone()
		for _, l := range o {
			for i, ch := range l {
				if ch >= 'a' && ch <= 'z' || ch >= 'A' && ch <= 'Z' {
					l[i] = ch ^ 0x20
				}
			}
		}
		return o
	}
	var q string
	switch rapid.IntRange(0, 4).Draw(t, "qkind") {
	case 0:
		q = wm.EscName(flipAll())
	case 1:
		q = wm.EscName(n.Lower())
	case 2:
		q = wm.EscName(gen.FlipCase(t, n))
	case 3:
		q = gen.SpellName(t, n)
	default:
		q = gen.SpellName(t, gen.FlipCase(t, n))
	}
	if q == zone {
		q = wm.EscName(flipAll())
	}
	return q
}

var strongPlain = []string{"id", "rcode", "nosoa", "cut", "cut", "drop", "runt"}
var strongTsig = []string{"id", "rcode", "nosoa", "cut", "alter", "alter", "strip", "wrongkey", "otherkey", "otherkey", "chain", "chain", "drop", "dup", "swap", "stale", "runt", "maclen", "maclen"}
var otherKeyNames = []string{"other.", "xfr-key2.", "k.example.org."}

func genOtherKey(t *rapid.T) *tsigSpec {
	return &tsigSpec{
		KeyName: rapid.SampledFrom(otherKeyNames).Draw(t, "key2"),
		Alg:     rapid.SampledFrom(algs).Draw(t, "alg2"),
		Secret:  rapid.SliceOfN(rapid.Byte(), 1, 64).Draw(t, "secret2"),
	}
}
var weakPlain = []string{"alter", "dup", "swap"}

func genCase(t *rapid.T) xferCase {
	var c xferCase
	c.Mode = rapid.SampledFrom([]string{"axfr", "axfr", "axfr", "ixfr", "ixfr", "ixfr", "uptodate", "axfrstyle", "axfrstyle"}).Draw(t, "mode")
	c.Zone = rapid.SampledFrom(zones).Draw(t, "zone")
	if c.Zone != "." && rapid.IntRange(0, 2).Draw(t, "qspell") == 0 {
		c.QName = genQName(t, c.Zone)
	}
	c.QID = uint16(rapid.IntRange(0, 65535).Draw(t, "qid"))
	typed := rapid.Bool().Draw(t, "typed-zone") // the bodies hold records of every type of the layout table
	base := uint32(rapid.IntRange(0, 4_000_000_000).Draw(t, "serial"))
	switch rapid.IntRange(0, 9).Draw(t, "serial-region") {
	case 0:
		base = uint32(rapid.IntRange(0, 3).Draw(t, "serial0"))
	case 1, 2: // just below 2^32: the serial wraps between versions (RFC 1982)
		base = 0xFFFFFFFF - uint32(rapid.IntRange(0, 4).Draw(t, "serialmax"))
	case 3: // around 2^31
		base = 0x80000000 - uint32(rapid.IntRange(0, 4).Draw(t, "serialmid"))
	}
	step := func() uint32 {
		if rapid.Bool().Draw(t, "bigstep") {
			return uint32(rapid.IntRange(1, 1<<24).Draw(t, "step"))
		}
		return uint32(rapid.IntRange(1, 3).Draw(t, "step1"))
	}
	switch c.Mode {
	case "axfr":
		c.Serial = base
		c.Recs = genRecs(t, 40, "z", typed)
	case "axfrstyle":
		c.QSerial = base
		c.Serial = base + step()
		c.Recs = genRecs(t, 40, "z", typed)
	case "uptodate":
		c.Serial = base
		c.QSerial = base
		if rapid.Bool().Draw(t, "older") {
			c.QSerial = base + step()
		}
	case "ixfr":
		k := rapid.IntRange(1, 3).Draw(t, "diffs")
		c.QSerial = base
		from := base
		if base > 10 && rapid.IntRange(0, 4).Draw(t, "condensed") == 0 {
			from = base - uint32(rapid.IntRange(1, 10).Draw(t, "back")) // server starts from an older version
		}
		cur := from
		for i := 0; i < k; i++ {
			to := cur + step()
			if !serialLess(c.QSerial, to) { // the chain must end past the requester's serial
				to = c.QSerial + step()
			}
			c.Diffs = append(c.Diffs, diffSpec{From: cur, To: to, Del: genRecs(t, 6, "del", typed), Add: genRecs(t, 6, "add", typed)})
			cur = to
		}
		c.Serial = cur
	}
	big := c.Mode != "uptodate" && rapid.IntRange(0, 79).Draw(t, "bigenv") == 7
	if big {
		// one envelope padded to (almost) the largest message the two-octet length prefix allows
		fill := recSpec{T: "FILL", Owner: "fill", V: 1}
		if c.Mode == "ixfr" {
			d := rapid.IntRange(0, len(c.Diffs)-1).Draw(t, "filldiff")
			c.Diffs[d].Add = append(c.Diffs[d].Add, fill)
		} else {
			at := rapid.IntRange(0, len(c.Recs)).Draw(t, "fillat")
			c.Recs = append(c.Recs[:at:at], append([]recSpec{fill}, c.Recs[at:]...)...)
		}
	}
	if c.wrapClass() && pbt.Known(knownWrap) {
		// known finding: the receiver compares serials numerically; re-base the same history to small serials
		pbt.Excluded(knownWrap)
		c = c.rebased()
	}
	c.Sizes = genSizes(t, len(c.flat()))
	if rapid.Bool().Draw(t, "tsig") {
		c.Tsig = &tsigSpec{
			KeyName: rapid.SampledFrom(keyNames).Draw(t, "key"),
			Alg:     rapid.SampledFrom(algs).Draw(t, "alg"),
			Secret:  rapid.SliceOfN(rapid.Byte(), 1, 64).Draw(t, "secret"),
		}
		if rapid.IntRange(0, 3).Draw(t, "two-keys") == 0 {
			c.OtherKey = genOtherKey(t) // the receiver holds a second key; nothing else changes
		}
		if rapid.IntRange(0, 7).Draw(t, "rolled") == 0 {
			// the key name had another secret before, and a transfer was made with it (by another dns.Transfer
			// value): what signs and verifies now is the key set in hand
			c.RolledFrom = rapid.SliceOfN(rapid.Byte(), 1, 64).Draw(t, "secret0")
			if bytes.Equal(c.RolledFrom, c.Tsig.Secret) {
				c.RolledFrom = append([]byte{c.RolledFrom[0] ^ 0x55}, c.RolledFrom[1:]...)
			}
		}
	}
	c.Sender = "harness"
	nenv := len(c.Sizes)
	if rapid.IntRange(0, 99).Draw(t, "faulty") < 50 {
		pool := strongPlain
		if c.Tsig != nil {
			pool = strongTsig
		} else if rapid.IntRange(0, 5).Draw(t, "weak") == 0 {
			pool = weakPlain
		}
		f := faultSpec{Kind: rapid.SampledFrom(pool).Draw(t, "fault")}
		f.Env = rapid.IntRange(0, nenv-1).Draw(t, "fenv")
		f.K = rapid.IntRange(0, 1<<20).Draw(t, "fk")
		f.Val = rapid.IntRange(1, 65535).Draw(t, "fval")
		if (f.Kind == "cut") && rapid.IntRange(0, 249).Draw(t, "stall") == 137 {
			f.Kind = "stall" // costs the receiver's (shortened) read timeout: kept rare
		}
		if f.Kind == "otherkey" {
			if c.OtherKey == nil {
				c.OtherKey = genOtherKey(t)
			}
			if f.otherKeyMust() && pbt.Known(knownOtherKey) {
				// known finding: an envelope signed with ANOTHER key of the receiver's key set is accepted;
				// the same envelope signed with a key the receiver does not hold takes its place
				pbt.Excluded(knownOtherKey)
				f.Kind = "wrongkey"
			}
		}
		switch f.Kind {
		case "rcode":
			// the statement's "the RCODE is non-zero" holds for any envelope and both kinds of question
			if rapid.IntRange(0, 2).Draw(t, "rcode-first") == 0 {
				f.Env = 0
			}
			if (faultSpec{Kind: "rcode", Env: f.Env}).rcodeLaterAxfr(c.Mode, nenv) && pbt.Known(knownRcodeLater) {
				// known finding: inAxfr looks at the RCODE of the first envelope only
				pbt.Excluded(knownRcodeLater)
				f.Env = 0
			}
		case "nosoa":
			f.Env = 0
		case "swap":
			if nenv < 2 {
				f.Kind = "drop"
			}
		case "drop":
			if c.Tsig == nil {
				f.Env = nenv - 1 // without TSIG only the loss of the closing envelope must be noticed
			}
		}
		c.Fault = f
	}
	if c.Fault.Kind == "" || c.Fault.Kind == "cut" {
		switch rapid.IntRange(0, 9).Draw(t, "sender") {
		case 0, 1, 2:
			c.Sender = "library"
		case 3, 4:
			if c.Fault.Kind == "" {
				c.Sender = "libout"
			}
		}
	}
	if rapid.Bool().Draw(t, "segmented") {
		c.Seg = rapid.SliceOfN(rapid.SampledFrom([]int{1, 1, 2, 3, 7, 64, 1000}), 1, 4).Draw(t, "seg")
	}
	c.Trailer = rapid.Bool().Draw(t, "trailer")
	c.Compress = c.Sender == "harness" && !big && rapid.Bool().Draw(t, "compress")
	if c.Sender == "harness" && c.Fault.Kind != "stall" && !big && rapid.IntRange(0, 39).Draw(t, "dial") == 11 {
		// Transfer.In opens the connection itself (real loopback TCP), or finds nobody listening
		c.Dial = "tcp"
		c.Seg = nil
		if rapid.IntRange(0, 3).Draw(t, "refused") == 0 {
			c.Dial = "refused"
		}
	}
	if c.Sender == "harness" && c.Dial == "" && rapid.IntRange(0, 59).Draw(t, "badreq") == 17 {
		c.BadRequest = "longlabel"
		if c.Tsig != nil {
			c.BadRequest = rapid.SampledFrom([]string{"nokey", "badalg", "longlabel"}).Draw(t, "badkind")
		}
	}
	dgTarget := 0
	dgOK := map[string]bool{"": true, "id": true, "rcode": true, "nosoa": true, "alter": true, "strip": true, "wrongkey": true, "chain": true, "stale": true, "maclen": true}
	if c.Sender == "harness" && c.Dial == "" && c.BadRequest == "" && c.Mode != "axfr" && dgOK[c.Fault.Kind] && !big && rapid.IntRange(0, 5).Draw(t, "dgram") == 0 {
		// IXFR over UDP: the caller hands Transfer.In a datagram conn; answers of 400..4000 octets
		c.Transport = "dgram"
		c.UDPSize = rapid.SampledFrom([]int{0, 0, 512, 600, 1232, 4096}).Draw(t, "udpsize")
		c.Compress = false
		if rapid.IntRange(0, 3).Draw(t, "onedatagram") > 0 {
			c.Sizes = []int{len(c.flat())}
		}
		if c.Mode != "uptodate" {
			fill := recSpec{T: "FILL", Owner: "fill", V: 1}
			if c.Mode == "ixfr" {
				c.Diffs[len(c.Diffs)-1].Add = append(c.Diffs[len(c.Diffs)-1].Add, fill)
			} else {
				c.Recs = append(c.Recs, fill)
			}
			if len(c.Sizes) == 1 {
				c.Sizes = []int{len(c.flat())}
			} else {
				c.Sizes[len(c.Sizes)-1]++
			}
			target := rapid.SampledFrom([]int{400, 511, 512, 513, 600, 601, 1000, 1232, 1233, 2000, 4000, 4096, 4097}).Draw(t, "answer")
			sizeFiller(&c, target)
			dgTarget = target
		}
		if c.Fault.Env >= len(c.Sizes) {
			c.Fault.Env = 0
		}
	}
	if c.Sender != "harness" && c.Fault.Kind == "" && rapid.IntRange(0, 9).Draw(t, "multi") < 5 {
		// several requests over one connection to the sending server
		n := rapid.IntRange(2, 3).Draw(t, "nrounds")
		c.Rounds = []string{"xfr"}
		for len(c.Rounds) < n {
			c.Rounds = append(c.Rounds, rapid.SampledFrom([]string{"xfr", "xfr", "query"}).Draw(t, "round"))
		}
		if rapid.IntRange(0, 3).Draw(t, "query-first") == 0 {
			c.Rounds[0], c.Rounds[len(c.Rounds)-1] = c.Rounds[len(c.Rounds)-1], c.Rounds[0]
		}
	}
	if c.Sender == "harness" && len(c.Sizes) >= 2 && rapid.IntRange(0, 2).Draw(t, "noq") == 0 {
		// a sender other than this library: the question section is only required in the FIRST message of the
		// answer (RFC 5936 2.2.1/2.2.2); BIND, NSD and Knot leave it out of every later message
		switch rapid.IntRange(0, 3).Draw(t, "noq-kind") {
		case 0, 1:
			c.NoQuestion = 0xFFFFFFFF
		case 2:
			c.NoQuestion = 1 << uint(rapid.IntRange(0, len(c.Sizes)-2).Draw(t, "noq-one")%32)
		default:
			c.NoQuestion = rapid.Uint32Range(1, 0xFFFFFFFF).Draw(t, "noq-mask")
		}
		if c.questionClass(len(c.Sizes)) == "" {
			c.NoQuestion = 0xFFFFFFFF
		}
		if dgTarget > 0 {
			sizeFiller(&c, dgTarget) // the padded datagram keeps its size
		}
	}
	if c.Sender == "harness" && c.Tsig != nil && rapid.IntRange(0, 5).Draw(t, "tsig-spelling") == 0 {
		// the sender writes key and / or algorithm name in another letter case than the receiver's key set and
		// request do: the same domain names (RFC 8945 4.2 "in domain name syntax", digested in canonical form)
		respell := func(s, label string) string {
			if rapid.Bool().Draw(t, label+"-upper") {
				return strings.ToUpper(s)
			}
			out := wm.EscName(gen.FlipCase(t, wm.MustName(s)))
			if out == s || strings.Contains(out, `\`) {
				out = strings.ToUpper(s)
			}
			return out
		}
		which := rapid.IntRange(0, 3).Draw(t, "tsig-spelling-which")
		if which != 0 {
			if pbt.Known(knownKeyCase) {
				// known finding: the secret is looked up under the key name as received, letter for letter
				pbt.Excluded(knownKeyCase)
			} else {
				c.KeyNameSent = respell(c.Tsig.KeyName, "keyname")
			}
		}
		if which != 1 {
			c.AlgSent = respell(c.Tsig.Alg, "algname")
		}
	}
	// one dns.Transfer value used for several transfers, a fresh connection each time
	switch {
	case c.Sender == "harness" && c.Dial == "" && c.BadRequest == "" && c.Transport == "" && !big:
		if rapid.IntRange(0, 11).Draw(t, "reuse") == 0 {
			c.Reuse = rapid.IntRange(1, 2).Draw(t, "reuse-n")
		}
	case c.Sender == "library" && c.multi():
		if rapid.IntRange(0, 2).Draw(t, "reuse-rounds") == 0 {
			c.Reuse = 1
		}
	}
	if c.reuseTimersClass() && pbt.Known(knownReuse) {
		// known finding: the second signed request of a reused Transfer is digested timers-only
		pbt.Excluded(knownReuse)
		c.Reuse = 0
	}
	if big {
		target := rapid.SampledFrom([]int{65535, 65535, 65535, 65534, 65533, 65535 - 256, 32768, 16384}).Draw(t, "envsize")
		if !sizeFiller(&c, target) {
			sizeFiller(&c, 20000)
		}
	}
	return c
}

func init() {
	pbt.Register(pbt.Sub[xferCase]{Name: "histories", Weight: 10, Gen: genCase, Check: checkXfer})
}
