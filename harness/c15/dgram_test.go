package c15

// IXFR over a datagram connection (RFC 1995 section 2 allows UDP): an in-memory connected datagram
// endpoint that is both a net.Conn and a net.PacketConn, so dns.Conn treats it as a packet conn
// (no length prefix, one message per Read).

import (
	"errors"
	"io"
	"net"
	"os"
	"sync"
	"time"
)

type dgramConn struct {
	mu       sync.Mutex
	cond     *sync.Cond
	in       [][]byte // datagrams for the receiver under test
	done     bool     // the sender will send nothing more: a Read on an empty queue fails
	out      [][]byte // datagrams written by the receiver under test
	closed   bool
	deadline time.Time
	timer    *time.Timer
	nread    int
	cutTo    int // size of the largest buffer-induced truncation seen (0 = none)
}

func newDgramConn() *dgramConn { d := &dgramConn{}; d.cond = sync.NewCond(&d.mu); return d }

func (d *dgramConn) Read(p []byte) (int, error) {
	d.mu.Lock()
	defer d.mu.Unlock()
	for {
		if d.closed {
			return 0, net.ErrClosed
		}
		if !d.deadline.IsZero() && !d.deadline.After(time.Now()) {
			return 0, os.ErrDeadlineExceeded
		}
		if len(d.in) > 0 {
			b := d.in[0]
			d.in = d.in[1:]
			n := copy(p, b) // like a UDP socket: what does not fit into the buffer is lost
			if n < len(b) && len(b) > d.cutTo {
				d.cutTo = len(b)
			}
			d.nread += n
			return n, nil
		}
		if d.done {
			return 0, io.EOF
		}
		d.cond.Wait()
	}
}

func (d *dgramConn) ReadFrom(p []byte) (int, net.Addr, error) {
	n, err := d.Read(p)
	return n, d.RemoteAddr(), err
}

func (d *dgramConn) Write(p []byte) (int, error) {
	d.mu.Lock()
	defer d.mu.Unlock()
	if d.closed {
		return 0, net.ErrClosed
	}
	d.out = append(d.out, append([]byte{}, p...))
	d.cond.Broadcast()
	return len(p), nil
}

func (d *dgramConn) WriteTo(p []byte, _ net.Addr) (int, error) { return d.Write(p) }

func (d *dgramConn) Close() error {
	d.mu.Lock()
	defer d.mu.Unlock()
	if d.closed {
		return errors.New("memdgram: already closed")
	}
	d.closed = true
	if d.timer != nil {
		d.timer.Stop()
	}
	d.cond.Broadcast()
	return nil
}

func (d *dgramConn) LocalAddr() net.Addr {
	return &net.UDPAddr{IP: net.IPv4(127, 0, 0, 1), Port: 40000}
}
func (d *dgramConn) RemoteAddr() net.Addr { return &net.UDPAddr{IP: net.IPv4(127, 0, 0, 1), Port: 53} }
func (d *dgramConn) SetDeadline(t time.Time) error {
	return d.SetReadDeadline(t)
}
func (d *dgramConn) SetWriteDeadline(time.Time) error { return nil }
func (d *dgramConn) SetReadDeadline(t time.Time) error {
	d.mu.Lock()
	defer d.mu.Unlock()
	d.deadline = t
	if d.timer != nil {
		d.timer.Stop()
		d.timer = nil
	}
	if !t.IsZero() {
		if dl := time.Until(t); dl <= 0 {
			d.cond.Broadcast()
		} else {
			d.timer = time.AfterFunc(dl, func() { d.mu.Lock(); d.cond.Broadcast(); d.mu.Unlock() })
		}
	}
	return nil
}

func (d *dgramConn) isClosed() bool { d.mu.Lock(); defer d.mu.Unlock(); return d.closed }
func (d *dgramConn) consumed() int  { d.mu.Lock(); defer d.mu.Unlock(); return d.nread }

// takeRequest waits for the first datagram the receiver under test wrote.
func (d *dgramConn) takeRequest(limit time.Duration) ([]byte, error) {
	t := time.AfterFunc(limit, func() { d.mu.Lock(); d.cond.Broadcast(); d.mu.Unlock() })
	defer t.Stop()
	end := time.Now().Add(limit)
	d.mu.Lock()
	defer d.mu.Unlock()
	for len(d.out) == 0 {
		if time.Now().After(end) {
			return nil, errors.New("no request datagram")
		}
		d.cond.Wait()
	}
	b := d.out[0]
	d.out = d.out[1:]
	return b, nil
}

func (d *dgramConn) deliver(frames [][]byte) {
	d.mu.Lock()
	d.in = append(d.in, frames...)
	d.done = true
	d.cond.Broadcast()
	d.mu.Unlock()
}
