package c08

import (
	"bytes"
	"fmt"

	"github.com/miekg/dns"
	"pgregory.net/rapid"

	"verif/harness/pbt"
)

// The RCODE as the caller set it, and "measure first, pack second" (round 10).
//
// Msg.Rcode is an int in the library value. 0..15 fit the header; 16..4095 (BADVERS, BADCOOKIE, ...)
// need the OPT record of the message for their upper eight bits; what the packer does with such a code
// in a message that has no OPT record (m.SetRcode(req, dns.RcodeBadCookie) on the reply to a query
// without EDNS) is its own business - the model has no wire form for it, the pinned library refuses it -
// but IF it packs, the message is one "that can be packed" and the statement holds for it. Up to round 9
// the generators of this package drew the RCODE from {0, 2, 3, 5}, and a message the model refuses was
// dropped before the library saw it. Now the RCODE of one message in twelve is a generated value of the
// whole range of the field, with or without an OPT record, and the model's refusal is no longer the end
// of the case: the library's verdict is observed - in the order a caller meets it. Len() is taken FIRST,
// on a value that has never been packed, Pack() runs SECOND, and the prediction taken before is compared
// with the octets produced after: packing may complete the message (an OPT record added, a field
// normalised), and a Len() taken afterwards, or on a value that went through an earlier Pack, would agree
// with every later Pack again. The same for the placement clause: the caller sizes his buffer by the
// uncompressed Len() of a never-packed value, then calls PackBuffer.

func rcodeClass(rc int, hasOpt bool) string {
	switch {
	case rc < 0 || rc > 0xFFF:
		return "rcode:beyond-12-bits"
	case rc > 0xF && hasOpt:
		return "rcode:extended-with-opt"
	case rc > 0xF:
		return "rcode:extended-without-opt"
	}
	return "rcode:header-only"
}

// withHeader: one case in twelve carries an RCODE from the whole range of the field.
func withHeader(t *rapid.T, c lenCase) lenCase {
	if rapid.IntRange(0, 11).Draw(t, "anyrcode") != 0 {
		return c
	}
	switch rapid.IntRange(0, 9).Draw(t, "rcodemode") {
	case 0:
		c.M.Rcode = rapid.IntRange(0, 15).Draw(t, "rcode4")
	case 1:
		c.M.Rcode = rapid.IntRange(4096, 70000).Draw(t, "rcodebeyond")
	case 2, 3, 4:
		c.M.Rcode = rapid.IntRange(16, 4095).Draw(t, "rcode12")
	default: // the assigned extended codes (RFC 6891 BADVERS, RFC 8945 BADSIG..BADTRUNC, RFC 7873 BADCOOKIE) and the corners
		c.M.Rcode = rapid.SampledFrom([]int{16, 17, 18, 19, 20, 21, 22, 23, 31, 32, 255, 256, 3841, 4095}).Draw(t, "rcodeext")
	}
	return c
}

const roomyAny = 65535 + 64 // longer than any DNS message

// checkObserved runs the case on a message the model has no wire form for. mk returns a fresh library
// value of the case each time it is called. "Can be packed" is what Pack() says about a value that was
// never packed before; everything is measured before that call.
func checkObserved(c lenCase, mk func() (*dns.Msg, error)) error {
	lib, err := mk()
	if err != nil {
		pbt.Note(nil, false, "model-refused:no-library-value")
		return nil
	}
	cls := rcodeClass(c.M.Rcode, c.M.Opt() >= 0)
	// measure first ...
	lib.Compress = false
	ul := lib.Len()
	lib.Compress = c.Compress
	predicted := lib.Len()
	// ... pack second
	p, err := lib.Pack()
	if err != nil {
		// refused: outside the domain - unless the refusal is for lack of room, which a roomy caller's buffer cures
		if fresh, e := mk(); e == nil {
			if _, e2 := fresh.PackBuffer(make([]byte, roomyAny)); e2 == nil {
				return pbt.Errf("Pack ran out of room on a message the model has no image for (RCODE %d, OPT record: %v, Len()=%d, compress=%v): %v - the same message packs into a caller's buffer of %d octets", c.M.Rcode, c.M.Opt() >= 0, predicted, c.Compress, err, roomyAny)
			}
		}
		pbt.Note(nil, false, "model-refused:library-refused", cls)
		return nil
	}
	pbt.Note(append(append([]byte{}, p...), 0xfe), true, "model-refused:library-packed", cls, "measured-before-first-pack")
	what := fmt.Sprintf("RCODE %d, OPT record in the message as built: %v, compress=%v", c.M.Rcode, c.M.Opt() >= 0, c.Compress)
	if predicted < len(p) {
		return pbt.Errf("Len()=%d, taken before the first Pack of the value, under-estimates the %d octets that Pack() then produced (%s)", predicted, len(p), what)
	}
	if after := lib.Len(); after < len(p) {
		return pbt.Errf("Len()=%d, taken after Pack, under-estimates the %d octets Pack() produced (%s)", after, len(p), what)
	}
	// the uncompressed prediction against the uncompressed image, again on a never-packed value
	fresh, err := mk()
	if err != nil {
		return nil
	}
	fresh.Compress = false
	ul2 := fresh.Len()
	up, err := fresh.Pack()
	if err != nil {
		return pbt.Errf("the message packs under compress=%v but not uncompressed: %v (%s)", c.Compress, err, what)
	}
	if ul != ul2 {
		return pbt.Errf("two values built alike: uncompressed Len() %d and %d (%s)", ul, ul2, what)
	}
	if ul < len(up) {
		return pbt.Errf("uncompressed Len()=%d, taken before the first Pack of the value, under-estimates the %d uncompressed octets (%s)", ul, len(up), what)
	}
	if len(up) > 65535 {
		return nil
	}
	// placement: a caller sizes his buffer by the uncompressed length of the value in his hands, then packs
	for _, spare := range []int{1, 2 + int(c.M.ID%9), 12, 300} {
		fresh, err := mk()
		if err != nil {
			return nil
		}
		buf := bytes.Repeat([]byte{0xA5}, ul+spare)
		pb, err := fresh.PackBuffer(buf)
		if err != nil {
			return pbt.Errf("PackBuffer(buffer of %d octets) failed on a value Pack() accepts: %v (uncompressed Len() %d; %s)", len(buf), err, ul, what)
		}
		if !bytes.Equal(pb, p) {
			return pbt.Errf("PackBuffer(buffer of %d octets) produced other octets (%d) than Pack (%d) on a value built alike (%s)", len(buf), len(pb), len(p), what)
		}
		if len(pb) > 0 && &pb[0] != &buf[0] {
			return pbt.Errf("PackBuffer did not write into the caller's buffer of %d octets, which is larger than the uncompressed Len()=%d taken before the call (%d octets packed; %s)", len(buf), ul, len(pb), what)
		}
	}
	return nil
}
