package c08

import (
	"reflect"

	"github.com/miekg/dns"
	"pgregory.net/rapid"

	"verif/harness/pbt"
	wm "verif/harness/wiremodel"
)

// Names left at the zero value "" of their exported string field (round 8).
//
// The library's values are plain structs: a caller who puts a record together by hand can leave
// Hdr.Name, a question's Name or a name of the RDATA at "" (an OPT built without Name, an answer
// whose owners were never filled in), and the zone parser itself produces typed records whose whole
// RDATA is at its zero value for the RDATA-less records of a dynamic update (NewRR("example.org. MX")
// is &MX{Preference: 0, Mx: ""}). The packer accepts all of these (packDomainName writes nothing for
// ""), so they are "messages that can be packed", and what Len() says about an empty name
// (domainNameLen) must cover what the packer writes for it (packDomainName, RR_Header.packHeader)
// at every site. The model (wiremodel.Name) has no value for "not even the root", so the class is a
// generator dimension on top of it: a case names the slots of the message that are emptied after
// the model message was turned into the library value.

// Round 10: the same for the address of an IPSECKEY / AMTRELAY gateway of type IPv4 or IPv6 (GatewayAddr
// nil): the packer writes nothing for it, the length methods count 4 / 16 octets by the gateway type - an
// over-estimate, which the first clause permits (these types are outside the exactness sub-domain).

// gatewayAddrSlot: does the slot name the address of a gateway of type IPv4 / IPv6?
func gatewayAddrSlot(m *wm.Msg, s blankSlot) bool {
	recs := modelSec(m, s.Sec)
	if s.Field < 0 || s.Idx < 0 || s.Idx >= len(recs) || s.Field >= len(recs[s.Idx].Fields) {
		return false
	}
	f := recs[s.Idx].Fields[s.Field]
	return f.K == wm.GW && (f.U == 1 || f.U == 2)
}

// blankSlot names one item of a message.
type blankSlot struct {
	Sec   int // 0 question, 1 answer, 2 authority, 3 additional
	Idx   int // position in the section
	Field int // -1: the owner (the name of a question); -2: the whole RDATA at its zero value (what NewRR("owner TYPE") returns); k >= 0: the k-th field of the type's layout (a name, the first name of a name list, a host gateway)
}

const idEmptyName = "empty-name-counted"

func isNameKind(k wm.Kind) bool { return k == wm.NameC || k == wm.NameU || k == wm.Names || k == wm.GW }

// hasNameField: does a record of this type hold a name in its RDATA (by the harness's layout table)?
func hasNameField(typ uint16) bool {
	l, ok := wm.LayoutOf(typ)
	if !ok {
		return false
	}
	for _, sp := range l {
		if isNameKind(sp.K) {
			return true
		}
	}
	return false
}

func secOf(x *dns.Msg, sec int) *[]dns.RR {
	switch sec {
	case 1:
		return &x.Answer
	case 2:
		return &x.Ns
	case 3:
		return &x.Extra
	}
	return nil
}

func modelSec(m *wm.Msg, sec int) []wm.Rec {
	switch sec {
	case 1:
		return m.An
	case 2:
		return m.Ns
	case 3:
		return m.Ex
	}
	return nil
}

// applyBlank empties the named slots of the library message built from m. It returns how many
// names were emptied and how many records were reduced to their zero RDATA.
func applyBlank(x *dns.Msg, m *wm.Msg, slots []blankSlot) (names, zeroed int) {
	for _, s := range slots {
		if s.Sec == 0 {
			if s.Idx >= 0 && s.Idx < len(x.Question) && s.Field == -1 && x.Question[s.Idx].Name != "" {
				x.Question[s.Idx].Name = ""
				names++
			}
			continue
		}
		sec := secOf(x, s.Sec)
		recs := modelSec(m, s.Sec)
		if sec == nil || s.Idx < 0 || s.Idx >= len(*sec) || s.Idx >= len(recs) || (*sec)[s.Idx] == nil {
			continue
		}
		rr := (*sec)[s.Idx]
		r := recs[s.Idx]
		switch {
		case s.Field == -1:
			if rr.Header().Name != "" {
				rr.Header().Name = ""
				names++
			}
		case s.Field == -2:
			if _, known := wm.LayoutOf(r.Type); !known || r.NoRdata || r.Type == wm.TOPT || r.Type == wm.TPrivate {
				continue
			}
			mk, ok := dns.TypeToRR[r.Type]
			if !ok || reflect.TypeOf(mk()) != reflect.TypeOf(rr) {
				continue
			}
			nr := mk()
			*nr.Header() = *rr.Header()
			(*sec)[s.Idx] = nr
			zeroed++
			if hasNameField(r.Type) {
				names++
			}
		default:
			layout, known := wm.LayoutOf(r.Type)
			if !known || r.NoRdata || s.Field >= len(layout) || s.Field >= len(r.Fields) {
				continue
			}
			v := reflect.ValueOf(rr)
			if v.Kind() != reflect.Pointer || v.Elem().Kind() != reflect.Struct {
				continue
			}
			v = v.Elem()
			sp := layout[s.Field]
			switch sp.K {
			case wm.NameC, wm.NameU:
				if f := v.FieldByName(sp.Go); f.IsValid() && f.Kind() == reflect.String && f.String() != "" {
					f.SetString("")
					names++
				}
			case wm.Names:
				if f := v.FieldByName(sp.Go); f.IsValid() && f.Kind() == reflect.Slice && f.Len() > 0 && f.Index(0).Kind() == reflect.String {
					f.Index(0).SetString("")
					names++
				}
			case wm.GW:
				if f := v.FieldByName("GatewayHost"); r.Fields[s.Field].U == 3 && f.IsValid() && f.Kind() == reflect.String && f.String() != "" {
					f.SetString("")
					names++
				}
				// round 10: a gateway of type IPv4 / IPv6 whose address was never filled in (GatewayAddr nil)
				if f := v.FieldByName("GatewayAddr"); (r.Fields[s.Field].U == 1 || r.Fields[s.Field].U == 2) && f.IsValid() && f.Kind() == reflect.Slice && f.Len() > 0 && f.CanSet() {
					f.Set(reflect.Zero(f.Type()))
					names++
				}
			}
		}
	}
	return
}

// drawBlank chooses which slots of m are emptied. namesTouched: at least one chosen slot empties a
// name (the exactness of such a message is the finding empty-name-counted).
func drawBlank(t *rapid.T, m *wm.Msg) (slots []blankSlot, namesTouched bool) {
	var owners, rnames, zeros, questions, gateways []blankSlot
	for i := range m.Q {
		if i < 4 {
			questions = append(questions, blankSlot{0, i, -1})
		}
	}
	for sec := 1; sec <= 3; sec++ {
		recs := modelSec(m, sec)
		for i, r := range recs {
			if i >= 6 && i != len(recs)-1 { // long sections repeat one record
				continue
			}
			owners = append(owners, blankSlot{sec, i, -1})
			layout, known := wm.LayoutOf(r.Type)
			if !known || r.NoRdata {
				continue
			}
			if r.Type != wm.TOPT && r.Type != wm.TPrivate {
				zeros = append(zeros, blankSlot{sec, i, -2})
			}
			for k, sp := range layout {
				if k >= len(r.Fields) {
					break
				}
				switch {
				case sp.K == wm.NameC || sp.K == wm.NameU:
					rnames = append(rnames, blankSlot{sec, i, k})
				case sp.K == wm.Names && len(r.Fields[k].NL) > 0:
					rnames = append(rnames, blankSlot{sec, i, k})
				case sp.K == wm.GW && r.Fields[k].U == 3:
					rnames = append(rnames, blankSlot{sec, i, k})
				case sp.K == wm.GW && (r.Fields[k].U == 1 || r.Fields[k].U == 2):
					gateways = append(gateways, blankSlot{sec, i, k})
				}
			}
		}
	}
	some := func(from []blankSlot, oneIn int) []blankSlot {
		if len(from) == 0 {
			return nil
		}
		var out []blankSlot
		for _, s := range from {
			if rapid.IntRange(0, oneIn-1).Draw(t, "blank") == 0 {
				out = append(out, s)
			}
		}
		if len(out) == 0 {
			out = append(out, from[rapid.IntRange(0, len(from)-1).Draw(t, "blankone")])
		}
		return out
	}
	switch rapid.IntRange(0, 6).Draw(t, "blankmode") {
	case 0: // every owner the caller forgot
		slots = owners
	case 1: // some owners
		slots = some(owners, 2)
	case 2: // exactly one owner (the hand-built OPT, one record of an answer)
		if len(owners) > 0 {
			slots = []blankSlot{owners[rapid.IntRange(0, len(owners)-1).Draw(t, "blankone")]}
		}
	case 3: // names of the RDATA
		slots = some(rnames, 2)
	case 4: // the typed RDATA-less records of the zone parser
		slots = some(zeros, 2)
	case 5: // question names
		slots = some(questions, 2)
	default:
		all := append(append(append(append([]blankSlot{}, questions...), owners...), rnames...), zeros...)
		slots = some(all, 3)
	}
	if len(slots) == 0 {
		all := append(append(append(append([]blankSlot{}, questions...), owners...), rnames...), zeros...)
		slots = some(all, 3)
	}
	if len(gateways) > 0 && rapid.Bool().Draw(t, "blankgateway") {
		// gateway addresses that were never filled in, on top of whatever else was left empty
		slots = append(slots, some(gateways, 2)...)
	}
	for _, s := range slots {
		if s.Field != -2 {
			namesTouched = true
		} else if recs := modelSec(m, s.Sec); s.Idx < len(recs) && hasNameField(recs[s.Idx].Type) {
			namesTouched = true
		}
	}
	return
}

// withBlank adds the dimension to a generated case (one case in five).
func withBlank(t *rapid.T, c lenCase) lenCase {
	if rapid.IntRange(0, 4).Draw(t, "emptynames") != 0 {
		return c
	}
	slots, names := drawBlank(t, &c.M)
	if len(slots) == 0 {
		return c
	}
	c.Blank = slots
	if c.Plain && names && pbt.Known(idEmptyName) {
		// the class stays generated ("never under-estimates", "Pack has room", PackBuffer placement);
		// only the equality is not asserted on it while the finding is open
		pbt.Excluded(idEmptyName)
		c.LowerOnly = true
	}
	return c
}

func mx(owner string) wm.Rec {
	return wm.Rec{Name: wm.MustName(owner), Type: wm.TMX, Class: 1, TTL: 3600, Fields: []wm.Field{{K: wm.U16, U: 0}, {K: wm.NameC, N: wm.MustName("mx.example.org.")}}}
}

func init() {
	// remark 1 of round 8: NewRR("example.org. MX") = &MX{Mx: ""}: Len 38, Pack 37; the same for the SOA
	// (two names) and, by the same line of domainNameLen, for an empty owner or question name
	pbt.Probe(idEmptyName, func() error {
		m := wm.Msg{An: []wm.Rec{mx("example.org.")}}
		if err := checkLen(lenCase{M: m, Plain: true, Blank: []blankSlot{{1, 0, -2}}}); err != nil {
			return err
		}
		m = wm.Msg{Flags: wm.FlagQR, Q: []wm.Question{{Name: wm.MustName("example.org."), Type: wm.TMX, Class: 1}}, An: []wm.Rec{mx("example.org.")}}
		return checkLen(lenCase{M: m, Plain: true, Compress: true, Blank: []blankSlot{{1, 0, 1}}})
	})
}
