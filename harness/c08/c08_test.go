package c08

import (
	"bytes"
	"errors"
	"fmt"
	"os"
	"reflect"
	"runtime/debug"
	"strings"

	"github.com/miekg/dns"
	"pgregory.net/rapid"

	"verif/harness/gen"
	"verif/harness/pbt"
	wm "verif/harness/wiremodel"
)

type lenCase struct {
	M        wm.Msg
	Compress bool
	Plain    bool   // the message belongs to the exactness sub-domain
	Spell    uint64 `json:",omitempty"` // representation choices for the library value (0: canonical); never with Plain
	// names (owners, question names, RDATA names) and whole RDATAs left at their zero value after the
	// model message was turned into the library value (see empty_test.go)
	Blank []blankSlot `json:",omitempty"`
	// type lists (NSEC, NSEC3, CSYNC, NXT) and SvcParams (SVCB, HTTPS) rearranged after the model message
	// was turned into the library value (see order_test.go)
	Order     []orderSlot `json:",omitempty"`
	LowerOnly bool        `json:",omitempty"` // Plain, but the equality is not asserted (known finding empty-name-counted)
	// text fields whose string is replaced by one in the caller's spelling after the model message was
	// turned into the library value (see text_test.go)
	Text []textSlot `json:",omitempty"`
}

var handWritten = map[uint16]bool{wm.TNSEC: true, wm.TNSEC3: true, wm.TCSYNC: true, wm.TOPT: true, wm.TSVCB: true, wm.THTTPS: true,
	wm.TAPL: true, wm.TPrivate: true, wm.TNXT: true, wm.TIPSECKEY: true, wm.TAMTRELAY: true, wm.THIP: true}

func typeName(t uint16) string {
	if s, ok := dns.TypeToString[t]; ok {
		return s
	}
	return fmt.Sprintf("TYPE%d", t)
}

func checkLen(c lenCase) error {
	m := c.M
	// a fresh library value of the case, as the caller built it: never packed, never measured
	mkLib := func() (*dns.Msg, error) {
		restore := wm.Spelling(c.Spell)
		lib, err := wm.MsgToLib(m, c.Compress)
		restore()
		return lib, err
	}
	w, err := wm.Encode(m)
	if err != nil {
		// the model has no wire form for it: the library's verdict is observed, measured first (header_test.go)
		return checkObserved(c, mkLib)
	}
	if len(w) > 65535 && !c.Compress {
		return nil // not packable: outside the domain
	}
	lib, err := mkLib()
	if err != nil {
		return nil
	}
	if c.Spell != 0 {
		pbt.Class("alternative-representation")
	}
	exact := c.Plain && !c.LowerOnly
	// The model has no verdict on a message whose names were emptied, whose lists were rearranged or
	// whose texts stand in the caller's spelling (see empty_test.go, order_test.go, text_test.go): "can
	// be packed" is observed. Such a message holds no more octets than the packable message it was made
	// from (plus the characters of the new texts), so it is within every limit; the question
	// whether the packer takes it at all is not C08's: a refusal that a roomy caller's buffer does
	// not cure puts it outside the domain, one that it cures was for lack of room.
	// The observations pack the value; the case itself then runs on a value built anew (below), so that
	// every prediction is taken on a value that was never packed.
	modelLen := len(w)
	textChars := 0
	for _, s := range c.Text {
		textChars += len(s.S)
	}
	observe := func(what string) (uncompressed []byte, verdict error, refused bool) {
		roomy := modelLen + 64 + textChars
		packUnder := func(compress bool) ([]byte, error, bool) {
			lib.Compress = compress
			defer func() { lib.Compress = c.Compress }()
			out, err := lib.Pack()
			if err == nil {
				return out, nil, false
			}
			if _, e2 := lib.PackBuffer(make([]byte, roomy)); e2 == nil {
				return nil, pbt.Errf("Pack ran out of room on a message with %s (Len()=%d, compress=%v): %v - the same message packs into a caller's buffer of %d octets", what, lib.Len(), compress, err, roomy), false
			}
			return nil, nil, true
		}
		out, verdict, refused := packUnder(false)
		if verdict == nil && !refused && c.Compress {
			_, verdict, refused = packUnder(true)
		}
		return out, verdict, refused
	}
	reordered := false
	var orderCl []string
	if len(c.Order) > 0 {
		n, cl, desc, undo := applyOrder(lib, &m, c.Order)
		if n > 0 {
			_, verdict, refused := observe("a list in the caller's order (" + strings.TrimSpace(desc) + ")")
			if verdict != nil {
				return verdict
			}
			orderCl = cl
			if refused {
				// outside the domain; the case goes on with the ascending lists
				undo()
				orderCl = append(orderCl, "list-order-refused")
			} else {
				reordered = true
				orderCl = append(orderCl, "list-order-packed")
			}
		}
	}
	texted := false
	var textCl []string
	if len(c.Text) > 0 {
		n, _, plain, cl, desc, undo := applyText(lib, &m, c.Text)
		if n > 0 {
			out, verdict, refused := observe("text in the caller's spelling (" + strings.TrimSpace(desc) + ")")
			if verdict != nil {
				return verdict
			}
			textCl = cl
			if refused {
				// outside the domain (a text over 255 octets); the case goes on with the model's texts
				undo()
				textCl = append(textCl, "caller-text-refused")
			} else {
				texted = true
				textCl = append(textCl, "caller-text-packed")
				w = out
				if !plain {
					exact = false // a backslash, a quote, an unprintable octet: the text is not escape-free
				} else if exact {
					textCl = append(textCl, "caller-text-exactness-asserted")
				}
			}
		}
	}
	blanked := false
	if len(c.Blank) > 0 {
		names, zeroed := applyBlank(lib, &m, c.Blank)
		blanked = names+zeroed > 0
	}
	if blanked {
		out, verdict, refused := observe("empty names")
		if verdict != nil {
			return verdict
		}
		if refused {
			pbt.Note(nil, false, "empty-names-refused")
			return nil
		}
		w = out
	}
	// the value the case runs on: built anew with the arrangements that were taken, never packed
	rebuild := func() *dns.Msg {
		x, err := mkLib()
		if err != nil {
			return nil
		}
		if reordered {
			applyOrder(x, &m, c.Order)
		}
		if texted {
			applyText(x, &m, c.Text)
		}
		if blanked {
			applyBlank(x, &m, c.Blank)
		}
		return x
	}
	if reordered || texted || blanked {
		if lib = rebuild(); lib == nil {
			return nil
		}
	}
	// measure first, pack second
	lib.Compress = false
	ulFirst := lib.Len()
	lib.Compress = c.Compress
	predicted := lib.Len()
	p, err := lib.Pack()
	if err != nil {
		if errors.Is(err, dns.ErrBuf) {
			return pbt.Errf("Pack ran out of buffer space on a packable message (compress=%v): %v", c.Compress, err)
		}
		return pbt.Errf("Pack failed on a packable message (compress=%v): %v", c.Compress, err)
	}
	if len(p) > 65535 {
		return nil // does not fit a DNS message even compressed: outside the domain
	}
	hasPtr := c.Compress && len(p) < len(w)
	special := false
	var classes []string
	for _, r := range m.AllRecs() {
		if handWritten[r.Type] {
			special = true
			classes = append(classes, "handwritten-len:"+typeName(r.Type))
		}
	}
	if hasPtr {
		classes = append(classes, "compressed-with-pointer")
	}
	if c.Plain {
		classes = append(classes, "plain")
	}
	if blanked {
		classes = append(classes, "empty-names")
		for _, s := range c.Blank {
			if gatewayAddrSlot(&m, s) {
				classes = append(classes, "empty:gateway-address")
				continue
			}
			classes = append(classes, [...]string{"empty:rdata-zero-value", "empty:owner", "empty:rdata-name", "empty:question-name"}[blankClass(s)])
		}
		if exact {
			classes = append(classes, "empty-names-exactness-asserted")
		}
	}
	classes = append(classes, orderCl...)
	classes = append(classes, textCl...)
	if texted {
		classes = append(classes, "caller-text")
	}
	if m.Rcode > 0xF {
		classes = append(classes, rcodeClass(m.Rcode, true))
	}
	if len(w) > 16384 {
		classes = append(classes, "beyond-16384")
	}
	if len(w) > 65535 {
		classes = append(classes, "beyond-65535-uncompressed")
	}
	pbt.Note(append(p, byte(len(classes))), hasPtr || special, classes...)

	if predicted < len(p) {
		return pbt.Errf("Len()=%d under-estimates Pack()=%d octets (compress=%v)%s%s", predicted, len(p), c.Compress, orderNote(reordered), textNote(texted))
	}
	if exact && predicted != len(p) {
		return pbt.Errf("escape-free message of the common types: Len()=%d but Pack() produced %d octets (compress=%v)%s%s", predicted, len(p), c.Compress, blankNote(blanked), textNote(texted))
	}
	// ... and the prediction of the value that has been packed (packing may touch the value)
	if after := lib.Len(); after < len(p) {
		return pbt.Errf("Len()=%d, taken after Pack, under-estimates Pack()=%d octets (compress=%v)%s%s", after, len(p), c.Compress, orderNote(reordered), textNote(texted))
	} else if exact && after != len(p) {
		return pbt.Errf("escape-free message of the common types: Len()=%d after Pack, which produced %d octets (compress=%v)%s%s", after, len(p), c.Compress, blankNote(blanked), textNote(texted))
	}
	if !c.Compress && !bytes.Equal(p, w) {
		return nil // layout errors are C01's business
	}
	// single records
	var libRecs []dns.RR
	if blanked || reordered || texted {
		libRecs = append(append(append(libRecs, lib.Answer...), lib.Ns...), lib.Extra...)
	}
	for ri, r := range m.AllRecs() {
		rr, err := wm.ToLib(r)
		if err != nil {
			continue
		}
		if ri < len(libRecs) {
			rr = libRecs[ri] // the record as it stands in the message, with its emptied names / its list in the caller's order
		}
		rw, err := wm.EncodeRR(r)
		if err != nil {
			continue
		}
		buf := make([]byte, len(rw)+16+textChars)
		lFirst := dns.Len(rr)
		off, err := dns.PackRR(rr, buf, 0, nil, false)
		if err != nil {
			return pbt.Errf("PackRR(%s) failed: %v", typeName(r.Type), err)
		}
		if lFirst < off {
			return pbt.Errf("Len(rr)=%d, taken before PackRR, under-estimates the %d packed octets of a %s record%s%s", lFirst, off, typeName(r.Type), orderNote(reordered), textNote(texted))
		}
		if l := dns.Len(rr); l < off {
			return pbt.Errf("Len(rr)=%d under-estimates the %d packed octets of a %s record%s%s", l, off, typeName(r.Type), orderNote(reordered), textNote(texted))
		} else if exact && l != off {
			return pbt.Errf("Len(rr)=%d but a plain %s record packs to %d octets%s%s", l, typeName(r.Type), off, blankNote(blanked), textNote(texted))
		}
	}
	// Text fields in a spelling the packer may or may not accept (base64 without its padding, hex in
	// upper case): if it packs, Len must still cover it
	for ri, r := range m.AllRecs() {
		if ri >= 8 {
			break // long messages repeat one record
		}
		layout, ok := wm.LayoutOf(r.Type)
		if !ok || r.NoRdata {
			continue
		}
		rr, err := wm.ToLib(r)
		if err != nil {
			continue
		}
		v := reflect.ValueOf(rr).Elem()
		changed := false
		for _, sp := range layout {
			// a redundant length field (salt length, hash length, HIT length, key size ...) holding a
			// stale value: the packer writes it as given; Len must not trust it for the payload
			if sp.LenGo != "" {
				if lf := v.FieldByName(sp.LenGo); lf.IsValid() && lf.CanUint() && lf.Uint() > 0 && (r.TTL%3 != 0) {
					lf.SetUint([]uint64{0, 1, lf.Uint() - 1, lf.Uint() / 2}[int(r.TTL)%4])
					changed = true
				}
			}
			if sp.R != wm.ReprB64 && sp.R != wm.ReprHex {
				continue
			}
			f := v.FieldByName(sp.Go)
			if !f.IsValid() || f.Kind() != reflect.String {
				continue
			}
			if sp.R == wm.ReprB64 && strings.HasSuffix(f.String(), "=") {
				f.SetString(strings.TrimRight(f.String(), "="))
				changed = true
			} else if sp.R == wm.ReprHex && f.String() != strings.ToUpper(f.String()) {
				f.SetString(strings.ToUpper(f.String()))
				changed = true
			}
		}
		if !changed {
			continue
		}
		buf := make([]byte, 2*len(wm.EncodeRdata(r))+1024)
		off, err := dns.PackRR(rr, buf, 0, nil, false)
		if err != nil {
			pbt.Class("lenient-spelling-refused")
			continue
		}
		pbt.Class("lenient-spelling-packed")
		if l := dns.Len(rr); l < off {
			return pbt.Errf("Len(rr)=%d under-estimates the %d packed octets of a %s record with a lenient spelling / a stale redundant length field: %s", l, off, typeName(r.Type), rr)
		}
	}
	// PackBuffer: a buffer larger than the uncompressed length is used in place
	// ("larger than the uncompressed length": the library sizes by its own uncompressed-length
	// prediction, which may over-estimate outside the plain sub-domain – there the prediction is used)
	lib.Compress = false
	ul := lib.Len()
	lib.Compress = c.Compress
	if ulFirst < len(w) {
		return pbt.Errf("uncompressed Len()=%d, taken before the first Pack, under-estimates the %d uncompressed octets%s", ulFirst, len(w), textNote(texted))
	}
	if ul < len(w) {
		return pbt.Errf("uncompressed Len()=%d under-estimates the %d uncompressed octets%s", ul, len(w), textNote(texted))
	}
	if exact && (ul != len(w) || ulFirst != len(w)) {
		return pbt.Errf("plain message: uncompressed Len()=%d (%d before the first Pack), uncompressed size %d%s%s", ul, ulFirst, len(w), blankNote(blanked), textNote(texted))
	}
	// Buffers of every interesting length (around the packed size, between the packed and the
	// uncompressed size, around the uncompressed size) and with spare capacity behind their length
	// (a pooled buffer re-sliced to [:n], the slice a previous PackBuffer returned): PackBuffer
	// never fails for lack of room, gives the octets Pack gives, and works in place whenever the
	// buffer is longer than the uncompressed length.
	cl := len(p)
	lens := []int{0, 1, 11, 12, 13, cl - 1, cl, cl + 1, cl + 2, cl + 3, cl + 4, cl + 6, cl + 9, cl + 13, cl + 20, (cl + ul) / 2, ul - 2, ul - 1, ul, ul + 1, ul + 2, ul + 1 + int(m.ID%7), ul + 300}
	if ul > 4096 { // large messages: a rotating selection keeps the cost linear
		var sel []int
		for i := 0; i < 7; i++ {
			sel = append(sel, lens[(int(m.ID)+i*5)%len(lens)])
		}
		lens = append(sel, ul+1)
	}
	arena := make([]byte, ul+400)
	dirtyTemplate := bytes.Repeat([]byte{0xA5}, len(arena))
	for li, l := range lens {
		if l < 0 {
			continue
		}
		// capacities: none to spare, plenty, and in turn room for the packed / for the uncompressed size
		caps := []int{l, max(l, cl+1), ul + 400}
		if (int(m.ID)+li)%2 == 0 {
			caps[1] = max(l, ul+1)
		}
		if ul > 4096 {
			caps = []int{l, ul + 400}
		}
		for _, c2 := range caps {
			copy(arena, dirtyTemplate) // every call starts from a buffer full of debris
			buf := arena[:l:c2]
			pb, err := lib.PackBuffer(buf)
			if err != nil {
				return pbt.Errf("PackBuffer(buffer of length %d, capacity %d) failed: %v (packed size %d, uncompressed length %d, compress=%v)", l, c2, err, cl, ul, c.Compress)
			}
			if !bytes.Equal(pb, p) {
				return pbt.Errf("PackBuffer(buffer of length %d, capacity %d) produced different octets than Pack (packed size %d)", l, c2, cl)
			}
			if l > ul && len(pb) > 0 && &pb[0] != &buf[0] {
				return pbt.Errf("PackBuffer did not write into the caller's buffer of %d octets (uncompressed length %d, predicted %d, compress=%v)", l, len(w), ul, c.Compress)
			}
		}
	}
	// the placement clause as a caller meets it: a value that was never packed, a buffer sized by its
	// uncompressed Len(), then PackBuffer (all calls above ran on a value that had been packed before)
	if ul <= 4096 || m.ID%4 == 0 {
		fresh := rebuild()
		if fresh == nil {
			return nil
		}
		fresh.Compress = false
		ful := fresh.Len()
		fresh.Compress = c.Compress
		buf := bytes.Repeat([]byte{0xA5}, ful+1+int(m.ID%11))
		pb, err := fresh.PackBuffer(buf)
		if err != nil {
			return pbt.Errf("PackBuffer(buffer of %d octets) failed on a value that was never packed before: %v (uncompressed Len() %d, compress=%v)", len(buf), err, ful, c.Compress)
		}
		if !bytes.Equal(pb, p) {
			return pbt.Errf("PackBuffer(buffer of %d octets) on a value that was never packed before produced other octets (%d) than Pack on a value built alike (%d)", len(buf), len(pb), cl)
		}
		if len(pb) > 0 && &pb[0] != &buf[0] {
			return pbt.Errf("PackBuffer did not write a value that was never packed before into the caller's buffer of %d octets, which is larger than its uncompressed Len()=%d (compress=%v)", len(buf), ful, c.Compress)
		}
	}
	return nil
}

func blankClass(s blankSlot) int {
	switch {
	case s.Field == -2:
		return 0
	case s.Sec == 0:
		return 3
	case s.Field == -1:
		return 1
	}
	return 2
}

func orderNote(reordered bool) string {
	if reordered {
		return " (a type list / SvcParams in the caller's order, see the Order slots of the case)"
	}
	return ""
}

func blankNote(blanked bool) string {
	if blanked {
		return " (names or RDATA left at the zero value, see the Blank slots of the case)"
	}
	return ""
}

func genAny(t *rapid.T) lenCase {
	mo := &gen.MsgOpts{Share: true, MaxQ: 3, MaxRecs: 5}
	mo.Unknown = true
	mo.BigBlob = pbt.Thorough()
	m := gen.Msg(t, mo)
	if rapid.IntRange(0, 15).Draw(t, "filler") == 0 {
		m.An = append([]wm.Rec{gen.PlainFiller(16384 - 12 - 20 - rapid.IntRange(0, 120).Draw(t, "d"))}, m.An...)
	}
	c := lenCase{M: m, Compress: rapid.Bool().Draw(t, "compress")}
	if rapid.IntRange(0, 3).Draw(t, "respell") == 0 {
		c.Spell = rapid.Uint64().Draw(t, "spell")
	}
	return withHeader(t, withText(t, withOrder(t, withBlank(t, c))))
}

func genPlain(t *rapid.T) lenCase {
	// the exactness domain by the statement: every type made of integers, addresses, names and
	// character-strings (not only the sixteen common ones)
	m := gen.PlainMsgOf(t, 6, false, gen.FieldPlainTypes)
	if rapid.IntRange(0, 10).Draw(t, "filler") == 0 {
		pre := 12
		for _, q := range m.Q {
			pre += q.Name.WireLen() + 4 // upper bound (questions may compress)
		}
		n := 16384 - pre - 16 - rapid.IntRange(-60, 80).Draw(t, "d")
		m.An = append([]wm.Rec{gen.PlainFiller(n)}, m.An...)
	}
	if gen.Rarely(t, 6) {
		// a message past 64 KiB uncompressed that compresses to far less (a large RRset / zone chunk)
		owner := gen.Name(t, gen.NameOpts{Plain: true, MaxLabs: 4, MaxLabel: 12})
		n := rapid.IntRange(1900, 4300).Draw(t, "hugecount")
		rec := gen.RecOfType(t, rapid.SampledFrom([]uint16{wm.TA, wm.TAAAA, wm.TNS, wm.TMX}).Draw(t, "hugetype"), &gen.Opts{Plain: true, NameGen: func(*rapid.T) wm.Name { return owner }})
		rec.Name = append(wm.Name{[]byte("w")}, owner...).Clone()
		if !rec.Name.Valid() {
			rec.Name = owner.Clone()
		}
		big := make([]wm.Rec, n)
		for i := range big {
			big[i] = rec
		}
		switch rapid.IntRange(0, 2).Draw(t, "hugesec") {
		case 0:
			m.An = append(m.An, big...)
		case 1:
			m.Ns = append(m.Ns, big...)
		default:
			m.Ex = append(m.Ex, big...)
		}
	}
	return withHeader(t, withText(t, withBlank(t, lenCase{M: m, Compress: rapid.Bool().Draw(t, "compress"), Plain: true})))
}

// records whose own fields straddle the 16384-octet pointer limit: a filler puts the start of a
// name-bearing record of a generated type at 16384-k (k in 0..48); the names it introduces are used
// again by later records, so that every "may this name become a compression target?" decision of the
// length prediction is compared with the packer's
var nameTypes = []uint16{wm.TNS, wm.TCNAME, wm.TSOA, wm.TMX, wm.TPTR, wm.TMINFO, wm.TSRV, wm.TDNAME, wm.TRP, wm.TAFSDB, wm.TKX, wm.TNAPTR,
	wm.TNSEC, wm.TNXT, wm.TRRSIG, wm.TSIG, wm.THIP, wm.TSVCB, wm.THTTPS, wm.TIPSECKEY, wm.TAMTRELAY, wm.TTALINK, wm.TPX, wm.TLP, wm.TRT, wm.TNSAPPTR, wm.TTKEY, wm.TTSIG, wm.TMB, wm.TMG, wm.TMR, wm.TMD, wm.TMF}

func genBoundary(t *rapid.T) lenCase {
	plainNames := func(t *rapid.T) wm.Name {
		return gen.Name(t, gen.NameOpts{Plain: true, MaxLabs: 3, MaxLabel: 8})
	}
	o := &gen.Opts{Plain: true, NameGen: plainNames}
	typ := rapid.SampledFrom(nameTypes).Draw(t, "type")
	rec := gen.RecOfType(t, typ, o)
	if rec.Type == wm.TIPSECKEY || rec.Type == wm.TAMTRELAY {
		// make the gateway a host name
		for i := range rec.Fields {
			if rec.Fields[i].K == wm.U8 && i == 1 {
				rec.Fields[i].U = rec.Fields[i].U&0x80 | 3
			}
			if rec.Fields[i].K == wm.GW {
				rec.Fields[i] = wm.Field{K: wm.GW, U: 3, N: plainNames(t)}
			}
		}
	}
	m := wm.Msg{ID: uint16(gen.UintB(t, 16)), Flags: wm.FlagQR, Q: []wm.Question{{Name: plainNames(t), Type: 1, Class: 1}}}
	pre := 12 + m.Q[0].Name.WireLen() + 4
	k := rapid.IntRange(0, 48).Draw(t, "k")
	fillerHdr := wm.Name{[]byte("fill")}.WireLen() + 10
	n := 16384 - k - pre - fillerHdr
	m.An = []wm.Rec{gen.PlainFiller(n), rec}
	// later records reuse the names the boundary record introduced (owner and RDATA names)
	var names []wm.Name
	names = append(names, rec.Name)
	for _, f := range rec.Fields {
		if len(f.N) > 0 {
			names = append(names, f.N)
		}
		names = append(names, f.NL...)
	}
	for i := rapid.IntRange(1, 3).Draw(t, "nlater"); i > 0; i-- {
		base := names[rapid.IntRange(0, len(names)-1).Draw(t, "which")]
		owner := base.Clone()
		if rapid.Bool().Draw(t, "child") {
			owner = append(wm.Name{[]byte("c")}, owner...)
		}
		later := wm.Rec{Name: owner, Type: wm.TNS, Class: 1, TTL: 1, Fields: []wm.Field{{K: wm.NameC, N: names[rapid.IntRange(0, len(names)-1).Draw(t, "target")].Clone()}}}
		if !later.Name.Valid() {
			later.Name = base.Clone()
		}
		m.Ns = append(m.Ns, later)
	}
	_, plain := map[uint16]bool{wm.TNS: true, wm.TCNAME: true, wm.TSOA: true, wm.TMX: true, wm.TPTR: true, wm.TMINFO: true, wm.TSRV: true, wm.TDNAME: true,
		wm.TRP: true, wm.TAFSDB: true, wm.TKX: true, wm.TNAPTR: true}[typ]
	return withHeader(t, withText(t, withOrder(t, withBlank(t, lenCase{M: m, Compress: rapid.IntRange(0, 3).Draw(t, "compress") != 0, Plain: plain}))))
}

// genSuffixDense: names made of very many one-octet labels - every label start is a possible
// pointer target, so a few dozen such names put thousands of targets into the first 16 KiB (far
// more than one per three octets) - followed by names that are used again.
func genSuffixDense(t *rapid.T) lenCase {
	m := wm.Msg{ID: uint16(gen.UintB(t, 16)), Flags: wm.FlagQR, Q: []wm.Question{{Name: wm.MustName("q.example."), Type: 1, Class: 1}}}
	n := rapid.IntRange(30, 70).Draw(t, "ndense")
	al := "abcdefghijklmnopqrstuvwxyz0123456789"
	for i := 0; i < n; i++ {
		var name wm.Name
		// distinct names: the label sequence spells i in base 36 again and again
		for j, labs := 0, rapid.IntRange(90, 126).Draw(t, "nlabs"); j < labs; j++ {
			name = append(name, []byte{al[(i*7+j*(i+1)+j/36)%36]})
		}
		m.An = append(m.An, wm.Rec{Name: name, Type: wm.TA, Class: 1, TTL: 1, Fields: []wm.Field{{K: wm.IPv4, B: []byte{10, 0, 0, byte(i)}}}})
	}
	// ordinary names after that, each used several times
	for i, k := 0, rapid.IntRange(2, 6).Draw(t, "nlate"); i < k; i++ {
		late := gen.Name(t, gen.NameOpts{Plain: true, MaxLabs: 3, MaxLabel: 8})
		if len(late) == 0 {
			late = wm.MustName("late.example.")
		}
		for r := 0; r < 3; r++ {
			m.Ns = append(m.Ns, wm.Rec{Name: late.Clone(), Type: wm.TNS, Class: 1, TTL: 1, Fields: []wm.Field{{K: wm.NameC, N: late.Clone()}}})
		}
	}
	return lenCase{M: m, Compress: rapid.IntRange(0, 5).Draw(t, "compress") != 0, Plain: true}
}

func init() {
	// The cases are small and short-lived: with the default pacing the collector runs every few
	// milliseconds and, on a loaded machine, costs as much as the checks themselves.
	if os.Getenv("GOGC") == "" {
		debug.SetGCPercent(400)
	}
	// first: small and complete, so a failure is reported with a one-record message
	pbt.RegisterEnum(pbt.Enum[lenCase]{Name: "type-list-orders", Exhaustive: true, Each: eachOrder, Check: checkLen})
	pbt.Register(pbt.Sub[lenCase]{Name: "len-suffix-dense", Weight: 0.05, Gen: genSuffixDense, Check: checkLen})
	pbt.Register(pbt.Sub[lenCase]{Name: "len-at-16384", Weight: 5.6, Gen: genBoundary, Check: checkLen})
	pbt.Register(pbt.Sub[lenCase]{Name: "len-any", Weight: 10, Gen: genAny, Check: checkLen})
	pbt.Register(pbt.Sub[lenCase]{Name: "len-plain-exact", Weight: 10, Gen: genPlain, Check: checkLen})
}
