package c08

import (
	"fmt"
	"reflect"

	"github.com/miekg/dns"
	"pgregory.net/rapid"

	wm "verif/harness/wiremodel"
)

// Lists left in the order the caller wrote them (round 9).
//
// Two RDATA fields are *sets* on the wire with one canonical order: the type bitmap of NSEC, NSEC3,
// CSYNC and NXT (RFC 4034 4.1.2: one block per window, windows ascending) and the SvcParams of SVCB
// and HTTPS (keys ascending). In the library value they are plain slices ([]uint16, []SVCBKeyValue)
// that hold whatever order the caller - or the zone parser, which keeps the order of the text - put
// there, possibly with an element listed twice. Everything the model, Unpack or a signer produces is
// ascending and unique, so up to round 8 no generator ever left that corner. Whether the packer takes
// such a list (it orders a copy of the SvcParams; it refuses a type list that steps back to an earlier
// window or octet and takes one that steps back inside an octet or repeats a type) is not C08's
// business; but IF it packs, the record is part of "every message that can be packed" and Len() /
// Len(rr) must cover the octets written - which are those of the ascending list, the only wire form
// the set has. The dimension: after the model message was turned into the library value the list of a
// generated record is replaced by a generated arrangement of the same elements.

// orderSlot names one record and the arrangement of its list.
type orderSlot struct {
	Sec  int   // 1 answer, 2 authority, 3 additional
	Idx  int   // position in the section
	Perm []int // element i of the library's list is element Perm[i] of the model's ascending list; every element occurs, some may occur twice
}

// listField: the position of the canonical-order list in the layout of r and its length.
func listField(r wm.Rec) (k, n int, ok bool) {
	layout, known := wm.LayoutOf(r.Type)
	if !known || r.NoRdata {
		return 0, 0, false
	}
	for k, sp := range layout {
		if k >= len(r.Fields) {
			break
		}
		switch sp.K {
		case wm.Bitmap:
			return k, len(r.Fields[k].T), true
		case wm.Params:
			return k, len(r.Fields[k].Opts), true
		}
	}
	return 0, 0, false
}

// validPerm: every element of the model's list occurs (the set, and with it the wire form, is that
// of the model), no index is out of range, and the arrangement is not the ascending one.
func validPerm(perm []int, n int) bool {
	if n == 0 || len(perm) < n || len(perm) > 2*n+2 {
		return false
	}
	seen := make([]bool, n)
	identity := len(perm) == n
	for i, p := range perm {
		if p < 0 || p >= n {
			return false
		}
		seen[p] = true
		if p != i {
			identity = false
		}
	}
	for _, s := range seen {
		if !s {
			return false
		}
	}
	return !identity
}

// orderClasses describes an arrangement of a type list by the steps back it holds.
func orderClasses(types []uint16) []string {
	var out []string
	add := func(s string) {
		for _, o := range out {
			if o == s {
				return
			}
		}
		out = append(out, s)
	}
	seen := map[uint16]bool{}
	for i, t := range types {
		if seen[t] {
			add("type-list:repeated-type")
		}
		seen[t] = true
		if i == 0 || t >= types[i-1] {
			continue
		}
		switch p := types[i-1]; {
		case t>>8 != p>>8:
			add("type-list:back-to-earlier-window")
		case (t&0xff)/8 != (p&0xff)/8:
			add("type-list:back-to-earlier-octet")
		default:
			add("type-list:back-inside-octet")
		}
	}
	return out
}

// applyOrder rearranges the lists named by slots in the library message built from m. It returns
// the number of lists it changed, the histogram classes of the arrangements, a description for a
// report and a function that puts the ascending lists back.
func applyOrder(x *dns.Msg, m *wm.Msg, slots []orderSlot) (changed int, classes []string, desc string, undo func()) {
	var undos []func()
	undo = func() {
		for _, u := range undos {
			u()
		}
	}
	for _, s := range slots {
		sec := secOf(x, s.Sec)
		recs := modelSec(m, s.Sec)
		if sec == nil || s.Idx < 0 || s.Idx >= len(*sec) || s.Idx >= len(recs) || (*sec)[s.Idx] == nil {
			continue
		}
		r := recs[s.Idx]
		k, n, ok := listField(r)
		if !ok || !validPerm(s.Perm, n) {
			continue
		}
		layout, _ := wm.LayoutOf(r.Type)
		v := reflect.ValueOf((*sec)[s.Idx])
		if v.Kind() != reflect.Pointer || v.Elem().Kind() != reflect.Struct {
			continue
		}
		f := v.Elem().FieldByName(layout[k].Go)
		if !f.IsValid() || f.Kind() != reflect.Slice || f.Len() != n || !f.CanSet() {
			continue
		}
		old := reflect.MakeSlice(f.Type(), n, n)
		reflect.Copy(old, f)
		nl := reflect.MakeSlice(f.Type(), len(s.Perm), len(s.Perm))
		for i, p := range s.Perm {
			nl.Index(i).Set(old.Index(p))
		}
		f.Set(nl)
		undos = append(undos, func() { f.Set(old) })
		changed++
		if layout[k].K == wm.Bitmap {
			types := make([]uint16, len(s.Perm))
			for i, p := range s.Perm {
				types[i] = r.Fields[k].T[p]
			}
			classes = append(classes, orderClasses(types)...)
			desc += fmt.Sprintf(" %s type list %v", typeName(r.Type), types)
		} else {
			classes = append(classes, "svcparams-order")
			keys := make([]uint16, len(s.Perm))
			for i, p := range s.Perm {
				keys[i] = r.Fields[k].Opts[p].Code
			}
			desc += fmt.Sprintf(" %s SvcParam keys %v", typeName(r.Type), keys)
		}
	}
	return
}

// drawPerm draws an arrangement of n >= 1 elements; win[i] is the window of element i (nil: no windows).
func drawPerm(t *rapid.T, n int, win []uint16) []int {
	id := make([]int, n)
	for i := range id {
		id[i] = i
	}
	if n == 1 {
		return []int{0, 0}
	}
	perm := id
	switch rapid.IntRange(0, 6).Draw(t, "ordermode") {
	case 0: // any order
		perm = rapid.Permutation(id).Draw(t, "perm")
	case 1: // descending
		perm = make([]int, n)
		for i := range perm {
			perm[i] = n - 1 - i
		}
	case 2: // ascending, but starting in the middle: one step back
		r := rapid.IntRange(1, n-1).Draw(t, "rot")
		perm = append(append([]int{}, id[r:]...), id[:r]...)
	case 3: // two neighbours swapped
		i := rapid.IntRange(0, n-2).Draw(t, "swap")
		perm = append([]int{}, id...)
		perm[i], perm[i+1] = perm[i+1], perm[i]
	case 4: // the windows in another order, ascending inside each window
		if win == nil {
			perm = rapid.Permutation(id).Draw(t, "perm")
			break
		}
		var groups [][]int
		for i := 0; i < n; i++ {
			if i == 0 || win[i] != win[i-1] {
				groups = append(groups, nil)
			}
			groups[len(groups)-1] = append(groups[len(groups)-1], i)
		}
		if len(groups) < 2 {
			i := rapid.IntRange(0, n-2).Draw(t, "swap")
			perm = append([]int{}, id...)
			perm[i], perm[i+1] = perm[i+1], perm[i]
			break
		}
		perm = nil
		for _, g := range rapid.Permutation(groups).Draw(t, "winperm") {
			perm = append(perm, g...)
		}
	case 5: // one element moved to the end (appended by hand after the list was built)
		i := rapid.IntRange(0, n-2).Draw(t, "moved")
		perm = append(append(append([]int{}, id[:i]...), id[i+1:]...), i)
	default: // ascending with one element listed twice
	}
	if rapid.IntRange(0, 4).Draw(t, "repeat") == 0 || isIdentity(perm) {
		e := rapid.IntRange(0, n-1).Draw(t, "again")
		at := rapid.IntRange(0, len(perm)).Draw(t, "againat")
		perm = append(append(append([]int{}, perm[:at]...), e), perm[at:]...)
	}
	return perm
}

func isIdentity(p []int) bool {
	for i, v := range p {
		if v != i {
			return false
		}
	}
	return true
}

// withOrder adds the dimension to a generated case: two in three of the records that hold such a list.
func withOrder(t *rapid.T, c lenCase) lenCase {
	for sec := 1; sec <= 3; sec++ {
		recs := modelSec(&c.M, sec)
		for i, r := range recs {
			if i >= 6 && i != len(recs)-1 { // long sections repeat one record
				continue
			}
			k, n, ok := listField(r)
			if !ok || n == 0 {
				continue
			}
			if rapid.IntRange(0, 2).Draw(t, "reorder") == 0 {
				continue
			}
			var win []uint16
			if len(r.Fields[k].T) == n {
				win = make([]uint16, n)
				for j, ty := range r.Fields[k].T {
					win[j] = ty >> 8
				}
			}
			if p := drawPerm(t, n, win); validPerm(p, n) {
				c.Order = append(c.Order, orderSlot{Sec: sec, Idx: i, Perm: p})
			}
		}
	}
	return c
}

// The small end of the space, completely: every list of one to three types over six types in three
// windows and two octets per window (repeats included), in each of the four records with a type
// bitmap, compressed and not.
var orderAlphabet = []uint16{1, 2, 9, 256, 257, 520}

func fixedBitmapRec(typ uint16, types []uint16) wm.Rec {
	r := wm.Rec{Name: wm.MustName("a.example.org."), Type: typ, Class: 1, TTL: 3600}
	layout, _ := wm.LayoutOf(typ)
	for _, sp := range layout {
		f := wm.Field{K: sp.K}
		switch sp.K {
		case wm.U8, wm.U16, wm.U32:
			f.U = 1
		case wm.NameU, wm.NameC:
			f.N = wm.MustName("b.example.org.")
		case wm.L8:
			f.B = []byte{0xab, 0xcd}
			if sp.Hint == "nsec3next" {
				f.B = []byte("01234567890123456789")
			}
		case wm.Bitmap:
			f.T = types
		}
		r.Fields = append(r.Fields, f)
	}
	return r
}

func eachOrder(emit func(lenCase)) {
	var lists [][]int
	a := len(orderAlphabet)
	for i := 0; i < a; i++ {
		lists = append(lists, []int{i})
		for j := 0; j < a; j++ {
			lists = append(lists, []int{i, j})
			for k := 0; k < a; k++ {
				lists = append(lists, []int{i, j, k})
			}
		}
	}
	for _, typ := range []uint16{wm.TNSEC, wm.TNSEC3, wm.TCSYNC, wm.TNXT} {
		for _, l := range lists {
			// the set, ascending, and the arrangement as indices into it
			var set []uint16
			for _, ai := range orderAlphabet { // ascending by construction
				for _, li := range l {
					if orderAlphabet[li] == ai {
						set = append(set, ai)
						break
					}
				}
			}
			perm := make([]int, len(l))
			for i, li := range l {
				for si, sv := range set {
					if sv == orderAlphabet[li] {
						perm[i] = si
					}
				}
			}
			for _, compress := range []bool{false, true} {
				m := wm.Msg{ID: uint16(len(l)), Flags: wm.FlagQR, Q: []wm.Question{{Name: wm.MustName("example.org."), Type: typ, Class: 1}},
					Ns: []wm.Rec{fixedBitmapRec(typ, set)}}
				emit(lenCase{M: m, Compress: compress, Order: []orderSlot{{Sec: 2, Idx: 0, Perm: perm}}})
			}
		}
	}
}
