package c08

import (
	"bytes"
	"fmt"
	"net"
	"strings"

	"github.com/miekg/dns"
	"pgregory.net/rapid"

	"verif/harness/gen"
	"verif/harness/pbt"
	wm "verif/harness/wiremodel"
)

// Sequences of Len/Pack/PackBuffer calls on ONE goroutine over a small set of messages that share
// names: the prediction and the packed size of a message are a function of that message alone, so
// whatever was packed (or failed to pack) before it must not show. Some messages of the set cannot
// be packed: an unpackable record of a generated kind sits at a generated position, so that the pack
// stops with an error after the names in front of it were written and registered as compression
// targets. Any state that survives such a call (a recycled compression map, a recycled buffer, a
// cached length) meets the next valid message of the sequence.

type seqMsg struct {
	M        wm.Msg
	Compress bool
	Plain    bool    // exactness sub-domain
	Fault    int     `json:",omitempty"` // 0: packable; k: faultKinds[k-1] is planted
	Sec      int     `json:",omitempty"` // where the unpackable record goes: section (0 answer, 1 authority, 2 additional) ...
	Pos      int     `json:",omitempty"` // ... and position in it (clipped)
	FName    wm.Name `json:",omitempty"` // the name the unpackable record uses (from the shared pool)
}

type seqOp struct {
	Msg      int  // index into Msgs
	Buf      int  // 0 Pack(); 1 PackBuffer(nil); 2 roomy buffer (in place); 3 buffer one short of the packed size; 4 buffer of exactly the uncompressed length
	Extra    int  `json:",omitempty"` // spare octets for Buf=2
	LenFirst bool `json:",omitempty"` // Len() before the pack (else after it)
}

type seqCase struct {
	Msgs []seqMsg
	Ops  []seqOp
}

type faultKind struct {
	name  string
	plant func(x *dns.Msg, sm seqMsg)
}

func relName(n wm.Name) string {
	s := strings.TrimSuffix(wm.EscName(n), ".")
	if s == "" {
		s = "x"
	}
	return s
}

func fqName(n wm.Name) string { return wm.EscName(n) }

func insertRR(x *dns.Msg, sm seqMsg, rr dns.RR) {
	sec := []*[]dns.RR{&x.Answer, &x.Ns, &x.Extra}[((sm.Sec%3)+3)%3]
	pos := sm.Pos
	if pos < 0 {
		pos = 0
	}
	if pos > len(*sec) {
		pos = len(*sec)
	}
	out := append([]dns.RR{}, (*sec)[:pos]...)
	out = append(out, rr)
	out = append(out, (*sec)[pos:]...)
	*sec = out
}

func hdr(name string, t uint16) dns.RR_Header {
	return dns.RR_Header{Name: name, Rrtype: t, Class: dns.ClassINET, Ttl: 300}
}

// kinds of records (and message fields) the packer refuses, each at a different point of the
// writer: in the owner, in the first / a later RDATA field, in a compressible / an incompressible
// name, at the RDLENGTH check after everything was written, before anything is written
var faultKinds = []faultKind{
	{"rdata-name-not-fqdn", func(x *dns.Msg, sm seqMsg) {
		insertRR(x, sm, &dns.NS{Hdr: hdr(fqName(sm.FName), dns.TypeNS), Ns: relName(sm.FName)})
	}},
	{"second-rdata-name-not-fqdn", func(x *dns.Msg, sm seqMsg) {
		insertRR(x, sm, &dns.SOA{Hdr: hdr(fqName(sm.FName), dns.TypeSOA), Ns: "ns1." + strings.TrimPrefix(fqName(sm.FName), "."), Mbox: "hostmaster." + relName(sm.FName), Serial: 1})
	}},
	{"uncompressed-rdata-name-not-fqdn", func(x *dns.Msg, sm seqMsg) {
		insertRR(x, sm, &dns.SRV{Hdr: hdr("_sip._tcp."+strings.TrimPrefix(fqName(sm.FName), "."), dns.TypeSRV), Priority: 1, Weight: 2, Port: 5060, Target: relName(sm.FName)})
	}},
	{"owner-not-fqdn", func(x *dns.Msg, sm seqMsg) {
		insertRR(x, sm, &dns.A{Hdr: hdr(relName(sm.FName), dns.TypeA), A: net.IP{192, 0, 2, 1}})
	}},
	{"txt-string-over-255", func(x *dns.Msg, sm seqMsg) {
		insertRR(x, sm, &dns.TXT{Hdr: hdr(fqName(sm.FName), dns.TypeTXT), Txt: []string{"ok", strings.Repeat("x", 256+sm.Pos*7%40)}})
	}},
	{"address-5-octets", func(x *dns.Msg, sm seqMsg) {
		insertRR(x, sm, &dns.A{Hdr: hdr(fqName(sm.FName), dns.TypeA), A: net.IP{1, 2, 3, 4, 5}})
	}},
	{"aaaa-3-octets", func(x *dns.Msg, sm seqMsg) {
		insertRR(x, sm, &dns.AAAA{Hdr: hdr(fqName(sm.FName), dns.TypeAAAA), AAAA: net.IP{1, 2, 3}})
	}},
	{"label-over-63", func(x *dns.Msg, sm seqMsg) {
		insertRR(x, sm, &dns.CNAME{Hdr: hdr(fqName(sm.FName), dns.TypeCNAME), Target: strings.Repeat("l", 64) + "." + strings.TrimPrefix(fqName(sm.FName), ".")})
	}},
	{"name-over-255", func(x *dns.Msg, sm seqMsg) {
		insertRR(x, sm, &dns.PTR{Hdr: hdr(fqName(sm.FName), dns.TypePTR), Ptr: strings.Repeat(strings.Repeat("n", 50)+".", 5) + strings.TrimPrefix(fqName(sm.FName), ".")})
	}},
	{"nil-record", func(x *dns.Msg, sm seqMsg) { insertRR(x, sm, nil) }},
	{"rdata-over-65535", func(x *dns.Msg, sm seqMsg) {
		txt := make([]string, 258)
		for i := range txt {
			txt[i] = strings.Repeat("y", 255)
		}
		insertRR(x, sm, &dns.TXT{Hdr: hdr(fqName(sm.FName), dns.TypeTXT), Txt: txt})
	}},
	{"later-question-name-not-fqdn", func(x *dns.Msg, sm seqMsg) {
		x.Question = append(x.Question, dns.Question{Name: relName(sm.FName), Qtype: dns.TypeMX, Qclass: dns.ClassINET})
	}},
	{"rcode-over-4095", func(x *dns.Msg, sm seqMsg) { x.Rcode = 0x1000 + sm.Pos }},
	{"extended-rcode-without-opt", func(x *dns.Msg, sm seqMsg) { x.Rcode = 16 + sm.Pos%100 }},
}

type seqState struct {
	lib        *dns.Msg
	w          []byte // the model's uncompressed image (nil for an unpackable message)
	baseline   []byte // what the first pack of this message gave
	packedOnce bool   // an "unpackable" message that the library packed: it has been through a pack
}

// a small fixed message whose successful pack precedes every case: whatever the previous case left
// behind has met one successful call, so a saved case replays the way it ran
func settle() {
	m := new(dns.Msg)
	m.Compress = true
	m.Question = []dns.Question{{Name: "settle.invalid.", Qtype: dns.TypeA, Qclass: dns.ClassINET}}
	m.Answer = []dns.RR{&dns.A{Hdr: hdr("settle.invalid.", dns.TypeA), A: net.IP{192, 0, 2, 9}}}
	m.Len()
	m.Pack()
}

func checkSeq(c seqCase) error {
	if len(c.Msgs) == 0 || len(c.Ops) == 0 {
		return nil
	}
	settle()
	st := make([]seqState, len(c.Msgs))
	maxUL := 0
	for i, sm := range c.Msgs {
		w, err := wm.Encode(sm.M)
		if err != nil || len(w) > 65535 {
			return nil
		}
		lib, err := wm.MsgToLib(sm.M, sm.Compress)
		if err != nil {
			return nil
		}
		if sm.Fault > 0 && sm.Fault <= len(faultKinds) {
			faultKinds[sm.Fault-1].plant(lib, sm)
		} else {
			st[i].w = w
		}
		st[i].lib = lib
		if st[i].w != nil {
			lib.Compress = false
			if ul := lib.Len(); ul > maxUL {
				maxUL = ul
			}
			lib.Compress = sm.Compress
		}
	}
	arena := bytes.Repeat([]byte{0xA5}, maxUL+600) // never cleaned between the calls of one case
	var classes []string
	var key []byte
	nontrivial := false
	lastFailed, lastFailedCompressed, anyFailed := false, false, false
	var history []string
	describe := func() string { return strings.Join(history, " ; ") }

	for oi, op := range c.Ops {
		if op.Msg < 0 || op.Msg >= len(c.Msgs) {
			continue
		}
		sm, s := c.Msgs[op.Msg], &st[op.Msg]
		lib := s.lib
		pack := func(ul, cl int) (p []byte, buf []byte, err error) {
			switch op.Buf {
			case 0:
				p, err = lib.Pack()
			case 1:
				p, err = lib.PackBuffer(nil)
			case 2:
				buf = arena[:ul+1+op.Extra%64]
				p, err = lib.PackBuffer(buf)
			case 3:
				buf = arena[:max(cl-1, 0)]
				p, err = lib.PackBuffer(buf)
			default:
				buf = arena[:ul]
				p, err = lib.PackBuffer(buf)
			}
			return
		}
		if s.w == nil { // an unpackable message: only what it leaves behind matters
			kind := faultKinds[sm.Fault-1].name
			var err error
			var p, buf []byte
			before, ulBefore, ulReal := -1, len(arena)-600, -1
			func() {
				defer func() {
					if r := recover(); r != nil {
						err = fmt.Errorf("panic: %v", r)
					}
				}()
				if op.LenFirst {
					// measured first, as a caller sizes his buffer: on the first operation that names this
					// message the value has never been packed
					lib.Compress = false
					ulReal = lib.Len()
					ulBefore = min(ulReal, len(arena)-1-63) // (the arena is sized by the packable messages)
					lib.Compress = sm.Compress
					before = lib.Len()
				}
				p, buf, err = pack(ulBefore, 13)
			}()
			if err == nil {
				// The library takes what the harness planted as unpackable: then it is a message "that
				// can be packed" and the statement holds for it - the prediction taken BEFORE this pack
				// covers the octets it produced (packing may complete the value: what a Len() taken
				// afterwards says is a prediction for the next pack, checked when that pack comes),
				// and a buffer longer than the uncompressed length taken before the call is used in place.
				first := ""
				if !s.packedOnce {
					first = " (the first pack of this value)"
					classes = append(classes, "unpackable-message-packed-first-time:"+kind)
				}
				s.packedOnce = true
				if before >= 0 {
					classes = append(classes, "unpackable-message-packed-measured-first:"+kind)
					if before < len(p) {
						return pbt.Errf("op %d: message %d (%s) can be packed after all: Len()=%d, taken before the pack%s, under-estimates the %d octets produced (compress=%v) [%s]", oi, op.Msg, kind, before, first, len(p), sm.Compress, describe())
					}
					if buf != nil && len(buf) > ulReal && len(p) > 0 && &p[0] != &buf[0] {
						return pbt.Errf("op %d: message %d (%s) can be packed after all: PackBuffer did not write it into the caller's buffer of %d octets, longer than the uncompressed Len()=%d taken before the call%s (%d octets packed) [%s]", oi, op.Msg, kind, len(buf), ulReal, first, len(p), describe())
					}
				}
				if after := lib.Len(); after < len(p) {
					return pbt.Errf("op %d: message %d (%s) can be packed after all: Len()=%d, taken after the pack, under-estimates the %d octets produced (compress=%v) [%s]", oi, op.Msg, kind, after, len(p), sm.Compress, describe())
				}
				classes = append(classes, "unpackable-message-packed:"+kind)
				history = append(history, fmt.Sprintf("op %d: message %d (%s) packed", oi, op.Msg, kind))
				lastFailed = false
				continue
			}
			classes = append(classes, "failed:"+kind)
			history = append(history, fmt.Sprintf("op %d: message %d (compress=%v, %s) failed to pack: %v", oi, op.Msg, sm.Compress, kind, err))
			lastFailed, lastFailedCompressed, anyFailed = true, sm.Compress, true
			continue
		}
		// a packable message
		lib.Compress = false
		ul := lib.Len()
		lib.Compress = sm.Compress
		if ul < len(s.w) {
			return pbt.Errf("op %d: uncompressed Len()=%d under-estimates the %d uncompressed octets of message %d [%s]", oi, ul, len(s.w), op.Msg, describe())
		}
		predicted := -1
		if op.LenFirst {
			predicted = lib.Len()
		}
		cl := len(s.w)
		if s.baseline != nil {
			cl = len(s.baseline)
		}
		p, buf, err := pack(ul, cl)
		if err != nil {
			return pbt.Errf("op %d: packing (mode %d) the packable message %d (compress=%v) failed: %v [%s]", oi, op.Buf, op.Msg, sm.Compress, err, describe())
		}
		if !op.LenFirst {
			predicted = lib.Len()
		}
		after := ""
		if lastFailed {
			after = " right after a failed pack"
		}
		if predicted < len(p) {
			return pbt.Errf("op %d: Len()=%d under-estimates the %d packed octets of message %d (compress=%v)%s [%s]", oi, predicted, len(p), op.Msg, sm.Compress, after, describe())
		}
		if sm.Plain && predicted != len(p) {
			return pbt.Errf("op %d: escape-free message %d of plain fields: Len()=%d but the pack produced %d octets (compress=%v)%s [%s]", oi, op.Msg, predicted, len(p), sm.Compress, after, describe())
		}
		if len(p) > len(s.w) {
			return pbt.Errf("op %d: message %d packed to %d octets, more than its %d uncompressed octets [%s]", oi, op.Msg, len(p), len(s.w), describe())
		}
		if !sm.Compress && sm.Plain && !bytes.Equal(p, s.w) {
			return pbt.Errf("op %d: uncompressed plain message %d packed to other octets than the reference encoder's%s [%s]", oi, op.Msg, after, describe())
		}
		if sm.Plain {
			// the independent decoder reads the message back from the octets
			dm, err := wm.Decode(p, nil)
			if err != nil {
				return pbt.Errf("op %d: the %d packed octets of message %d (compress=%v) are not a message for the independent decoder: %v%s [%s]", oi, len(p), op.Msg, sm.Compress, err, after, describe())
			}
			if dw, _ := wm.Encode(dm); !bytes.Equal(dw, s.w) {
				return pbt.Errf("op %d: the packed octets of message %d (compress=%v) decode to another message%s [%s]", oi, op.Msg, sm.Compress, after, describe())
			}
		}
		if s.baseline == nil {
			s.baseline = append([]byte{}, p...)
		} else if !bytes.Equal(p, s.baseline) {
			return pbt.Errf("op %d: message %d (compress=%v) packed to %d octets that differ from the %d octets its first pack gave%s [%s]", oi, op.Msg, sm.Compress, len(p), len(s.baseline), after, describe())
		}
		if buf != nil && len(buf) > ul && len(p) > 0 && &p[0] != &buf[0] {
			return pbt.Errf("op %d: PackBuffer did not write message %d into the caller's buffer of %d octets (uncompressed length %d)%s [%s]", oi, op.Msg, len(buf), ul, after, describe())
		}
		hasPtr := sm.Compress && len(p) < len(s.w)
		if lastFailed {
			classes = append(classes, "valid-after-failed")
			if hasPtr && lastFailedCompressed {
				classes = append(classes, "compressed-with-pointer-after-failed-compressed")
				nontrivial = true
			}
		} else if anyFailed {
			classes = append(classes, "valid-later-after-failed")
		}
		if oi > 0 && !lastFailed {
			classes = append(classes, "valid-after-valid")
		}
		classes = append(classes, fmt.Sprintf("pack-mode-%d", op.Buf))
		history = append(history, fmt.Sprintf("op %d: message %d packed to %d octets", oi, op.Msg, len(p)))
		key = append(key, p...)
		key = append(key, byte(op.Buf))
		lastFailed = false
	}
	pbt.Note(key, nontrivial, classes...)
	return nil
}

func genSeq(t *rapid.T) seqCase {
	// one name pool for all messages of the case: they share names and suffixes
	names := gen.SharedNames(gen.NameOpts{Plain: true, MaxLabs: 4, MaxLabel: 10})
	anyNames := gen.SharedNames(gen.NameOpts{MaxLabs: 4, MaxLabel: 10}) // the same for the messages with escapes
	var c seqCase
	nm := rapid.IntRange(2, 5).Draw(t, "nmsgs")
	for i := 0; i < nm; i++ {
		mo := &gen.MsgOpts{MaxQ: 2, MaxRecs: 3, NoOPT: true}
		mo.Plain = true
		mo.Types = gen.PlainTypes
		if rapid.IntRange(0, 3).Draw(t, "alltypes") == 0 {
			mo.Types = gen.FieldPlainTypes
		}
		mo.NameGen = names
		sm := seqMsg{Plain: true, Compress: rapid.IntRange(0, 7).Draw(t, "compress") != 0}
		if rapid.IntRange(0, 7).Draw(t, "anytype") == 0 {
			// outside the exactness domain: only "never under-estimates" and "always the same octets"
			mo = &gen.MsgOpts{MaxQ: 2, MaxRecs: 3}
			mo.Unknown = true
			mo.NameGen = anyNames
			sm.Plain = false
		}
		sm.M = gen.Msg(t, mo)
		// message 0 is packable, message 1 is not; the others are either
		if i == 1 || (i > 1 && rapid.Bool().Draw(t, "unpackable")) {
			sm.Plain = true
			sm.Fault = rapid.IntRange(1, len(faultKinds)).Draw(t, "fault")
			sm.Sec = rapid.IntRange(0, 2).Draw(t, "fsec")
			sm.Pos = rapid.IntRange(0, 4).Draw(t, "fpos")
			sm.FName = names(t)
			if len(sm.M.Q) == 0 {
				sm.M.Q = []wm.Question{{Name: names(t), Type: 1, Class: 1}}
			}
		}
		c.Msgs = append(c.Msgs, sm)
	}
	no := rapid.IntRange(3, 12).Draw(t, "nops")
	for i := 0; i < no; i++ {
		op := seqOp{Msg: rapid.IntRange(0, nm-1).Draw(t, "msg"), Buf: rapid.IntRange(0, 4).Draw(t, "buf"), LenFirst: rapid.Bool().Draw(t, "lenfirst")}
		if op.Buf == 2 {
			op.Extra = rapid.IntRange(0, 63).Draw(t, "extra")
		}
		c.Ops = append(c.Ops, op)
	}
	return c
}

func init() {
	pbt.Register(pbt.Sub[seqCase]{Name: "pack-sequence", Weight: 2, Gen: genSeq, Check: checkSeq})
}
