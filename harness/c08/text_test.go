package c08

import (
	"fmt"
	"reflect"

	"github.com/miekg/dns"
	"pgregory.net/rapid"

	wm "verif/harness/wiremodel"
)

// Text fields in the spelling the caller wrote (round 10).
//
// A character-string (HINFO, TXT, NAPTR flags/service/regexp, X25, ISDN, GPOS, UINFO, CAA tag) or an
// octet text (CAA value, URI target) is a Go string in presentation syntax in the library value: "\DDD" and
// "\X" stand for one octet. Everything the model, the zone parser or Unpack hands out is well formed
// (every backslash is followed by three digits or by the escaped octet, a literal backslash is written
// twice). A caller who builds a record in code is bound by nothing of the kind: a Windows path or a
// regular expression put into the field as it is (`dir=C:\`) ends in a backslash with nothing behind
// it, "\1" or "\12" are cut-off decimal escapes, "\999" is a decimal escape beyond an octet, octets
// above 0x7f and quotes stand unescaped. The packer takes all of these (it has its own reading of each),
// so they are "messages that can be packed", and what Len()/Len(rr) count for the text
// (escapedTextLen) must cover what the packer writes for it (packTxtString, packOctetString) - for the
// packer's reading, whatever it is. The model (octets) has no such value, so the class is a generator
// dimension on top of it: a case names text fields whose string is replaced after the model message
// was turned into the library value.

// textSlot names one text of a message and its replacement.
type textSlot struct {
	Sec   int    // 1 answer, 2 authority, 3 additional
	Idx   int    // position in the section
	Field int    // position in the type's layout: a character-string, a list of them, an octet text
	Elem  int    `json:",omitempty"` // list of character-strings: which one (clipped)
	S     []byte // the Go string the caller wrote (octets: it need not be UTF-8)
}

func isTextSpec(sp wm.FieldSpec) bool {
	return sp.K == wm.Str || sp.K == wm.Strs || (sp.K == wm.Rest && sp.R == wm.ReprOctet)
}

// plainText: letters and digits only - such a text needs no escape, the exactness clause covers it.
func plainText(s []byte) bool {
	for _, b := range s {
		if !(b >= 'a' && b <= 'z' || b >= 'A' && b <= 'Z' || b >= '0' && b <= '9') {
			return false
		}
	}
	return true
}

// textClasses describes a spelling by the irregular forms it holds (the harness's own reading of the
// syntax, for the histogram only - no verdict depends on it).
func textClasses(s []byte) []string {
	var out []string
	add := func(c string) {
		for _, o := range out {
			if o == c {
				return
			}
		}
		out = append(out, c)
	}
	dig := func(i int) bool { return i < len(s) && s[i] >= '0' && s[i] <= '9' }
	for i := 0; i < len(s); i++ {
		switch {
		case s[i] == '\\' && i+1 == len(s):
			add("text:lone-backslash-at-end")
		case s[i] == '\\' && dig(i+1) && dig(i+2) && dig(i+3):
			if (int(s[i+1]-'0')*100 + int(s[i+2]-'0')*10 + int(s[i+3]-'0')) > 255 {
				add("text:decimal-escape-over-255")
			} else {
				add("text:decimal-escape")
			}
			i += 3
		case s[i] == '\\' && dig(i+1):
			add("text:cut-off-decimal-escape")
			i++
		case s[i] == '\\':
			add("text:escaped-octet")
			i++
		case s[i] >= 0x7f || s[i] < 0x20:
			add("text:unescaped-unprintable")
		case s[i] == '"':
			add("text:unescaped-quote")
		}
	}
	if len(out) == 0 {
		if plainText(s) {
			add("text:plain")
		} else {
			add("text:printable")
		}
	}
	if len(s) == 0 {
		add("text:empty")
	}
	if len(s) > 255 {
		add("text:longer-than-255-characters")
	}
	return out
}

// applyText replaces the named texts of the library message built from m. It returns how many texts
// were replaced, the characters they hold (for sizing buffers), whether all of them are plain, the
// histogram classes, a description for a report and a function that puts the model's texts back.
func applyText(x *dns.Msg, m *wm.Msg, slots []textSlot) (changed, chars int, plain bool, classes []string, desc string, undo func()) {
	var undos []func()
	undo = func() {
		for _, u := range undos {
			u()
		}
	}
	plain = true
	for _, s := range slots {
		sec := secOf(x, s.Sec)
		recs := modelSec(m, s.Sec)
		if sec == nil || s.Idx < 0 || s.Idx >= len(*sec) || s.Idx >= len(recs) || (*sec)[s.Idx] == nil {
			continue
		}
		r := recs[s.Idx]
		layout, known := wm.LayoutOf(r.Type)
		if !known || r.NoRdata || s.Field < 0 || s.Field >= len(layout) || s.Field >= len(r.Fields) || !isTextSpec(layout[s.Field]) {
			continue
		}
		v := reflect.ValueOf((*sec)[s.Idx])
		if v.Kind() != reflect.Pointer || v.Elem().Kind() != reflect.Struct {
			continue
		}
		f := v.Elem().FieldByName(layout[s.Field].Go)
		if !f.IsValid() {
			continue
		}
		if f.Kind() == reflect.Slice {
			if f.Len() == 0 || f.Index(0).Kind() != reflect.String {
				continue
			}
			e := s.Elem
			if e < 0 {
				e = 0
			}
			f = f.Index(e % f.Len())
		}
		if f.Kind() != reflect.String || !f.CanSet() {
			continue
		}
		old := f.String()
		f.SetString(string(s.S))
		ff := f
		undos = append(undos, func() { ff.SetString(old) })
		changed++
		chars += len(s.S)
		if !plainText(s.S) {
			plain = false
		}
		classes = append(classes, textClasses(s.S)...)
		if len(desc) < 300 {
			desc += fmt.Sprintf(" %s.%s=%q", typeName(r.Type), layout[s.Field].Go, s.S)
		}
	}
	return
}

// the characters a text in the caller's spelling is drawn from: the backslash, digits (escapes and
// cut-off escapes), letters, and what a presentation format would have escaped
var textAlphabet = []byte{'\\', '\\', '\\', '\\', '0', '1', '2', '5', '9', 'a', 'Z', '"', ' ', '.', ';', ':', 0x00, 0x80, 0xff}

func drawText(t *rapid.T) []byte {
	raw := func(lo, hi int) []byte {
		n := rapid.IntRange(lo, hi).Draw(t, "textlen")
		out := make([]byte, n)
		for i := range out {
			out[i] = textAlphabet[rapid.IntRange(0, len(textAlphabet)-1).Draw(t, "textchar")]
		}
		return out
	}
	fill := func(n int) []byte {
		out := make([]byte, n)
		for i := range out {
			out[i] = "abcdefghijklmnopqrstuvwxyz0123456789"[(i*7+n)%36]
		}
		return out
	}
	switch rapid.IntRange(0, 9).Draw(t, "textmode") {
	case 0: // plain text set from code
		return fill(rapid.IntRange(0, 14).Draw(t, "textlen"))
	case 1: // plain text and a short tail in any spelling (a path, an expression)
		return append(fill(rapid.IntRange(1, 10).Draw(t, "textlen")), raw(1, 3)...)
	case 2: // around the 255-octet limit of a character-string
		return append(fill(rapid.IntRange(247, 256).Draw(t, "textlen")), raw(0, 6)...)
	case 3: // decimal escapes only, up to the limit and beyond (four characters an octet)
		n := rapid.IntRange(1, 258).Draw(t, "nddd")
		if rapid.Bool().Draw(t, "fewddd") {
			n = n%6 + 1
		}
		var out []byte
		for i := 0; i < n; i++ {
			out = append(out, fmt.Sprintf("\\%03d", (i*37+n)%320)...)
		}
		return append(out, raw(0, 3)...)
	}
	return raw(0, 9)
}

// withText adds the dimension to a generated case (one case in four of those that hold a text):
// every text field of the first records of a section is replaced with probability one half.
func withText(t *rapid.T, c lenCase) lenCase {
	var slots []textSlot
	for sec := 1; sec <= 3; sec++ {
		recs := modelSec(&c.M, sec)
		for i, r := range recs {
			if i >= 6 && i != len(recs)-1 { // long sections repeat one record
				continue
			}
			layout, known := wm.LayoutOf(r.Type)
			if !known || r.NoRdata {
				continue
			}
			for k, sp := range layout {
				if k >= len(r.Fields) || !isTextSpec(sp) {
					continue
				}
				n := 1
				if sp.K == wm.Strs {
					if n = len(r.Fields[k].L); n == 0 {
						continue
					}
				}
				slots = append(slots, textSlot{Sec: sec, Idx: i, Field: k, Elem: n})
			}
		}
	}
	if len(slots) == 0 || rapid.IntRange(0, 3).Draw(t, "callertext") != 0 {
		return c
	}
	must := rapid.IntRange(0, len(slots)-1).Draw(t, "textone")
	for i, s := range slots {
		if i != must && !rapid.Bool().Draw(t, "retext") {
			continue
		}
		n := s.Elem
		s.Elem = 0
		if n > 1 {
			// the first few and the last string of a list; sometimes two strings of the same list
			s.Elem = rapid.SampledFrom([]int{0, 1, 2, n - 1}).Draw(t, "textelem") % n
		}
		s.S = drawText(t)
		c.Text = append(c.Text, s)
		if n > 1 && rapid.IntRange(0, 2).Draw(t, "textsecond") == 0 {
			s2 := s
			s2.Elem = (s.Elem + 1) % n
			s2.S = drawText(t)
			c.Text = append(c.Text, s2)
		}
	}
	return c
}

func textNote(texted bool) string {
	if texted {
		return " (text fields in the caller's spelling, see the Text slots of the case)"
	}
	return ""
}
