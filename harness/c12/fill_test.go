package c12

import (
	"strings"

	"github.com/miekg/dns"
)

// Round 9, cross-talk rounds over datagram transports: messages that fill the receiver's buffer to
// the last octet. "Each handler sees exactly the request its client sent and each client receives
// exactly the reply its handler wrote" holds for every message the receiver's buffer can hold, the
// largest one included: a request of exactly Server.UDPSize octets, a reply of exactly the client's
// Conn.UDPSize octets (a handler that fills the advertised size, as truncation to the advertised size
// and padding do). Cross.Fill says which side does it; the padding is a TXT record (requests: further
// character-strings of the TXT record that carries the token; replies: a record "pad.test." in the
// additional section, which the list of facts does not look at) whose length is computed from the
// length the message encodes to, so that the octets on the wire number exactly the buffer size.

// padStrings returns character-strings whose encoding (one length octet each) takes exactly cost
// octets, cost >= 2; none is empty, none longer than 255 octets.
func padStrings(cost int) []string {
	if cost < 2 {
		return nil
	}
	k := (cost + 255) / 256
	p := cost - k // octets of text in k strings
	lens := make([]int, k)
	for i := range lens {
		lens[i] = min(255, p)
		p -= lens[i]
	}
	if k > 1 && lens[k-1] == 0 {
		lens[k-2]--
		lens[k-1] = 1
	}
	out := make([]string, k)
	for i, n := range lens {
		out[i] = strings.Repeat("p", n)
	}
	return out
}

// wireLen is the number of octets m is sent with: encoded, and signed when it carries a TSIG stub
// (the length of a signed message does not depend on the MAC of the request it answers).
func (s *crossState) wireLen(m *dns.Msg) int {
	if m.IsTsig() != nil {
		cp := m.Copy()
		cp.Compress = m.Compress
		var out []byte
		var err error
		if s.c.TsigProv {
			out, _, err = dns.TsigGenerateWithProvider(cp, hmacProvider("provider secret"), "", false)
		} else {
			out, _, err = dns.TsigGenerate(cp, tsigSecret, "", false)
		}
		if err != nil {
			return -1
		}
		return len(out)
	}
	out, err := m.Pack()
	if err != nil {
		return -1
	}
	return len(out)
}

// fillTo grows the TXT record txt of m (it holds keep strings that must stay) until m is sent with
// exactly target octets; false when m is already longer or the length cannot be met.
func (s *crossState) fillTo(m *dns.Msg, txt *dns.TXT, target int) bool {
	keep := len(txt.Txt)
	txt.Txt = append(txt.Txt, "p")
	l1 := s.wireLen(m)
	cost := 2 + target - l1
	if l1 < 0 || cost < 2 {
		txt.Txt = txt.Txt[:keep]
		return false
	}
	txt.Txt = append(txt.Txt[:keep], padStrings(cost)...)
	if s.wireLen(m) != target {
		txt.Txt = txt.Txt[:keep]
		return false
	}
	return true
}

// fillRequest returns request (cl, q) padded so that exactly target octets go to the server, or nil.
func (s *crossState) fillRequest(cl, q, target int) *dns.Msg {
	m := s.request(cl, q, 0)
	for _, rr := range m.Extra {
		if t, ok := rr.(*dns.TXT); ok {
			if s.fillTo(m, t, target) {
				return m
			}
			return nil
		}
	}
	return nil
}

// fillReply pads the reply m (made by fillReply, TSIG stub already on) to exactly target octets.
func (s *crossState) fillReplyTo(m *dns.Msg, target int) bool {
	pad := &dns.TXT{Hdr: dns.RR_Header{Name: "pad.test.", Rrtype: dns.TypeTXT, Class: dns.ClassINET, Ttl: 1}}
	extra := append([]dns.RR{pad}, m.Extra...)
	old := m.Extra
	m.Extra = extra
	if s.fillTo(m, pad, target) {
		return true
	}
	m.Extra = old
	return false
}

func (c Cross) fillsRequests() bool { return c.Fill == "request" || c.Fill == "both" }
func (c Cross) fillsReplies() bool  { return c.Fill == "reply" || c.Fill == "both" }

// clientBuf is the receive buffer of the clients' Conn (Conn.UDPSize, never below 512).
func (c Cross) clientBuf() int {
	if c.ClientUDPSize == 0 {
		return 1232
	}
	return max(512, c.ClientUDPSize)
}
