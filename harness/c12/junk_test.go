package c12

import (
	"bytes"
	"encoding/binary"
	"encoding/hex"
	"time"
)

// Round 10, cross-talk rounds: traffic that is NO request, among the requests. "Each handler sees
// exactly the request its client sent and each client receives exactly the reply its handler wrote -
// no mixing across requests, connections or recycled receive buffers" is said of the requests; a
// server also receives what it refuses or ignores without calling a handler - datagrams (stream:
// frames) of 0..11 octets, too short for a DNS header, and messages with the QR bit set - and puts
// the receive buffers of those back as well. Whatever such traffic leaves behind (the length of a
// short datagram in a recycled buffer, a frame boundary that was lost) must not reach a request.
//
// Cross.Junk = m > 0: client cl sends one such item from its own socket / connection right before its
// q-th request when (cl+q) mod m == 0; Cross.JunkKinds (cyclic by cl*5+q) says what: 0..11 = that
// many octets, junkResponse = header and question of the request that follows with the QR bit set - a
// short well-formed message (the default accept rule ignores it; the TSIG rounds accept everything,
// there it becomes 11 octets).
//
// The oracle is the round's usual one (every token handled exactly once, own reply, facts), plus one
// observation point the server offers: Server.MsgInvalidFunc is told every message the server refuses
// as invalid, with its octets. Those octets must be something that was sent: one of the short items
// of this round. A refused message that nobody sent - on the unchanged tree there is none - is a
// request that was cut on its way through the server, and the round ends there instead of waiting
// for its client's time-out.

const junkResponse = 100

func (c Cross) junkBefore(cl, q int) bool { return c.Junk > 0 && (cl+q)%c.Junk == 0 }

func (c Cross) junkKind(cl, q int) int {
	if len(c.JunkKinds) == 0 {
		return 5
	}
	k := c.JunkKinds[(cl*5+q)%len(c.JunkKinds)]
	if k == junkResponse && c.Tsig {
		return 11
	}
	if k != junkResponse && (k < 0 || k > 11) {
		return 11
	}
	return k
}

// shortItem returns the k octets (0..11) of an item that is too short for a DNS header: big-endian
// 16-bit numbers that read as plausible lengths, so that a stream reader that has lost the frame
// boundary finds a length there - and, from the third octet on, different from the header of every
// request of the round (flags 0x0100).
func shortItem(k int) []byte {
	return []byte{0, 14, 0, 12, 0, 13, 0, 2, 0, 1, 0, 0}[:k]
}

// sendJunk writes the item that precedes request (cl, q) - packed is that request as it will be sent -
// through w (the client's own transport) and records what was sent.
func (s *crossState) sendJunk(w interface{ Write([]byte) (int, error) }, cl, q int, packed []byte) error {
	kind := s.c.junkKind(cl, q)
	var item []byte
	if kind == junkResponse {
		// header and question of the request, QR set, no other section: a well-formed message that is
		// much shorter than the requests around it
		end := 12
		for end < len(packed) && packed[end] != 0 {
			end += 1 + int(packed[end])
		}
		end += 5 // the root label, type and class
		if len(packed) < 12 || end > len(packed) {
			return nil
		}
		item = append([]byte(nil), packed[:end]...)
		item[2] |= 0x80 // QR: "this is a response"
		copy(item[6:12], []byte{0, 0, 0, 0, 0, 0})
		s.junkIgnored.Add(1)
	} else {
		item = shortItem(kind)
		s.mu.Lock()
		s.junkSent[hex.EncodeToString(item)]++
		s.mu.Unlock()
		s.junkShort.Add(1)
	}
	if !s.datagram() {
		item = frame(item)
	}
	_, err := w.Write(item)
	return err
}

// invalid is Server.MsgInvalidFunc of the round.
func (s *crossState) invalid(m []byte, err error) {
	p := append([]byte(nil), m...)
	key := hex.EncodeToString(p)
	s.mu.Lock()
	s.junkRefused[key]++
	sent, refused := s.junkSent[key], s.junkRefused[key]
	s.mu.Unlock()
	if sent > 0 && (refused <= sent || s.real()) {
		s.junkReported.Add(1)
		return
	}
	who := s.cutRequest(p)
	if s.real() && (who == "" || len(p) < 4) {
		s.alien.Add(1) // something of another process on a reassigned port
		return
	}
	if who == "" {
		who = "no request of this round begins like that"
	}
	if sent > 0 {
		s.fail("the server refused %d messages of %d octets [%x] as invalid (%v), only %d of those were sent (%s): a request was cut on its way to its handler", refused, len(p), p, err, sent, who)
	} else {
		s.fail("the server refused as invalid (%v) a message of %d octets [%s] that nobody sent (%s): a request was cut on its way to its handler", err, len(p), hexHead(p), who)
	}
	s.abort()
}

// cutRequest says which request of the round begins with the octets p (at least 2; from 4 on the flags
// take part), "" if none: the header of request (cl, q) is its ID, the flags 0x0100 (a standard
// query, RD), one question, no answer, one authority record, two additional records (three with TSIG).
func (s *crossState) cutRequest(p []byte) string {
	if len(p) < 2 {
		return ""
	}
	if len(p) > 12 {
		p = p[:12]
	}
	c := s.c
	rounds := 1
	if c.Restart {
		rounds = 2
	}
	ar := byte(2)
	if c.Tsig {
		ar = 3
	}
	for cl := 1; cl <= c.Clients; cl++ {
		for q := 1; q <= rounds*c.Reqs; q++ {
			hdr := []byte{0, 0, 1, 0, 0, 1, 0, 0, 0, 1, 0, ar}
			binary.BigEndian.PutUint16(hdr, s.requestID(cl, q))
			if bytes.Equal(hdr[:len(p)], p) {
				return "they are the first octets of the request of client " + itoa(cl) + ", ordinal " + itoa(q) + ", or of one with the same ID"
			}
		}
	}
	return ""
}

func itoa(n int) string {
	if n == 0 {
		return "0"
	}
	var b []byte
	for ; n > 0; n /= 10 {
		b = append([]byte{byte('0' + n%10)}, b...)
	}
	return string(b)
}

func (s *crossState) requestID(cl, q int) uint16 {
	if s.c.SameIDs {
		return uint16(q)
	}
	return uint16(cl*251 + q*7 + int(s.c.Salt&0xff))
}

// abort ends the round early: the clients' reads and writes are made to time out at once.
func (s *crossState) abort() {
	s.abortOnce.Do(func() { close(s.aborted) })
}

func (s *crossState) isAborted() bool {
	select {
	case <-s.aborted:
		return true
	default:
		return false
	}
}

// watchAbort runs until done is closed; once the round is aborted it keeps every registered client
// conn past its deadline (a client may re-arm its deadline for a request it was about to send).
func (s *crossState) watchAbort(done <-chan struct{}) {
	select {
	case <-done:
		return
	case <-s.aborted:
	}
	for {
		s.mu.Lock()
		for _, c := range s.conns {
			c.SetDeadline(time.Unix(1, 0))
		}
		s.mu.Unlock()
		select {
		case <-done:
			return
		case <-time.After(2 * time.Millisecond):
		}
	}
}
