package c12

import (
	"context"
	"encoding/json"
	"fmt"
	"net"
	"sync"
	"time"

	"github.com/miekg/dns"
	"pgregory.net/rapid"

	"verif/harness/memnet"
	"verif/harness/pbt"
)

// TimedID is a case of sub-check (b) in which the deadline itself is under test: replies with
// other IDs keep trickling in at intervals shorter than the timeout until well past the deadline.
// The exchange must end with a time-out at the deadline that was armed for the whole exchange
// ("skips replies with other IDs until the matching one OR THE DEADLINE arrives"): foreign replies
// must not buy it more time, and a matching reply that is delivered only after the deadline must
// not be returned.
type TimedID struct {
	ID         uint16
	TimeoutMs  int      // deadline of the exchange
	IntervalMs int      // one foreign reply every IntervalMs, starting IntervalMs after the request
	Kinds      []string // kinds of the trickling replies, cyclic: foreign | stale | dup
	Match      string   // none | late: the matching reply is delivered MarginMs after the deadline
	MarginMs   int
	ViaCtx     bool // the deadline comes from the context (ExchangeWithConnContext), Client.Timeout is long
	// Via names the documented source of the deadline: "" = Client.Timeout (or the context when ViaCtx),
	// readTimeout = Client.ReadTimeout with Client.Timeout unset, dialer = Client.Dialer.Timeout smaller
	// than a long Client.Timeout ("net.Dialer.Timeout has priority if smaller")
	Via string
}

func genTimedID(t *rapid.T) TimedID {
	c := TimedID{ID: uint16(rapid.IntRange(0, 65535).Draw(t, "id"))}
	c.TimeoutMs = rapid.SampledFrom([]int{80, 120, 160}).Draw(t, "timeout")
	c.IntervalMs = c.TimeoutMs / rapid.SampledFrom([]int{4, 6, 8}).Draw(t, "perTimeout")
	n := rapid.IntRange(1, 3).Draw(t, "nkinds")
	for i := 0; i < n; i++ {
		c.Kinds = append(c.Kinds, rapid.SampledFrom([]string{"foreign", "foreign", "stale", "dup"}).Draw(t, "kind"))
	}
	c.Match = rapid.SampledFrom([]string{"none", "late", "late"}).Draw(t, "match")
	c.MarginMs = rapid.SampledFrom([]int{15, 30, 60, 150}).Draw(t, "margin")
	switch rapid.IntRange(0, 5).Draw(t, "via") {
	case 0:
		c.ViaCtx = true
	case 1:
		c.Via = "readTimeout"
	case 2:
		c.Via = "dialer"
	}
	return c
}

const timedSlack = 3 * time.Second // scheduling slack granted to a loaded machine; a healthy run ends at the deadline

func checkTimedID(c TimedID) error {
	key, _ := json.Marshal(c)
	pbt.Note(key, true, "match="+c.Match, fmt.Sprintf("viaCtx=%v", c.ViaCtx), "via="+c.Via, fmt.Sprintf("timeout=%dms", c.TimeoutMs))
	pbt.Sample("timed", c)
	if c.TimeoutMs <= 0 || c.IntervalMs <= 0 || len(c.Kinds) == 0 {
		return fmt.Errorf("malformed case")
	}
	timeout := time.Duration(c.TimeoutMs) * time.Millisecond
	interval := time.Duration(c.IntervalMs) * time.Millisecond
	pn := memnet.NewPacketNet(nil)
	srv := pn.Listen("", memnet.UDPAddr(53))
	cc := pn.Dial("", memnet.UDPAddr(40001), srv.LocalAddr())

	var mu sync.Mutex
	var t0 time.Time // when the request reached the wire: the library armed its deadline before that
	var matchAt time.Duration
	sentCh := make(chan struct{})
	done := make(chan struct{})
	var once sync.Once
	cc.OnWrite(func(int, memnet.Packet) {
		once.Do(func() {
			mu.Lock()
			t0 = time.Now()
			mu.Unlock()
			close(sentCh)
		})
	})
	var wg sync.WaitGroup
	wg.Add(1)
	go func() { // the peer: foreign replies at a steady pace, the matching one only after the deadline
		defer wg.Done()
		select {
		case <-sentCh:
		case <-done:
			return
		}
		mu.Lock()
		start := t0
		mu.Unlock()
		last := c.ID + 1
		matched := false
		for i := 1; ; i++ {
			select {
			case <-done:
				return
			case <-time.After(time.Until(start.Add(time.Duration(i) * interval))):
			}
			el := time.Since(start)
			if el > timeout+timedSlack+500*time.Millisecond {
				return
			}
			if c.Match == "late" && !matched && el >= timeout+time.Duration(c.MarginMs)*time.Millisecond {
				// strictly after the deadline by this goroutine's own clock reading
				mu.Lock()
				matchAt = el
				mu.Unlock()
				cc.Inject(idReply(c.ID, 0), srv.LocalAddr())
				matched = true
				continue
			}
			id := c.ID + uint16(7+i%50)
			switch c.Kinds[i%len(c.Kinds)] {
			case "stale":
				id = c.ID - uint16(1+i%3)
			case "dup":
				id = last
			}
			last = id
			cc.Inject(idReply(id, 1+i%98), srv.LocalAddr())
		}
	}()

	q := new(dns.Msg)
	q.SetQuestion("t.", dns.TypeNULL)
	q.Id = c.ID
	cli := &dns.Client{Net: "udp", Timeout: timeout}
	switch c.Via {
	case "readTimeout":
		cli = &dns.Client{Net: "udp", ReadTimeout: timeout}
	case "dialer":
		cli = &dns.Client{Net: "udp", Timeout: 30 * time.Second, Dialer: &net.Dialer{Timeout: timeout}}
	}
	ctx := context.Background()
	if c.ViaCtx && c.Via == "" {
		var cancel context.CancelFunc
		cli.Timeout = 30 * time.Second
		ctx, cancel = context.WithTimeout(ctx, timeout)
		defer cancel()
	}
	begin := time.Now()
	rep, _, err := cli.ExchangeWithConnContext(ctx, q, &dns.Conn{Conn: cc})
	el := time.Since(begin)
	close(done)
	wg.Wait()
	cc.Close()
	mu.Lock()
	ma := matchAt
	mu.Unlock()
	if err == nil {
		return fmt.Errorf("datagram exchange with a %v deadline, fed replies with other IDs every %v: returned reply #%d (ID %d, request ID %d) after %v; the matching reply was delivered %v after the request, i.e. after the deadline – foreign replies must not extend the deadline",
			timeout, interval, replyOrdinal(rep), rep.Id, c.ID, el.Round(time.Millisecond), ma.Round(time.Millisecond))
	}
	if !isTimeout(err) {
		return fmt.Errorf("datagram exchange without a timely matching reply failed with %v, want a timeout", err)
	}
	if el > timeout+timedSlack {
		return fmt.Errorf("datagram exchange with a %v deadline, fed replies with other IDs every %v, timed out only after %v: every foreign reply granted a fresh timeout", timeout, interval, el.Round(time.Millisecond))
	}
	return nil
}

func init() {
	pbt.Register(pbt.Sub[TimedID]{Name: "id-datagram-deadline", Weight: 0.06, Gen: genTimedID, Check: checkTimedID})
}
