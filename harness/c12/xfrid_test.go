package c12

import (
	"encoding/json"
	"errors"
	"fmt"
	"net"
	"time"

	"github.com/miekg/dns"
	"pgregory.net/rapid"

	"verif/harness/memnet"
	"verif/harness/pbt"
	"verif/harness/wiremodel"
)

// XfrIDCase: the client exchange over a stream that has SEVERAL replies - Transfer.In on a caller's
// Conn. "A client exchange over a stream fails with an ID error when the reply's ID differs" holds
// for every message of the answer, not only for the first: the answer to an AXFR / IXFR request is
// Msgs messages (the first begins with the SOA, the last ends with it, each carries Msgs[i] address
// records besides), written by the peer with the harness's own encoder and framing and cut into
// segments by Chunks; message Foreign (-1: none) carries FID instead of the request's ID.
type XfrIDCase struct {
	IXFR    bool
	ID      uint16
	Msgs    []int
	Foreign int
	FID     uint16
	Chunks  []int
}

func genXfrIDCase(t *rapid.T) XfrIDCase {
	c := XfrIDCase{IXFR: rapid.Bool().Draw(t, "ixfr"), ID: uint16(rapid.IntRange(0, 65535).Draw(t, "id")), Foreign: -1}
	n := rapid.SampledFrom([]int{1, 2, 2, 3, 3, 4, 5}).Draw(t, "messages")
	for i := 0; i < n; i++ {
		c.Msgs = append(c.Msgs, rapid.IntRange(1, 3).Draw(t, "records"))
	}
	if rapid.IntRange(0, 3).Draw(t, "foreign") > 0 {
		c.Foreign = rapid.IntRange(0, n-1).Draw(t, "foreignAt")
		if rapid.Bool().Draw(t, "foreignLater") {
			c.Foreign = rapid.IntRange(min(1, n-1), n-1).Draw(t, "foreignAtLater")
		}
		switch rapid.IntRange(0, 4).Draw(t, "fidKind") {
		case 0:
			c.FID = c.ID + 1
		case 1:
			c.FID = c.ID - 1
		case 2:
			c.FID = c.ID ^ 0xffff
		case 3:
			c.FID = c.ID ^ 0x0100
		default:
			c.FID = uint16(rapid.IntRange(0, 65535).Draw(t, "fid"))
		}
		if c.FID == c.ID {
			c.FID = c.ID + 7
		}
	}
	c.Chunks = genChunks(t, "chunk")
	return c
}

const xfrZone = "xfr.test."

// xfrMessages builds the answer: per message the owner names of its records, and its octets.
func xfrMessages(c XfrIDCase) (owners [][]string, wire [][]byte, err error) {
	qtype := uint16(dns.TypeAXFR)
	if c.IXFR {
		qtype = dns.TypeIXFR
	}
	zone := wiremodel.MustName(xfrZone)
	u32 := func(v uint64) wiremodel.Field { return wiremodel.Field{K: wiremodel.U32, U: v} }
	soa := wiremodel.Rec{Name: zone, Type: wiremodel.TSOA, Class: 1, TTL: 60, Fields: []wiremodel.Field{
		{K: wiremodel.NameC, N: wiremodel.MustName("ns." + xfrZone)}, {K: wiremodel.NameC, N: wiremodel.MustName("root." + xfrZone)},
		u32(2024010101), u32(7200), u32(3600), u32(1209600), u32(3600)}}
	for i, k := range c.Msgs {
		m := wiremodel.Msg{ID: c.ID, Flags: wiremodel.FlagQR | wiremodel.FlagAA, Q: []wiremodel.Question{{Name: zone, Type: qtype, Class: 1}}}
		if i == c.Foreign {
			m.ID = c.FID
		}
		var own []string
		if i == 0 {
			m.An = append(m.An, soa)
			own = append(own, xfrZone)
		}
		for j := 0; j < k; j++ {
			o := fmt.Sprintf("m%dr%d.%s", i, j, xfrZone)
			m.An = append(m.An, wiremodel.Rec{Name: wiremodel.MustName(o), Type: wiremodel.TA, Class: 1, TTL: 60,
				Fields: []wiremodel.Field{{K: wiremodel.IPv4, B: []byte{192, 0, 2, byte(16*i + j)}}}})
			own = append(own, o)
		}
		if i == len(c.Msgs)-1 {
			m.An = append(m.An, soa)
			own = append(own, xfrZone)
		}
		b, e := wiremodel.Encode(m)
		if e != nil {
			return nil, nil, e
		}
		owners, wire = append(owners, own), append(wire, b)
	}
	return owners, wire, nil
}

func checkXfrID(c XfrIDCase) error {
	key, _ := json.Marshal(c)
	cl := []string{fmt.Sprintf("ixfr=%v", c.IXFR), fmt.Sprintf("messages=%d", len(c.Msgs))}
	switch {
	case c.Foreign < 0:
		cl = append(cl, "all-IDs-match")
	case c.Foreign == 0:
		cl = append(cl, "foreign-ID-in-first-message")
	default:
		cl = append(cl, "foreign-ID-in-later-message")
	}
	pbt.Note(key, c.Foreign >= 0, cl...)
	pbt.Sample("id-stream-transfer", c)
	if len(c.Msgs) == 0 || c.Foreign >= len(c.Msgs) {
		return fmt.Errorf("malformed case")
	}
	owners, wire, err := xfrMessages(c)
	if err != nil {
		return fmt.Errorf("harness: %v", err)
	}
	a, b := memnet.Pipe(nil, "", "")
	a.SetPlan(memnet.StreamPlan{WriteChunks: c.Chunks})
	for _, w := range wire {
		a.Write(frame(w))
	}
	a.CloseWrite() // a transfer that asks for more than was sent gets EOF, not a wait for its deadline

	q := new(dns.Msg)
	if c.IXFR {
		q.SetIxfr(xfrZone, 2024010100, "ns."+xfrZone, "root."+xfrZone)
	} else {
		q.SetAxfr(xfrZone)
	}
	q.Id = c.ID
	tr := &dns.Transfer{Conn: &dns.Conn{Conn: b}, ReadTimeout: hangLimit, WriteTimeout: hangLimit}
	env, err := tr.In(q, "192.0.2.1:53")
	if err != nil {
		return fmt.Errorf("Transfer.In on a caller's Conn failed: %v", err)
	}
	type got struct {
		owners []string
		err    error
	}
	var envs []got
	done := make(chan struct{})
	go func() {
		defer close(done)
		for e := range env {
			g := got{err: e.Error}
			for _, rr := range e.RR {
				o := rr.Header().Name
				if x, ok := rr.(*dns.A); ok {
					o += " " + x.A.String()
				}
				g.owners = append(g.owners, o)
			}
			envs = append(envs, g)
		}
	}()
	select {
	case <-done:
	case <-time.After(2 * hangLimit):
		return pbt.NoShrink{Err: fmt.Errorf("transfer did not end within %v although the peer had sent everything and closed", 2*hangLimit)}
	}
	a.Close()

	// what must have been delivered without an error: the records of the messages before the foreign one
	upto := len(c.Msgs)
	if c.Foreign >= 0 {
		upto = c.Foreign
	}
	var want []string
	for i := 0; i < upto; i++ {
		for j, o := range owners[i] {
			if o != xfrZone {
				k := j
				if i == 0 {
					k = j - 1
				}
				o += " " + net.IPv4(192, 0, 2, byte(16*i+k)).String()
			}
			want = append(want, o)
		}
	}
	var delivered []string
	sawErrId := false
	for _, g := range envs {
		if g.err != nil {
			if errors.Is(g.err, dns.ErrId) {
				sawErrId = true
			} else if c.Foreign < 0 {
				return fmt.Errorf("transfer of %d messages that all carry the request's ID %d ended with %v", len(c.Msgs), c.ID, g.err)
			}
			continue
		}
		delivered = append(delivered, g.owners...)
	}
	if c.Foreign >= 0 && !sawErrId {
		return fmt.Errorf("message %d of the %d-message answer carries ID %d, the request %d: the transfer did not report ErrId (envelopes: %v)", c.Foreign, len(c.Msgs), c.FID, c.ID, envs)
	}
	if c.Foreign < 0 && sawErrId {
		return fmt.Errorf("every message carries the request's ID %d, yet the transfer reported ErrId", c.ID)
	}
	if fmt.Sprint(delivered) != fmt.Sprint(want) {
		if c.Foreign >= 0 {
			return fmt.Errorf("message %d of the answer carries ID %d, the request %d: records delivered without an error %v, want those of the messages before it %v", c.Foreign, c.FID, c.ID, delivered, want)
		}
		return fmt.Errorf("transfer delivered %v, the peer sent %v", delivered, want)
	}
	return nil
}

func init() {
	pbt.Register(pbt.Sub[XfrIDCase]{Name: "id-stream-transfer", Weight: 0.3, Gen: genXfrIDCase, Check: checkXfrID})
}
