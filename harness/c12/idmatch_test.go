package c12

import (
	"bytes"
	"encoding/json"
	"errors"
	"fmt"
	"time"

	"github.com/miekg/dns"
	"pgregory.net/rapid"

	"verif/harness/memnet"
	"verif/harness/pbt"
)

// IDCase is one case of sub-check (b): what a client exchange does with replies whose ID is, or is
// not, the ID of the request.
type IDCase struct {
	Stream  bool    // stream transport (ErrId on mismatch) or datagram (skip until match / deadline)
	ID      uint16  // ID of the request
	Replies []IDRep // what the peer sends back, in order (stream: only the first is read)
	Chunks  []int   // stream: segmentation of the reply
	Timeout int     // datagram: client timeout in ms (only matters when no matching reply comes)
	API     string  // "" = Client.ExchangeWithConn | ExchangeConn (the package-level entry point; datagram: round 8)
	// datagram: what decides the size of the receive buffer (client.go: EDNS0 size of the request
	// if it has an OPT, else Client.UDPSize, else what the Conn already has, never below 512)
	OptSize       int // 0 = request without OPT, else the advertised EDNS0 UDP size
	ClientUDPSize int // Client.UDPSize
	ConnUDPSize   int // Conn.UDPSize preset by the caller
	// stream, round 9: how a second reply that is queued behind the first reaches the client, and what
	// the caller does with the Conn after the exchange. OneWrite: the peer hands all replies to one
	// Write call (with Chunks the segments then span the frame boundary: "one TCP segment carries reply 1
	// and the beginning of reply 2"); Coalesce: one read of the transport may return octets of several
	// segments (both replies already in the socket buffer). After: "" | ReadMsg | ReadMsgHeader | Read -
	// the call with which the caller takes the NEXT message from the same connection after the
	// exchange (ExchangeConn: through a Conn of its own around the same net.Conn); it must be the
	// second reply, intact - the exchange consumed its own frame and not one octet more.
	OneWrite bool   `json:",omitempty"`
	Coalesce bool   `json:",omitempty"`
	After    string `json:",omitempty"`
}

// udpBuffer is the receive buffer size the documentation promises for a datagram exchange.
func (c IDCase) udpBuffer() int {
	size := c.ConnUDPSize
	if c.OptSize >= 512 {
		size = c.OptSize
	} else if c.OptSize == 0 && c.ClientUDPSize >= 512 {
		size = c.ClientUDPSize
	}
	if size < 512 {
		size = 512
	}
	return size
}

type IDRep struct {
	Size int    // size of the reply in octets (0 = 36)
	Kind string // match | foreign | stale | dup (repeats the previous reply) | foreign-malformed (foreign ID, header intact, body cut short)
	//             | runt (round 9: the first Size = 0..11 octets of a reply with a foreign ID - shorter than a DNS header;
	//               round 10 also over a stream, as the first frame: no reply, and the frame after it begins where its length says)
	ID uint16 // ID carried (for match = the request's ID)
}

// knownMalformedForeign is the id of the finding "a datagram with a foreign ID that does not decode
// aborts the exchange instead of being skipped" (KNOWN_FINDINGS.txt). While it is listed and its
// probe reproduces, the class foreign-malformed is replaced by well-formed foreign replies.
const knownMalformedForeign = "dgram-malformed-foreign-aborts"

// knownExchangeConnNoSkip is the id of the finding "the package-level ExchangeConn over a datagram
// conn returns the first reply with another ID together with ErrId instead of skipping it"
// (KNOWN_FINDINGS.txt). While it is listed and its probe reproduces, datagram cases in which a reply
// with another ID precedes the matching one (or the deadline) go through Client.ExchangeWithConn only.
const knownExchangeConnNoSkip = "exchangeconn-dgram-no-skip"

// knownRuntAborts is the id of the finding "a datagram shorter than a DNS header (0..11 octets, any ID
// octets it has differ from the request's) ends a datagram exchange with ErrShortRead instead of being
// skipped" (KNOWN_FINDINGS.txt). While it is listed and its probe reproduces, the class runt is
// replaced by well-formed foreign replies.
const knownRuntAborts = "dgram-runt-aborts-exchange"

func genIDCase(stream bool) func(t *rapid.T) IDCase {
	return func(t *rapid.T) IDCase {
		c := IDCase{Stream: stream, ID: uint16(rapid.IntRange(0, 65535).Draw(t, "id"))}
		if rapid.IntRange(0, 7).Draw(t, "idEdge") == 0 {
			c.ID = rapid.SampledFrom([]uint16{0, 1, 0x00ff, 0xff00, 0x7fff, 0x8000, 0xfffe, 0xffff}).Draw(t, "idEdgeV")
		}
		otherID := func(label string) uint16 {
			switch rapid.IntRange(0, 6).Draw(t, label+"Kind") {
			case 0:
				return c.ID + 1
			case 1:
				return c.ID - 1
			case 2:
				return c.ID ^ 0xffff
			case 3:
				return c.ID<<8 | c.ID>>8 // octets swapped (equal to ID for palindromes: fixed below)
			case 4:
				return c.ID ^ 0x0100
			case 5:
				return c.ID ^ 0x0001
			default:
				return uint16(rapid.IntRange(0, 65535).Draw(t, label))
			}
		}
		foreign := func(label string) uint16 {
			v := otherID(label)
			if v == c.ID {
				v = c.ID + 7
			}
			return v
		}
		if stream {
			if rapid.Bool().Draw(t, "good") {
				c.Replies = []IDRep{{Kind: "match", ID: c.ID}}
			} else {
				c.Replies = []IDRep{{Kind: "foreign", ID: foreign("fid")}}
			}
			runtFirst := rapid.IntRange(0, 5).Draw(t, "runtFirst") == 0
			if runtFirst {
				// the peer answers with a frame that is too short to be a DNS message
				c.Replies = []IDRep{{Kind: "runt", ID: foreign("rid"), Size: rapid.SampledFrom([]int{0, 1, 2, 3, 5, 10, 11}).Draw(t, "runtLen")}}
			}
			// a second message may already be queued behind the first: it must not be consumed instead
			if rapid.IntRange(0, 2).Draw(t, "second") > 0 || runtFirst {
				c.Replies = append(c.Replies, IDRep{Kind: "match", ID: c.ID})
			}
			c.Chunks = genChunks(t, "chunk")
			if rapid.IntRange(0, 7).Draw(t, "entry") == 0 {
				c.API = "ExchangeConn"
			}
			c.OneWrite = rapid.Bool().Draw(t, "oneWrite")
			c.Coalesce = rapid.Bool().Draw(t, "coalesce")
			if len(c.Replies) > 1 {
				c.After = rapid.SampledFrom([]string{"", "ReadMsg", "ReadMsgHeader", "Read", "Read"}).Draw(t, "after")
				if runtFirst && c.After == "" {
					c.After = "Exchange" // a second exchange over the same connection (connection reuse)
				}
				for i := range c.Replies {
					if c.Replies[i].Kind == "runt" {
						continue
					}
					if rapid.Bool().Draw(t, "replySized") {
						c.Replies[i].Size = rapid.SampledFrom([]int{36, 37, 255, 256, 511, 512, 513, 4096, 4097}).Draw(t, "replySize")
					}
				}
			}
			return c
		}
		n := rapid.SampledFrom([]int{0, 1, 1, 2, 3, 5, 8}).Draw(t, "before")
		if rapid.IntRange(0, 7).Draw(t, "manyBefore") == 0 {
			// "until the matching one or the deadline arrives": no count of strays ends the skipping
			n = rapid.SampledFrom([]int{15, 16, 17, 31, 32, 33, 64, 100, 255, 256, 257}).Draw(t, "beforeMany")
			if rapid.Bool().Draw(t, "beforeAny") {
				n = rapid.IntRange(9, 400).Draw(t, "beforeN")
			}
		}
		for i := 0; i < n; i++ {
			k := rapid.SampledFrom([]string{"foreign", "foreign", "stale", "dup"}).Draw(t, "kind")
			switch {
			case k == "dup" && len(c.Replies) > 0:
				c.Replies = append(c.Replies, IDRep{Kind: "dup", ID: c.Replies[len(c.Replies)-1].ID})
			case k == "stale":
				c.Replies = append(c.Replies, IDRep{Kind: "stale", ID: c.ID - uint16(rapid.IntRange(1, 3).Draw(t, "age"))})
			default:
				kind := "foreign"
				if rapid.IntRange(0, 5).Draw(t, "malformed") == 0 {
					if pbt.Known(knownMalformedForeign) {
						pbt.Excluded(knownMalformedForeign)
					} else {
						kind = "foreign-malformed"
					}
				}
				size := 0
				if kind == "foreign" && rapid.IntRange(0, 5).Draw(t, "runt") == 0 {
					if pbt.Known(knownRuntAborts) {
						pbt.Excluded(knownRuntAborts)
					} else {
						kind, size = "runt", rapid.SampledFrom([]int{0, 1, 2, 3, 4, 11, 11}).Draw(t, "runtLen")
					}
				}
				c.Replies = append(c.Replies, IDRep{Kind: kind, ID: foreign("fid"), Size: size})
			}
		}
		if rapid.IntRange(0, 9).Draw(t, "answered") < 8 {
			c.Replies = append(c.Replies, IDRep{Kind: "match", ID: c.ID})
			// duplicates / stragglers after the right one must not matter
			m := rapid.IntRange(0, 2).Draw(t, "after")
			for i := 0; i < m; i++ {
				if rapid.Bool().Draw(t, "afterDup") {
					c.Replies = append(c.Replies, IDRep{Kind: "dup", ID: c.ID})
				} else {
					c.Replies = append(c.Replies, IDRep{Kind: "foreign", ID: foreign("aid")})
				}
			}
		}
		c.Timeout = rapid.SampledFrom([]int{40, 60, 80}).Draw(t, "timeout")
		// buffer size selection, and replies between 512 octets and the size in force
		c.OptSize = rapid.SampledFrom([]int{0, 0, 512, 1232, 4096}).Draw(t, "optSize")
		c.ClientUDPSize = rapid.SampledFrom([]int{0, 0, 512, 1232, 4096, 65535}).Draw(t, "clientUDPSize")
		c.ConnUDPSize = rapid.SampledFrom([]int{0, 0, 512, 1232, 4096}).Draw(t, "connUDPSize")
		if rapid.IntRange(0, 7).Draw(t, "entry") == 0 {
			// the package-level entry point: it makes its own Conn (512-octet receive buffer) and
			// knows no Client; the deadline is the one the caller has set on the net.Conn
			c.API, c.OptSize, c.ClientUDPSize, c.ConnUDPSize = "ExchangeConn", 0, 0, 0
			if len(c.Replies) > 0 && c.Replies[0].ID != c.ID && pbt.Known(knownExchangeConnNoSkip) {
				pbt.Excluded(knownExchangeConnNoSkip)
				c.API = ""
			}
		}
		buf := c.udpBuffer()
		for i := range c.Replies {
			if c.Replies[i].Kind == "foreign-malformed" || c.Replies[i].Kind == "runt" {
				continue
			}
			if len(c.Replies) > 24 && i >= 4 && i < len(c.Replies)-4 {
				continue // long runs of strays: only the first and the last few are sized (cost)
			}
			switch rapid.IntRange(0, 3).Draw(t, "sizeKind") {
			case 0:
				c.Replies[i].Size = rapid.SampledFrom([]int{36, 511, 512, 513, buf - 1, buf}).Draw(t, "replySize")
			case 1:
				c.Replies[i].Size = rapid.IntRange(36, buf).Draw(t, "replySizeV")
			}
			if c.Replies[i].Size > buf {
				c.Replies[i].Size = buf
			}
		}
		return c
	}
}

// reply i carries its ordinal as a token so that the oracle can tell which one was returned.
func idReply(id uint16, ordinal int) []byte { return idReplySized(id, ordinal, 0) }

func idReplySized(id uint16, ordinal, size int) []byte {
	if size < fullOverhead+4 {
		size = fullOverhead + 4
	}
	b := buildMsg(id, size, byte(ordinal), true)
	b[len(b)-4], b[len(b)-3], b[len(b)-2], b[len(b)-1] = 'r', byte('0'+ordinal/10), byte('0'+ordinal%10), '!'
	return b
}

// replyOctets is what the peer sends as reply i: the sized reply, or - kind runt - its first Size (0..11) octets.
func replyOctets(r IDRep, i int) []byte {
	if r.Kind == "runt" {
		return idReplySized(r.ID, i, 0)[:min(max(r.Size, 0), 11)]
	}
	return idReplySized(r.ID, i, r.Size)
}

func replyOrdinal(m *dns.Msg) int {
	if m == nil || len(m.Answer) != 1 {
		return -1
	}
	n, ok := m.Answer[0].(*dns.NULL)
	if !ok || len(n.Data) < 4 {
		return -1
	}
	d := n.Data[len(n.Data)-4:]
	if d[0] != 'r' || d[3] != '!' {
		return -1
	}
	return int(d[1]-'0')*10 + int(d[2]-'0')
}

func checkID(c IDCase) error {
	key, _ := json.Marshal(c)
	firstMatch := -1
	foreignBefore := 0
	for i, r := range c.Replies {
		if r.ID == c.ID {
			firstMatch = i
			break
		}
		foreignBefore++
	}
	cl := []string{fmt.Sprintf("stream=%v", c.Stream)}
	if firstMatch >= 0 {
		cl = append(cl, "answered")
	} else {
		cl = append(cl, "unanswered")
	}
	if foreignBefore > 0 {
		cl = append(cl, "foreign-before")
	}
	if foreignBefore >= 16 {
		cl = append(cl, "foreign-before>=16")
	}
	if foreignBefore >= 256 {
		cl = append(cl, "foreign-before>=256")
	}
	for _, r := range c.Replies {
		cl = append(cl, "kind="+r.Kind)
	}
	if c.API != "" {
		cl = append(cl, "api="+c.API)
	}
	if c.Stream && len(c.Replies) > 1 {
		cl = append(cl, "second-reply-queued")
		if c.OneWrite || c.Coalesce {
			cl = append(cl, "second-reply-queued,coalesced")
		}
		if c.After != "" {
			cl = append(cl, "next-message-taken-with-"+c.After)
			if c.OneWrite || c.Coalesce {
				cl = append(cl, "next-message-taken-with-"+c.After+",coalesced")
			}
			if c.Replies[0].Kind == "runt" {
				cl = append(cl, "next-message-taken-after-a-short-frame", "next-message-taken-after-a-short-frame,with-"+c.After)
			} else if c.Replies[0].ID != c.ID {
				cl = append(cl, "next-message-taken-after-ErrId")
			}
		}
	}
	if !c.Stream {
		cl = append(cl, fmt.Sprintf("udp-buffer=%d", c.udpBuffer()))
		if firstMatch >= 0 && c.Replies[firstMatch].Size > 512 {
			cl = append(cl, "matching-reply>512")
		}
		if c.OptSize > 0 && c.ClientUDPSize >= 512 && c.ClientUDPSize != c.OptSize {
			cl = append(cl, "opt-and-client-size-differ")
		}
		// replies that fill the receive buffer to the last octet (they arrived whole)
		how := "512"
		if c.udpBuffer() > 512 {
			how = ">512"
		}
		if firstMatch >= 0 && c.Replies[firstMatch].Size == c.udpBuffer() {
			cl = append(cl, "matching-reply-of-exactly-the-buffer-size", "matching-reply-of-exactly-the-buffer-size,buffer"+how)
		}
		for i, r := range c.Replies {
			if r.Size == c.udpBuffer() && r.ID != c.ID && (firstMatch < 0 || i < firstMatch) {
				cl = append(cl, "skipped-reply-of-exactly-the-buffer-size")
				break
			}
		}
	}
	nontrivial := foreignBefore > 0 || (c.Stream && len(c.Replies) > 1 && c.After != "")
	pbt.Note(key, nontrivial, cl...)
	if nontrivial {
		pbt.Sample(fmt.Sprintf("stream=%v", c.Stream), c)
	}
	return runID(c, firstMatch)
}

func runID(c IDCase, firstMatch int) error {
	q := new(dns.Msg)
	q.SetQuestion("t.", dns.TypeNULL)
	q.Id = c.ID
	if c.Stream {
		a, b := memnet.Pipe(nil, "", "")
		a.SetPlan(memnet.StreamPlan{WriteChunks: c.Chunks})
		b.SetPlan(memnet.StreamPlan{Coalesce: c.Coalesce})
		var all []byte
		for i, r := range c.Replies {
			f := frame(replyOctets(r, i))
			if c.OneWrite {
				all = append(all, f...)
			} else {
				a.Write(f)
			}
		}
		if c.OneWrite {
			a.Write(all)
		}
		var rep *dns.Msg
		var err error
		co := &dns.Conn{Conn: b}
		if c.API == "ExchangeConn" {
			b.SetDeadline(time.Now().Add(10 * time.Second))
			rep, err = dns.ExchangeConn(b, q)
		} else {
			cl := &dns.Client{Net: "tcp", Timeout: 10 * time.Second}
			rep, _, err = cl.ExchangeWithConn(q, co)
		}
		if len(c.Replies) == 0 {
			return nil
		}
		if e := idStreamVerdict(c, rep, err); e != nil {
			return e
		}
		if c.After == "" || len(c.Replies) < 2 {
			return nil
		}
		// The exchange has taken exactly one frame. The caller goes on with the same connection: the
		// next message on it is reply #1, whole, whichever call takes it (the peer half-closes, so a
		// call that looks for octets that are gone reads EOF instead of waiting).
		a.CloseWrite()
		b.SetDeadline(time.Now().Add(hangLimit))
		want := idReplySized(c.Replies[1].ID, 1, c.Replies[1].Size)
		how := fmt.Sprintf("after the %s exchange (result: %v) took reply #0 (%d octets), %s of the next message on the same connection (reply #1, %d octets, queued behind it; one Write call: %v, chunks %v, reads coalesce: %v)", entryName(c.API), err, len(replyOctets(c.Replies[0], 0)), c.After, len(want), c.OneWrite, c.Chunks, c.Coalesce)
		var got []byte
		switch c.After {
		case "Exchange":
			// the caller uses the connection for its next exchange: the reply is reply #1
			if c.Replies[1].ID != c.ID {
				return fmt.Errorf("malformed case: After Exchange needs a second reply with the request's ID")
			}
			var m *dns.Msg
			var e error
			if c.API == "ExchangeConn" {
				m, e = dns.ExchangeConn(b, q)
			} else {
				m, _, e = (&dns.Client{Net: "tcp", Timeout: 10 * time.Second}).ExchangeWithConn(q, co)
			}
			if e != nil {
				return fmt.Errorf("%s failed: %v", how, e)
			}
			if m == nil || m.Id != c.ID || replyOrdinal(m) != 1 || len(m.Answer) != 1 || m.Answer[0].(*dns.NULL).Data != string(want[fullOverhead:]) {
				return fmt.Errorf("%s returned another message: reply #%d", how, replyOrdinal(m))
			}
			return nil
		case "ReadMsg":
			m, e := co.ReadMsg()
			if e != nil {
				return fmt.Errorf("%s failed: %v", how, e)
			}
			if m.Id != c.Replies[1].ID || replyOrdinal(m) != 1 || len(m.Answer) != 1 || m.Answer[0].(*dns.NULL).Data != string(want[fullOverhead:]) {
				return fmt.Errorf("%s returned another message: ID %d, reply #%d", how, m.Id, replyOrdinal(m))
			}
			return nil
		case "ReadMsgHeader":
			p, e := co.ReadMsgHeader(nil)
			if e != nil {
				return fmt.Errorf("%s failed: %v", how, e)
			}
			got = p
		case "Read":
			buf := make([]byte, 65535)
			n, e := co.Read(buf)
			if e != nil {
				return fmt.Errorf("%s failed: %v", how, e)
			}
			got = buf[:n]
		default:
			return fmt.Errorf("malformed case: After %q", c.After)
		}
		if !bytes.Equal(got, want) {
			return fmt.Errorf("%s returned %d octets %s; the peer sent %d octets %s (first difference at octet %d)", how, len(got), hexHead(got), len(want), hexHead(want), firstDiff(got, want))
		}
		return nil
	}
	return runIDDatagram(c, firstMatch, q)
}

func entryName(api string) string {
	if api == "" {
		return "Client.ExchangeWithConn"
	}
	return api
}

// idStreamVerdict decides the stream exchange itself: the first reply is the reply; another ID is ErrId.
func idStreamVerdict(c IDCase, rep *dns.Msg, err error) error {
	if c.Replies[0].Kind == "runt" {
		// a frame of 0..11 octets is no reply at all: the exchange has nothing to return
		if err == nil {
			return fmt.Errorf("stream exchange (%s): the peer answered with a frame of %d octets (%x), fewer than a DNS header, and the exchange reported success (reply #%d)", c.API, len(replyOctets(c.Replies[0], 0)), replyOctets(c.Replies[0], 0), replyOrdinal(rep))
		}
		return nil
	}
	if c.Replies[0].ID == c.ID {
		if err != nil {
			return fmt.Errorf("stream exchange (%s) with a matching reply failed: %v", c.API, err)
		}
		if rep == nil {
			return fmt.Errorf("stream exchange (%s) with a matching reply returned neither a reply nor an error", c.API)
		}
		if rep.Id != c.ID || replyOrdinal(rep) != 0 {
			return fmt.Errorf("stream exchange returned reply #%d with ID %d, want reply #0 with ID %d", replyOrdinal(rep), rep.Id, c.ID)
		}
		return nil
	}
	if !errors.Is(err, dns.ErrId) {
		return fmt.Errorf("stream exchange: request ID %d, reply ID %d: error is %v, want ErrId (returned reply #%d)", c.ID, c.Replies[0].ID, err, replyOrdinal(rep))
	}
	return nil
}

func runIDDatagram(c IDCase, firstMatch int, q *dns.Msg) error {
	// datagram: the peer's replies are delivered the moment the request is written
	pn := memnet.NewPacketNet(nil)
	srv := pn.Listen("", memnet.UDPAddr(53))
	cc := pn.Dial("", memnet.UDPAddr(40001), srv.LocalAddr())
	var sent []byte
	cc.OnWrite(func(i int, pk memnet.Packet) {
		sent = pk.Data
		for i, r := range c.Replies {
			b := idReplySized(r.ID, i, r.Size)
			if r.Kind == "foreign-malformed" {
				b = b[:len(b)-3] // header and ID intact, RDATA shorter than its RDLENGTH
			}
			if r.Kind == "runt" {
				b = b[:min(r.Size, 11)] // not even a header; the ID octets, if any, are not the request's
			}
			cc.Inject(b, srv.LocalAddr())
		}
	})
	tmo := 10 * time.Second
	if firstMatch < 0 {
		tmo = time.Duration(c.Timeout) * time.Millisecond
	}
	if c.OptSize > 0 {
		q.SetEdns0(uint16(c.OptSize), false)
	}
	cli := &dns.Client{Net: "udp", Timeout: tmo, UDPSize: uint16(c.ClientUDPSize)}
	t0 := time.Now()
	var rep *dns.Msg
	var err error
	if c.API == "ExchangeConn" {
		cc.SetDeadline(t0.Add(tmo))
		rep, err = dns.ExchangeConn(cc, q)
	} else {
		rep, _, err = cli.ExchangeWithConn(q, &dns.Conn{Conn: cc, UDPSize: uint16(c.ConnUDPSize)})
	}
	el := time.Since(t0)
	if len(sent) < 2 || uint16(sent[0])<<8|uint16(sent[1]) != c.ID {
		return fmt.Errorf("request on the wire does not carry ID %d: %s", c.ID, hexHead(sent))
	}
	if firstMatch >= 0 {
		if err != nil {
			return fmt.Errorf("datagram exchange%s: matching reply is #%d of %v (receive buffer %d octets: OPT %d, Client.UDPSize %d, Conn.UDPSize %d) but the exchange failed: %v (returned reply #%d)", apiNote(c.API), firstMatch, c.Replies, c.udpBuffer(), c.OptSize, c.ClientUDPSize, c.ConnUDPSize, err, replyOrdinal(rep))
		}
		if rep == nil || rep.Id != c.ID || replyOrdinal(rep) != firstMatch {
			return fmt.Errorf("datagram exchange%s returned reply #%d; want #%d, the first with the request's ID %d; replies %v", apiNote(c.API), replyOrdinal(rep), firstMatch, c.ID, c.Replies)
		}
		want := idReplySized(c.ID, firstMatch, c.Replies[firstMatch].Size)
		if got := rep.Answer[0].(*dns.NULL).Data; got != string(want[fullOverhead:]) {
			return fmt.Errorf("datagram exchange: the %d-octet reply (receive buffer %d octets: OPT %d, Client.UDPSize %d, Conn.UDPSize %d) arrived with %d RDATA octets instead of %d", len(want), c.udpBuffer(), c.OptSize, c.ClientUDPSize, c.ConnUDPSize, len(got), len(want)-fullOverhead)
		}
		return nil
	}
	if err == nil {
		return fmt.Errorf("datagram exchange: no reply carries the request's ID %d, yet reply #%d (ID %d) was returned; replies %v", c.ID, replyOrdinal(rep), rep.Id, c.Replies)
	}
	if !isTimeout(err) {
		return fmt.Errorf("datagram exchange%s without a matching reply failed with %v, want a timeout (replies %v)", apiNote(c.API), err, c.Replies)
	}
	if el > 5*time.Second {
		return fmt.Errorf("datagram exchange without a matching reply took %v with a %v timeout", el, tmo)
	}
	return nil
}

func apiNote(api string) string {
	if api == "" {
		return ""
	}
	return " through " + api
}

func init() {
	// request ID 7 over an in-memory datagram conn; datagram 1: well-formed reply with ID 8, datagram 2:
	// the reply with ID 7, both in the socket buffer when ExchangeConn starts to read
	pbt.Probe(knownExchangeConnNoSkip, func() error {
		return runID(IDCase{ID: 7, Timeout: 60, API: "ExchangeConn", Replies: []IDRep{{Kind: "foreign", ID: 8}, {Kind: "match", ID: 7}}}, 1)
	})
	// request ID 7 over an in-memory datagram conn; datagram 1: the 5 octets 00 09 81 00 00 (the start of
	// a reply with ID 9), datagram 2: the reply with ID 7
	pbt.Probe(knownRuntAborts, func() error {
		return runID(IDCase{ID: 7, Timeout: 60, Replies: []IDRep{{Kind: "runt", ID: 9, Size: 5}, {Kind: "match", ID: 7}}}, 1)
	})
	pbt.Probe(knownMalformedForeign, func() error {
		return runID(IDCase{ID: 7, Timeout: 60, Replies: []IDRep{{Kind: "foreign-malformed", ID: 9}, {Kind: "match", ID: 7}}}, 1)
	})
	pbt.Register(pbt.Sub[IDCase]{Name: "id-stream", Weight: 0.5, Gen: genIDCase(true), Check: checkID})
	pbt.Register(pbt.Sub[IDCase]{Name: "id-datagram", Weight: 0.5, Gen: genIDCase(false), Check: checkID})
}
