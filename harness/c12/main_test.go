package c12

import (
	"os"
	"testing"

	"verif/harness/pbt"
)

func init() { pbt.Property("C12") }

func TestMain(m *testing.M)   { pbt.Main(m) }
func TestProps(t *testing.T)  { pbt.RunAll(t) }
func TestReplay(t *testing.T) { pbt.ReplayAll(t) }

// TestRaceCrosstalk runs the concurrent sub-checks (c) in the binary built with -race; the driver
// treats any "WARNING: DATA RACE" as a violation. The schedule-independent sub-checks (a), (b) gain
// nothing from the race detector and are left to the normal binary.
func TestRaceCrosstalk(t *testing.T) {
	if os.Getenv("VERIF_SUB") == "" {
		os.Setenv("VERIF_SUB", "crosstalk")
	}
	pbt.RunAll(t)
}
