package c12

import (
	"bytes"
	"crypto/hmac"
	"crypto/sha256"
	"encoding/binary"
	"encoding/hex"
	"encoding/json"
	"fmt"
	"net"
	"os"
	"runtime"
	"strings"
	"sync"
	"sync/atomic"
	"time"

	"github.com/miekg/dns"
	"pgregory.net/rapid"

	"verif/harness/memnet"
	"verif/harness/pbt"
)

// Cross is one round of sub-check (c): Clients concurrent clients send Reqs requests each to one
// server; every request carries a unique token in three places; the handler sleeps, re-reads its
// request and answers with a function of the token.
type Cross struct {
	Transport string // realUDP | realTCP | memPacket | memTCP
	Clients   int
	Reqs      int
	SleepUs   []int // handler sleep, by handler call ordinal (cyclic), 0..2000 µs
	SameIDs   bool  // all clients use the same message IDs (q-th request has ID q): only the token tells replies apart
	UDPSize   int   // server UDP buffer size (pool granularity), 0 = default 512
	Pad       int   // extra TXT padding in the request so that it fills most of the receive buffer
	Async     bool  // datagram transports: the handler returns at once; the reply is written later from a goroutine,
	//                   after AsyncK further requests have been dispatched (or 30 ms)
	AsyncK int
	// IdleMs > 0 (datagram transports): Server.ReadTimeout in ms; the socket stays silent for IdlePauses
	// read time-outs after the start, then all clients burst at once (a late wake-up only shortens the silence)
	IdleMs     int
	IdlePauses int
	TsigProv   bool // TSIG rounds: keys are supplied through the TsigProvider field of Server and Conn instead of TsigSecret
	// Restart: when the round is over the server is shut down and the SAME dns.Server value is started
	// again on a fresh socket / listener of the same transport (state carried from one lifetime of the
	// value into the next: buffer pool, connection table, TSIG settings); the same number of clients
	// then run a second round (requests Reqs+1..2*Reqs). UDPSize2 != 0 is written into Server.UDPSize
	// between the Shutdown and the second start. Big2: the requests of the second round are padded
	// to fill most of the receive buffer then in force, else most of the smaller of the two buffers.
	Restart  bool
	UDPSize2 int
	Big2     bool
	Tsig     bool // server has a TSIG secret, every request and reply is signed; TsigStatus must be nil for every request
	Salt     uint32
	// Round 8. Requests and replies carry several names whose suffixes are shared ACROSS clients
	// (z0/z1/z2.shared.test.); Compress writes them with Msg.Compress = true. FailMod > 0: the handler of
	// request (cl, q) with (cl+q) % FailMod == 0 first tries to write a reply that cannot be encoded
	// (FailKinds, cyclic by cl*7+q; it names hosts of OTHER clients at other offsets), sees the error of
	// WriteMsg and then writes the valid reply - the usual fallback of a handler. ClientFail: clients do
	// the same with their requests through Conn.WriteMsg. FailUnsigned: in TSIG rounds the unencodable
	// reply carries no TSIG stub (it fails in Msg.Pack instead of TsigGenerate).
	Compress     bool     `json:",omitempty"`
	FailMod      int      `json:",omitempty"`
	FailKinds    []string `json:",omitempty"`
	ClientFail   bool     `json:",omitempty"`
	FailUnsigned bool     `json:",omitempty"`
	// Round 9 (see fill_test.go). Fill: "" | request | reply | both - requests are padded to EXACTLY the
	// server's receive buffer (Server.UDPSize, 512 when 0), replies to EXACTLY the clients' receive
	// buffer (Conn.UDPSize = ClientUDPSize, 0 = 1232 as in every earlier round).
	Fill          string `json:",omitempty"`
	ClientUDPSize int    `json:",omitempty"`
	// Round 10 (see junk_test.go). Junk = m > 0: client cl sends an item that is no request (0..11 octets,
	// or a message with the QR bit set) right before its q-th request when (cl+q) mod m == 0; JunkKinds,
	// cyclic by cl*5+q: 0..11 = that many octets, 100 = the QR copy of the request.
	Junk      int   `json:",omitempty"`
	JunkKinds []int `json:",omitempty"`
}

func genCross(transports []string) func(t *rapid.T) Cross {
	return func(t *rapid.T) Cross {
		c := Cross{
			Transport:  rapid.SampledFrom(transports).Draw(t, "transport"),
			Clients:    rapid.SampledFrom([]int{2, 3, 4, 8, 8, 16, 16, 32, 64}).Draw(t, "clients"),
			Reqs:       rapid.IntRange(1, 8).Draw(t, "reqs"),
			SameIDs:    rapid.Bool().Draw(t, "sameIDs"),
			UDPSize:    rapid.SampledFrom([]int{0, 0, 512, 1232, 4096}).Draw(t, "udpSize"),
			Pad:        rapid.SampledFrom([]int{0, 0, 50, 200, 300}).Draw(t, "pad"),
			Tsig:       rapid.IntRange(0, 9).Draw(t, "tsig") < 4,
			TsigProv:   rapid.Bool().Draw(t, "tsigProvider"),
			Async:      rapid.IntRange(0, 9).Draw(t, "async") < 4,
			IdlePauses: rapid.IntRange(2, 3).Draw(t, "idlePauses"),
			AsyncK:     rapid.IntRange(0, 4).Draw(t, "asyncK"),
			Salt:       rapid.Uint32().Draw(t, "salt"),
		}
		if rapid.IntRange(0, 9).Draw(t, "idle") < 2 {
			c.IdleMs = rapid.SampledFrom([]int{12, 20, 30}).Draw(t, "idleMs")
			if c.Pad == 0 {
				c.Pad = 200 // large requests, so that mixed buffers show
			}
		}
		if !pbt.Thorough() && c.Clients*c.Reqs > 192 {
			c.Reqs = 192 / c.Clients
		}
		if rapid.IntRange(0, 9).Draw(t, "restart") < 3 {
			c.Restart = true
			c.UDPSize2 = rapid.SampledFrom([]int{0, 512, 1232, 4096, 4096}).Draw(t, "udpSize2")
			c.Big2 = rapid.IntRange(0, 2).Draw(t, "big2") > 0
			if rapid.Bool().Draw(t, "grow") {
				// a small buffer first, a larger one for the second start
				c.UDPSize = rapid.SampledFrom([]int{0, 512, 1232}).Draw(t, "udpSizeSmall")
				c.UDPSize2 = rapid.SampledFrom([]int{1232, 4096, 4096}).Draw(t, "udpSizeLarge")
			}
			c.Reqs = (c.Reqs + 1) / 2 // two rounds: keep the cost of the case where it was
			if c.restartGrowsBuffer() && c.Big2 && pbt.Known(knownRestartPool) {
				pbt.Excluded(knownRestartPool)
				c.Big2 = false
			}
		}
		n := rapid.IntRange(1, 6).Draw(t, "nsleep")
		for i := 0; i < n; i++ {
			c.SleepUs = append(c.SleepUs, rapid.SampledFrom([]int{0, 0, 50, 200, 500, 1000, 2000}).Draw(t, "sleep"))
		}
		c.Compress = rapid.IntRange(0, 9).Draw(t, "compress") < 7
		if rapid.IntRange(0, 9).Draw(t, "failFirst") < 5 {
			c.FailMod = rapid.SampledFrom([]int{1, 2, 2, 3, 5}).Draw(t, "failMod")
			c.ClientFail = rapid.IntRange(0, 2).Draw(t, "clientFail") == 0
			c.FailUnsigned = rapid.Bool().Draw(t, "failUnsigned")
			nk := rapid.IntRange(1, 4).Draw(t, "nFailKinds")
			for i := 0; i < nk; i++ {
				c.FailKinds = append(c.FailKinds, rapid.SampledFrom(failKinds).Draw(t, "failKind"))
			}
			if c.Tsig && !c.FailUnsigned && pbt.Known(knownFailedSignedWrite) {
				pbt.Excluded(knownFailedSignedWrite)
				c.FailUnsigned = true
			}
		}
		if rapid.IntRange(0, 9).Draw(t, "fill") < 3 {
			c.Fill = rapid.SampledFrom([]string{"request", "reply", "both", "both"}).Draw(t, "fillSide")
			if c.fillsReplies() {
				c.ClientUDPSize = rapid.SampledFrom([]int{0, 0, 512, 4096}).Draw(t, "clientUDPSize")
			}
		}
		if rapid.IntRange(0, 9).Draw(t, "junk") < 4 {
			c.Junk = rapid.SampledFrom([]int{1, 2, 2, 3, 5}).Draw(t, "junkMod")
			nk := rapid.IntRange(1, 4).Draw(t, "nJunkKinds")
			for i := 0; i < nk; i++ {
				c.JunkKinds = append(c.JunkKinds, rapid.SampledFrom([]int{junkResponse, 0, 1, 2, 3, 4, 5, 6, 7, 8, 9, 10, 11, 11, 5, junkResponse, junkResponse, junkResponse}).Draw(t, "junkKind"))
			}
			if !c.Tsig && rapid.Bool().Draw(t, "junkWithResponse") {
				c.JunkKinds[0] = junkResponse // (TSIG rounds accept everything: there the kind stands for 11 octets)
			}
		}
		return c
	}
}

// knownRestartPool is the id of the finding "a Server restarted with a larger UDPSize keeps handing
// out the receive buffers of its previous lifetime" (KNOWN_FINDINGS.txt). While it is listed and its
// probe reproduces, second rounds behind a GROWN datagram buffer keep their requests within the old
// buffer size (Big2 is cleared); everything else about restarts stays generated.
const knownRestartPool = "restart-larger-udpsize-stale-pool"

// knownFailedSignedWrite is the id of the finding "a signed reply that fails to encode wipes the
// request MAC of its response writer, so the signed reply the handler writes next does not verify at
// its client" (KNOWN_FINDINGS.txt). While it is listed and its probe reproduces, the unencodable
// replies of TSIG rounds carry no TSIG stub (FailUnsigned); everything else stays generated.
const knownFailedSignedWrite = "failed-signed-write-wipes-request-mac"

// bufSize is the receive buffer size of the datagram server in round ph (0 or 1).
func (c Cross) bufSize(ph int) int {
	b := c.UDPSize
	if ph > 0 && c.UDPSize2 != 0 {
		b = c.UDPSize2
	}
	if b == 0 {
		b = 512 // Server.UDPSize 0 means dns.MinMsgSize
	}
	return b
}

func (c Cross) datagramTransport() bool {
	return c.Transport == "memPacket" || c.Transport == "realUDP" || c.Transport == "realUDPwild"
}

// restartGrowsBuffer: the class of the finding - second start of a datagram server with a larger UDPSize.
func (c Cross) restartGrowsBuffer() bool {
	return c.Restart && c.datagramTransport() && c.bufSize(1) > c.bufSize(0)
}

// Tokens carry, besides the case's salt, a nonce unique to this process and round: on loopback
// sockets a port that another process has just released may be reassigned to this server or to one
// of these clients, so a stray request/reply of ANOTHER process can arrive. Traffic without the
// nonce is alien and ignored on real transports; on in-memory transports it is a violation.
var crossSeq atomic.Uint64

func (s *crossState) token(cl, q int) string {
	return fmt.Sprintf("c%dq%ds%08x%s", cl, q, s.c.Salt, s.nonce)
}

func (s *crossState) real() bool {
	return s.c.Transport == "realUDP" || s.c.Transport == "realTCP" || s.c.Transport == "realUDPwild"
}

// multiAddr reports (once per process) whether this machine delivers datagrams sent to 127.0.0.2
// and 127.0.0.3 to a wildcard-bound socket, i.e. whether one UDP server can be reached through
// several local addresses without any setup (true on Linux loopback).
var multiAddr = sync.OnceValue(func() bool {
	srv, err := net.ListenUDP("udp4", &net.UDPAddr{IP: net.IPv4zero})
	if err != nil {
		return false
	}
	defer srv.Close()
	cli, err := net.ListenUDP("udp4", &net.UDPAddr{IP: net.IPv4zero})
	if err != nil {
		return false
	}
	defer cli.Close()
	port := srv.LocalAddr().(*net.UDPAddr).Port
	buf := make([]byte, 16)
	for _, last := range []byte{2, 3} {
		if _, err := cli.WriteToUDP([]byte("probe"), &net.UDPAddr{IP: net.IPv4(127, 0, 0, last), Port: port}); err != nil {
			return false
		}
		srv.SetReadDeadline(time.Now().Add(time.Second))
		if n, _, err := srv.ReadFromUDP(buf); err != nil || string(buf[:n]) != "probe" {
			return false
		}
	}
	return true
})

// wildConn is the client side of transport realUDPwild: an UNCONNECTED socket that sends to one of
// the server's local addresses and looks at the source address of what comes back. (A connected
// socket would silently drop a reply that left from another address and merely time out, which on
// a loaded machine cannot be told from ordinary datagram loss.)
type wildConn struct {
	*net.UDPConn
	dst *net.UDPAddr
	s   *crossState
	cl  int
}

func (w *wildConn) Write(b []byte) (int, error) { return w.UDPConn.WriteToUDP(b, w.dst) }
func (w *wildConn) RemoteAddr() net.Addr        { return w.dst }
func (w *wildConn) Read(b []byte) (int, error) {
	n, src, err := w.UDPConn.ReadFromUDP(b)
	if err == nil && bytes.Contains(b[:n], []byte(w.s.nonce)) && (!src.IP.Equal(w.dst.IP) || src.Port != w.dst.Port) {
		w.s.fail("client %d sent its request to %v but the reply of this server came from %v: the reply left from the wrong local address", w.cl, w.dst, src)
	}
	return n, err
}

const tokOpt = 65001

// tokens extracts the token from the three places of a request/reply; ok is false when one is missing.
func tokens(m *dns.Msg) (qn, txt, opt string, ok bool) {
	if len(m.Question) != 1 {
		return "", "", "", false
	}
	qn = strings.SplitN(m.Question[0].Name, ".", 2)[0]
	for _, rr := range m.Extra {
		switch x := rr.(type) {
		case *dns.TXT:
			if len(x.Txt) > 0 {
				txt = x.Txt[0]
			}
		case *dns.OPT:
			for _, o := range x.Option {
				if l, isLocal := o.(*dns.EDNS0_LOCAL); isLocal && l.Code == tokOpt {
					opt = string(l.Data)
				}
			}
		}
	}
	return qn, txt, opt, txt != "" && opt != ""
}

// firstRoundPad is the TXT padding of the first round's requests: they fit the smallest (512-octet) buffer.
func (s *crossState) firstRoundPad() int {
	pad := min(s.c.Pad, 255)
	if s.c.Tsig {
		pad = min(pad, 120) // leave room for the TSIG record inside the 512-octet receive buffer
	}
	return pad
}

// padFor returns the TXT padding with which a request of this round comes to about target octets
// on the wire (never beyond it; never less than the first round's padding unless that would not fit).
func (s *crossState) padFor(target int) int {
	base := s.request(64, 16, 0) // the longest token of the case
	n0 := base.Len()
	if s.c.Tsig {
		n0 += 80 // MAC and the fields that signing adds to the stub
	}
	room := target - n0 - 16
	pad := room - (room/255 + 1) // one length octet per character-string of at most 255 octets
	return max(0, pad)
}

func (s *crossState) request(cl, q, pad int) *dns.Msg {
	c := s.c
	tok := s.token(cl, q)
	m := new(dns.Msg)
	m.SetQuestion(tok+".x.test.", dns.TypeTXT)
	m.Id = s.requestID(cl, q)
	m.Compress = c.Compress
	txt := []string{tok}
	for ; pad > 0; pad -= min(pad, 255) {
		txt = append(txt, strings.Repeat("p", min(pad, 255)))
	}
	nsOwner, nsTarget, txtOwner := requestFacts(cl, q)
	m.Ns = append(m.Ns, &dns.NS{Hdr: dns.RR_Header{Name: nsOwner, Rrtype: dns.TypeNS, Class: dns.ClassINET}, Ns: nsTarget})
	m.Extra = append(m.Extra, &dns.TXT{Hdr: dns.RR_Header{Name: txtOwner, Rrtype: dns.TypeTXT, Class: dns.ClassINET}, Txt: txt})
	o := &dns.OPT{Hdr: dns.RR_Header{Name: ".", Rrtype: dns.TypeOPT}}
	o.SetUDPSize(1232)
	o.Option = append(o.Option, &dns.EDNS0_LOCAL{Code: tokOpt, Data: []byte(tok)})
	m.Extra = append(m.Extra, o)
	if c.Tsig {
		m.SetTsig(tsigKeyName, dns.HmacSHA256, 300, time.Now().Unix())
	}
	return m
}

// hmacProvider is a dns.TsigProvider (HMAC-SHA256 over whatever the library hands it) for the rounds
// that configure Server.TsigProvider / Conn.TsigProvider instead of the secret maps.
type hmacProvider string

func (p hmacProvider) Generate(msg []byte, t *dns.TSIG) ([]byte, error) {
	h := hmac.New(sha256.New, []byte(p))
	h.Write(msg)
	return h.Sum(nil), nil
}

func (p hmacProvider) Verify(msg []byte, t *dns.TSIG) error {
	mac, err := hex.DecodeString(t.MAC)
	want, _ := p.Generate(msg, t)
	if err != nil || !hmac.Equal(mac, want) {
		return dns.ErrSig
	}
	return nil
}

const (
	tsigKeyName = "xtalk."
	tsigSecret  = "c2VjcmV0LWZvci1jcm9zcy10YWxrLXJvdW5kcw=="
)

type crossState struct {
	nonce        string
	c            Cross
	mu           sync.Mutex
	seen         map[string]int
	bad          []string
	multi        bool           // realUDPwild: several local addresses are usable
	idle         bool           // the round starts with a silence of several read time-outs
	grown        bool           // second round: requests larger than the first lifetime's receive buffer
	fillTarget   int            // > 0: the requests of the current round are padded to exactly this many octets
	addrs        map[int]string // client index -> its local address, as the server must see it
	srvLocal     string         // the address the server listens on
	asyncPending atomic.Int32   // late repliers still at work (an atomic, not a WaitGroup: Add would race with Wait across a real socket)
	lateReplies  atomic.Int32
	tsigOK       atomic.Int32
	failedReply  atomic.Int32 // replies that could not be encoded, each followed by the valid one
	failedReq    atomic.Int32 // the same for requests
	filledReq    atomic.Int32 // requests of exactly the server's receive buffer size
	filledReply  atomic.Int32 // replies of exactly the client's receive buffer size
	filledSeen   atomic.Int32 // ... that a recording client saw arrive with exactly that many octets
	wireChecked  atomic.Int32 // replies compared octet-wise through the harness's own decoder
	alien        atomic.Int32
	// round 10 (junk_test.go)
	junkSent     map[string]int // hex of a short item -> how many of them were sent
	junkRefused  map[string]int // hex of what MsgInvalidFunc was told -> how often
	junkShort    atomic.Int32   // items of 0..11 octets sent
	junkIgnored  atomic.Int32   // QR copies sent
	junkReported atomic.Int32   // short items the server reported to MsgInvalidFunc
	conns        []net.Conn     // the clients' transports of the current round (abort)
	aborted      chan struct{}
	abortOnce    sync.Once
	calls        atomic.Int32
	active       atomic.Int32
	maxAct       atomic.Int32
}

func (s *crossState) fail(format string, a ...any) {
	s.mu.Lock()
	if len(s.bad) < 8 {
		s.bad = append(s.bad, fmt.Sprintf(format, a...))
	}
	s.mu.Unlock()
}

func (s *crossState) datagram() bool {
	return s.c.Transport == "memPacket" || s.c.Transport == "realUDP" || s.c.Transport == "realUDPwild"
}

// sameEndpoint compares two address strings; with a wildcard-bound socket only the port is known.
func sameEndpoint(got, want string, portOnly bool) bool {
	if !portOnly {
		return got == want
	}
	_, gp, e1 := net.SplitHostPort(got)
	_, wp, e2 := net.SplitHostPort(want)
	return e1 == nil && e2 == nil && gp == wp
}

func (s *crossState) handler(w dns.ResponseWriter, req *dns.Msg) {
	n := s.calls.Add(1)
	a := s.active.Add(1)
	for {
		m := s.maxAct.Load()
		if a <= m || s.maxAct.CompareAndSwap(m, a) {
			break
		}
	}
	qn, txt, opt, ok := tokens(req)
	if s.real() && !strings.Contains(qn+txt+opt, s.nonce) {
		s.alien.Add(1) // another process's datagram on a reassigned port
		s.active.Add(-1)
		return
	}
	if !ok || qn != txt || qn != opt {
		s.fail("handler saw a request nobody sent: qname token %q, TXT token %q, OPT token %q", qn, txt, opt)
		s.active.Add(-1)
		return
	}
	if s.c.Tsig {
		// every request was signed correctly by its client: the server must have verified exactly
		// this request's octets
		if req.IsTsig() == nil {
			s.fail("signed request of token %q reached its handler without a TSIG record", qn)
			s.active.Add(-1)
			return
		}
		if err := w.TsigStatus(); err != nil {
			s.fail("correctly signed request of token %q: TsigStatus() = %v", qn, err)
			s.active.Add(-1)
			return
		}
		s.tsigOK.Add(1)
	}
	// the response writer belongs to this request: it names this client and this server
	var cl, q int
	fmt.Sscanf(qn, "c%dq%d", &cl, &q)
	// the names of the request are those its client wrote (they share suffixes with other clients' requests)
	nsOwner, nsTarget, txtOwner := requestFacts(cl, q)
	gotNs, gotTxtOwner := "<missing>", "<missing>"
	if len(req.Ns) == 1 {
		if x, isNS := req.Ns[0].(*dns.NS); isNS {
			gotNs = x.Hdr.Name + " NS " + x.Ns
		}
	}
	if len(req.Extra) > 0 {
		gotTxtOwner = req.Extra[0].Header().Name
	}
	if gotNs != nsOwner+" NS "+nsTarget || gotTxtOwner != txtOwner {
		s.fail("handler of token %q saw names its client did not send: authority %q (sent %q), owner of the TXT record %q (sent %q)", qn, gotNs, nsOwner+" NS "+nsTarget, gotTxtOwner, txtOwner)
		s.active.Add(-1)
		return
	}
	s.mu.Lock()
	wantRemote, srvLocal := s.addrs[cl], s.srvLocal
	s.mu.Unlock()
	remote, local := w.RemoteAddr().String(), w.LocalAddr().String()
	wild := s.c.Transport == "realUDPwild"
	if !sameEndpoint(remote, wantRemote, wild) {
		s.fail("handler of token %q (client %d at %s): RemoteAddr() = %s", qn, cl, wantRemote, remote)
	}
	if local != srvLocal {
		s.fail("handler of token %q: LocalAddr() = %s, the server listens on %s", qn, local, srvLocal)
	}
	before := req.String()
	s.mu.Lock()
	s.seen[qn]++
	s.mu.Unlock()
	finish := func() {
		defer s.active.Add(-1)
		if us := s.c.SleepUs[int(n)%len(s.c.SleepUs)]; us > 0 {
			time.Sleep(time.Duration(us) * time.Microsecond)
		} else {
			runtime.Gosched()
		}
		// re-read the request after the sleep: it must not have changed under the handler
		qn2, txt2, opt2, ok2 := tokens(req)
		if !ok2 || qn2 != qn || txt2 != txt || opt2 != opt || req.String() != before {
			s.fail("request of token %q changed while its handler slept: now qname %q TXT %q OPT %q", qn, qn2, txt2, opt2)
			return
		}
		// ... and the response writer is still this request's
		if r2 := w.RemoteAddr().String(); r2 != remote {
			s.fail("response writer of token %q: RemoteAddr() was %s, is %s when the reply is written", qn, remote, r2)
			return
		}
		if s.c.Tsig && w.TsigStatus() != nil {
			s.fail("response writer of token %q: TsigStatus() turned into %v before the reply was written", qn, w.TsigStatus())
			return
		}
		if s.c.handlerFails(cl, q) {
			// first a reply that cannot be encoded; the handler sees the error and falls back to the valid one
			bad := new(dns.Msg)
			bad.SetReply(req)
			bad.Compress = s.c.Compress
			fillReply(bad, cl+1, q+1, qn)
			bad.Answer, bad.Ns = nil, nil
			makeUnencodable(bad, s.c.failKind(cl, q), cl, q)
			if s.c.Tsig && !s.c.FailUnsigned {
				bad.SetTsig(tsigKeyName, dns.HmacSHA256, 300, time.Now().Unix())
			}
			if err := w.WriteMsg(bad); err == nil {
				s.fail("handler of token %q: WriteMsg accepted a reply that cannot be encoded (%s)", qn, s.c.failKind(cl, q))
				return
			}
			s.failedReply.Add(1)
		}
		m := new(dns.Msg)
		m.SetReply(req)
		m.Compress = s.c.Compress
		fillReply(m, cl, q, qn)
		if s.c.Tsig {
			m.SetTsig(tsigKeyName, dns.HmacSHA256, 300, time.Now().Unix())
		}
		if s.c.fillsReplies() && s.datagram() && s.fillReplyTo(m, s.c.clientBuf()) {
			s.filledReply.Add(1) // this reply fills its client's receive buffer to the last octet
		}
		if err := w.WriteMsg(m); err != nil {
			s.fail("handler of token %q could not write its reply: %v", qn, err)
		}
	}
	if s.c.Async && s.datagram() {
		// reply after ServeDNS has returned (doc.go: a handler may answer asynchronously), once
		// AsyncK further requests have been dispatched in the meantime
		s.asyncPending.Add(1)
		s.lateReplies.Add(1)
		go func() {
			defer s.asyncPending.Add(-1)
			for t0 := time.Now(); s.calls.Load() < n+int32(s.c.AsyncK) && time.Since(t0) < 30*time.Millisecond; {
				time.Sleep(100 * time.Microsecond)
			}
			finish()
		}()
		return
	}
	finish()
}

func newCrossState(c Cross) *crossState {
	return &crossState{c: c, seen: map[string]int{}, addrs: map[int]string{}, junkSent: map[string]int{}, junkRefused: map[string]int{}, aborted: make(chan struct{}),
		nonce: fmt.Sprintf("p%dr%d", os.Getpid(), crossSeq.Add(1))}
}

func checkCross(c Cross) error {
	key, _ := json.Marshal(c)
	s := newCrossState(c)
	lost, err := s.run()
	cl := []string{"transport=" + c.Transport, fmt.Sprintf("clients>=%d", bucket(c.Clients)), fmt.Sprintf("sameIDs=%v", c.SameIDs), fmt.Sprintf("tsig=%v", c.Tsig)}
	if c.Tsig && s.tsigOK.Load() > 0 {
		cl = append(cl, "tsig-verified-requests")
		if c.TsigProv {
			cl = append(cl, "tsig-through-TsigProvider")
		}
	}
	if s.idle {
		cl = append(cl, "idle-timeouts-then-burst")
	}
	if c.Restart {
		cl = append(cl, "restart-of-the-same-Server")
		if c.restartGrowsBuffer() {
			cl = append(cl, "restart-with-larger-UDPSize")
		}
		if c.datagramTransport() && c.bufSize(1) < c.bufSize(0) {
			cl = append(cl, "restart-with-smaller-UDPSize")
		}
		if s.grown {
			cl = append(cl, "restart-requests-beyond-old-buffer")
		}
	}
	if s.lateReplies.Load() > 0 {
		cl = append(cl, "replies-after-ServeDNS-returned")
	}
	cl = append(cl, fmt.Sprintf("compress=%v", c.Compress))
	if s.failedReply.Load() > 0 {
		cl = append(cl, "unencodable-reply-then-valid-reply")
		if c.Compress {
			cl = append(cl, "unencodable-reply-then-valid-reply,compressed")
		}
		if c.Tsig && !c.FailUnsigned {
			cl = append(cl, "unencodable-signed-reply-then-valid-signed-reply")
		}
		for _, k := range c.FailKinds {
			cl = append(cl, "unencodable="+k)
		}
	}
	if s.failedReq.Load() > 0 {
		cl = append(cl, "unencodable-request-then-valid-request")
	}
	if s.wireChecked.Load() > 0 {
		cl = append(cl, "replies-decoded-by-the-harness")
	}
	if s.filledReq.Load() > 0 {
		cl = append(cl, "requests-of-exactly-the-server-buffer-size", fmt.Sprintf("requests-of-exactly-the-server-buffer-size=%d", c.bufSize(0)))
	}
	if s.filledReply.Load() > 0 {
		cl = append(cl, "replies-of-exactly-the-client-buffer-size", fmt.Sprintf("replies-of-exactly-the-client-buffer-size=%d", c.clientBuf()))
	}
	if s.filledSeen.Load() > 0 {
		cl = append(cl, "observed:reply-datagram-of-exactly-the-client-buffer-size-arrived")
	}
	if s.junkShort.Load() > 0 {
		what := "frames"
		if c.datagramTransport() {
			what = "datagrams"
		}
		cl = append(cl, what+"-too-short-for-a-header-among-the-requests")
		if c.Restart {
			cl = append(cl, what+"-too-short-for-a-header-among-the-requests,restart")
		}
	}
	if s.junkIgnored.Load() > 0 {
		cl = append(cl, "messages-with-QR-set-among-the-requests")
	}
	if s.junkReported.Load() > 0 {
		cl = append(cl, "observed:short-items-reported-to-MsgInvalidFunc")
	}
	inflight := s.maxAct.Load() >= 2
	if inflight {
		cl = append(cl, "inflight>=2")
	}
	if s.maxAct.Load() >= 8 {
		cl = append(cl, "inflight>=8")
	}
	if lost > 0 {
		cl = append(cl, "udp-datagram-lost")
	}
	if s.alien.Load() > 0 {
		cl = append(cl, "alien-traffic-ignored")
	}
	if c.Transport == "realUDPwild" {
		if s.multi {
			cl = append(cl, "several-local-addresses")
		} else {
			cl = append(cl, "multi-address-unavailable")
		}
	}
	pbt.Note(key, inflight, cl...)
	if inflight {
		pbt.Sample(c.Transport, c)
	}
	return err
}

func bucket(n int) int {
	for _, b := range []int{64, 32, 16, 8, 4, 2} {
		if n >= b {
			return b
		}
	}
	return 0
}

func (s *crossState) run() (lost int, err error) {
	c := s.c
	srv := &dns.Server{Handler: dns.HandlerFunc(s.handler), ReadTimeout: time.Minute, IdleTimeout: func() time.Duration { return time.Minute }, UDPSize: c.UDPSize}
	srv.MsgInvalidFunc = s.invalid // observation point: every message the server refuses as invalid, with its octets
	if c.IdleMs > 0 && c.datagramTransport() {
		srv.ReadTimeout = time.Duration(c.IdleMs) * time.Millisecond
		s.idle = true
	}
	if c.Tsig {
		if c.TsigProv {
			srv.TsigProvider = hmacProvider("provider secret")
		} else {
			srv.TsigSecret = map[string]string{tsigKeyName: tsigSecret}
		}
		// TXT + OPT + TSIG are three additional records; the default policy refuses more than two
		srv.MsgAcceptFunc = func(dns.Header) dns.MsgAcceptAction { return dns.MsgAccept }
	}
	rounds := 1
	if c.Restart {
		rounds = 2
	}
	for ph := 0; ph < rounds; ph++ {
		pad := s.firstRoundPad()
		if ph > 0 {
			// the same Server value starts again; a caller may have reconfigured it in between
			if c.UDPSize2 != 0 {
				srv.UDPSize = c.UDPSize2
			}
			target := min(c.bufSize(0), c.bufSize(1))
			if c.Big2 {
				target = c.bufSize(1)
			}
			pad = max(pad, s.padFor(target))
			if c.datagramTransport() && target > c.bufSize(0) {
				s.grown = true
			}
		}
		s.fillTarget = 0
		if c.fillsRequests() && c.datagramTransport() {
			// every request of this round is exactly as long as the buffer it is received into (after a
			// restart: as the padding rule of the restart rounds allows)
			s.fillTarget = c.bufSize(0)
			if ph > 0 {
				s.fillTarget = min(c.bufSize(0), c.bufSize(1))
				if c.Big2 {
					s.fillTarget = c.bufSize(1)
				}
				if s.fillTarget > c.bufSize(0) {
					s.grown = true
				}
			}
		}
		l, e := s.round(srv, ph, pad)
		lost += l
		if e != nil {
			return lost, e
		}
	}
	s.mu.Lock()
	defer s.mu.Unlock()
	if len(s.bad) > 0 {
		return lost, fmt.Errorf("%s", strings.Join(s.bad, "\n"))
	}
	// every handler saw exactly one sent request: each token at most once, and - unless a real
	// datagram was lost on the way in - exactly once
	for cl := 1; cl <= c.Clients; cl++ {
		for q := 1; q <= rounds*c.Reqs; q++ {
			n := s.seen[s.token(cl, q)]
			if n > 1 || (n == 0 && lost == 0) {
				return lost, fmt.Errorf("request with token %s was handled %d times", s.token(cl, q), n)
			}
		}
	}
	if len(s.seen) > rounds*c.Clients*c.Reqs {
		return lost, fmt.Errorf("handlers saw %d distinct tokens, only %d were sent", len(s.seen), rounds*c.Clients*c.Reqs)
	}
	return lost, nil
}

// round ph (0 = first start of srv, 1 = after the restart) binds srv to a fresh transport, starts it,
// lets every client send its requests Reqs*ph+1 .. Reqs*(ph+1) padded with pad octets, and shuts down.
func (s *crossState) round(srv *dns.Server, ph, pad int) (lost int, err error) {
	c := s.c
	when := ""
	if ph > 0 {
		when = fmt.Sprintf("after the restart (UDPSize %d -> %d): ", c.bufSize(0), c.bufSize(1))
	}
	var lis *memnet.Listener
	var pn *memnet.PacketNet
	var pc *memnet.PacketConn
	var addr string
	var wildPort int
	udpReal := c.Transport == "realUDP" || c.Transport == "realUDPwild"
	srv.Listener, srv.PacketConn = nil, nil
	switch c.Transport {
	case "memTCP":
		lis = memnet.NewListener(nil, "")
		srv.Listener = lis
	case "memPacket":
		pn = memnet.NewPacketNet(nil)
		pc = pn.Listen("", memnet.UDPAddr(53))
		srv.PacketConn = pc
	case "realTCP":
		l, e := net.Listen("tcp", "127.0.0.1:0")
		if e != nil {
			fmt.Fprintln(os.Stderr, "c12: INFRASTRUCTURE:", e)
			os.Exit(2)
		}
		srv.Listener = l
		addr = l.Addr().String()
	case "realUDP":
		p, e := net.ListenPacket("udp", "127.0.0.1:0")
		if e != nil {
			fmt.Fprintln(os.Stderr, "c12: INFRASTRUCTURE:", e)
			os.Exit(2)
		}
		srv.PacketConn = p
		addr = p.LocalAddr().String()
	case "realUDPwild": // one socket reachable through several local addresses (the usual ":53" setup)
		p, e := net.ListenUDP("udp4", &net.UDPAddr{IP: net.IPv4zero})
		if e != nil {
			fmt.Fprintln(os.Stderr, "c12: INFRASTRUCTURE:", e)
			os.Exit(2)
		}
		srv.PacketConn = p
		wildPort = p.LocalAddr().(*net.UDPAddr).Port
		s.multi = multiAddr()
	default:
		return 0, fmt.Errorf("unknown transport %q", c.Transport)
	}
	s.mu.Lock()
	if srv.Listener != nil {
		s.srvLocal = srv.Listener.Addr().String()
	} else {
		s.srvLocal = srv.PacketConn.LocalAddr().String()
	}
	s.mu.Unlock()
	started := make(chan struct{})
	srv.NotifyStartedFunc = func() { close(started) }
	serveErr := make(chan error, 1)
	go func() { serveErr <- srv.ActivateAndServe() }()
	select {
	case <-started:
	case e := <-serveErr:
		return 0, fmt.Errorf("%sserver did not start: %v", when, e)
	case <-time.After(hangLimit):
		return 0, fmt.Errorf("%sserver did not start", when)
	}
	var lostN atomic.Int32
	var wg sync.WaitGroup
	s.mu.Lock()
	s.conns = nil
	s.mu.Unlock()
	gate := make(chan struct{})
	for cl := 1; cl <= c.Clients; cl++ {
		cl := cl
		wg.Add(1)
		go func() {
			defer wg.Done()
			var conn net.Conn
			var e error
			switch c.Transport {
			case "memTCP":
				conn, e = lis.DialNamed("", "")
			case "memPacket":
				conn = pn.Dial("", memnet.UDPAddr(30000+cl), pc.LocalAddr())
			case "realTCP":
				conn, e = net.DialTimeout("tcp", addr, 5*time.Second)
			case "realUDP":
				conn, e = net.Dial("udp", addr)
			case "realUDPwild":
				var u *net.UDPConn
				u, e = net.ListenUDP("udp4", &net.UDPAddr{IP: net.IPv4zero})
				if e == nil {
					last := byte(1)
					if s.multi {
						last = byte(1 + cl%3) // 127.0.0.1, .2, .3: neighbouring requests use different local addresses
					}
					conn = &wildConn{UDPConn: u, dst: &net.UDPAddr{IP: net.IPv4(127, 0, 0, last), Port: wildPort}, s: s, cl: cl}
				}
			}
			if e != nil {
				s.fail("%sclient %d cannot connect: %v", when, cl, e)
				return
			}
			defer conn.Close()
			s.mu.Lock()
			s.addrs[cl] = conn.LocalAddr().String()
			s.conns = append(s.conns, conn)
			s.mu.Unlock()
			var tee *teeConn
			if cl%2 == 1 {
				conn, tee = newTee(conn) // this client's replies are also read off the wire by the harness
			}
			co := &dns.Conn{Conn: conn, UDPSize: uint16(c.clientBuf())}
			if c.Tsig {
				if c.TsigProv {
					co.TsigProvider = hmacProvider("provider secret")
				} else {
					co.TsigSecret = map[string]string{tsigKeyName: tsigSecret} // replies are verified by ReadMsg
				}
			}
			<-gate
			for q := c.Reqs*ph + 1; q <= c.Reqs*(ph+1); q++ {
				m := s.request(cl, q, pad)
				if s.fillTarget > 0 {
					if f := s.fillRequest(cl, q, s.fillTarget); f != nil {
						m = f
						s.filledReq.Add(1)
					}
				}
				tok := s.token(cl, q)
				tmo := hangLimit
				if udpReal {
					tmo = 2 * time.Second // a real datagram may be dropped by the kernel; that is not a violation
				}
				conn.SetDeadline(time.Now().Add(tmo))
				if c.clientFails(cl, q) {
					bad := s.request(cl+1, q+1, 0)
					if c.Tsig {
						bad.Extra = bad.Extra[:len(bad.Extra)-1] // the TSIG stub goes back on at the end
					}
					bad.Ns = nil
					makeUnencodable(bad, c.failKind(cl, q), cl, q)
					if c.Tsig {
						bad.SetTsig(tsigKeyName, dns.HmacSHA256, 300, time.Now().Unix())
					}
					if e := co.WriteMsg(bad); e == nil {
						s.fail("%sclient %d request %d: Conn.WriteMsg accepted a request that cannot be encoded (%s)", when, cl, q, c.failKind(cl, q))
						return
					}
					s.failedReq.Add(1)
				}
				if s.isAborted() {
					return
				}
				if c.junkBefore(cl, q) {
					packed, _ := m.Copy().Pack()
					if e := s.sendJunk(conn, cl, q, packed); e != nil && !(udpReal && isTimeout(e)) && !s.isAborted() {
						s.fail("%sclient %d request %d: writing the item that precedes it failed: %v", when, cl, q, e)
						return
					}
				}
				if tee != nil {
					tee.got = nil
				}
				if e := co.WriteMsg(m); e != nil {
					if s.isAborted() {
						return
					}
					if udpReal && isTimeout(e) {
						// the machine kept this goroutine off the processor for longer than the time-out
						// between SetDeadline and the write: the request never left, like a lost datagram
						lostN.Add(1)
						return
					}
					s.fail("%sclient %d request %d: write failed: %v", when, cl, q, e)
					return
				}
				rep, e := co.ReadMsg()
				for i := 0; e == nil && udpReal && i < 8; i++ {
					a, b, o, _ := tokens(rep)
					if strings.Contains(a+b+o, s.nonce) {
						break
					}
					s.alien.Add(1) // a datagram of another process reached this client's port
					if tee != nil {
						tee.got = nil
					}
					rep, e = co.ReadMsg()
				}
				if e != nil {
					if s.isAborted() {
						return
					}
					if udpReal && isTimeout(e) {
						// a straggling reply could now arrive during the next read: stop using this socket
						lostN.Add(1)
						return
					}
					s.fail("%sclient %d request %d (token %s): no reply: %v", when, cl, q, tok, e)
					return
				}
				qn, _, opt, _ := tokens(rep)
				ans := ""
				if len(rep.Answer) >= 1 {
					if t, ok := rep.Answer[0].(*dns.TXT); ok && len(t.Txt) == 1 {
						ans = t.Txt[0]
					}
				}
				if rep.Id != m.Id || rep.Rcode != dns.RcodeSuccess || qn != tok || ans != "re:"+tok || opt != "re:"+tok {
					s.fail("%sclient %d request %d (token %s, ID %d, %d octets with %d octets of padding; the server's receive buffer is %d octets) received a reply that is not its own: ID %d rcode %d qname token %q answer %q OPT %q", when, cl, q, tok, m.Id, m.Len(), pad, c.bufSize(ph), rep.Id, rep.Rcode, qn, ans, opt)
					return
				}
				// every name and value of the reply is what this request's handler wrote, as the
				// library decoded it ...
				want := replyFacts(cl, q, tok)
				if d := diffFacts(libFacts(rep), want); d != "" {
					s.fail("%sclient %d request %d (token %s; compress=%v, unencodable reply first: %v): the reply differs from what its handler wrote: %s", when, cl, q, tok, c.Compress, c.handlerFails(cl, q), d)
					return
				}
				// ... and as the harness reads it off the octets that arrived
				if tee != nil {
					raw, e := tee.message(s.datagram())
					var got []string
					if e == nil {
						got, e = wireFacts(raw)
					}
					if e != nil {
						s.fail("%sclient %d request %d (token %s; compress=%v, unencodable reply first: %v): the reply on the wire cannot be read: %v (%s)", when, cl, q, tok, c.Compress, c.handlerFails(cl, q), e, hexHead(raw))
						return
					}
					if s.datagram() && c.fillsReplies() && len(raw) == c.clientBuf() {
						s.filledSeen.Add(1)
					}
					if len(raw) < 2 || binary.BigEndian.Uint16(raw) != m.Id {
						s.fail("%sclient %d request %d (token %s): the reply on the wire carries ID %d, the request %d", when, cl, q, tok, binary.BigEndian.Uint16(raw), m.Id)
						return
					}
					if d := diffFacts(got, want); d != "" {
						s.fail("%sclient %d request %d (token %s; compress=%v, unencodable reply first: %v): the octets that arrived say something else than the handler wrote: %s", when, cl, q, tok, c.Compress, c.handlerFails(cl, q), d)
						return
					}
					s.wireChecked.Add(1)
				}
			}
		}()
	}
	if s.idle {
		// let the read loop run into its idle time-out a few times before anything arrives
		time.Sleep(time.Duration(c.IdlePauses*c.IdleMs+3) * time.Millisecond)
	}
	close(gate)
	done := make(chan struct{})
	go s.watchAbort(done)
	go func() {
		wg.Wait()
		for t0 := time.Now(); s.asyncPending.Load() > 0 && time.Since(t0) < 2*hangLimit; {
			time.Sleep(200 * time.Microsecond)
		}
		close(done)
	}()
	select {
	case <-done:
	case <-time.After(3 * hangLimit):
		return 0, fmt.Errorf("%sclients did not finish within %v", when, 3*hangLimit)
	}
	sd := make(chan error, 1)
	go func() { sd <- srv.Shutdown() }()
	select {
	case <-sd:
	case <-time.After(hangLimit):
		return 0, fmt.Errorf("%sShutdown did not return within %v after the round", when, hangLimit)
	}
	select {
	case <-serveErr:
	case <-time.After(hangLimit):
		return 0, fmt.Errorf("%sserve call did not return within %v", when, hangLimit)
	}
	return int(lostN.Load()), nil
}

// probeRestartPool is the breaker's input of remark 1 (round 7) as a round of this check: a datagram
// server with the default 512-octet buffer serves a burst, is shut down, gets UDPSize 4096 and is
// started again; the second round's requests are about 4000 octets. Whether a stale 512-octet buffer
// is handed out depends on which P's pool slot the reading goroutine looks at, so the round is
// repeated a few times; on the unchanged tree the first attempt practically always shows it.
func probeRestartPool() error {
	for attempt := 0; attempt < 8; attempt++ {
		c := Cross{Transport: "memPacket", Clients: 32, Reqs: 3, SleepUs: []int{0, 200}, UDPSize: 0, Restart: true, UDPSize2: 4096, Big2: true, Salt: uint32(attempt)}
		s := newCrossState(c)
		if _, err := s.run(); err != nil {
			return err
		}
	}
	return nil
}

// probeFailedSignedWrite: a TSIG server whose handler first writes a signed reply that cannot be
// encoded (a 300-octet TXT character-string), sees the error of WriteMsg and then writes the valid
// signed reply. Two clients, one request each, in-memory datagram transport; deterministic (the
// state is the response writer's own). While the defect is present both clients' ReadMsg report
// "bad signature".
func probeFailedSignedWrite() error {
	c := Cross{Transport: "memPacket", Clients: 2, Reqs: 1, SleepUs: []int{0}, Tsig: true, FailMod: 1, FailKinds: []string{"txt300"}}
	s := newCrossState(c)
	_, err := s.run()
	return err
}

func init() {
	pbt.Probe(knownRestartPool, probeRestartPool)
	pbt.Probe(knownFailedSignedWrite, probeFailedSignedWrite)
	pbt.Register(pbt.Sub[Cross]{Name: "crosstalk-mem", Weight: 0.1, Gen: genCross([]string{"memPacket", "memPacket", "memTCP"}), Check: checkCross})
	pbt.Register(pbt.Sub[Cross]{Name: "crosstalk-real", Weight: 0.1, Gen: genCross([]string{"realUDP", "realUDPwild", "realUDPwild", "realTCP"}), Check: checkCross})
}
