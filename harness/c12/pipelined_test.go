package c12

import (
	"bytes"
	"crypto/ed25519"
	"crypto/rand"
	"crypto/tls"
	"crypto/x509"
	"crypto/x509/pkix"
	"encoding/json"
	"fmt"
	"io"
	"math/big"
	"net"
	"os"
	"sort"
	"sync"
	"time"

	"github.com/miekg/dns"
	"pgregory.net/rapid"

	"verif/harness/memnet"
	"verif/harness/pbt"
)

// Pipelined is a round of sub-check (c) on ONE stream connection at a time: the client pipelines
// Sizes[k] queries on connection k, the handler returns at once and hands every query to a
// goroutine (RFC 7766 out-of-order processing); the goroutines of one connection are released
// together and write replies of generated sizes (through the same ResponseWriter) concurrently.
// However the writes are scheduled, the client must read back exactly one intact frame per query,
// each byte-identical to the reply built for its ID.
type Pipelined struct {
	Transport string  // memTCP | memTLS | realTCP
	Conns     [][]int // per connection: reply size of each pipelined query
	API       string  // Write | WriteMsg
	Yield     bool    // in-memory: every Write call on the server end yields afterwards
	Seed      byte
	// Round 10. Tsig: the server has a TSIG secret, every query is signed on its own (RFC 8945 5.2) and
	// every reply is written with WriteMsg and a TSIG stub. The response writer a handler was given is
	// that REQUEST's: TsigStatus() still says, when the reply is written after all queries of the
	// connection have been read, what it said when the handler was entered, and the reply verifies at
	// the client against the MAC of its own query. BadSig (cyclic over the queries of a connection):
	// that query is signed with a key value the server does not hold - its handler must see the
	// failure, early and late, and answers unsigned.
	// Serial: the late repliers of the round answer one after another (a mutex of the harness) instead
	// of all at once - the state a writer carries from one request to the next, without two goroutines
	// ever touching it at the same time.
	Tsig   bool   `json:",omitempty"`
	BadSig []bool `json:",omitempty"`
	Serial bool   `json:",omitempty"`
}

// knownSharedTsigWriter is the id of the finding "on a stream connection every request is served with
// the same response writer, so a handler that answers after ServeDNS has returned finds the TSIG state
// (status, request MAC) of whichever request was read last" (KNOWN_FINDINGS.txt). While it is listed
// and its probe reproduces, the pipelined rounds run without TSIG.
const knownSharedTsigWriter = "tcp-writer-tsig-state-shared-by-requests"

func (c Pipelined) badSig(i int) bool {
	return c.Tsig && len(c.BadSig) > 0 && c.BadSig[i%len(c.BadSig)]
}

const pipeWrongSecret = "d3Jvbmctc2VjcmV0LWZvci10aGUtcGlwZWxpbmU="

var pipelinedSizes = []int{40, 512, 4096, 16383, 16384, 16385, 16386, 17000, 20000, 25000, 33000, 65535}

func genPipelined(t *rapid.T) Pipelined {
	c := Pipelined{
		Transport: rapid.SampledFrom([]string{"memTCP", "memTCP", "memTCP", "memTLS", "memTLS", "realTCP"}).Draw(t, "transport"),
		API:       rapid.SampledFrom([]string{"Write", "WriteMsg"}).Draw(t, "api"),
		Yield:     rapid.IntRange(0, 3).Draw(t, "yield") > 0,
		Seed:      rapid.Byte().Draw(t, "seed"),
	}
	nc := rapid.IntRange(1, 3).Draw(t, "conns")
	for k := 0; k < nc; k++ {
		n := rapid.IntRange(2, 8).Draw(t, "queries")
		var sizes []int
		for i := 0; i < n; i++ {
			s := rapid.SampledFrom(pipelinedSizes).Draw(t, "size")
			if rapid.IntRange(0, 3).Draw(t, "sizeAny") == 0 {
				s = rapid.IntRange(32, 40000).Draw(t, "sizeV")
			}
			sizes = append(sizes, s)
		}
		c.Conns = append(c.Conns, sizes)
	}
	if rapid.IntRange(0, 9).Draw(t, "tsig") >= 6 {
		if pbt.Known(knownSharedTsigWriter) {
			pbt.Excluded(knownSharedTsigWriter)
			return c
		}
		c.Tsig, c.API = true, "WriteMsg"
		c.Serial = rapid.IntRange(0, 2).Draw(t, "serial") == 0
		if rapid.Bool().Draw(t, "someBadlySigned") {
			n := rapid.IntRange(2, 4).Draw(t, "badSigN")
			for i := 0; i < n; i++ {
				c.BadSig = append(c.BadSig, rapid.IntRange(0, 2).Draw(t, "badSig") == 0)
			}
		}
		for _, sizes := range c.Conns {
			for i := range sizes {
				sizes[i] = min(sizes[i], 65000) // room for the TSIG record
			}
		}
	}
	return c
}

var (
	pipeTLSOnce        sync.Once
	pipeTLSs, pipeTLSc *tls.Config
)

func pipeTLS() (*tls.Config, *tls.Config) {
	pipeTLSOnce.Do(func() {
		pub, priv, err := ed25519.GenerateKey(rand.Reader)
		if err != nil {
			panic(err)
		}
		tmpl := &x509.Certificate{SerialNumber: big.NewInt(1), Subject: pkix.Name{CommonName: "c12"},
			NotBefore: time.Now().Add(-time.Hour), NotAfter: time.Now().Add(24 * time.Hour), DNSNames: []string{"c12"}}
		der, err := x509.CreateCertificate(rand.Reader, tmpl, tmpl, pub, priv)
		if err != nil {
			panic(err)
		}
		pipeTLSs = &tls.Config{Certificates: []tls.Certificate{{Certificate: [][]byte{der}, PrivateKey: priv}}}
		pipeTLSc = &tls.Config{InsecureSkipVerify: true}
	})
	return pipeTLSs, pipeTLSc
}

func pipeID(k, i int) uint16 { return uint16(k*100 + i + 1) }

func checkPipelined(c Pipelined) error {
	key, _ := json.Marshal(c)
	big2 := false // some connection gets >= 2 replies above 16 KiB
	for _, sizes := range c.Conns {
		n := 0
		for _, s := range sizes {
			if s > 16384 {
				n++
			}
		}
		big2 = big2 || n >= 2
	}
	cl := []string{"transport=" + c.Transport, "api=" + c.API, fmt.Sprintf("yield=%v", c.Yield)}
	if big2 {
		cl = append(cl, ">=2-replies>16KiB-on-one-conn")
	}
	if c.Tsig {
		cl = append(cl, "tsig")
		if c.Serial {
			cl = append(cl, "tsig,late-replies-one-after-another")
		}
		anyBad := false
		for k := range c.Conns {
			for i := range c.Conns[k] {
				anyBad = anyBad || c.badSig(i)
			}
		}
		if anyBad {
			cl = append(cl, "tsig,some-queries-badly-signed")
		}
		if c.API != "WriteMsg" {
			return fmt.Errorf("malformed case: TSIG rounds reply with WriteMsg")
		}
	}
	for _, sizes := range c.Conns {
		for _, s := range sizes {
			if s < fullOverhead || s > 65535 {
				return fmt.Errorf("malformed case")
			}
		}
	}

	// --- server
	type slot struct {
		mu      sync.Mutex
		arrived int
		release chan struct{}
	}
	slots := make([]*slot, len(c.Conns))
	for k := range slots {
		slots[k] = &slot{release: make(chan struct{})}
	}
	var writers sync.WaitGroup
	var mu, serial sync.Mutex
	var bad []string
	fail := func(format string, a ...any) {
		mu.Lock()
		if len(bad) < 6 {
			bad = append(bad, fmt.Sprintf(format, a...))
		}
		mu.Unlock()
	}
	size := func(id uint16) (k, i, s int, ok bool) {
		k, i = int(id)/100, int(id)%100-1
		if k < 0 || k >= len(c.Conns) || i < 0 || i >= len(c.Conns[k]) {
			return 0, 0, 0, false
		}
		return k, i, c.Conns[k][i], true
	}
	handler := func(w dns.ResponseWriter, req *dns.Msg) {
		k, i, s, ok := size(req.Id)
		if !ok {
			if c.Transport != "realTCP" {
				fail("handler saw a request nobody sent (ID %d)", req.Id)
			}
			return
		}
		sl := slots[k]
		var early error
		if c.Tsig {
			// the verdict on THIS request's signature
			early = w.TsigStatus()
			if c.badSig(i) && early == nil {
				fail("query %d of connection %d was signed with a key value the server does not hold, yet TsigStatus() is nil in its handler", i, k)
			}
			if !c.badSig(i) && (early != nil || req.IsTsig() == nil) {
				fail("query %d of connection %d was signed correctly, yet its handler sees TsigStatus() = %v (TSIG record present: %v)", i, k, early, req.IsTsig() != nil)
			}
		}
		writers.Add(1)
		go func() { // answer out of band, together with the other queries of this connection
			defer writers.Done()
			select {
			case <-sl.release:
			case <-time.After(hangLimit):
				return
			}
			if c.Serial {
				serial.Lock()
				defer serial.Unlock()
			}
			var err error
			if c.Tsig {
				// every query of the connection has been read by now; the writer is still this request's
				if late := w.TsigStatus(); (late == nil) != (early == nil) {
					fail("response writer of query %d of connection %d: TsigStatus() was %v when the handler was entered and is %v when the reply is written (badly signed queries of the connection, cyclic: %v)", i, k, early, late, c.BadSig)
				}
				m := libMsg(req.Id, s, c.Seed+byte(i), true)
				if !c.badSig(i) {
					m.SetTsig(tsigKeyName, dns.HmacSHA256, 300, time.Now().Unix())
				}
				err = w.WriteMsg(m)
			} else if c.API == "WriteMsg" {
				err = w.WriteMsg(libMsg(req.Id, s, c.Seed+byte(i), true))
			} else {
				_, err = w.Write(buildMsg(req.Id, s, c.Seed+byte(i), true))
			}
			if err != nil {
				fail("reply to query %d of connection %d could not be written: %v", i, k, err)
			}
		}()
		sl.mu.Lock()
		sl.arrived++
		if sl.arrived == len(c.Conns[k]) {
			close(sl.release)
		}
		sl.mu.Unlock()
	}
	srv := &dns.Server{Handler: dns.HandlerFunc(handler), ReadTimeout: time.Minute, IdleTimeout: func() time.Duration { return time.Minute }}
	if c.Tsig {
		srv.TsigSecret = map[string]string{tsigKeyName: tsigSecret}
	}
	var lis *memnet.Listener
	var addr string
	switch c.Transport {
	case "memTCP":
		lis = memnet.NewListener(nil, "")
		srv.Listener = lis
	case "memTLS":
		lis = memnet.NewListener(nil, "")
		sc, _ := pipeTLS()
		srv.Listener = tls.NewListener(lis, sc)
	case "realTCP":
		l, e := net.Listen("tcp", "127.0.0.1:0")
		if e != nil {
			fmt.Fprintln(os.Stderr, "c12: INFRASTRUCTURE:", e)
			os.Exit(2)
		}
		srv.Listener = l
		addr = l.Addr().String()
	default:
		return fmt.Errorf("unknown transport %q", c.Transport)
	}
	started := make(chan struct{})
	srv.NotifyStartedFunc = func() { close(started) }
	serveErr := make(chan error, 1)
	go func() { serveErr <- srv.ActivateAndServe() }()
	select {
	case <-started:
	case <-time.After(hangLimit):
		return fmt.Errorf("server did not start")
	}

	// --- clients: one goroutine per connection
	writeCalls := make([][]int, len(c.Conns))
	var cwg sync.WaitGroup
	for k := range c.Conns {
		k := k
		cwg.Add(1)
		go func() {
			defer cwg.Done()
			var conn net.Conn
			switch c.Transport {
			case "realTCP":
				cc, e := net.DialTimeout("tcp", addr, 5*time.Second)
				if e != nil {
					fail("connection %d: %v", k, e)
					return
				}
				conn = cc
			default:
				mc, e := lis.DialNamed("", "")
				if e != nil {
					fail("connection %d: %v", k, e)
					return
				}
				mc.Peer().SetPlan(memnet.StreamPlan{Coalesce: true, YieldAfterWrite: c.Yield, WriteCalls: &writeCalls[k]})
				conn = mc
				if c.Transport == "memTLS" {
					_, cfg := pipeTLS()
					conn = tls.Client(mc, cfg)
				}
			}
			defer conn.Close()
			conn.SetDeadline(time.Now().Add(hangLimit))
			total := 0
			var stream []byte
			macs := make([]string, len(c.Conns[k]))
			for i, s := range c.Conns[k] {
				q := buildMsg(pipeID(k, i), 19, c.Seed, false)
				if c.Tsig {
					// signed on its own: the MAC of an earlier query of the connection is not part of it
					m := new(dns.Msg)
					m.Id = pipeID(k, i)
					m.RecursionDesired = true
					m.Question = []dns.Question{{Name: "t.", Qtype: dns.TypeNULL, Qclass: dns.ClassINET}}
					m.SetTsig(tsigKeyName, dns.HmacSHA256, 300, time.Now().Unix())
					secret := tsigSecret
					if c.badSig(i) {
						secret = pipeWrongSecret
					}
					var e error
					q, macs[i], e = dns.TsigGenerate(m, secret, "", false)
					if e != nil {
						fail("connection %d: query %d cannot be signed: %v", k, i, e)
						return
					}
				}
				stream = append(stream, frame(q)...)
				total += 2 + s
			}
			if _, e := conn.Write(stream); e != nil {
				fail("connection %d: writing the pipelined queries failed: %v", k, e)
				return
			}
			if c.Tsig {
				// the replies are longer than what the handler handed over by their TSIG records: frame by frame
				seen := map[int]bool{}
				for range c.Conns[k] {
					var lb [2]byte
					if _, e := io.ReadFull(conn, lb[:]); e != nil {
						fail("connection %d: %d of %d replies arrived, then: %v", k, len(seen), len(c.Conns[k]), e)
						return
					}
					m := make([]byte, int(lb[0])<<8|int(lb[1]))
					if _, e := io.ReadFull(conn, m); e != nil || len(m) < 12 {
						fail("connection %d: a reply frame of %d octets could not be read: %v", k, len(m), e)
						return
					}
					id := uint16(m[0])<<8 | uint16(m[1])
					kk, i, s, ok := size(id)
					if !ok || kk != k || seen[i] {
						fail("connection %d: received a frame with ID %d that is not an outstanding query of this connection", k, id)
						return
					}
					seen[i] = true
					rep := new(dns.Msg)
					if e := rep.Unpack(m); e != nil {
						fail("connection %d: reply to query %d does not decode: %v", k, i, e)
						return
					}
					if e := sameAsBuilt(rep, id, s, c.Seed+byte(i)); e != nil {
						fail("connection %d: reply to query %d differs from what its handler wrote: %v", k, i, e)
						return
					}
					if c.badSig(i) {
						if rep.IsTsig() != nil {
							fail("connection %d: the handler of the badly signed query %d wrote an unsigned reply, a signed one arrived", k, i)
						}
						continue
					}
					if rep.IsTsig() == nil {
						fail("connection %d: reply to query %d arrived without the TSIG record its handler asked for", k, i)
						return
					}
					if e := dns.TsigVerify(m, tsigSecret, macs[i], false); e != nil {
						other := ""
						for j := range macs {
							if j != i && dns.TsigVerify(m, tsigSecret, macs[j], false) == nil {
								other = fmt.Sprintf("; it verifies against the MAC of query %d of the same connection", j)
							}
						}
						fail("connection %d: the signed reply to query %d (of %d pipelined queries, answered after all had been read) does not verify against the MAC of its own query: %v%s", k, i, len(c.Conns[k]), e, other)
						return
					}
				}
				return
			}
			got := make([]byte, total)
			n, e := io.ReadFull(conn, got)
			if e != nil {
				fail("connection %d: only %d of the %d reply octets arrived: %v", k, n, total, e)
				return
			}
			msgs, rest := deframe(got)
			if len(rest) != 0 || len(msgs) != len(c.Conns[k]) {
				fail("connection %d: the %d reply octets do not split into %d length-prefixed messages (%d frames, %d octets left over; frame sizes %v, reply sizes %v)", k, total, len(c.Conns[k]), len(msgs), len(rest), frameSizes(msgs), c.Conns[k])
				return
			}
			seen := map[int]bool{}
			for _, m := range msgs {
				if len(m) < 2 {
					fail("connection %d: a %d-octet frame", k, len(m))
					return
				}
				id := uint16(m[0])<<8 | uint16(m[1])
				kk, i, s, ok := size(id)
				if !ok || kk != k || seen[i] {
					fail("connection %d: received a frame with ID %d that is not an outstanding query of this connection", k, id)
					return
				}
				seen[i] = true
				want := buildMsg(id, s, c.Seed+byte(i), true)
				if !bytes.Equal(m, want) {
					fail("connection %d: reply to query %d: frame of %d octets differs from the %d-octet reply its writer handed over (first difference at octet %d)", k, i, len(m), len(want), firstDiff(m, want))
					return
				}
			}
		}()
	}
	done := make(chan struct{})
	go func() { cwg.Wait(); writers.Wait(); close(done) }()
	select {
	case <-done:
	case <-time.After(3 * hangLimit):
		return fmt.Errorf("pipelined round did not finish within %v", 3*hangLimit)
	}
	sd := make(chan error, 1)
	go func() { sd <- srv.Shutdown() }()
	select {
	case <-sd:
	case <-time.After(hangLimit):
		return fmt.Errorf("Shutdown did not return within %v after the round", hangLimit)
	}
	select {
	case <-serveErr:
	case <-time.After(hangLimit):
		return fmt.Errorf("serve call did not return within %v", hangLimit)
	}
	// observation only (not asserted): does every reply reach an in-memory conn as one Write call?
	if c.Transport == "memTCP" && !c.Tsig {
		single := true
		for k, calls := range writeCalls {
			want := append([]int(nil), c.Conns[k]...)
			for i := range want {
				want[i] += 2
			}
			got := append([]int(nil), calls...)
			sort.Ints(want)
			sort.Ints(got)
			if fmt.Sprint(want) != fmt.Sprint(got) {
				single = false
			}
		}
		if single {
			cl = append(cl, "observed:one-Write-call-per-reply")
		} else {
			cl = append(cl, "observed:reply-split-over-several-Write-calls")
		}
	}
	pbt.Note(key, true, cl...)
	pbt.Sample(c.Transport, c)
	mu.Lock()
	defer mu.Unlock()
	if len(bad) > 0 {
		return fmt.Errorf("%s", joinLines(bad))
	}
	return nil
}

func frameSizes(msgs [][]byte) []int {
	out := make([]int, len(msgs))
	for i, m := range msgs {
		out[i] = len(m)
	}
	return out
}

func joinLines(s []string) string {
	out := ""
	for i, x := range s {
		if i > 0 {
			out += "\n"
		}
		out += x
	}
	return out
}

// probeSharedTsigWriter: one in-memory stream connection, two correctly signed queries pipelined, both
// handlers answer (signed) once both queries have been read, one after the other (no two goroutines use
// the writer at the same time, so the race detector has nothing to say about the probe). While the defect is present the reply
// that is written first is signed over the MAC of the query that was read last and the second over
// the MAC of the first reply, so at least one of them does not verify against its own query.
func probeSharedTsigWriter() error {
	return checkPipelined(Pipelined{Transport: "memTCP", Conns: [][]int{{40, 512}}, API: "WriteMsg", Tsig: true, Serial: true, Seed: 1})
}

func init() {
	pbt.Probe(knownSharedTsigWriter, probeSharedTsigWriter)
	pbt.Register(pbt.Sub[Pipelined]{Name: "crosstalk-pipelined", Weight: 0.12, Gen: genPipelined, Check: checkPipelined})
}
