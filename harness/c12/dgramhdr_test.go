package c12

import (
	"bytes"
	"encoding/json"
	"fmt"
	"time"

	"github.com/miekg/dns"
	"pgregory.net/rapid"

	"verif/harness/memnet"
	"verif/harness/pbt"
)

// HdrCase drives Conn.ReadMsgHeader on a datagram conn the way its documentation describes it:
// "Returns message as a byte slice to be parsed with Msg.Unpack later on". Several datagrams are
// read one after the other, the returned slices are KEPT, some are scribbled over by the caller
// before the next read, and only afterwards every slice is compared with the datagram it was
// returned for. Each exchange's octets must stay intact: a later read must not change an earlier
// result, and what the caller does to a returned slice must not reach a later result.
type HdrCase struct {
	ConnUDPSize int    // Conn.UDPSize (receive buffer = max(512, ConnUDPSize))
	Sizes       []int  // datagram sizes, in arrival order (may exceed the buffer: the datagram is cut as by recvfrom)
	Scribble    []bool // overwrite the slice returned for datagram i right after checking it
	WithHdr     bool   // pass a *Header to ReadMsgHeader
}

func genHdrCase(t *rapid.T) HdrCase {
	c := HdrCase{ConnUDPSize: rapid.SampledFrom([]int{0, 0, 512, 1232, 4096}).Draw(t, "connUDPSize"), WithHdr: rapid.Bool().Draw(t, "withHdr")}
	buf := max(512, c.ConnUDPSize)
	n := rapid.IntRange(2, 6).Draw(t, "datagrams")
	for i := 0; i < n; i++ {
		s := rapid.SampledFrom([]int{12, 13, 40, 511, 512, buf - 1, buf, buf + 1}).Draw(t, "size")
		if rapid.Bool().Draw(t, "sizeAny") {
			s = rapid.IntRange(12, buf+20).Draw(t, "sizeV")
		}
		c.Sizes = append(c.Sizes, s)
		c.Scribble = append(c.Scribble, rapid.IntRange(0, 2).Draw(t, "scribble") == 0)
	}
	return c
}

func checkHdrCase(c HdrCase) error {
	key, _ := json.Marshal(c)
	cl := []string{fmt.Sprintf("datagrams=%d", len(c.Sizes)), fmt.Sprintf("buffer=%d", max(512, c.ConnUDPSize)), fmt.Sprintf("withHdr=%v", c.WithHdr)}
	for _, s := range c.Sizes {
		if s == max(512, c.ConnUDPSize) {
			cl = append(cl, "datagram-of-exactly-the-buffer-size", fmt.Sprintf("datagram-of-exactly-the-buffer-size=%d", s))
			break
		}
	}
	pbt.Note(key, true, cl...)
	pbt.Sample("dgram-readmsgheader", c)
	if len(c.Sizes) != len(c.Scribble) {
		return fmt.Errorf("malformed case")
	}
	buf := max(512, c.ConnUDPSize)
	pn := memnet.NewPacketNet(nil)
	srv := pn.Listen("", memnet.UDPAddr(53))
	cc := pn.Dial("", memnet.UDPAddr(40001), srv.LocalAddr())
	defer cc.Close()
	var sent [][]byte
	for i, s := range c.Sizes {
		b := buildMsg(msgID(i), s, byte(17*i+3), true)
		if len(b) > buf {
			b = b[:buf] // what a datagram socket hands over when the buffer is smaller
		}
		sent = append(sent, b)
		cc.Inject(buildMsg(msgID(i), s, byte(17*i+3), true), srv.LocalAddr())
	}
	co := &dns.Conn{Conn: cc, UDPSize: uint16(c.ConnUDPSize)}
	cc.SetReadDeadline(time.Now().Add(hangLimit))
	kept := make([][]byte, 0, len(sent))
	scribbled := make([]bool, len(sent))
	verify := func(when string) error {
		for j, p := range kept {
			if scribbled[j] {
				continue
			}
			if !bytes.Equal(p, sent[j]) {
				return fmt.Errorf("%s: the slice ReadMsgHeader returned for datagram %d (%d octets, ID %d) now reads %s, the datagram was %s (first difference at octet %d): an earlier result changed under the caller", when, j, len(sent[j]), msgID(j), hexHead(p), hexHead(sent[j]), firstDiff(p, sent[j]))
			}
		}
		return nil
	}
	for i := range sent {
		var h dns.Header
		var p []byte
		var err error
		if c.WithHdr {
			p, err = co.ReadMsgHeader(&h)
		} else {
			p, err = co.ReadMsgHeader(nil)
		}
		if err != nil {
			return fmt.Errorf("ReadMsgHeader of datagram %d (%d octets) failed: %v", i, len(sent[i]), err)
		}
		if c.WithHdr && h.Id != msgID(i) {
			return fmt.Errorf("ReadMsgHeader of datagram %d filled in header ID %d, want %d", i, h.Id, msgID(i))
		}
		kept = append(kept, p)
		if err := verify(fmt.Sprintf("after reading datagram %d", i)); err != nil {
			return err
		}
		if c.Scribble[i] {
			for k := range p {
				p[k] = 0xAA
			}
			scribbled[i] = true
		}
	}
	return verify("after the last read")
}

func init() {
	pbt.Register(pbt.Sub[HdrCase]{Name: "dgram-readmsgheader", Weight: 0.6, Gen: genHdrCase, Check: checkHdrCase})
}
