package c12

import (
	"bytes"
	"encoding/json"
	"fmt"
	"io"
	"net"
	"sync"
	"time"

	"github.com/miekg/dns"
	"pgregory.net/rapid"

	"verif/harness/memnet"
	"verif/harness/pbt"
)

// Framing is one case of sub-check (a): messages of generated sizes pushed through a stream whose
// writes and reads are segmented by a generated plan, optionally with a fault at octet k.
type Framing struct {
	Dir string // client-read | client-write | server
	API string // client-read: ReadMsg | ReadMsgHeader | ReadMsgHeaderHdr | Read | ReadShortBuf
	//             client-write: Write | WriteMsg         server: Write | WriteMsg (what the handler uses to reply)
	Sizes []int // message sizes in octets (client-write and replies may exceed 65535)
	//                   round 10, client-read and server: a size of 0..11 is a frame that is too short to be a DNS
	//                   message (not even a header); its length prefix delimits it all the same, and the frame
	//                   after it begins where that length says
	Seeds      []byte // filler seed per message
	ReplySizes []int  // server: size of the reply to the i-th request (cyclic)
	OneWrite   bool   // the writing side hands the whole stream to one Write call (else one call per message)
	Chunks     []int  // segmentation of the octets written towards the code under test (memnet.StreamPlan.WriteChunks)
	ReadSizes  []int  // bounds of successive reads of the code under test (StreamPlan.ReadSizes)
	Coalesce   bool
	OutChunks  []int  // server: segmentation of what the server writes
	Fault      string // "" | eof | err | timeout   (write side: err | timeout)
	FaultSide  string // read | write  (server only; client-read is read, client-write is write)
	FaultAt    int
	BufLen     int // client-read, API Read: length of the caller's buffer (0 = 65535); every buffer >= the message must get it
	// APIs (client-read, round 9): the reading call per message, used cyclically (message i is taken
	// with APIs[i mod len], the read after the last message with the next one); empty = API for all.
	// One Conn, one stream, the calls mixed: ReadMsg / ReadMsgHeader take the first message and
	// Conn.Read - the net.Conn-style read into the caller's buffer - a later one, and the reverse.
	// Each call must begin where the previous one ended, whichever call that was.
	APIs []string `json:",omitempty"`
	// GoOn (client-read, round 9): after Conn.Read has refused a message for lack of room in the
	// caller's buffer, the caller goes on reading from the same Conn with buffers that are large enough.
	// Whatever the Conn does with the refused message (skip it, keep it for the next call, refuse
	// everything from now on), a read that SUCCEEDS must return a message the peer sent.
	GoOn bool `json:",omitempty"`
	// IDBase is added to the ID of every message (client-read); drawn so that the first two octets of
	// a message read as a plausible length.
	IDBase uint16 `json:",omitempty"`
}

// knownShortBufDesync is the id of the finding "Conn.Read that refuses a message with
// io.ErrShortBuffer has consumed the two-octet length and leaves the body in the stream, so the next
// read takes octets from the middle of that message for a length and returns them as a message with
// a nil error" (KNOWN_FINDINGS.txt). While it is listed and its probe reproduces, cases end at the
// refusal (GoOn is cleared) as they did before round 9.
const knownShortBufDesync = "read-shortbuffer-desyncs-stream"

func (c *Framing) id(i int) uint16 { return msgID(i) + c.IDBase }

var readAPIs = []string{"ReadMsg", "ReadMsgHeader", "ReadMsgHeaderHdr", "Read"}

// apiOf is the reading call used for message i (i = len(Sizes): the read after the last message).
func (c *Framing) apiOf(i int) string {
	if len(c.APIs) > 0 {
		return c.APIs[i%len(c.APIs)]
	}
	return c.API
}

// effAPI is apiOf, except that "a buffer one octet too small" makes no sense for a frame of 0..11
// octets, which is not a message: such a frame is met with a plain Read.
func (c *Framing) effAPI(i int) string {
	api := c.apiOf(i)
	if api == "ReadShortBuf" && i < len(c.Sizes) && c.Sizes[i] < 12 {
		return "Read"
	}
	return api
}

// frameBody is the body of frame i: a DNS message of Sizes[i] octets, or - below 12 octets - octets
// that are no message (see runtBody).
func frameBody(id uint16, size int, seed byte, response bool) []byte {
	if size < 12 {
		return runtBody(id, size, seed)
	}
	return buildMsg(id, size, seed, response)
}

// runtBody returns the size (0..11) octets of a frame that is too short to hold a DNS header. By seed:
// the beginning of a genuine message with this ID, filler, zeros, or big-endian 16-bit numbers that
// read as plausible lengths (14, 12, 13, 2, 1, 0) - what a reader that has lost the frame boundary
// would take for the next length prefix.
func runtBody(id uint16, size int, seed byte) []byte {
	var b []byte
	switch seed % 4 {
	case 0:
		b = buildMsg(id, 12, seed, true)
	case 1:
		b = filler(12, seed)
	case 2:
		b = make([]byte, 12)
	default:
		b = []byte{0, 14, 0, 12, 0, 13, 0, 2, 0, 1, 0, 0}
	}
	return b[:size]
}

// coalesced reports whether the segmentation lets one read of the transport deliver the end of one
// frame together with the beginning of the next (two frames in one segment, or a reader that is
// handed octets of several segments at once).
func (c *Framing) coalesced() bool {
	if len(c.Sizes) < 2 {
		return false
	}
	if c.Coalesce {
		return true
	}
	if !c.OneWrite {
		return false // a segment never spans two Write calls
	}
	// one Write call: walk the chunk plan over the stream and see whether a segment spans a frame boundary
	total := c.total()
	bound := map[int]bool{}
	pos := 0
	for _, s := range c.Sizes[:len(c.Sizes)-1] {
		pos += 2 + s
		bound[pos] = true
	}
	if len(c.Chunks) == 0 {
		return true
	}
	at := 0
	for i := 0; at < total; i++ {
		k := c.Chunks[i%len(c.Chunks)]
		if k <= 0 || at+k > total {
			k = total - at
		}
		for b := range bound {
			if b > at && b < at+k {
				return true
			}
		}
		at += k
	}
	return false
}

var boundarySizes = []int{12, 13, 14, 18, 19, 31, 32, 33, 254, 255, 256, 257, 511, 512, 513, 4095, 4096, 4097, 16383, 16384, 16385, 32767, 32768, 65533, 65534, 65535}

func genSize(t *rapid.T, label string) int {
	switch rapid.IntRange(0, 9).Draw(t, label+"Kind") {
	case 0, 1, 2, 3, 4:
		return rapid.SampledFrom(boundarySizes).Draw(t, label)
	case 5, 6, 7:
		return rapid.IntRange(12, 700).Draw(t, label)
	default:
		return rapid.IntRange(12, 65535).Draw(t, label)
	}
}

func genChunks(t *rapid.T, label string) []int {
	switch rapid.IntRange(0, 7).Draw(t, label+"Kind") {
	case 0:
		return nil // one segment per Write
	case 1:
		return []int{1} // every octet its own segment
	case 2:
		return []int{1, 0} // the length prefix is split: 1 octet, then the rest
	case 3:
		return []int{2, 0} // prefix alone, then the body
	case 4:
		return []int{3, 0} // prefix + first body octet, then the rest
	case 5:
		return []int{rapid.IntRange(1, 20).Draw(t, label+"A"), rapid.IntRange(1, 2000).Draw(t, label+"B")}
	default:
		n := rapid.IntRange(1, 6).Draw(t, label+"N")
		out := make([]int, n)
		for i := range out {
			out[i] = rapid.SampledFrom([]int{1, 1, 2, 3, 5, 11, 12, 13, 100, 511, 512, 1000, 30000, 0}).Draw(t, label+"C")
		}
		return out
	}
}

func genReadSizes(t *rapid.T) []int {
	switch rapid.IntRange(0, 5).Draw(t, "readKind") {
	case 0, 1:
		return nil
	case 2:
		return []int{1}
	case 3:
		return []int{1, 0}
	default:
		n := rapid.IntRange(1, 4).Draw(t, "readN")
		out := make([]int, n)
		for i := range out {
			out[i] = rapid.SampledFrom([]int{1, 2, 3, 7, 12, 100, 4096, 0}).Draw(t, "readC")
		}
		return out
	}
}

func (c *Framing) total() int {
	n := 0
	for _, s := range c.Sizes {
		n += 2 + s
	}
	return n
}

func indexOf(l []string, v string) int {
	for i, x := range l {
		if x == v {
			return i
		}
	}
	return 0
}

func genFramingDir(dir string) func(t *rapid.T) Framing {
	return func(t *rapid.T) Framing {
		c := Framing{Dir: dir}
		counts := []int{1, 1, 2, 3, 4}
		if dir == "client-read" {
			counts = []int{1, 2, 2, 3, 4} // what a call leaves for the NEXT call needs a next message
		}
		n := rapid.SampledFrom(counts).Draw(t, "msgs")
		big := 0
		for i := 0; i < n; i++ {
			s := genSize(t, "size")
			if s > 20000 {
				big++
				if big > 2 { // keep the cost of a case bounded
					s = rapid.IntRange(12, 700).Draw(t, "sizeSmall")
				}
			}
			c.Sizes = append(c.Sizes, s)
			c.Seeds = append(c.Seeds, rapid.Byte().Draw(t, "seed"))
		}
		if (dir == "client-read" || dir == "server") && rapid.IntRange(0, 9).Draw(t, "runts") >= 7 {
			// frames of 0..11 octets among the messages: most of them FOLLOWED by a message, since what such
			// a frame leaves for the next read is the point
			if len(c.Sizes) == 1 || rapid.IntRange(0, 3).Draw(t, "runtExtra") == 0 {
				c.Sizes = append(c.Sizes, rapid.IntRange(12, 700).Draw(t, "sizeAfterRunt"))
				c.Seeds = append(c.Seeds, rapid.Byte().Draw(t, "seed"))
			}
			k := rapid.IntRange(1, 2).Draw(t, "runtN")
			for j := 0; j < k; j++ {
				at := rapid.IntRange(0, len(c.Sizes)-1).Draw(t, "runtAt")
				if at == len(c.Sizes)-1 && rapid.IntRange(0, 3).Draw(t, "runtLast") > 0 {
					at = rapid.IntRange(0, len(c.Sizes)-2).Draw(t, "runtAtInner")
				}
				c.Sizes[at] = rapid.SampledFrom([]int{0, 1, 2, 3, 4, 5, 6, 7, 8, 9, 10, 11, 11, 2, 1}).Draw(t, "runtSize")
			}
		}
		c.OneWrite = rapid.Bool().Draw(t, "oneWrite")
		c.Chunks = genChunks(t, "chunk")
		c.ReadSizes = genReadSizes(t)
		c.Coalesce = rapid.Bool().Draw(t, "coalesce")
		switch dir {
		case "client-read":
			c.API = rapid.SampledFrom([]string{"ReadMsg", "ReadMsg", "ReadMsgHeader", "ReadMsgHeaderHdr", "Read", "Read", "ReadShortBuf"}).Draw(t, "api")
			if len(c.Sizes) >= 2 && rapid.IntRange(0, 9).Draw(t, "mixedAPIs") < 5 {
				// the calls mixed on one Conn: every message with a call of its own
				c.API = "mixed"
				k := rapid.IntRange(2, len(c.Sizes)+1).Draw(t, "apiN")
				for len(c.APIs) < k {
					c.APIs = append(c.APIs, rapid.SampledFrom(readAPIs).Draw(t, "apiOfMsg"))
				}
				if c.APIs[0] == c.APIs[1] && rapid.Bool().Draw(t, "apiDiffer") {
					c.APIs[1] = readAPIs[(indexOf(readAPIs, c.APIs[0])+1+rapid.IntRange(0, 2).Draw(t, "apiShift"))%len(readAPIs)]
				}
			}
			if (c.API == "Read" && rapid.IntRange(0, 2).Draw(t, "bufKind") > 0) || (c.API == "mixed" && rapid.IntRange(0, 3).Draw(t, "bufKindMixed") == 0) {
				// buffer lengths around the largest message and around / beyond the 16-bit range
				big := 0
				for _, s := range c.Sizes {
					big = max(big, s)
				}
				c.BufLen = rapid.SampledFrom([]int{big, big + 1, 65534, 65535, 65536, 65537, 65548, 70000, 131071, 131072, 131072 + 12, 1 << 20, 512, 512, big - 1}).Draw(t, "bufLen")
			}
			short := c.API == "ReadShortBuf"
			for _, s := range c.Sizes {
				short = short || (c.BufLen > 0 && c.BufLen < s)
			}
			if short && rapid.IntRange(0, 3).Draw(t, "goOn") > 0 {
				if pbt.Known(knownShortBufDesync) {
					pbt.Excluded(knownShortBufDesync)
				} else {
					c.GoOn = true
				}
			}
			if rapid.IntRange(0, 3).Draw(t, "idBase") == 0 {
				// the ID of the first message reads as a small length
				c.IDBase = rapid.SampledFrom([]uint16{0, 1, 2, 12, 0x0019, 0x00ff, 0x0100, 0x0200}).Draw(t, "firstID") - msgID(0)
			}
			if rapid.IntRange(0, 9).Draw(t, "faulty") < 4 {
				c.Fault = rapid.SampledFrom([]string{"eof", "eof", "err", "timeout"}).Draw(t, "fault")
				c.FaultAt = genFaultAt(t, c.Sizes)
			}
		case "client-write":
			c.API = rapid.SampledFrom([]string{"Write", "WriteMsg"}).Draw(t, "api")
			// oversize messages: must be refused with nothing written
			for i := range c.Sizes {
				if rapid.IntRange(0, 5).Draw(t, "over") == 0 {
					c.Sizes[i] = rapid.SampledFrom([]int{65536, 65537, 65568, 70000, 131072}).Draw(t, "oversize")
				}
			}
			if rapid.IntRange(0, 9).Draw(t, "faulty") < 3 {
				c.Fault = rapid.SampledFrom([]string{"err", "timeout"}).Draw(t, "fault")
				c.FaultAt = genFaultAt(t, c.Sizes)
			}
		case "server":
			c.API = rapid.SampledFrom([]string{"Write", "WriteMsg"}).Draw(t, "api")
			k := rapid.IntRange(1, 3).Draw(t, "replies")
			for i := 0; i < k; i++ {
				s := genSize(t, "replySize")
				if rapid.IntRange(0, 7).Draw(t, "replyOver") == 0 {
					s = rapid.SampledFrom([]int{65536, 65537, 70000}).Draw(t, "replyOversize")
				} else if c.API == "WriteMsg" && rapid.IntRange(0, 9).Draw(t, "replyUnsignable") == 0 {
					s = unsignable
				}
				c.ReplySizes = append(c.ReplySizes, s)
			}
			c.OutChunks = genChunks(t, "outChunk")
			if rapid.IntRange(0, 9).Draw(t, "faulty") < 4 {
				c.FaultSide = rapid.SampledFrom([]string{"read", "read", "write"}).Draw(t, "faultSide")
				if c.FaultSide == "read" {
					c.Fault = rapid.SampledFrom([]string{"eof", "eof", "err", "timeout"}).Draw(t, "fault")
					c.FaultAt = genFaultAt(t, c.Sizes)
				} else {
					c.Fault = rapid.SampledFrom([]string{"err", "timeout"}).Draw(t, "fault")
					c.FaultAt = genFaultAt(t, c.ReplySizes)
				}
			}
		}
		return c
	}
}

// genFaultAt picks an octet offset in the stream of frames, biased to the frame boundaries, the
// two prefix octets and the first/last body octets.
func genFaultAt(t *rapid.T, sizes []int) int {
	total := 0
	var marks []int
	for _, s := range sizes {
		if s > 65535 || s < 0 {
			continue
		}
		marks = append(marks, total, total+1, total+2, total+3, total+2+s-1, total+2+s)
		total += 2 + s
	}
	if total == 0 {
		return 0
	}
	if rapid.Bool().Draw(t, "faultMark") {
		return rapid.SampledFrom(marks).Draw(t, "faultAtMark")
	}
	return rapid.IntRange(0, total).Draw(t, "faultAt")
}

func (c *Framing) classes() (cl []string, nontrivial bool) {
	cl = []string{"dir=" + c.Dir, "api=" + c.API, fmt.Sprintf("msgs=%d", len(c.Sizes))}
	if c.Fault != "" {
		cl = append(cl, "fault="+c.Fault)
		nontrivial = true
	} else {
		cl = append(cl, "no-fault")
	}
	split := false
	for _, k := range c.Chunks {
		for _, s := range c.Sizes {
			if k > 0 && k < 2+s {
				split = true
			}
		}
	}
	for _, k := range c.ReadSizes {
		if k > 0 && k < 12 {
			split = true
		}
	}
	for _, k := range c.OutChunks {
		if k > 0 && k < 14 {
			split = true
		}
	}
	if split {
		cl = append(cl, "split")
		nontrivial = true
	}
	for _, k := range c.Chunks {
		if k == 1 {
			cl = append(cl, "prefix-split")
			break
		}
	}
	for _, s := range append(append([]int(nil), c.Sizes...), c.ReplySizes...) {
		switch {
		case s == unsignable:
			cl = append(cl, "reply-unsignable-tsig")
			nontrivial = true
		case s > 65535:
			cl = append(cl, "size>65535")
			nontrivial = true
		case s >= 65533:
			cl = append(cl, "size=65533..65535")
		case s >= 0 && s < 12:
			cl = append(cl, "size<12")
		case s <= 14:
			cl = append(cl, "size=12..14")
		case s >= 254 && s <= 257:
			cl = append(cl, "size=254..257")
		case s >= 511 && s <= 513:
			cl = append(cl, "size=511..513")
		}
	}
	if len(c.Sizes) > 1 {
		cl = append(cl, "back-to-back")
	}
	for i, s := range c.Sizes {
		if s < 0 || s >= 12 || (c.Dir != "client-read" && c.Dir != "server") {
			continue
		}
		nontrivial = true
		if s == 0 {
			cl = append(cl, "frame-of-0-octets")
		}
		if i+1 < len(c.Sizes) {
			cl = append(cl, "short-frame-followed-by-another-frame")
			if c.Sizes[i+1] >= 12 {
				cl = append(cl, "short-frame-followed-by-a-message")
			}
			if c.Dir == "client-read" {
				cl = append(cl, "short-frame-met-by-"+c.effAPI(i)+",next-by-"+c.effAPI(i+1))
			}
		}
		if i > 0 && c.Sizes[i-1] >= 12 {
			cl = append(cl, "short-frame-after-a-message")
		}
	}
	if c.Dir == "client-read" && c.coalesced() {
		cl = append(cl, "frames-coalesced-in-one-read")
	}
	if c.GoOn {
		cl = append(cl, "reads-go-on-after-a-short-buffer-refusal")
		nontrivial = true
	}
	if len(c.APIs) > 0 {
		cl = append(cl, "mixed-calls-on-one-Conn")
		for i := 1; i < len(c.Sizes); i++ {
			a, b := c.apiOf(i-1), c.apiOf(i)
			if a == b {
				continue
			}
			nontrivial = true
			cl = append(cl, b+"-after-"+a)
			if c.coalesced() {
				cl = append(cl, b+"-after-"+a+",coalesced")
			}
		}
	}
	if c.BufLen >= 65536 {
		cl = append(cl, "read-buffer>=65536")
	} else if c.BufLen > 0 {
		cl = append(cl, "read-buffer<65536")
	}
	return cl, nontrivial
}

func checkFraming(c Framing) error {
	key, _ := json.Marshal(c)
	cl, nt := c.classes()
	pbt.Note(key, nt, cl...)
	if nt {
		pbt.Sample(c.Dir, c)
	}
	if len(c.Sizes) != len(c.Seeds) {
		return fmt.Errorf("malformed case")
	}
	switch c.Dir {
	case "client-read":
		return checkClientRead(c)
	case "client-write":
		return checkClientWrite(c)
	case "server":
		return checkServerFraming(c)
	}
	return fmt.Errorf("unknown Dir %q", c.Dir)
}

func msgID(i int) uint16 { return uint16(0x1000 + i*257) }

// ---------------------------------------------------------------------------------------------
// client reading side

func checkClientRead(c Framing) error {
	a, b := memnet.Pipe(nil, "", "")
	a.SetPlan(memnet.StreamPlan{WriteChunks: c.Chunks})
	b.SetPlan(memnet.StreamPlan{ReadSizes: c.ReadSizes, Coalesce: c.Coalesce, ReadFault: c.Fault, ReadFaultAt: c.FaultAt})
	var bodies [][]byte
	var stream []byte
	for i, s := range c.Sizes {
		body := frameBody(c.id(i), s, c.Seeds[i], true)
		bodies = append(bodies, body)
		if c.OneWrite {
			stream = append(stream, frame(body)...)
		} else {
			a.Write(frame(body))
		}
	}
	if c.OneWrite {
		a.Write(stream)
	}
	a.Close() // the stream ends after the last message
	co := &dns.Conn{Conn: b}
	pos := 0
	read := func(i int) (got []byte, m *dns.Msg, err error) {
		switch c.effAPI(i) {
		case "ReadMsg":
			m, err = co.ReadMsg()
			return nil, m, err
		case "ReadMsgHeader":
			got, err = co.ReadMsgHeader(nil)
			return got, nil, err
		case "ReadMsgHeaderHdr":
			var h dns.Header
			got, err = co.ReadMsgHeader(&h)
			if err == nil && i < len(bodies) && len(bodies[i]) >= 12 && h.Id != c.id(i) {
				err = fmt.Errorf("HARNESS-MISMATCH header ID %d", h.Id)
			}
			return got, nil, err
		case "ReadShortBuf":
			if i < len(bodies) {
				buf := make([]byte, len(bodies[i])-1)
				n, e := co.Read(buf)
				return buf[:n], nil, e
			}
			fallthrough
		default:
			bl := c.BufLen
			if bl <= 0 || c.effAPI(i) != "Read" {
				bl = 65535
			}
			buf := make([]byte, bl)
			n, e := co.Read(buf)
			if e != nil {
				return nil, nil, e
			}
			return buf[:n], nil, nil
		}
	}
	// goOn: Read has refused message i because the caller's buffer (room octets) cannot hold it. The
	// transport is healthy and the caller reads on with room for any message. The Conn may have skipped
	// the refused message, may hand it out now, or may refuse every later call - but a call that
	// succeeds returns a message the peer sent, in order: the length prefix still delimits.
	goOn := func(i, room int, refusal error) error {
		cands := []int{i, i + 1}
		for k := 0; k <= len(bodies)-i; k++ {
			api := c.apiOf(i + 1 + k)
			var got []byte
			var m *dns.Msg
			var err error
			switch api {
			case "ReadMsg":
				m, err = co.ReadMsg()
			case "ReadMsgHeader", "ReadMsgHeaderHdr":
				got, err = co.ReadMsgHeader(nil)
			default:
				api = "Read"
				buf := make([]byte, 65535)
				var n int
				n, err = co.Read(buf)
				got = buf[:n]
			}
			if err != nil {
				return nil // refused, or the end of the stream
			}
			hit := -1
			for _, j := range cands {
				if j >= len(bodies) {
					continue
				}
				if (m != nil && sameAsBuilt(m, c.id(j), len(bodies[j]), c.Seeds[j]) == nil) || (m == nil && bytes.Equal(got, bodies[j])) {
					hit = j
					break
				}
			}
			if hit < 0 {
				return fmt.Errorf("message %d (%d octets, ID %d) was refused because the caller's buffer has %d octets (%v); the transport is healthy, and call %d after that on the same Conn, %s with room for 65535 octets, returned %s with a nil error - no message the peer sent (sizes %v): the two-octet length no longer delimits the messages", i, len(bodies[i]), c.id(i), room, refusal, k+1, api, describe(got, m), c.Sizes)
			}
			cands = []int{hit + 1}
		}
		return nil
	}
	kept := make([][]byte, len(bodies))
	for i, body := range bodies {
		end := pos + 2 + len(body)
		wantOK := c.Fault == "" || end <= c.FaultAt
		api := c.effAPI(i)
		how := api
		if i > 0 && c.effAPI(i-1) != api {
			how = fmt.Sprintf("%s (message %d was taken with %s on the same Conn)", api, i-1, c.effAPI(i-1))
		}
		if i > 0 && len(bodies[i-1]) < 12 {
			how = fmt.Sprintf("%s (the frame before it, %d, has %d octets [%x] - too short for a DNS message, but delimited by its length like any other - and was met with %s on the same Conn)", api, i-1, len(bodies[i-1]), bodies[i-1], c.effAPI(i-1))
		}
		got, m, err := read(i)
		if api == "ReadShortBuf" {
			// the caller's buffer is one octet too small: an error, never a truncated message
			if err == nil {
				return fmt.Errorf("message %d (%d octets) read into a %d-octet buffer: no error, %d octets returned", i, len(body), len(body)-1, len(got))
			}
			if c.GoOn {
				return goOn(i, len(body)-1, err)
			}
			return nil // (cases of earlier rounds end here)
		}
		if api == "Read" && c.BufLen > 0 && c.BufLen < len(body) && wantOK {
			if err == nil {
				return fmt.Errorf("message %d (%d octets) read into a %d-octet buffer: no error, %d octets returned", i, len(body), c.BufLen, len(got))
			}
			if c.GoOn {
				return goOn(i, c.BufLen, err)
			}
			return nil // too small a buffer: an error (cases of earlier rounds end here)
		}
		if !wantOK {
			if err == nil {
				return fmt.Errorf("message %d (stream octets %d..%d) cut by %s at octet %d: %s returned no error (%s)", i, pos, end, c.Fault, c.FaultAt, how, describe(got, m))
			}
			return nil
		}
		if len(body) < 12 {
			// A complete frame that is too short to be a DNS message. Whether the call refuses it (the
			// message-level calls do: "short read") or hands its octets over (Conn.Read, the net.Conn-style
			// call, does) is the call's business; it must not hand over anything else, and - asserted at
			// the next frame - it must leave the stream at the end of this frame.
			if err == nil && api == "ReadMsg" {
				return fmt.Errorf("frame %d has %d octets (%x), fewer than a DNS header: ReadMsg returned a message (%s) with a nil error", i, len(body), body, describe(got, m))
			}
			if err == nil && !bytes.Equal(got, body) {
				return fmt.Errorf("frame %d has %d octets (%x): %s returned %d octets %s with a nil error", i, len(body), body, how, len(got), hexHead(got))
			}
			if err == nil {
				kept[i] = got
			}
			pos = end
			continue
		}
		if err != nil {
			return fmt.Errorf("message %d (%d octets, stream octets %d..%d, fault %q at %d, caller buffer %d octets; frames coalesced in one read: %v): %s failed: %v", i, len(body), pos, end, c.Fault, c.FaultAt, c.BufLen, c.coalesced(), how, err)
		}
		if api == "ReadMsg" {
			if e := sameAsBuilt(m, c.id(i), len(body), c.Seeds[i]); e != nil {
				return fmt.Errorf("message %d (%d octets): ReadMsg returned a different message: %v", i, len(body), e)
			}
		} else if !bytes.Equal(got, body) {
			return fmt.Errorf("message %d: %s returned %d octets %s, sent %d octets %s (first difference at %d)", i, how, len(got), hexHead(got), len(body), hexHead(body), firstDiff(got, body))
		}
		if api != "ReadMsg" {
			kept[i] = got // "to be parsed with Msg.Unpack later on": a later read must not change it
		}
		pos = end
	}
	for i, p := range kept {
		if p != nil && !bytes.Equal(p, bodies[i]) {
			return fmt.Errorf("message %d: the slice %s returned changed while later messages were read (first difference at %d)", i, c.apiOf(i), firstDiff(p, bodies[i]))
		}
	}
	// after the last message the stream is at EOF (or at the fault): an error, not a message
	got, m, err := read(len(bodies))
	if err == nil {
		return fmt.Errorf("after the last of %d messages %s returned another message (%s)", len(bodies), c.apiOf(len(bodies)), describe(got, m))
	}
	return nil
}

func describe(got []byte, m *dns.Msg) string {
	if m != nil {
		return fmt.Sprintf("message ID %d, %d answers", m.Id, len(m.Answer))
	}
	return fmt.Sprintf("%d octets %s", len(got), hexHead(got))
}

// ---------------------------------------------------------------------------------------------
// client writing side

// bigMsg is a library message that encodes to more than 65535 octets (two large NULL records).
func bigMsg(id uint16, size int, seed byte) *dns.Msg {
	m := libMsg(id, fullOverhead+40000, seed, false)
	rest := size - (fullOverhead + 40000) - 13
	if rest < 0 {
		rest = 0
	}
	if rest > 65535 {
		rest = 65535
	}
	m.Answer = append(m.Answer, &dns.NULL{Hdr: dns.RR_Header{Name: "t.", Rrtype: dns.TypeNULL, Class: dns.ClassINET}, Data: string(filler(rest, seed+1))})
	return m
}

func checkClientWrite(c Framing) error {
	a, b := memnet.Pipe(nil, "", "")
	b.SetPlan(memnet.StreamPlan{WriteChunks: c.Chunks, WriteFault: c.Fault, WriteFaultAt: c.FaultAt})
	co := &dns.Conn{Conn: b}
	var expected []byte
	faulted := false
	for i, s := range c.Sizes {
		var err error
		var body []byte
		useMsg := c.API == "WriteMsg" && s >= fullOverhead
		switch {
		case s > 65535 && useMsg:
			err = co.WriteMsg(bigMsg(msgID(i), s, c.Seeds[i]))
		case s > 65535:
			_, err = co.Write(filler(s, c.Seeds[i]))
		case useMsg:
			body = buildMsg(msgID(i), s, c.Seeds[i], false)
			err = co.WriteMsg(libMsg(msgID(i), s, c.Seeds[i], false))
		default:
			body = buildMsg(msgID(i), s, c.Seeds[i], false)
			_, err = co.Write(body)
		}
		if s > 65535 {
			if err == nil {
				return fmt.Errorf("message %d of %d octets was accepted by %s; messages above 65535 octets must be refused", i, s, c.API)
			}
			continue // and nothing may have reached the conn: checked against expected below
		}
		f := frame(body)
		crossing := c.Fault != "" && (faulted || len(expected)+len(f) > c.FaultAt)
		if crossing {
			if err == nil {
				return fmt.Errorf("message %d (%d octets): the conn accepted only up to stream octet %d but %s reported success", i, s, c.FaultAt, c.API)
			}
			if !faulted {
				expected = append(expected, f...)[:c.FaultAt]
				faulted = true
			}
			continue
		}
		if err != nil {
			return fmt.Errorf("message %d (%d octets): %s failed: %v", i, s, c.API, err)
		}
		expected = append(expected, f...)
	}
	b.Close()
	wire, _ := io.ReadAll(a)
	if !bytes.Equal(wire, expected) {
		msgs, rest := deframe(wire)
		return fmt.Errorf("octets on the wire differ from the length-prefixed messages that were written: wire %d octets (%d complete frames, %d left over), expected %d octets, first difference at octet %d; sizes %v",
			len(wire), len(msgs), len(rest), len(expected), firstDiff(wire, expected), c.Sizes)
	}
	return nil
}

// ---------------------------------------------------------------------------------------------
// server side: readTCP and response.Write / WriteMsg behind an in-memory listener

type rawSpy struct {
	dns.Reader
	mu   *sync.Mutex
	raws *[][]byte
}

func (r rawSpy) ReadTCP(conn net.Conn, timeout time.Duration) ([]byte, error) {
	m, err := r.Reader.ReadTCP(conn, timeout)
	if err == nil {
		r.mu.Lock()
		*r.raws = append(*r.raws, append([]byte(nil), m...))
		r.mu.Unlock()
	}
	return m, err
}

const hangLimit = 20 * time.Second

// unsignable as a reply "size": a reply that carries a TSIG stub for a key the server lacks.
const unsignable = -1

func checkServerFraming(c Framing) error {
	if len(c.ReplySizes) == 0 {
		return fmt.Errorf("malformed case")
	}
	var mu sync.Mutex
	var raws [][]byte
	var seen []*dns.Msg
	var writeErrs []error
	lis := memnet.NewListener(nil, "")
	started := make(chan struct{})
	srv := &dns.Server{
		Listener:          lis,
		ReadTimeout:       time.Minute,
		IdleTimeout:       func() time.Duration { return time.Minute },
		MsgAcceptFunc:     func(dns.Header) dns.MsgAcceptAction { return dns.MsgAccept },
		NotifyStartedFunc: func() { close(started) },
		DecorateReader:    func(r dns.Reader) dns.Reader { return rawSpy{r, &mu, &raws} },
		TsigSecret:        map[string]string{"known-key.": "c2VjcmV0"},
	}
	srv.Handler = dns.HandlerFunc(func(w dns.ResponseWriter, req *dns.Msg) {
		mu.Lock()
		i := len(seen)
		seen = append(seen, req.Copy())
		mu.Unlock()
		rs := c.ReplySizes[i%len(c.ReplySizes)]
		seed := byte(i*31 + 7)
		var err error
		switch {
		case rs == unsignable:
			// a reply that asks for a TSIG with a key the server does not have: it cannot be
			// signed, so it must be refused - error to the handler, nothing on the wire
			m := libMsg(req.Id, 64, seed, true)
			m.SetTsig("no-such-key.", dns.HmacSHA256, 300, time.Now().Unix())
			err = w.WriteMsg(m)
		case rs > 65535 && c.API == "WriteMsg":
			m := bigMsg(req.Id, rs, seed)
			m.Response = true
			err = w.WriteMsg(m)
		case rs > 65535:
			_, err = w.Write(filler(rs, seed))
		case c.API == "WriteMsg" && rs >= fullOverhead:
			err = w.WriteMsg(libMsg(req.Id, rs, seed, true))
		default:
			_, err = w.Write(buildMsg(req.Id, rs, seed, true))
		}
		mu.Lock()
		writeErrs = append(writeErrs, err)
		mu.Unlock()
	})
	serveErr := make(chan error, 1)
	go func() { serveErr <- srv.ActivateAndServe() }()
	select {
	case <-started:
	case <-time.After(hangLimit):
		return fmt.Errorf("server did not start")
	}
	cli, err := lis.Dial()
	if err != nil {
		return err
	}
	srvEnd := cli.Peer()
	cli.SetPlan(memnet.StreamPlan{WriteChunks: c.Chunks})
	sp := memnet.StreamPlan{ReadSizes: c.ReadSizes, Coalesce: c.Coalesce, WriteChunks: c.OutChunks}
	if c.Fault != "" && c.FaultSide == "read" {
		sp.ReadFault, sp.ReadFaultAt = c.Fault, c.FaultAt
	}
	if c.Fault != "" && c.FaultSide == "write" {
		sp.WriteFault, sp.WriteFaultAt = c.Fault, c.FaultAt
	}
	srvEnd.SetPlan(sp)

	var bodies [][]byte
	var stream []byte
	for i, s := range c.Sizes {
		body := frameBody(msgID(i), s, c.Seeds[i], false)
		bodies = append(bodies, body)
		if c.OneWrite {
			stream = append(stream, frame(body)...)
		} else {
			cli.Write(frame(body))
		}
	}
	if c.OneWrite {
		cli.Write(stream)
	}
	cli.CloseWrite() // no more requests: the server reads EOF after the last one and closes
	wire := readAll(cli, hangLimit)
	cli.Close()
	sdErr := make(chan error, 1)
	go func() { sdErr <- srv.Shutdown() }()
	select {
	case <-sdErr:
	case <-time.After(hangLimit):
		return fmt.Errorf("Shutdown did not return within %v after the framing exchange", hangLimit)
	}
	select {
	case <-serveErr:
	case <-time.After(hangLimit):
		return fmt.Errorf("serve call did not return within %v", hangLimit)
	}
	mu.Lock()
	defer mu.Unlock()

	// which requests arrive completely
	complete := len(bodies)
	if c.Fault != "" && c.FaultSide == "read" {
		complete, _ = completeBefore(c.Sizes, c.FaultAt)
	}
	// Frames of 0..11 octets (round 10) are no requests: no handler is called for them. What the server
	// does with the connection after one is its policy - it may go on (the unchanged library does) or
	// stop reading - but it must not lose the frame boundary: the messages it reads, and the requests
	// its handlers see, are, in order, the genuine requests (>= 12 octets) that were sent completely,
	// all of them, or all of those before one of the short frames.
	var genuine []int       // indexes of the genuine requests among the completely sent frames
	stops := map[int]bool{} // admissible numbers of requests read: everything, or everything before a short frame
	for i := 0; i < complete; i++ {
		if len(bodies[i]) < 12 {
			stops[len(genuine)] = true
			continue
		}
		genuine = append(genuine, i)
	}
	stops[len(genuine)] = true
	var rawsG [][]byte // what the reader handed the server, without the frames that are no messages
	for _, r := range raws {
		if len(r) >= 12 {
			rawsG = append(rawsG, r)
		}
	}
	if !stops[len(rawsG)] {
		return fmt.Errorf("server obtained %d messages from the stream, %d requests (and %d frames too short for a header) were sent completely (sizes %v, fault %q/%s at %d)", len(rawsG), len(genuine), complete-len(genuine), c.Sizes, c.Fault, c.FaultSide, c.FaultAt)
	}
	for j := range rawsG {
		i := genuine[j]
		if !bytes.Equal(rawsG[j], bodies[i]) {
			return fmt.Errorf("request %d (frame %d of sizes %v): server read %d octets %s, client sent %d octets %s (first difference at %d)", j, i, c.Sizes, len(rawsG[j]), hexHead(rawsG[j]), len(bodies[i]), hexHead(bodies[i]), firstDiff(rawsG[j], bodies[i]))
		}
	}
	if len(seen) != len(rawsG) {
		return fmt.Errorf("handler called %d times for %d complete requests (sizes %v)", len(seen), len(rawsG), c.Sizes)
	}
	for j, m := range seen {
		i := genuine[j]
		if e := sameAsBuilt(m, msgID(i), len(bodies[i]), c.Seeds[i]); e != nil {
			return fmt.Errorf("request %d (frame %d of sizes %v): handler saw a different message: %v", j, i, c.Sizes, e)
		}
	}
	// what must be on the wire back to the client
	var expected []byte
	faulted := false
	for i := 0; i < len(seen); i++ {
		rs := c.ReplySizes[i%len(c.ReplySizes)]
		if rs == unsignable {
			if writeErrs[i] == nil {
				return fmt.Errorf("reply %d asks for a TSIG with a key the server does not have, yet WriteMsg reported success; a reply that cannot be signed must be refused", i)
			}
			continue // and nothing may have reached the conn: checked against expected below
		}
		if rs > 65535 {
			if writeErrs[i] == nil {
				return fmt.Errorf("reply %d of %d octets was accepted by the response writer's %s; it must be refused", i, rs, c.API)
			}
			continue
		}
		f := frame(buildMsg(msgID(genuine[i]), rs, byte(i*31+7), true))
		crossing := c.Fault != "" && c.FaultSide == "write" && (faulted || len(expected)+len(f) > c.FaultAt)
		if crossing {
			if writeErrs[i] == nil {
				return fmt.Errorf("reply %d (%d octets): the conn accepted only up to stream octet %d but the response writer reported success", i, rs, c.FaultAt)
			}
			if !faulted {
				expected = append(expected, f...)[:c.FaultAt]
				faulted = true
			}
			continue
		}
		if writeErrs[i] != nil {
			return fmt.Errorf("reply %d (%d octets): response writer failed: %v", i, rs, writeErrs[i])
		}
		expected = append(expected, f...)
	}
	if !bytes.Equal(wire, expected) {
		msgs, rest := deframe(wire)
		return fmt.Errorf("reply stream differs from the length-prefixed replies the handler wrote: wire %d octets (%d complete frames, %d left over), expected %d octets, first difference at octet %d; reply sizes %v",
			len(wire), len(msgs), len(rest), len(expected), firstDiff(wire, expected), c.ReplySizes)
	}
	return nil
}

// completeBefore returns how many of the frames end at or before stream octet k.
func completeBefore(sizes []int, k int) (n, pos int) {
	for _, s := range sizes {
		if pos+2+s > k {
			break
		}
		pos += 2 + s
		n++
	}
	return n, pos
}

// probeShortBufDesync: two messages of 600 and 40 octets on a healthy stream, the first with ID 16; the
// caller reads with a 512-octet buffer (dns.MinMsgSize), is told io.ErrShortBuffer, and reads on with a
// 65535-octet buffer. While the defect is present the second Read takes the ID of message 0 for a
// length and returns the 16 octets that follow it with a nil error.
func probeShortBufDesync() error {
	return checkClientRead(Framing{Dir: "client-read", API: "Read", Sizes: []int{600, 40}, Seeds: []byte{1, 2}, OneWrite: true, BufLen: 512, GoOn: true, IDBase: 16 - msgID(0)})
}

func init() {
	pbt.Probe(knownShortBufDesync, probeShortBufDesync)
	pbt.Register(pbt.Sub[Framing]{Name: "framing-client-read", Weight: 2.4, Gen: genFramingDir("client-read"), Check: checkFraming})
	pbt.Register(pbt.Sub[Framing]{Name: "framing-client-write", Weight: 1.6, Gen: genFramingDir("client-write"), Check: checkFraming})
	pbt.Register(pbt.Sub[Framing]{Name: "framing-server", Weight: 2, Gen: genFramingDir("server"), Check: checkFraming})
}
