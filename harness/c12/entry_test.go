package c12

import (
	"context"
	"crypto/tls"
	"encoding/json"
	"fmt"
	"net"
	"os"
	"sync/atomic"
	"time"

	"github.com/miekg/dns"
	"pgregory.net/rapid"

	"verif/harness/pbt"
)

// EntryCase sends one exchange through one of the documented client entry points that take an
// ADDRESS (and therefore dial themselves) to a loopback server, over UDP, TCP or TLS: whichever
// door the caller uses, the exchange must come back with its own reply. With Dead the address is
// a TCP port nobody listens on: the call must come back with an error (or, should another process
// have grabbed the port meanwhile, with whatever that server says) - never with neither a result
// nor an error, and never with a panic.
type EntryCase struct {
	Entry string // Exchange | ExchangeContext | Client.Exchange | Client.ExchangeContext | Client.Dial | Dial | DialTimeout | DialWithTLS | DialTimeoutWithTLS
	Net   string // udp | tcp | tcp-tls ; for the two ...WithTLS functions also "tcp" (the suffix is added by the library)
	Dead  bool
	ID    uint16
}

func genEntry(t *rapid.T) EntryCase {
	c := EntryCase{ID: uint16(rapid.IntRange(1, 65535).Draw(t, "id")), Dead: rapid.IntRange(0, 9).Draw(t, "dead") < 4}
	entries := []string{"Exchange", "ExchangeContext", "Client.Exchange", "Client.ExchangeContext", "Client.Dial", "Dial", "DialTimeout", "DialWithTLS", "DialTimeoutWithTLS"}
	if c.Dead {
		entries = entries[2:] // a datagram socket "connects" to anything: dead addresses only over streams
	}
	c.Entry = rapid.SampledFrom(entries).Draw(t, "entry")
	nets := []string{"udp", "tcp", "tcp-tls"}
	switch c.Entry {
	case "Exchange", "ExchangeContext":
		nets = []string{"udp"}
	case "DialWithTLS", "DialTimeoutWithTLS":
		nets = []string{"tcp", "tcp-tls"}
	case "Dial", "DialTimeout":
		nets = []string{"udp", "tcp"}
	}
	if c.Dead {
		nets = nets[len(nets)-1:]
		if c.Entry != "Dial" && c.Entry != "DialTimeout" && rapid.Bool().Draw(t, "deadTLS") {
			nets = []string{"tcp-tls"}
		} else {
			nets = []string{"tcp"}
		}
	}
	c.Net = rapid.SampledFrom(nets).Draw(t, "net")
	return c
}

var entrySeq atomic.Uint64

func checkEntry(c EntryCase) error {
	key, _ := json.Marshal(c)
	pbt.Note(key, true, "entry="+c.Entry, "net="+c.Net, fmt.Sprintf("dead=%v", c.Dead))
	pbt.Sample("entry", c)
	nonce := fmt.Sprintf("ep%dx%d", os.Getpid(), entrySeq.Add(1))
	useTLS := c.Net == "tcp-tls" || c.Entry == "DialWithTLS" || c.Entry == "DialTimeoutWithTLS"
	_, cliTLS := pipeTLS()

	// --- the address
	var addr string
	var srv *dns.Server
	if c.Dead {
		l, err := net.Listen("tcp", "127.0.0.1:0")
		if err != nil {
			return nil
		}
		addr = l.Addr().String()
		l.Close()
	} else {
		srv = &dns.Server{ReadTimeout: time.Minute, Handler: dns.HandlerFunc(func(w dns.ResponseWriter, r *dns.Msg) {
			m := new(dns.Msg)
			m.SetReply(r)
			m.Answer = []dns.RR{&dns.TXT{Hdr: dns.RR_Header{Name: r.Question[0].Name, Rrtype: dns.TypeTXT, Class: dns.ClassINET}, Txt: []string{fmt.Sprintf("%s-%d", nonce, r.Id)}}}
			w.WriteMsg(m)
		})}
		if c.Net == "udp" {
			p, err := net.ListenPacket("udp", "127.0.0.1:0")
			if err != nil {
				return nil
			}
			srv.PacketConn = p
			addr = p.LocalAddr().String()
		} else {
			l, err := net.Listen("tcp", "127.0.0.1:0")
			if err != nil {
				return nil
			}
			addr = l.Addr().String()
			if useTLS {
				sc, _ := pipeTLS()
				l = tls.NewListener(l, sc)
			}
			srv.Listener = l
		}
		started := make(chan struct{})
		srv.NotifyStartedFunc = func() { close(started) }
		done := make(chan error, 1)
		go func() { done <- srv.ActivateAndServe() }()
		select {
		case <-started:
		case <-time.After(hangLimit):
			return fmt.Errorf("server did not start")
		}
		defer func() { srv.Shutdown(); <-done }()
	}

	// --- the call
	q := new(dns.Msg)
	q.SetQuestion(nonce+".entry.test.", dns.TypeTXT)
	q.Id = c.ID
	tmo := 5 * time.Second
	var rep *dns.Msg
	var err error
	viaConn := func(co *dns.Conn, e error) {
		if e != nil {
			err = e
			return
		}
		if co == nil || co.Conn == nil {
			err = fmt.Errorf("HARNESS-VERDICT: %s returned neither a usable connection nor an error", c.Entry)
			return
		}
		defer co.Close()
		co.SetDeadline(time.Now().Add(tmo))
		if err = co.WriteMsg(q); err == nil {
			rep, err = co.ReadMsg()
		}
	}
	cl := &dns.Client{Net: c.Net, Timeout: tmo, TLSConfig: cliTLS}
	switch c.Entry {
	case "Exchange":
		rep, err = dns.Exchange(q, addr)
	case "ExchangeContext":
		ctx, cancel := context.WithTimeout(context.Background(), tmo)
		rep, err = dns.ExchangeContext(ctx, q, addr)
		cancel()
	case "Client.Exchange":
		rep, _, err = cl.Exchange(q, addr)
	case "Client.ExchangeContext":
		ctx, cancel := context.WithTimeout(context.Background(), tmo)
		rep, _, err = cl.ExchangeContext(ctx, q, addr)
		cancel()
	case "Client.Dial":
		viaConn(cl.Dial(addr))
	case "Dial":
		viaConn(dns.Dial(c.Net, addr))
	case "DialTimeout":
		viaConn(dns.DialTimeout(c.Net, addr, tmo))
	case "DialWithTLS":
		viaConn(dns.DialWithTLS(c.Net, addr, cliTLS))
	case "DialTimeoutWithTLS":
		viaConn(dns.DialTimeoutWithTLS(c.Net, addr, cliTLS, tmo))
	default:
		return fmt.Errorf("unknown entry %q", c.Entry)
	}

	what := fmt.Sprintf("%s over %s to %s", c.Entry, c.Net, addr)
	if err != nil && len(err.Error()) > 15 && err.Error()[:15] == "HARNESS-VERDICT" {
		return fmt.Errorf("%s: %v", what, err)
	}
	if c.Dead {
		if err == nil && rep == nil {
			return fmt.Errorf("%s (nobody listens there): neither a reply nor an error", what)
		}
		return nil
	}
	if err != nil {
		return fmt.Errorf("%s: the server is up but the exchange failed: %v", what, err)
	}
	want := fmt.Sprintf("%s-%d", nonce, c.ID)
	if rep == nil || rep.Id != c.ID || len(rep.Answer) != 1 {
		return fmt.Errorf("%s: reply %v is not the reply to request %d", what, rep, c.ID)
	}
	if t, ok := rep.Answer[0].(*dns.TXT); !ok || len(t.Txt) != 1 || t.Txt[0] != want {
		if c.Net == "udp" {
			return nil // a stray datagram of another process on a reused port: not judged
		}
		return fmt.Errorf("%s: reply carries %v, want token %q", what, rep.Answer[0], want)
	}
	return nil
}

func init() {
	pbt.Register(pbt.Sub[EntryCase]{Name: "entry-points", Weight: 0.12, Gen: genEntry, Check: checkEntry})
}
