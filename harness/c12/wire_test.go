package c12

import (
	"encoding/binary"
	"errors"
	"fmt"
	"io"
	"net"
	"time"

	"github.com/miekg/dns"
)

// The harness's own statement of the few wire facts this property needs (RFC 1035 §4.1, §4.2.2):
// a 12-octet header, and over a stream every message preceded by its length as two octets, big
// endian. Nothing here calls into the library.

// filler returns n deterministic octets derived from seed.
func filler(n int, seed byte) []byte {
	b := make([]byte, n)
	x := uint32(seed)*2654435761 + 12345
	for i := range b {
		x = x*1664525 + 1013904223
		b[i] = byte(x >> 24)
	}
	return b
}

const fullOverhead = 12 + 7 + 13 // header, question "t. NULL IN", answer RR header "t. NULL IN ttl rdlen"

// buildMsg encodes a DNS message of exactly size octets (size >= 12) with the given ID:
//
//	size >= 32 : header (QD=1, AN=1), question t./NULL/IN, answer t. NULL with size-32 filler octets of RDATA
//	19..31     : header (QD=1), question t./NULL/IN, size-19 trailing filler octets (ignored by decoders)
//	12..18     : header only (all counts 0), size-12 trailing filler octets
func buildMsg(id uint16, size int, seed byte, response bool) []byte {
	if size < 12 {
		panic("buildMsg: size < 12")
	}
	b := make([]byte, 0, size)
	flags := uint16(0x0100) // RD
	if response {
		flags |= 0x8000
	}
	hdr := func(qd, an uint16) {
		b = binary.BigEndian.AppendUint16(b, id)
		b = binary.BigEndian.AppendUint16(b, flags)
		b = binary.BigEndian.AppendUint16(b, qd)
		b = binary.BigEndian.AppendUint16(b, an)
		b = binary.BigEndian.AppendUint16(b, 0)
		b = binary.BigEndian.AppendUint16(b, 0)
	}
	question := []byte{1, 't', 0, 0, 10, 0, 1}
	switch {
	case size >= fullOverhead:
		hdr(1, 1)
		b = append(b, question...)
		b = append(b, 1, 't', 0, 0, 10, 0, 1, 0, 0, 0, 0)
		b = binary.BigEndian.AppendUint16(b, uint16(size-fullOverhead))
		b = append(b, filler(size-fullOverhead, seed)...)
	case size >= 19:
		hdr(1, 0)
		b = append(b, question...)
		b = append(b, filler(size-19, seed)...)
	default:
		hdr(0, 0)
		b = append(b, filler(size-12, seed)...)
	}
	if len(b) != size {
		panic(fmt.Sprintf("buildMsg: built %d octets, want %d", len(b), size))
	}
	return b
}

// libMsg builds the library value whose encoding is buildMsg(id, size, seed, response); size >= 32.
func libMsg(id uint16, size int, seed byte, response bool) *dns.Msg {
	m := new(dns.Msg)
	m.Id = id
	m.RecursionDesired = true
	m.Response = response
	m.Question = []dns.Question{{Name: "t.", Qtype: dns.TypeNULL, Qclass: dns.ClassINET}}
	m.Answer = []dns.RR{&dns.NULL{Hdr: dns.RR_Header{Name: "t.", Rrtype: dns.TypeNULL, Class: dns.ClassINET}, Data: string(filler(size-fullOverhead, seed))}}
	return m
}

// sameAsBuilt checks a decoded message against what buildMsg(id,size,seed,·) encoded.
func sameAsBuilt(m *dns.Msg, id uint16, size int, seed byte) error {
	if m == nil {
		return errors.New("nil message")
	}
	if m.Id != id {
		return fmt.Errorf("ID %d, want %d", m.Id, id)
	}
	switch {
	case size >= fullOverhead:
		if len(m.Question) != 1 || m.Question[0].Name != "t." || len(m.Answer) != 1 {
			return fmt.Errorf("sections differ: %d questions, %d answers", len(m.Question), len(m.Answer))
		}
		n, ok := m.Answer[0].(*dns.NULL)
		if !ok {
			return fmt.Errorf("answer is %T", m.Answer[0])
		}
		if n.Data != string(filler(size-fullOverhead, seed)) {
			return fmt.Errorf("RDATA differs (%d octets, want %d)", len(n.Data), size-fullOverhead)
		}
	case size >= 19:
		if len(m.Question) != 1 || m.Question[0].Name != "t." {
			return fmt.Errorf("question differs")
		}
	}
	return nil
}

// frame prefixes b with its two-octet length.
func frame(b []byte) []byte {
	out := make([]byte, 2, 2+len(b))
	binary.BigEndian.PutUint16(out, uint16(len(b)))
	return append(out, b...)
}

// deframe splits a complete stream into messages; rest is what remains after the last complete one.
func deframe(stream []byte) (msgs [][]byte, rest []byte) {
	for len(stream) >= 2 {
		n := int(binary.BigEndian.Uint16(stream))
		if len(stream) < 2+n {
			break
		}
		msgs = append(msgs, stream[2:2+n])
		stream = stream[2+n:]
	}
	return msgs, stream
}

// readAll reads from c until EOF/error or until the deadline d from now.
func readAll(c net.Conn, d time.Duration) []byte {
	c.SetReadDeadline(time.Now().Add(d))
	b, _ := io.ReadAll(c)
	return b
}

func isTimeout(err error) bool {
	var ne net.Error
	return errors.As(err, &ne) && ne.Timeout()
}

func hexHead(b []byte) string {
	if len(b) > 24 {
		return fmt.Sprintf("%x…(%d octets)", b[:24], len(b))
	}
	return fmt.Sprintf("%x", b)
}

// firstDiff returns the first offset at which a and b differ (or the shorter length).
func firstDiff(a, b []byte) int {
	n := min(len(a), len(b))
	for i := 0; i < n; i++ {
		if a[i] != b[i] {
			return i
		}
	}
	return n
}
