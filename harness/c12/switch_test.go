package c12

import (
	"bytes"
	"encoding/json"
	"errors"
	"fmt"
	"io"
	"net"
	"time"

	"github.com/miekg/dns"
	"pgregory.net/rapid"

	"verif/harness/memnet"
	"verif/harness/pbt"
)

// SwitchCase is a multi-step sequence on ONE *dns.Conn value whose exported Conn field (the
// net.Conn) is replaced by a fresh transport before every step - the usual "retry over TCP after a
// truncated UDP answer, keeping the Conn and its settings", and the reverse. Whatever the Conn was
// used for before, each step must follow the transport that is in the Conn NOW: over a stream the
// message is preceded by its two-octet length (written and expected by hand here), in a datagram it
// stands alone; a stream exchange fails with ErrId on another ID, a datagram exchange skips other
// IDs until the matching reply.
//
// Kinds of transport (what client.go's isPacketConn has to tell apart):
//
//	tcp         in-memory stream, a plain net.Conn
//	unix        in-memory stream that ALSO has ReadFrom/WriteTo and a *net.UnixAddr{Net:"unix"} local
//	            address - exactly what a *net.UnixConn of a SOCK_STREAM socket looks like: a stream
//	udp         in-memory datagram conn (net.Conn + net.PacketConn, *net.UDPAddr)
//	unixgram    the same with a *net.UnixAddr{Net:"unixgram"} local address: datagrams
//	unixpacket  the same with Net "unixpacket" (SOCK_SEQPACKET keeps message boundaries): datagrams
//
// No step can block: the peer's octets are queued before the step (a stream peer then half-closes,
// so that code that asks for more octets than were sent reads EOF; a datagram conn whose queue is
// empty fails the read at once), so the verdict does not depend on any deadline.
type SwitchCase struct {
	UDPSize int // Conn.UDPSize preset by the caller (receive buffer for datagrams = max(512, UDPSize))
	Steps   []SwitchStep
}

type SwitchStep struct {
	Kind    string  // tcp | unix | udp | unixgram | unixpacket
	Op      string  // Write | WriteMsg | ReadMsg | ReadMsgHeader | ReadMsgHeaderHdr | Read | Exchange
	ID      uint16  // ID of the (first) message of the step
	Size    int     // octets of the message written / of every message read / of the request
	Seed    byte    // filler seed
	N       int     // read ops: number of messages the peer has sent, all of them are read (1..3)
	Chunks  []int   // streams: segmentation of what the peer sends
	Replies []IDRep // Exchange: what the peer sends back, in order (stream: only the first is read)
}

func streamKind(kind string) bool { return kind == "tcp" || kind == "unix" }

var switchKinds = []string{"tcp", "tcp", "unix", "udp", "udp", "unixgram", "unixpacket"}

func genSwitchCase(t *rapid.T) SwitchCase {
	c := SwitchCase{UDPSize: rapid.SampledFrom([]int{0, 0, 512, 1232, 4096}).Draw(t, "connUDPSize")}
	buf := max(512, c.UDPSize)
	n := rapid.IntRange(2, 5).Draw(t, "steps")
	for i := 0; i < n; i++ {
		s := SwitchStep{
			Kind: rapid.SampledFrom(switchKinds).Draw(t, "kind"),
			Op:   rapid.SampledFrom([]string{"Write", "WriteMsg", "WriteMsg", "ReadMsg", "ReadMsg", "ReadMsgHeader", "ReadMsgHeaderHdr", "Read", "Exchange", "Exchange", "Exchange"}).Draw(t, "op"),
			ID:   uint16(rapid.IntRange(0, 65535).Draw(t, "id")),
			Seed: rapid.Byte().Draw(t, "seed"),
			N:    rapid.IntRange(1, 3).Draw(t, "n"),
		}
		if i > 0 && rapid.IntRange(0, 2).Draw(t, "flip") > 0 {
			// two thirds of the steps change the kind of framing against the previous step
			for streamKind(s.Kind) == streamKind(c.Steps[i-1].Kind) {
				s.Kind = rapid.SampledFrom(switchKinds).Draw(t, "kindOther")
			}
		}
		if rapid.IntRange(0, 7).Draw(t, "idEdge") == 0 {
			// IDs that read as a plausible length prefix / whose octets are a plausible prefix of the size
			s.ID = rapid.SampledFrom([]uint16{0, 1, 12, 0x0019, 0x00ff, 0x0100, 0x01ff, 0x0200, 0xffff}).Draw(t, "idEdgeV")
		}
		switch rapid.IntRange(0, 9).Draw(t, "sizeKind") {
		case 0, 1, 2, 3:
			s.Size = rapid.SampledFrom([]int{12, 13, 14, 19, 31, 32, 33, 36, 255, 256, 257, 511, 512}).Draw(t, "sizeB")
		case 9:
			s.Size = rapid.SampledFrom([]int{513, 1232, 4096, 16384, 65535}).Draw(t, "sizeL")
		default:
			s.Size = rapid.IntRange(12, 512).Draw(t, "size")
		}
		switch s.Op {
		case "ReadMsg", "ReadMsgHeader", "ReadMsgHeaderHdr", "Read":
			if !streamKind(s.Kind) && s.Size > buf {
				s.Size = buf // a longer datagram is cut by the receive buffer, which is not the subject here
			}
			s.Chunks = genChunks(t, "chunk")
		case "Exchange":
			if s.Size < fullOverhead {
				s.Size = fullOverhead + s.Size%7 // the request is a library value: a question and a NULL record
			}
			foreign := func(label string) uint16 {
				v := s.ID + uint16(rapid.SampledFrom([]int{1, 0xffff, 0x0100, 0xff00, 0x8000, 7}).Draw(t, label))
				if rapid.Bool().Draw(t, label+"Any") {
					v = uint16(rapid.IntRange(0, 65535).Draw(t, label+"V"))
				}
				if v == s.ID {
					v = s.ID + 7
				}
				return v
			}
			if streamKind(s.Kind) {
				if rapid.Bool().Draw(t, "good") {
					s.Replies = []IDRep{{Kind: "match", ID: s.ID}}
				} else {
					s.Replies = []IDRep{{Kind: "foreign", ID: foreign("fid")}}
				}
				if rapid.Bool().Draw(t, "second") {
					s.Replies = append(s.Replies, IDRep{Kind: "match", ID: s.ID})
				}
				s.Chunks = genChunks(t, "chunk")
			} else {
				k := rapid.SampledFrom([]int{0, 1, 1, 2, 3}).Draw(t, "before")
				for j := 0; j < k; j++ {
					s.Replies = append(s.Replies, IDRep{Kind: "foreign", ID: foreign("fid")})
				}
				s.Replies = append(s.Replies, IDRep{Kind: "match", ID: s.ID})
				if rapid.Bool().Draw(t, "straggler") {
					s.Replies = append(s.Replies, IDRep{Kind: "foreign", ID: foreign("aid")})
				}
			}
			for j := range s.Replies {
				if rapid.Bool().Draw(t, "replySized") {
					s.Replies[j].Size = rapid.SampledFrom([]int{36, 37, 255, 256, 511, 512}).Draw(t, "replySize")
				}
			}
		}
		c.Steps = append(c.Steps, s)
	}
	return c
}

var errDrained = errors.New("harness: the datagram conn has no datagram queued (the peer sent nothing more)")

// drainPC is an in-memory datagram conn whose reads never block: with an empty queue they fail.
type drainPC struct{ *memnet.PacketConn }

func (d drainPC) Read(b []byte) (int, error) {
	if d.Pending() == 0 {
		return 0, errDrained
	}
	return d.PacketConn.Read(b)
}

func (d drainPC) ReadFrom(b []byte) (int, net.Addr, error) {
	if d.Pending() == 0 {
		return 0, nil, errDrained
	}
	return d.PacketConn.ReadFrom(b)
}

// unixDgram is drainPC as a unixgram / unixpacket socket presents itself.
type unixDgram struct {
	drainPC
	net string
}

func (u unixDgram) LocalAddr() net.Addr { return &net.UnixAddr{Name: "@memnet-client", Net: u.net} }

// unixStream is an in-memory stream as a *net.UnixConn of a SOCK_STREAM socket presents itself: it
// has the net.PacketConn methods and a unix local address, and is a stream all the same.
type unixStream struct{ *memnet.Conn }

func (u unixStream) ReadFrom(b []byte) (int, net.Addr, error) {
	n, err := u.Conn.Read(b)
	return n, u.RemoteAddr(), err
}
func (u unixStream) WriteTo(b []byte, _ net.Addr) (int, error) { return u.Conn.Write(b) }
func (u unixStream) LocalAddr() net.Addr                       { return &net.UnixAddr{Name: "@memnet-client", Net: "unix"} }
func (u unixStream) RemoteAddr() net.Addr                      { return &net.UnixAddr{Name: "@memnet-server", Net: "unix"} }

var (
	_ net.PacketConn = unixStream{}
	_ net.PacketConn = unixDgram{}
	_ net.PacketConn = drainPC{}
)

// switchTransport is one step's transport: conn goes into the dns.Conn; peerSend queues what the
// peer sends (in the transport's own framing, done by hand); wire returns what the peer received.
type switchTransport struct {
	conn     net.Conn
	stream   bool
	peerSend func(msgs [][]byte) // all at once; the peer sends nothing afterwards
	onWrite  func(f func())      // datagram: run f when the client has written (replies "arrive after the request")
	wire     func() (stream []byte, datagrams [][]byte)
	unread   func() int // octets / datagrams the peer sent that the client has not consumed
}

func newSwitchTransport(kind string, chunks []int) (*switchTransport, error) {
	switch kind {
	case "tcp", "unix":
		a, b := memnet.Pipe(nil, "", "")
		a.SetPlan(memnet.StreamPlan{WriteChunks: chunks})
		tr := &switchTransport{stream: true, conn: b}
		if kind == "unix" {
			tr.conn = unixStream{b}
		}
		tr.peerSend = func(msgs [][]byte) {
			for _, m := range msgs {
				a.Write(frame(m))
			}
			a.CloseWrite()
		}
		tr.wire = func() ([]byte, [][]byte) {
			buf := make([]byte, a.Buffered())
			io.ReadFull(a, buf)
			return buf, nil
		}
		tr.unread = b.Buffered
		return tr, nil
	case "udp", "unixgram", "unixpacket":
		pn := memnet.NewPacketNet(nil)
		srv := pn.Listen("", memnet.UDPAddr(53))
		cc := pn.Dial("", memnet.UDPAddr(40001), srv.LocalAddr())
		tr := &switchTransport{conn: drainPC{cc}}
		if kind != "udp" {
			tr.conn = unixDgram{drainPC{cc}, kind}
		}
		tr.peerSend = func(msgs [][]byte) {
			for _, m := range msgs {
				cc.Inject(m, srv.LocalAddr())
			}
		}
		tr.onWrite = func(f func()) {
			done := false
			cc.OnWrite(func(int, memnet.Packet) {
				if !done {
					done = true
					f()
				}
			})
		}
		tr.wire = func() ([]byte, [][]byte) {
			var out [][]byte
			for _, pk := range cc.Sent() {
				out = append(out, pk.Data)
			}
			return nil, out
		}
		tr.unread = cc.Pending
		return tr, nil
	}
	return nil, fmt.Errorf("unknown kind %q", kind)
}

func (c SwitchCase) classes() (cl []string, switches int) {
	cl = []string{fmt.Sprintf("steps=%d", len(c.Steps))}
	for i, s := range c.Steps {
		cl = append(cl, "kind="+s.Kind, "op="+s.Op)
		if i == 0 {
			continue
		}
		p := c.Steps[i-1]
		switch {
		case streamKind(p.Kind) && !streamKind(s.Kind):
			switches++
			cl = append(cl, "switch=stream->datagram", "after-switch-to-datagram:"+s.Op)
		case !streamKind(p.Kind) && streamKind(s.Kind):
			switches++
			cl = append(cl, "switch=datagram->stream", "after-switch-to-stream:"+s.Op)
		case p.Kind != s.Kind:
			cl = append(cl, "replaced-by-other-kind-same-framing")
		default:
			cl = append(cl, "replaced-by-same-kind")
		}
	}
	return cl, switches
}

func checkSwitch(c SwitchCase) error {
	key, _ := json.Marshal(c)
	cl, switches := c.classes()
	pbt.Note(key, switches > 0, cl...)
	if switches > 0 {
		pbt.Sample("conn-switch", c)
	}
	res := make(chan error, 1)
	go func() {
		defer func() {
			if r := recover(); r != nil {
				res <- fmt.Errorf("panic: %v", r)
			}
		}()
		res <- runSwitch(c)
	}()
	select {
	case err := <-res:
		return err
	case <-time.After(hangLimit):
		return pbt.NoShrink{Err: fmt.Errorf("a step of the sequence did not return within %v although every octet its peer sends was queued beforehand", hangLimit)}
	}
}

func runSwitch(c SwitchCase) error {
	co := &dns.Conn{UDPSize: uint16(c.UDPSize)}
	hist := ""
	for i, s := range c.Steps {
		tr, err := newSwitchTransport(s.Kind, s.Chunks)
		if err != nil {
			return err
		}
		co.Conn = tr.conn // the same dns.Conn value, another transport
		where := fmt.Sprintf("step %d (%s over %s; the same Conn was used before over [%s])", i, s.Op, s.Kind, hist)
		if err := runSwitchStep(co, s, tr); err != nil {
			return fmt.Errorf("%s: %v", where, err)
		}
		tr.conn.Close()
		if hist != "" {
			hist += " "
		}
		hist += s.Kind
	}
	return nil
}

// wroteExactly checks the octets that reached the peer against the one message that was written.
func wroteExactly(tr *switchTransport, body []byte) error {
	stream, dgrams := tr.wire()
	if tr.stream {
		if want := frame(body); !bytes.Equal(stream, want) {
			return fmt.Errorf("the stream carries %d octets %s; want the two-octet length and the %d-octet message, %s (first difference at octet %d)", len(stream), hexHead(stream), len(body), hexHead(want), firstDiff(stream, want))
		}
		return nil
	}
	if len(dgrams) != 1 {
		return fmt.Errorf("%d datagrams were sent, want one with the %d-octet message", len(dgrams), len(body))
	}
	if !bytes.Equal(dgrams[0], body) {
		return fmt.Errorf("the datagram carries %d octets %s; want the bare %d-octet message %s (first difference at octet %d)", len(dgrams[0]), hexHead(dgrams[0]), len(body), hexHead(body), firstDiff(dgrams[0], body))
	}
	return nil
}

func runSwitchStep(co *dns.Conn, s SwitchStep, tr *switchTransport) error {
	switch s.Op {
	case "Write", "WriteMsg":
		body := buildMsg(s.ID, s.Size, s.Seed, false)
		var err error
		if s.Op == "WriteMsg" && s.Size >= fullOverhead {
			err = co.WriteMsg(libMsg(s.ID, s.Size, s.Seed, false))
		} else {
			_, err = co.Write(body)
		}
		if err != nil {
			return fmt.Errorf("writing a %d-octet message failed: %v", s.Size, err)
		}
		return wroteExactly(tr, body)

	case "ReadMsg", "ReadMsgHeader", "ReadMsgHeaderHdr", "Read":
		var bodies [][]byte
		for j := 0; j < s.N; j++ {
			bodies = append(bodies, buildMsg(s.ID+uint16(j), s.Size, s.Seed+byte(j), true))
		}
		tr.peerSend(bodies)
		for j, body := range bodies {
			var got []byte
			var m *dns.Msg
			var err error
			switch s.Op {
			case "ReadMsg":
				m, err = co.ReadMsg()
			case "ReadMsgHeader":
				got, err = co.ReadMsgHeader(nil)
			case "ReadMsgHeaderHdr":
				var h dns.Header
				got, err = co.ReadMsgHeader(&h)
				if err == nil && h.Id != s.ID+uint16(j) {
					return fmt.Errorf("message %d of %d: ReadMsgHeader filled in header ID %d, the peer sent ID %d", j, s.N, h.Id, s.ID+uint16(j))
				}
			default:
				buf := make([]byte, 65535)
				var n int
				n, err = co.Read(buf)
				got = buf[:n]
			}
			if err != nil {
				return fmt.Errorf("message %d of %d (%d octets, ID %d) that the peer sent: %s failed: %v", j, s.N, len(body), s.ID+uint16(j), s.Op, err)
			}
			if s.Op == "ReadMsg" {
				if e := sameAsBuilt(m, s.ID+uint16(j), len(body), s.Seed+byte(j)); e != nil {
					return fmt.Errorf("message %d of %d (%d octets): ReadMsg returned a different message: %v", j, s.N, len(body), e)
				}
			} else if !bytes.Equal(got, body) {
				return fmt.Errorf("message %d of %d: %s returned %d octets %s, the peer sent %d octets %s (first difference at %d)", j, s.N, s.Op, len(got), hexHead(got), len(body), hexHead(body), firstDiff(got, body))
			}
		}
		if n := tr.unread(); n != 0 {
			return fmt.Errorf("after reading the %d messages the peer sent, %d octets/datagrams of them are still unread", s.N, n)
		}
		return nil

	case "Exchange":
		if len(s.Replies) == 0 || s.Size < fullOverhead {
			return fmt.Errorf("malformed case")
		}
		var replies [][]byte
		firstMatch := -1
		for j, r := range s.Replies {
			replies = append(replies, idReplySized(r.ID, j, r.Size))
			if r.ID == s.ID && firstMatch < 0 {
				firstMatch = j
			}
		}
		if tr.stream {
			tr.peerSend(replies)
		} else {
			tr.onWrite(func() { tr.peerSend(replies) })
		}
		cl := &dns.Client{Timeout: 3 * hangLimit} // never reached: no read blocks
		rep, _, err := cl.ExchangeWithConn(libMsg(s.ID, s.Size, s.Seed, false), co)
		if e := wroteExactly(tr, buildMsg(s.ID, s.Size, s.Seed, false)); e != nil {
			return fmt.Errorf("request: %v (the exchange returned reply #%d, error %v)", e, replyOrdinal(rep), err)
		}
		if tr.stream {
			if s.Replies[0].ID != s.ID {
				if !errors.Is(err, dns.ErrId) {
					return fmt.Errorf("stream exchange: request ID %d, reply ID %d: error is %v, want ErrId (returned reply #%d)", s.ID, s.Replies[0].ID, err, replyOrdinal(rep))
				}
				return nil
			}
			firstMatch = 0
		} else if firstMatch < 0 {
			return fmt.Errorf("malformed case: datagram exchange without a matching reply")
		}
		if err != nil {
			return fmt.Errorf("exchange with request ID %d: the matching reply is #%d of %v, but the exchange failed: %v", s.ID, firstMatch, s.Replies, err)
		}
		if rep == nil || rep.Id != s.ID || replyOrdinal(rep) != firstMatch {
			id := -1
			if rep != nil {
				id = int(rep.Id)
			}
			return fmt.Errorf("exchange with request ID %d returned reply #%d (ID %d); want #%d of %v", s.ID, replyOrdinal(rep), id, firstMatch, s.Replies)
		}
		want := idReplySized(s.ID, firstMatch, s.Replies[firstMatch].Size)
		if got := rep.Answer[0].(*dns.NULL).Data; got != string(want[fullOverhead:]) {
			return fmt.Errorf("exchange with request ID %d: the %d-octet reply arrived with %d RDATA octets instead of %d", s.ID, len(want), len(got), len(want)-fullOverhead)
		}
		return nil
	}
	return fmt.Errorf("unknown op %q", s.Op)
}

func init() {
	pbt.Register(pbt.Sub[SwitchCase]{Name: "conn-switch", Weight: 1, Gen: genSwitchCase, Check: checkSwitch})
}
