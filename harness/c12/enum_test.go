package c12

import "verif/harness/pbt"

// Bounded-exhaustive part of (a): for two back-to-back small messages, EVERY stream octet as fault
// position (EOF and error), with the writer's octets delivered whole, one octet at a time, or in
// exactly two segments split at EVERY offset, through every reading API (client side) and through
// the server's read path. Round 9, client side: the same two messages with the reading calls MIXED on
// the one Conn - every ordered pair of different calls (first message with one, second with the
// other, the read after the last with the first again), every plan without fault, and every fault
// position under the plans "whole stream in one segment" and "every octet alone". The finite space
// is stated by the loops below. Round 10: a message, a frame of k = 0..11 octets (too short for a DNS
// header, but a frame all the same), another message - every k, every reading call for the short frame
// times every reading call for the messages around it, every plan without fault, every EOF position
// with the stream delivered whole (client side); the same three frames through the server's read
// path under every plan (thorough tier).

var enumSizes = [][2]int{{12, 12}, {12, 13}, {13, 32}, {33, 12}, {19, 31}}

func eachSmallFraming(dirs []string, apis map[string][]string, emit func(Framing)) {
	for _, dir := range dirs {
		for _, api := range apis[dir] {
			for _, sz := range enumSizes {
				total := 2 + sz[0] + 2 + sz[1]
				plans := [][]int{nil, {1}}
				for k := 1; k < total; k++ {
					plans = append(plans, []int{k, 0})
				}
				for pi, plan := range plans {
					base := Framing{Dir: dir, API: api, Sizes: []int{sz[0], sz[1]}, Seeds: []byte{3, 200}, OneWrite: true, Chunks: plan, ReplySizes: []int{12, 33}}
					emit(base) // no fault
					if pi > 2 && pi%3 != 0 && dir == "server" {
						continue // server: every split without fault, every fault with three plans (cost)
					}
					for k := 0; k <= total; k++ {
						for _, f := range []string{"eof", "err"} {
							c := base
							c.Fault, c.FaultAt, c.FaultSide = f, k, "read"
							emit(c)
						}
					}
				}
			}
		}
	}
}

func eachMixedRead(emit func(Framing)) {
	for _, first := range readAPIs {
		for _, second := range readAPIs {
			if first == second {
				continue
			}
			for _, sz := range enumSizes {
				total := 2 + sz[0] + 2 + sz[1]
				plans := [][]int{nil, {1}}
				for k := 1; k < total; k++ {
					plans = append(plans, []int{k, 0})
				}
				for pi, plan := range plans {
					base := Framing{Dir: "client-read", API: "mixed", APIs: []string{first, second}, Sizes: []int{sz[0], sz[1]}, Seeds: []byte{3, 200}, OneWrite: true, Chunks: plan}
					emit(base)
					if pi > 1 {
						continue
					}
					for k := 0; k <= total; k++ {
						for _, f := range []string{"eof", "err"} {
							c := base
							c.Fault, c.FaultAt, c.FaultSide = f, k, "read"
							emit(c)
						}
					}
				}
			}
		}
	}
}

// eachShortFrame: sizes (12, k, 13) for k = 0..11. Client side: APIs [x, y] - the messages are taken with
// x, the short frame is met with y, the read after the last message is y again.
func eachShortFrame(dir string, emit func(Framing)) {
	for k := 0; k < 12; k++ {
		total := 2 + 12 + 2 + k + 2 + 13
		plans := [][]int{nil, {1}}
		for j := 1; j < total; j++ {
			plans = append(plans, []int{j, 0})
		}
		for seed := byte(0); seed < 4; seed++ { // the four kinds of content of runtBody
			if dir == "server" {
				for _, api := range []string{"Write", "WriteMsg"} {
					for _, plan := range plans {
						emit(Framing{Dir: dir, API: api, Sizes: []int{12, k, 13}, Seeds: []byte{3, seed, 200}, OneWrite: true, Chunks: plan, ReplySizes: []int{12, 33}})
					}
				}
				continue
			}
			for _, x := range readAPIs {
				for _, y := range readAPIs {
					for pi, plan := range plans {
						if seed != 3 && pi > 1 {
							continue // every split with the content that reads as lengths; whole / octet by octet with every content
						}
						base := Framing{Dir: dir, API: "mixed", APIs: []string{x, y}, Sizes: []int{12, k, 13}, Seeds: []byte{3, seed, 200}, OneWrite: true, Chunks: plan}
						emit(base)
						if pi > 0 || seed != 3 {
							continue // every EOF position with the stream delivered whole
						}
						for at := 0; at <= total; at++ {
							c := base
							c.Fault, c.FaultAt, c.FaultSide = "eof", at, "read"
							emit(c)
						}
					}
				}
			}
		}
	}
}

func init() {
	apis := map[string][]string{
		"client-read": {"ReadMsg", "ReadMsgHeader", "ReadMsgHeaderHdr", "Read"},
		"server":      {"Write", "WriteMsg"},
	}
	pbt.RegisterEnum(pbt.Enum[Framing]{Name: "framing-enum-client", Exhaustive: true, Check: checkFraming,
		Each: func(emit func(Framing)) {
			eachSmallFraming([]string{"client-read"}, apis, emit)
			eachMixedRead(emit)
			eachShortFrame("client-read", emit)
		}})
	pbt.RegisterEnum(pbt.Enum[Framing]{Name: "framing-enum-server", Tiers: "thorough", Exhaustive: true, Check: checkFraming,
		Each: func(emit func(Framing)) {
			eachSmallFraming([]string{"server"}, apis, emit)
			eachShortFrame("server", emit)
		}})
}
