package c12

import (
	"encoding/binary"
	"fmt"
	"net"
	"strings"

	"github.com/miekg/dns"

	"verif/harness/wiremodel"
)

// Round 8: what the requests and replies of the cross-talk rounds say besides the token, the
// messages that cannot be encoded, and an independent reading of what a client received.
//
// Every message names hosts under one of three zones z0/z1/z2.shared.test. - the zone is chosen by
// (client + request ordinal) mod 3, so that messages of different clients share name suffixes - and
// every fact of a message is a function of (client, ordinal, token) that the harness recomputes on
// the other side. With Msg.Compress the names are written as pointers; whatever state an encoder
// keeps between two messages (pointer tables, scratch buffers, the MAC of a signature chain) then
// decides which octets the next client receives.

func zoneName(cl, q int) string { return fmt.Sprintf("z%d.shared.test.", (cl+q)%3) }

// requestFacts: owner and target of the NS record in the authority section and the owner of the
// TXT record in the additional section of request (cl, q).
func requestFacts(cl, q int) (nsOwner, nsTarget, txtOwner string) {
	return zoneName(cl, q), fmt.Sprintf("n%d.%s", q, zoneName(cl, q+1)), fmt.Sprintf("o%d.%s", cl, zoneName(cl, q))
}

// replyFacts lists, in a fixed order, everything the reply to request (cl, q) with token tok says.
func replyFacts(cl, q int, tok string) []string {
	qname := tok + ".x.test."
	host := fmt.Sprintf("h%d.%s", cl, zoneName(cl, q))
	return []string{
		"question " + qname,
		"answer[0] " + qname + " TXT re:" + tok,
		"answer[1] a." + qname + " CNAME " + host,
		"answer[2] " + host + " A " + fmt.Sprintf("192.0.2.%d", 1+cl%250),
		"authority[0] " + zoneName(cl, q) + " NS " + fmt.Sprintf("n%d.shared.test.", q),
		"OPT option re:" + tok,
	}
}

// fillReply puts these facts into m (a reply made by SetReply).
func fillReply(m *dns.Msg, cl, q int, tok string) {
	qname := tok + ".x.test."
	host := fmt.Sprintf("h%d.%s", cl, zoneName(cl, q))
	m.Answer = []dns.RR{
		&dns.TXT{Hdr: dns.RR_Header{Name: qname, Rrtype: dns.TypeTXT, Class: dns.ClassINET, Ttl: 1}, Txt: []string{"re:" + tok}},
		&dns.CNAME{Hdr: dns.RR_Header{Name: "a." + qname, Rrtype: dns.TypeCNAME, Class: dns.ClassINET, Ttl: 1}, Target: host},
		&dns.A{Hdr: dns.RR_Header{Name: host, Rrtype: dns.TypeA, Class: dns.ClassINET, Ttl: 1}, A: net.IPv4(192, 0, 2, byte(1+cl%250)).To4()},
	}
	m.Ns = []dns.RR{&dns.NS{Hdr: dns.RR_Header{Name: zoneName(cl, q), Rrtype: dns.TypeNS, Class: dns.ClassINET, Ttl: 1}, Ns: fmt.Sprintf("n%d.shared.test.", q)}}
	o := &dns.OPT{Hdr: dns.RR_Header{Name: ".", Rrtype: dns.TypeOPT}}
	o.SetUDPSize(1232)
	o.Option = append(o.Option, &dns.EDNS0_LOCAL{Code: tokOpt, Data: []byte("re:" + tok)})
	m.Extra = []dns.RR{o}
}

// libFacts reads the same list off a message the library decoded.
func libFacts(m *dns.Msg) []string {
	f := make([]string, 6)
	for i := range f {
		f[i] = "<missing>"
	}
	if len(m.Question) == 1 {
		f[0] = "question " + m.Question[0].Name
	}
	for i, rr := range m.Answer {
		if i > 2 {
			break
		}
		switch x := rr.(type) {
		case *dns.TXT:
			f[1+i] = fmt.Sprintf("answer[%d] %s TXT %s", i, x.Hdr.Name, strings.Join(x.Txt, "|"))
		case *dns.CNAME:
			f[1+i] = fmt.Sprintf("answer[%d] %s CNAME %s", i, x.Hdr.Name, x.Target)
		case *dns.A:
			f[1+i] = fmt.Sprintf("answer[%d] %s A %s", i, x.Hdr.Name, x.A)
		default:
			f[1+i] = fmt.Sprintf("answer[%d] %s", i, rr.String())
		}
	}
	if len(m.Ns) == 1 {
		if x, ok := m.Ns[0].(*dns.NS); ok {
			f[4] = "authority[0] " + x.Hdr.Name + " NS " + x.Ns
		}
	}
	if o := m.IsEdns0(); o != nil {
		for _, e := range o.Option {
			if l, ok := e.(*dns.EDNS0_LOCAL); ok && l.Code == tokOpt {
				f[5] = "OPT option " + string(l.Data)
			}
		}
	}
	if len(m.Answer) != 3 || len(m.Ns) != 1 {
		f = append(f, fmt.Sprintf("%d answer and %d authority records", len(m.Answer), len(m.Ns)))
	}
	return f
}

func plainName(n wiremodel.Name) string {
	var sb strings.Builder
	for _, l := range n {
		sb.Write(l)
		sb.WriteByte('.')
	}
	if len(n) == 0 {
		return "."
	}
	return sb.String()
}

// wireFacts reads the list off the octets a client took from its transport, with the harness's own
// decoder (wiremodel.Decode follows the compression pointers itself); nothing of the library is used.
func wireFacts(raw []byte) ([]string, error) {
	w, err := wiremodel.Decode(raw, nil)
	if err != nil {
		return nil, err
	}
	f := make([]string, 6)
	for i := range f {
		f[i] = "<missing>"
	}
	if len(w.Q) == 1 {
		f[0] = "question " + plainName(w.Q[0].Name)
	}
	for i, r := range w.An {
		if i > 2 {
			break
		}
		owner := plainName(r.Name)
		switch {
		case r.Type == wiremodel.TTXT && len(r.Fields) == 1:
			var parts []string
			for _, p := range r.Fields[0].L {
				parts = append(parts, string(p))
			}
			f[1+i] = fmt.Sprintf("answer[%d] %s TXT %s", i, owner, strings.Join(parts, "|"))
		case r.Type == wiremodel.TCNAME && len(r.Fields) == 1:
			f[1+i] = fmt.Sprintf("answer[%d] %s CNAME %s", i, owner, plainName(r.Fields[0].N))
		case r.Type == wiremodel.TA && len(r.Fields) == 1:
			f[1+i] = fmt.Sprintf("answer[%d] %s A %s", i, owner, net.IP(r.Fields[0].B))
		default:
			f[1+i] = fmt.Sprintf("answer[%d] %s type %d", i, owner, r.Type)
		}
	}
	if len(w.Ns) == 1 && w.Ns[0].Type == wiremodel.TNS && len(w.Ns[0].Fields) == 1 {
		f[4] = "authority[0] " + plainName(w.Ns[0].Name) + " NS " + plainName(w.Ns[0].Fields[0].N)
	}
	if i := w.Opt(); i >= 0 && len(w.Ex[i].Fields) == 1 {
		for _, o := range w.Ex[i].Fields[0].Opts {
			if o.Code == tokOpt {
				f[5] = "OPT option " + string(o.Data)
			}
		}
	}
	if len(w.An) != 3 || len(w.Ns) != 1 {
		f = append(f, fmt.Sprintf("%d answer and %d authority records", len(w.An), len(w.Ns)))
	}
	return f, nil
}

func diffFacts(got, want []string) string {
	var d []string
	for i := range want {
		if i >= len(got) || got[i] != want[i] {
			g := "<nothing>"
			if i < len(got) {
				g = got[i]
			}
			d = append(d, fmt.Sprintf("%q where the handler wrote %q", g, want[i]))
		}
	}
	for i := len(want); i < len(got); i++ {
		d = append(d, got[i])
	}
	return strings.Join(d, "; ")
}

// failKinds: the ways a message fails to encode AFTER names have been written (RFC 1035: a
// character-string holds at most 255 octets, a label at most 63, a name in a record must be fully
// qualified for this library), in the answer, authority or additional section.
var failKinds = []string{"txt300", "txt300-extra", "nonfqdn", "label64"}

// makeUnencodable turns m (question set; for a reply Extra may hold the OPT) into a message that
// Pack must refuse. Before the offending record it names hosts of the neighbouring clients in all
// three zones, at offsets that differ from those of a valid message.
func makeUnencodable(m *dns.Msg, kind string, cl, q int) {
	h := func(name string, t uint16) dns.RR_Header {
		return dns.RR_Header{Name: name, Rrtype: t, Class: dns.ClassINET, Ttl: 1}
	}
	for j := 0; j < 3; j++ {
		m.Answer = append(m.Answer, &dns.CNAME{Hdr: h(fmt.Sprintf("w%d.z%d.shared.test.", q, j), dns.TypeCNAME), Target: fmt.Sprintf("h%d.z%d.shared.test.", cl+j, (j+1)%3)})
	}
	m.Ns = append(m.Ns, &dns.NS{Hdr: h(zoneName(cl, q+1), dns.TypeNS), Ns: fmt.Sprintf("n%d.shared.test.", q+1)})
	switch kind {
	case "txt300":
		m.Answer = append(m.Answer, &dns.TXT{Hdr: h("b.shared.test.", dns.TypeTXT), Txt: []string{strings.Repeat("x", 300)}})
	case "txt300-extra":
		m.Extra = append(m.Extra, &dns.TXT{Hdr: h("b.shared.test.", dns.TypeTXT), Txt: []string{strings.Repeat("x", 300)}})
	case "nonfqdn":
		m.Answer = append(m.Answer, &dns.CNAME{Hdr: h("c.shared.test.", dns.TypeCNAME), Target: "h.z1.shared.test"})
	default: // label64
		m.Ns = append(m.Ns, &dns.NS{Hdr: h(zoneName(cl, q), dns.TypeNS), Ns: strings.Repeat("l", 64) + ".shared.test."})
	}
}

func (c Cross) failKind(cl, q int) string {
	if len(c.FailKinds) == 0 {
		return "txt300"
	}
	return c.FailKinds[(cl*7+q)%len(c.FailKinds)]
}

// handlerFails / clientFails: does the handler of (the client sending) request (cl, q) first try a
// message that cannot be encoded?
func (c Cross) handlerFails(cl, q int) bool { return c.FailMod > 0 && (cl+q)%c.FailMod == 0 }
func (c Cross) clientFails(cl, q int) bool  { return c.ClientFail && c.FailMod > 0 && (cl+2*q)%2 == 0 }

// teeConn keeps the octets its user reads; wrapped around the transport of every second client, so
// that what arrived can be decoded without the library (the other clients hand the library the
// transport itself, as before). One goroutine uses it; no lock.
type teeConn struct {
	net.Conn
	got []byte
}

func (t *teeConn) Read(b []byte) (int, error) {
	n, err := t.Conn.Read(b)
	t.got = append(t.got, b[:n]...)
	return n, err
}

// teePacketConn is teeConn around a datagram transport: dns.Conn takes a conn for a datagram conn
// when it is a net.PacketConn.
type teePacketConn struct {
	*teeConn
	pc net.PacketConn
}

func (t teePacketConn) ReadFrom(b []byte) (int, net.Addr, error) {
	n, a, err := t.pc.ReadFrom(b)
	t.got = append(t.got, b[:n]...)
	return n, a, err
}
func (t teePacketConn) WriteTo(b []byte, a net.Addr) (int, error) { return t.pc.WriteTo(b, a) }

func newTee(c net.Conn) (net.Conn, *teeConn) {
	t := &teeConn{Conn: c}
	if pc, ok := c.(net.PacketConn); ok {
		return teePacketConn{t, pc}, t
	}
	return t, t
}

// message returns what was read since the last call as one DNS message: a datagram as it is, a
// stream read as two octets of length followed by exactly that many octets (RFC 1035 4.2.2).
func (t *teeConn) message(datagram bool) ([]byte, error) {
	raw := t.got
	t.got = nil
	if datagram {
		return raw, nil
	}
	if len(raw) < 2 || int(binary.BigEndian.Uint16(raw)) != len(raw)-2 {
		return nil, fmt.Errorf("the %d octets read from the stream for one message are not a two-octet length plus that many octets: %s", len(raw), hexHead(raw))
	}
	return raw[2:], nil
}
