package c02

import (
	"encoding/hex"
	"testing"

	"verif/harness/pbt"
)

var seedMsgs = []string{
	"000100000000000000000000",                                                                       // header only
	"00010100000100000000000003777777076578616d706c6503636f6d0000010001",                             // query
	"00018180000100010000000003777777076578616d706c6503636f6d0000010001c00c000100010000012c000401020304", // response with pointer
	"000181800001000000000000c00c00010001",                                                           // self pointer
	"000181800001000000000000c00ec00c00010001",                                                       // mutual pointers
	"0001818000000000000000010000290200000080000000",                                                 // lone OPT
	"00018180000000010000000001780000400001000000050007000101000300020050",                           // SVCB
	"0001818000000001000000000178000032000100000005000f0100000004aabbccdd0200060000000001",           // NSEC3-ish
	"0001ffffffffffffffffffff",                                                                       // maximal counts
}

func FuzzUnpackMsg(f *testing.F) {
	for _, s := range seedMsgs {
		b, _ := hex.DecodeString(s)
		f.Add(b)
	}
	f.Fuzz(func(t *testing.T, in []byte) {
		if len(in) > 65535 {
			in = in[:65535]
		}
		c := wireCase{Input: in, Kind: "native-fuzz"}
		pbt.ReportFuzz(t, "msg-unpack", c, pbt.Guard(checkMsg, c))
	})
}

func FuzzUnpackRR(f *testing.F) {
	for _, s := range seedMsgs {
		b, _ := hex.DecodeString(s)
		if len(b) > 12 {
			f.Add(b[12:], uint16(0))
		}
		f.Add(b, uint16(12))
	}
	f.Fuzz(func(t *testing.T, in []byte, off uint16) {
		if len(in) > 65535 {
			in = in[:65535]
		}
		c := wireCase{Input: in, Kind: "native-fuzz", Off: int(off) % (len(in) + 1)}
		pbt.ReportFuzz(t, "rr-unpack", c, pbt.Guard(checkRR, c))
	})
}

func FuzzUnpackName(f *testing.F) {
	for _, s := range seedMsgs {
		b, _ := hex.DecodeString(s)
		f.Add(b, uint16(12))
	}
	f.Add([]byte{3, 'w', 'w', 'w', 0xc0, 0}, uint16(0))
	f.Fuzz(func(t *testing.T, in []byte, off uint16) {
		if len(in) > 65535 {
			in = in[:65535]
		}
		c := wireCase{Input: in, Kind: "native-fuzz", Off: int(off) % (len(in) + 1)}
		pbt.ReportFuzz(t, "name-unpack", c, pbt.Guard(checkName, c))
	})
}
