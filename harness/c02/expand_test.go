package c02

// Text expansion. The library hands names, character-strings and octet strings out as
// presentation text, so one RDATA octet becomes up to four characters (\DDD) or two (\" \\ \. ...),
// hex fields double, and a two-octet compression pointer becomes a whole name. Everything in a
// decoder that counts, indexes or buffers the *text* (an offset kept in 16 bits, a scratch buffer of
// "enough" characters, a length computed from the octet count) is only exercised by input that is
// at the same time maximal in size and made of octets that need escaping. The classes below are the
// product
//
//	record type (every type of the layout table) x field kind x octet class x item count x item length
//
// in an enumerated form (escape-expansion, pointer-expansion) and in a generated form (escape-heavy,
// which also damages the result).

import (
	"encoding/binary"
	"fmt"

	"pgregory.net/rapid"

	"verif/harness/gen"
	"verif/harness/pbt"
	wm "verif/harness/wiremodel"
)

// fillClass is a class of octets by the way they print.
type fillClass struct {
	Name string
	Pat  []byte
}

var fillClasses = []fillClass{
	{"ddd-00", []byte{0x00}},        // \000: four characters per octet
	{"ddd-ff", []byte{0xff}},        // \255 (also the octet that looks like a pointer)
	{"ddd-7f", []byte{0x7f}},        // \127, the first non-printing octet above '~'
	{"quote", []byte{'"'}},          // two characters per octet in strings and names
	{"backslash", []byte{'\\'}},     // two characters; escaped again by the octet-string fields
	{"dot", []byte{'.'}},            // special in names only
	{"special", []byte(" ;()@$',")}, // the other characters some printer escapes (names, alpn)
	{"mixed", []byte{'a', 0x00, '"', 0xff, '\\', '.', '1', 0x1f, 0x7e, 0x80}}, // escapes of every width next to digits and letters
	{"plain", []byte{'a'}}, // control: no expansion
}

func (fc fillClass) fill(n int) []byte {
	b := make([]byte, n)
	for i := range b {
		b[i] = fc.Pat[i%len(fc.Pat)]
	}
	return b
}

// name of 255 octets: four long labels, or 127 one-octet labels (the most label separators)
func (fc fillClass) name(manyLabels bool) wm.Name {
	var n wm.Name
	if manyLabels {
		for i := 0; i < 127; i++ {
			n = append(n, []byte{fc.Pat[i%len(fc.Pat)]})
		}
		return n
	}
	for _, l := range []int{63, 63, 63, 61} {
		n = append(n, fc.fill(l))
	}
	return n
}

// kinds of fields by what expands in them
func textField(sp wm.FieldSpec) bool {
	switch sp.K {
	case wm.NameC, wm.NameU, wm.Names, wm.Str, wm.Strs, wm.GW, wm.Params, wm.Opts:
		return true
	case wm.Rest:
		return sp.R == wm.ReprOctet || sp.R == wm.ReprRaw || sp.R == wm.ReprPriv || sp.R == wm.ReprTxt
	}
	return false
}

func elasticField(sp wm.FieldSpec) bool {
	switch sp.K {
	case wm.Rest, wm.L16, wm.HIPHdr, wm.Params, wm.Opts, wm.Strs:
		return true
	}
	return false
}

func layoutHas(typ uint16, pred func(wm.FieldSpec) bool) bool {
	l, _ := wm.LayoutOf(typ)
	for _, sp := range l {
		if pred(sp) {
			return true
		}
	}
	return false
}

// svcParamsOf: parameters whose values print with escapes - alpn ids, dohpath, an unknown key -
// each filled with the class, in ascending key order, together about `budget` octets
func svcParamsOf(fc fillClass, budget int) []wm.Option {
	per := max(budget/3, 4)
	var alpn []byte
	for len(alpn)+256 <= per {
		alpn = append(alpn, 255)
		alpn = append(alpn, fc.fill(255)...)
	}
	if len(alpn) == 0 {
		alpn = append([]byte{byte(min(per, 255) - 1)}, fc.fill(min(per, 255)-1)...)
	}
	return []wm.Option{{Code: 1, Data: alpn}, {Code: 7, Data: fc.fill(per)}, {Code: 65280, Data: fc.fill(per)}}
}

// ednsOptionsOf: options whose bodies print as text or hex: NSID, extended error with text, a local option
func ednsOptionsOf(fc fillClass, budget int) []wm.Option {
	// (the NSID stays short: OPT.String prints it octet by octet with repeated concatenation, which is
	// quadratic - slow, not a panic, and outside what C02 says about printing)
	nsid := min(budget/3, 300)
	per := max((budget-nsid)/2, 4)
	return []wm.Option{{Code: 3, Data: fc.fill(nsid)}, {Code: 15, Data: append([]byte{0, 1}, fc.fill(per)...)}, {Code: 65001, Data: fc.fill(per)}}
}

// expandRec: a record of the type whose every variable-length field is as long as its format allows
// (names 255 octets, character-strings and one-octet-length fields 255) and filled with the class;
// the fields without an upper limit of their own share `budget` octets; a list of
// character-strings is nstr strings of slen octets.
func expandRec(typ uint16, fc fillClass, manyLabels bool, budget, nstr, slen int) wm.Rec {
	r := wm.Rec{Name: fc.name(manyLabels), Type: typ, Class: 1, TTL: 9}
	layout, _ := wm.LayoutOf(typ)
	nel := 0
	for _, sp := range layout {
		if elasticField(sp) && sp.K != wm.Strs {
			nel++
		}
	}
	per := 0
	if nel > 0 {
		per = budget / nel
	}
	for _, sp := range layout {
		f := wm.Field{K: sp.K}
		switch sp.K {
		case wm.U8, wm.U16, wm.U32, wm.U48, wm.U64:
			f.U = 1
			if sp.Hint == "gwtype" || sp.Hint == "amtgwtype" {
				f.U = 3
			}
		case wm.NameC, wm.NameU:
			f.N = fc.name(manyLabels)
		case wm.Names:
			f.NL = []wm.Name{fc.name(manyLabels), fc.name(!manyLabels), fc.name(manyLabels)}
		case wm.Str, wm.L8:
			f.B = fc.fill(255)
		case wm.Strs:
			for i := 0; i < nstr; i++ {
				f.L = append(f.L, fc.fill(slen))
			}
		case wm.Rest, wm.L16:
			f.B = fc.fill(per)
		case wm.IPv4:
			f.B = []byte{192, 0, 2, 1}
		case wm.IPv6:
			f.B = append([]byte{0x20, 1}, make([]byte, 14)...)
		case wm.Bitmap:
			f.T = []uint16{1, 255, 256, 65534}
		case wm.GW:
			f.U, f.N = 3, fc.name(manyLabels)
		case wm.HIPHdr:
			f.U, f.B, f.B2 = 1, fc.fill(255), fc.fill(per)
		case wm.APLs:
			f.APL = []wm.APLItem{{Family: 1, Prefix: 8, Afd: []byte{10}}}
		case wm.Params:
			f.Opts = svcParamsOf(fc, per)
		case wm.Opts:
			f.Opts = ednsOptionsOf(fc, per)
		}
		r.Fields = append(r.Fields, f)
	}
	if typ == wm.TOPT {
		r.Name, r.Class, r.TTL = wm.Name{}, 4096, 0
	}
	return r
}

// oneRecordMsg puts the record into the given section of an otherwise empty response.
func oneRecordMsg(r wm.Rec, sec int) ([]byte, bool) {
	rr, err := wm.EncodeRR(r)
	if err != nil || 12+len(rr) > 65535 {
		return nil, false
	}
	w := []byte{0, 9, 0x84, 0, 0, 0, 0, 0, 0, 0, 0, 0}
	w[7+2*sec] = 1
	return append(w, rr...), true
}

func expandTypes() []uint16 {
	return append(append([]uint16{}, gen.AllTypes...), wm.TOPT, 65281)
}

// strPlans: number of character-strings x their length. The counts step over the places where the
// text of all strings together passes 2^15 and 2^16 characters at four and at two characters per octet.
var strPlans = [][2]int{{1, 255}, {2, 255}, {17, 255}, {33, 255}, {64, 255}, {65, 255}, {66, 255}, {128, 255}, {129, 255}, {130, 255},
	{200, 255}, {255, 255}, {256, 254}, {500, 127}, {4000, 15}, {16000, 3}}
var strPlansShort = [][2]int{{65, 255}, {66, 255}, {129, 255}, {130, 255}, {255, 255}}

func eachEscapeExpansion(emit func(wireCase)) {
	put := func(r wm.Rec, shape string, fc fillClass) {
		sec := 0
		if r.Type == wm.TOPT {
			sec = 2
		}
		if w, ok := oneRecordMsg(r, sec); ok {
			emit(wireCase{Input: w, Kind: "expand-" + shape + "-" + fc.Name, Off: 12, Valid: true})
		}
	}
	for _, typ := range expandTypes() {
		isText := layoutHas(typ, textField)
		isStrs := layoutHas(typ, func(sp wm.FieldSpec) bool { return sp.K == wm.Strs })
		for ci, fc := range fillClasses {
			// (1) every field at the maximum of its own format
			if isText || ci < 2 {
				for _, many := range []bool{false, true} {
					put(expandRec(typ, fc, many, 80, 3, 255), "fields", fc)
				}
			}
			// (2) lists of character-strings: count x length
			if isStrs {
				plans := strPlansShort
				if typ == wm.TTXT || pbt.Thorough() {
					plans = strPlans
				}
				for _, p := range plans {
					r := expandRec(typ, fc, false, 0, p[0], p[1])
					r.Name = wm.Name{}
					put(r, fmt.Sprintf("strings-%dx%d", p[0], p[1]), fc)
				}
				continue
			}
			// (3) the fields that may take the rest of the RDATA, at 16 K, 32 K and everything
			if !layoutHas(typ, elasticField) {
				continue
			}
			textual := layoutHas(typ, func(sp wm.FieldSpec) bool { return elasticField(sp) && textField(sp) })
			if !textual && ci != 1 { // hex / base64 print the same for every octet value
				continue
			}
			for _, budget := range []int{16500, 33000, 65000} {
				label := fmt.Sprintf("rest-%dk", budget/1000)
				r := expandRec(typ, fc, false, budget, 0, 0)
				r.Name = wm.Name{[]byte("x")}
				for i := range r.Fields { // keep the other fields short so that the budget is what decides the size
					switch r.Fields[i].K {
					case wm.NameC, wm.NameU:
						r.Fields[i].N = wm.Name{[]byte("n")}
					case wm.Names:
						r.Fields[i].NL = r.Fields[i].NL[:1]
					case wm.GW:
						r.Fields[i].N = wm.Name{[]byte("g")}
					}
				}
				for len(wm.EncodeRdata(r)) > 65200 && budget > 0 {
					budget -= 400
					rr := expandRec(typ, fc, false, budget, 0, 0)
					rr.Name = r.Name
					r = rr
				}
				put(r, label, fc)
			}
		}
	}
}

// pointerMsg: very many names, each written as a two-octet pointer to the name of the first
// question, which is 255 octets long and filled with the class. shape says where the pointers stand.
func pointerMsg(fc fillClass, manyLabels bool, shape string, size int) []byte {
	w := []byte{0, 9, 0x84, 0, 0, 1, 0, 0, 0, 0, 0, 0}
	w = append(w, wm.EncodeName(fc.name(manyLabels))...)
	w = append(w, 0, 1, 0, 1)
	room := size - len(w)
	switch shape {
	case "hip-servers": // HIP, owner root, HIT and public key of length 0, then the rendezvous servers
		n := max((room-15)/2, 1)
		rd := []byte{0, 1, 0, 0}
		for i := 0; i < n; i++ {
			rd = append(rd, 0xC0, 12)
		}
		w = append(w, 0, 0, 55, 0, 1, 0, 0, 0, 9)
		w = binary.BigEndian.AppendUint16(w, uint16(len(rd)))
		w = append(w, rd...)
		binary.BigEndian.PutUint16(w[6:], 1)
	case "ns-records": // owner and target both pointers
		n := max(room/14, 1)
		for i := 0; i < n; i++ {
			w = append(w, 0xC0, 12, 0, 2, 0, 1, 0, 0, 0, 9, 0, 2, 0xC0, 12)
		}
		binary.BigEndian.PutUint16(w[8:], uint16(n))
	case "minfo-records": // two names in the RDATA
		n := max(room/16, 1)
		for i := 0; i < n; i++ {
			w = append(w, 0xC0, 12, 0, 14, 0, 1, 0, 0, 0, 9, 0, 4, 0xC0, 12, 0xC0, 12)
		}
		binary.BigEndian.PutUint16(w[10:], uint16(n))
	default: // "questions"
		n := max(room/6, 1)
		for i := 0; i < n; i++ {
			w = append(w, 0xC0, 12, 0, 1, 0, 1)
		}
		binary.BigEndian.PutUint16(w[4:], uint16(n+1))
	}
	return w
}

var pointerShapes = []string{"hip-servers", "ns-records", "minfo-records", "questions"}

func eachPointerExpansion(emit func(wireCase)) {
	put := func(fc fillClass, many bool, shape string, size int) {
		labels := "4-labels"
		if many {
			labels = "127-labels"
		}
		emit(wireCase{Input: pointerMsg(fc, many, shape, size), Kind: fmt.Sprintf("pointer-expand-%s-%d-%s-%s", shape, size, labels, fc.Name),
			Valid: true, Huge: size > 1000})
	}
	for _, fc := range fillClasses {
		for _, shape := range pointerShapes {
			for _, many := range []bool{false, true} {
				put(fc, many, shape, 700) // small enough to be printed as well
				put(fc, many, shape, 4000)
			}
		}
	}
	for _, fc := range []fillClass{fillClasses[0], fillClasses[7], fillClasses[8]} {
		for _, shape := range pointerShapes {
			put(fc, false, shape, 16000)
		}
	}
	// the largest message: the RDATA of one HIP record is 32 K pointers
	put(fillClasses[8], true, "hip-servers", 65534)  // 127 one-octet labels of letters
	put(fillClasses[0], false, "hip-servers", 65534) // four labels of NUL octets: the most text per pointer
	if pbt.Thorough() {
		for _, fc := range fillClasses {
			for _, shape := range pointerShapes {
				put(fc, true, shape, 16000)
				put(fc, false, shape, 65534)
			}
		}
	}
}

// genEscapeHeavy is the generated form: the same dimensions drawn freely (any octet pattern, any
// count and length, any section, several records), then possibly damaged.
func genEscapeHeavy(t *rapid.T) wireCase {
	var fc fillClass
	if rapid.IntRange(0, 2).Draw(t, "ownpat") == 0 {
		fc = fillClass{Name: "drawn", Pat: gen.Bytes(t, rapid.IntRange(1, 6).Draw(t, "patn"), false)}
	} else {
		fc = rapid.SampledFrom(fillClasses).Draw(t, "class")
	}
	many := rapid.Bool().Draw(t, "manylabels")
	big := rapid.IntRange(0, 3).Draw(t, "big") == 0
	var w []byte
	kind := ""
	huge := false
	off := 12
	switch rapid.IntRange(0, 9).Draw(t, "shape") {
	case 0, 1, 2: // lists of character-strings
		typ := rapid.SampledFrom([]uint16{wm.TTXT, wm.TSPF, wm.TAVC, wm.TNINFO, wm.TRESINFO}).Draw(t, "stype")
		slen := rapid.SampledFrom([]int{255, 255, 255, 254, 128, 127, 64, 16, 1, 0}).Draw(t, "slen")
		maxn := 65000 / (slen + 1)
		if !big {
			maxn = min(maxn, 40)
		}
		nstr := rapid.IntRange(1, maxn).Draw(t, "nstr")
		r := expandRec(typ, fc, many, 0, nstr, slen)
		if rapid.Bool().Draw(t, "rootowner") {
			r.Name = wm.Name{}
		}
		w, _ = oneRecordMsg(r, rapid.IntRange(0, 2).Draw(t, "sec"))
		off = 12
		kind = "strings"
		huge = nstr > 2000
	case 3, 4: // pointers to a long name
		shape := rapid.SampledFrom(pointerShapes).Draw(t, "pshape")
		size := rapid.IntRange(300, 3000).Draw(t, "psize")
		if big {
			size = rapid.IntRange(3000, 30000).Draw(t, "pbig")
		}
		w = pointerMsg(fc, many, shape, size)
		off = 12 + 255 + 4
		kind = "pointers"
		huge = size > 1000
	default: // any type, every field at its maximum, the open-ended fields sharing a budget
		typ := rapid.SampledFrom(expandTypes()).Draw(t, "type")
		budget := rapid.IntRange(0, 600).Draw(t, "budget")
		if big {
			budget = rapid.IntRange(600, 64000).Draw(t, "bigbudget")
		}
		r := expandRec(typ, fc, many, budget, rapid.IntRange(1, 5).Draw(t, "nstr"), 255)
		for len(wm.EncodeRdata(r)) > 65000 && budget > 0 {
			budget /= 2
			r = expandRec(typ, fc, many, budget, 3, 255)
		}
		sec := rapid.IntRange(0, 2).Draw(t, "sec")
		w, _ = oneRecordMsg(r, sec)
		kind = "fields"
	}
	if w == nil {
		w = []byte{0, 9, 0x84, 0, 0, 0, 0, 0, 0, 0, 0, 0}
	}
	// damage: none, cut, one octet changed (a length octet as likely as any), RDLENGTH one off
	switch rapid.IntRange(0, 5).Draw(t, "damage") {
	case 0:
		w = w[:rapid.IntRange(0, len(w)).Draw(t, "cut")]
		kind += "+cut"
	case 1:
		if len(w) > 12 {
			p := rapid.IntRange(12, len(w)-1).Draw(t, "p")
			w = append([]byte{}, w...)
			w[p] = rapid.SampledFrom([]byte{0, 1, 0x3f, 0x40, 0xc0, 0xff, 254, 255}).Draw(t, "v")
			kind += "+octet"
		}
	}
	return wireCase{Input: w, Kind: "escape-heavy-" + kind + "-" + fc.Name, Off: min(off, len(w)), Valid: true, Huge: huge}
}

func init() {
	pbt.RegisterEnum(pbt.Enum[wireCase]{Name: "escape-expansion", Exhaustive: true, Each: eachEscapeExpansion, Check: checkMsg})
	pbt.RegisterEnum(pbt.Enum[wireCase]{Name: "pointer-expansion", Exhaustive: true, Each: eachPointerExpansion, Check: checkMsg})
	pbt.Register(pbt.Sub[wireCase]{Name: "escape-heavy", Weight: 1, Gen: genEscapeHeavy, Check: checkMsg})
	pbt.Register(pbt.Sub[wireCase]{Name: "escape-heavy-rr", Weight: 0.4, Gen: genEscapeHeavy, Check: checkRR})
}
