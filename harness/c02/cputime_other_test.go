//go:build !linux

package c02

import "time"

func threadCPU() (time.Duration, bool) { return 0, false }
