package c02

// Every truncation of a well-formed message. The statement quantifies over "all byte strings ... in
// particular truncations ... of valid messages": what arrives when a datagram is cut short, or when
// a read buffer was too small. For ONE message that is a small enumerable space - the len+1
// prefixes, the header (and with it the four section counts) left as it was - but the generators
// only ever drew ONE cut per message, uniformly over a few hundred offsets, and mostly damaged the
// result further (mutate: 1-3 mutations in a row). The offsets at which a decoder changes from one
// branch to another are few and specific: behind the first octet of a two-octet compression
// pointer, behind a label's length octet, inside the ten fixed octets of a record header, one octet
// short of the RDATA's end. A shortcut that looks at "the next two octets" of a name (round 10,
// C02-S: an owner written as the pointer C0 0C is taken from the question without decoding it)
// fails at exactly one offset per record, and only when that record's owner is such a pointer.
// The class here is
//
//	well-formed message (as a compressing or a plain encoder writes it) x every prefix length 0..len
//
// in an enumerated form (every-truncation: for every record type a reply with one question and
// records in each section whose owners are the question's name, compressed and plain) and a
// generated form (every-truncation-generated: a drawn message, all of its prefixes).
//
// The oracle per prefix is the whole message oracle (checkMsg: returns, does not panic, bounded
// allocation, fresh and used Msg agree, names valid, accepted result can be printed / copied /
// re-packed), on a copy of the prefix whose capacity equals its length, plus what "returns an error
// or returns a message whose records all lie inside the input" says when the input is a prefix of a
// message whose record boundaries the harness knows from its own reader (wm.Decode):
//
//   - an accepted prefix holds no more records than the whole message has records that END inside
//     the prefix, and no more questions than begin inside it;
//   - a record it returns lies inside the prefix, and (the encoders only point backwards) so does
//     every name it refers to: it is the same record that decoding the whole message yields at
//     that place - decoding must not depend on whether octets follow the record;
//   - the record decoder entered at the start of the record that the cut falls into, and the name
//     decoder entered at the start of the name that the cut falls into, return an error: a record
//     whose header or RDATA is not completely there, or a name without its end, is not inside the
//     input.

import (
	"fmt"

	"github.com/miekg/dns"
	"pgregory.net/rapid"

	"verif/harness/gen"
	"verif/harness/pbt"
	wm "verif/harness/wiremodel"
)

type truncCase struct {
	Msg  []byte // a well-formed message; every prefix of it is decoded
	Kind string // how it was made (evidence only)
	From int    `json:",omitempty"` // shortest prefix looked at (the enumeration does not repeat the cuts in header and question for every form of a type)
}

// exact returns a copy of in[:n] whose capacity is n: reading past the end of the input panics
// instead of finding whatever the allocator left behind it.
func exact(in []byte, n int) []byte {
	out := make([]byte, n)
	copy(out, in[:n])
	return out[:n:n]
}

// cutClass names the place of a cut at offset n by the harness's own reading of the whole message.
func cutClass(w []byte, tr *wm.Trace, n int) string {
	switch {
	case n == len(w):
		return "cut:none"
	case n < 12:
		return "cut:header"
	}
	for _, nr := range tr.Names {
		if n > nr.Start && n < nr.End {
			split := ""
			if n >= 1 && w[n-1]&0xC0 == 0xC0 {
				for _, p := range nr.Ptrs {
					if p.At == n-1 {
						split = "-pointer-split"
					}
				}
			}
			return "cut:" + nr.Ctx + "-name" + split
		}
	}
	for i, st := range tr.RRStart {
		sp := tr.RdataSpan[i]
		switch {
		case n == st:
			return "cut:record-boundary"
		case n > st && n < sp[0]:
			return "cut:record-fixed-part"
		case n == sp[0] && n < sp[1]:
			return "cut:rdata-missing"
		case n > sp[0] && n < sp[1]:
			return "cut:rdata"
		}
	}
	if len(tr.RRStart) == 0 || n < tr.RRStart[0] {
		return "cut:question"
	}
	return "cut:other"
}

func checkTruncations(c truncCase) error {
	w := c.Msg
	if len(w) > 65535 {
		w = w[:65535]
	}
	var tr wm.Trace
	_, derr := wm.Decode(w, &tr)
	known := derr == nil && len(tr.RRStart) == len(tr.RdataSpan)
	// the library's reading of the whole message (only compared with its own reading of the prefixes)
	var whole dns.Msg
	wholeOK := false
	if p, hung := guarded(func() { wholeOK = whole.Unpack(exact(w, len(w))) == nil }); p != "" || hung {
		wholeOK = false // (reported by the prefix n == len below, through the message oracle)
	}
	var wholeRecs []dns.RR
	if wholeOK {
		wholeRecs = append(append(append(wholeRecs, whole.Answer...), whole.Ns...), whole.Extra...)
	}
	for n := max(c.From, 0); n <= len(w); n++ {
		in := exact(w, n)
		class := "cut:unknown-structure"
		if known {
			class = cutClass(w, &tr, n)
		}
		if err := checkMsg(wireCase{Input: in, Kind: class, Valid: true}); err != nil {
			return pbt.Errf("prefix of %d octets of a well-formed message of %d octets (%s, %s): %v", n, len(w), c.Kind, class, err)
		}
		if !known {
			continue
		}
		// -- the three decoders on the prefix (one goroutine: a hang is a hang of any of them)
		rrAt, nameAt := -1, -1
		for i, st := range tr.RRStart {
			if n > st && n < tr.RdataSpan[i][1] {
				rrAt = i
			}
		}
		for i, nr := range tr.Names {
			if n > nr.Start && n < nr.End {
				nameAt = i
			}
		}
		var m dns.Msg
		var err, rerr, nerr error
		var rr dns.RR
		var noff int
		var s string
		stage := "Msg.Unpack"
		if p, hung := guarded(func() {
			err = m.Unpack(in)
			if rrAt >= 0 {
				stage = "UnpackRR"
				rr, noff, rerr = dns.UnpackRR(in, tr.RRStart[rrAt])
			}
			if nameAt >= 0 {
				stage = "UnpackDomainName"
				s, _, nerr = dns.UnpackDomainName(in, tr.Names[nameAt].Start)
			}
		}); p != "" || hung {
			return pbt.Errf("%s on the first %d octets of a well-formed message of %d octets (%s, %s) panicked or hung (hung=%v): %s", stage, n, len(w), c.Kind, class, hung, p)
		}
		// what the message decoder returns lies inside the prefix
		if err == nil {
			pbt.Class("prefix-accepted")
			inside := 0
			for _, sp := range tr.RdataSpan {
				if sp[1] <= n {
					inside++
				}
			}
			qStarts := 0
			for _, nr := range tr.Names {
				if nr.Ctx == "question" && nr.Start < n {
					qStarts++
				}
			}
			got := append(append(append([]dns.RR{}, m.Answer...), m.Ns...), m.Extra...)
			if len(got) > inside {
				return pbt.Errf("Msg.Unpack of the first %d octets of a %d-octet message (%s) returns %d records, only %d records end inside these octets (the harness's reader: record ends %v): a record does not lie inside the input\n%s", n, len(w), class, len(got), inside, recEnds(&tr), clip(msgText(&m)))
			}
			if len(m.Question) > qStarts {
				return pbt.Errf("Msg.Unpack of the first %d octets returns %d questions, only %d begin inside these octets", n, len(m.Question), qStarts)
			}
			if wholeOK && len(wholeRecs) == len(tr.RRStart) && len(got) > 0 {
				var a, b string
				bad := -1
				if p, hung := guarded(func() {
					for i, rr := range got {
						if a, b = rr.String(), wholeRecs[i].String(); a != b {
							bad = i
							return
						}
					}
				}); p != "" || hung {
					return pbt.Errf("printing the records of the first %d octets panicked or hung: %s", n, p)
				}
				if bad >= 0 {
					return pbt.Errf("record %d (octets %d..%d) decodes differently when the message ends after %d octets than when all %d octets are there:\n%s\n-- instead of --\n%s", bad, tr.RRStart[bad], tr.RdataSpan[bad][1], n, len(w), clip(a), clip(b))
				}
			}
		}
		// the record decoder at the start of the record the cut falls into
		if rrAt >= 0 {
			if rerr == nil {
				return pbt.Errf("UnpackRR(first %d octets, off %d) accepts a record (%v, next offset %d) whose octets end at %d, behind the input: the record does not lie inside the input", n, tr.RRStart[rrAt], rr, noff, tr.RdataSpan[rrAt][1])
			}
			pbt.Class("record-cut-refused")
		}
		// the name decoder at the start of the name the cut falls into
		if nameAt >= 0 {
			if nerr == nil {
				return pbt.Errf("UnpackDomainName(first %d octets, off %d) accepts %q although the name's octets end at %d, behind the input", n, tr.Names[nameAt].Start, s, tr.Names[nameAt].End)
			}
			pbt.Class("name-cut-refused")
		}
	}
	return nil
}

func recEnds(tr *wm.Trace) []int {
	var out []int
	for _, sp := range tr.RdataSpan {
		out = append(out, sp[1])
	}
	return out
}

// truncFamily: for every record type a reply as a server writes it - one question, records of the
// type owned by the question's name in the answer section (form 0), in the authority and additional
// sections with an OPT record behind them (form 1) - written by the compressing encoder (owners
// become the pointer C0 0C, names in the RDATA pointers as well); form 1 also by the plain one.
func truncFamily(emit func(truncCase)) {
	types := append(append([]uint16{}, gen.AllTypes...), wm.TPrivate, 65281)
	for _, typ := range types {
		q := wm.Question{Name: wm.Name{[]byte("x")}, Type: typ, Class: 1}
		opt := wm.Rec{Name: wm.Name{}, Type: wm.TOPT, Class: 1232, TTL: 0x8000, Fields: []wm.Field{{K: wm.Opts, Opts: []wm.Option{{Code: 10, Data: []byte{1, 2, 3, 4, 5, 6, 7, 8}}}}}}
		for form := 0; form < 2; form++ {
			m := wm.Msg{ID: 9, Flags: wm.FlagQR | wm.FlagRD | wm.FlagRA, Q: []wm.Question{q}}
			if form == 0 {
				m.An = []wm.Rec{smallRec(typ, 1, 3), smallRec(typ, 2, 0)}
			} else {
				m.Ns = []wm.Rec{smallRec(typ, 3, 1)}
				m.Ex = []wm.Rec{smallRec(typ, 4, 2), opt}
			}
			for enc := 0; enc < 2; enc++ {
				var w []byte
				var err error
				if enc == 0 {
					w, err = wm.EncodeCompressed(m, true)
				} else if form == 1 {
					w, err = wm.Encode(m)
				} else {
					continue
				}
				if err != nil {
					continue
				}
				// (header and question - 12 + 3 + 4 octets - are the same for every form of a type up
				// to the counts: their cuts are walked once per type)
				from := 0
				if form+enc > 0 {
					from = 19
				}
				emit(truncCase{Msg: w, Kind: fmt.Sprintf("%s-form%d-%s", typeName(typ), form, []string{"compressed", "plain"}[enc]), From: from})
			}
		}
	}
}

// genTruncMsg: a drawn well-formed message of a few records. Half of the time the owners are (each
// with probability 1/2) set to the name of the first question, as in an ordinary reply; three
// encodings in four compress.
func genTruncMsg(t *rapid.T) truncCase {
	mo := &gen.MsgOpts{Share: true, MaxQ: 1, MaxRecs: rapid.SampledFrom([]int{1, 1, 2}).Draw(t, "maxrecs"), AnyHeader: rapid.IntRange(0, 7).Draw(t, "anyhdr") == 0}
	mo.Unknown = true
	mo.NoRdata = true
	mo.MaxBlob = 8
	m := gen.Msg(t, mo)
	kind := "generated"
	if len(m.Q) > 0 && rapid.Bool().Draw(t, "reply") {
		kind = "generated-reply"
		for _, sec := range m.Sections() {
			for i := range *sec {
				if (*sec)[i].Type != wm.TOPT && rapid.Bool().Draw(t, "owner=qname") {
					(*sec)[i].Name = m.Q[0].Name.Clone()
				}
			}
		}
	}
	var w []byte
	var err error
	if rapid.IntRange(0, 3).Draw(t, "enc") != 0 {
		kind += "-compressed"
		w, err = wm.EncodeCompressed(m, rapid.Bool().Draw(t, "rdataall"))
	} else {
		kind += "-plain"
		w, err = wm.Encode(m)
	}
	if err != nil {
		m.Rcode &= 0xF
		w, _ = wm.Encode(m)
	}
	return truncCase{Msg: w, Kind: kind}
}

func init() {
	pbt.RegisterEnum(pbt.Enum[truncCase]{Name: "every-truncation", Exhaustive: true, Each: truncFamily, Check: checkTruncations})
	pbt.Register(pbt.Sub[truncCase]{Name: "every-truncation-generated", Weight: 0.4, Gen: genTruncMsg, Check: checkTruncations})
}
