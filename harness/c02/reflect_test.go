package c02

import (
	"reflect"

	"github.com/miekg/dns"
)

func reflectElem(rr dns.RR) reflect.Value { return reflect.ValueOf(rr).Elem() }
