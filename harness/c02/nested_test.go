package c02

// Item bodies. An EDNS0 option and an SvcParam value are byte strings of their own, delimited by
// the item's length field and handed to a decoder of their own ("for every byte string given to the
// ... EDNS0-option or SVCB decoders"). Several of these formats begin with fields that select how
// the rest is read - the address family and prefix length of a client-subnet option, the label
// count and type of a zone version, the info code of an extended error, the length octets of alpn
// ids, a domain name - so what a decoder does depends on (selector values, octets really present).
// The older enumeration option-and-param-body-lengths walks every code x every body length, but
// fills the body with one repeated octet: a family is then 0x0000, 0x0101, 0x4141 or 0xffff, never
// 1 or 2, and the branches behind the selectors are never entered with a short body. The classes
// here are
//
//	item kind x selector fields at the values their RFC gives a meaning (and their neighbours)
//	          x every body length from nothing to past the longest form, all enclosing lengths truthful
//
// in an enumerated form (item-body-selectors) and a generated form (item-body-cut: a well-formed
// generated option / parameter list, one item cut, extended or changed in its leading octets).

import (
	"bytes"
	"fmt"

	"pgregory.net/rapid"

	"verif/harness/gen"
	"verif/harness/pbt"
	wm "verif/harness/wiremodel"
)

// optMsg: a response whose additional section is one OPT record with the given options.
func optMsg(opts []wm.Option) []byte {
	var rd []byte
	for _, o := range opts {
		rd = append(rd, byte(o.Code>>8), byte(o.Code), byte(len(o.Data)>>8), byte(len(o.Data)))
		rd = append(rd, o.Data...)
	}
	w := []byte{0, 1, 0x81, 0x80, 0, 0, 0, 0, 0, 0, 0, 1, 0, 0, 41, 4, 208, 0, 0, 0, 0, byte(len(rd) >> 8), byte(len(rd))}
	return append(w, rd...)
}

// svcMsg: a response with one SVCB / HTTPS record (priority 1, target root) with the given parameters.
func svcMsg(typ uint16, target []byte, params []wm.Option) []byte {
	rd := append([]byte{0, 1}, target...)
	for _, o := range params {
		rd = append(rd, byte(o.Code>>8), byte(o.Code), byte(len(o.Data)>>8), byte(len(o.Data)))
		rd = append(rd, o.Data...)
	}
	w := []byte{0, 1, 0x81, 0x80, 0, 0, 0, 1, 0, 0, 0, 0, 1, 'x', 0, byte(typ >> 8), byte(typ), 0, 1, 0, 0, 0, 5, byte(len(rd) >> 8), byte(len(rd))}
	return append(w, rd...)
}

// every prefix of body, and body followed by one and by three more octets
func cuts(body []byte, emit func(b []byte)) {
	for l := 0; l <= len(body); l++ {
		emit(body[:l:l])
	}
	emit(append(append([]byte{}, body...), 0))
	emit(append(append([]byte{}, body...), 0xff, 0, 1))
}

func eachItemBodySelectors(emit func(wireCase)) {
	opt := func(kind string, code uint16, body []byte) {
		emit(wireCase{Input: optMsg([]wm.Option{{Code: code, Data: body}}), Kind: "opt-" + kind, Valid: true})
	}
	// client subnet (RFC 7871 section 6): FAMILY u16 | SOURCE PREFIX-LENGTH | SCOPE PREFIX-LENGTH | ADDRESS
	prefixes := []int{0, 1, 7, 8, 9, 24, 25, 31, 32, 33, 64, 127, 128, 129}
	for _, fam := range []int{0, 1, 2, 3} {
		for pi, p := range prefixes {
			for v, fill := range []byte{0x00, 0xff, 0xff} {
				scope := 0
				if v == 2 {
					scope = p
				}
				full := append([]byte{0, byte(fam), byte(p), byte(scope)}, bytes.Repeat([]byte{fill}, 18)...)
				from := 4
				if pi == 0 && v == 0 {
					from = 0 // (the cuts inside the four fixed octets are the same for every prefix)
				}
				for l := from; l <= len(full); l++ {
					opt("subnet", 8, full[:l:l])
				}
				// the address as a conforming sender writes it: ceil(prefix/8) octets, padding bits zero
				if n := (p + 7) / 8; v == 1 && n <= 16 {
					a := bytes.Repeat([]byte{0xff}, n)
					if p%8 != 0 {
						a[n-1] = 0xff << uint(8-p%8)
					}
					opt("subnet", 8, append([]byte{0, byte(fam), byte(p), byte(scope)}, a...))
				}
			}
		}
	}
	// zone version (RFC 9660): LABELCOUNT | TYPE | VERSION
	for _, lc := range []byte{0, 1, 2, 127, 128, 255} {
		for _, ty := range []byte{0, 1, 2, 255} {
			for _, fill := range []byte{0x00, 0xff} {
				full := append([]byte{lc, ty}, bytes.Repeat([]byte{fill}, 9)...)
				for l := 0; l <= len(full); l++ {
					opt("zoneversion", 19, full[:l:l])
				}
			}
		}
	}
	// extended error (RFC 8914): INFO-CODE u16 | EXTRA-TEXT
	for _, ic := range []int{0, 1, 24, 49152, 65535} {
		for _, fill := range []byte{0x00, 'a', 0xff, '"'} {
			full := append([]byte{byte(ic >> 8), byte(ic)}, bytes.Repeat([]byte{fill}, 5)...)
			for l := 0; l <= len(full); l++ {
				opt("ede", 15, full[:l:l])
			}
		}
	}
	// long-lived query (RFC 8764): VERSION | OPCODE | ERROR | ID u64 | LEASE u32; update lease (RFC 9664): 4 or 8
	// octets; expire, keepalive: fixed sizes - the selectors are the lengths themselves, every value up to 24 is
	// in option-and-param-body-lengths. Here: leading fields that are not all the same octet.
	for _, head := range [][]byte{{0, 1, 0, 1, 0, 0}, {0, 1, 0, 2, 0, 7}, {0xff, 0xff, 0, 3, 0xff, 0xff}} {
		full := append(append([]byte{}, head...), bytes.Repeat([]byte{0x11}, 14)...)
		cuts(full, func(b []byte) { opt("llq", 1, b) })
	}
	// report channel (RFC 9567): one domain name in wire form, uncompressed. Names of every shape, cut at
	// every place; the last ones are not names at all.
	long := wm.EncodeName(fillClasses[8].name(false))
	many := wm.EncodeName(fillClasses[0].name(true))
	names := [][]byte{{0}, {1, 'a', 0}, {1, 'a', 2, 'b', 'c', 0}, append(append([]byte{63}, bytes.Repeat([]byte{'x'}, 63)...), 0),
		append(append([]byte{64}, bytes.Repeat([]byte{'x'}, 64)...), 0), {1, 'a', 0xC0, 0x0C}, {0xC0, 0x00}, {1, 'a', 0x40, 0}, {1, 'a', 0x80, 0}, long, many,
		append(append([]byte{}, long[:len(long)-1]...), 1, 'z', 0)}
	for _, n := range names {
		if len(n) > 40 && !pbt.Thorough() {
			// long names: the ends, and every label boundary +-1
			seen := map[int]bool{}
			for _, l := range []int{0, 1, 2, 63, 64, 65, 127, 128, 129, 191, 192, 193, len(n) - 3, len(n) - 2, len(n) - 1, len(n)} {
				if l >= 0 && l <= len(n) && !seen[l] {
					seen[l] = true
					opt("reporting", 18, n[:l:l])
				}
			}
			opt("reporting", 18, append(append([]byte{}, n...), 0))
			continue
		}
		cuts(n, func(b []byte) { opt("reporting", 18, b) })
	}
	// SvcParams (RFC 9460 section 7 and 8): mandatory = ascending list of keys u16, alpn = list of
	// length-prefixed ids, each alone and behind another parameter, in SVCB and HTTPS, with the
	// target written as the root and as a name
	u16s := func(ks ...int) []byte {
		var b []byte
		for _, k := range ks {
			b = append(b, byte(k>>8), byte(k))
		}
		return b
	}
	id255 := append([]byte{255}, bytes.Repeat([]byte{'a'}, 255)...)
	values := []struct {
		key  uint16
		body []byte
	}{
		{0, u16s(1)}, {0, u16s(1, 3, 4)}, {0, u16s(3, 1)}, {0, u16s(1, 1)}, {0, u16s(0)}, {0, u16s(0, 1)}, {0, u16s(65535)}, {0, u16s(1, 65280, 65535)},
		{1, []byte{2, 'h', '2'}}, {1, []byte{2, 'h', '2', 2, 'h', '3'}}, {1, []byte{0}}, {1, []byte{2, 'h', '2', 0}}, {1, []byte{1, ',', 1, '\\', 1, '"', 1, 0}},
		{1, id255}, {1, append(append([]byte{}, id255...), 1, 'b')},
		{3, []byte{1, 187}}, {4, []byte{192, 0, 2, 1, 192, 0, 2, 2}}, {6, append(append([]byte{0x20, 1}, make([]byte, 14)...), append([]byte{0x20, 2}, make([]byte, 14)...)...)},
		{7, []byte("/dns-query{?dns}")}, {8, nil}, {9, []byte{1, 2, 3}},
	}
	for _, v := range values {
		for _, typ := range []uint16{wm.TSVCB, wm.THTTPS} {
			for _, target := range [][]byte{{0}, {1, 't', 0}} {
				if len(v.body) > 40 && (typ == wm.THTTPS || len(target) > 1) && !pbt.Thorough() {
					continue
				}
				cuts(v.body, func(b []byte) {
					emit(wireCase{Input: svcMsg(typ, target, []wm.Option{{Code: v.key, Data: b}}), Kind: fmt.Sprintf("svcparam-%d", v.key), Valid: true})
					if v.key > 0 && len(v.body) <= 40 { // behind a well-formed mandatory list that names it
						emit(wireCase{Input: svcMsg(typ, target, []wm.Option{{Code: 0, Data: u16s(int(v.key))}, {Code: v.key, Data: b}}), Kind: fmt.Sprintf("svcparam-0+%d", v.key), Valid: true})
					}
				})
			}
		}
	}
}

// genItemCut: a well-formed OPT record (1..3 generated options) or SVCB / HTTPS record (generated
// parameters); one item is then cut at a drawn place, extended, or changed in one of its first four
// octets - the octets that hold selectors - and every enclosing length is kept truthful, so that
// the damaged body reaches the decoder of its own kind.
func genItemCut(t *rapid.T) wireCase {
	isOpt := rapid.IntRange(0, 2).Draw(t, "container") != 0
	var items []wm.Option
	if isOpt {
		for i := rapid.IntRange(1, 3).Draw(t, "nopt"); i > 0; i-- {
			items = append(items, gen.EDNSOption(t, &gen.Opts{}))
		}
	} else {
		items = gen.SvcParams(t, &gen.Opts{})
		if len(items) == 0 {
			items = []wm.Option{{Code: 1, Data: []byte{2, 'h', '2'}}}
		}
	}
	i := rapid.IntRange(0, len(items)-1).Draw(t, "item")
	d := append([]byte{}, items[i].Data...)
	how := ""
	switch rapid.IntRange(0, 7).Draw(t, "damage") {
	case 0, 1, 2, 3:
		if len(d) > 0 {
			d = d[:rapid.IntRange(0, len(d)-1).Draw(t, "cut")]
		}
		how = "cut"
	case 4:
		d = append(d, gen.Bytes(t, rapid.IntRange(1, 4).Draw(t, "more"), false)...)
		how = "extend"
	case 5, 6:
		if len(d) > 0 {
			p := rapid.IntRange(0, min(len(d), 4)-1).Draw(t, "p")
			d[p] = rapid.SampledFrom([]byte{0, 1, 2, 3, 7, 8, 9, 31, 32, 33, 63, 64, 127, 128, 129, 192, 254, 255}).Draw(t, "v")
		}
		how = "selector"
		if rapid.Bool().Draw(t, "andcut") && len(d) > 0 {
			d = d[:rapid.IntRange(0, len(d)-1).Draw(t, "cut")]
			how = "selector+cut"
		}
	default:
		how = "whole"
	}
	items[i].Data = d
	var w []byte
	kind := ""
	if isOpt {
		w = optMsg(items)
		kind = fmt.Sprintf("item-%s-opt-%d", how, min(int(items[i].Code), 21))
	} else {
		typ := rapid.SampledFrom([]uint16{wm.TSVCB, wm.THTTPS}).Draw(t, "stype")
		target := []byte{0}
		if rapid.Bool().Draw(t, "target") {
			target = wm.EncodeName(gen.Name(t, gen.NameOpts{MaxLabs: 3, MaxLabel: 8}))
		}
		w = svcMsg(typ, target, items)
		kind = fmt.Sprintf("item-%s-svcparam-%d", how, min(int(items[i].Code), 11))
	}
	return wireCase{Input: w, Kind: kind, Off: 12, Valid: true}
}

func init() {
	pbt.RegisterEnum(pbt.Enum[wireCase]{Name: "item-body-selectors", Exhaustive: true, Each: eachItemBodySelectors, Check: checkMsg})
	pbt.Register(pbt.Sub[wireCase]{Name: "item-body-cut", Weight: 4, Gen: genItemCut, Check: checkMsg})
}
