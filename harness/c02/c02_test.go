package c02

import (
	"bytes"
	"encoding/binary"
	"fmt"
	"runtime"
	"runtime/debug"
	"strings"
	"time"

	"github.com/miekg/dns"
	"pgregory.net/rapid"

	"verif/harness/gen"
	"verif/harness/pbt"
	wm "verif/harness/wiremodel"
)

const watchdog = 20 * time.Second

type wireCase struct {
	Input []byte
	Kind  string // how the input was made (evidence only)
	Off   int    // offset for the record / name decoders
	Valid bool   // the input is a mutation of (or is) a valid message rather than noise
	Huge  bool   `json:",omitempty"` // tens of thousands of items: printing is skipped (see postProcess)
}

// guarded runs f in its own goroutine; it reports a panic value (with stack) or a hang.
func guarded(f func()) (panicked string, hung bool) {
	done := make(chan string, 1)
	go func() {
		defer func() {
			if r := recover(); r != nil {
				st := string(debug.Stack())
				if i := strings.Index(st, "panic("); i >= 0 {
					st = st[i:]
				}
				if len(st) > 1500 {
					st = st[:1500]
				}
				done <- fmt.Sprintf("%v\n%s", r, st)
				return
			}
			done <- ""
		}()
		f()
	}()
	select {
	case p := <-done:
		return p, false
	case <-time.After(watchdog):
		return "", true
	}
}

// ptrOctets counts the octets that can begin a compression pointer (both top bits set). It is
// computed from the input alone and is an upper bound for the number of pointers a decoder meets
// while it walks the input once.
func ptrOctets(in []byte) int {
	n := 0
	for _, b := range in {
		if b&0xC0 == 0xC0 {
			n++
		}
	}
	return n
}

// allocBound: 512 bytes per input octet, 32 KiB flat, and 1536 bytes more per octet that can begin a
// compression pointer. A pointer is the one legitimate amplifier of the format: two octets stand
// for a name of up to 255 octets, whose presentation form - the library hands names out as text -
// is up to 1009 characters when the labels hold non-printing octets (\DDD). Measured on the
// unchanged tree: a HIP record whose RDATA is 32000 pointers to a 255-octet name costs 168 B per
// input octet when the labels are letters and 550 B per input octet when they are NUL octets
// (1024-byte string + list growth per pointer), i.e. 1104 B per pointer; the bound allows
// 2*512+1536 = 2560 B per pointer. It remains a fixed multiple of the input length (at most
// 2048 x len + 32 KiB), and stays at 512 x len for input without pointer octets.
func allocBound(in []byte) uint64 { return uint64(512*len(in) + 1536*ptrOctets(in) + 32*1024) }

// timeBound: 30 ms + 3 us per input octet, for the cheapest of five decodings (see decodeCost). No
// term for pointers is needed: the most expensive legitimate input of 65534 octets - 32 K pointers
// to a 255-octet name of non-printing octets, 36 MB of text - costs 35-50 ms of processor time at a
// load average of 400, against 226 ms.
func timeBound(in []byte) time.Duration {
	return 30*time.Millisecond + time.Duration(len(in))*3*time.Microsecond
}

// decodeCost is the cost of one Msg.Unpack of the input: the processor time of the thread that ran
// it where the system tells (Linux), the elapsed time otherwise - whichever is smaller. Processor
// time does not grow when the machine is busy with other things (a goroutine that is not scheduled
// for 100 ms has not worked for 100 ms), while a decoder that loops or re-scans burns it like any
// other; so the oracle decides about the work of the decoder, not about the speed of the machine.
func decodeCost(in []byte) time.Duration {
	done := make(chan time.Duration, 1)
	go func() {
		runtime.LockOSThread()
		defer runtime.UnlockOSThread()
		d := time.Duration(1 << 62)
		defer func() {
			if recover() != nil {
				d = 0 // (a panic is reported by the first call, not as slowness)
			}
			done <- d
		}()
		var mm dns.Msg
		c0, ok0 := threadCPU()
		t0 := time.Now()
		mm.Unpack(in)
		wall := time.Since(t0)
		c1, ok1 := threadCPU()
		d = wall
		if ok0 && ok1 && c1-c0 < wall {
			d = c1 - c0
		}
	}()
	select {
	case d := <-done:
		return d
	case <-time.After(watchdog):
		return time.Duration(1 << 62)
	}
}

// msgText prints a message record by record (linear in the number of records, unlike Msg.String,
// which concatenates): used to compare the content of two Msg values.
func msgText(m *dns.Msg) string {
	var b strings.Builder
	b.WriteString(m.MsgHdr.String())
	fmt.Fprintf(&b, "\nQ %d AN %d NS %d AR %d\n", len(m.Question), len(m.Answer), len(m.Ns), len(m.Extra))
	for _, q := range m.Question {
		b.WriteString(q.String())
		b.WriteByte('\n')
	}
	for _, sec := range [][]dns.RR{m.Answer, m.Ns, m.Extra} {
		b.WriteString("--\n")
		for _, rr := range sec {
			if rr == nil {
				b.WriteString("<nil>\n")
				continue
			}
			b.WriteString(rr.String())
			b.WriteByte('\n')
		}
	}
	return b.String()
}

var memBefore, memAfter runtime.MemStats

// measured runs f and returns the bytes allocated while it ran (the harness is single-threaded
// around the call, so the global counter is exact up to the goroutine start).
func measured(f func()) (alloc uint64, panicked string, hung bool) {
	runtime.ReadMemStats(&memBefore)
	panicked, hung = guarded(f)
	runtime.ReadMemStats(&memAfter)
	return memAfter.TotalAlloc - memBefore.TotalAlloc, panicked, hung
}

// confirmAlloc guards the allocation oracle against noise. TotalAlloc is a counter of the whole
// process: a timer, a finaliser or a goroutine left over from an earlier case that allocates
// during the call lands in the difference, and on a very busy machine that happens. What a
// decoder allocates for a given input is a deterministic function of the input, so an excess is
// only reported when it shows in every one of up to four further measurements of the same
// decoding (fresh destination, collector run first); the smallest measurement counts.
func confirmAlloc(first, bound uint64, again func()) uint64 {
	best := first
	for i := 0; i < 4 && best > bound; i++ {
		pbt.Class("bound-rechecked")
		runtime.GC()
		a, p, hung := measured(again)
		if p != "" || hung {
			break
		}
		if a < best {
			best = a
		}
	}
	return best
}

func validName(s string) error {
	n, fq, err := wm.UnescName(s)
	if err != nil {
		return fmt.Errorf("name %q: %v", s, err)
	}
	if !fq {
		return fmt.Errorf("name %q is not fully qualified", s)
	}
	if !n.Valid() {
		return fmt.Errorf("name %q breaks the 63/255-octet limits (wire length %d)", s, n.WireLen())
	}
	return nil
}

// namesOf collects every domain name of a record through the harness's own layout table.
func namesOf(rr dns.RR) []string {
	out := []string{rr.Header().Name}
	switch x := rr.(type) {
	case *dns.RFC3597, *dns.ANY, *dns.OPT, *dns.PrivateRR:
		_ = x
		return out
	}
	layout, known := wm.LayoutOf(rr.Header().Rrtype)
	if !known {
		return out
	}
	v := reflectElem(rr)
	for _, s := range layout {
		switch s.K {
		case wm.NameC, wm.NameU:
			if f := v.FieldByName(s.Go); f.IsValid() && f.Kind().String() == "string" && f.String() != "" {
				out = append(out, f.String())
			}
		case wm.Names:
			if f := v.FieldByName(s.Go); f.IsValid() {
				for i := 0; i < f.Len(); i++ {
					out = append(out, f.Index(i).String())
				}
			}
		case wm.GW:
			if f := v.FieldByName("GatewayHost"); f.IsValid() && f.String() != "" {
				out = append(out, f.String())
			}
		}
	}
	return out
}

// postProcess: whatever was accepted can be printed, measured, copied, re-packed, truncated.
// Printing is left out for the inputs of every-container-many-items: the library builds its text by
// repeated concatenation (Msg.String, NSEC/SVCB/OPT/HIP String), which is quadratic in the number
// of items - 65536 bitmap types from an 8.7 KB message take 7 s to print, 48000 questions longer
// than the watchdog. That is slow, not a panic, and C02 states nothing about the cost of printing.
func postProcess(m *dns.Msg, print bool) (string, bool) {
	return guarded(func() {
		if print {
			_ = m.String()
		}
		_ = m.Len()
		c := m.Copy()
		_, _ = m.Pack()
		m.Compress = !m.Compress
		_, _ = m.Pack()
		if print {
			// (Msg.String is quadratic in the number of records; with hundreds of them the copy is
			// printed record by record - the original went through Msg.String above)
			if len(c.Answer)+len(c.Ns)+len(c.Extra)+len(c.Question) <= 300 {
				_ = c.String()
			} else {
				_ = msgText(c)
			}
		}
		c.Truncate(512)
		_, _ = c.Pack()
		for _, rr := range append(append(append([]dns.RR{}, m.Answer...), m.Ns...), m.Extra...) {
			_ = dns.Len(rr)
			cp := dns.Copy(rr)
			if print {
				_ = cp.String()
			}
			dns.IsDuplicate(rr, rr)
		}
	})
}

func checkMsg(c wireCase) error {
	in := c.Input
	var m dns.Msg
	var err error
	// (capacity = length: a read past the end of the input panics instead of finding what the
	// allocator left behind it - "records all lie inside the input")
	buf := exact(in, len(in))
	alloc, p, hung := measured(func() { err = m.Unpack(buf) })
	stage := "accepted"
	if err != nil {
		stage = "rejected"
	}
	pbt.Note(in, c.Valid || err == nil, "kind:"+c.Kind, stage)
	if len(in) < 200 && c.Valid {
		pbt.Sample("kind:"+c.Kind, fmt.Sprintf("%x", in))
	}
	if hung {
		return pbt.NoShrink{Err: pbt.Errf("Msg.Unpack did not return within %v on %d octets", watchdog, len(in))}
	}
	if p != "" {
		return pbt.Errf("Msg.Unpack panicked on %d octets: %s", len(in), p)
	}
	if alloc > allocBound(in) {
		alloc = confirmAlloc(alloc, allocBound(in), func() { var mm dns.Msg; mm.Unpack(buf) })
	}
	if alloc > allocBound(in) {
		return pbt.Errf("Msg.Unpack allocated %d bytes for %d input octets (bound %d; the smallest of five measurements)", alloc, len(in), allocBound(in))
	}
	if !bytes.Equal(buf, in) {
		return pbt.Errf("Msg.Unpack modified its input buffer")
	}
	// work: on inputs large enough to tell, decoding time stays within a (generous) fixed multiple of
	// the input length; the fastest of up to five attempts counts, so that a busy machine cannot
	// make a linear decoder look slow
	if len(in) >= 4096 {
		bound := timeBound(in)
		best := time.Duration(1 << 62)
		for i := 0; i < 5 && best > bound; i++ {
			if i > 0 {
				pbt.Class("bound-rechecked")
			}
			if d := decodeCost(in); d < best {
				best = d
			}
		}
		if best > bound {
			return pbt.Errf("Msg.Unpack needs %v for %d input octets in the fastest of five attempts (bound %v): work is not bounded by a fixed multiple of the input length", best, len(in), bound)
		}
	}
	// the result must not depend on what the Msg value held before (servers recycle Msg values)
	used := usedMsg()
	var err2 error
	if p2, hung2 := guarded(func() { err2 = used.Unpack(in) }); hung2 || p2 != "" {
		return pbt.Errf("Msg.Unpack into a used Msg panicked or hung: %s", p2)
	}
	if (err == nil) != (err2 == nil) {
		return pbt.Errf("Msg.Unpack accepts/rejects depending on the previous content of the Msg: fresh err=%v, used err=%v", err, err2)
	}
	if err == nil && !c.Huge {
		var s1, s2 string
		if p3, h3 := guarded(func() { s1, s2 = msgText(&m), msgText(used) }); p3 == "" && !h3 && s1 != s2 {
			return pbt.Errf("Msg.Unpack of %d octets into a Msg that held another message leaves stale content behind:\n%s\n-- instead of --\n%s", len(in), clip(s2), clip(s1))
		}
	}
	if err != nil {
		return nil
	}
	// accepted: structural sanity
	// (a question truncated by the end of the message is accepted by design, so one octet each)
	if n := len(in) - 12; len(m.Question) > max(n, 0) {
		return pbt.Errf("%d questions from %d octets", len(m.Question), len(in))
	}
	if n := len(in) - 12; len(m.Answer)+len(m.Ns)+len(m.Extra) > max(n, 0)/11 {
		return pbt.Errf("%d records from %d octets: records cannot all lie inside the input", len(m.Answer)+len(m.Ns)+len(m.Extra), len(in))
	}
	for _, q := range m.Question {
		if err := validName(q.Name); err != nil {
			return pbt.Errf("accepted question %v", err)
		}
	}
	for _, rr := range append(append(append([]dns.RR{}, m.Answer...), m.Ns...), m.Extra...) {
		for _, s := range namesOf(rr) {
			if err := validName(s); err != nil {
				return pbt.Errf("accepted %s record: %v", dns.TypeToString[rr.Header().Rrtype], err)
			}
		}
	}
	if p, hung := postProcess(&m, !c.Huge); hung || p != "" {
		return pbt.Errf("an accepted message cannot be printed/measured/copied/re-packed/truncated (hung=%v): %s", hung, p)
	}
	return nil
}

func clip(s string) string {
	if len(s) > 700 {
		return s[:700] + "…"
	}
	return s
}

// usedMsg returns a Msg value that already went through an Unpack of a message with records in every section.
func usedMsg() *dns.Msg {
	m := new(dns.Msg)
	m.SetQuestion("old.example.", dns.TypeMX)
	m.Answer = []dns.RR{&dns.MX{Hdr: dns.RR_Header{Name: "old.example.", Rrtype: dns.TypeMX, Class: 1, Ttl: 9}, Preference: 1, Mx: "mx.old.example."}}
	m.Ns = []dns.RR{&dns.NS{Hdr: dns.RR_Header{Name: "old.example.", Rrtype: dns.TypeNS, Class: 1, Ttl: 9}, Ns: "ns.old.example."}}
	m.Extra = []dns.RR{&dns.A{Hdr: dns.RR_Header{Name: "ns.old.example.", Rrtype: dns.TypeA, Class: 1, Ttl: 9}, A: []byte{192, 0, 2, 1}}}
	m.SetEdns0(1232, true)
	m.Rcode = dns.RcodeBadVers
	b, err := m.Pack()
	if err != nil {
		panic(err)
	}
	u := new(dns.Msg)
	if err := u.Unpack(b); err != nil {
		panic(err)
	}
	return u
}

func checkRR(c wireCase) error {
	in := c.Input
	off := c.Off
	if off < 0 || off > len(in) {
		off = 0
	}
	var rr dns.RR
	var err error
	var noff int
	alloc, p, hung := measured(func() { rr, noff, err = dns.UnpackRR(in, off) })
	stage := "accepted"
	if err != nil {
		stage = "rejected"
	}
	pbt.Note(append([]byte{byte(off)}, in...), c.Valid || err == nil, "kind:"+c.Kind, stage)
	if hung {
		return pbt.NoShrink{Err: pbt.Errf("UnpackRR(%d octets, off %d) did not return within %v", len(in), off, watchdog)}
	}
	if p != "" {
		return pbt.Errf("UnpackRR(%d octets, off %d) panicked: %s", len(in), off, p)
	}
	if alloc > allocBound(in) {
		alloc = confirmAlloc(alloc, allocBound(in), func() { dns.UnpackRR(in, off) })
	}
	if alloc > allocBound(in) {
		return pbt.Errf("UnpackRR allocated %d bytes for %d input octets (bound %d; the smallest of five measurements)", alloc, len(in), allocBound(in))
	}
	if err == nil {
		if noff < off || noff > len(in) {
			return pbt.Errf("UnpackRR returned offset %d outside [%d,%d]", noff, off, len(in))
		}
		// (decoding at the very end of the input yields an empty placeholder record by design)
		if rr != nil && noff > off {
			for _, s := range namesOf(rr) {
				if err := validName(s); err != nil {
					return pbt.Errf("accepted record: %v", err)
				}
			}
			if p, hung := guarded(func() {
				if !c.Huge {
					_ = rr.String()
				}
				_ = dns.Len(rr)
				_ = dns.Copy(rr)
				b := make([]byte, 70000)
				dns.PackRR(rr, b, 0, nil, false)
			}); hung || p != "" {
				return pbt.Errf("accepted record cannot be printed/measured/copied/packed: hung=%v %s", hung, p)
			}
		}
	}
	// records lie inside the input: what follows the record must not influence its decoding.
	// (Skipped when the record region holds an octet that could be a compression pointer, because
	// pointers may legitimately lead anywhere in the buffer.)
	if err == nil && rr != nil && noff > off {
		ptrFree := true
		for _, b := range in[off:noff] {
			if b&0xC0 == 0xC0 {
				ptrFree = false
			}
		}
		if ptrFree {
			pbt.Class("tail-variation")
			for _, tail := range [][]byte{nil, bytes.Repeat([]byte{0xff}, 40), bytes.Repeat([]byte{0x00}, 40), bytes.Repeat([]byte{0x01, 0x41}, 20)} {
				in2 := append(append([]byte{}, in[:noff]...), tail...)
				rr2, noff2, err2 := dns.UnpackRR(in2, off)
				if err2 != nil || noff2 != noff || rr2 == nil || rr2.String() != rr.String() {
					return pbt.Errf("decoding of a record depends on octets behind its RDATA: with a different tail (%d octets) got off=%d err=%v %v, before off=%d %v", len(tail), noff2, err2, rr2, noff, rr)
				}
			}
		}
	}
	// the header-first variant used by callers that peek at the header
	var h dns.RR_Header
	p, hung = guarded(func() {
		var o int
		o, err = unpackHeaderThenBody(in, off, &h)
		_ = o
	})
	if hung || p != "" {
		return pbt.Errf("UnpackRRWithHeader path hung=%v panic: %s", hung, p)
	}
	return nil
}

func unpackHeaderThenBody(in []byte, off int, h *dns.RR_Header) (int, error) {
	// a generated header combined with the input as RDATA source
	if len(in)-off < 4 {
		return 0, nil
	}
	h.Name = "."
	h.Rrtype = binary.BigEndian.Uint16(in[off:])
	h.Class = 1
	h.Rdlength = binary.BigEndian.Uint16(in[off+2:])
	_, o, err := dns.UnpackRRWithHeader(*h, in, off+4)
	return o, err
}

func checkName(c wireCase) error {
	in := c.Input
	off := c.Off
	if off < 0 || off > len(in) {
		off = len(in)
	}
	var s string
	var noff int
	var err error
	alloc, p, hung := measured(func() { s, noff, err = dns.UnpackDomainName(in, off) })
	pbt.Note(append([]byte{byte(off), byte(off >> 8)}, in...), c.Valid || err == nil, "kind:"+c.Kind)
	if hung {
		return pbt.NoShrink{Err: pbt.Errf("UnpackDomainName(%d octets, off %d) did not return within %v", len(in), off, watchdog)}
	}
	if p != "" {
		return pbt.Errf("UnpackDomainName(%d octets, off %d) panicked: %s", len(in), off, p)
	}
	if alloc > allocBound(in) {
		alloc = confirmAlloc(alloc, allocBound(in), func() { dns.UnpackDomainName(in, off) })
	}
	if alloc > allocBound(in) {
		return pbt.Errf("UnpackDomainName allocated %d bytes for %d input octets (bound %d; the smallest of five measurements)", alloc, len(in), allocBound(in))
	}
	if err != nil {
		return nil
	}
	if noff < off || noff > len(in) {
		return pbt.Errf("UnpackDomainName returned offset %d outside [%d,%d]", noff, off, len(in))
	}
	if err := validName(s); err != nil {
		return pbt.Errf("UnpackDomainName accepted %v", err)
	}
	// cross-check with the harness's own pointer-following reader
	n, _, rerr := wm.ReadName(in, off)
	if rerr == nil {
		back, _, _ := wm.UnescName(s)
		if !back.Equal(n) {
			return pbt.Errf("UnpackDomainName returned %q, an independent reader finds %q", s, wm.EscName(n))
		}
	}
	return nil
}

// ---------------------------------------------------------------------------------------------
// generators

func validMsg(t *rapid.T) ([]byte, *wm.Trace) {
	mo := &gen.MsgOpts{Share: true, MaxRecs: 4, AnyHeader: rapid.IntRange(0, 3).Draw(t, "anyhdr") == 0}
	mo.Unknown = true
	mo.NoRdata = true
	m := gen.Msg(t, mo)
	var w []byte
	var err error
	if rapid.Bool().Draw(t, "compressed") {
		w, err = wm.EncodeCompressed(m, rapid.Bool().Draw(t, "rdataall"))
	} else {
		w, err = wm.Encode(m)
	}
	if err != nil {
		m.Rcode &= 0xF
		w, _ = wm.Encode(m)
	}
	var tr wm.Trace
	wm.Decode(w, &tr)
	return w, &tr
}

func mutate(t *rapid.T, w []byte, tr *wm.Trace) ([]byte, string) {
	w = append([]byte{}, w...)
	n := rapid.IntRange(1, 3).Draw(t, "nmut")
	var kinds []string
	for i := 0; i < n && len(w) > 0; i++ {
		k := rapid.IntRange(0, 11).Draw(t, "mut")
		pos := rapid.IntRange(0, len(w)-1).Draw(t, "pos")
		switch k {
		case 0:
			w = w[:pos]
			kinds = append(kinds, "truncate")
		case 1:
			w[pos] ^= 1 << uint(rapid.IntRange(0, 7).Draw(t, "bit"))
			kinds = append(kinds, "bitflip")
		case 2:
			w[pos] = rapid.SampledFrom([]byte{0, 0xff, 0xc0, 0x3f, 0x40, 0x80, 1, 63, 64}).Draw(t, "val")
			kinds = append(kinds, "byte")
		case 3: // lie in a header count
			if len(w) >= 12 {
				f := 4 + 2*rapid.IntRange(0, 3).Draw(t, "cnt")
				binary.BigEndian.PutUint16(w[f:], rapid.SampledFrom([]uint16{0, 1, 2, 255, 256, 1000, 65535}).Draw(t, "lie"))
			}
			kinds = append(kinds, "count-lie")
		case 4: // lie in an RDLENGTH
			if len(tr.RdataSpan) > 0 {
				sp := tr.RdataSpan[rapid.IntRange(0, len(tr.RdataSpan)-1).Draw(t, "rr")]
				if sp[0] >= 2 && sp[0] <= len(w) {
					cur := sp[1] - sp[0]
					v := rapid.SampledFrom([]int{0, 1, cur - 1, cur + 1, cur + 2, cur / 2, 65535, 255, 256}).Draw(t, "rdl")
					if v < 0 {
						v = 0
					}
					binary.BigEndian.PutUint16(w[sp[0]-2:], uint16(v))
				}
			}
			kinds = append(kinds, "rdlength-lie")
		case 5, 6: // replace a name by a pointer
			if len(tr.Names) > 0 {
				nr := tr.Names[rapid.IntRange(0, len(tr.Names)-1).Draw(t, "name")]
				if nr.Start+2 <= len(w) {
					var target int
					switch rapid.IntRange(0, 5).Draw(t, "ptrk") {
					case 0:
						target = nr.Start // self
					case 1:
						target = nr.Start + 2 // forward
					case 2:
						target = len(w) + rapid.IntRange(0, 100).Draw(t, "past") // past the end
					case 3:
						target = rapid.IntRange(0, 11).Draw(t, "hdr") // into the header
					case 4:
						other := tr.Names[rapid.IntRange(0, len(tr.Names)-1).Draw(t, "other")]
						target = other.Start + 1 // into the middle of a label
					default:
						target = rapid.IntRange(0, 16383).Draw(t, "any")
					}
					target &= 0x3FFF
					w[nr.Start] = 0xC0 | byte(target>>8)
					w[nr.Start+1] = byte(target)
				}
			}
			kinds = append(kinds, "pointer")
		case 7: // grow a label
			if len(tr.Names) > 0 {
				nr := tr.Names[rapid.IntRange(0, len(tr.Names)-1).Draw(t, "name")]
				if len(nr.Labels) > 0 {
					l := nr.Labels[rapid.IntRange(0, len(nr.Labels)-1).Draw(t, "lab")]
					if l < len(w) {
						w[l] = byte(rapid.IntRange(1, 63).Draw(t, "ll"))
					}
				}
			}
			kinds = append(kinds, "label-length")
		case 8: // insert junk
			junk := gen.Bytes(t, rapid.IntRange(1, 20).Draw(t, "nj"), false)
			w = append(w[:pos:pos], append(junk, w[pos:]...)...)
			kinds = append(kinds, "insert")
		case 9: // delete a range
			e := pos + rapid.IntRange(1, 12).Draw(t, "del")
			if e > len(w) {
				e = len(w)
			}
			w = append(w[:pos:pos], w[e:]...)
			kinds = append(kinds, "delete")
		case 10: // overwrite a 16-bit word
			if pos+2 <= len(w) {
				binary.BigEndian.PutUint16(w[pos:], rapid.SampledFrom([]uint16{0, 0xffff, 0xc00c, 0xc000, 0x00ff, 0xff00, 41, 64, 47, 50}).Draw(t, "w16"))
			}
			kinds = append(kinds, "word")
		default: // duplicate a range
			e := pos + rapid.IntRange(1, 30).Draw(t, "dup")
			if e > len(w) {
				e = len(w)
			}
			w = append(w[:e:e], append(append([]byte{}, w[pos:e]...), w[e:]...)...)
			kinds = append(kinds, "duplicate")
		}
	}
	if len(w) > 65535 {
		w = w[:65535]
	}
	return w, kinds[0]
}

// adversarial pointer graphs in an otherwise minimal message
func pointerGraph(t *rapid.T) ([]byte, string) {
	hdr := []byte{0, 1, 0x81, 0x80, 0, 1, 0, 1, 0, 0, 0, 0}
	switch rapid.IntRange(0, 5).Draw(t, "graph") {
	case 0: // self loop
		return append(hdr, 0xC0, 12, 0, 1, 0, 1), "ptr-self"
	case 1: // mutual pair
		return append(hdr, 0xC0, 14, 0xC0, 12, 0, 1, 0, 1), "ptr-mutual"
	case 2: // chain of k hops, each pointer preceded by a label so the name keeps growing
		k := rapid.IntRange(1, 200).Draw(t, "hops")
		withLabel := rapid.Bool().Draw(t, "labels")
		body := []byte{}
		// terminal name at offset 12
		body = append(body, 1, 'a', 0)
		prev := 12
		for i := 0; i < k; i++ {
			at := 12 + len(body)
			if withLabel {
				body = append(body, 1, 'b')
			}
			body = append(body, 0xC0|byte(prev>>8), byte(prev))
			prev = at
		}
		// question name points at the head of the chain, then an answer using it too
		msg := append(hdr, body...)
		q := len(msg)
		msg = append(msg, 0xC0|byte(prev>>8), byte(prev), 0, 1, 0, 1)
		msg = append(msg, 0xC0|byte(q>>8), byte(q), 0, 1, 0, 1, 0, 0, 0, 0, 0, 4, 1, 2, 3, 4)
		// (the body sits where a question is expected: mostly rejected, sometimes a valid prefix)
		return msg, "ptr-chain"
	case 3: // many records, each owner a pointer to one maximal name
		name := wm.EncodeName(gen.NameOfWireLen(t, 255, gen.NameOpts{Plain: true}))
		msg := append([]byte{}, hdr...)
		msg = append(msg, name...)
		msg = append(msg, 0, 1, 0, 1)
		n := rapid.IntRange(1, 300).Draw(t, "nrr")
		binary.BigEndian.PutUint16(msg[6:], uint16(n))
		for i := 0; i < n; i++ {
			msg = append(msg, 0xC0, 12, 0, 1, 0, 1, 0, 0, 0, 0, 0, 4, 1, 2, 3, 4)
		}
		return msg, "ptr-amplify"
	case 4: // forward pointer into later data
		return append(hdr, 0xC0, 20, 0, 1, 0, 1, 0, 0, 1, 'x', 0), "ptr-forward"
	default: // maximal counts, no body
		return []byte{0, 1, 0x81, 0x80, 0xff, 0xff, 0xff, 0xff, 0xff, 0xff, 0xff, 0xff}, "counts-max"
	}
}

// one record of a chosen type with hostile RDATA
func hostileRR(t *rapid.T) ([]byte, string) {
	types := append([]uint16{}, gen.AllTypes...)
	types = append(types, wm.TOPT, 65280, 65281, 0)
	typ := rapid.SampledFrom(types).Draw(t, "type")
	containers := []uint16{wm.TOPT, wm.TSVCB, wm.THTTPS, wm.TNSEC, wm.TNSEC3, wm.TCSYNC, wm.TAPL, wm.THIP, wm.TIPSECKEY, wm.TAMTRELAY,
		wm.TTKEY, wm.TTSIG, wm.TNSEC3PARAM, wm.TNAPTR, wm.TTXT, wm.TCAA, wm.TNXT, wm.TRRSIG, wm.TSOA, wm.TSRV}
	rdk := rapid.IntRange(0, 3).Draw(t, "rdk")
	if rapid.IntRange(0, 1).Draw(t, "container") == 0 {
		typ = rapid.SampledFrom(containers).Draw(t, "ctype")
		rdk = rapid.SampledFrom([]int{1, 1, 2, 2, 2, 0}).Draw(t, "crdk")
	}
	var rd []byte
	switch rdk {
	case 0:
		rd = gen.Bytes(t, rapid.IntRange(0, 40).Draw(t, "n"), false)
	case 1: // valid RDATA, then damaged
		r := gen.RecOfType(t, typ, &gen.Opts{})
		if typ == wm.TOPT {
			r = gen.OptRec(t, &gen.Opts{})
		}
		rd = wm.EncodeRdata(r)
		if len(rd) > 0 {
			switch rapid.IntRange(0, 3).Draw(t, "dmg") {
			case 0:
				rd = rd[:rapid.IntRange(0, len(rd)-1).Draw(t, "cut")]
			case 1:
				rd[rapid.IntRange(0, len(rd)-1).Draw(t, "p")] ^= 1 << uint(rapid.IntRange(0, 7).Draw(t, "b"))
			case 2:
				rd = append(rd, gen.Bytes(t, rapid.IntRange(1, 8).Draw(t, "tail"), false)...)
			default:
				p := rapid.IntRange(0, len(rd)-1).Draw(t, "p")
				rd[p] = rapid.SampledFrom([]byte{0, 0xff, 0xc0, 33, 64, 0x80}).Draw(t, "v")
			}
		}
	case 2: // structured hostile content for the container types
		switch typ {
		case wm.TOPT:
			if rapid.IntRange(0, 2).Draw(t, "short-but-consistent") != 0 {
				// truthful lengths, but option bodies shorter (or longer) than their own format wants
				for i := rapid.IntRange(1, 3).Draw(t, "nopt"); i > 0; i-- {
					code := rapid.IntRange(0, 21).Draw(t, "code")
					body := gen.Bytes(t, rapid.IntRange(0, 20).Draw(t, "bl"), false)
					rd = append(rd, 0, byte(code), 0, byte(len(body)))
					rd = append(rd, body...)
				}
				break
			}
			rd = []byte{0, byte(rapid.IntRange(0, 20).Draw(t, "code")), byte(rapid.IntRange(0, 255).Draw(t, "lh")), byte(rapid.IntRange(0, 255).Draw(t, "ll"))}
			rd = append(rd, gen.Bytes(t, rapid.IntRange(0, 20).Draw(t, "n"), false)...)
		case wm.TSVCB, wm.THTTPS:
			rd = []byte{0, 1, 0}
			if rapid.Bool().Draw(t, "wellformed-then-lie") {
				// well-formed parameters with one inner or outer length changed
				ps := gen.SvcParams(t, &gen.Opts{})
				for _, p := range ps {
					d := append([]byte{}, p.Data...)
					l := len(d)
					switch rapid.IntRange(0, 5).Draw(t, "plie") {
					case 0:
						if len(d) > 0 {
							d[0] += byte(rapid.IntRange(1, 60).Draw(t, "inner")) // e.g. alpn id length
						}
					case 1:
						l += rapid.IntRange(-2, 3).Draw(t, "outer")
						if l < 0 {
							l = 0
						}
					}
					rd = append(rd, byte(p.Code>>8), byte(p.Code), byte(l>>8), byte(l))
					rd = append(rd, d...)
				}
				break
			}
			for i := rapid.IntRange(1, 4).Draw(t, "np"); i > 0; i-- {
				v := gen.Bytes(t, rapid.IntRange(0, 8).Draw(t, "vl"), false)
				rd = append(rd, 0, byte(rapid.IntRange(0, 9).Draw(t, "key")), 0, byte(len(v)+rapid.IntRange(-1, 1).Draw(t, "lie")))
				rd = append(rd, v...)
			}
		case wm.TNSEC, wm.TNSEC3, wm.TCSYNC, wm.TNXT:
			rd = []byte{0}
			if typ == wm.TNSEC3 {
				rd = []byte{1, 0, 0, 1, 0, 0}
			} else if typ == wm.TCSYNC {
				rd = []byte{0, 0, 0, 1, 0, 0}
			}
			for i := rapid.IntRange(1, 3).Draw(t, "nw"); i > 0; i-- {
				l := rapid.SampledFrom([]int{0, 1, 2, 32, 33, 255}).Draw(t, "wl")
				rd = append(rd, byte(rapid.IntRange(0, 3).Draw(t, "win")), byte(l))
				rd = append(rd, gen.Bytes(t, min(l, rapid.IntRange(0, 40).Draw(t, "have")), false)...)
			}
		case wm.TAPL:
			rd = []byte{0, byte(rapid.IntRange(0, 3).Draw(t, "fam")), byte(rapid.IntRange(0, 255).Draw(t, "pfx")), byte(rapid.IntRange(0, 255).Draw(t, "afd"))}
			rd = append(rd, gen.Bytes(t, rapid.IntRange(0, 20).Draw(t, "n"), false)...)
		default:
			rd = gen.Bytes(t, rapid.IntRange(0, 12).Draw(t, "n"), false)
		}
	default:
		rd = bytes.Repeat([]byte{byte(rapid.IntRange(0, 255).Draw(t, "fill"))}, rapid.IntRange(0, 300).Draw(t, "n"))
	}
	rdl := len(rd)
	if rapid.IntRange(0, 5).Draw(t, "lie") == 0 {
		rdl = rapid.SampledFrom([]int{0, 1, len(rd) + 1, 65535, max(len(rd)-1, 0)}).Draw(t, "rdl")
	}
	rr := []byte{1, 'x', 0, byte(typ >> 8), byte(typ), 0, 1, 0, 0, 0, 5, byte(rdl >> 8), byte(rdl)}
	return append(rr, rd...), "hostile-rdata:" + typeName(typ)
}

func typeName(t uint16) string {
	if s, ok := dns.TypeToString[t]; ok {
		return s
	}
	return fmt.Sprintf("TYPE%d", t)
}

func genMsgInput(t *rapid.T) wireCase {
	switch rapid.IntRange(0, 9).Draw(t, "src") {
	case 0:
		n := rapid.IntRange(0, 64).Draw(t, "n")
		if rapid.IntRange(0, 20).Draw(t, "bignoise") == 0 {
			n = rapid.IntRange(1000, 65535).Draw(t, "nbig")
		}
		return wireCase{Input: gen.Bytes(t, n, false), Kind: "noise"}
	case 1:
		w, k := pointerGraph(t)
		return wireCase{Input: w, Kind: k, Valid: true}
	case 2:
		rr, k := hostileRR(t)
		msg := append([]byte{0, 1, 0x81, 0x80, 0, 0, 0, 1, 0, 0, 0, 0}, rr...)
		if rapid.Bool().Draw(t, "extra") { // in the additional section instead
			msg[7], msg[11] = 0, 1
		}
		return wireCase{Input: msg, Kind: k, Valid: true}
	case 3:
		w, _ := validMsg(t)
		return wireCase{Input: w, Kind: "valid", Valid: true}
	case 4:
		a, _ := validMsg(t)
		b, _ := validMsg(t)
		cut := rapid.IntRange(0, len(a)).Draw(t, "cut")
		cut2 := rapid.IntRange(0, len(b)).Draw(t, "cut2")
		w := append(append([]byte{}, a[:cut]...), b[cut2:]...)
		if len(w) > 65535 {
			w = w[:65535]
		}
		return wireCase{Input: w, Kind: "splice", Valid: true}
	default:
		w, tr := validMsg(t)
		m, k := mutate(t, w, tr)
		return wireCase{Input: m, Kind: k, Valid: true}
	}
}

// genManyRecords: one small record of a drawn type (every type the library has a decoder for, the
// private type registered by the harness, unknown types) repeated hundreds to thousands of times -
// the shape on which work or memory per record that grows with the position in the message
// (re-scanning, copying the prefix) adds up to more than a fixed multiple of the input.
func genManyRecords(t *rapid.T) wireCase {
	types := append(append([]uint16{}, gen.AllTypes...), wm.TPrivate, 65281, wm.TOPT)
	typ := rapid.SampledFrom(types).Draw(t, "mtype")
	rec := gen.RecOfType(t, typ, &gen.Opts{Plain: true, MaxBlob: 6, NameGen: func(t *rapid.T) wm.Name {
		return gen.Name(t, gen.NameOpts{Plain: true, MaxLabs: 2, MaxLabel: 4})
	}})
	switch rapid.IntRange(0, 2).Draw(t, "mowner") {
	case 0:
		rec.Name = wm.Name{}
	case 1:
		rec.Name = gen.Name(t, gen.NameOpts{Plain: true, MaxLabs: 3, MaxLabel: 6})
	}
	one, err := wm.EncodeRR(rec)
	if err != nil || len(one) == 0 {
		one = []byte{0, 0, 1, 0, 1, 0, 0, 0, 0, 0, 4, 1, 2, 3, 4}
	}
	if rec.Name.WireLen() > 2 && rapid.Bool().Draw(t, "mptr") {
		// every owner after the first is a pointer to the first
		first := append([]byte{}, one...)
		rest := append([]byte{0xC0, 12}, one[rec.Name.WireLen():]...)
		n := min(rapid.IntRange(100, 5000).Draw(t, "mcount"), (65535-12-len(first))/len(rest))
		w := make([]byte, 12, 12+len(first)+n*len(rest))
		w = append(w, first...)
		for i := 0; i < n; i++ {
			w = append(w, rest...)
		}
		return manyHeader(t, w, n+1, typ)
	}
	n := min(rapid.IntRange(100, 5000).Draw(t, "mcount"), (65535-12)/len(one))
	w := make([]byte, 12, 12+n*len(one))
	for i := 0; i < n; i++ {
		w = append(w, one...)
	}
	return manyHeader(t, w, n, typ)
}

func manyHeader(t *rapid.T, w []byte, n int, typ uint16) wireCase {
	a := rapid.IntRange(0, n).Draw(t, "man")
	b := rapid.IntRange(0, n-a).Draw(t, "mns")
	if rapid.Bool().Draw(t, "onesec") {
		a, b = []int{n, 0, 0}[rapid.IntRange(0, 2).Draw(t, "which")], 0
		if a == 0 && rapid.Bool().Draw(t, "nssec") {
			b = n
		}
	}
	binary.BigEndian.PutUint16(w[0:], 7)
	w[2] = 0x84
	binary.BigEndian.PutUint16(w[6:], uint16(a))
	binary.BigEndian.PutUint16(w[8:], uint16(b))
	binary.BigEndian.PutUint16(w[10:], uint16(n-a-b))
	return wireCase{Input: w, Kind: "many-records:" + typeName(typ), Valid: true}
}

func genRRInput(t *rapid.T) wireCase {
	var in []byte
	kind := ""
	switch rapid.IntRange(0, 3).Draw(t, "src") {
	case 0:
		in, kind = hostileRR(t)
	case 1:
		in, kind = gen.Bytes(t, rapid.IntRange(0, 60).Draw(t, "n"), false), "noise"
	default:
		w, tr := validMsg(t)
		w, kind = mutate(t, w, tr)
		off := 0
		if len(tr.RRStart) > 0 {
			off = tr.RRStart[rapid.IntRange(0, len(tr.RRStart)-1).Draw(t, "rr")]
		}
		return wireCase{Input: w, Kind: kind, Off: min(off, len(w)), Valid: true}
	}
	pre := gen.Bytes(t, rapid.IntRange(0, 3).Draw(t, "pre"), false)
	return wireCase{Input: append(pre, in...), Kind: kind, Off: len(pre), Valid: kind != "noise"}
}

func genNameInput(t *rapid.T) wireCase {
	switch rapid.IntRange(0, 3).Draw(t, "src") {
	case 0:
		in := gen.Bytes(t, rapid.IntRange(0, 300).Draw(t, "n"), false)
		return wireCase{Input: in, Kind: "noise", Off: rapid.IntRange(0, len(in)).Draw(t, "off")}
	case 1:
		w, k := pointerGraph(t)
		return wireCase{Input: w, Kind: k, Off: rapid.IntRange(0, len(w)).Draw(t, "off"), Valid: true}
	default:
		// a name near the limits with pointer tricks: prefix labels + pointer to a tail
		tail := wm.EncodeName(gen.NameOfWireLen(t, rapid.IntRange(1, 255).Draw(t, "tl"), gen.NameOpts{}))
		head := wm.EncodeName(gen.Name(t, gen.NameOpts{MaxLabs: 4}))
		head = head[:len(head)-1]
		in := append([]byte{}, tail...)
		off := len(in)
		in = append(in, head...)
		in = append(in, 0xC0, 0)
		if rapid.IntRange(0, 4).Draw(t, "dmg") == 0 && len(in) > 0 {
			in[rapid.IntRange(0, len(in)-1).Draw(t, "p")] ^= 1 << uint(rapid.IntRange(0, 7).Draw(t, "b"))
		}
		return wireCase{Input: in, Kind: "name-with-pointer", Off: off, Valid: true}
	}
}

// every EDNS0 option code and SvcParam key x every body length 0..24 with truthful lengths: the
// per-option / per-parameter decoders must cope with a body of any length
func eachContainerLength(emit func(wireCase)) {
	for _, fill := range []byte{0x00, 0x01, 0xff, 0x41} {
		for code := 0; code <= 24; code++ {
			for l := 0; l <= 24; l++ {
				body := bytes.Repeat([]byte{fill}, l)
				opt := append([]byte{0, byte(code), 0, byte(l)}, body...)
				rr := append([]byte{0, 0, 41, 4, 208, 0, 0, 0, 0, byte(len(opt) >> 8), byte(len(opt))}, opt...)
				emit(wireCase{Input: append([]byte{0, 1, 0x81, 0x80, 0, 0, 0, 0, 0, 0, 0, 1}, rr...), Kind: fmt.Sprintf("opt-code-%d-len", code), Valid: true})
				if code <= 10 {
					par := append([]byte{0, 1, 0, 0, byte(code), 0, byte(l)}, body...)
					for _, typ := range []byte{64, 65} {
						rr := append([]byte{1, 'x', 0, 0, typ, 0, 1, 0, 0, 0, 5, byte(len(par) >> 8), byte(len(par))}, par...)
						emit(wireCase{Input: append([]byte{0, 1, 0x81, 0x80, 0, 0, 0, 1, 0, 0, 0, 0}, rr...), Kind: fmt.Sprintf("svcparam-%d-len", code), Valid: true})
					}
				}
			}
		}
	}
}

// eachInnerLength: every length field INSIDE an RDATA (16-bit and 8-bit length prefixes of TSIG,
// TKEY, HIP, NSEC3, NSEC3PARAM, ... fields) claims more than is there - the preceding fields are
// well-formed and RDLENGTH is truthful, only the inner length lies (by one, by a lot, by the maximum)
func eachInnerLength(emit func(wireCase)) {
	for _, typ := range append(append([]uint16{}, gen.AllTypes...), wm.TTSIG, wm.TTKEY) {
		layout := wm.Layout[typ]
		r := smallRec(typ, 1, 3)
		for i, sp := range layout {
			if sp.K != wm.L16 && sp.K != wm.L8 && sp.K != wm.HIPHdr {
				continue
			}
			var before []byte
			for _, f := range r.Fields[:i] {
				before = wm.EncodeField(before, f)
			}
			whole := wm.EncodeRdata(r)
			width := 2
			at := len(before)
			if sp.K == wm.L8 {
				width = 1
			}
			var lies []int
			if width == 2 {
				lies = []int{4, 5, 255, 256, 4096, 32767, 32768, 65535}
			} else {
				lies = []int{4, 5, 127, 128, 255}
			}
			offs := []int{at}
			if sp.K == wm.HIPHdr { // hit length (1 octet) | algorithm | public key length (2 octets)
				offs = []int{at, at + 2}
			}
			for oi, o := range offs {
				w2 := width
				if sp.K == wm.HIPHdr {
					w2 = []int{1, 2}[oi]
				}
				for _, lie := range lies {
					if w2 == 1 && lie > 255 {
						continue
					}
					for _, tail := range []int{0, 1, 8} { // octets really present behind the RDATA
						rd := append([]byte{}, whole...)
						if o+w2 > len(rd) {
							continue
						}
						if w2 == 2 {
							rd[o], rd[o+1] = byte(lie>>8), byte(lie)
						} else {
							rd[o] = byte(lie)
						}
						w := []byte{0, 9, 0x84, 0, 0, 0, 0, 1, 0, 0, 0, 0, 1, 'x', 0}
						w = binary.BigEndian.AppendUint16(w, typ)
						w = append(w, 0, 1, 0, 0, 0, 9)
						w = binary.BigEndian.AppendUint16(w, uint16(len(rd)))
						w = append(w, rd...)
						w = append(w, bytes.Repeat([]byte{0}, tail)...)
						emit(wireCase{Input: w, Kind: "inner-length-lies:" + typeName(typ), Valid: true})
					}
				}
			}
		}
	}
}

// eachKeySequence: two containers in a row - a well-formed first item followed by an item with
// every interesting key/code (the reserved, private and unknown ones included) and a short body:
// checks that only look at the FIRST item of a list are not enough.
func eachKeySequence(emit func(wireCase)) {
	keys := []int{0, 1, 2, 3, 4, 5, 6, 7, 8, 9, 10, 100, 0x7fff, 0x8000, 65279, 65280, 65534, 65535}
	first := [][]byte{{0, 3, 0, 2, 1, 0xbb}, {0, 2, 0, 0}, {0, 1, 0, 3, 2, 'h', '2'}, {0xff, 0x00, 0, 1, 7}}
	for _, f := range first {
		for _, k := range keys {
			for _, body := range [][]byte{{}, {0}, {0, 0}, {1, 'x'}, {0, 0, 0, 0}, bytes.Repeat([]byte{0xff}, 16)} {
				par := append([]byte{0, 1, 0}, f...)
				par = append(par, byte(k>>8), byte(k), byte(len(body)>>8), byte(len(body)))
				par = append(par, body...)
				for _, typ := range []byte{64, 65} {
					rr := append([]byte{1, 'x', 0, 0, typ, 0, 1, 0, 0, 0, 5, byte(len(par) >> 8), byte(len(par))}, par...)
					emit(wireCase{Input: append([]byte{0, 1, 0x81, 0x80, 0, 0, 0, 1, 0, 0, 0, 0}, rr...), Kind: "svcparam-sequence", Valid: true})
				}
				// the same for EDNS0 options behind a valid first option
				opt := append([]byte{0, 10, 0, 8, 1, 2, 3, 4, 5, 6, 7, 8}, byte(k>>8), byte(k), byte(len(body)>>8), byte(len(body)))
				opt = append(opt, body...)
				orr := append([]byte{0, 0, 41, 4, 208, 0, 0, 0, 0, byte(len(opt) >> 8), byte(len(opt))}, opt...)
				emit(wireCase{Input: append([]byte{0, 1, 0x81, 0x80, 0, 0, 0, 0, 0, 0, 0, 1}, orr...), Kind: "opt-sequence", Valid: true})
			}
		}
	}
}

// eachEmptyRdata: every type (the pseudo-types OPT, TSIG, SIG, TKEY, ANY, AXFR... included) with
// RDLENGTH 0, in every section, for the classes and TTLs that have a meaning of their own
// somewhere (ANY and NONE in updates, the OPT payload size, TTL 0): the dynamic-update forms and
// the pseudo-records meet here.
func eachEmptyRdata(emit func(wireCase)) {
	types := append([]uint16{}, gen.AllTypes...)
	types = append(types, 41, 249, 250, 251, 252, 253, 254, 255, 0, 65280, 65281, 65535)
	for _, typ := range types {
		for _, class := range []uint16{1, 254, 255, 0, 3, 4096, 512} {
			for _, ttl := range []uint32{0, 1, 0x8000, 0x01000000} {
				for sec := 0; sec < 3; sec++ {
					for _, owner := range [][]byte{{0}, {1, 'x', 0}} {
						w := []byte{0, 9, 0x28, 0, 0, 0, 0, 0, 0, 0, 0, 0}
						w[7+2*sec] = 1
						w = append(w, owner...)
						w = binary.BigEndian.AppendUint16(w, typ)
						w = binary.BigEndian.AppendUint16(w, class)
						w = binary.BigEndian.AppendUint32(w, ttl)
						w = append(w, 0, 0)
						emit(wireCase{Input: w, Kind: "empty-rdata:" + typeName(typ), Valid: true})
					}
				}
			}
		}
	}
}

// UnpackRRWithHeader with a caller-supplied header: every type x RDLENGTH shorter than, equal to and
// longer than the RDATA that is really there, followed by more octets
type hdrCase struct {
	Type     uint16
	Rdlength uint16
	Msg      []byte
	Off      int
}

func checkWithHeader(c hdrCase) error {
	off := c.Off
	if off < 0 || off > len(c.Msg) {
		off = 0
	}
	h := dns.RR_Header{Name: "x.", Rrtype: c.Type, Class: 1, Ttl: 5, Rdlength: c.Rdlength}
	var rr dns.RR
	var noff int
	var err error
	alloc, p, hung := measured(func() { rr, noff, err = dns.UnpackRRWithHeader(h, c.Msg, off) })
	pbt.Note(append([]byte{byte(c.Type), byte(c.Type >> 8), byte(c.Rdlength), byte(c.Rdlength >> 8), byte(off)}, c.Msg...), true, "type:"+typeName(c.Type), fmt.Sprintf("accepted=%v", err == nil))
	if hung {
		return pbt.NoShrink{Err: pbt.Errf("UnpackRRWithHeader(%s, rdlength %d, %d octets at %d) did not return", typeName(c.Type), c.Rdlength, len(c.Msg), off)}
	}
	if p != "" {
		return pbt.Errf("UnpackRRWithHeader(%s, rdlength %d, %d octets at %d) panicked: %s", typeName(c.Type), c.Rdlength, len(c.Msg), off, p)
	}
	if alloc > allocBound(c.Msg) {
		alloc = confirmAlloc(alloc, allocBound(c.Msg), func() { dns.UnpackRRWithHeader(h, c.Msg, off) })
	}
	if alloc > allocBound(c.Msg) {
		return pbt.Errf("UnpackRRWithHeader allocated %d bytes for %d octets (bound %d; the smallest of five measurements)", alloc, len(c.Msg), allocBound(c.Msg))
	}
	if err != nil {
		return nil
	}
	if noff != off+int(c.Rdlength) && !(c.Rdlength == 0 && noff == off) {
		return pbt.Errf("UnpackRRWithHeader(%s) accepted but consumed up to %d, the record ends at %d", typeName(c.Type), noff, off+int(c.Rdlength))
	}
	// what lies behind the record must not matter
	if rr != nil {
		tail := bytes.Repeat([]byte{0x5a}, 30)
		alt := append(append([]byte{}, c.Msg[:noff]...), tail...)
		ptrFree := true
		for _, b := range c.Msg[off:noff] {
			if b&0xC0 == 0xC0 {
				ptrFree = false
			}
		}
		if ptrFree {
			rr2, noff2, err2 := dns.UnpackRRWithHeader(h, alt, off)
			if err2 != nil || noff2 != noff || rr2 == nil || rr2.String() != rr.String() {
				return pbt.Errf("UnpackRRWithHeader(%s, rdlength %d): the result depends on octets behind the record (with another tail: err=%v off=%d %v; before: off=%d %v)", typeName(c.Type), c.Rdlength, err2, noff2, rr2, noff, rr)
			}
		}
		if p, hung := guarded(func() { _ = rr.String(); _ = dns.Len(rr); _ = dns.Copy(rr) }); hung || p != "" {
			return pbt.Errf("record accepted by UnpackRRWithHeader cannot be printed/measured/copied: %s", p)
		}
	}
	return nil
}

func genWithHeader(t *rapid.T) hdrCase {
	types := append([]uint16{}, gen.AllTypes...)
	types = append(types, wm.TOPT, 65281)
	typ := rapid.SampledFrom(types).Draw(t, "type")
	var r wm.Rec
	if typ == wm.TOPT {
		r = gen.OptRec(t, &gen.Opts{})
	} else {
		r = gen.RecOfType(t, typ, &gen.Opts{MaxBlob: 24})
	}
	rd := wm.EncodeRdata(r)
	if len(rd) > 600 {
		rd = rd[:600]
	}
	pre := gen.Bytes(t, rapid.IntRange(0, 4).Draw(t, "pre"), false)
	tail := gen.Bytes(t, rapid.IntRange(0, 12).Draw(t, "tail"), false)
	msg := append(append(append([]byte{}, pre...), rd...), tail...)
	l := len(rd)
	switch rapid.IntRange(0, 3).Draw(t, "rdk") {
	case 0:
	case 1:
		l = rapid.IntRange(0, len(rd)).Draw(t, "short")
	case 2:
		l = len(rd) + rapid.IntRange(1, len(tail)+3).Draw(t, "long")
	default:
		l = rapid.IntRange(0, 12).Draw(t, "tiny")
	}
	return hdrCase{Type: typ, Rdlength: uint16(l), Msg: msg, Off: len(pre)}
}

// every type x every RDLENGTH 0..20 over a buffer of 40 octets (several fill patterns)
func eachHeaderLength(emit func(hdrCase)) {
	types := append([]uint16{}, gen.AllTypes...)
	types = append(types, wm.TOPT, 65281)
	for _, fill := range [][]byte{{0}, {1}, {0xff}, {3, 'a', 'b', 'c', 0}, {0, 1, 0, 2}} {
		msg := bytes.Repeat(fill, 40)[:40]
		for _, typ := range types {
			for l := 0; l <= 20; l++ {
				emit(hdrCase{Type: typ, Rdlength: uint16(l), Msg: msg, Off: 2})
			}
		}
	}
}

// every type x every small integer value in all of its integer fields x short opaque fields:
// field-value combinations that the decoder accepts must also print, measure, copy and re-pack
// smallRec is a record of the type with every field set to a small value derived from k and l.
func smallRec(typ uint16, k, l int) wm.Rec {
	r := wm.Rec{Name: wm.Name{[]byte("x")}, Type: typ, Class: 1, TTL: uint32(k)}
	layout, known := wm.Layout[typ]
	if !known {
		r.Fields = []wm.Field{{K: wm.Rest, B: bytes.Repeat([]byte{byte(k)}, l)}}
		return r
	}
	for _, sp := range layout {
		f := wm.Field{K: sp.K}
		switch sp.K {
		case wm.U8, wm.U16, wm.U32, wm.U48, wm.U64:
			f.U = uint64(k)
			if sp.Hint == "gwtype" || sp.Hint == "amtgwtype" {
				f.U = uint64(k % 4)
			}
		case wm.NameC, wm.NameU:
			f.N = wm.Name{[]byte("n")}
		case wm.Str, wm.Rest, wm.L8, wm.L16:
			f.B = bytes.Repeat([]byte{byte(k)}, l)
		case wm.Strs:
			f.L = [][]byte{bytes.Repeat([]byte{byte(k)}, l)}
		case wm.IPv4:
			f.B = []byte{byte(k), 0, 2, 1}
		case wm.IPv6:
			f.B = append([]byte{0x20, byte(k)}, make([]byte, 14)...)
		case wm.Bitmap:
			f.T = []uint16{uint16(k)}
		case wm.GW:
			f.U = uint64(k % 4)
			switch f.U {
			case 1:
				f.B = []byte{192, 0, 2, byte(k)}
			case 2:
				f.B = append([]byte{0x20, 1}, make([]byte, 14)...)
			case 3:
				f.N = wm.Name{[]byte("g")}
			}
		case wm.HIPHdr:
			f.U, f.B, f.B2 = uint64(k), bytes.Repeat([]byte{1}, l), bytes.Repeat([]byte{2}, l)
		}
		r.Fields = append(r.Fields, f)
	}
	return r
}

func eachSmallValue(emit func(wireCase)) {
	types := append([]uint16{}, gen.AllTypes...)
	for _, typ := range types {
		for k := 0; k <= 40; k++ {
			for _, l := range []int{0, 1, 2, 5, 6, 7} {
				w, err := wm.Encode(wm.Msg{ID: 1, Flags: wm.FlagQR, An: []wm.Rec{smallRec(typ, k, l)}})
				if err != nil {
					continue
				}
				emit(wireCase{Input: w, Kind: "small-values:" + typeName(typ), Valid: true})
			}
		}
	}
}

// every type (the harness's registered private type and an unknown type included) x a message of
// about 30000 octets filled with one small record of it, owners written as pointers to the first
func eachTypeManyRecords(emit func(wireCase)) {
	for _, typ := range append(append([]uint16{}, gen.AllTypes...), wm.TPrivate, 65281) {
		one, err := wm.EncodeRR(smallRec(typ, 1, 1))
		if err != nil {
			continue
		}
		rest := append([]byte{0xC0, 12}, one[3:]...) // owner "x" is 3 octets
		n := (30000 - 12 - len(one)) / len(rest)
		w := make([]byte, 12, 30000)
		w = append(w, one...)
		for i := 0; i < n; i++ {
			w = append(w, rest...)
		}
		binary.BigEndian.PutUint16(w[0:], 9)
		w[2] = 0x84
		binary.BigEndian.PutUint16(w[6:], uint16(n+1))
		emit(wireCase{Input: w, Kind: "many-records:" + typeName(typ), Valid: true})
	}
}

// eachManyItems: ONE record (or the question section) holding as many of its smallest inner items
// as 65535 octets allow - SvcParams, EDNS0 options, APL items, character-strings, alpn ids, address
// hints, mandatory keys, bitmap windows, rendezvous servers, questions. Work or memory per item that
// grows with the number of items before it shows here and nowhere else.
func eachManyItems(emit func(wireCase)) {
	rec := func(kind string, typ uint16, rdata []byte) {
		if len(rdata) > 65000 {
			rdata = rdata[:65000]
		}
		w := []byte{0, 9, 0x84, 0, 0, 0, 0, 1, 0, 0, 0, 0}
		w = append(w, 1, 'x', 0)
		w = binary.BigEndian.AppendUint16(w, typ)
		w = append(w, 0, 1, 0, 0, 0, 9)
		w = binary.BigEndian.AppendUint16(w, uint16(len(rdata)))
		w = append(w, rdata...)
		emit(wireCase{Input: w, Kind: "many-items:" + kind, Valid: true, Huge: true})
	}
	rep := func(n int, item func(i int) []byte) []byte {
		var out []byte
		for i := 0; i < n; i++ {
			out = append(out, item(i)...)
		}
		return out
	}
	u16 := func(v int) []byte { return []byte{byte(v >> 8), byte(v)} }
	for _, n := range []int{4000, 16000} {
		for _, typ := range []uint16{wm.TSVCB, wm.THTTPS} {
			head := []byte{0, 1, 0}
			rec(fmt.Sprintf("svcparams-%d", n), typ, append(append([]byte{}, head...), rep(n, func(i int) []byte { return append(u16(10+i), 0, 0) })...))
			rec(fmt.Sprintf("alpn-ids-%d", n), typ, append(append(append([]byte{}, head...), append(u16(1), u16(2*n)...)...), rep(n, func(i int) []byte { return []byte{1, 'h'} })...))
			rec(fmt.Sprintf("ipv4hints-%d", n), typ, append(append(append([]byte{}, head...), append(u16(4), u16(4*n)...)...), rep(n, func(i int) []byte { return []byte{192, 0, byte(i >> 8), byte(i)} })...))
			rec(fmt.Sprintf("mandatory-%d", n), typ, append(append(append([]byte{}, head...), append(u16(0), u16(2*n)...)...), rep(n, func(i int) []byte { return u16(1 + i) })...))
		}
		rec(fmt.Sprintf("apl-items-%d", n), wm.TAPL, rep(n, func(i int) []byte { return []byte{0, 1, 0, 0} }))
		rec(fmt.Sprintf("txt-strings-%d", 4*n), wm.TTXT, rep(4*n, func(i int) []byte { return []byte{0} }))
		rec(fmt.Sprintf("hip-servers-%d", n), wm.THIP, append([]byte{1, 1, 0, 1, 7, 8}, rep(4*n, func(i int) []byte { return []byte{0} })...))
		// OPT with many empty options (in the additional section)
		opts := rep(n, func(i int) []byte { return append(u16(65001), 0, 0) })
		w := []byte{0, 9, 0x84, 0, 0, 0, 0, 0, 0, 0, 0, 1, 0, 0, 41, 16, 0, 0, 0, 0, 0}
		w = append(append(w, u16(len(opts))...), opts...)
		emit(wireCase{Input: w, Kind: fmt.Sprintf("many-items:opt-options-%d", n), Valid: true, Huge: true})
		// many questions
		q := []byte{0, 9, 0x84, 0}
		q = append(append(q, u16(3*n)...), 0, 0, 0, 0, 0, 0)
		q = append(q, rep(3*n, func(i int) []byte { return []byte{0, 0, 1, 0, 1} })...)
		if len(q) > 65535 {
			q = q[:65535]
		}
		emit(wireCase{Input: q, Kind: fmt.Sprintf("many-items:questions-%d", 3*n), Valid: true, Huge: true})
	}
	// a long chain of backward compression pointers (each pointing at the one before it), and very
	// many two-octet names that all enter the chain at its far end: whatever the decoder's answer,
	// the work per name has to stay bounded
	for _, hops := range []int{120, 126, 127, 128, 200, 2000, 8000} {
		for _, shape := range []string{"ns-records", "hip-servers"} {
			// an opaque record (root owner, TYPE65281) whose RDATA is: a root label, then `hops`
			// pointers, each pointing at the element before it
			start := 12 + 1 + 2 + 2 + 4 + 2
			chain := []byte{0}
			for i := 0; i < hops; i++ {
				target := start
				if i > 0 {
					target = start + 1 + 2*(i-1)
				}
				chain = append(chain, 0xC0|byte(target>>8), byte(target))
			}
			last := start + 1 + 2*(hops-1)
			if last >= 16384 {
				continue
			}
			w := []byte{0, 9, 0x84, 0, 0, 0, 0, 1, 0, 0, 0, 0}
			w = append(w, 0, 0xff, 0x01, 0, 1, 0, 0, 0, 9)
			w = append(append(w, u16(len(chain))...), chain...)
			ptr := []byte{0xC0 | byte(last>>8), byte(last)}
			room := 65000 - len(w)
			if shape == "ns-records" {
				n := room / 14
				binary.BigEndian.PutUint16(w[6:], uint16(n+1))
				for i := 0; i < n; i++ {
					w = append(w, ptr...)
					w = append(w, 0, 2, 0, 1, 0, 0, 0, 9, 0, 2)
					w = append(w, ptr...)
				}
			} else {
				n := (room - 30) / 2
				rd := []byte{1, 1, 0, 1, 7, 8}
				for i := 0; i < n; i++ {
					rd = append(rd, ptr...)
				}
				binary.BigEndian.PutUint16(w[6:], 2)
				w = append(w, 1, 'h', 0, 0, 55, 0, 1, 0, 0, 0, 9)
				w = append(append(w, u16(len(rd))...), rd...)
			}
			emit(wireCase{Input: w, Kind: fmt.Sprintf("many-items:pointer-chain-%d-%s", hops, shape), Valid: true, Huge: true})
		}
	}
	// type bitmaps: 64 windows, each with its full 32 octets (16384 types). Not all 256: printing a
	// type bitmap is quadratic in the number of types (NSEC.String() builds its text by repeated
	// concatenation; 65536 types from an 8.7 KB message take 7 s to print) - observed, and outside
	// what C02 states about printing ("without panicking")
	bm := rep(64, func(i int) []byte { return append([]byte{byte(i), 32}, bytes.Repeat([]byte{0xff}, 32)...) })
	rec("bitmap-windows-64", wm.TNSEC, append([]byte{0}, bm...))
	rec("bitmap-windows-64", wm.TCSYNC, append([]byte{0, 0, 0, 1, 0, 3}, bm...))
}

func init() {
	pbt.RegisterEnum(pbt.Enum[wireCase]{Name: "inner-length-lies", Exhaustive: true, Each: eachInnerLength, Check: checkMsg})
	pbt.RegisterEnum(pbt.Enum[wireCase]{Name: "item-sequences", Exhaustive: true, Each: eachKeySequence, Check: checkMsg})
	pbt.RegisterEnum(pbt.Enum[wireCase]{Name: "every-type-empty-rdata", Exhaustive: true, Each: eachEmptyRdata, Check: checkMsg})
	pbt.RegisterEnum(pbt.Enum[wireCase]{Name: "every-container-many-items", Exhaustive: true, Each: eachManyItems, Check: checkMsg})
	pbt.RegisterEnum(pbt.Enum[wireCase]{Name: "every-type-small-values", Exhaustive: true, Each: eachSmallValue, Check: checkMsg})
	pbt.RegisterEnum(pbt.Enum[wireCase]{Name: "every-type-many-records", Exhaustive: true, Each: eachTypeManyRecords, Check: checkMsg})
	pbt.Register(pbt.Sub[hdrCase]{Name: "rr-with-header", Weight: 20, Gen: genWithHeader, Check: checkWithHeader})
	pbt.RegisterEnum(pbt.Enum[hdrCase]{Name: "rr-with-header-every-length", Exhaustive: true, Each: eachHeaderLength, Check: checkWithHeader})
	pbt.RegisterEnum(pbt.Enum[wireCase]{Name: "option-and-param-body-lengths", Exhaustive: true, Each: eachContainerLength, Check: checkMsg})
	pbt.Register(pbt.Sub[wireCase]{Name: "msg-unpack", Weight: 40, Gen: genMsgInput, Check: checkMsg})
	pbt.Register(pbt.Sub[wireCase]{Name: "many-small-records", Weight: 0.5, Gen: genManyRecords, Check: checkMsg})
	pbt.Register(pbt.Sub[wireCase]{Name: "rr-unpack", Weight: 30, Gen: genRRInput, Check: checkRR})
	pbt.Register(pbt.Sub[wireCase]{Name: "name-unpack", Weight: 30, Gen: genNameInput, Check: checkName})
}
