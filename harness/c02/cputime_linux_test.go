//go:build linux

package c02

import (
	"syscall"
	"time"
)

// threadCPU is the processor time (user + system) the calling OS thread has consumed so far
// (getrusage(RUSAGE_THREAD)). The caller must have locked its goroutine to the thread.
func threadCPU() (time.Duration, bool) {
	const rusageThread = 1
	var ru syscall.Rusage
	if err := syscall.Getrusage(rusageThread, &ru); err != nil {
		return 0, false
	}
	return time.Duration(ru.Utime.Nano() + ru.Stime.Nano()), true
}
