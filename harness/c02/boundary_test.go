package c02

// Field lengths at binary boundaries. "Whatever it accepts can then be printed, measured, copied and
// re-packed without panicking": printers, length predictions and packers treat long opaque fields
// in pieces - the hex text of an SMIMEA certificate is split into groups of 1024 characters, base64
// and base32 work in groups of 3 and 5 octets, buffers grow in powers of two - and a piece-wise
// computation has its special cases where the length is an exact multiple of the piece. The
// generators drew opaque fields of at most 48 octets (gen.Opts.MaxBlob), the text-expansion classes
// use 80 octets or 16500 / 33000 / 65000, so nothing between 300 octets and 16 K was ever decoded and
// printed, and never an exact power of two. The class here is
//
//	record type (every type with a field that may take the rest of the RDATA, a 16-bit length,
//	a list of strings, SvcParams, EDNS0 options) x length of that field in {2^k, 3*2^(k-1)} + {-1, 0, +1}
//
// (hex doubles, base64 is 4/3, \DDD is 4: a group of T characters ends at T/2, 3T/4 or T/4 octets,
// which are again of the form 2^k or 3*2^k). Enumerated as field-length-boundaries (k = 6..12 in the
// quick tier, ..15 in thorough) and generated as field-length-multiples (m*2^k+d for any m).

import (
	"fmt"

	"pgregory.net/rapid"

	"verif/harness/pbt"
	wm "verif/harness/wiremodel"
)

func boundaryLens(maxK int) []int {
	var out []int
	for k := 6; k <= maxK; k++ {
		for _, base := range []int{1 << k, 3 << (k - 1)} {
			for d := -1; d <= 1; d++ {
				out = append(out, base+d)
			}
		}
	}
	return out
}

// strsOf: n octets of string data as character-strings of 255 octets and a shorter last one
func strsOf(fc fillClass, n int) [][]byte {
	var out [][]byte
	for n > 255 {
		out = append(out, fc.fill(255))
		n -= 255
	}
	return append(out, fc.fill(n))
}

// boundaryRec: a small record of the type whose every open-ended field holds exactly n octets of the
// class. variant selects between the forms an item list can take.
func boundaryRec(typ uint16, fc fillClass, n, variant int) wm.Rec {
	r := smallRec(typ, 1, 1)
	if _, known := wm.Layout[typ]; !known {
		r.Fields[0].B = fc.fill(n)
		return r
	}
	for i := range r.Fields {
		f := &r.Fields[i]
		switch f.K {
		case wm.Rest, wm.L16:
			f.B = fc.fill(n)
		case wm.HIPHdr:
			f.B, f.B2 = fc.fill(min(n, 255)), fc.fill(n)
		case wm.Strs:
			f.L = strsOf(fc, n)
		case wm.Params:
			if variant == 0 {
				var alpn []byte
				// (an empty alpn id is refused, so a single octet left over is dropped: n-1 octets then)
				for left := max(n, 2); left > 1; {
					l := min(left-1, 255)
					alpn = append(append(alpn, byte(l)), fc.fill(l)...)
					left -= l + 1
				}
				f.Opts = []wm.Option{{Code: 1, Data: alpn}, {Code: 5, Data: fc.fill(n)}, {Code: 7, Data: fc.fill(n)}, {Code: 65280, Data: fc.fill(n)}}
			} else {
				f.Opts = []wm.Option{{Code: 4, Data: fc.fill(n &^ 3)}, {Code: 6, Data: fc.fill(n &^ 15)}}
			}
		case wm.Opts:
			// (NSID and the algorithm lists stay at 1 K: OPT.String prints them item by item with repeated
			// concatenation - quadratic, slow, not a panic)
			f.Opts = []wm.Option{{Code: 3, Data: fc.fill(min(n, 1025))}, {Code: 5, Data: fc.fill(min(n, 1025))}, {Code: 10, Data: fc.fill(n)},
				{Code: 12, Data: fc.fill(n)}, {Code: 15, Data: append([]byte{0, 1}, fc.fill(n)...)}, {Code: 65001, Data: fc.fill(n)}}
		}
	}
	if typ == wm.TOPT {
		r.Name, r.Class, r.TTL = wm.Name{}, 4096, 0
	}
	return r
}

// boundaryTypes: the types with an open-ended field, and the number of variants each has
func boundaryTypes() (types []uint16, variants map[uint16]int) {
	variants = map[uint16]int{}
	for _, typ := range expandTypes() {
		if !layoutHas(typ, elasticField) {
			continue
		}
		types = append(types, typ)
		variants[typ] = 1
		if layoutHas(typ, func(sp wm.FieldSpec) bool { return sp.K == wm.Params }) {
			variants[typ] = 2
		}
	}
	return
}

func boundaryClasses(typ uint16) []fillClass {
	if layoutHas(typ, func(sp wm.FieldSpec) bool { return elasticField(sp) && textField(sp) }) {
		return []fillClass{fillClasses[0], fillClasses[3]} // \000 (four characters per octet) and the quote (two)
	}
	return []fillClass{fillClasses[1]} // hex / base64 print alike for every octet
}

func boundaryCase(typ uint16, fc fillClass, n, variant int) (wireCase, bool) {
	sec := 0
	if typ == wm.TOPT {
		sec = 2
	}
	w, ok := oneRecordMsg(boundaryRec(typ, fc, n, variant), sec)
	if !ok {
		return wireCase{}, false
	}
	return wireCase{Input: w, Kind: fmt.Sprintf("field-length-%s-%s", typeName(typ), fc.Name), Off: 12, Valid: true}, true
}

func eachFieldLengthBoundary(emit func(wireCase)) {
	maxK := 12
	if pbt.Thorough() {
		maxK = 15
	}
	types, variants := boundaryTypes()
	for _, typ := range types {
		for _, fc := range boundaryClasses(typ) {
			for v := 0; v < variants[typ]; v++ {
				for _, n := range boundaryLens(maxK) {
					if c, ok := boundaryCase(typ, fc, n, v); ok {
						emit(c)
					}
				}
			}
		}
	}
}

// genFieldLengthMultiple: the generated form - any type of the class, length m * 2^k + d.
func genFieldLengthMultiple(t *rapid.T) wireCase {
	types, variants := boundaryTypes()
	typ := rapid.SampledFrom(types).Draw(t, "type")
	fc := rapid.SampledFrom(fillClasses).Draw(t, "class")
	k := rapid.IntRange(2, 12).Draw(t, "k")
	maxM := min(16, 12000>>k)
	if pbt.Thorough() {
		maxM = min(64, 60000>>k)
	}
	n := rapid.IntRange(1, max(maxM, 1)).Draw(t, "m")<<k + rapid.IntRange(-1, 1).Draw(t, "d")
	v := rapid.IntRange(0, variants[typ]-1).Draw(t, "variant")
	for ; n > 0; n /= 2 {
		if c, ok := boundaryCase(typ, fc, n, v); ok {
			return c
		}
	}
	c, _ := boundaryCase(typ, fc, 0, v)
	return c
}

func init() {
	pbt.RegisterEnum(pbt.Enum[wireCase]{Name: "field-length-boundaries", Exhaustive: true, Each: eachFieldLengthBoundary, Check: checkMsg})
	pbt.Register(pbt.Sub[wireCase]{Name: "field-length-multiples", Weight: 1, Gen: genFieldLengthMultiple, Check: checkMsg})
}
