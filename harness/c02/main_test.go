package c02

import (
	"runtime/debug"
	"testing"

	"verif/harness/pbt"
)

func init() {
	pbt.Property("C02")
	// The live heap of this process is a few MB while single cases allocate tens of MB (quadratic
	// printers, 64 KB inputs): with the default setting the collector would start several times per
	// case and its workers would spend most of the run contending for locks on a busy machine.
	// (The allocation oracle reads the cumulative counter TotalAlloc, which does not depend on this.)
	debug.SetGCPercent(1600)
}

func TestMain(m *testing.M)   { pbt.Main(m) }
func TestProps(t *testing.T)  { pbt.RunAll(t) }
func TestReplay(t *testing.T) { pbt.ReplayAll(t) }
