package c02

import (
	"os"

	"verif/harness/pbt"
)

// Not a finding - a pinned input. Side remark 1 of the round-7 breaker: one HIP record (owner root,
// HIT and public key of length 0) whose RDATA is 32624 copies of the pointer C0 0C to a question
// name of 127 one-octet labels, 65534 octets in all. The unchanged decoder accepts it and allocates
// 168 B per input octet, which is inside the fixed multiple C02 asks for (see allocBound). The
// probe runs at every start and fails - as an unlisted finding, i.e. a violation - if decoding
// this input ever leaves the allocation or time bound or stops returning.
//
// Not in the processes of a native fuzz campaign (vcheck sets VERIF_FUZZ=1 for them): the coordinator
// and each of its 16 workers would run it at start, on an instrumented binary, and on a busy machine
// that alone took more than 30 s before the first input was tried (round 9: `--fuzztime 30` ended with
// 0 execs for all four targets). The rapid shards of both tiers still run it.
func init() {
	if os.Getenv("VERIF_FUZZ") == "1" {
		return
	}
	pbt.Probe("pointer-flood-within-bound", func() error {
		w := pointerMsg(fillClasses[8], true, "hip-servers", 65534)
		if len(w) != 65534 {
			return pbt.Errf("the pinned input has %d octets, not 65534", len(w))
		}
		return checkMsg(wireCase{Input: w, Kind: "probe-pointer-flood", Valid: true, Huge: true})
	})
}
