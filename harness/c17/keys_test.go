package c17

import (
	"bytes"
	"encoding/base64"
	"encoding/hex"
	"fmt"
	"strings"

	"github.com/miekg/dns"
	"pgregory.net/rapid"

	"verif/harness/gen"
	"verif/harness/pbt"
	ref "verif/harness/refcrypto"
	wm "verif/harness/wiremodel"
)

// ---------------------------------------------------------------------------------------------
// (a) KeyTag / ToDS against RFC 4034 App. B, RFC 4034 5.1.4, RFC 4509, RFC 6605

const (
	findKeytagLong = "keytag-long-key"  // DESIGN §4 #12
	findDDDUpper   = "ddd-upper-letter" // upper-case letter spelled \DDD is not folded
)

// maxScratchKey is the longest key for which the library's fixed 4096-octet scratch buffer is
// large enough (4 octets of fixed RDATA + key). Only used to delimit the excluded class.
const maxScratchKey = 4092

type keyCase struct {
	Owner     string // presentation name of the DNSKEY owner
	Owner2    string // the same name in another letter case / spelling
	Class     uint16
	TTL       uint32
	Flags     uint16
	Protocol  uint8
	Algorithm uint8
	Key       []byte
	OtherType uint8 // an additional digest type to try (any value)
	// the state the DNSKEY object is in when KeyTag / ToDS are called: "" = a fresh struct literal;
	// "rdlength" = a literal whose header carries the (stale) Rdlength value Rdlen; "decoded" = a
	// record decoded from wire with the key PrevKey, whose fields are then overwritten; "packed" = a
	// literal with PrevKey that went through PackRR once before the fields are overwritten
	State   string
	Rdlen   uint16
	PrevKey []byte
}

func labelsOf(text string) (ref.Labels, error) {
	n, _, err := wm.UnescName(text)
	if err != nil {
		return nil, err
	}
	return ref.Labels(n), nil
}

// rawHigh reports whether the text holds an octet >= 0x80 as such. The library's presentation form
// writes those as \DDD; raw ones (UTF-8 or Latin-1 typed into an API) go through strings.ToLower /
// CanonicalName, which work on Unicode: 'É' is lower-cased and an invalid octet becomes U+FFFD, so the
// result differs from that of the \DDD spelling of the same octets. The statement's "independent of
// the letter case of the name" is about the 26 ASCII letters DNS compares case-insensitively (RFC
// 4343), and DESIGN 7.4 places raw octets >= 0x80 outside the library's presentation form: such text
// is never generated here and a replayed case that carries it is not evaluated.
func rawHigh(s string) bool {
	for i := 0; i < len(s); i++ {
		if s[i] >= 0x80 {
			return true
		}
	}
	return false
}

func highOctet(n ref.Labels) bool {
	for _, l := range n {
		for _, b := range l {
			if b >= 0x80 {
				return true
			}
		}
	}
	return false
}

func lenClass(n int) string {
	switch {
	case n == 0:
		return "keylen=0"
	case n < 3:
		return "keylen=1-2"
	case n <= 600:
		return "keylen=3-600"
	case n < 4086:
		return "keylen=601-4085"
	case n <= maxScratchKey:
		return "keylen=4086-4092"
	case n <= 4100:
		return "keylen=4093-4100"
	default:
		return "keylen>4100"
	}
}

func checkKey(c keyCase) error {
	owner, err := labelsOf(c.Owner)
	if err != nil {
		return nil // not a valid name: outside the domain, generators never do this
	}
	owner2, err := labelsOf(c.Owner2)
	if err != nil || !owner.EqualFold(owner2) {
		return nil
	}
	if c.Algorithm == ref.AlgRSAMD5 {
		return nil // RSA/MD5 has its own key tag definition; outside the property
	}
	if rawHigh(c.Owner) || rawHigh(c.Owner2) {
		return nil
	}
	rdata := ref.DNSKEYRdata(c.Flags, c.Protocol, c.Algorithm, c.Key)
	pbt.Note(append([]byte(c.Owner+"|"), rdata...), len(c.Key) >= 3,
		lenClass(len(c.Key)), fmt.Sprintf("keylen-odd=%v", len(c.Key)%2 == 1), fmt.Sprintf("owner-labels=%d", min(len(owner), 3)),
		fmt.Sprintf("keytag-single-fold-carries-again=%v(keylen<=600:%v)", foldCarries(rdata), len(c.Key) <= 600),
		fmt.Sprintf("owner-casevariant=%v", c.Owner != c.Owner2), "object-state="+map[bool]string{true: "fresh", false: c.State}[c.State == ""],
		fmt.Sprintf("owner-has-octet>=0x80(written \\DDD)=%v", highOctet(owner)))

	mk := func(name string) *dns.DNSKEY {
		k := &dns.DNSKEY{Hdr: dns.RR_Header{Name: name, Rrtype: dns.TypeDNSKEY, Class: c.Class, Ttl: c.TTL},
			Flags: c.Flags, Protocol: c.Protocol, Algorithm: c.Algorithm, PublicKey: base64.StdEncoding.EncodeToString(c.Key)}
		switch c.State {
		case "rdlength":
			k.Hdr.Rdlength = c.Rdlen
		case "decoded", "packed":
			// an object with a history: it held another key (other length, other fields) before
			old := &dns.DNSKEY{Hdr: dns.RR_Header{Name: "old.example.", Rrtype: dns.TypeDNSKEY, Class: 1, Ttl: 1}, Flags: 256, Protocol: 3, Algorithm: 13,
				PublicKey: base64.StdEncoding.EncodeToString(c.PrevKey)}
			buf := make([]byte, 64+len(c.PrevKey))
			off, err := dns.PackRR(old, buf, 0, nil, false)
			if err != nil {
				return k
			}
			if c.State == "decoded" {
				rr, _, err := dns.UnpackRR(buf[:off], 0)
				if err != nil {
					return k
				}
				old = rr.(*dns.DNSKEY)
			}
			old.Hdr.Name, old.Hdr.Class, old.Hdr.Ttl = name, c.Class, c.TTL
			old.Flags, old.Protocol, old.Algorithm, old.PublicKey = c.Flags, c.Protocol, c.Algorithm, k.PublicKey
			return old
		}
		return k
	}
	k := mk(c.Owner)
	wantTag := ref.KeyTag(rdata)
	if got := k.KeyTag(); got != wantTag {
		return pbt.Errf("KeyTag()=%d, RFC 4034 App. B gives %d (flags=%d proto=%d alg=%d key %d octets)", got, wantTag, c.Flags, c.Protocol, c.Algorithm, len(c.Key))
	}
	// CDNSKEY / KEY share the RDATA format and the method
	if got := (&dns.KEY{DNSKEY: *k}).KeyTag(); got != wantTag {
		return pbt.Errf("KEY.KeyTag()=%d want %d", got, wantTag)
	}
	for _, dt := range []uint8{ref.DigestSHA1, ref.DigestSHA256, ref.DigestSHA384, c.OtherType} {
		want, supported := ref.DSDigest(owner, rdata, dt)
		for i, kk := range []*dns.DNSKEY{k, mk(c.Owner2)} {
			ds := kk.ToDS(dt)
			switch {
			case supported:
				if ds == nil {
					return pbt.Errf("ToDS(%d) = nil for owner %q, key %d octets", dt, kk.Hdr.Name, len(c.Key))
				}
				got, err := hex.DecodeString(ds.Digest)
				if err != nil || !bytes.Equal(got, want) {
					return pbt.Errf("ToDS(%d) owner %q (variant %d): digest %s, RFC 4034 5.1.4 gives %x", dt, kk.Hdr.Name, i, ds.Digest, want)
				}
				if ds.KeyTag != wantTag || ds.Algorithm != c.Algorithm || ds.DigestType != dt {
					return pbt.Errf("ToDS(%d): key tag/algorithm/digest type = %d/%d/%d want %d/%d/%d", dt, ds.KeyTag, ds.Algorithm, ds.DigestType, wantTag, c.Algorithm, dt)
				}
				if ds.Hdr.Rrtype != dns.TypeDS || ds.Hdr.Class != c.Class || !strings.EqualFold(ds.Hdr.Name, kk.Hdr.Name) {
					return pbt.Errf("ToDS(%d): header %+v does not belong to the key's owner/class", dt, ds.Hdr)
				}
			case dt == ref.DigestGOST || dt == 5:
				// GOST R 34.11-94 (RFC 5933) and the library's experimental type 5 cannot be
				// computed / are not defined by the RFCs of the property: not asserted.
			default:
				if ds != nil {
					return pbt.Errf("ToDS(%d) (unsupported digest type) = %v, want nil", dt, ds)
				}
			}
		}
	}
	return nil
}

// appendixBSum is the accumulator of RFC 4034 Appendix B before the fold.
func appendixBSum(rdata []byte) uint64 {
	var ac uint64
	for i, b := range rdata {
		if i&1 == 1 {
			ac += uint64(b)
		} else {
			ac += uint64(b) << 8
		}
	}
	return ac
}

// foldCarries reports whether the one folding step of Appendix B ("ac += (ac >> 16) & 0xFFFF") itself
// overflows 16 bits: the RFC then simply masks, a ones'-complement style end-around carry would add
// one more. About n/262144 of the random keys of n octets are like that (1 in 7000 for Ed25519, 1 in
// 1000 for RSA-2048), so the generator steers a share of its keys there (steerFold).
func foldCarries(rdata []byte) bool {
	ac := appendixBSum(rdata)
	return ac&0xFFFF+ac>>16&0xFFFF > 0xFFFF
}

// steerFold rewrites one drawn aligned 16-bit word of the key so that the low half of the Appendix B
// sum comes to lie within (number of carries) of 0xFFFF - the fold then carries again. The key tag is
// a function of the RDATA octets only, so the key octets need not be anybody's public key.
func steerFold(t *rapid.T, c *keyCase) {
	if len(c.Key) < 2 {
		return
	}
	i := 2 * rapid.IntRange(0, (len(c.Key)-2)/2).Draw(t, "foldword") // RDATA offset 4+i is even
	c.Key[i], c.Key[i+1] = 0, 0
	ac := appendixBSum(ref.DNSKEYRdata(c.Flags, c.Protocol, c.Algorithm, c.Key))
	a, b := int(ac>>16), int(ac&0xFFFF)
	if a < 1 {
		return
	}
	w := 0xFFFF - b - rapid.IntRange(0, a-1).Draw(t, "foldslack")
	if w < 0 {
		return
	}
	c.Key[i], c.Key[i+1] = byte(w>>8), byte(w)
}

func genKeyLen(t *rapid.T) int {
	var n int
	k := rapid.IntRange(0, 19).Draw(t, "klk")
	switch {
	case k == 0:
		n = rapid.IntRange(0, 4).Draw(t, "kl")
	case k <= 2:
		n = rapid.SampledFrom([]int{32, 64, 96, 132, 260, 516}).Draw(t, "kl") // Ed25519, P-256, P-384, RSA 1024/2048/4096
	case k == 3 || (k <= 5 && pbt.Thorough()):
		// around the scratch-buffer size of the implementation (DESIGN §5: a constant that is in no
		// RFC layout is reached only because the bias table names it)
		n = rapid.IntRange(4090, 4098).Draw(t, "kl")
	case k <= 8 && pbt.Thorough():
		n = rapid.IntRange(601, 8000).Draw(t, "kl")
	default:
		n = rapid.IntRange(0, 600).Draw(t, "kl")
	}
	if n > maxScratchKey && pbt.Known(findKeytagLong) {
		pbt.Excluded(findKeytagLong)
		n = maxScratchKey - n%7
	}
	return n
}

// genNameText draws a name and two spellings of it that differ in letter case (and, unless the
// \DDD finding is live, in escaping).
func genNameText(t *rapid.T, o gen.NameOpts) (string, string) {
	n := gen.Name(t, o)
	n2 := gen.FlipCase(t, n)
	spell := func(x wm.Name, tag string) string {
		if rapid.IntRange(0, 3).Draw(t, tag) == 0 {
			s := gen.SpellName(t, x)
			if pbt.Known(findDDDUpper) && hasDDDUpper(s) {
				pbt.Excluded(findDDDUpper)
				return wm.EscName(x)
			}
			return s
		}
		return wm.EscName(x)
	}
	return spell(n, "sp1"), spell(n2, "sp2")
}

// hasDDDUpper reports whether the presentation text spells an upper-case ASCII letter as \DDD.
func hasDDDUpper(s string) bool {
	for i := 0; i < len(s); i++ {
		if s[i] != '\\' {
			continue
		}
		if i+3 < len(s) && isDig(s[i+1]) && isDig(s[i+2]) && isDig(s[i+3]) {
			v := int(s[i+1]-'0')*100 + int(s[i+2]-'0')*10 + int(s[i+3]-'0')
			if v >= 'A' && v <= 'Z' {
				return true
			}
			i += 3
		} else {
			i++
		}
	}
	return false
}

func isDig(b byte) bool { return b >= '0' && b <= '9' }

func genKey(t *rapid.T) keyCase {
	c := keyCase{}
	c.Owner, c.Owner2 = genNameText(t, gen.NameOpts{MaxLabs: 5, MaxLabel: 12})
	if rapid.IntRange(0, 15).Draw(t, "longname") == 0 {
		c.Owner, c.Owner2 = genNameText(t, gen.NameOpts{MaxLabs: 40, Long: true})
	}
	c.Class = rapid.SampledFrom([]uint16{1, 1, 1, 3, 4, 254, 255}).Draw(t, "class")
	c.TTL = rapid.Uint32().Draw(t, "ttl")
	c.Flags = rapid.OneOf(rapid.SampledFrom([]uint16{256, 257, 0, 385, 0xffff}), rapid.Uint16()).Draw(t, "flags")
	c.Protocol = rapid.OneOf(rapid.Just(uint8(3)), rapid.Uint8()).Draw(t, "proto")
	c.Algorithm = rapid.OneOf(rapid.SampledFrom([]uint8{5, 7, 8, 10, 13, 14, 15, 16, 0, 2, 3, 252, 253, 254, 255}), rapid.Uint8()).Draw(t, "alg")
	if c.Algorithm == ref.AlgRSAMD5 {
		c.Algorithm = 8
	}
	n := genKeyLen(t)
	fill := rapid.IntRange(0, 5).Draw(t, "fill")
	switch {
	case fill == 0:
		c.Key = bytes.Repeat([]byte{0xff}, n) // stresses the carry/fold of the key tag sum
	case fill == 1:
		c.Key = make([]byte, n)
	case n > 700:
		// long keys: a drawn pattern repeated (drawing thousands of octets one by one is slow)
		pat := rapid.SliceOfN(rapid.Byte(), 1, 37).Draw(t, "pat")
		c.Key = make([]byte, n)
		for i := range c.Key {
			c.Key[i] = pat[i%len(pat)] + byte(i/len(pat))
		}
	default:
		c.Key = rapid.SliceOfN(rapid.Byte(), n, n).Draw(t, "key")
	}
	switch rapid.IntRange(0, 5).Draw(t, "state") {
	case 0:
		c.State = "rdlength"
		c.Rdlen = rapid.OneOf(rapid.SampledFrom([]uint16{1, 3, 4, 5, uint16(min(len(c.Key)+3, 65535)), uint16(min(len(c.Key)+4, 65535)), uint16(min(len(c.Key)+5, 65535)), 65535}), rapid.Uint16()).Draw(t, "rdlen")
	case 1, 2:
		c.State = rapid.SampledFrom([]string{"decoded", "packed"}).Draw(t, "statekind")
		pn := rapid.OneOf(rapid.IntRange(0, 8), rapid.IntRange(0, len(c.Key)), rapid.IntRange(len(c.Key), len(c.Key)+40)).Draw(t, "prevlen")
		c.PrevKey = make([]byte, pn)
		for i := range c.PrevKey {
			c.PrevKey[i] = byte(i*31 + pn)
		}
	}
	if fill == 2 {
		steerFold(t, &c)
	}
	c.OtherType = rapid.OneOf(rapid.SampledFrom([]uint8{0, 3, 5, 6, 255}), rapid.Uint8()).Draw(t, "dt")
	return c
}

func init() {
	pbt.Register(pbt.Sub[keyCase]{Name: "keytag-ds", Weight: 8, Gen: genKey, Check: checkKey})
	// DESIGN §4 #12: KeyTag()==0 / ToDS()==nil once the DNSKEY RDATA exceeds the 4096-octet scratch
	pbt.Probe(findKeytagLong, func() error {
		key := bytes.Repeat([]byte{0x5a}, maxScratchKey+1)
		return checkKey(keyCase{Owner: "example.", Owner2: "EXAMPLE.", Class: 1, Flags: 257, Protocol: 3, Algorithm: 8, Key: key, OtherType: 0})
	})
	pbt.Probe(findDDDUpper, func() error {
		if err := checkKey(keyCase{Owner: `\065bc.example.`, Owner2: "abc.example.", Class: 1, Flags: 257, Protocol: 3, Algorithm: 8, Key: []byte{1, 2, 3, 4}}); err != nil {
			return err
		}
		return checkHash(hashCase{Name: `\065bc.example.`, Name2: "abc.example.", Salt: []byte{0xaa}, Iter: 1, Alg: 1})
	})
}
