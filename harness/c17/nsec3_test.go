package c17

import (
	"bytes"
	"encoding/base32"
	"encoding/binary"
	"encoding/hex"
	"fmt"
	"math/big"
	"strings"
	"sync"

	"github.com/miekg/dns"
	"pgregory.net/rapid"

	"verif/harness/gen"
	"verif/harness/pbt"
	ref "verif/harness/refcrypto"
	wm "verif/harness/wiremodel"
)

// ---------------------------------------------------------------------------------------------
// (b) HashName against RFC 5155 section 5

type hashCase struct {
	Name      string // presentation name
	Name2     string // same name, other letter case / spelling
	Salt      []byte
	SaltUpper bool // salt handed over as upper-case hex
	Iter      uint16
	Alg       uint8
}

func iterClass(i uint16) string {
	switch {
	case i == 0:
		return "iter=0"
	case i == 1:
		return "iter=1"
	case i <= 150:
		return "iter=2-150"
	default:
		return "iter>150"
	}
}

func saltClass(n int) string {
	switch {
	case n == 0:
		return "salt=0"
	case n <= 8:
		return "salt=1-8"
	case n < 255:
		return "salt=9-254"
	default:
		return "salt=255"
	}
}

func checkHash(c hashCase) error {
	n, err := labelsOf(c.Name)
	if err != nil {
		return nil
	}
	n2, err := labelsOf(c.Name2)
	if err != nil || !n.EqualFold(n2) || rawHigh(c.Name) || rawHigh(c.Name2) {
		return nil
	}
	salt := hex.EncodeToString(c.Salt)
	if c.SaltUpper {
		salt = strings.ToUpper(salt)
	}
	esc := strings.Contains(c.Name, `\`)
	pbt.Note([]byte(fmt.Sprintf("%s|%x|%d|%d", c.Name, c.Salt, c.Iter, c.Alg)), c.Alg == 1 && (len(n) > 0 || len(c.Salt) > 0),
		iterClass(c.Iter), saltClass(len(c.Salt)), fmt.Sprintf("alg=%d", min(int(c.Alg), 2)), fmt.Sprintf("escaped=%v", esc),
		fmt.Sprintf("labels=%d", min(len(n), 4)), fmt.Sprintf("casevariant=%v", c.Name != c.Name2),
		fmt.Sprintf("name-has-octet>=0x80(written \\DDD)=%v", highOctet(n)))
	if esc {
		pbt.Sample("escaped-name", c.Name)
	}
	if c.Iter > 150 {
		pbt.Class(fmt.Sprintf("iterations=%d", c.Iter))
	}
	if c.Alg != 1 {
		for _, s := range []string{c.Name, c.Name2} {
			if got := dns.HashName(s, c.Alg, c.Iter, salt); got != "" {
				return pbt.Errf("HashName(%q, alg %d) = %q, want \"\" (only SHA-1 is defined, RFC 5155 section 11)", s, c.Alg, got)
			}
		}
		return nil
	}
	want := ref.NSEC3Hash(n, c.Salt, c.Iter)
	for _, s := range []string{c.Name, c.Name2} {
		if got := dns.HashName(s, 1, c.Iter, salt); got != want {
			return pbt.Errf("HashName(%q, 1, %d, %q) = %q, RFC 5155 section 5 gives %q", s, c.Iter, salt, got, want)
		}
	}
	return nil
}

func genSalt(t *rapid.T) []byte {
	var n int
	switch rapid.IntRange(0, 9).Draw(t, "sk") {
	case 0:
		n = 0
	case 1:
		n = rapid.SampledFrom([]int{1, 254, 255}).Draw(t, "sl")
	case 2, 3:
		n = rapid.IntRange(0, 255).Draw(t, "sl")
	default:
		n = rapid.IntRange(1, 16).Draw(t, "sl")
	}
	return rapid.SliceOfN(rapid.Byte(), n, n).Draw(t, "salt")
}

func genIter(t *rapid.T) uint16 {
	switch rapid.IntRange(0, 19).Draw(t, "ik") {
	case 0:
		return 0
	case 1:
		return 1
	case 2:
		if pbt.Thorough() {
			return rapid.SampledFrom([]uint16{151, 1000, 2500, 65534, 65535}).Draw(t, "ih")
		}
		return rapid.SampledFrom([]uint16{151, 500, 2500}).Draw(t, "ih")
	default:
		return uint16(rapid.IntRange(0, 150).Draw(t, "it"))
	}
}

func genHash(t *rapid.T) hashCase {
	c := hashCase{}
	o := gen.NameOpts{MaxLabs: 5, MaxLabel: 12}
	if rapid.IntRange(0, 9).Draw(t, "long") == 0 {
		o = gen.NameOpts{MaxLabs: 40, Long: true}
	}
	c.Name, c.Name2 = genNameText(t, o)
	c.Salt = genSalt(t)
	c.SaltUpper = rapid.Bool().Draw(t, "su")
	c.Iter = genIter(t)
	c.Alg = 1
	if rapid.IntRange(0, 11).Draw(t, "otheralg") == 0 {
		c.Alg = rapid.OneOf(rapid.SampledFrom([]uint8{0, 2, 255}), rapid.Uint8()).Draw(t, "alg")
	}
	return c
}

// ---------------------------------------------------------------------------------------------
// (c) NSEC3.Match / NSEC3.Cover over constructed intervals

const (
	findCoverOwner    = "nsec3-cover-owner-hash"    // DESIGN §4 #2
	findNextCase      = "nsec3-next-hash-case"      // zone text keeps the next hash in the case it was written in
	findRootZone      = "nsec3-root-zone"           // owner name of a single label (root zone) never matches / covers
	findNoHash        = "nsec3-cover-no-hash"       // Cover is true for wrapping / empty intervals when the record's hash cannot be computed
	findOwnerSpelling = "nsec3-owner-hash-spelling" // hash label of the owner with an octet written as \DDD / \c never matches
	findZoneSpelling  = "nsec3-zone-spelling"       // repaired by 7716a5d: zone labels spelled differently in the name and the owner
)

type coverCase struct {
	Zone      [][]byte // wire labels of the zone (>= 1 label)
	Name      [][]byte // wire labels of the name asked about
	Salt      []byte
	Iter      uint16
	OwnerHash []byte // 20 octets
	NextHash  []byte // 20 octets
	OwnerText string // presentation of the hash label as it is put into the owner name (any case)
	ZoneText  string // presentation of the zone as it is put into the owner name (any case)
	NameText  string // presentation of Name handed to Match/Cover (any case)
	FromWire  bool   // the record is decoded from wire octets instead of being a struct literal
	FromText  bool   // the record is read from presentation text by dns.NewRR (wins over FromWire)
	NextText  string // FromText only: the next hashed owner name field as written (any letter case)
	SkipCover bool   // set by the generator only: known-finding class, Cover is not asserted
	// records whose hash function cannot be applied at all: NoHash "" = an ordinary record (SHA-1, salt
	// in hex); "alg" = the record's hash algorithm field is HashAlg (anything but 1; RFC 5155 defines
	// SHA-1 only, and a record with any other value arrives from the wire or a zone file like any
	// other); "salt" = the record's Salt field is SaltText, which is not an even number of hex digits
	// (a struct literal, or a zone file: the parser stores the salt token as written). For such a
	// record no name has a hash, so nothing equals the owner hash and nothing lies between owner and
	// next hash: Match and Cover are false for every name.
	NoHash   string
	HashAlg  uint8
	SaltText string
}

func inZone(name, zone ref.Labels) bool {
	if len(name) < len(zone) {
		return false
	}
	return ref.Labels(name[len(name)-len(zone):]).EqualFold(zone)
}

func shapeOf(owner, next []byte) string {
	switch c := bytes.Compare(owner, next); {
	case c == 0:
		return "empty"
	case c < 0:
		return "normal"
	default:
		return "wrapping"
	}
}

func posOf(h, owner, next []byte) string {
	if bytes.Equal(h, owner) {
		return "eq-owner"
	}
	if bytes.Equal(h, next) {
		return "eq-next"
	}
	lo, hi := owner, next
	if bytes.Compare(lo, hi) > 0 {
		lo, hi = hi, lo
	}
	switch {
	case bytes.Compare(h, lo) < 0:
		return "below-both"
	case bytes.Compare(h, hi) > 0:
		return "above-both"
	default:
		return "between"
	}
}

// strictlyInside: h lies strictly between owner and next in circular order (RFC 5155 8.3 /
// the property text); with owner == next the interval is everything except the owner itself.
func strictlyInside(h, owner, next []byte) bool {
	co := bytes.Compare(owner, next)
	switch {
	case co == 0:
		return !bytes.Equal(h, owner)
	case co < 0:
		return bytes.Compare(owner, h) < 0 && bytes.Compare(h, next) < 0
	default:
		return bytes.Compare(h, owner) > 0 || bytes.Compare(h, next) < 0
	}
}

// refHashRaw is ref.NSEC3HashRaw; for large iteration counts (the enumerated bounds ask for the same
// few hashes again and again, milliseconds each) the value of the pure reference function is kept.
var refHashMemo sync.Map

func refHashRaw(name ref.Labels, salt []byte, iter uint16) []byte {
	if iter < 1000 {
		return ref.NSEC3HashRaw(name, salt, iter)
	}
	key := fmt.Sprintf("%x|%x|%d", name.Wire(), salt, iter)
	if v, ok := refHashMemo.Load(key); ok {
		return append([]byte(nil), v.([]byte)...)
	}
	h := ref.NSEC3HashRaw(name, salt, iter)
	refHashMemo.Store(key, append([]byte(nil), h...))
	return h
}

func checkCover(c coverCase) error {
	zone, name := ref.Labels(c.Zone), ref.Labels(c.Name)
	if len(c.OwnerHash) != 20 || len(c.NextHash) != 20 {
		return nil
	}
	if c.FromText && !strings.EqualFold(c.NextText, ref.Base32Hex(c.NextHash)) {
		return nil
	}
	// the texts must denote the stated labels (replayed cases are not trusted)
	if l, err := labelsOf(c.ZoneText); err != nil || !l.EqualFold(zone) {
		return nil
	}
	if l, err := labelsOf(c.NameText); err != nil || !l.EqualFold(name) {
		return nil
	}
	// the hash label of the owner: the base32hex text in any letter case, possibly with octets written
	// as \DDD or \c (struct literal and zone text only: the wire decoder writes letters and digits raw)
	ownerRespelled := !strings.EqualFold(c.OwnerText, ref.Base32Hex(c.OwnerHash))
	if l, err := labelsOf(c.OwnerText + "."); err != nil || len(l) != 1 || !strings.EqualFold(string(l[0]), ref.Base32Hex(c.OwnerHash)) {
		return nil
	}
	if ownerRespelled && c.FromWire && !c.FromText {
		return nil
	}
	switch c.NoHash {
	case "":
	case "alg":
		if c.HashAlg == 1 {
			return nil
		}
	case "salt":
		if _, err := hex.DecodeString(c.SaltText); err == nil || c.SaltText == "" || strings.ContainsAny(c.SaltText, " \t\n\r;()\"\\") || c.SaltText == "-" || (c.FromWire && !c.FromText) {
			return nil // decodable after all, not one zone-file token, or not expressible in that source
		}
	default:
		return nil
	}
	h := refHashRaw(name, c.Salt, c.Iter)
	in := inZone(name, zone)
	shape, pos := shapeOf(c.OwnerHash, c.NextHash), posOf(h, c.OwnerHash, c.NextHash)
	wantMatch := in && bytes.Equal(h, c.OwnerHash)
	wantCover := in && strictlyInside(h, c.OwnerHash, c.NextHash)
	if c.NoHash != "" {
		wantMatch, wantCover = false, false
	}
	nontrivial := pos == "eq-owner" || pos == "eq-next" || shape == "wrapping"
	pbt.Note([]byte(fmt.Sprintf("%s|%s|%x|%d|%x|%x", c.NameText, c.ZoneText, c.Salt, c.Iter, c.OwnerHash, c.NextHash)), nontrivial,
		"shape="+shape, "pos="+pos, fmt.Sprintf("inzone=%v", in), fmt.Sprintf("cell=%s/%s/in=%v", shape, pos, in),
		fmt.Sprintf("cover=%v", wantCover), fmt.Sprintf("match=%v", wantMatch), fmt.Sprintf("source=%s", map[bool]string{true: "text", false: map[bool]string{true: "wire", false: "literal"}[c.FromWire]}[c.FromText]),
		fmt.Sprintf("rootzone=%v", len(zone) == 0), "hash-computable="+map[string]string{"": "yes", "alg": "no(hash algorithm)", "salt": "no(salt text)"}[c.NoHash])
	if c.NoHash != "" {
		pbt.Class(fmt.Sprintf("no-hash/%s/in=%v", shape, in))
	}
	pbt.Class(fmt.Sprintf("owner-hash-label-respelled=%v", ownerRespelled))
	// spelling of the two texts (round 8): the canonical escaping of both, or an octet written another way
	pbt.Class(fmt.Sprintf("name-respelled=%v", !strings.EqualFold(c.NameText, wm.EscName(wm.Name(c.Name)))),
		fmt.Sprintf("zone-respelled=%v", !strings.EqualFold(c.ZoneText, wm.EscName(wm.Name(c.Zone)))))
	if in && len(zone) > 0 {
		pbt.Class(fmt.Sprintf("in-zone:zone-labels-spelled-differently-in-name-and-owner=%v", !strings.HasSuffix(strings.ToLower(c.NameText), strings.ToLower(c.ZoneText))))
	}
	if len(c.Salt) == 0 && c.NoHash == "" {
		pbt.Class("empty-salt(\"\" in the struct, \"-\" in zone text, length 0 on the wire)")
	}
	if c.Iter > 150 {
		pbt.Class(fmt.Sprintf("iterations=%d", c.Iter))
	}
	hashAlg, saltField := uint8(1), hex.EncodeToString(c.Salt)
	switch c.NoHash {
	case "alg":
		hashAlg = c.HashAlg
	case "salt":
		saltField = c.SaltText
	}

	ownerName := c.OwnerText + "." + c.ZoneText
	if len(zone) == 0 {
		ownerName = c.OwnerText + "."
	}
	var rr *dns.NSEC3
	if c.FromText {
		// presentation format of RFC 5155 3.3; letter case of base32hex text is not significant (RFC 4648 section 7 alphabet is case-insensitive in DNS use, RFC 5155 examples are lower case)
		salt := saltField
		if salt == "" {
			salt = "-"
		}
		txt := fmt.Sprintf("%s 3600 IN NSEC3 %d 0 %d %s %s A", ownerName, hashAlg, c.Iter, salt, c.NextText)
		x, err := dns.NewRR(txt)
		if err != nil && c.NoHash != "" {
			pbt.Class("no-hash/refused-by-the-zone-reader")
			return nil // a reader may refuse such a record; nothing to ask it then
		}
		if err != nil {
			return pbt.Errf("NewRR(%q): %v", txt, err)
		}
		var ok bool
		if rr, ok = x.(*dns.NSEC3); !ok {
			return pbt.Errf("NewRR(%q) gave %T", txt, x)
		}
	} else if c.FromWire {
		// the record as a server would send it: owner, TYPE 50, CLASS IN, TTL, RDATA (RFC 5155 3.2)
		w := append(ref.Labels{[]byte(c.OwnerText)}, zone...).Wire()
		w = binary.BigEndian.AppendUint16(w, 50)
		w = binary.BigEndian.AppendUint16(w, 1)
		w = binary.BigEndian.AppendUint32(w, 3600)
		rd := []byte{hashAlg, 0, byte(c.Iter >> 8), byte(c.Iter), byte(len(c.Salt))}
		rd = append(rd, c.Salt...)
		rd = append(rd, 20)
		rd = append(rd, c.NextHash...)
		rd = append(rd, 0, 1, 0x40) // type bitmap: A
		w = binary.BigEndian.AppendUint16(w, uint16(len(rd)))
		w = append(w, rd...)
		x, _, err := dns.UnpackRR(w, 0)
		if err != nil && c.NoHash != "" {
			pbt.Class("no-hash/refused-by-the-wire-decoder")
			return nil
		}
		if err != nil {
			return pbt.Errf("UnpackRR of a well-formed NSEC3 record failed: %v (%x)", err, w)
		}
		var ok bool
		if rr, ok = x.(*dns.NSEC3); !ok {
			return pbt.Errf("UnpackRR of an NSEC3 record gave %T", x)
		}
	} else {
		rr = &dns.NSEC3{Hdr: dns.RR_Header{Name: ownerName, Rrtype: dns.TypeNSEC3, Class: dns.ClassINET, Ttl: 3600},
			Hash: hashAlg, Iterations: c.Iter, SaltLength: uint8(len(c.Salt)), Salt: saltField,
			HashLength: 20, NextDomain: ref.Base32Hex(c.NextHash), TypeBitMap: []uint16{dns.TypeA}}
	}
	if rr.Hash != hashAlg || (c.NoHash == "salt" && rr.Salt != saltField) {
		return nil // the reader did not hand the field through as written: not the record this case is about
	}
	if c.NoHash != "" {
		if got := rr.Match(c.NameText); got {
			return pbt.Errf("NSEC3{owner %s next %s hash algorithm %d salt %q}.Match(%q) = true although no hash can be computed for this record (RFC 5155 defines hash algorithm 1 with a salt of octets only)", rr.Hdr.Name, rr.NextDomain, rr.Hash, rr.Salt, c.NameText)
		}
		if c.SkipCover {
			return nil
		}
		if got := rr.Cover(c.NameText); got {
			return pbt.Errf("NSEC3{owner %s next %s hash algorithm %d salt %q}.Cover(%q) = true although no hash can be computed for this record, so none lies between owner and next hash (interval %s, name in zone: %v)", rr.Hdr.Name, rr.NextDomain, rr.Hash, rr.Salt, c.NameText, shape, in)
		}
		return nil
	}
	if got := rr.Match(c.NameText); got != wantMatch {
		return pbt.Errf("NSEC3{owner %s next %s}.Match(%q) = %v, want %v (H(name)=%s, name in zone: %v)", rr.Hdr.Name, rr.NextDomain, c.NameText, got, wantMatch, ref.Base32Hex(h), in)
	}
	if c.SkipCover {
		return nil
	}
	if got := rr.Cover(c.NameText); got != wantCover {
		return pbt.Errf("NSEC3{owner %s next %s}.Cover(%q) = %v, want %v (H(name)=%s, interval %s, position %s, name in zone: %v)", rr.Hdr.Name, rr.NextDomain, c.NameText, got, wantCover, ref.Base32Hex(h), shape, pos, in)
	}
	return nil
}

var max160 = new(big.Int).Sub(new(big.Int).Lsh(big.NewInt(1), 160), big.NewInt(1))

func to20(x *big.Int) []byte {
	out := make([]byte, 20)
	x.FillBytes(out)
	return out
}

// genDelta draws a distance in [1, room]: 1, 2, or anything.
func genDelta(t *rapid.T, room *big.Int, tag string) *big.Int {
	switch rapid.IntRange(0, 3).Draw(t, tag+"k") {
	case 0:
		return big.NewInt(1)
	case 1:
		if room.Cmp(big.NewInt(2)) >= 0 {
			return big.NewInt(2)
		}
		return big.NewInt(1)
	}
	r := new(big.Int).SetBytes(rapid.SliceOfN(rapid.Byte(), 20, 20).Draw(t, tag))
	r.Mod(r, room)
	return r.Add(r, big.NewInt(1))
}

func flipCaseText(t *rapid.T, s string, tag string) string {
	b := []byte(s)
	mode := rapid.IntRange(0, 2).Draw(t, tag+"m")
	for i, c := range b {
		isL := c >= 'a' && c <= 'z' || c >= 'A' && c <= 'Z'
		if !isL || (i > 0 && b[i-1] == '\\') {
			continue
		}
		switch mode {
		case 0: // lower
			b[i] = c | 0x20
		case 1: // mixed
			if rapid.Bool().Draw(t, tag) {
				b[i] = c ^ 0x20
			}
		}
	}
	return string(b)
}

func genCover(t *rapid.T) coverCase {
	c := coverCase{}
	plain := gen.NameOpts{MaxLabs: 3, MaxLabel: 8, Plain: rapid.IntRange(0, 2).Draw(t, "plain") > 0}
	zone := gen.Name(t, plain)
	if len(zone) == 0 && (rapid.IntRange(0, 3).Draw(t, "root") > 0 || pbt.Known(findRootZone)) {
		if pbt.Known(findRootZone) {
			pbt.Excluded(findRootZone)
		}
		zone = wm.Name{gen.Label(t, plain)}
	}
	c.Zone = zone
	var name wm.Name
	in := rapid.IntRange(0, 3).Draw(t, "inside") > 0
	if in {
		sub := gen.Name(t, gen.NameOpts{MaxLabs: 2, MaxLabel: 8, Plain: plain.Plain})
		if rapid.IntRange(0, 7).Draw(t, "wild") == 0 {
			sub = append(wm.Name{[]byte("*")}, sub...)
		}
		name = append(sub.Clone(), zone.Clone()...)
	} else {
		switch rapid.IntRange(0, 3).Draw(t, "outk") {
		case 0: // parent of the zone (or the root)
			if len(zone) > 0 {
				name = wm.Name(zone[1:]).Clone()
			}
		case 1: // last zone label extended: shares a text suffix but not a label suffix
			if len(zone) == 0 {
				break
			}
			name = zone.Clone()
			name[0] = append([]byte{'x'}, name[0]...)
			if len(name[0]) > 63 {
				name[0] = name[0][:63]
			}
			name = append(wm.Name{[]byte("a")}, name...)
		case 2: // sibling of the zone apex
			if len(zone) == 0 {
				break
			}
			sib := append([]byte("not-"), zone[0]...)
			if len(sib) > 63 {
				sib = sib[:63]
			}
			name = append(wm.Name{[]byte("www"), sib}, wm.Name(zone[1:]).Clone()...)
		default:
			name = gen.Name(t, gen.NameOpts{MaxLabs: 4, MaxLabel: 8, Plain: plain.Plain})
		}
		if inZone(ref.Labels(name), ref.Labels(zone)) {
			name = wm.Name{[]byte("outside")}
		}
		in = inZone(ref.Labels(name), ref.Labels(zone)) // everything is inside the root zone
	}
	c.Name = name
	c.Salt = genSalt(t)
	if len(c.Salt) > 32 {
		c.Salt = c.Salt[:32]
	}
	c.Iter = uint16(rapid.IntRange(0, 20).Draw(t, "iter"))
	h := new(big.Int).SetBytes(ref.NSEC3HashRaw(ref.Labels(name), c.Salt, c.Iter))
	below := new(big.Int).Set(h)                // room below h: values 0..h-1
	above := new(big.Int).Sub(max160, h)        // room above h
	if below.Sign() == 0 || above.Sign() == 0 { // SHA-1 output of all zeros / all ones: not reachable in practice
		below, above = big.NewInt(1), big.NewInt(1)
	}
	shape := rapid.SampledFrom([]string{"normal", "normal", "wrapping", "wrapping", "empty"}).Draw(t, "shape")
	pos := rapid.SampledFrom([]string{"below", "eq-owner", "inside", "eq-next", "above"}).Draw(t, "pos")
	var owner, next *big.Int
	lower := func(x *big.Int, tag string) *big.Int { // a value strictly below x (x >= 1)
		return new(big.Int).Sub(x, genDelta(t, x, tag))
	}
	higher := func(x *big.Int, tag string) *big.Int { // a value strictly above x (x < max)
		return new(big.Int).Add(x, genDelta(t, new(big.Int).Sub(max160, x), tag))
	}
	switch shape {
	case "empty":
		switch pos {
		case "eq-owner", "eq-next":
			owner = new(big.Int).Set(h)
		case "below", "inside":
			owner = higher(h, "o")
		default:
			owner = lower(h, "o")
		}
		next = new(big.Int).Set(owner)
	case "normal": // owner < next
		switch pos {
		case "below": // h < owner < next
			owner = higher(h, "o")
			if owner.Cmp(max160) == 0 {
				owner.Sub(owner, big.NewInt(1))
			}
			if owner.Cmp(h) <= 0 { // no room (h = max-1): fall back to inside
				owner = lower(h, "o2")
				next = higher(h, "n2")
				break
			}
			next = higher(owner, "n")
		case "eq-owner":
			owner = new(big.Int).Set(h)
			next = higher(h, "n")
		case "inside":
			owner = lower(h, "o")
			next = higher(h, "n")
		case "eq-next":
			owner = lower(h, "o")
			next = new(big.Int).Set(h)
		default: // owner < next < h
			next = lower(h, "n")
			if next.Sign() == 0 {
				next.Add(next, big.NewInt(1))
			}
			if next.Cmp(h) >= 0 {
				owner = lower(h, "o2")
				next = higher(h, "n2")
				break
			}
			owner = lower(next, "o")
		}
	default: // wrapping: owner > next; covered part is h > owner or h < next
		switch pos {
		case "below": // covered: h < next < owner
			next = higher(h, "n")
			if next.Cmp(max160) == 0 {
				next.Sub(next, big.NewInt(1))
			}
			if next.Cmp(h) <= 0 {
				next = lower(h, "n2")
				owner = higher(h, "o2")
				break
			}
			owner = higher(next, "o")
		case "eq-owner":
			owner = new(big.Int).Set(h)
			next = lower(h, "n")
		case "inside": // not covered: next < h < owner
			next = lower(h, "n")
			owner = higher(h, "o")
		case "eq-next":
			next = new(big.Int).Set(h)
			owner = higher(h, "o")
		default: // covered: next < owner < h
			owner = lower(h, "o")
			if owner.Sign() == 0 {
				owner.Add(owner, big.NewInt(1))
			}
			if owner.Cmp(h) >= 0 {
				next = lower(h, "n2")
				owner = higher(h, "o2")
				break
			}
			next = lower(owner, "n")
		}
	}
	c.OwnerHash, c.NextHash = to20(owner), to20(next)
	c.OwnerText = flipCaseText(t, ref.Base32Hex(c.OwnerHash), "oc")
	c.ZoneText = flipCaseText(t, wm.EscName(zone), "zc")
	c.NameText = flipCaseText(t, wm.EscName(name), "nc")
	// Round 8: the two texts need not spell an octet the same way - the record comes from the wire or a
	// zone file in the library's spelling, the name asked about is typed by somebody else (a letter as
	// \DDD, a hyphen as \-, ...). The zone test of Match / Cover compares labels of the two texts, so
	// each text is respelled on its own in about a quarter of the cases.
	if rapid.IntRange(0, 3).Draw(t, "zspell") == 0 {
		c.ZoneText = gen.SpellName(t, gen.FlipCase(t, zone))
	}
	if rapid.IntRange(0, 3).Draw(t, "nspell") == 0 {
		c.NameText = gen.SpellName(t, gen.FlipCase(t, name))
	}
	switch rapid.IntRange(0, 2).Draw(t, "source") {
	case 1:
		c.FromWire = true
	case 2:
		c.FromText = true
		c.NextText = flipCaseText(t, ref.Base32Hex(c.NextHash), "xc")
		if c.NextText != strings.ToUpper(c.NextText) && pbt.Known(findNextCase) {
			pbt.Excluded(findNextCase)
			c.NextText = strings.ToUpper(c.NextText)
		}
		// the zone-file reader has its own rules for special characters in names; keep the text
		// source to names that need no escapes (escaped owners are exercised by the other sources)
		// (only the owner goes through the reader: the name asked about may be spelled in any way)
		if strings.ContainsAny(c.ZoneText, "\\") {
			c.FromText, c.NextText = false, ""
		}
	}
	// the hash label itself with an octet written as an escape (a zone file may spell it so, and so may a
	// program; the zone reader keeps the owner as written). Not for the wire source: the decoder prints
	// letters and digits raw.
	if (!c.FromWire || c.FromText) && rapid.IntRange(0, 7).Draw(t, "ospell") == 0 {
		if pbt.Known(findOwnerSpelling) {
			pbt.Excluded(findOwnerSpelling)
		} else {
			c.OwnerText = gen.SpellLabel(t, []byte(c.OwnerText))
		}
	}
	if in && bytes.Equal(to20(h), c.OwnerHash) && bytes.Compare(c.OwnerHash, c.NextHash) < 0 && pbt.Known(findCoverOwner) {
		pbt.Excluded(findCoverOwner)
		c.SkipCover = true
	}
	// records whose hash cannot be computed (about one case in eight)
	switch rapid.IntRange(0, 15).Draw(t, "nohash") {
	case 0:
		c.NoHash = "alg"
		c.HashAlg = rapid.OneOf(rapid.SampledFrom([]uint8{0, 2, 3, 255}), rapid.Uint8()).Draw(t, "hashalg")
		if c.HashAlg == 1 {
			c.HashAlg = 2
		}
	case 1:
		if !c.FromWire || c.FromText { // the wire carries the salt as octets: there is no malformed salt there
			c.NoHash = "salt"
			// not hex, an odd number of digits, a prefix, separators ("-" alone is left out: it is the
			// zone-file spelling of the empty salt, and a caller may mean that by it)
			c.SaltText = rapid.SampledFrom([]string{"zz", "abc", "a", "0x00", "g0", "aabbccdde", "--", "0g", "aa-bb", "aa:bb"}).Draw(t, "salttext")
		}
	}
	// while the finding is live: Cover is not asserted where the library's answer is known to be
	// wrong - the empty "hash" sorts below every real one, which a wrapping or an empty interval
	// takes for covered. Match, and Cover for ordinary intervals and for names outside the zone, stay
	// asserted.
	if c.NoHash != "" && in && bytes.Compare(c.OwnerHash, c.NextHash) >= 0 && pbt.Known(findNoHash) {
		pbt.Excluded(findNoHash)
		c.SkipCover = true
	}
	return c
}

func init() {
	// RFC 5155 Appendix A: y.w.example (ji6neo...) exists and lies outside (b4um86..., gjeqe5...)
	pbt.Probe(findNextCase, func() error {
		salt := []byte{0xaa, 0xbb, 0xcc, 0xdd}
		owner, _ := new(big.Int).SetString("593d6419d08c5bc35dca0a4dcb7ed5c131be2525", 16)
		next, _ := new(big.Int).SetString("84dda71446cd56f0c116a57254baef69d09bce12", 16)
		return checkCover(coverCase{Zone: [][]byte{[]byte("example")}, Name: [][]byte{[]byte("y"), []byte("w"), []byte("example")}, Salt: salt, Iter: 12,
			OwnerHash: to20(owner), NextHash: to20(next), OwnerText: strings.ToLower(ref.Base32Hex(to20(owner))), ZoneText: "example.", NameText: "y.w.example.",
			FromText: true, NextText: strings.ToLower(ref.Base32Hex(to20(next)))})
	})
	pbt.Probe(findRootZone, func() error {
		name := ref.Labels{[]byte("a")}
		h := ref.NSEC3HashRaw(name, nil, 0)
		return checkCover(coverCase{Zone: nil, Name: name, Iter: 0, OwnerHash: h, NextHash: h, OwnerText: ref.Base32Hex(h), ZoneText: ".", NameText: "a."})
	})
	// side remark of a round-7 breaker: the last record of a chain (RFC 5155 Appendix A: t644ebqk... ->
	// 0p9mhave...) with hash algorithm 2, and the same record with the salt "zz", report every name
	// of the zone as covered
	pbt.Probe(findNoHash, func() error {
		owner, e1 := base32.HexEncoding.DecodeString("T644EBQK9BIBCNA874GIVR6JOJ62MLHV")
		next, e2 := base32.HexEncoding.DecodeString("0P9MHAVEQVM6T7VBL5LOP2U3T2RP3TOM")
		if e1 != nil || e2 != nil {
			return nil
		}
		c := coverCase{Zone: [][]byte{[]byte("example")}, Name: [][]byte{[]byte("a"), []byte("example")}, Salt: []byte{0xaa, 0xbb, 0xcc, 0xdd}, Iter: 12,
			OwnerHash: owner, NextHash: next, OwnerText: strings.ToLower(ref.Base32Hex(owner)), ZoneText: "example.", NameText: "a.example."}
		c.NoHash, c.HashAlg = "alg", 2
		if err := checkCover(c); err != nil {
			return err
		}
		c.NoHash, c.HashAlg, c.SaltText = "salt", 0, "zz"
		return checkCover(c)
	})
	// Round 8, remark 2 of the breakers (repaired by 7716a5d, kept as a regression test): the record that
	// matches www.example. did not match the same name typed as www.\101xample. - the zone test compared
	// the label texts.
	pbt.Probe(findZoneSpelling, func() error {
		name := ref.Labels{[]byte("www"), []byte("example")}
		h := ref.NSEC3HashRaw(name, []byte{0xaa, 0xbb, 0xcc, 0xdd}, 12)
		for _, text := range []string{`www.\101xample.`, `WWW.\069xample.`, `\119ww.e\xample.`} {
			for _, wire := range []bool{false, true} {
				if err := checkCover(coverCase{Zone: [][]byte{[]byte("example")}, Name: name, Salt: []byte{0xaa, 0xbb, 0xcc, 0xdd}, Iter: 12,
					OwnerHash: h, NextHash: h, OwnerText: ref.Base32Hex(h), ZoneText: "example.", NameText: text, FromWire: wire}); err != nil {
					return err
				}
			}
		}
		return nil
	})
	// Round 8: the first record of the RFC 5155 Appendix A chain (0p9mhave... = H(example), next
	// 2t7b4g4v...) read from a zone file that writes the first character of the hash label as \048:
	// the zone reader keeps the owner as written, Match and Cover compare the label text.
	pbt.Probe(findOwnerSpelling, func() error {
		owner, e1 := base32.HexEncoding.DecodeString("0P9MHAVEQVM6T7VBL5LOP2U3T2RP3TOM")
		next, e2 := base32.HexEncoding.DecodeString("2T7B4G4VSA5SMI47K61MV5BV1A22BOJR")
		if e1 != nil || e2 != nil {
			return nil
		}
		return checkCover(coverCase{Zone: [][]byte{[]byte("example")}, Name: [][]byte{[]byte("example")}, Salt: []byte{0xaa, 0xbb, 0xcc, 0xdd}, Iter: 12,
			OwnerHash: owner, NextHash: next, OwnerText: `\048p9mhaveqvm6t7vbl5lop2u3t2rp3tom`, ZoneText: "example.", NameText: "example.",
			FromText: true, NextText: "2t7b4g4vsa5smi47k61mv5bv1a22bojr"})
	})
	pbt.Register(pbt.Sub[hashCase]{Name: "nsec3-hash", Weight: 6, Gen: genHash, Check: checkHash})
	pbt.Register(pbt.Sub[coverCase]{Name: "nsec3-match-cover", Weight: 10, Gen: genCover, Check: checkCover})
	// DESIGN §4 #2: Cover is true for a name whose hash equals the owner hash (ordinary interval)
	pbt.Probe(findCoverOwner, func() error {
		name := ref.Labels{[]byte("a"), []byte("example")}
		h := ref.NSEC3HashRaw(name, []byte{0xaa, 0xbb}, 2)
		next := new(big.Int).Add(new(big.Int).SetBytes(h), big.NewInt(1000))
		if next.Cmp(max160) > 0 {
			return nil
		}
		return checkCover(coverCase{Zone: [][]byte{[]byte("example")}, Name: name, Salt: []byte{0xaa, 0xbb}, Iter: 2,
			OwnerHash: h, NextHash: to20(next), OwnerText: ref.Base32Hex(h), ZoneText: "example.", NameText: "a.example."})
	})
}
