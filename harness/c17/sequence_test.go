package c17

import (
	"encoding/base64"
	"encoding/hex"
	"fmt"
	"strings"

	"github.com/miekg/dns"
	"pgregory.net/rapid"

	"verif/harness/gen"
	"verif/harness/pbt"
	ref "verif/harness/refcrypto"
	wm "verif/harness/wiremodel"
)

// ---------------------------------------------------------------------------------------------
// Sequences of calls in one process: inputs that take an error path (undecodable salt, bad name,
// unknown hash algorithm, public key that is not base64) interleaved with valid ones. Every valid
// call must give the RFC value whatever was asked before it - the functions are documented as
// pure, so nothing may be carried over from one call to the next, in particular not through an
// error return.

type seqStep struct {
	Op   string // hash, match, cover, keytag, ds
	Name string // presentation name (hash / match / cover: the name asked about)
	Salt string // salt exactly as handed to the library (hex; may be undecodable)
	Iter uint16
	Alg  uint8  // hash algorithm (hash) / DS digest type (ds)
	Key  string // keytag / ds: the PublicKey field as text (base64; may be undecodable)
}

type seqCase struct{ Steps []seqStep }

func validSalt(s string) ([]byte, bool) {
	b, err := hex.DecodeString(s)
	return b, err == nil
}

func checkSequence(c seqCase) error {
	if len(c.Steps) == 0 || len(c.Steps) > 40 {
		return nil
	}
	nBad, nGood, afterBad := 0, 0, 0
	prevBad := false
	for i, st := range c.Steps {
		name, nerr := labelsOf(st.Name)
		salt, sok := validSalt(st.Salt)
		good := false
		switch st.Op {
		case "hash", "match", "cover":
			valid := nerr == nil && wm.Name(name).Valid() && sok && st.Alg == 1 && len(salt) <= 255 && !(pbt.Known(findDDDUpper) && hasDDDUpper(st.Name))
			if st.Op == "hash" {
				got := dns.HashName(st.Name, st.Alg, st.Iter, st.Salt)
				if valid {
					good = true
					if want := ref.NSEC3Hash(name, salt, st.Iter); got != want {
						return pbt.Errf("call %d of %d: HashName(%q, 1, %d, %q) = %q, RFC 5155 gives %q (the %d calls before it: %s)", i+1, len(c.Steps), st.Name, st.Iter, st.Salt, got, want, i, describe(c.Steps[:i]))
					}
				} else if st.Salt == "-" {
					// the text String() prints for the empty salt: neither decoder of the library stores it in
					// the Salt field (both store ""), packing takes it for the empty salt, HashName does not
					// decode it. A program-built value: the call is made (it is an error path today), its
					// result is not asserted either way (round 8, remark 1).
				} else if nerr == nil && wm.Name(name).Valid() && (!sok || st.Alg != 1) && got != "" {
					return pbt.Errf("call %d: HashName(%q, %d, %d, %q) = %q for an undecodable salt / unknown algorithm, want \"\"", i+1, st.Name, st.Alg, st.Iter, st.Salt, got)
				}
			} else if valid {
				// an NSEC3 record in zone "example." whose owner hash is the hash of the name itself and
				// whose next hash is one above: the name matches and is not covered
				good = true
				full := append(ref.Labels{}, name...)
				full = append(full, []byte("example"))
				text := strings.TrimSuffix(st.Name, ".")
				if text != "" {
					text += "."
				}
				text += "example."
				h := ref.NSEC3HashRaw(full, salt, st.Iter)
				next := append([]byte(nil), h...)
				for j := len(next) - 1; j >= 0; j-- {
					next[j]++
					if next[j] != 0 {
						break
					}
				}
				rr := &dns.NSEC3{Hdr: dns.RR_Header{Name: ref.Base32Hex(h) + ".example.", Rrtype: dns.TypeNSEC3, Class: 1}, Hash: 1, Iterations: st.Iter,
					SaltLength: uint8(len(salt)), Salt: st.Salt, HashLength: 20, NextDomain: ref.Base32Hex(next)}
				if st.Op == "match" {
					if !rr.Match(text) {
						return pbt.Errf("call %d of %d: NSEC3{owner = H(name)}.Match(%q) = false (salt %q, iterations %d; calls before it: %s)", i+1, len(c.Steps), text, st.Salt, st.Iter, describe(c.Steps[:i]))
					}
				} else if rr.Cover(text) {
					return pbt.Errf("call %d of %d: NSEC3{owner = H(name), next = H+1}.Cover(%q) = true (calls before it: %s)", i+1, len(c.Steps), text, describe(c.Steps[:i]))
				}
			}
		case "keytag", "ds":
			k := &dns.DNSKEY{Hdr: dns.RR_Header{Name: "key.example.", Rrtype: dns.TypeDNSKEY, Class: 1}, Flags: 257, Protocol: 3, Algorithm: 8, PublicKey: st.Key}
			oct, derr := ref.StrictBase64(st.Key)
			if derr == nil && len(oct) <= maxScratchKey {
				good = true
				rd := ref.DNSKEYRdata(257, 3, 8, oct)
				if st.Op == "keytag" {
					if got, want := k.KeyTag(), ref.KeyTag(rd); got != want {
						return pbt.Errf("call %d of %d: KeyTag() = %d, RFC 4034 App. B gives %d (calls before it: %s)", i+1, len(c.Steps), got, want, describe(c.Steps[:i]))
					}
				} else {
					want, _ := ref.DSDigest(ref.Labels{[]byte("key"), []byte("example")}, rd, ref.DigestSHA256)
					ds := k.ToDS(dns.SHA256)
					if ds == nil || !strings.EqualFold(ds.Digest, hex.EncodeToString(want)) {
						return pbt.Errf("call %d of %d: ToDS(2) = %v, RFC 4509 gives %x (calls before it: %s)", i+1, len(c.Steps), ds, want, describe(c.Steps[:i]))
					}
				}
			} else if st.Op == "keytag" {
				k.KeyTag() // must not panic; the value for an undecodable key is not asserted
			} else {
				k.ToDS(dns.SHA256)
			}
		}
		if good {
			nGood++
			if prevBad {
				afterBad++
			}
		} else {
			nBad++
		}
		prevBad = !good
	}
	pbt.Note([]byte(fmt.Sprint(c.Steps)), afterBad > 0, fmt.Sprintf("steps=%d", min(len(c.Steps)/5*5, 20)), fmt.Sprintf("error-path-calls=%d", min(nBad, 5)), fmt.Sprintf("valid-calls-right-after-an-error=%d", min(afterBad, 5)))
	return nil
}

func describe(steps []seqStep) string {
	var sb strings.Builder
	for i, s := range steps {
		if i >= 6 {
			fmt.Fprintf(&sb, "… (%d more)", len(steps)-i)
			break
		}
		switch s.Op {
		case "keytag", "ds":
			fmt.Fprintf(&sb, "%s(key %.12q…) ", s.Op, s.Key)
		default:
			fmt.Fprintf(&sb, "%s(%q, alg %d, %d, salt %q) ", s.Op, s.Name, s.Alg, s.Iter, s.Salt)
		}
	}
	return sb.String()
}

func genSequence(t *rapid.T) seqCase {
	n := rapid.IntRange(2, 12).Draw(t, "n")
	var c seqCase
	for i := 0; i < n; i++ {
		st := seqStep{Op: rapid.SampledFrom([]string{"hash", "hash", "hash", "match", "cover", "keytag", "ds"}).Draw(t, "op"), Alg: 1}
		st.Name = wm.EscName(gen.Name(t, gen.NameOpts{MaxLabs: 3, MaxLabel: 8, Plain: rapid.Bool().Draw(t, "plain")}))
		st.Salt = hex.EncodeToString(rapid.SliceOfN(rapid.Byte(), 0, 8).Draw(t, "salt"))
		st.Iter = uint16(rapid.IntRange(0, 12).Draw(t, "iter"))
		st.Key = base64.StdEncoding.EncodeToString(rapid.SliceOfN(rapid.Byte(), 0, 40).Draw(t, "key"))
		switch rapid.IntRange(0, 5).Draw(t, "bad") {
		case 0: // an error path
			switch st.Op {
			case "keytag", "ds":
				st.Key = rapid.SampledFrom([]string{"!", st.Key + "!", "A", st.Key + "=", "AA AA", "-_-_"}).Draw(t, "badkey")
			default:
				switch rapid.IntRange(0, 4).Draw(t, "badkind") {
				case 0:
					st.Salt = st.Salt + "a" // odd number of hex digits
				case 1:
					st.Salt = "-" // the presentation form of "no salt" is not hex
				case 2:
					st.Salt = rapid.SampledFrom([]string{"zz", "0x00", " ", "aa bb"}).Draw(t, "badsalt")
				case 3:
					st.Alg = rapid.SampledFrom([]uint8{0, 2, 255}).Draw(t, "badalg")
				default:
					st.Name = rapid.SampledFrom([]string{"a..b.", strings.Repeat("a", 64) + ".", "\\", ".."}).Draw(t, "badname")
				}
			}
		}
		c.Steps = append(c.Steps, st)
	}
	return c
}

func init() {
	pbt.Register(pbt.Sub[seqCase]{Name: "call-sequences-with-error-paths", Weight: 4, Gen: genSequence, Check: checkSequence})
}
