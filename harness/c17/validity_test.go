package c17

import (
	"fmt"
	"time"

	"github.com/miekg/dns"
	"pgregory.net/rapid"

	"verif/harness/pbt"
)

// ---------------------------------------------------------------------------------------------
// (e) RRSIG.ValidityPeriod(t) <=> inception <= t <= expiration, for instants within 68 years
// (2^31 seconds) of t. The record carries the instants modulo 2^32 (RFC 4034 3.1.5).

const findValidityWrap = "validity-period-wrap" // DESIGN §4 #11 (stays known)

const span = int64(1)<<31 - 2 // |I-t|, |E-t| <= span: strictly inside the 68-year domain

type validityCase struct {
	I, E, T int64 // instants in seconds since the Unix epoch (T >= 0)
	// how the instant t is handed over as a time.Time: T seconds plus Nanos, in a zone ZoneOff
	// seconds east of UTC, optionally carrying a monotonic clock reading. RRSIG times are whole
	// seconds; a clock that shows T seconds and a fraction still shows second T (RFC 4034 3.1.5
	// compares 32-bit second counts), so the oracle works on T whatever the fraction is.
	Nanos   int64
	ZoneOff int
	Mono    bool
}

func (c validityCase) time() time.Time {
	t := time.Unix(c.T, c.Nanos)
	if c.Mono {
		now := time.Now() // has a monotonic reading; Add keeps it
		t = now.Add(t.Sub(now))
	}
	if c.ZoneOff != 0 {
		t = t.In(time.FixedZone("harness", c.ZoneOff))
	} else if c.Nanos%2 == 1 {
		t = t.UTC()
	}
	return t
}

func abs64(x int64) int64 {
	if x < 0 {
		return -x
	}
	return x
}

// wraps: some instant of the triple lies outside [0, 2^32), i.e. a 32-bit field has to be
// re-based by a multiple of 2^32 relative to t (or t itself lies beyond 2106).
func (c validityCase) wraps() bool {
	in := func(x int64) bool { return x >= 0 && x < 1<<32 }
	return !(in(c.I) && in(c.E) && in(c.T))
}

func checkValidity(c validityCase) error {
	if c.T < 0 || abs64(c.I-c.T) > span || abs64(c.E-c.T) > span {
		return nil // outside the property's domain
	}
	want := c.I <= c.T && c.T <= c.E
	near := abs64(c.I-c.T) <= 1 || abs64(c.E-c.T) <= 1
	rel := func(x int64) string {
		switch d := x - c.T; {
		case d < -1:
			return "<<t"
		case d == -1:
			return "t-1"
		case d == 0:
			return "=t"
		case d == 1:
			return "t+1"
		default:
			return ">>t"
		}
	}
	pbt.Note([]byte(fmt.Sprintf("%d|%d|%d", c.I, c.E, c.T)), near || c.wraps(),
		fmt.Sprintf("wraps=%v", c.wraps()), fmt.Sprintf("valid=%v", want), "incep"+rel(c.I), "expir"+rel(c.E), fmt.Sprintf("inverted=%v", c.I > c.E))
	if c.Nanos < 0 || c.Nanos > 999_999_999 || c.ZoneOff < -86000 || c.ZoneOff > 86000 {
		return nil
	}
	rr := &dns.RRSIG{Inception: uint32(c.I), Expiration: uint32(c.E)}
	tt := c.time()
	if tt.Unix() != c.T {
		return nil // cannot happen: the wall clock reading of the constructed value is T + Nanos
	}
	pbt.Class(fmt.Sprintf("fraction>=0.5s:%v", c.Nanos >= 500_000_000), fmt.Sprintf("monotonic=%v", c.Mono), fmt.Sprintf("zone-offset=%v", c.ZoneOff != 0))
	if got := rr.ValidityPeriod(tt); got != want {
		return pbt.Errf("RRSIG{Inception:%d Expiration:%d}.ValidityPeriod(%s = unix %d + %d ns, monotonic reading: %v) = %v, want %v (instants: inception %d, expiration %d, both within 68 years of t)",
			rr.Inception, rr.Expiration, tt.Format(time.RFC3339Nano), c.T, c.Nanos, c.Mono, got, want, c.I, c.E)
	}
	return nil
}

func genOffset(t *rapid.T, tag string) int64 {
	switch rapid.IntRange(0, 9).Draw(t, tag+"k") {
	case 0, 1, 2:
		return int64(rapid.IntRange(-1, 1).Draw(t, tag))
	case 3:
		return rapid.Int64Range(-300, 300).Draw(t, tag)
	case 4:
		return rapid.SampledFrom([]int64{-span, -span + 1, span - 1, span}).Draw(t, tag)
	default:
		return rapid.Int64Range(-span, span).Draw(t, tag)
	}
}

func genValidity(t *rapid.T) validityCase {
	wrapOK := !pbt.Known(findValidityWrap)
	var T int64
	switch rapid.IntRange(0, 7).Draw(t, "tk") {
	case 0:
		T = rapid.Int64Range(0, 10).Draw(t, "t")
	case 1:
		T = int64(1)<<31 + rapid.Int64Range(-3, 3).Draw(t, "t")
	case 2:
		T = int64(1)<<32 - 1 - rapid.Int64Range(0, 5).Draw(t, "t")
	case 3:
		T = rapid.Int64Range(1_600_000_000, 1_900_000_000).Draw(t, "t")
	case 4:
		T = rapid.Int64Range(0, 1<<34).Draw(t, "t") // beyond 2106: the 32-bit fields have wrapped
	default:
		T = rapid.Int64Range(0, 1<<32-1).Draw(t, "t")
	}
	c := validityCase{T: T}
	c.I = T + genOffset(t, "di")
	if rapid.IntRange(0, 4).Draw(t, "rel") == 0 {
		c.E = T + genOffset(t, "de")
	} else { // usually a proper window: expiration after inception
		c.E = c.I + rapid.Int64Range(0, span).Draw(t, "len")
		if rapid.Bool().Draw(t, "tight") {
			c.E = c.I + rapid.Int64Range(0, 3).Draw(t, "len2")
		}
		if c.E-T > span {
			c.E = T + span
		}
	}
	switch rapid.IntRange(0, 4).Draw(t, "frac") {
	case 0:
		c.Nanos = 0
	case 1:
		c.Nanos = rapid.SampledFrom([]int64{1, 499_999_999, 500_000_000, 500_000_001, 999_999_999}).Draw(t, "ns")
	default:
		c.Nanos = rapid.Int64Range(0, 999_999_999).Draw(t, "ns")
	}
	if rapid.IntRange(0, 2).Draw(t, "zone") == 0 {
		c.ZoneOff = rapid.SampledFrom([]int{3600, -3600, 19800, -43200, 50400, 1, -1, 86000}).Draw(t, "zoneoff")
	}
	c.Mono = rapid.IntRange(0, 3).Draw(t, "mono") == 0
	if c.wraps() && !wrapOK {
		// excluded class of the known finding: bring all three instants into [0, 2^32) keeping
		// their distances where possible
		pbt.Excluded(findValidityWrap)
		clamp := func(x int64) int64 {
			if x < 0 {
				return 0
			}
			if x > 1<<32-1 {
				return 1<<32 - 1
			}
			return x
		}
		if c.T > 1<<32-1 {
			d := c.T - (c.T & (1<<32 - 1))
			c.T, c.I, c.E = c.T-d, c.I-d, c.E-d
		}
		c.I, c.E = clamp(c.I), clamp(c.E)
	}
	return c
}

func init() {
	pbt.Register(pbt.Sub[validityCase]{Name: "validity-period", Weight: 20, Gen: genValidity, Check: checkValidity})
	// DESIGN §4 #11: inception 2105, expiration 2107 (32-bit value wrapped), t = 2106-02-07 minus a minute
	pbt.Probe(findValidityWrap, func() error {
		t := int64(1)<<32 - 60
		return checkValidity(validityCase{I: t - 86400, E: t + 86400, T: t})
	})
}
