package c17

import (
	"bytes"
	"crypto"
	"crypto/ecdsa"
	"crypto/ed25519"
	"crypto/elliptic"
	"crypto/rand"
	"crypto/rsa"
	"crypto/sha512"
	"encoding/base64"
	"encoding/binary"
	"errors"
	"fmt"
	"math/big"
	"net"
	"sort"
	"strconv"
	"strings"
	"sync"
	"sync/atomic"
	"time"

	"github.com/miekg/dns"
	"pgregory.net/rapid"

	"verif/harness/pbt"
	ref "verif/harness/refcrypto"
)

// ---------------------------------------------------------------------------------------------
// (d) Generate -> PrivateKeyString -> NewPrivateKey: the re-read key and the original sign and
// verify interchangeably, for the library and for the reference implementation.

type keyioCase struct {
	Alg     uint8
	Bits    int
	Slot    int    // RSA only: which of the few per-process keys (generation is slow)
	RefMade bool   // key + private-key text come from the reference side (std crypto), not from Generate/PrivateKeyString
	Seed    []byte // seed of reference-made EC / Ed25519 keys
	SEP     bool
	A       [4]byte // RDATA of the signed A record
	TTL     uint32
	Incep   uint32
	Expir   uint32
	Steer   int // library-made ECDSA keys only: 0 = random key; n > 0 = Generate is fed scalar n of steerScalar (short coordinate or short private scalar)
}

// RSA sizes. DNSKEY.Generate takes the modulus length in BITS and accepts every value from 512 (1024
// for RSASHA512) to 4096, and RFC 3110 puts no condition on the modulus beyond its length in octets:
// a modulus of 1028, 1031 or 2047 bits is as good a key as one of 1024. "All supported key ...
// sizes" therefore includes the lengths that are not a whole number of octets; the signature of such
// a key is as long as the modulus in octets, rounded UP (RFC 8017 8.2.1: k = length in octets of n).
// The generator draws the length from oddRSABits so that every residue modulo 8 occurs (1025..1032:
// 129 octets with 1..8 bits in the first one; the thorough tier also takes 1033..1040 and the lengths
// around 2048); keys are made once per (algorithm, length) and process.
func oddRSABits(t *rapid.T) int {
	if pbt.Thorough() {
		switch rapid.IntRange(0, 7).Draw(t, "oddbig") {
		case 0:
			return rapid.IntRange(2041, 2056).Draw(t, "oddbits")
		case 1, 2:
			return rapid.IntRange(1033, 1040).Draw(t, "oddbits")
		}
	}
	return rapid.IntRange(1025, 1032).Draw(t, "oddbits")
}

// detRSAKey is a reference-made RSA key with a modulus of exactly bits bits, a fixed function of
// (bits, slot): the primes are the first probable primes in two SHA-512 counter streams (top two
// bits set, so the product has the full length), e = 65537. Standard library only; made once per
// process. The keys protect nothing.
var (
	detRSAMu    sync.Mutex
	detRSACache = map[[2]int]*rsa.PrivateKey{}
)

func detPrime(label string, bits int) *big.Int {
	e := big.NewInt(65537)
	one := big.NewInt(1)
	for ctr := 0; ; ctr++ {
		var raw []byte
		for blk := 0; len(raw)*8 < bits; blk++ {
			h := sha512.Sum512([]byte(fmt.Sprintf("c17-rsa-prime/%s/%d/%d", label, ctr, blk)))
			raw = append(raw, h[:]...)
		}
		p := new(big.Int).SetBytes(raw)
		p.Rsh(p, uint(len(raw)*8-bits))
		p.SetBit(p, bits-1, 1).SetBit(p, bits-2, 1).SetBit(p, 0, 1)
		if !p.ProbablyPrime(20) {
			continue
		}
		if new(big.Int).GCD(nil, nil, e, new(big.Int).Sub(p, one)).Cmp(one) != 0 {
			continue
		}
		return p
	}
}

func detRSAKey(bits, slot int) *rsa.PrivateKey {
	if bits < 1024 || bits > 4096 {
		return nil
	}
	detRSAMu.Lock()
	defer detRSAMu.Unlock()
	id := [2]int{bits, slot}
	if k, ok := detRSACache[id]; ok {
		return k
	}
	p := detPrime(fmt.Sprintf("%d/%d/p", bits, slot), (bits+1)/2)
	q := detPrime(fmt.Sprintf("%d/%d/q", bits, slot), bits/2)
	one := big.NewInt(1)
	n := new(big.Int).Mul(p, q)
	phi := new(big.Int).Mul(new(big.Int).Sub(p, one), new(big.Int).Sub(q, one))
	d := new(big.Int).ModInverse(big.NewInt(65537), phi)
	var k *rsa.PrivateKey
	if d != nil && n.BitLen() == bits && p.Cmp(q) != 0 {
		k = &rsa.PrivateKey{PublicKey: rsa.PublicKey{N: n, E: 65537}, D: d, Primes: []*big.Int{p, q}}
		k.Precompute()
		if k.Validate() != nil {
			k = nil
		}
	}
	detRSACache[id] = k
	return k
}

// shortCoord lists scalars whose public point has two (or more) leading zero octets in X or in Y -
// about one key in 32768, so DNSKEY.Generate on its own practically never shows how such a
// coordinate is encoded. They were found by a plain search (ScalarBaseMult over ctr = 0..400000)
// and are given as the counter: d = (SHA-384("c17-short-coordinate/<curve>/<ctr>") mod (n-1)) + 1.
// The check verifies the "short coordinate" property of each with the standard library before use.
var shortCoord = map[uint8][]uint64{
	13: {7594, 238755, 20196, 259499, 36601, 327307},   // P-256: X, Y, X, Y, X, Y short
	14: {36805, 76467, 162592, 197613, 168949, 205437}, // P-384: X, Y, X, Y, X, Y short
}

// Round 10: the private scalar itself with leading zero octets (one key in 256 has one, one in 65536
// two). BIND writes the PrivateKey field at the width of the curve, the RSA fields of the same file
// are plain integers: an exporter and an importer that disagree on the width of this field only
// fail for these keys ("keys exported to and re-read ... interchangeably with the original" holds
// for every key). steerCount(alg) scalars can be fed to Generate: first those of shortCoord, then
// four whose top 1, 1, 2, 3 octets are zero: d = the first size-z octets of
// SHA-384("c17-short-scalar/<curve>/<i>") with a non-zero first octet (always below the group order).
var shortScalarZeros = []int{1, 1, 2, 3}

func steerCount(alg uint8) int {
	if len(shortCoord[alg]) == 0 {
		return 0
	}
	return len(shortCoord[alg]) + len(shortScalarZeros)
}

// steerScalar returns the scalar number steer (1-based, taken modulo steerCount) and the curve size.
func steerScalar(alg uint8, steer int) (*big.Int, int) {
	tab := shortCoord[alg]
	i := (steer - 1) % steerCount(alg)
	if i < len(tab) {
		return shortScalar(alg, tab[i])
	}
	i -= len(tab)
	size := 32
	if alg == 14 {
		size = 48
	}
	h := sha512.Sum384([]byte(fmt.Sprintf("c17-short-scalar/%d/%d", size, i)))
	b := h[:size-shortScalarZeros[i]]
	if b[0] == 0 {
		b[0] = 1
	}
	return new(big.Int).SetBytes(b), size
}

func shortScalar(alg uint8, ctr uint64) (*big.Int, int) {
	curve, name, size := elliptic.P256(), "P-256", 32
	if alg == 14 {
		curve, name, size = elliptic.P384(), "P-384", 48
	}
	h := sha512.Sum384([]byte(fmt.Sprintf("c17-short-coordinate/%s/%d", name, ctr)))
	d := new(big.Int).SetBytes(h[:])
	d.Mod(d, new(big.Int).Sub(curve.Params().N, big.NewInt(1)))
	return d.Add(d, big.NewInt(1)), size
}

// steeredReader stands in for crypto/rand.Reader while DNSKEY.Generate runs: every multi-octet
// read returns the chosen scalar (big-endian, left-padded), so the generated private key is
// that scalar. Single-octet reads (crypto/internal/randutil.MaybeReadByte) get a zero.
type steeredReader struct{ d []byte }

func (r steeredReader) Read(p []byte) (int, error) {
	for i := range p {
		p[i] = 0
	}
	if len(p) >= len(r.d) {
		copy(p[len(p)-len(r.d):], r.d)
	}
	return len(p), nil
}

type cachedKey struct {
	pub  string
	priv crypto.PrivateKey
	err  error
}

var (
	keyCacheMu sync.Mutex
	keyCache   = map[string]*cachedKey{}
)

// libGenerate runs DNSKEY.Generate; RSA keys are generated once per (algorithm, bits, slot) and
// process. Key material is random (crypto/rand inside the library); no decision depends on it,
// and every error message carries the private key text.
func libGenerate(k *dns.DNSKEY, bits, slot, steer int) (crypto.PrivateKey, error) {
	isRSA := k.Algorithm == 5 || k.Algorithm == 7 || k.Algorithm == 8 || k.Algorithm == 10
	if steer > 0 && steerCount(k.Algorithm) > 0 {
		// the harness owns the entropy source for the duration of this call (nothing else runs in
		// this process meanwhile: the sub-checks of this package are sequential)
		d, size := steerScalar(k.Algorithm, steer)
		buf := make([]byte, size)
		d.FillBytes(buf)
		old := rand.Reader
		rand.Reader = steeredReader{buf}
		p, err := k.Generate(bits)
		rand.Reader = old
		return p, err
	}
	if !isRSA {
		return k.Generate(bits)
	}
	id := fmt.Sprintf("%d/%d/%d", k.Algorithm, bits, slot)
	keyCacheMu.Lock()
	defer keyCacheMu.Unlock()
	if c := keyCache[id]; c != nil {
		k.PublicKey = c.pub
		return c.priv, c.err
	}
	p, err := k.Generate(bits)
	keyCache[id] = &cachedKey{pub: k.PublicKey, priv: p, err: err}
	return p, err
}

// parseBIND reads "Key: value" lines of a BIND v1.2/v1.3 private key file.
func parseBIND(txt string) (map[string]string, []string, error) {
	m := map[string]string{}
	var order []string
	for _, line := range strings.Split(txt, "\n") {
		if line == "" {
			continue
		}
		k, v, ok := strings.Cut(line, ": ")
		if !ok {
			return nil, nil, fmt.Errorf("line %q has no \": \"", line)
		}
		if _, dup := m[k]; dup {
			return nil, nil, fmt.Errorf("field %q twice", k)
		}
		m[k] = v
		order = append(order, k)
	}
	return m, order, nil
}

func b64int(s string) (*big.Int, error) {
	b, err := base64.StdEncoding.DecodeString(s)
	if err != nil {
		return nil, err
	}
	return new(big.Int).SetBytes(b), nil
}

// bindFields is what the private key text must say about priv (field name -> integer value, or
// raw octets for Ed25519).
func bindFields(priv crypto.PrivateKey) (ints map[string]*big.Int, raw map[string][]byte) {
	ints, raw = map[string]*big.Int{}, map[string][]byte{}
	switch p := priv.(type) {
	case *rsa.PrivateKey:
		one := big.NewInt(1)
		ints["Modulus"] = p.N
		ints["PublicExponent"] = big.NewInt(int64(p.E))
		ints["PrivateExponent"] = p.D
		ints["Prime1"] = p.Primes[0]
		ints["Prime2"] = p.Primes[1]
		ints["Exponent1"] = new(big.Int).Mod(p.D, new(big.Int).Sub(p.Primes[0], one))
		ints["Exponent2"] = new(big.Int).Mod(p.D, new(big.Int).Sub(p.Primes[1], one))
		ints["Coefficient"] = new(big.Int).ModInverse(p.Primes[1], p.Primes[0])
	case *ecdsa.PrivateKey:
		ints["PrivateKey"] = p.D
	case ed25519.PrivateKey:
		raw["PrivateKey"] = p.Seed()
	}
	return
}

// refBINDText writes the private key file from the reference side.
func refBINDText(alg uint8, priv crypto.PrivateKey) string {
	var sb strings.Builder
	sb.WriteString("Private-key-format: v1.3\n")
	fmt.Fprintf(&sb, "Algorithm: %d (X)\n", alg)
	ints, raw := bindFields(priv)
	order := []string{"Modulus", "PublicExponent", "PrivateExponent", "Prime1", "Prime2", "Exponent1", "Exponent2", "Coefficient", "PrivateKey"}
	for _, f := range order {
		if v, ok := ints[f]; ok {
			b := v.Bytes()
			if e, isEC := priv.(*ecdsa.PrivateKey); isEC {
				b = make([]byte, (e.Curve.Params().BitSize+7)/8)
				v.FillBytes(b)
			}
			fmt.Fprintf(&sb, "%s: %s\n", f, base64.StdEncoding.EncodeToString(b))
		}
		if v, ok := raw[f]; ok {
			fmt.Fprintf(&sb, "%s: %s\n", f, base64.StdEncoding.EncodeToString(v))
		}
	}
	return sb.String()
}

var keyReaderWedged atomic.Bool

// readKeyWatched runs ReadPrivateKey under a watchdog (5 s for a text of about a kilobyte that
// normally takes microseconds): a reader that does not come back is reported instead of hanging the
// run. After the first such report no further call is made in this process (the stuck goroutine
// cannot be stopped), so that shrinking ends at once.
func readKeyWatched(k *dns.DNSKEY, text string) (crypto.PrivateKey, error) {
	if keyReaderWedged.Load() {
		return nil, errors.New("ReadPrivateKey did not return (reported earlier in this process)")
	}
	type res struct {
		p crypto.PrivateKey
		e error
	}
	ch := make(chan res, 1)
	go func() {
		p, e := k.ReadPrivateKey(strings.NewReader(text), "harness")
		ch <- res{p, e}
	}()
	select {
	case r := <-ch:
		return r.p, r.e
	case <-time.After(5 * time.Second):
		keyReaderWedged.Store(true)
		return nil, errors.New("ReadPrivateKey did not return within 5 s")
	}
}

func checkBINDText(alg uint8, txt string, priv crypto.PrivateKey) error {
	m, order, err := parseBIND(txt)
	if err != nil {
		return fmt.Errorf("private key text is not \"Field: value\" lines: %v", err)
	}
	if len(order) == 0 || order[0] != "Private-key-format" || (m["Private-key-format"] != "v1.3" && m["Private-key-format"] != "v1.2") {
		return fmt.Errorf("private key text does not start with Private-key-format: v1.2/v1.3")
	}
	num, _, _ := strings.Cut(m["Algorithm"], " ")
	if n, err := strconv.Atoi(num); err != nil || n != int(alg) {
		return fmt.Errorf("Algorithm field %q does not name algorithm %d", m["Algorithm"], alg)
	}
	ints, raw := bindFields(priv)
	for f, want := range ints {
		got, err := b64int(m[f])
		if _, ok := m[f]; !ok || err != nil {
			return fmt.Errorf("field %s missing or not base64 (%q)", f, m[f])
		}
		if got.Cmp(want) != 0 {
			return fmt.Errorf("field %s holds %s..., the key's value is %s...", f, got.Text(16)[:min(16, len(got.Text(16)))], want.Text(16)[:min(16, len(want.Text(16)))])
		}
	}
	for f, want := range raw {
		got, err := base64.StdEncoding.DecodeString(m[f])
		if err != nil || !bytes.Equal(got, want) {
			return fmt.Errorf("field %s differs from the key's value", f)
		}
	}
	return nil
}

func samePrivate(a, b crypto.PrivateKey) error {
	switch x := a.(type) {
	case *rsa.PrivateKey:
		y, ok := b.(*rsa.PrivateKey)
		if !ok {
			return fmt.Errorf("type %T vs %T", a, b)
		}
		if y.N == nil || y.D == nil || len(y.Primes) != 2 || y.Primes[0] == nil || y.Primes[1] == nil {
			return fmt.Errorf("re-read RSA key is incomplete")
		}
		if x.N.Cmp(y.N) != 0 || x.E != y.E || x.D.Cmp(y.D) != 0 || x.Primes[0].Cmp(y.Primes[0]) != 0 || x.Primes[1].Cmp(y.Primes[1]) != 0 {
			return fmt.Errorf("RSA parameters differ")
		}
	case *ecdsa.PrivateKey:
		y, ok := b.(*ecdsa.PrivateKey)
		if !ok {
			return fmt.Errorf("type %T vs %T", a, b)
		}
		if y.D == nil || y.X == nil || y.Y == nil || x.D.Cmp(y.D) != 0 || x.X.Cmp(y.X) != 0 || x.Y.Cmp(y.Y) != 0 || x.Curve != y.Curve {
			return fmt.Errorf("ECDSA parameters differ")
		}
	case ed25519.PrivateKey:
		y, ok := b.(ed25519.PrivateKey)
		if !ok || !bytes.Equal(x, y) {
			return fmt.Errorf("Ed25519 keys differ")
		}
	default:
		return fmt.Errorf("unexpected private key type %T", a)
	}
	return nil
}

// rrsigInput is the RFC 4034 3.1.8.1 signed data for one A record with a lower-case owner.
func rrsigInput(alg uint8, labels uint8, ttl, exp, inc uint32, tag uint16, signer, owner ref.Labels, a []byte) []byte {
	var d []byte
	d = binary.BigEndian.AppendUint16(d, 1)
	d = append(d, alg, labels)
	d = binary.BigEndian.AppendUint32(d, ttl)
	d = binary.BigEndian.AppendUint32(d, exp)
	d = binary.BigEndian.AppendUint32(d, inc)
	d = binary.BigEndian.AppendUint16(d, tag)
	d = append(d, signer.CanonWire()...)
	d = append(d, owner.CanonWire()...)
	d = binary.BigEndian.AppendUint16(d, 1)
	d = binary.BigEndian.AppendUint16(d, 1)
	d = binary.BigEndian.AppendUint32(d, ttl)
	d = binary.BigEndian.AppendUint16(d, 4)
	return append(d, a...)
}

var keyioAlgs = []struct {
	alg  uint8
	bits int
}{{5, 1024}, {7, 1024}, {8, 1024}, {10, 1024}, {13, 256}, {14, 384}, {15, 256}}

func checkKeyIO(c keyioCase) (err error) {
	okAlg := false
	for _, a := range keyioAlgs {
		if a.alg == c.Alg && (a.bits == c.Bits || (a.bits == 1024 && c.Bits >= 1024 && c.Bits <= 4096)) {
			okAlg = true
		}
	}
	if !okAlg {
		return nil
	}
	zone := ref.Labels{[]byte("keys"), []byte("example")}
	host := append(ref.Labels{[]byte("host")}, zone...)
	flags := uint16(256)
	if c.SEP {
		flags = 257
	}
	k := &dns.DNSKEY{Hdr: dns.RR_Header{Name: "keys.example.", Rrtype: dns.TypeDNSKEY, Class: dns.ClassINET, Ttl: 3600}, Flags: flags, Protocol: 3, Algorithm: c.Alg}
	pbt.Note([]byte(fmt.Sprintf("%d|%d|%d|%v|%x|%x", c.Alg, c.Bits, c.Slot, c.RefMade, c.Seed, c.A)), true,
		fmt.Sprintf("alg=%d", c.Alg), fmt.Sprintf("refmade=%v", c.RefMade), fmt.Sprintf("bits=%d", c.Bits))

	var priv crypto.PrivateKey
	var txt string
	if c.RefMade {
		switch c.Alg {
		case 5, 7, 8, 10:
			if c.Bits != 1024 {
				rk := detRSAKey(c.Bits, c.Slot)
				if rk == nil {
					return nil // no such key (never generated)
				}
				priv = rk
			} else {
				priv = ref.RSAKey(c.Slot)
			}
		case 13, 14:
			if priv, err = ref.ECDSAKeyFromSeed(c.Alg, c.Seed); err != nil {
				return nil
			}
		default:
			priv = ref.Ed25519KeyFromSeed(c.Seed)
		}
		oct, _ := ref.KeyOctets(c.Alg, ref.PublicOf(priv))
		k.PublicKey = base64.StdEncoding.EncodeToString(oct)
		txt = refBINDText(c.Alg, priv)
	} else {
		if priv, err = libGenerate(k, c.Bits, c.Slot, c.Steer); err != nil {
			return pbt.Errf("Generate(%d) for algorithm %d: %v", c.Bits, c.Alg, err)
		}
		if e, ok := priv.(*ecdsa.PrivateKey); ok {
			size := (e.Curve.Params().BitSize + 7) / 8
			zx, zy := size-len(e.X.Bytes()), size-len(e.Y.Bytes())
			pbt.Class(fmt.Sprintf("ecdsa-leading-zero-octets(X or Y)=%d", min(max(zx, zy), 2)))
			if c.Steer > 0 {
				if want, _ := steerScalar(c.Alg, c.Steer); e.D.Cmp(want) == 0 {
					pbt.Class("generate-steered")
				} else {
					pbt.Class("generate-steering-ineffective") // Generate drew its entropy elsewhere: the key is an ordinary random one
				}
			}
		}
		txt = k.PrivateKeyString(priv)
	}
	defer func() {
		if err != nil {
			err = fmt.Errorf("%v\nDNSKEY public key: %s\nprivate key text:\n%s", err, k.PublicKey, txt)
		}
	}()
	if e, ok := priv.(*ecdsa.PrivateKey); ok {
		pbt.Class(fmt.Sprintf("ecdsa-private-scalar-leading-zero-octets=%d(refmade=%v)", min((e.Curve.Params().BitSize+7)/8-len(e.D.Bytes()), 3), c.RefMade))
	}

	if rk, ok := priv.(*rsa.PrivateKey); ok {
		pbt.Class(fmt.Sprintf("rsa-modulus-octets=%d", rk.Size()), fmt.Sprintf("rsa-exponent-octets=%d", len(big.NewInt(int64(rk.E)).Bytes())),
			fmt.Sprintf("rsa-modulus-bits-mod-8=%d", rk.N.BitLen()%8))
		if !c.RefMade && rk.N.BitLen() != c.Bits {
			return pbt.Errf("Generate(%d) for algorithm %d made a modulus of %d bits", c.Bits, c.Alg, rk.N.BitLen())
		}
	}
	// the public key in the DNSKEY follows RFC 3110 / 6605 / 8080
	oct, derr := base64.StdEncoding.DecodeString(k.PublicKey)
	want, _ := ref.KeyOctets(c.Alg, ref.PublicOf(priv))
	if derr != nil || !bytes.Equal(oct, want) {
		return pbt.Errf("DNSKEY public key field is not the RFC encoding of the generated key (alg %d)", c.Alg)
	}
	pub, perr := ref.ParseKeyOctets(c.Alg, oct)
	if perr != nil {
		return pbt.Errf("reference cannot read the DNSKEY public key: %v", perr)
	}
	// the exported text states the key's parameters
	if !c.RefMade {
		if e := checkBINDText(c.Alg, txt, priv); e != nil {
			return pbt.Errf("PrivateKeyString: %v", e)
		}
	}
	// re-import
	priv2, ierr := k.NewPrivateKey(txt)
	if ierr != nil {
		return pbt.Errf("NewPrivateKey of the exported text: %v", ierr)
	}
	if e := samePrivate(priv, priv2); e != nil {
		return pbt.Errf("NewPrivateKey returned a different key: %v", e)
	}
	// (after the re-import of the case's own key, so that a steered key is reported as itself)
	if !c.RefMade && (c.Alg == 13 || c.Alg == 14 || c.Alg == 15) {
		// fixed-width encodings only show their padding for the 1-in-256 keys with a leading zero
		// octet in a coordinate: generate some more keys (cheap for EC / Ed25519) and check the
		// public key field of each
		for i := 0; i < 24; i++ {
			k2 := &dns.DNSKEY{Hdr: k.Hdr, Flags: flags, Protocol: 3, Algorithm: c.Alg}
			p2, e := k2.Generate(c.Bits)
			if e != nil {
				return pbt.Errf("Generate(%d) for algorithm %d: %v", c.Bits, c.Alg, e)
			}
			got, e := base64.StdEncoding.DecodeString(k2.PublicKey)
			want2, _ := ref.KeyOctets(c.Alg, ref.PublicOf(p2))
			if e != nil || !bytes.Equal(got, want2) {
				return pbt.Errf("DNSKEY public key field %q is not the RFC encoding of the generated key (alg %d, want %x)", k2.PublicKey, c.Alg, want2)
			}
			if t2, e := k2.NewPrivateKey(k2.PrivateKeyString(p2)); e != nil || samePrivate(p2, t2) != nil {
				return pbt.Errf("export / import of a generated key changes it (alg %d): %v\n%s", c.Alg, e, k2.PrivateKeyString(p2))
			}
		}
		pbt.Class("extra-generated-keys")
	}
	// the same key file as BIND writes and people edit it: v1.3 timing fields, blank lines, a comment
	// line, no newline at the end, read through NewPrivateKey and through ReadPrivateKey
	lines := strings.Split(strings.TrimSuffix(txt, "\n"), "\n")
	variants := map[string]string{
		"without the final newline":               strings.Join(lines, "\n"),
		"with BIND 9 timing fields":               txt + "Created: 20240101000000\nPublish: 20240101000000\nActivate: 20240101000000\n",
		"with blank lines":                        strings.Join(lines, "\n\n") + "\n\n",
		"with comment lines":                      "; made by the harness: do not edit\n" + lines[0] + "\n; Created: never; another comment\n" + strings.Join(lines[1:], "\n") + "\n",
		"with timing fields and no final newline": txt + "Created: 20240101000000",
	}
	vnames := make([]string, 0, len(variants))
	for name := range variants {
		vnames = append(vnames, name)
	}
	sort.Strings(vnames)
	for _, name := range vnames {
		v := variants[name]
		p3, e := k.NewPrivateKey(v)
		if e == nil {
			e = samePrivate(priv, p3)
		}
		if e != nil {
			return pbt.Errf("NewPrivateKey of the key file %s: %v\n--- the text:\n%s\n---", name, e, v)
		}
		p4, e := readKeyWatched(k, v)
		if e == nil {
			e = samePrivate(priv, p4)
		}
		if e != nil {
			return pbt.Errf("ReadPrivateKey of the key file %s: %v", name, e)
		}
		pbt.Class("key-file-variant")
	}
	if c.RefMade {
		// export of the imported key, and that text re-read: the library reads what it writes for a key
		// it did not make itself too (reference-made EC keys have short scalars on purpose: see genKeyIO)
		txt2 := k.PrivateKeyString(priv2)
		if e := checkBINDText(c.Alg, txt2, priv); e != nil {
			return pbt.Errf("PrivateKeyString(NewPrivateKey(reference text)): %v", e)
		}
		p5, e := k.NewPrivateKey(txt2)
		if e == nil {
			e = samePrivate(priv, p5)
		}
		if e != nil {
			return pbt.Errf("NewPrivateKey of the text exported for the key read from the reference's key file: %v\n--- the exported text:\n%s---", e, txt2)
		}
	}
	s1, ok1 := priv.(crypto.Signer)
	s2, ok2 := priv2.(crypto.Signer)
	if !ok1 || !ok2 {
		return pbt.Errf("keys are not crypto.Signer: %T %T", priv, priv2)
	}

	rrset := func() []dns.RR {
		return []dns.RR{&dns.A{Hdr: dns.RR_Header{Name: "host.keys.example.", Rrtype: dns.TypeA, Class: dns.ClassINET, Ttl: c.TTL}, A: net.IP(c.A[:])}}
	}
	tag := ref.KeyTag(ref.DNSKEYRdata(flags, 3, c.Alg, oct))
	if tag == 0 {
		// a legal key tag (1 key in 65536), but RRSIG.Sign treats KeyTag == 0 as "not filled in" and
		// returns ErrKey by contract: the signing part cannot be exercised with this key
		pbt.Class("keytag-zero(sign/verify part skipped)")
		return nil
	}
	newSig := func() *dns.RRSIG {
		return &dns.RRSIG{Inception: c.Incep, Expiration: c.Expir, KeyTag: tag, SignerName: "keys.example.", Algorithm: c.Alg}
	}
	data := rrsigInput(c.Alg, 3, c.TTL, c.Expir, c.Incep, tag, zone, host, c.A[:])
	refCheck := func(sig *dns.RRSIG, p crypto.PublicKey, who string) error {
		raw, e := base64.StdEncoding.DecodeString(sig.Signature)
		if e != nil {
			return pbt.Errf("%s: signature is not base64", who)
		}
		if sig.Labels != 3 || sig.OrigTtl != c.TTL || sig.TypeCovered != dns.TypeA {
			return pbt.Errf("%s: RRSIG labels/origttl/type = %d/%d/%d, want 3/%d/1", who, sig.Labels, sig.OrigTtl, sig.TypeCovered, c.TTL)
		}
		if e := ref.VerifySig(c.Alg, p, data, raw); e != nil {
			return pbt.Errf("%s: reference verification failed: %v", who, e)
		}
		return nil
	}
	// 1. library signs with the re-read key; library and reference verify with the original DNSKEY
	sig := newSig()
	if e := sig.Sign(s2, rrset()); e != nil {
		return pbt.Errf("Sign with the re-read key: %v", e)
	}
	if e := sig.Verify(k, rrset()); e != nil {
		return pbt.Errf("Verify (original DNSKEY) of a signature made with the re-read key: %v", e)
	}
	if e := refCheck(sig, pub, "signature made with the re-read key"); e != nil {
		return e
	}
	// 2. library signs with the original key; the reference verifies with the re-read key's public half
	sig = newSig()
	if e := sig.Sign(s1, rrset()); e != nil {
		return pbt.Errf("Sign with the original key: %v", e)
	}
	if e := refCheck(sig, ref.PublicOf(priv2), "signature made with the original key, public half of the re-read key"); e != nil {
		return e
	}
	if e := sig.Verify(k, rrset()); e != nil {
		return pbt.Errf("Verify of a signature made with the original key: %v", e)
	}
	// 3. the reference signs with the re-read key; the library verifies
	raw, e := ref.SignSig(c.Alg, priv2, data, nil)
	if e != nil {
		return pbt.Errf("reference signing with the re-read key: %v", e)
	}
	sig = newSig()
	sig.Hdr = dns.RR_Header{Name: "host.keys.example.", Rrtype: dns.TypeRRSIG, Class: dns.ClassINET, Ttl: c.TTL}
	sig.TypeCovered, sig.Labels, sig.OrigTtl = dns.TypeA, 3, c.TTL
	sig.Signature = base64.StdEncoding.EncodeToString(raw)
	if e := sig.Verify(k, rrset()); e != nil {
		return pbt.Errf("Verify of a reference signature made with the re-read key: %v", e)
	}
	// 4. sanity of the verifier used above: another address must not verify
	other := rrset()
	other[0].(*dns.A).A = net.IP{c.A[0] ^ 1, c.A[1], c.A[2], c.A[3]}
	if e := sig.Verify(k, other); e == nil {
		return pbt.Errf("Verify accepted a signature over a different record")
	}
	return nil
}

func genKeyIO(t *rapid.T) keyioCase {
	a := rapid.SampledFrom(keyioAlgs).Draw(t, "alg")
	c := keyioCase{Alg: a.alg, Bits: a.bits}
	if a.bits == 1024 {
		c.Slot = rapid.IntRange(0, 2).Draw(t, "slot")
		if pbt.Thorough() && rapid.IntRange(0, 9).Draw(t, "big") == 0 {
			// library-made keys of other sizes, up to the maximum Generate accepts (one per algorithm,
			// size and process: generating a 4096-bit key takes about a second)
			c.Bits = rapid.SampledFrom([]int{1280, 2048, 4096, 4096}).Draw(t, "bits")
			c.Slot = 0
		}
	}
	c.RefMade = rapid.IntRange(0, 2).Draw(t, "refmade") == 0
	if a.bits == 1024 && c.Bits == 1024 && rapid.IntRange(0, 4).Draw(t, "oddsize") == 0 {
		// a modulus whose length is not (or just is) a whole number of octets: made by Generate, or by the
		// reference side (the key file of "a key met in the wild")
		c.Bits = oddRSABits(t)
		c.Slot = 0
	} else if c.RefMade {
		c.Bits = a.bits
		if a.bits == 1024 && rapid.IntRange(0, 3).Draw(t, "edgekey") == 0 {
			// reference-made keys at the bounds of RFC 3110 / the library: 512-octet modulus (4096
			// bits), 3072 and 2048 bits, public exponents of one and of four octets
			c.Slot = ref.RSAEdgeBase + rapid.IntRange(0, ref.RSAEdgeSize()-1).Draw(t, "edgeslot")
		}
	}
	if !c.RefMade && steerCount(c.Alg) > 0 && rapid.IntRange(0, 2).Draw(t, "steer") == 0 {
		c.Steer = 1 + rapid.IntRange(0, steerCount(c.Alg)-1).Draw(t, "steeridx")
		if rapid.Bool().Draw(t, "steershortd") { // half of the steered keys: a short private scalar
			c.Steer = 1 + len(shortCoord[c.Alg]) + rapid.IntRange(0, len(shortScalarZeros)-1).Draw(t, "steershortdidx")
		}
	}
	// seeds with leading zero octets, and seeds shorter than the curve, give private scalars with
	// leading zeros (fixed-width encodings); a third of the seeds is as long as the curve with 1..3
	// zero octets in front, so that the class does not hang on the length drawn
	c.Seed = rapid.SliceOfN(rapid.Byte(), 1, 48).Draw(t, "seed")
	// (and another third is longer than the curve: an ordinary scalar of full width)
	if size := map[uint8]int{13: 32, 14: 48}[c.Alg]; size > 0 && c.RefMade {
		switch rapid.IntRange(0, 2).Draw(t, "shortd") {
		case 0:
			z := rapid.IntRange(1, 3).Draw(t, "shortdz")
			c.Seed = rapid.SliceOfN(rapid.Byte(), size-z, size-z).Draw(t, "shortdseed")
			c.Seed[0] |= 1
		case 1:
			c.Seed = rapid.SliceOfN(rapid.Byte(), size+8, size+8).Draw(t, "fulldseed")
			c.Seed[0] |= 1
		}
	}
	c.SEP = rapid.Bool().Draw(t, "sep")
	copy(c.A[:], rapid.SliceOfN(rapid.Byte(), 4, 4).Draw(t, "a"))
	c.TTL = rapid.Uint32Range(1, 1<<31-1).Draw(t, "ttl")
	now := uint32(time.Date(2024, 1, 1, 0, 0, 0, 0, time.UTC).Unix())
	c.Incep = now - rapid.Uint32Range(0, 1<<20).Draw(t, "inc")
	c.Expir = now + rapid.Uint32Range(0, 1<<20).Draw(t, "exp")
	return c
}

func init() {
	pbt.Register(pbt.Sub[keyioCase]{Name: "key-export-import", Weight: 0.5, Gen: genKeyIO, Check: checkKeyIO})
	// the largest size DNSKEY.Generate supports, once per process for an algorithm of each of its two
	// size rules (RSASHA256: 512..4096, RSASHA512: 1024..4096); generation takes around a second each
	pbt.RegisterEnum(pbt.Enum[keyioCase]{Name: "generate-maximum-size", Exhaustive: false, Check: checkKeyIO,
		Each: func(emit func(keyioCase)) {
			for _, alg := range []uint8{8, 10} {
				emit(keyioCase{Alg: alg, Bits: 4096, A: [4]byte{192, 0, 2, alg}, TTL: 300, Incep: 1700000000, Expir: 1700086400})
			}
		}})
}
