package c17

import (
	"bytes"
	"crypto"
	"crypto/rsa"
	"crypto/sha512"
	"encoding/base64"
	"fmt"
	"math/big"
	"net"
	"strings"
	"sync"
	"time"

	"github.com/miekg/dns"
	"pgregory.net/rapid"

	"verif/harness/pbt"
	ref "verif/harness/refcrypto"
)

// ---------------------------------------------------------------------------------------------
// (d, continued) two DIFFERENT keys of one zone that share owner, algorithm and key tag. The key
// tag is a 16-bit checksum and explicitly not unique (RFC 4034 5.1.1 / Appendix B), so such a pair
// is an ordinary thing for a validator to meet. Each key (and its copy exported to and re-read from
// the BIND text) must verify exactly the signatures its own private half made - whatever was
// verified before in this process, in whatever order, through whatever DNSKEY object. The verdict
// expected of every (signature, key) combination is the reference verifier's (std library).
//
// How the pairs are made (all by construction, nothing is searched at random during a case):
//   rsa-exponents  : key A = a pool modulus with a drawn public exponent, key B = the same or
//                    another pool modulus with a public exponent of 2..4 octets chosen so that the
//                    Appendix B sum comes out equal (the exponent octets are free parameters of the
//                    checksum); the private exponent is e^-1 mod phi(N)
//   seeded-pair    : ECDSA / Ed25519: both keys derived from seeds; a per-process table of
//                    colliding seed pairs is found once by a birthday search over ~1000 keys
//   permuted-words : any algorithm: key B = the public key octets of A with two aligned 16-bit
//                    words exchanged (the checksum adds 16-bit words, so the tag is unchanged).
//                    B has no private half: the signatures of A must still verify with A and must
//                    not verify with B

type collideCase struct {
	Alg    uint8
	Kind   string
	SlotA  int // rsa: pool modulus of key A (also permuted-words with an RSA algorithm)
	SlotB  int
	EA, EB int    // rsa: public exponents
	SeedA  []byte // ECDSA / Ed25519
	SeedB  []byte
	SwapI  int // permuted-words: indices of the two 16-bit words of the key octets that are exchanged
	SwapJ  int
	SEP    bool
	OwnerB string // the owner name of DNSKEY B as written (keys.example. in any letter case)
	// how the DNSKEY values reach Verify: 0 = one object per key, made once; 1 = a fresh object for
	// every call; 2 = ONE object whose fields are overwritten with the wanted key before every call
	Objects int
	// the Verify calls in order: sig*2 + key; sig 0 = made with A, 1 = made with B, 2 = made with A
	// after PrivateKeyString / NewPrivateKey, 3 = made with B after export / import; key 0 = A, 1 = B
	Steps []uint8
	A     [4]byte
	TTL   uint32
	Incep uint32
	Expir uint32
}

func isRSAAlg(a uint8) bool { return a == 5 || a == 7 || a == 8 || a == 10 }

// rsaWithExponent is pool key slot with the public exponent e (nil when e has no inverse modulo
// phi(N), or the standard library refuses the key).
func rsaWithExponent(slot, e int) *rsa.PrivateKey {
	base := ref.RSAKey(slot)
	if e == base.E {
		return base
	}
	if e < 3 || e%2 == 0 || len(base.Primes) != 2 {
		return nil
	}
	one := big.NewInt(1)
	phi := new(big.Int).Mul(new(big.Int).Sub(base.Primes[0], one), new(big.Int).Sub(base.Primes[1], one))
	d := new(big.Int).ModInverse(big.NewInt(int64(e)), phi)
	if d == nil {
		return nil
	}
	k := &rsa.PrivateKey{PublicKey: rsa.PublicKey{N: new(big.Int).Set(base.N), E: e}, D: d,
		Primes: []*big.Int{new(big.Int).Set(base.Primes[0]), new(big.Int).Set(base.Primes[1])}}
	k.Precompute()
	if k.Validate() != nil {
		return nil
	}
	return k
}

func keyFlags(sep bool) uint16 {
	if sep {
		return 257
	}
	return 256
}

func tagOf(flags uint16, alg uint8, oct []byte) uint16 {
	return ref.KeyTag(ref.DNSKEYRdata(flags, 3, alg, oct))
}

// solveExponent finds a public exponent of elen octets for pool modulus slot whose DNSKEY has the
// key tag target: it walks the odd exponents from start upwards (wrapping inside the elen-octet
// range) and returns the first one that gives the tag, is invertible modulo phi(N) and is not
// avoid. About one candidate in 65536 has the tag, so the walk is bounded at 2^20 steps of a few
// additions each.
func solveExponent(slot int, flags uint16, alg uint8, target uint16, elen int, start, avoid int) int {
	if elen < 2 || elen > 4 {
		return 0
	}
	lo, hi := 1<<(8*(elen-1)), 1<<(8*elen)-1 // no leading zero octet (RFC 3110)
	if elen == 4 {
		hi = 1<<31 - 1 // crypto/rsa and the library refuse larger exponents
	}
	n := ref.RSAKey(slot).N
	rd := ref.DNSKEYRdata(flags, 3, alg, ref.RSAKeyOctets(&rsa.PublicKey{N: n, E: lo + 1}))
	// rd[4] = elen, rd[5 : 5+elen] = exponent
	var base uint32
	for i, b := range rd {
		if i >= 5 && i < 5+elen {
			continue
		}
		if i&1 == 1 {
			base += uint32(b)
		} else {
			base += uint32(b) << 8
		}
	}
	e := start | 1
	if e < lo || e > hi {
		e = lo + 1
	}
	for step, maxSteps := 0, min(1<<20, (hi-lo)/2+1); step < maxSteps; step++ {
		ac := base
		for i := 0; i < elen; i++ {
			b := uint32(e>>(8*(elen-1-i))) & 0xff
			if (5+i)&1 == 1 {
				ac += b
			} else {
				ac += b << 8
			}
		}
		ac += ac >> 16 & 0xFFFF
		if uint16(ac) == target && e != avoid && rsaWithExponent(slot, e) != nil {
			return e
		}
		if e += 2; e > hi {
			e = lo + 1
		}
	}
	return 0
}

// seeded EC / Ed25519 keys -------------------------------------------------------------------------

func collideSeed(alg uint8, ctr int) []byte {
	h := sha512.Sum384([]byte(fmt.Sprintf("c17-tag-collision/%d/%d", alg, ctr)))
	return h[:]
}

func seededKey(alg uint8, seed []byte) (crypto.PrivateKey, []byte) {
	var priv crypto.PrivateKey
	switch alg {
	case 13, 14:
		p, err := ref.ECDSAKeyFromSeed(alg, seed)
		if err != nil {
			return nil, nil
		}
		priv = p
	case 15:
		priv = ref.Ed25519KeyFromSeed(seed)
	default:
		return nil, nil
	}
	oct, err := ref.KeyOctets(alg, ref.PublicOf(priv))
	if err != nil {
		return nil, nil
	}
	return priv, oct
}

var (
	pairMu  sync.Mutex
	pairTab = map[uint8][][2]int{}
)

// collidingPairs is the per-process table of counter pairs (i, j) whose seeded keys of algorithm
// alg share the key tag (flags 256): a birthday search over the first n counters - with n keys
// about n^2/131072 pairs are expected.
func collidingPairs(alg uint8) [][2]int {
	pairMu.Lock()
	defer pairMu.Unlock()
	if p, ok := pairTab[alg]; ok {
		return p
	}
	n := 1200
	if alg == 14 {
		n = 800 // P-384 keys cost several times as much to derive
	}
	first := map[uint16]int{}
	var out [][2]int
	for i := 0; i < n; i++ {
		_, oct := seededKey(alg, collideSeed(alg, i))
		if oct == nil {
			continue
		}
		tag := tagOf(256, alg, oct)
		if j, ok := first[tag]; ok {
			out = append(out, [2]int{j, i})
		} else {
			first[tag] = i
		}
	}
	pairTab[alg] = out
	return out
}

// the check -------------------------------------------------------------------------------------

func (c collideCase) keys() (privA, privB crypto.PrivateKey, octA, octB []byte) {
	switch c.Kind {
	case "rsa-exponents":
		if !isRSAAlg(c.Alg) || c.SlotA < 0 || c.SlotB < 0 || c.SlotA >= ref.RSAPoolSize() || c.SlotB >= ref.RSAPoolSize() {
			return
		}
		a, b := rsaWithExponent(c.SlotA, c.EA), rsaWithExponent(c.SlotB, c.EB)
		if a == nil || b == nil {
			return
		}
		return a, b, ref.RSAKeyOctets(&a.PublicKey), ref.RSAKeyOctets(&b.PublicKey)
	case "seeded-pair":
		privA, octA = seededKey(c.Alg, c.SeedA)
		privB, octB = seededKey(c.Alg, c.SeedB)
		return
	case "permuted-words":
		if isRSAAlg(c.Alg) {
			if c.SlotA < 0 || c.SlotA >= ref.RSAPoolSize() {
				return
			}
			a := ref.RSAKey(c.SlotA)
			privA, octA = a, ref.RSAKeyOctets(&a.PublicKey)
		} else {
			privA, octA = seededKey(c.Alg, c.SeedA)
		}
		i, j := 2*c.SwapI, 2*c.SwapJ
		if octA == nil || c.SwapI < 0 || c.SwapJ < 0 || i+2 > len(octA) || j+2 > len(octA) {
			return nil, nil, nil, nil
		}
		octB = append([]byte(nil), octA...)
		octB[i], octB[i+1], octB[j], octB[j+1] = octA[j], octA[j+1], octA[i], octA[i+1]
		return privA, nil, octA, octB
	}
	return
}

var sigNames = [4]string{"key A", "key B", "key A re-read from its BIND text", "key B re-read from its BIND text"}

func checkCollide(c collideCase) (err error) {
	privA, privB, octA, octB := c.keys()
	ok := octA != nil && octB != nil && len(c.Steps) > 0 && len(c.Steps) <= 64 && strings.EqualFold(c.OwnerB, "keys.example.") && c.Objects >= 0 && c.Objects <= 2
	flags := keyFlags(c.SEP)
	var tag uint16
	if ok {
		tag = tagOf(flags, c.Alg, octA)
		ok = tag == tagOf(flags, c.Alg, octB) && !bytes.Equal(octA, octB) && tag != 0 // Sign refuses KeyTag 0 by contract
	}
	pbt.Note([]byte(fmt.Sprintf("%d|%s|%d|%d|%d|%d|%x|%x|%d|%d|%v|%d|%x", c.Alg, c.Kind, c.SlotA, c.SlotB, c.EA, c.EB, c.SeedA, c.SeedB, c.SwapI, c.SwapJ, c.SEP, c.Objects, c.Steps)), ok,
		fmt.Sprintf("alg=%d", c.Alg), "kind="+c.Kind, fmt.Sprintf("usable=%v", ok))
	if !ok {
		return nil
	}
	pbt.Class(fmt.Sprintf("objects=%d", c.Objects), fmt.Sprintf("kind=%s/alg=%d", c.Kind, c.Alg))
	if c.Kind == "rsa-exponents" {
		pbt.Class(fmt.Sprintf("rsa-same-modulus=%v", c.SlotA == c.SlotB), fmt.Sprintf("rsa-exponent-octets=%d/%d", (big.NewInt(int64(c.EA)).BitLen()+7)/8, (big.NewInt(int64(c.EB)).BitLen()+7)/8))
	}
	pubText := [2]string{base64.StdEncoding.EncodeToString(octA), base64.StdEncoding.EncodeToString(octB)}
	owners := [2]string{"keys.example.", c.OwnerB}
	defer func() {
		if err != nil {
			err = fmt.Errorf("%v\ntwo DNSKEYs of keys.example., flags %d, algorithm %d, both with key tag %d (%s):\n  A: %s\n  B: %s", err, flags, c.Alg, tag, c.Kind, pubText[0], pubText[1])
		}
	}()
	mkKey := func(i int) *dns.DNSKEY {
		return &dns.DNSKEY{Hdr: dns.RR_Header{Name: owners[i], Rrtype: dns.TypeDNSKEY, Class: dns.ClassINET, Ttl: 3600}, Flags: flags, Protocol: 3, Algorithm: c.Alg, PublicKey: pubText[i]}
	}
	zone := ref.Labels{[]byte("keys"), []byte("example")}
	host := append(ref.Labels{[]byte("host")}, zone...)
	rrset := func() []dns.RR {
		return []dns.RR{&dns.A{Hdr: dns.RR_Header{Name: "host.keys.example.", Rrtype: dns.TypeA, Class: dns.ClassINET, Ttl: c.TTL}, A: net.IP(c.A[:])}}
	}
	data := rrsigInput(c.Alg, 3, c.TTL, c.Expir, c.Incep, tag, zone, host, c.A[:])

	// the four signers: the two private keys and their copies that went through the BIND text
	privs := [4]crypto.PrivateKey{privA, privB}
	for i, p := range []crypto.PrivateKey{privA, privB} {
		if p == nil {
			continue
		}
		k := mkKey(i)
		again, e := k.NewPrivateKey(k.PrivateKeyString(p))
		if e != nil {
			return pbt.Errf("NewPrivateKey(PrivateKeyString(%s)): %v", sigNames[i], e)
		}
		if e := samePrivate(p, again); e != nil {
			return pbt.Errf("%s comes back from its BIND text as a different key: %v", sigNames[i], e)
		}
		privs[2+i] = again
	}
	var sigs [4]*dns.RRSIG
	var raw [4][]byte
	for i, p := range privs {
		if p == nil {
			continue
		}
		s, isSigner := p.(crypto.Signer)
		if !isSigner {
			return pbt.Errf("%s is not a crypto.Signer: %T", sigNames[i], p)
		}
		sig := &dns.RRSIG{Inception: c.Incep, Expiration: c.Expir, KeyTag: tag, SignerName: "keys.example.", Algorithm: c.Alg}
		if e := sig.Sign(s, rrset()); e != nil {
			return pbt.Errf("Sign with %s: %v", sigNames[i], e)
		}
		var e error
		if raw[i], e = base64.StdEncoding.DecodeString(sig.Signature); e != nil {
			return pbt.Errf("signature made with %s is not base64", sigNames[i])
		}
		sigs[i] = sig
	}
	// the reference verdict of every (signature, key) combination
	var want [4][2]bool
	for ki, oct := range [][]byte{octA, octB} {
		pub, e := ref.ParseKeyOctets(c.Alg, oct)
		for si := range sigs {
			want[si][ki] = e == nil && sigs[si] != nil && ref.VerifySig(c.Alg, pub, data, raw[si]) == nil
		}
	}
	for si := range sigs {
		// a key pair that does not verify its own signature under the reference means the harness
		// built the pair wrongly - not a finding about the library
		if sigs[si] != nil && !want[si][si&1] {
			return pbt.Errf("harness: the reference verifier rejects the signature made with %s under its own key", sigNames[si])
		}
	}

	objs := [2]*dns.DNSKEY{mkKey(0), mkKey(1)}
	one := mkKey(0)
	var history []string
	accept, reject := 0, 0
	for n, st := range c.Steps {
		si, ki := int(st>>1)&3, int(st&1)
		if sigs[si] == nil {
			continue
		}
		var k *dns.DNSKEY
		switch c.Objects {
		case 0:
			k = objs[ki]
		case 1:
			k = mkKey(ki)
		default:
			one.Hdr.Name, one.PublicKey = owners[ki], pubText[ki]
			k = one
		}
		got := sigs[si].Verify(k, rrset())
		if (got == nil) != want[si][ki] {
			verdict := map[bool]string{true: "accepts", false: "rejects"}
			return pbt.Errf("Verify call %d of %d: the signature made with %s, checked with DNSKEY %c: %v - the reference verifier %s it (DNSKEY objects: mode %d; Verify calls before this one: %s)",
				n+1, len(c.Steps), sigNames[si], 'A'+rune(ki), map[bool]any{true: "accepted", false: got}[got == nil], verdict[want[si][ki]], c.Objects, strings.Join(history, ", "))
		}
		if want[si][ki] {
			accept++
		} else {
			reject++
		}
		history = append(history, fmt.Sprintf("sig(%s) x DNSKEY %c", sigNames[si], 'A'+rune(ki)))
	}
	pbt.Class(fmt.Sprintf("verify-calls=%d", min(len(history)/4*4, 16)), fmt.Sprintf("accepting-calls>0=%v", accept > 0), fmt.Sprintf("rejecting-calls>0=%v", reject > 0))
	pbt.Sample("tag-colliding-pair/"+c.Kind, fmt.Sprintf("alg %d tag %d A=%s B=%s", c.Alg, tag, pubText[0], pubText[1]))
	return nil
}

// the generator -----------------------------------------------------------------------------------

func genCollide(t *rapid.T) collideCase {
	c := collideCase{Alg: rapid.SampledFrom([]uint8{5, 7, 8, 10, 8, 10, 13, 14, 15}).Draw(t, "alg")}
	c.SEP = rapid.Bool().Draw(t, "sep")
	flags := keyFlags(c.SEP)
	c.OwnerB = flipCaseText(t, "keys.example.", "ownerb")
	c.Objects = rapid.IntRange(0, 2).Draw(t, "objects")
	copy(c.A[:], rapid.SliceOfN(rapid.Byte(), 4, 4).Draw(t, "a"))
	c.TTL = rapid.Uint32Range(1, 1<<31-1).Draw(t, "ttl")
	now := uint32(time.Date(2024, 1, 1, 0, 0, 0, 0, time.UTC).Unix())
	c.Incep = now - rapid.Uint32Range(0, 1<<20).Draw(t, "inc")
	c.Expir = now + rapid.Uint32Range(0, 1<<20).Draw(t, "exp")

	permuted := rapid.IntRange(0, 3).Draw(t, "permuted") == 0
	var octA []byte
	switch {
	case permuted:
		c.Kind = "permuted-words"
		if isRSAAlg(c.Alg) {
			c.SlotA = rapid.IntRange(0, ref.RSAPoolSize()-1).Draw(t, "slota")
			octA = ref.RSAKeyOctets(&ref.RSAKey(c.SlotA).PublicKey)
		} else {
			c.SeedA = rapid.SliceOfN(rapid.Byte(), 1, 48).Draw(t, "seeda")
			_, octA = seededKey(c.Alg, c.SeedA)
		}
		// two words with different content (a handful of tries; equal words make an unusable case)
		for try := 0; try < 8; try++ {
			c.SwapI = rapid.IntRange(0, len(octA)/2-1).Draw(t, "swapi")
			c.SwapJ = rapid.IntRange(0, len(octA)/2-1).Draw(t, "swapj")
			if !bytes.Equal(octA[2*c.SwapI:2*c.SwapI+2], octA[2*c.SwapJ:2*c.SwapJ+2]) {
				break
			}
		}
	case isRSAAlg(c.Alg):
		c.Kind = "rsa-exponents"
		c.SlotA = rapid.IntRange(0, ref.RSAPoolSize()-1).Draw(t, "slota")
		c.SlotB = c.SlotA
		if rapid.Bool().Draw(t, "othermodulus") {
			c.SlotB = rapid.IntRange(0, ref.RSAPoolSize()-1).Draw(t, "slotb")
		}
		// exponent of A: the usual 65537, or a drawn one of 2..4 octets
		c.EA = 65537
		if rapid.IntRange(0, 2).Draw(t, "drawnea") > 0 {
			for try := 0; try < 8; try++ {
				l := rapid.IntRange(2, 4).Draw(t, "ealen")
				e := rapid.IntRange(1<<(8*(l-1)), min(1<<(8*l)-1, 1<<31-1)).Draw(t, "ea") | 1
				if rsaWithExponent(c.SlotA, e) != nil {
					c.EA = e
					break
				}
			}
		}
		a := rsaWithExponent(c.SlotA, c.EA)
		target := tagOf(flags, c.Alg, ref.RSAKeyOctets(&a.PublicKey))
		// exponent of B: solved for A's tag. Two octets leave no freedom beyond the tag itself (and
		// may have no solution that is odd and invertible), so longer ones are tried after it.
		lens := rapid.SampledFrom([][]int{{3, 4}, {4, 3}, {2, 3, 4}, {3, 4}}).Draw(t, "eblens")
		start := rapid.IntRange(0, 1<<31-1).Draw(t, "ebstart")
		for _, l := range lens {
			avoid := 0
			if c.SlotA == c.SlotB {
				avoid = c.EA
			}
			s := start >> (8 * (4 - l)) // a start value inside the l-octet range most of the time
			if l == 4 {
				s = start
			}
			if e := solveExponent(c.SlotB, flags, c.Alg, target, l, s, avoid); e != 0 {
				c.EB = e
				break
			}
		}
	default:
		c.Kind = "seeded-pair"
		pairs := collidingPairs(c.Alg)
		if len(pairs) > 0 {
			p := rapid.SampledFrom(pairs).Draw(t, "pair")
			if rapid.Bool().Draw(t, "swapab") {
				p[0], p[1] = p[1], p[0]
			}
			c.SeedA, c.SeedB = collideSeed(c.Alg, p[0]), collideSeed(c.Alg, p[1])
			// the table was made for flags 256; with the SEP bit both sums grow by one, which changes
			// the outcome only across a 16-bit carry - then take the other flag value
			_, oa := seededKey(c.Alg, c.SeedA)
			_, ob := seededKey(c.Alg, c.SeedB)
			if tagOf(flags, c.Alg, oa) != tagOf(flags, c.Alg, ob) {
				c.SEP = false
			}
		}
	}
	// every combination that exists, twice, each time in a drawn order; sometimes followed by some more
	var combos []uint8
	for st := uint8(0); st < 8; st++ {
		if c.Kind == "permuted-words" && (st>>1)&1 == 1 {
			continue // B has no private half
		}
		combos = append(combos, st)
	}
	for round := 0; round < 2; round++ {
		c.Steps = append(c.Steps, rapid.Permutation(combos).Draw(t, "order")...)
	}
	if rapid.Bool().Draw(t, "more") {
		c.Steps = append(c.Steps, rapid.SliceOfN(rapid.SampledFrom(combos), 1, 8).Draw(t, "moresteps")...)
	}
	return c
}

func init() {
	pbt.Register(pbt.Sub[collideCase]{Name: "tag-colliding-keys", Weight: 0.07, Gen: genCollide, Check: checkCollide})
}
