package c17

import (
	"bytes"
	"math/big"
	"strings"

	"verif/harness/pbt"
	ref "verif/harness/refcrypto"
	wm "verif/harness/wiremodel"
)

// ---------------------------------------------------------------------------------------------
// Round 8: the iteration count at the bounds of its 16-bit field (and of narrower counters).
//
// The statement quantifies over "iterations 0..65535". The drawn cases of nsec3-hash stay below 2 501
// in the quick tier and those of nsec3-match-cover below 21 (a reference hash with 65 535 iterations
// costs milliseconds, thousands of them would not fit), so a defect that needs one particular count -
// a loop counter that wraps (iter+1 in a uint16 at 65 535, a uint8 at 255 / 256, a signed 16-bit value
// at 32 767 / 32 768), an off-by-one at either end - was invisible there. These two enumerations put
// every such count through HashName, Match and Cover in every run, deterministically:
//
//   iteration-bounds-hash          HashName(name, 1, it, salt) for each bound x names (root, one label,
//                                  mixed case, escaped) x salts (none, 4 octets; 255 octets for one name),
//                                  both letter-case spellings, through the oracle of nsec3-hash
//   iteration-bounds-match-cover   a record with Iterations = it for each bound x every cell
//                                  {normal, wrapping, empty} x {below, == owner, inside, == next, above}
//                                  (distances 1, the tightest) for a name of the zone, plus two cells for a
//                                  name outside it, the record taken in turn as struct literal, from wire
//                                  octets and from zone text, through the oracle of nsec3-match-cover
//
// Cost: 4 of the bounds are large; (36 + 68) cases x 3 hashes of <= 65 536 SHA-1 rounds, about a second.

var iterBounds = []uint16{0, 1, 2, 127, 128, 255, 256, 257, 32767, 32768, 65534, 65535}

func eachIterBoundHash(emit func(hashCase)) {
	names := [][2]string{
		{".", "."},
		{"example.", "EXAMPLE."},
		{"WWW.Example.ORG.", "www.example.org."},
		{`\065b\.c.ex\097mple.`, `ab\.c.EXAMPLE.`},
	}
	long := make([]byte, 255)
	for i := range long {
		long[i] = byte(i*7 + 0x41)
	}
	for _, it := range iterBounds {
		for i, n := range names {
			for j, salt := range [][]byte{nil, {0xaa, 0xbb, 0xcc, 0xdd}} {
				emit(hashCase{Name: n[0], Name2: n[1], Salt: salt, SaltUpper: (i+j)%2 == 1, Iter: it, Alg: 1})
			}
		}
		emit(hashCase{Name: "a.example.", Name2: "A.example.", Salt: long, Iter: it, Alg: 1})
	}
}

// cellHashes places owner and next hash around h for one cell, all distances 1 (d) - the placement
// genCover draws, without the draws. ok is false when h is too close to an end of the hash space.
func cellHashes(h *big.Int, shape, pos string, d *big.Int) (owner, next *big.Int, ok bool) {
	add := func(x *big.Int, k int64) *big.Int {
		return new(big.Int).Add(x, new(big.Int).Mul(d, big.NewInt(k)))
	}
	switch shape {
	case "empty":
		switch pos {
		case "eq-owner", "eq-next":
			owner = add(h, 0)
		case "below", "inside":
			owner = add(h, 1)
		default:
			owner = add(h, -1)
		}
		next = add(owner, 0)
	case "normal": // owner < next
		switch pos {
		case "below":
			owner, next = add(h, 1), add(h, 2)
		case "eq-owner":
			owner, next = add(h, 0), add(h, 1)
		case "inside":
			owner, next = add(h, -1), add(h, 1)
		case "eq-next":
			owner, next = add(h, -1), add(h, 0)
		default:
			owner, next = add(h, -2), add(h, -1)
		}
	default: // wrapping: owner > next
		switch pos {
		case "below":
			next, owner = add(h, 1), add(h, 2)
		case "eq-owner":
			owner, next = add(h, 0), add(h, -1)
		case "inside":
			next, owner = add(h, -1), add(h, 1)
		case "eq-next":
			next, owner = add(h, 0), add(h, 1)
		default:
			next, owner = add(h, -2), add(h, -1)
		}
	}
	ok = owner.Sign() >= 0 && next.Sign() >= 0 && owner.Cmp(max160) <= 0 && next.Cmp(max160) <= 0
	return
}

func eachIterBoundCover(emit func(coverCase)) {
	zone := wm.Name{[]byte("example")}
	inName := wm.Name{[]byte("www"), []byte("example")}
	outName := wm.Name{[]byte("www"), []byte("example"), []byte("org")}
	salt := []byte{0xaa, 0xbb, 0xcc, 0xdd}
	type cell struct {
		shape, pos string
		name       wm.Name
	}
	var cells []cell
	for _, shape := range []string{"normal", "wrapping", "empty"} {
		for _, pos := range []string{"below", "eq-owner", "inside", "eq-next", "above"} {
			cells = append(cells, cell{shape, pos, inName})
		}
	}
	cells = append(cells, cell{"normal", "eq-owner", outName}, cell{"wrapping", "above", outName})
	for ii, it := range iterBounds {
		// far distances as well where the hash is cheap
		dists := []*big.Int{big.NewInt(1)}
		if it <= 257 {
			dists = append(dists, new(big.Int).Lsh(big.NewInt(1), 100))
		}
		hIn := new(big.Int).SetBytes(refHashRaw(ref.Labels(inName), salt, it))
		hOut := new(big.Int).SetBytes(refHashRaw(ref.Labels(outName), salt, it))
		for ci, cl := range cells {
			for _, d := range dists {
				h := hIn
				if len(cl.name) == len(outName) {
					h = hOut
				}
				owner, next, ok := cellHashes(h, cl.shape, cl.pos, d)
				if !ok {
					continue
				}
				c := coverCase{Zone: zone, Name: cl.name, Salt: salt, Iter: it, OwnerHash: to20(owner), NextHash: to20(next),
					ZoneText: "example.", NameText: wm.EscName(cl.name)}
				c.OwnerText = ref.Base32Hex(c.OwnerHash)
				if ci%2 == 1 {
					c.OwnerText, c.NameText = strings.ToLower(c.OwnerText), strings.ToUpper(c.NameText)
				}
				switch (ci + ii) % 3 {
				case 1:
					c.FromWire = true
				case 2:
					c.FromText, c.NextText = true, ref.Base32Hex(c.NextHash)
				}
				// the classes whose findings are live are left out exactly as the generator leaves them out
				if bytes.Equal(to20(h), c.OwnerHash) && bytes.Compare(c.OwnerHash, c.NextHash) < 0 && len(cl.name) == len(inName) && iterKnownCoverOwner {
					c.SkipCover = true
				}
				emit(c)
			}
		}
	}
}

// decided once, outside every Check (pbt.Known must not be called from a Check that a probe runs)
var iterKnownCoverOwner bool

func init() {
	pbt.RegisterEnum(pbt.Enum[hashCase]{Name: "iteration-bounds-hash", Each: eachIterBoundHash, Check: checkHash})
	pbt.RegisterEnum(pbt.Enum[coverCase]{Name: "iteration-bounds-match-cover", Each: func(emit func(coverCase)) {
		iterKnownCoverOwner = pbt.Known(findCoverOwner)
		eachIterBoundCover(func(c coverCase) {
			if c.SkipCover {
				pbt.Excluded(findCoverOwner)
			}
			emit(c)
		})
	}, Check: checkCover})
}
