package c19

import (
	"fmt"
	"strings"
	"sync"

	"github.com/miekg/dns"
	"github.com/miekg/dns/dnsutil"
	"pgregory.net/rapid"

	"verif/harness/gen"
	"verif/harness/pbt"
	wm "verif/harness/wiremodel"
)

// The helpers are pure functions of their arguments: whatever they answer for a name when called
// alone they must answer when other goroutines work on other names at the same time (a server
// calls them from every handler goroutine). The sequential answers are the oracle; they were
// compared with the wire label sequence by the other sub-checks.

type concCase struct {
	Names []string
}

func helperAnswers(names []string, i int) string {
	s := names[i]
	o := names[(i+1)%len(names)]
	var sb strings.Builder
	fmt.Fprint(&sb, dns.CountLabel(s), dns.Split(s), dns.SplitDomainName(s), dns.Fqdn(s), dns.CanonicalName(s), dns.IsFqdn(s))
	fmt.Fprint(&sb, dns.CompareDomainName(s, o), dns.IsSubDomain(o, s))
	for off, end := 0, false; !end; {
		off, end = dns.NextLabel(s, off)
		sb.WriteString(fmt.Sprint(off, ","))
	}
	for n := 0; n < 4; n++ {
		j, start := dns.PrevLabel(s, n)
		sb.WriteString(fmt.Sprint(j, start, ";"))
	}
	sb.WriteString(dnsutil.TrimDomainName(s, o))
	return sb.String()
}

func checkConcurrent(c concCase) error {
	if len(c.Names) < 2 {
		return nil
	}
	pbt.Note([]byte(strings.Join(c.Names, " ")), true, fmt.Sprintf("names=%d", len(c.Names)))
	want := make([]string, len(c.Names))
	for i := range c.Names {
		want[i] = helperAnswers(c.Names, i)
	}
	const workers, rounds = 8, 40
	var wg sync.WaitGroup
	errs := make(chan error, workers)
	for w := 0; w < workers; w++ {
		wg.Add(1)
		go func(w int) {
			defer wg.Done()
			defer func() {
				if r := recover(); r != nil {
					errs <- pbt.Errf("a label helper panicked while other goroutines used the helpers on other names: %v", r)
				}
			}()
			for r := 0; r < rounds; r++ {
				i := (w*7 + r) % len(c.Names)
				if got := helperAnswers(c.Names, i); got != want[i] {
					errs <- pbt.Errf("the helpers answer differently for %q while other goroutines use them on other names:\n  alone:      %s\n  concurrent: %s", c.Names[i], want[i], got)
					return
				}
			}
		}(w)
	}
	wg.Wait()
	close(errs)
	return <-errs
}

func genConcurrent(t *rapid.T) concCase {
	var c concCase
	for i, n := 0, rapid.IntRange(4, 12).Draw(t, "nnames"); i < n; i++ {
		var name wm.Name
		if rapid.Bool().Draw(t, "many") {
			name = manyLabels(t)
		} else {
			name = gen.Name(t, gen.NameOpts{MaxLabs: 8})
		}
		c.Names = append(c.Names, render(name, rapid.IntRange(0, 3).Draw(t, "fq") != 0))
	}
	return c
}

func init() {
	pbt.Register(pbt.Sub[concCase]{Name: "helpers-concurrently", Weight: 3, Gen: genConcurrent, Check: checkConcurrent})
}
