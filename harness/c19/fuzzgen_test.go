package c19

import (
	"testing"

	"verif/harness/pbt"
)

// FuzzGen: coverage-guided search over the generators of this package (see pbt.FuzzGen).
// helpers-concurrently is left out: one case starts 8 goroutines that call every helper 40 times
// (10-20 ms on a busy machine, a hundred times the cost of a case of the other sub-checks), so with it
// a sixth of the executions used up nearly all of the fuzzing time; the library code it reaches is
// the code the other sub-checks reach.
func FuzzGen(f *testing.F) { pbt.FuzzGen(f, "helpers-concurrently") }
