package c19

import (
	"fmt"
	"strings"

	"github.com/miekg/dns"
	"github.com/miekg/dns/dnsutil"
	"pgregory.net/rapid"

	"verif/harness/gen"
	"verif/harness/pbt"
	wm "verif/harness/wiremodel"
)

// ---------------------------------------------------------------------------------------------
// structure: count / split / next / prev / fqdn / canonical on one name in any legal spelling

type structCase struct {
	Spelled []string // presentation spelling of each label, in order
	FQ      bool     // with trailing dot
	// NoRootPrev: the generator left out "PrevLabel on the root name" because the known finding
	// prevlabel-root is listed and still reproduces (only ever set for the root name)
	NoRootPrev bool `json:",omitempty"`
	// NoCanonDDD: likewise for the known finding canonical-ddd-letter (only ever set for a name that
	// holds an upper-case letter written as \DDD): that unit may come back from CanonicalName unchanged
	NoCanonDDD bool `json:",omitempty"`
}

func (c structCase) text() string {
	if len(c.Spelled) == 0 {
		return "."
	}
	s := strings.Join(c.Spelled, ".")
	if c.FQ {
		s += "."
	}
	return s
}

func lowerASCII(s string) string {
	b := []byte(s)
	for i, c := range b {
		if c >= 'A' && c <= 'Z' {
			b[i] = c + 32
		}
	}
	return string(b)
}

func checkStruct(c structCase) error {
	if len(c.Spelled) == 0 {
		c.FQ = true
	}
	s := c.text()
	k := len(c.Spelled)
	// reference: wire labels and start offsets from the harness's own unescaper
	var wire wm.Name
	var starts []int
	off := 0
	esc := false
	for _, sp := range c.Spelled {
		n, fq, err := wm.UnescName(sp)
		if err != nil || fq || len(n) != 1 {
			return nil // not a single valid label: outside the domain (generators never do this)
		}
		wire = append(wire, n[0])
		starts = append(starts, off)
		off += len(sp) + 1
		if strings.Contains(sp, `\`) {
			esc = true
		}
	}
	pbt.Note([]byte(s), esc, fmt.Sprintf("labels=%d", min(k, 4)), fmt.Sprintf("fq=%v", c.FQ))
	if esc {
		pbt.Sample("escaped", s)
	}

	// what the helpers return is the caller's own: a caller that reuses the returned slices as
	// scratch space (offsets turned into lengths, labels overwritten) must not change what the
	// helpers answer for the same name afterwards
	for i, pre := 0, dns.Split(s); i < len(pre); i++ {
		pre[i] = -7 - i
	}
	for i, pre := 0, dns.SplitDomainName(s); i < len(pre); i++ {
		pre[i] = "scribbled"
	}
	if got := dns.CountLabel(s); got != k {
		return pbt.Errf("CountLabel(%q)=%d want %d", s, got, k)
	}
	sp := dns.Split(s)
	if k == 0 {
		if sp != nil {
			return pbt.Errf("Split(%q)=%v want nil", s, sp)
		}
	} else if fmt.Sprint(sp) != fmt.Sprint(starts) {
		return pbt.Errf("Split(%q)=%v want %v", s, sp, starts)
	}
	sd := dns.SplitDomainName(s)
	if len(sd) != k {
		return pbt.Errf("SplitDomainName(%q)=%q want %d labels", s, sd, k)
	}
	for i := range sd {
		if sd[i] != c.Spelled[i] {
			return pbt.Errf("SplitDomainName(%q)[%d]=%q want %q", s, i, sd[i], c.Spelled[i])
		}
		n, _, err := wm.UnescName(sd[i])
		if err != nil || len(n) != 1 || string(n[0]) != string(wire[i]) {
			return pbt.Errf("SplitDomainName(%q)[%d]=%q does not denote wire label %q", s, i, sd[i], wire[i])
		}
	}
	if k == 0 {
		// the root name has no label: stepping forward from its only offset ends at once ...
		if ni, end := dns.NextLabel(s, 0); !end {
			return pbt.Errf("NextLabel(%q,0)=%d,end=false want end (the root name has no label)", s, ni)
		}
	}
	// ... and stepping backwards finds no label start either (n = 0 is the end of the text by
	// definition, every n >= 1 overshoots) - the general rule below with k = 0
	if k > 0 || !c.NoRootPrev {
		for n := 0; n <= k+2; n++ {
			i, st := dns.PrevLabel(s, n)
			var wi int
			var wst bool
			switch {
			case n == 0:
				wi = len(s)
			case n <= k:
				wi = starts[k-n]
			default:
				wi, wst = 0, true
			}
			if i != wi || st != wst {
				return pbt.Errf("PrevLabel(%q,%d)=%d,%v want %d,%v (the name has %d labels)", s, n, i, st, wi, wst, k)
			}
		}
	}
	if k > 0 {
		for i := range starts {
			ni, end := dns.NextLabel(s, starts[i])
			if i == k-1 {
				if !end {
					return pbt.Errf("NextLabel(%q,%d)=%d,end=false want end", s, starts[i], ni)
				}
			} else if ni != starts[i+1] || end {
				return pbt.Errf("NextLabel(%q,%d)=%d,%v want %d,false", s, starts[i], ni, end, starts[i+1])
			}
		}
	}
	if got := dns.IsFqdn(s); got != c.FQ {
		return pbt.Errf("IsFqdn(%q)=%v want %v", s, got, c.FQ)
	}
	wantFq := s
	if !c.FQ {
		wantFq = s + "."
	}
	if got := dns.Fqdn(s); got != wantFq {
		return pbt.Errf("Fqdn(%q)=%q want %q", s, got, wantFq)
	}
	// CanonicalName: only ASCII letters lower-cased, root appended. Spellings with raw octets
	// above 0x7f are not the library's presentation form (CanonicalName maps through Unicode): the
	// structural helpers and Fqdn/IsFqdn get them, CanonicalName does not - see DESIGN.md section 7.4.
	for i := 0; i < len(s); i++ {
		if s[i] >= 0x80 {
			pbt.Class("raw-8-bit-text")
			return nil
		}
	}
	// (canonical_test.go: unit by unit - every letter octet lower-cased however it is written,
	// nothing else changed)
	if hasDDDUpper(s) {
		pbt.Class("upper-letter-as-ddd")
		pbt.Sample("upper-letter-as-ddd", s)
	}
	if err := checkCanonical(s, wantFq, dns.CanonicalName(s), c.NoCanonDDD); err != nil {
		return err
	}
	// the canonical name denotes the wire labels of the name, lower-cased, and is fully qualified
	cn, cfq, err := wm.UnescName(dns.CanonicalName(s))
	if err != nil || !cfq || !cn.Equal(lowerWire(wire)) && !(c.NoCanonDDD && cn.Equal(lowerEscAware(c.Spelled))) {
		return pbt.Errf("CanonicalName(%q)=%q denotes %q, want lower-cased %q", s, dns.CanonicalName(s), cn, wire)
	}
	return nil
}

func lowerWire(n wm.Name) wm.Name {
	var out wm.Name
	for _, l := range n {
		out = append(out, []byte(lowerASCII(string(l))))
	}
	return out
}

// noteCanonDDD: while the known finding canonical-ddd-letter is listed and reproduces, a name that
// holds an upper-case letter written as \DDD is given to CanonicalName with that one unit allowed
// to come back unchanged (everything else is still asserted)
func noteCanonDDD(c *structCase) {
	if hasDDDUpper(c.text()) && pbt.Known(findCanonDDD) {
		pbt.Excluded(findCanonDDD)
		c.NoCanonDDD = true
	}
}

// lowerEscAware is what lower-casing the *text* denotes: letters written raw or as \c are
// lowered, letters written as \DDD are digits in the text and stay as they are.
func lowerEscAware(spelled []string) wm.Name {
	var out wm.Name
	for _, sp := range spelled {
		n, _, _ := wm.UnescName(lowerASCII(sp))
		if len(n) == 1 {
			out = append(out, n[0])
		} else {
			out = append(out, nil)
		}
	}
	return out
}

func genStruct(t *rapid.T) structCase {
	n := gen.Name(t, gen.NameOpts{MaxLabs: 6, MaxLabel: 12})
	if rapid.IntRange(0, 9).Draw(t, "long") == 0 {
		n = gen.Name(t, gen.NameOpts{MaxLabs: 40, Long: true})
	}
	c := structCase{FQ: rapid.Bool().Draw(t, "fq")}
	canonical := rapid.Bool().Draw(t, "canonical")
	// Raw octets >= 0x80 are NOT the library's presentation form (it writes \DDD); they are only
	// given to the structural helpers, never to CanonicalName (which maps through Unicode and is
	// documented for presentation-form names) – see DESIGN.md §7.4.
	rawHigh := !canonical && gen.Rarely(t, 2)
	// styled: every octet in one of ALL its legal spellings, including the short escape of a digit
	// (a backslash and the digit itself, `\1`, legal wherever two more digits do not follow) that
	// gen.SpellLabel never writes; half of these names are drawn over a small digit-rich alphabet so
	// that the short escape often stands directly before a label separator or the end of the name
	styled := !canonical && !rawHigh && rapid.Bool().Draw(t, "styled")
	if styled && rapid.Bool().Draw(t, "digitrich") {
		n = digitRichName(t, 5)
	}
	for _, l := range n {
		switch {
		case canonical:
			c.Spelled = append(c.Spelled, wm.EscLabel(l))
		case rawHigh:
			c.Spelled = append(c.Spelled, gen.SpellLabelRaw(t, l))
		case styled:
			c.Spelled = append(c.Spelled, spellStyled(l, rapid.Uint64().Draw(t, "style"), true))
		default:
			c.Spelled = append(c.Spelled, gen.SpellLabel(t, l))
		}
	}
	if len(c.Spelled) == 0 && pbt.Known(findPrevRoot) {
		pbt.Excluded(findPrevRoot)
		c.NoRootPrev = true
	}
	noteCanonDDD(&c)
	return c
}

// bounded-exhaustive: all names of at most n units over the unit alphabet
// `\1` is the short escape of a digit: a backslash and ONE digit, read as the escape of that single
// octet unless two more digits follow. With the unit "1" behind it the enumeration also holds the
// two-digit form `\11` (octets '1','1') directly before a separator and before the end, and the
// three-digit form `\111` (one octet, 'o'); the wire labels are read from the text, not from the units.
var units = []string{"a", "A", "1", `\\`, `\.`, `\065`, `\046`, `\000`, "é", `\1`}

func eachSmallName(maxUnits int, emit func(structCase)) {
	eachSmallNameOver(units, maxUnits, func(c structCase) {
		if len(c.Spelled) == 0 && pbt.Known(findPrevRoot) {
			pbt.Excluded(findPrevRoot)
			c.NoRootPrev = true
		}
		noteCanonDDD(&c)
		emit(c)
	})
}

func eachSmallNameOver(units []string, maxUnits int, emit func(structCase)) {
	emit(structCase{FQ: true}) // root
	var rec func(labels []string, curr string, used int)
	rec = func(labels []string, curr string, used int) {
		if curr != "" {
			done := append(append([]string{}, labels...), curr)
			emit(structCase{Spelled: done, FQ: false})
			if used+1 <= maxUnits {
				emit(structCase{Spelled: done, FQ: true})
			}
		}
		if used >= maxUnits {
			return
		}
		for _, u := range units {
			rec(labels, curr+u, used+1)
		}
		if curr != "" && used+1 < maxUnits { // a separating dot must be followed by a label
			rec(append(append([]string{}, labels...), curr), "", used+1)
		}
	}
	rec(nil, "", 0)
}

// ---------------------------------------------------------------------------------------------
// comparison helpers on pairs in the library's canonical escaping

type pairCase struct {
	A, B [][]byte // wire labels
	FQ   bool     // both names equally qualified (precondition of every caller in the library)
	Raw  bool     // octets >= 0x80 are written raw (as typed UTF-8) instead of \DDD: they compare octet for octet
	All  bool     `json:",omitempty"` // every octet is written raw except dot and backslash (a name a program put together)
	// Spelled: TA and TB hold the presentation spelling of each label of the two names (any legal
	// spelling of every octet: raw, \c, \DDD, the short escape \d of a digit); A and B are ignored,
	// the wire labels are read from the text by the harness's own unescaper
	Spelled bool     `json:",omitempty"`
	TA, TB  []string `json:",omitempty"`
}

func joinSpelled(labels []string, fq bool) string {
	if len(labels) == 0 {
		return "."
	}
	s := strings.Join(labels, ".")
	if fq {
		s += "."
	}
	return s
}

// unescLabels reads each spelled label with the harness's unescaper; ok is false when one of them
// is not exactly one valid label (outside the domain)
func unescLabels(spelled []string) (n wm.Name, ok bool) {
	for _, sp := range spelled {
		l, fq, err := wm.UnescName(sp)
		if err != nil || fq || len(l) != 1 {
			return nil, false
		}
		n = append(n, l[0])
	}
	return n, true
}

// mixedSpelling: among the labels the two names share (counted from the right, by the wire
// labels) there is one whose two texts differ in more than the case of ASCII letters - one label
// written in two spellings (`\a` and `a`, `\097` and `a`, `\065` and `a`)
func mixedSpelling(ta, tb []string, shared int) bool {
	for i := 1; i <= shared; i++ {
		if lowerASCII(ta[len(ta)-i]) != lowerASCII(tb[len(tb)-i]) {
			return true
		}
	}
	return false
}

func render(n wm.Name, fq bool) string {
	s := wm.EscName(n)
	if !fq && len(n) > 0 {
		s = s[:len(s)-1]
	}
	return s
}

// renderAllRaw writes every octet raw except the two that cannot be (dot, backslash)
func renderAllRaw(n wm.Name, fq bool) string {
	var sb strings.Builder
	for i, l := range n {
		if i > 0 {
			sb.WriteByte('.')
		}
		for _, b := range l {
			if b == '.' || b == '\\' {
				sb.WriteByte('\\')
			}
			sb.WriteByte(b)
		}
	}
	if fq || len(n) == 0 {
		sb.WriteByte('.')
	}
	return sb.String()
}

// renderRaw is render, but octets >= 0x80 are written raw
func renderRaw(n wm.Name, fq bool) string {
	var sb strings.Builder
	for i, l := range n {
		for _, c := range l {
			if c >= 0x80 {
				sb.WriteByte(c)
			} else {
				sb.WriteString(wm.EscLabel([]byte{c}))
			}
		}
		if i < len(n)-1 || fq {
			sb.WriteByte('.')
		}
	}
	if len(n) == 0 {
		return "."
	}
	return sb.String()
}

func commonSuffix(a, b wm.Name) int {
	n := 0
	for i, j := len(a)-1, len(b)-1; i >= 0 && j >= 0; i, j = i-1, j-1 {
		if string(wm.LowerBytes(a[i])) != string(wm.LowerBytes(b[j])) {
			break
		}
		n++
	}
	return n
}

func checkPair(c pairCase) error {
	a, b := wm.Name(c.A), wm.Name(c.B)
	if c.Spelled {
		var oka, okb bool
		a, oka = unescLabels(c.TA)
		b, okb = unescLabels(c.TB)
		if !oka || !okb {
			return nil // outside the domain (generators never do this)
		}
	}
	if !c.FQ && (len(a) == 0 || len(b) == 0) {
		c.FQ = true // the root has no unqualified spelling
	}
	sa, sb := render(a, c.FQ), render(b, c.FQ)
	if c.Spelled {
		sa, sb = joinSpelled(c.TA, c.FQ), joinSpelled(c.TB, c.FQ)
	}
	if c.Raw {
		sa, sb = renderRaw(a, c.FQ), renderRaw(b, c.FQ)
	}
	if c.All {
		sa, sb = renderAllRaw(a, c.FQ), renderAllRaw(b, c.FQ)
	}
	want := commonSuffix(a, b)
	differ := !a.Equal(b)
	pbt.Note([]byte(sa+"|"+sb), want >= 1 && differ, fmt.Sprintf("common=%d", min(want, 3)), fmt.Sprintf("differ=%v", differ))
	if want >= 1 && differ {
		pbt.Sample("related", sa+" | "+sb)
	}
	if labelAffix(a, b, want) {
		pbt.Class("label-affix")
		pbt.Sample("label-affix", sa+" | "+sb)
	}
	if !strings.Contains(sa+sb, `\`) {
		pbt.Class("no-escape")
	}
	if c.Spelled {
		if strings.Contains(sa+sb, `\`) {
			pbt.Class("spelled-with-escape")
		}
		if hasShortDigitEscape(sa) || hasShortDigitEscape(sb) {
			pbt.Class("short-digit-escape")
			pbt.Sample("short-digit-escape", sa+" | "+sb)
		}
		if mixedSpelling(c.TA, c.TB, want) {
			pbt.Class("one-label-two-spellings")
			pbt.Sample("one-label-two-spellings", sa+" | "+sb)
		}
		if quotedVsRaw(c.TA, c.TB, want) {
			pbt.Class("quoted-char-against-raw")
			pbt.Sample("quoted-char-against-raw", sa+" | "+sb)
		}
	}
	if got := dns.CompareDomainName(sa, sb); got != want {
		return pbt.Errf("CompareDomainName(%q,%q)=%d want %d", sa, sb, got, want)
	}
	if got := dns.CompareDomainName(sb, sa); got != want {
		return pbt.Errf("CompareDomainName(%q,%q)=%d want %d (symmetry)", sb, sa, got, want)
	}
	if got := dns.IsSubDomain(sb, sa); got != (want == len(b)) {
		return pbt.Errf("IsSubDomain(parent=%q,child=%q)=%v want %v", sb, sa, got, want == len(b))
	}
	if got := dns.IsSubDomain(sa, sb); got != (want == len(a)) {
		return pbt.Errf("IsSubDomain(parent=%q,child=%q)=%v want %v", sa, sb, got, want == len(a))
	}
	return nil
}

// every pair of octet values at one position of otherwise equal names, in both spellings the
// comparison helpers can meet (escaped as the decoder writes them, and raw for octets >= 0x80):
// equal exactly when the octets are equal or are the two cases of one ASCII letter
func eachOctetPair(emit func(pairCase)) {
	for _, raw := range []bool{false, true} {
		for x := 0; x < 256; x++ {
			for y := 0; y < 256; y++ {
				if raw && x < 0x80 && y < 0x80 && x >= 0x21 && y >= 0x21 && x != 0x7f && y != 0x7f {
					continue // same text as the escaped pass (up to the specials, which the all-raw pass writes raw)
				}
				a := [][]byte{{'a', byte(x), 'b'}, []byte("example")}
				b := [][]byte{{'a', byte(y), 'b'}, []byte("example")}
				emit(pairCase{A: a, B: b, FQ: true, Raw: raw})
				if raw {
					emit(pairCase{A: a, B: b, FQ: true, All: true})
				}
			}
		}
	}
}

// manyLabels draws a name with a label count near the interesting boundaries (powers of two, the maximum 127)
func manyLabels(t *rapid.T) wm.Name {
	n := rapid.SampledFrom([]int{7, 8, 9, 15, 16, 17, 31, 32, 33, 34, 63, 64, 65, 100, 126, 127}).Draw(t, "nlabels")
	var out wm.Name
	for i := 0; i < n; i++ {
		out = append(out, []byte{"abcAB1-"[rapid.IntRange(0, 6).Draw(t, "c")]})
	}
	return out
}

// utf8Label draws a label holding raw UTF-8 letters whose upper/lower-case forms differ only outside ASCII
func utf8Label(t *rapid.T) []byte {
	parts := []string{"É", "é", "Ü", "ü", "Ω", "ω", "Д", "д", "a", "A", "ß", "ẞ", "\xff", "\xfe"}
	var l []byte
	for i := rapid.IntRange(1, 3).Draw(t, "nparts"); i > 0; i-- {
		l = append(l, rapid.SampledFrom(parts).Draw(t, "part")...)
	}
	return l
}

func genPair(t *rapid.T) pairCase {
	o := gen.NameOpts{MaxLabs: 5, MaxLabel: 6}
	a := gen.Name(t, o)
	switch rapid.IntRange(0, 7).Draw(t, "special") {
	case 0:
		a = manyLabels(t)
	case 1:
		a = wm.Name{utf8Label(t), []byte("example")}
		b := wm.Name{utf8Label(t), []byte("Example")}
		if rapid.Bool().Draw(t, "samebytes") {
			b[0] = append([]byte(nil), a[0]...)
		}
		return pairCase{A: a, B: b, FQ: rapid.Bool().Draw(t, "fq"), Raw: true}
	}
	if rapid.IntRange(0, 3).Draw(t, "plain") == 0 {
		a = plainName(t, 4) // letters and digits only: nothing to escape, every dot a separator
	}
	var b wm.Name
	switch rapid.IntRange(0, 5).Draw(t, "rel") {
	case 0:
		b = gen.Name(t, o)
	case 1:
		b = a.Clone()
	case 2:
		b = gen.FlipCase(t, a)
	case 3:
		b = affixPair(t, a)
	default:
		b = gen.Name(t, gen.NameOpts{MaxLabs: 3, MaxLabel: 6})
		cut := rapid.IntRange(0, len(a)).Draw(t, "cut")
		tail := wm.Name(a[cut:])
		if rapid.Bool().Draw(t, "flip") {
			tail = gen.FlipCase(t, tail)
		}
		b = append(b, tail.Clone()...)
	}
	return pairCase{A: a, B: b, FQ: rapid.Bool().Draw(t, "fq")}
}

// plainName draws 1..maxLabs labels of 1..4 letters and digits
func plainName(t *rapid.T, maxLabs int) wm.Name {
	const al = "abAB1-xyz0"
	var n wm.Name
	for i, k := 0, rapid.IntRange(1, maxLabs).Draw(t, "plabs"); i < k; i++ {
		l := make([]byte, rapid.IntRange(1, 4).Draw(t, "plen"))
		for j := range l {
			l[j] = al[rapid.IntRange(0, len(al)-1).Draw(t, "poct")]
		}
		n = append(n, l)
	}
	return n
}

// affixPair: the second name shares the last labels of a, and its next label is NOT the label of a
// at that place but a piece of it or an extension of it - "ample.com" / "exam.com" / "badexample.com" /
// "examples.com" against "example.com": the texts of the two names then agree (or nearly agree)
// beyond the last shared label boundary although the labels differ. In front of that label there is
// nothing, the labels a has there, or other labels. The shared-suffix count is exactly the number of
// labels behind it; the oracle (commonSuffix on the wire labels) does not know how the pair was made.
func affixPair(t *rapid.T, a wm.Name) wm.Name {
	if len(a) == 0 {
		return wm.Name{}
	}
	at := rapid.IntRange(0, len(a)-1).Draw(t, "affixat")
	l := a[at]
	var v []byte
	extra := func() []byte {
		e := make([]byte, rapid.IntRange(1, 2).Draw(t, "nextra"))
		for i := range e {
			e[i] = "abAB1-."[rapid.IntRange(0, 6).Draw(t, "extra")]
		}
		return e
	}
	switch k := rapid.IntRange(0, 3).Draw(t, "affix"); {
	case k == 0 && len(l) > 1: // a proper suffix of the label
		v = append(v, l[rapid.IntRange(1, len(l)-1).Draw(t, "from"):]...)
	case k == 1 && len(l) > 1: // a proper prefix
		v = append(v, l[:rapid.IntRange(1, len(l)-1).Draw(t, "to")]...)
	case k == 2 || k == 0: // extended on the left
		v = append(extra(), l...)
	default: // extended on the right
		v = append(append(v, l...), extra()...)
	}
	var b wm.Name
	switch rapid.IntRange(0, 2).Draw(t, "front") {
	case 1:
		b = append(b, wm.Name(a[:at]).Clone()...)
	case 2:
		b = gen.Name(t, gen.NameOpts{MaxLabs: 2, MaxLabel: 4})
	}
	b = append(b, v)
	b = append(b, wm.Name(a[at+1:]).Clone()...)
	if rapid.Bool().Draw(t, "flip") {
		b = gen.FlipCase(t, b)
	}
	return b // either name may be the first argument: checkPair asks both ways round
}

// labelAffix: the first labels that differ (counted from the right) are a proper piece of one
// another - one is a suffix or a prefix of the other under ASCII case folding
func labelAffix(a, b wm.Name, shared int) bool {
	if shared >= len(a) || shared >= len(b) {
		return false
	}
	x := string(wm.LowerBytes(a[len(a)-1-shared]))
	y := string(wm.LowerBytes(b[len(b)-1-shared]))
	if len(x) > len(y) {
		x, y = y, x
	}
	return len(x) > 0 && len(x) < len(y) && (strings.HasSuffix(y, x) || strings.HasPrefix(y, x))
}

var pairUnits = [][]byte{{'a'}, {'A'}, {'b'}, {'.'}, {'\\'}, {0}}

func eachSmallWire(maxOctets int, emit func(wm.Name)) {
	// names of at most 3 labels, each 1..2 octets over pairUnits, at most maxOctets label octets in total
	var labels [][]byte
	var gl func(cur []byte, left int)
	gl = func(cur []byte, left int) {
		if len(cur) > 0 {
			labels = append(labels, append([]byte(nil), cur...))
		}
		if left == 0 {
			return
		}
		for _, u := range pairUnits {
			gl(append(cur, u...), left-1)
		}
	}
	gl(nil, 2) // labels of 1..2 octets
	emit(wm.Name{})
	var build func(n wm.Name, left int)
	build = func(n wm.Name, left int) {
		if len(n) > 0 {
			emit(n.Clone())
		}
		if len(n) == 3 {
			return
		}
		for _, l := range labels {
			if len(l) <= left {
				build(append(n, l), left-len(l))
			}
		}
	}
	build(nil, maxOctets)
}

// ---------------------------------------------------------------------------------------------
// dnsutil.AddOrigin / TrimDomainName

type originCase struct {
	Rel      [][]byte // 1.. labels, relative
	Origin   [][]byte // 0.. labels
	OriginFQ bool
	// Spelled: TRel and TOrg hold the presentation spelling of each label (any legal spelling of
	// every octet, see pairCase); Rel and Origin are ignored
	Spelled    bool     `json:",omitempty"`
	TRel, TOrg []string `json:",omitempty"`
	// TOrg2: the origin once more, every octet in a spelling of its own (round 10); only used when
	// it denotes the same labels as TOrg
	TOrg2 []string `json:",omitempty"`
}

func checkOrigin(c originCase) error {
	rel, org := wm.Name(c.Rel), wm.Name(c.Origin)
	if c.Spelled {
		var okr, oko bool
		rel, okr = unescLabels(c.TRel)
		org, oko = unescLabels(c.TOrg)
		if !okr || !oko {
			return nil // outside the domain (generators never do this)
		}
	}
	if len(rel) == 0 {
		return nil
	}
	if len(org) == 0 {
		c.OriginFQ = true
	}
	srel := render(rel, false)
	sorg := render(org, c.OriginFQ)
	if c.Spelled {
		srel, sorg = joinSpelled(c.TRel, false), joinSpelled(c.TOrg, c.OriginFQ)
	}
	sorgFQ := sorg // the origin fully qualified
	if !c.OriginFQ {
		sorgFQ += "."
	}
	esc := strings.Contains(srel+sorg, `\`)
	pbt.Note([]byte(srel+"|"+sorg), esc, fmt.Sprintf("originfq=%v", c.OriginFQ), fmt.Sprintf("originlabels=%d", min(len(org), 3)))
	if hasShortDigitEscape(srel) || hasShortDigitEscape(sorg) {
		pbt.Class("short-digit-escape")
	}
	abs := dnsutil.AddOrigin(srel, sorg)
	wantAbs := srel + "." + sorg
	if len(org) == 0 {
		wantAbs = srel + "."
	}
	if abs != wantAbs {
		return pbt.Errf("AddOrigin(%q,%q)=%q want %q", srel, sorg, abs, wantAbs)
	}
	if back := dnsutil.TrimDomainName(abs, sorg); back != srel {
		return pbt.Errf("TrimDomainName(AddOrigin(%q,%q)=%q,%q)=%q want %q", srel, sorg, abs, sorg, back, srel)
	}
	// the origin spelled in the other letter case is the same origin
	swap := func(t string) string {
		b := []byte(t)
		for i := 0; i < len(b); i++ {
			if b[i] == '\\' {
				i++ // an escaped character keeps its spelling (\097 is digits, not a letter)
				if i+2 < len(b) && isDig(b[i]) && isDig(b[i+1]) && isDig(b[i+2]) {
					i += 2 // \DDD; a backslash with fewer than three digits escapes one octet
				}
				continue
			}
			if b[i] >= 'a' && b[i] <= 'z' || b[i] >= 'A' && b[i] <= 'Z' {
				b[i] ^= 0x20
			}
		}
		return string(b)
	}
	if other := swap(sorg); other != sorg {
		if back := dnsutil.TrimDomainName(abs, other); back != srel {
			return pbt.Errf("TrimDomainName(%q,%q)=%q want %q (the origin in another letter case)", abs, other, back, srel)
		}
		if back := dnsutil.TrimDomainName(swap(abs), sorg); back != swap(srel) {
			return pbt.Errf("TrimDomainName(%q,%q)=%q want %q (the name in another letter case)", swap(abs), sorg, back, swap(srel))
		}
		if len(org) > 0 {
			if tr := dnsutil.TrimDomainName(sorgFQ, other); tr != "@" {
				return pbt.Errf("TrimDomainName(%q,%q)=%q want @", sorgFQ, other, tr)
			}
		}
	}
	// the origin in another spelling (`\a` for `a`, `\045` for `-`, `\1` for `1`) is the same origin:
	// it comes off the name that was made with the first spelling, and leaves that name's own text
	if o2, ok := unescLabels(c.TOrg2); c.Spelled && ok && len(org) > 0 && o2.Equal(org) {
		if sorg2 := joinSpelled(c.TOrg2, c.OriginFQ); sorg2 != sorg {
			pbt.Class("origin-respelled")
			pbt.Sample("origin-respelled", abs+" | "+sorg2)
			if back := dnsutil.TrimDomainName(abs, sorg2); back != srel {
				return pbt.Errf("TrimDomainName(AddOrigin(%q,%q)=%q,%q)=%q want %q (the origin in another spelling)", srel, sorg, abs, sorg2, back, srel)
			}
			if tr := dnsutil.TrimDomainName(sorgFQ, sorg2); tr != "@" {
				return pbt.Errf("TrimDomainName(%q,%q)=%q want @ (the origin in another spelling)", sorgFQ, sorg2, tr)
			}
		}
	}
	// the other direction: abs (fully qualified) under origin
	full := srel + "."
	if len(org) > 0 {
		full += sorgFQ
	}
	tr := dnsutil.TrimDomainName(full, sorg)
	again := dnsutil.AddOrigin(tr, sorg)
	if dns.Fqdn(again) != full {
		return pbt.Errf("AddOrigin(TrimDomainName(%q,%q)=%q,%q)=%q, fully qualified %q, want %q", full, sorg, tr, sorg, again, dns.Fqdn(again), full)
	}
	// the same name written without its final dot (TrimDomainName qualifies its argument itself):
	// taking the origin off and putting it back gives the name again. Only the round trip is
	// asserted, not what the intermediate text looks like (the statement says "inverse").
	unq := full[:len(full)-1]
	tr = dnsutil.TrimDomainName(unq, sorg)
	again = dnsutil.AddOrigin(tr, sorg)
	if dns.Fqdn(again) != full {
		return pbt.Errf("AddOrigin(TrimDomainName(%q,%q)=%q,%q)=%q, fully qualified %q, want %q", unq, sorg, tr, sorg, again, dns.Fqdn(again), full)
	}
	// the apex maps to "@" and back
	if len(org) > 0 {
		apex := sorgFQ
		if tr := dnsutil.TrimDomainName(apex, sorg); tr != "@" {
			return pbt.Errf("TrimDomainName(%q,%q)=%q want @", apex, sorg, tr)
		}
		if again := dnsutil.AddOrigin("@", sorg); again != sorg {
			return pbt.Errf("AddOrigin(@,%q)=%q", sorg, again)
		}
	}
	return nil
}

func genOrigin(t *rapid.T) originCase {
	o := gen.NameOpts{MaxLabs: 4, MaxLabel: 6}
	rel := gen.Name(t, o)
	if len(rel) == 0 {
		rel = wm.Name{gen.Label(t, o)}
	}
	org := gen.Name(t, o)
	if rapid.IntRange(0, 3).Draw(t, "samelast") == 0 && len(org) > 0 {
		// relative part ends with labels that also occur in the origin (suffix-confusable)
		rel = append(rel, gen.FlipCase(t, wm.Name(org[:1]))...)
	}
	return originCase{Rel: rel, Origin: org, OriginFQ: rapid.Bool().Draw(t, "ofq")}
}

func init() {
	pbt.Register(pbt.Sub[structCase]{Name: "structure", Weight: 100, Gen: genStruct, Check: checkStruct})
	pbt.Register(pbt.Sub[pairCase]{Name: "compare", Weight: 100, Gen: genPair, Check: checkPair})
	pbt.Register(pbt.Sub[originCase]{Name: "origin", Weight: 50, Gen: genOrigin, Check: checkOrigin})
	pbt.RegisterEnum(pbt.Enum[structCase]{Name: "structure-exhaustive-5", Tiers: "quick", Exhaustive: true,
		Each: func(emit func(structCase)) { eachSmallName(5, emit) }, Check: checkStruct})
	pbt.RegisterEnum(pbt.Enum[structCase]{Name: "structure-exhaustive-7", Tiers: "thorough", Exhaustive: true,
		Each: func(emit func(structCase)) { eachSmallName(7, emit) }, Check: checkStruct})
	pairs := func(maxOct int) func(emit func(pairCase)) {
		return func(emit func(pairCase)) {
			var names []wm.Name
			eachSmallWire(maxOct, func(n wm.Name) { names = append(names, n) })
			for _, a := range names {
				for _, b := range names {
					emit(pairCase{A: a, B: b, FQ: true})
					if len(a) > 0 && len(b) > 0 {
						emit(pairCase{A: a, B: b, FQ: false})
					}
				}
			}
		}
	}
	pbt.RegisterEnum(pbt.Enum[pairCase]{Name: "octet-pair-exhaustive", Exhaustive: true, Each: eachOctetPair, Check: checkPair})
	pbt.RegisterEnum(pbt.Enum[pairCase]{Name: "compare-exhaustive-3", Tiers: "quick", Exhaustive: true, Each: pairs(3), Check: checkPair})
	pbt.RegisterEnum(pbt.Enum[pairCase]{Name: "compare-exhaustive-4", Tiers: "thorough", Exhaustive: true, Each: pairs(4), Check: checkPair})
}
