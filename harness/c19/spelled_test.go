package c19

import (
	"fmt"
	"strings"

	"pgregory.net/rapid"

	"verif/harness/gen"
	"verif/harness/pbt"
	wm "verif/harness/wiremodel"
)

// Every legal spelling of every octet (round 7).
//
// A name is presentation text; an octet of a label may be written raw, as a backslash and the
// character itself (\c), or as a backslash and three decimal digits (\DDD). For a DIGIT the \c form
// is a backslash followed by one digit - `\1` - and, with a raw digit behind it, by two - `\12`
// (octets '1','2'). The library (and RFC 1035 5.1 as it reads it) takes a backslash as a \DDD
// escape only when three digits follow; with one or two digits and then anything else (a label
// separator, the end of the name, a letter) it is the escape of the single next octet. A scanner
// that steps over "backslash digit" as four octets swallows what follows. gen.SpellLabel never
// writes that form (it refuses \c for digits to stay clear of the three-digit reading), and the
// comparison helpers only ever got the one spelling the library's own printer emits.
//
// spellStyled writes a label with one spelling style per octet value: a pure function of seed and
// of the ASCII-case-folded octet. With free == false a letter is only written raw or as \c, so a
// label gets - in any letter case - the same text up to letter case; with free == true a letter
// may also be \DDD (`\097` and `\065` are one label under case folding but two texts).

const (
	findMixed    = "compare-mixed-spelling" // one label in two spellings compares unequal
	findPrevRoot = "prevlabel-root"         // PrevLabel(".", 1) reports a label start
)

const (
	stRaw   = iota
	stChar  // \c
	stDDD   // \DDD
	stShort // \d: the \c form of a digit
)

func mix64(x uint64) uint64 {
	x += 0x9e3779b97f4a7c15
	x = (x ^ x>>30) * 0xbf58476d1ce4e5b9
	x = (x ^ x>>27) * 0x94d049bb133111eb
	return x ^ x>>31
}

func isDig(b byte) bool    { return b >= '0' && b <= '9' }
func isLetter(b byte) bool { return b >= 'a' && b <= 'z' || b >= 'A' && b <= 'Z' }

// the characters the library's printer writes with a backslash in names
func isSpecial(b byte) bool { return strings.IndexByte(`. '@;()"\`, b) >= 0 }

func octetStyle(b byte, seed uint64, free bool) int {
	f := b
	if f >= 'A' && f <= 'Z' {
		f += 32
	}
	k := mix64(seed^mix64(uint64(f)+1)) >> 7
	switch {
	case b < 0x20 || b > 0x7e:
		return stDDD
	case isSpecial(b):
		return []int{stChar, stChar, stDDD}[k%3]
	case isDig(b):
		return []int{stRaw, stShort, stShort, stDDD}[k%4]
	case isLetter(b):
		if free {
			return []int{stRaw, stRaw, stChar, stDDD}[k%4]
		}
		return []int{stRaw, stRaw, stChar}[k%3]
	default:
		return []int{stRaw, stRaw, stChar, stDDD}[k%4]
	}
}

func spellStyled(l []byte, seed uint64, free bool) string {
	rest := ""
	for i := len(l) - 1; i >= 0; i-- {
		b := l[i]
		st := octetStyle(b, seed, free)
		if (st == stShort || st == stChar && isDig(b)) && len(rest) >= 2 && isDig(rest[0]) && isDig(rest[1]) {
			st = stDDD // two raw digits follow: backslash-digit would be read as \DDD
		}
		switch st {
		case stRaw:
			rest = string(b) + rest
		case stChar, stShort:
			rest = `\` + string(b) + rest
		default:
			rest = fmt.Sprintf("\\%03d", b) + rest
		}
	}
	return rest
}

func spellNameStyled(n wm.Name, seed uint64, free bool) []string {
	out := []string{}
	for _, l := range n {
		out = append(out, spellStyled(l, seed, free))
	}
	return out
}

// hasShortDigitEscape: the text contains a backslash (itself not escaped) followed by a digit
// and fewer than two further digits
func hasShortDigitEscape(s string) bool {
	for i := 0; i < len(s); i++ {
		if s[i] != '\\' {
			continue
		}
		if i+3 < len(s) && isDig(s[i+1]) && isDig(s[i+2]) && isDig(s[i+3]) {
			i += 3
			continue
		}
		if i+1 < len(s) && isDig(s[i+1]) {
			return true
		}
		i++
	}
	return false
}

// digitRichName draws 1..maxLabs short labels over {digits, a, A, b, '.', '\'}: after spelling,
// short escapes of digits stand next to separators, to the end, to escaped dots and backslashes
func digitRichName(t *rapid.T, maxLabs int) wm.Name {
	const al = "1290aAb.\\17"
	var n wm.Name
	for i, k := 0, rapid.IntRange(1, maxLabs).Draw(t, "drlabs"); i < k; i++ {
		l := make([]byte, rapid.IntRange(1, 3).Draw(t, "drlen"))
		for j := range l {
			l[j] = al[rapid.IntRange(0, len(al)-1).Draw(t, "droct")]
		}
		n = append(n, l)
	}
	return n
}

// genSpelledPair: pairs as in genPair (identical, case-flipped, shared suffix, unrelated), both
// names written with the per-octet styles of one seed (so a shared label has one text up to
// letter case); a quarter of the pairs spells the second name with another seed and freely -
// the class "one label in two spellings", left out while the known finding is listed
func genSpelledPair(t *rapid.T) pairCase {
	o := gen.NameOpts{MaxLabs: 5, MaxLabel: 6}
	var a wm.Name
	rich := rapid.Bool().Draw(t, "digitrich")
	if rich {
		a = digitRichName(t, 4)
	} else {
		a = gen.Name(t, o)
	}
	var b wm.Name
	switch rapid.IntRange(0, 5).Draw(t, "rel") {
	case 3:
		b = affixPair(t, a) // a piece or an extension of one label of a in front of the labels behind it
	case 0:
		if rich {
			b = digitRichName(t, 4)
		} else {
			b = gen.Name(t, o)
		}
	case 1:
		b = a.Clone()
	case 2:
		b = gen.FlipCase(t, a)
	default:
		if rich {
			b = digitRichName(t, 2)
		} else {
			b = gen.Name(t, gen.NameOpts{MaxLabs: 3, MaxLabel: 6})
		}
		cut := rapid.IntRange(0, len(a)).Draw(t, "cut")
		tail := wm.Name(a[cut:])
		if rapid.Bool().Draw(t, "flip") {
			tail = gen.FlipCase(t, tail)
		}
		b = append(b, tail.Clone()...)
	}
	seed := rapid.Uint64().Draw(t, "style")
	c := pairCase{Spelled: true, FQ: rapid.Bool().Draw(t, "fq")}
	c.TA = spellNameStyled(a, seed, false)
	c.TB = spellNameStyled(b, seed, false)
	if rapid.IntRange(0, 3).Draw(t, "twospellings") == 0 {
		tb := spellNameStyled(b, rapid.Uint64().Draw(t, "style2"), true)
		if mixedSpelling(c.TA, tb, commonSuffix(a, b)) && pbt.Known(findMixed) {
			pbt.Excluded(findMixed) // keep the one-seed spelling
		} else {
			c.TB = tb
		}
	}
	return c
}

// pairUnitsSpelled: the unit alphabet of structure-exhaustive without the raw 8-bit letter
var pairUnitsSpelled = []string{"a", "A", "1", `\\`, `\.`, `\065`, `\046`, `\000`, `\1`}

// eachSpelledPair: every name p of at most maxUnits units against every name c made of a head
// (nothing, or any name of at most headUnits units) in front of the last k labels of p, for every
// k from 0 to all of them - so every pair of small names (k = 0) and every way of sharing a
// suffix, in every spelling of the alphabet; both names qualified, and both not. checkPair tests
// both directions. Pairs of the class "one label in two spellings" are left out while the known
// finding is listed.
func eachSpelledPair(units []string, maxUnits, headUnits int) func(emit func(pairCase)) {
	return func(emit func(pairCase)) {
		type nm struct {
			t    []string
			wire wm.Name
		}
		collect := func(max int) []nm {
			out := []nm{{}} // no label at all: the root / the empty head
			eachSmallNameOver(units, max, func(c structCase) {
				if c.FQ {
					return // label sequences only; the qualification is chosen below
				}
				if w, ok := unescLabels(c.Spelled); ok {
					out = append(out, nm{c.Spelled, w})
				}
			})
			return out
		}
		names, heads := collect(maxUnits), collect(headUnits)
		known := pbt.Known(findMixed)
		for _, p := range names {
			for k := 0; k <= len(p.t); k++ {
				for _, h := range heads {
					ct := append(append([]string{}, h.t...), p.t[len(p.t)-k:]...)
					cw := append(append(wm.Name{}, h.wire...), p.wire[len(p.wire)-k:]...)
					if known && mixedSpelling(p.t, ct, commonSuffix(p.wire, cw)) {
						pbt.Excluded(findMixed)
						continue
					}
					emit(pairCase{Spelled: true, TA: p.t, TB: ct, FQ: true})
					if len(p.t) > 0 && len(ct) > 0 {
						emit(pairCase{Spelled: true, TA: p.t, TB: ct, FQ: false})
					}
				}
			}
		}
	}
}

// genSpelledOrigin: genOrigin with the names in any legal spelling
func genSpelledOrigin(t *rapid.T) originCase {
	o := gen.NameOpts{MaxLabs: 4, MaxLabel: 6}
	var rel, org wm.Name
	if rapid.Bool().Draw(t, "digitrich") {
		rel, org = digitRichName(t, 3), digitRichName(t, 3)
		if rapid.IntRange(0, 4).Draw(t, "rootorigin") == 0 {
			org = wm.Name{}
		}
	} else {
		rel = gen.Name(t, o)
		if len(rel) == 0 {
			rel = wm.Name{gen.Label(t, o)}
		}
		org = gen.Name(t, o)
	}
	if rapid.IntRange(0, 3).Draw(t, "samelast") == 0 && len(org) > 0 {
		rel = append(rel, gen.FlipCase(t, wm.Name(org[:1]))...)
	}
	return originCase{Spelled: true, OriginFQ: rapid.Bool().Draw(t, "ofq"),
		TRel:  spellNameStyled(rel, rapid.Uint64().Draw(t, "stylerel"), true),
		TOrg:  spellNameStyled(org, rapid.Uint64().Draw(t, "styleorg"), true),
		TOrg2: spellNameStyled(org, rapid.Uint64().Draw(t, "styleorg2"), true)}
}

// quotedVsRaw: in one of the labels the two names share (counted from the right, by the wire
// labels) an octet is written as a backslash and the character itself in one name and raw in the
// other - `\a` against `a` or `A`, `\-` against `-`, `\1` against `1`: a character that needs no
// quoting is quoted (dot and backslash have no raw spelling). The two texts then agree again to the
// right of that character, one position apart.
func quotedVsRaw(ta, tb []string, shared int) bool {
	for i := 1; i <= shared; i++ {
		ua, oka := readUnits(ta[len(ta)-i])
		ub, okb := readUnits(tb[len(tb)-i])
		if !oka || !okb || len(ua) != len(ub) {
			continue
		}
		for j := range ua {
			if !ua[j].ddd && !ub[j].ddd && len(ua[j].text) != len(ub[j].text) {
				return true
			}
		}
	}
	return false
}

func init() {
	pbt.Register(pbt.Sub[pairCase]{Name: "compare-spelled", Weight: 60, Gen: genSpelledPair, Check: checkPair})
	pbt.Register(pbt.Sub[originCase]{Name: "origin-spelled", Weight: 30, Gen: genSpelledOrigin, Check: checkOrigin})
	pbt.RegisterEnum(pbt.Enum[pairCase]{Name: "compare-spelled-exhaustive-3", Tiers: "quick", Exhaustive: true,
		Each: eachSpelledPair(pairUnitsSpelled, 3, 2), Check: checkPair})
	pbt.RegisterEnum(pbt.Enum[pairCase]{Name: "compare-spelled-exhaustive-4", Tiers: "thorough", Exhaustive: true,
		Each: eachSpelledPair(pairUnitsSpelled, 4, 2), Check: checkPair})

	// Known findings (round 7, remarks of the breakers about the unchanged library).
	//
	// 1. One label in two spellings: the comparison helpers compare the presentation octets of
	// the labels (labels.go equal), so two texts of one wire label are different labels to them.
	pbt.Probe(findMixed, func() error {
		for _, p := range [][2]string{{`\a`, `a`}, {`\097`, `a`}, {`\065`, `a`}, {`\1`, `1`}} {
			if err := checkPair(pairCase{Spelled: true, FQ: true, TA: []string{p[0]}, TB: []string{p[1]}}); err != nil {
				return err
			}
		}
		return nil
	})
	// 3. The root name has no label, but PrevLabel(".", 1) answers (0, false): "the first label
	// from the right starts at offset 0".
	pbt.Probe(findPrevRoot, func() error {
		return checkStruct(structCase{FQ: true})
	})
}
