package c19

import (
	"verif/harness/pbt"
)

// The canonical form, unit by unit (round 9).
//
// "Making a name ... canonical changes nothing but appending the root and lower-casing ASCII
// letters." The yardstick of the whole statement is the wire label sequence of the name, and its
// alphabet names the unit `\065` - an upper-case A written in digits - next to `a` and `A`. So the
// ASCII letters of a name are the letter OCTETS of its labels, however they are written, and the
// canonical name has every one of them in lower case: CanonicalName(`\065.`) must denote the label
// "a". Lower-casing the presentation text alone leaves the digits of `\065` as they are.
//
// The oracle reads the name and its canonical form into units (a raw octet, `\c`, `\DDD`, or an
// unescaped dot = label separator) with a reader of its own and compares them position by position:
//
//   - the same number of units, separators where separators were (so the same number of labels of
//     the same lengths, and exactly one dot more at the end when the name was not qualified),
//   - every unit denotes the lower-cased octet of the unit it came from,
//   - "nothing but": a unit is the lower-cased text of the unit it came from - except that a
//     letter written as \DDD (whose text holds no letter to lower-case) may come back in any
//     spelling of the lower-case letter (`\097`, `a`, `\a`); the statement does not choose one.

const findCanonDDD = "canonical-ddd-letter" // CanonicalName keeps \065: an upper-case letter on the wire

type textUnit struct {
	text string
	oct  byte
	sep  bool // an unescaped dot
	ddd  bool
}

// readUnits splits presentation text into units; ok is false for text that is not a valid name
// spelling (a backslash at the end, \DDD above 255)
func readUnits(s string) (out []textUnit, ok bool) {
	for i := 0; i < len(s); {
		switch {
		case s[i] == '.':
			out = append(out, textUnit{text: ".", oct: '.', sep: true})
			i++
		case s[i] != '\\':
			out = append(out, textUnit{text: s[i : i+1], oct: s[i]})
			i++
		case i+1 >= len(s):
			return nil, false
		case i+3 < len(s) && isDig(s[i+1]) && isDig(s[i+2]) && isDig(s[i+3]):
			v := int(s[i+1]-'0')*100 + int(s[i+2]-'0')*10 + int(s[i+3]-'0')
			if v > 255 {
				return nil, false
			}
			out = append(out, textUnit{text: s[i : i+4], oct: byte(v), ddd: true})
			i += 4
		default:
			out = append(out, textUnit{text: s[i : i+2], oct: s[i+1]})
			i += 2
		}
	}
	return out, true
}

func isUpper(b byte) bool { return b >= 'A' && b <= 'Z' }

// hasDDDUpper: the text holds an upper-case ASCII letter written as \DDD (\065 ... \090)
func hasDDDUpper(s string) bool {
	us, _ := readUnits(s)
	for _, u := range us {
		if u.ddd && isUpper(u.oct) {
			return true
		}
	}
	return false
}

// checkCanonical compares got = CanonicalName(s) with qualified = s with the root appended.
// tolerateDDDUpper: the generator left the class "upper-case letter written as \DDD" out because
// the known finding canonical-ddd-letter is listed and still reproduces - such a unit may then
// also come back unchanged.
func checkCanonical(s, qualified, got string, tolerateDDDUpper bool) error {
	in, ok := readUnits(qualified)
	if !ok {
		return nil // outside the domain (generators never do this)
	}
	out, ok := readUnits(got)
	if !ok {
		return pbt.Errf("CanonicalName(%q)=%q is not a valid name", s, got)
	}
	if len(out) != len(in) {
		return pbt.Errf("CanonicalName(%q)=%q has %d units (octets and separators), want %d as in %q", s, got, len(out), len(in), qualified)
	}
	for i, u := range in {
		g := out[i]
		if u.sep != g.sep {
			return pbt.Errf("CanonicalName(%q)=%q: unit %d is %q, was %q - a label boundary moved", s, got, i, g.text, u.text)
		}
		if u.sep {
			continue
		}
		if tolerateDDDUpper && u.ddd && isUpper(u.oct) && g.text == u.text {
			continue
		}
		want := u.oct
		if isUpper(want) {
			want += 'a' - 'A'
		}
		if g.oct != want {
			return pbt.Errf("CanonicalName(%q)=%q: unit %d is %q = octet %#02x, want octet %#02x (%q lower-cased) - the canonical name denotes another label than the lower-cased one", s, got, i, g.text, g.oct, want, u.text)
		}
		if u.ddd && isLetter(u.oct) {
			continue // a letter in digits: any spelling of the lower-case letter
		}
		if g.text != lowerASCII(u.text) {
			return pbt.Errf("CanonicalName(%q)=%q: unit %d is %q, want %q - something else than the case of a letter changed", s, got, i, g.text, lowerASCII(u.text))
		}
	}
	return nil
}

func init() {
	// CanonicalName lower-cases the text; a capital written as \DDD stays a capital on the wire.
	pbt.Probe(findCanonDDD, func() error {
		for _, c := range []structCase{
			{Spelled: []string{`\065`}, FQ: true},
			{Spelled: []string{`x\090`, `\077iek`}, FQ: false},
		} {
			if err := checkStruct(c); err != nil {
				return err
			}
		}
		return nil
	})
}
