package refcrypto

import (
	"bytes"
	"encoding/base64"
	"encoding/binary"
	"encoding/hex"
	"strings"
	"testing"
	"time"
)

// Self-tests of the reference code against the worked examples printed in the RFCs. They do not
// involve the library under test.

func lab(s string) Labels {
	var n Labels
	for _, l := range strings.Split(strings.TrimSuffix(s, "."), ".") {
		if l != "" {
			n = append(n, []byte(l))
		}
	}
	return n
}

func b64(t *testing.T, s string) []byte {
	b, err := base64.StdEncoding.DecodeString(strings.Join(strings.Fields(s), ""))
	if err != nil {
		t.Fatal(err)
	}
	return b
}

func TestRFC4034KeyTagAndDS(t *testing.T) {
	key := b64(t, `AQOeiiR0GOMYkDshWoSKz9XzfwJr1AYtsmx3TGkJaNXVbfi/2pHm822aJ5iI9BMzNXxeYCmZ
		DRD99WYwYqUSdjMmmAphXdvxegXd/M5+X7OrzKBaMbCVdFLUUh6DhweJBjEVv5f2wwjM9XzcnOf+EPbtG9DMBmADjFDc2w/rljwvFw==`)
	rd := DNSKEYRdata(256, 3, 5, key)
	if got := KeyTag(rd); got != 60485 {
		t.Errorf("RFC 4034 5.4 key tag = %d, want 60485", got)
	}
	d, ok := DSDigest(lab("DSKEY.example.COM."), rd, DigestSHA1)
	if !ok || strings.ToUpper(hex.EncodeToString(d)) != "2BB183AF5F22588179A53B0A98631FAD1A292118" {
		t.Errorf("RFC 4034 5.4 DS = %x", d)
	}
	d, ok = DSDigest(lab("dskey.example.com."), rd, DigestSHA256)
	if !ok || strings.ToUpper(hex.EncodeToString(d)) != "D4B7D520E7BB5F0F67674A0CCEB1E3E0614B93C4F9E99B8383F6A1E4469DA50A" {
		t.Errorf("RFC 4509 2.3 DS = %x", d)
	}
}

func TestRFC5155Hashes(t *testing.T) {
	salt, _ := hex.DecodeString("aabbccdd")
	for name, want := range map[string]string{
		"example.":       "0p9mhaveqvm6t7vbl5lop2u3t2rp3tom",
		"a.example.":     "35mthgpgcu1qg68fab165klnsnk3dpvl",
		"ai.example.":    "gjeqe526plbf1g8mklp59enfd789njgi",
		"ns1.example.":   "2t7b4g4vsa5smi47k61mv5bv1a22bojr",
		"NS2.Example.":   "q04jkcevqvmu85r014c7dkba38o0ji5r",
		"w.example.":     "k8udemvp1j2f7eg6jebps17vp3n8i58h",
		"*.w.example.":   "r53bq7cc2uvmubfu5ocmm6pers9tk9en",
		"x.w.example.":   "b4um86eghhds6nea196smvmlo4ors995",
		"y.w.example.":   "ji6neoaepv8b5o6k4ev33abha8ht9fgc",
		"x.y.w.example.": "2vptu5timamqttgl4luu9kg21e0aor3s",
		"xx.example.":    "t644ebqk9bibcna874givr6joj62mlhv",
	} {
		if got := NSEC3Hash(lab(name), salt, 12); got != strings.ToUpper(want) {
			t.Errorf("RFC 5155 App. A H(%s) = %s, want %s", name, got, strings.ToUpper(want))
		}
	}
}

func ts(t *testing.T, s string) uint32 {
	x, err := time.Parse("20060102150405", s)
	if err != nil {
		t.Fatal(err)
	}
	return uint32(x.Unix())
}

// canonical signed data for an RRSIG over a single record (RFC 4034 3.1.8.1)
func rrsigData(typeCovered uint16, alg, labels uint8, ottl, exp, inc uint32, tag uint16, signer Labels, owner Labels, rdata []byte) []byte {
	var d []byte
	d = binary.BigEndian.AppendUint16(d, typeCovered)
	d = append(d, alg, labels)
	d = binary.BigEndian.AppendUint32(d, ottl)
	d = binary.BigEndian.AppendUint32(d, exp)
	d = binary.BigEndian.AppendUint32(d, inc)
	d = binary.BigEndian.AppendUint16(d, tag)
	d = append(d, signer.CanonWire()...)
	d = append(d, owner.CanonWire()...)
	d = binary.BigEndian.AppendUint16(d, typeCovered)
	d = binary.BigEndian.AppendUint16(d, 1)
	d = binary.BigEndian.AppendUint32(d, ottl)
	d = binary.BigEndian.AppendUint16(d, uint16(len(rdata)))
	return append(d, rdata...)
}

func TestRFC6605P256(t *testing.T) {
	key := b64(t, `GojIhhXUN/u4v54ZQqGSnyhWJwaubCvTmeexv7bR6edbkrSqQpF64cYbcB7wNcP+e+MAnLr+Wi9xMWyQLc8NAA==`)
	rd := DNSKEYRdata(257, 3, AlgECDSAP256, key)
	if got := KeyTag(rd); got != 55648 {
		t.Errorf("key tag %d want 55648", got)
	}
	d, _ := DSDigest(lab("example.net."), rd, DigestSHA256)
	if hex.EncodeToString(d) != "b4c8c1fe2e7477127b27115656ad6256f424625bf5c1e2770ce6d6e37df61d17" {
		t.Errorf("DS %x", d)
	}
	pub, err := ParseKeyOctets(AlgECDSAP256, key)
	if err != nil {
		t.Fatal(err)
	}
	sig := b64(t, `qx6wLYqmh+l9oCKTN6qIc+bw6ya+KJ8oMz0YP107epXAyGmt+3SNruPFKG7tZoLBLlUzGGus7ZwmwWep666VCw==`)
	data := rrsigData(1, AlgECDSAP256, 3, 3600, ts(t, "20100909100439"), ts(t, "20100812100439"), 55648,
		lab("example.net."), lab("www.example.net."), []byte{192, 0, 2, 1})
	if err := VerifySig(AlgECDSAP256, pub, data, sig); err != nil {
		t.Errorf("RFC 6605 6.1 RRSIG: %v", err)
	}
	data[len(data)-1] ^= 1
	if err := VerifySig(AlgECDSAP256, pub, data, sig); err == nil {
		t.Errorf("altered data verified")
	}
	data[len(data)-1] ^= 1
	padded := append(append([]byte{0}, sig[:32]...), append([]byte{0}, sig[32:]...)...)
	if err := VerifySig(AlgECDSAP256, pub, data, padded); err == nil {
		t.Errorf("zero-padded signature verified")
	}
}

func TestRFC6605P384DS(t *testing.T) {
	key := b64(t, `xKYaNhWdGOfJ+nPrL8/arkwf2EY3MDJ+SErKivBVSum1w/egsXvSADtNJhyem5RCOpgQ6K8X1DRSEkrbYQ+OB+v8/uX45NBwY8rp65F6Glur8I/mlVNgF6W/qTI37m40`)
	rd := DNSKEYRdata(257, 3, AlgECDSAP384, key)
	if got := KeyTag(rd); got != 10771 {
		t.Errorf("key tag %d want 10771", got)
	}
	d, _ := DSDigest(lab("example.net."), rd, DigestSHA384)
	if hex.EncodeToString(d) != "72d7b62976ce06438e9c0bf319013cf801f09ecc84b8d7e9495f27e305c6a9b0563a9b5f4d288405c3008a946df983d6" {
		t.Errorf("DS %x", d)
	}
	pub, err := ParseKeyOctets(AlgECDSAP384, key)
	if err != nil {
		t.Fatal(err)
	}
	sig := b64(t, `/L5hDKIvGDyI1fcARX3z65qrmPsVz73QD1Mr5CEqOiLP95hxQouuroGCeZOvzFaxsT8Glr74hbavRKayJNuydCuzWTSSPdz7wnqXL5bdcJzusdnI0RSMROxxwGipWcJm`)
	data := rrsigData(1, AlgECDSAP384, 3, 3600, ts(t, "20100909102025"), ts(t, "20100812102025"), 10771,
		lab("example.net."), lab("www.example.net."), []byte{192, 0, 2, 1})
	if err := VerifySig(AlgECDSAP384, pub, data, sig); err != nil {
		t.Errorf("RFC 6605 6.2 RRSIG: %v", err)
	}
}

func TestRFC8080Ed25519(t *testing.T) {
	key := b64(t, `l02Woi0iS8Aa25FQkUd9RMzZHJpBoRQwAQEX1SxZJA4=`)
	rd := DNSKEYRdata(257, 3, AlgEd25519, key)
	if got := KeyTag(rd); got != 3613 {
		t.Errorf("key tag %d want 3613", got)
	}
	d, _ := DSDigest(lab("example.com."), rd, DigestSHA256)
	if hex.EncodeToString(d) != "3aa5ab37efce57f737fc1627013fee07bdf241bd10f3b1964ab55c78e79a304b" {
		t.Errorf("DS %x", d)
	}
	pub, _ := ParseKeyOctets(AlgEd25519, key)
	sig := b64(t, `oL9krJun7xfBOIWcGHi7mag5/hdZrKWw15jPGrHpjQeRAvTdszaPD+QLs3fx8A4M3e23mRZ9VrbpMngwcrqNAg==`)
	mx := append([]byte{0, 10}, lab("mail.example.com.").CanonWire()...)
	data := rrsigData(15, AlgEd25519, 2, 3600, 1440021600, 1438207200, 3613, lab("example.com."), lab("example.com."), mx)
	if err := VerifySig(AlgEd25519, pub, data, sig); err != nil {
		t.Errorf("RFC 8080 6.1 RRSIG: %v", err)
	}
}

func TestSignVerifyAllAlgorithms(t *testing.T) {
	data := []byte("the quick brown fox")
	for _, alg := range []uint8{AlgRSASHA1, AlgRSASHA1NSEC3, AlgRSASHA256, AlgRSASHA512} {
		k := RSAKey(int(alg))
		sig, err := SignSig(alg, k, data, nil)
		if err != nil {
			t.Fatal(err)
		}
		oct := RSAKeyOctets(&k.PublicKey)
		pub, err := ParseKeyOctets(alg, oct)
		if err != nil {
			t.Fatal(err)
		}
		if err := VerifySig(alg, pub, data, sig); err != nil {
			t.Errorf("alg %d: %v", alg, err)
		}
		sig[5] ^= 4
		if err := VerifySig(alg, pub, data, sig); err == nil {
			t.Errorf("alg %d: altered signature verified", alg)
		}
	}
	for _, alg := range []uint8{AlgECDSAP256, AlgECDSAP384} {
		k, err := ECDSAKeyFromSeed(alg, []byte{1, 2, 3, byte(alg)})
		if err != nil {
			t.Fatal(err)
		}
		s1, err := SignSig(alg, k, data, nil)
		if err != nil {
			t.Fatal(err)
		}
		s2, _ := SignSig(alg, k, data, nil)
		if !bytes.Equal(s1, s2) {
			t.Errorf("alg %d: nil rand is not deterministic", alg)
		}
		pub, err := ParseKeyOctets(alg, ECDSAKeyOctets(alg, &k.PublicKey))
		if err != nil {
			t.Fatal(err)
		}
		if err := VerifySig(alg, pub, data, s1); err != nil {
			t.Errorf("alg %d: %v", alg, err)
		}
		if err := VerifySig(alg, pub, data, s1[:len(s1)-1]); err == nil {
			t.Errorf("alg %d: short signature verified", alg)
		}
	}
	k := Ed25519KeyFromSeed([]byte("seed"))
	sig, _ := SignSig(AlgEd25519, k, data, nil)
	if err := VerifySig(AlgEd25519, PublicOf(k), data, sig); err != nil {
		t.Error(err)
	}
}

func TestWalkerAndTsigSelfConsistency(t *testing.T) {
	// header + one question "a.b." + one answer with a compressed owner + one additional A
	msg := []byte{0x12, 0x34, 0x81, 0x80, 0, 1, 0, 1, 0, 0, 0, 1}
	msg = append(msg, 1, 'a', 1, 'b', 0, 0, 1, 0, 1)
	msg = append(msg, 0xC0, 12, 0, 1, 0, 1, 0, 0, 0, 5, 0, 4, 1, 2, 3, 4)
	msg = append(msg, 1, 'x', 0xC0, 14, 0, 1, 0, 1, 0, 0, 0, 5, 0, 4, 5, 6, 7, 8)
	m, err := Walk(msg)
	if err != nil {
		t.Fatal(err)
	}
	if m.End != len(msg) || len(m.RRs) != 2 || !m.RRs[0].Owner.EqualFold(lab("A.B.")) || !m.RRs[1].Owner.EqualFold(lab("x.b.")) {
		t.Fatalf("walk: %+v", m)
	}
	secret := []byte("0123456789abcdef")
	ring := func(n Labels) ([]byte, bool) { return secret, n.EqualFold(lab("key.example.")) }
	for _, timers := range []bool{false, true} {
		for _, req := range [][]byte{nil, bytes.Repeat([]byte{7}, 32)} {
			tg := Tsig{KeyName: lab("Key.Example."), Class: ClassANY, Algorithm: lab("HMAC-sha256."), TimeSigned: 1700000000, Fudge: 300, OrigID: 0x9999}
			out, mac, err := TsigSign(msg, tg, secret, req, timers)
			if err != nil || len(mac) != 32 {
				t.Fatal(err)
			}
			if v := TsigVerify(out, ring, req, timers, 1700000300, false); !v.OK {
				t.Errorf("own signature rejected: %s", v.Why)
			}
			if v := TsigVerify(out, ring, req, timers, 1700000301, false); v.OK {
				t.Errorf("accepted outside the window")
			}
			if v := TsigVerify(out, ring, req, !timers, 1700000000, false); v.OK {
				t.Errorf("accepted with the other timers-only setting")
			}
			for bit := 0; bit < len(out)*8; bit++ {
				x := append([]byte(nil), out...)
				x[bit/8] ^= 1 << (bit % 8)
				v := TsigVerify(x, ring, req, timers, 1700000000, false)
				if v.OK && bit/8 >= 2 {
					// only letter-case bits of the key name / algorithm name may be accepted, and
					// in timers-only mode the unprotected CLASS / TTL / Error fields
					o := bit / 8
					c := out[o] | 0x20
					caseBit := bit%8 == 5 && c >= 'a' && c <= 'z' && o >= len(msg)
					unprot := timers && (o >= len(msg)+15 && o < len(msg)+21 || o >= len(out)-4 && o < len(out)-2)
					if !caseBit && !unprot {
						t.Errorf("timers=%v: flip of bit %d (octet %d) accepted", timers, bit, o)
					}
				}
			}
		}
	}
	// SIG(0)
	k := Ed25519KeyFromSeed([]byte("k"))
	s := Sig{Algorithm: AlgEd25519, Expiration: 2000, Inception: 1000, KeyTag: 7, Signer: lab("K.example.")}
	signed, err := Sig0Sign(msg, s, k, nil)
	if err != nil {
		t.Fatal(err)
	}
	if v := Sig0Verify(signed, lab("k.EXAMPLE."), AlgEd25519, PublicOf(k), 1500); !v.OK {
		t.Errorf("own SIG(0) rejected: %s", v.Why)
	}
	if v := Sig0Verify(signed, lab("k.example."), AlgEd25519, PublicOf(k), 2001); v.OK {
		t.Errorf("SIG(0) accepted after expiration")
	}
}

func TestNonceSigner(t *testing.T) {
	data := []byte("short r")
	for _, alg := range []uint8{AlgECDSAP256, AlgECDSAP384} {
		key, _ := ECDSAKeyFromSeed(alg, []byte{9, 9})
		for i := 0; i < ShortXCount(alg); i++ {
			k := ShortXNonce(alg, i)
			h, _ := hashFor(alg)
			der, err := NonceSigner{key, k}.Sign(nil, digest(h, data), h)
			if err != nil {
				t.Fatal(err)
			}
			r, s, err := parseDERSig(der)
			if err != nil {
				t.Fatal(err)
			}
			_, n := curveFor(alg)
			if n-len(r.Bytes()) < 2 {
				t.Errorf("alg %d nonce %d: r has %d leading zero octets, want >= 2", alg, i, n-len(r.Bytes()))
			}
			if err := VerifySig(alg, &key.PublicKey, data, append(fixed(r, n), fixed(s, n)...)); err != nil {
				t.Errorf("alg %d nonce %d: %v", alg, i, err)
			}
		}
	}
}
