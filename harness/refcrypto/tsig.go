package refcrypto

import (
	"crypto/hmac"
	"crypto/sha1"
	"crypto/sha256"
	"crypto/sha512"
	"encoding/binary"
	"errors"
	"fmt"
	"hash"
)

const (
	TypeTSIG = 250
	TypeSIG  = 24
	ClassANY = 255
)

// Tsig is the content of a TSIG record (RFC 8945 4.2).
type Tsig struct {
	KeyName    Labels // owner name, case as on the wire
	Class      uint16 // MUST be ANY
	TTL        uint32 // MUST be 0
	Algorithm  Labels // case as on the wire
	TimeSigned uint64 // 48 bits
	Fudge      uint16
	MAC        []byte
	OrigID     uint16
	Error      uint16
	OtherData  []byte
	// OtherLenOverride, when non-nil, is the Other Len value to put on the wire / into the digest
	// instead of len(OtherData). Only the lenient reading of ParseTsig sets it (a record whose
	// RDATA stops right after a non-zero Other Len).
	OtherLenOverride *uint16
}

func (t *Tsig) otherLen() uint16 {
	if t.OtherLenOverride != nil {
		return *t.OtherLenOverride
	}
	return uint16(len(t.OtherData))
}

func appendU48(b []byte, v uint64) []byte {
	return append(b, byte(v>>40), byte(v>>32), byte(v>>24), byte(v>>16), byte(v>>8), byte(v))
}

// Rdata is the TSIG RDATA: Algorithm Name | Time Signed | Fudge | MAC Size | MAC | Original ID |
// Error | Other Len | Other Data. The algorithm name is written uncompressed, case preserved.
func (t *Tsig) Rdata() []byte {
	b := t.Algorithm.Wire()
	b = appendU48(b, t.TimeSigned)
	b = binary.BigEndian.AppendUint16(b, t.Fudge)
	b = binary.BigEndian.AppendUint16(b, uint16(len(t.MAC)))
	b = append(b, t.MAC...)
	b = binary.BigEndian.AppendUint16(b, t.OrigID)
	b = binary.BigEndian.AppendUint16(b, t.Error)
	b = binary.BigEndian.AppendUint16(b, t.otherLen())
	return append(b, t.OtherData...)
}

// AppendTo returns msg + the TSIG record as one more additional record (ARCOUNT raised by one).
// The input is not modified.
func (t *Tsig) AppendTo(msg []byte) []byte {
	out := AppendRR(append([]byte(nil), msg...), t.KeyName, TypeTSIG, t.Class, t.TTL, t.Rdata())
	SetARCount(out, ARCount(msg)+1)
	return out
}

// ParseTsig reads the TSIG record located at rr. With lenient false the RDATA must consist of
// exactly the fields of RFC 8945 4.2. With lenient true an RDATA that stops after Original ID or
// after Error is read with the missing trailing fields as zero, and an RDATA that stops right
// after a non-zero Other Len is read as having that Other Len and no Other Data (used only to
// classify what a decoder that stops at field boundaries saw; never as the reference verdict).
func ParseTsig(msg []byte, rr RR, lenient bool) (*Tsig, error) {
	if rr.Type != TypeTSIG {
		return nil, errors.New("ref: not a TSIG record")
	}
	t := &Tsig{KeyName: rr.Owner, Class: rr.Class, TTL: rr.TTL}
	bad := errors.New("ref: malformed TSIG RDATA")
	alg, off, err := ReadName(msg[:rr.End], rr.RData)
	if err != nil {
		return nil, err
	}
	t.Algorithm = alg
	need := func(n int) bool { return off+n <= rr.End }
	if !need(10) {
		return nil, bad
	}
	t.TimeSigned = uint64(binary.BigEndian.Uint16(msg[off:]))<<32 | uint64(binary.BigEndian.Uint32(msg[off+2:]))
	t.Fudge = binary.BigEndian.Uint16(msg[off+6:])
	ms := int(binary.BigEndian.Uint16(msg[off+8:]))
	off += 10
	if !need(ms + 2) {
		return nil, bad
	}
	t.MAC = append([]byte(nil), msg[off:off+ms]...)
	off += ms
	t.OrigID = binary.BigEndian.Uint16(msg[off:])
	off += 2
	if lenient && off == rr.End {
		return t, nil
	}
	if !need(2) {
		return nil, bad
	}
	t.Error = binary.BigEndian.Uint16(msg[off:])
	off += 2
	if lenient && off == rr.End {
		return t, nil
	}
	if !need(2) {
		return nil, bad
	}
	ol := int(binary.BigEndian.Uint16(msg[off:]))
	off += 2
	if lenient && off == rr.End && ol > 0 {
		v := uint16(ol)
		t.OtherLenOverride = &v
		return t, nil
	}
	if !need(ol) {
		return nil, bad
	}
	t.OtherData = append([]byte(nil), msg[off:off+ol]...)
	off += ol
	if off != rr.End {
		return nil, bad
	}
	return t, nil
}

// TsigDigestInput is the octet string that is MACed (RFC 8945 4.3):
//
//	4.3.1 request MAC (responses only): 2-octet length + MAC of the request (or the prior MAC
//	      of a multi-message stream, 5.3.1)
//	4.3.2 the DNS message without the TSIG record, ARCOUNT not counting it, ID = original ID
//	4.3.3 TSIG variables: NAME (canonical wire), CLASS, TTL, Algorithm Name (canonical wire),
//	      Time Signed, Fudge, Error, Other Len, Other Data
//	5.3.1 for the second and later messages of a stream: only Time Signed and Fudge
//
// msgWithoutTsig must already carry the reduced ARCOUNT; the original ID is written by this
// function (on a copy).
func TsigDigestInput(reqMAC []byte, msgWithoutTsig []byte, t *Tsig, timersOnly bool) []byte {
	var d []byte
	if len(reqMAC) > 0 {
		d = binary.BigEndian.AppendUint16(d, uint16(len(reqMAC)))
		d = append(d, reqMAC...)
	}
	m := append([]byte(nil), msgWithoutTsig...)
	SetID(m, t.OrigID)
	d = append(d, m...)
	if timersOnly {
		d = appendU48(d, t.TimeSigned)
		return binary.BigEndian.AppendUint16(d, t.Fudge)
	}
	d = append(d, t.KeyName.CanonWire()...)
	d = binary.BigEndian.AppendUint16(d, t.Class)
	d = binary.BigEndian.AppendUint32(d, t.TTL)
	d = append(d, t.Algorithm.CanonWire()...)
	d = appendU48(d, t.TimeSigned)
	d = binary.BigEndian.AppendUint16(d, t.Fudge)
	d = binary.BigEndian.AppendUint16(d, t.Error)
	d = binary.BigEndian.AppendUint16(d, t.otherLen())
	return append(d, t.OtherData...)
}

// TsigHash returns the hash of an HMAC algorithm name (RFC 8945 section 6), nil if the name is
// not one of hmac-sha1/224/256/384/512. (hmac-md5 is deliberately not supported.)
func TsigHash(alg Labels) func() hash.Hash {
	if len(alg) != 1 {
		return nil
	}
	switch string(LowerASCII(alg[0])) {
	case "hmac-sha1":
		return sha1.New
	case "hmac-sha224":
		return sha256.New224
	case "hmac-sha256":
		return sha256.New
	case "hmac-sha384":
		return sha512.New384
	case "hmac-sha512":
		return sha512.New
	}
	return nil
}

// TsigMAC computes the full-length HMAC.
func TsigMAC(alg Labels, secret, data []byte) ([]byte, error) {
	h := TsigHash(alg)
	if h == nil {
		return nil, fmt.Errorf("ref: unsupported TSIG algorithm")
	}
	m := hmac.New(h, secret)
	m.Write(data)
	return m.Sum(nil), nil
}

// TsigSign computes the MAC for t over msg (a message without TSIG) and returns msg + TSIG.
// The header ID of the output is left as it is in msg (it may differ from t.OrigID).
func TsigSign(msg []byte, t Tsig, secret, reqMAC []byte, timersOnly bool) (out []byte, mac []byte, err error) {
	mac, err = TsigMAC(t.Algorithm, secret, TsigDigestInput(reqMAC, msg, &t, timersOnly))
	if err != nil {
		return nil, nil, err
	}
	t.MAC = mac
	return t.AppendTo(msg), mac, nil
}

// TsigVerdict is the outcome of the reference verifier.
type TsigVerdict struct {
	OK   bool
	Why  string // reason for rejection
	Tsig *Tsig  // the parsed record when parsing got that far
}

// TsigVerify is the reference verifier: msg is accepted iff it parses, its last additional
// record is the only TSIG record of the message, the RDATA is well-formed, a secret is known for
// the key name, the MAC equals the full-length RFC 8945 HMAC, and |now - Time Signed| <= Fudge.
// CLASS and TTL take part exactly as RFC 8945 4.3.3 says: as received, inside the TSIG variables
// (so a CLASS other than ANY breaks the MAC of a signer that followed the RFC; in timers-only
// mode the variables are not part of the digest and are therefore not checked). secretFor maps a key name to its secret; octets after the last
// record are ignored. lenient selects the field-boundary reading of ParseTsig.
func TsigVerify(msg []byte, secretFor func(Labels) ([]byte, bool), reqMAC []byte, timersOnly bool, now uint64, lenient bool) TsigVerdict {
	stripped, last, m, err := StripLast(msg)
	if err != nil {
		return TsigVerdict{Why: err.Error()}
	}
	for i, rr := range m.RRs {
		if rr.Type == TypeTSIG && i != len(m.RRs)-1 {
			return TsigVerdict{Why: "TSIG record in a position other than last"}
		}
	}
	if last.Type != TypeTSIG {
		return TsigVerdict{Why: "last additional record is not a TSIG"}
	}
	t, err := ParseTsig(msg, last, lenient)
	if err != nil {
		return TsigVerdict{Why: err.Error()}
	}
	secret, ok := secretFor(t.KeyName)
	if !ok {
		return TsigVerdict{Why: "unknown key", Tsig: t}
	}
	want, err := TsigMAC(t.Algorithm, secret, TsigDigestInput(reqMAC, stripped, t, timersOnly))
	if err != nil {
		return TsigVerdict{Why: err.Error(), Tsig: t}
	}
	if !hmac.Equal(want, t.MAC) {
		return TsigVerdict{Why: "MAC mismatch", Tsig: t}
	}
	d := now - t.TimeSigned
	if now < t.TimeSigned {
		d = t.TimeSigned - now
	}
	if d > uint64(t.Fudge) {
		return TsigVerdict{Why: "outside the fudge window", Tsig: t}
	}
	return TsigVerdict{OK: true, Tsig: t}
}
