// Package refcrypto holds the reference cryptography of the harness: key tags, DS digests, NSEC3
// hashes, DNSSEC public-key formats, signature schemes, and the TSIG (RFC 8945) and SIG(0)
// (RFC 2931) digests, all written from the RFC texts with the Go standard library only.
//
// Nothing in this package imports or calls github.com/miekg/dns. It also carries a small
// independent wire walker (names with compression pointers, section/record boundaries) that is
// just enough to locate and strip the last additional record of a message.
package refcrypto

import (
	"encoding/binary"
	"errors"
	"fmt"
)

// ---------------------------------------------------------------------------------------------
// names

// Labels is a domain name as wire labels, root excluded (the root name is the empty sequence).
type Labels [][]byte

// LowerASCII lower-cases A-Z only (RFC 4034 6.2 / RFC 4343).
func LowerASCII(b []byte) []byte {
	o := make([]byte, len(b))
	for i, c := range b {
		if c >= 'A' && c <= 'Z' {
			c += 0x20
		}
		o[i] = c
	}
	return o
}

// Wire is the uncompressed wire form of the name.
func (n Labels) Wire() []byte {
	var out []byte
	for _, l := range n {
		out = append(out, byte(len(l)))
		out = append(out, l...)
	}
	return append(out, 0)
}

// CanonWire is the uncompressed wire form with ASCII letters lower-cased.
func (n Labels) CanonWire() []byte {
	var out []byte
	for _, l := range n {
		out = append(out, byte(len(l)))
		out = append(out, LowerASCII(l)...)
	}
	return append(out, 0)
}

// EqualFold compares two names ignoring ASCII letter case.
func (n Labels) EqualFold(o Labels) bool {
	if len(n) != len(o) {
		return false
	}
	for i := range n {
		if string(LowerASCII(n[i])) != string(LowerASCII(o[i])) {
			return false
		}
	}
	return true
}

// ParseWireName splits an uncompressed wire name (no pointers allowed) into labels.
func ParseWireName(w []byte) (Labels, error) {
	n, next, err := ReadName(w, 0)
	if err != nil {
		return nil, err
	}
	if next != len(w) {
		return nil, errors.New("trailing octets after name")
	}
	return n, nil
}

var (
	ErrShort   = errors.New("ref: message too short")
	ErrName    = errors.New("ref: malformed name")
	ErrPointer = errors.New("ref: bad compression pointer")
)

// ReadName reads the name that starts at off, following compression pointers (RFC 1035 4.1.4).
// next is the offset just after the name as it is stored at off (i.e. after the first pointer
// if one is used). Label types 01 and 10 are errors; the total length is limited to 255 octets
// and the number of pointers to 127 (a longer chain cannot denote a name of at most 255 octets
// unless it loops).
func ReadName(msg []byte, off int) (n Labels, next int, err error) {
	ptrs := 0
	total := 1
	next = -1
	for {
		if off >= len(msg) {
			return nil, 0, ErrShort
		}
		c := int(msg[off])
		switch c & 0xC0 {
		case 0x00:
			if c == 0 {
				if next < 0 {
					next = off + 1
				}
				return n, next, nil
			}
			if off+1+c > len(msg) {
				return nil, 0, ErrShort
			}
			total += 1 + c
			if total > 255 {
				return nil, 0, ErrName
			}
			n = append(n, append([]byte(nil), msg[off+1:off+1+c]...))
			off += 1 + c
		case 0xC0:
			if off+2 > len(msg) {
				return nil, 0, ErrShort
			}
			p := (c&0x3F)<<8 | int(msg[off+1])
			if next < 0 {
				next = off + 2
			}
			ptrs++
			if ptrs > 127 || p >= len(msg) {
				return nil, 0, ErrPointer
			}
			off = p
		default:
			return nil, 0, ErrName
		}
	}
}

// ---------------------------------------------------------------------------------------------
// message walker

// RR locates one resource record inside a message buffer.
type RR struct {
	Start int // offset of the owner name
	Fixed int // offset of TYPE (CLASS at +2, TTL at +4, RDLENGTH at +8)
	RData int // offset of the RDATA
	End   int // offset after the RDATA
	Owner Labels
	Type  uint16
	Class uint16
	TTL   uint32
}

// Question locates one entry of the question section.
type Question struct {
	Start, End int
	Name       Labels
	Type       uint16
	Class      uint16
}

// Map is the section/record map of a message.
type Map struct {
	ID             uint16
	Flags          uint16
	QD, AN, NS, AR int
	Questions      []Question
	RRs            []RR // answer, authority, additional records in wire order
	End            int  // offset after the last record; octets beyond it are outside every record
}

// Walk parses the header and locates every question and record. RDATA is not interpreted.
func Walk(msg []byte) (*Map, error) {
	if len(msg) < 12 {
		return nil, ErrShort
	}
	m := &Map{
		ID:    binary.BigEndian.Uint16(msg[0:]),
		Flags: binary.BigEndian.Uint16(msg[2:]),
		QD:    int(binary.BigEndian.Uint16(msg[4:])),
		AN:    int(binary.BigEndian.Uint16(msg[6:])),
		NS:    int(binary.BigEndian.Uint16(msg[8:])),
		AR:    int(binary.BigEndian.Uint16(msg[10:])),
	}
	off := 12
	for i := 0; i < m.QD; i++ {
		n, next, err := ReadName(msg, off)
		if err != nil {
			return nil, fmt.Errorf("question %d: %w", i, err)
		}
		if next+4 > len(msg) {
			return nil, ErrShort
		}
		m.Questions = append(m.Questions, Question{Start: off, End: next + 4, Name: n,
			Type: binary.BigEndian.Uint16(msg[next:]), Class: binary.BigEndian.Uint16(msg[next+2:])})
		off = next + 4
	}
	for i := 0; i < m.AN+m.NS+m.AR; i++ {
		n, next, err := ReadName(msg, off)
		if err != nil {
			return nil, fmt.Errorf("record %d: %w", i, err)
		}
		if next+10 > len(msg) {
			return nil, ErrShort
		}
		rdlen := int(binary.BigEndian.Uint16(msg[next+8:]))
		if next+10+rdlen > len(msg) {
			return nil, ErrShort
		}
		m.RRs = append(m.RRs, RR{Start: off, Fixed: next, RData: next + 10, End: next + 10 + rdlen, Owner: n,
			Type:  binary.BigEndian.Uint16(msg[next:]),
			Class: binary.BigEndian.Uint16(msg[next+2:]),
			TTL:   binary.BigEndian.Uint32(msg[next+4:])})
		off = next + 10 + rdlen
	}
	m.End = off
	return m, nil
}

// Additional returns the records of the additional section.
func (m *Map) Additional() []RR { return m.RRs[m.AN+m.NS:] }

// LastAdditional returns the last record of the additional section.
func (m *Map) LastAdditional() (RR, bool) {
	if m.AR == 0 {
		return RR{}, false
	}
	return m.RRs[len(m.RRs)-1], true
}

// StripLast returns a copy of the message without its last additional record and with ARCOUNT
// reduced by one, together with the location of the removed record in the original buffer.
// Octets after the last record (if any) are dropped.
func StripLast(msg []byte) (stripped []byte, last RR, m *Map, err error) {
	m, err = Walk(msg)
	if err != nil {
		return nil, RR{}, nil, err
	}
	last, ok := m.LastAdditional()
	if !ok {
		return nil, RR{}, m, errors.New("ref: no additional record")
	}
	stripped = append([]byte(nil), msg[:last.Start]...)
	binary.BigEndian.PutUint16(stripped[10:], uint16(m.AR-1))
	return stripped, last, m, nil
}

// SetID overwrites the header ID in place.
func SetID(msg []byte, id uint16) { binary.BigEndian.PutUint16(msg[0:], id) }

// SetARCount overwrites the additional count in place.
func SetARCount(msg []byte, n uint16) { binary.BigEndian.PutUint16(msg[10:], n) }

// ARCount reads the additional count.
func ARCount(msg []byte) uint16 { return binary.BigEndian.Uint16(msg[10:]) }

// AppendRR appends an uncompressed record to a message buffer (the caller fixes up the count).
func AppendRR(msg []byte, owner Labels, typ, class uint16, ttl uint32, rdata []byte) []byte {
	msg = append(msg, owner.Wire()...)
	msg = binary.BigEndian.AppendUint16(msg, typ)
	msg = binary.BigEndian.AppendUint16(msg, class)
	msg = binary.BigEndian.AppendUint32(msg, ttl)
	msg = binary.BigEndian.AppendUint16(msg, uint16(len(rdata)))
	return append(msg, rdata...)
}
