package refcrypto

import (
	"crypto"
	"crypto/ecdsa"
	"crypto/ed25519"
	"crypto/elliptic"
	"crypto/rsa"
	"crypto/sha1"
	"crypto/sha256"
	"crypto/sha512"
	"encoding/binary"
	"errors"
	"fmt"
	"io"
	"math/big"
)

// DNSSEC algorithm numbers (IANA "DNS Security Algorithm Numbers").
const (
	AlgRSAMD5       = 1
	AlgRSASHA1      = 5
	AlgRSASHA1NSEC3 = 7
	AlgRSASHA256    = 8
	AlgRSASHA512    = 10
	AlgECDSAP256    = 13
	AlgECDSAP384    = 14
	AlgEd25519      = 15
)

// DS digest types (IANA "Delegation Signer (DS) Resource Record (RR) Type Digest Algorithms").
const (
	DigestSHA1   = 1 // RFC 4034
	DigestSHA256 = 2 // RFC 4509
	DigestGOST   = 3 // RFC 5933 (not computable with the standard library)
	DigestSHA384 = 4 // RFC 6605
)

// DNSKEYRdata is Flags | Protocol | Algorithm | Public Key (RFC 4034 2.1).
func DNSKEYRdata(flags uint16, protocol, algorithm uint8, key []byte) []byte {
	out := make([]byte, 0, 4+len(key))
	out = binary.BigEndian.AppendUint16(out, flags)
	out = append(out, protocol, algorithm)
	return append(out, key...)
}

// KeyTag is the key tag of RFC 4034 Appendix B over the DNSKEY RDATA (all algorithms except 1).
// It follows the reference C code: a 32-bit accumulator, octets at even offsets weighted by 256,
// folded once, masked to 16 bits.
func KeyTag(rdata []byte) uint16 {
	var ac uint64 // RFC: unsigned long, at least 32 bits; the sum of <= 65535 octets*256 fits easily
	for i, b := range rdata {
		if i&1 == 1 {
			ac += uint64(b)
		} else {
			ac += uint64(b) << 8
		}
	}
	ac += (ac >> 16) & 0xFFFF
	return uint16(ac & 0xFFFF)
}

// DSDigest is digest_algorithm(DNSKEY owner name | DNSKEY RDATA) of RFC 4034 5.1.4, the owner
// name in canonical (lower-cased, uncompressed) wire form. ok is false for digest types the
// standard library cannot compute.
func DSDigest(owner Labels, rdata []byte, digestType uint8) (digest []byte, ok bool) {
	in := append(owner.CanonWire(), rdata...)
	switch digestType {
	case DigestSHA1:
		s := sha1.Sum(in)
		return s[:], true
	case DigestSHA256:
		s := sha256.Sum256(in)
		return s[:], true
	case DigestSHA384:
		s := sha512.Sum384(in)
		return s[:], true
	}
	return nil, false
}

// NSEC3HashRaw is IH(salt, x, k) of RFC 5155 section 5 with x the canonical wire name:
// IH(salt,x,0) = H(x|salt), IH(salt,x,k) = H(IH(salt,x,k-1)|salt), H = SHA-1.
func NSEC3HashRaw(name Labels, salt []byte, iterations uint16) []byte {
	x := name.CanonWire()
	for k := 0; k <= int(iterations); k++ {
		s := sha1.Sum(append(x, salt...))
		x = s[:]
	}
	return x
}

const b32hex = "0123456789ABCDEFGHIJKLMNOPQRSTUV"

// Base32Hex is RFC 4648 section 7 "base32hex" without padding, upper case.
func Base32Hex(b []byte) string {
	var out []byte
	var acc uint32
	bits := 0
	for _, c := range b {
		acc = acc<<8 | uint32(c)
		bits += 8
		for bits >= 5 {
			out = append(out, b32hex[(acc>>(bits-5))&31])
			bits -= 5
		}
	}
	if bits > 0 {
		out = append(out, b32hex[(acc<<(5-bits))&31])
	}
	return string(out)
}

// NSEC3Hash is the upper-case unpadded base32hex text of NSEC3HashRaw.
func NSEC3Hash(name Labels, salt []byte, iterations uint16) string {
	return Base32Hex(NSEC3HashRaw(name, salt, iterations))
}

// ---------------------------------------------------------------------------------------------
// public key formats

// RSAKeyOctets is the RFC 3110 section 2 public key field: exponent length (1 octet, or 0 plus
// 2 octets when > 255), exponent, modulus; no leading zero octets.
func RSAKeyOctets(pub *rsa.PublicKey) []byte {
	e := big.NewInt(int64(pub.E)).Bytes()
	var out []byte
	if len(e) <= 255 {
		out = append(out, byte(len(e)))
	} else {
		out = append(out, 0, byte(len(e)>>8), byte(len(e)))
	}
	out = append(out, e...)
	return append(out, pub.N.Bytes()...)
}

// ParseRSAKeyOctets reads an RFC 3110 public key field.
func ParseRSAKeyOctets(k []byte) (*rsa.PublicKey, error) {
	if len(k) < 1 {
		return nil, errors.New("ref: short RSA key")
	}
	el, off := int(k[0]), 1
	if el == 0 {
		if len(k) < 3 {
			return nil, errors.New("ref: short RSA key")
		}
		el, off = int(k[1])<<8|int(k[2]), 3
	}
	if el == 0 || off+el >= len(k) {
		return nil, errors.New("ref: bad RSA exponent length")
	}
	e := new(big.Int).SetBytes(k[off : off+el])
	if !e.IsInt64() || e.Int64() > 1<<31-1 || e.Int64() < 2 {
		return nil, errors.New("ref: RSA exponent out of range for crypto/rsa")
	}
	n := new(big.Int).SetBytes(k[off+el:])
	return &rsa.PublicKey{N: n, E: int(e.Int64())}, nil
}

func curveFor(alg uint8) (elliptic.Curve, int) {
	switch alg {
	case AlgECDSAP256:
		return elliptic.P256(), 32
	case AlgECDSAP384:
		return elliptic.P384(), 48
	}
	return nil, 0
}

func fixed(x *big.Int, n int) []byte {
	out := make([]byte, n)
	x.FillBytes(out)
	return out
}

// ECDSAKeyOctets is Q = x | y, each coordinate a fixed-width big-endian integer (RFC 6605 4).
func ECDSAKeyOctets(alg uint8, pub *ecdsa.PublicKey) []byte {
	_, n := curveFor(alg)
	return append(fixed(pub.X, n), fixed(pub.Y, n)...)
}

// ParseECDSAKeyOctets reads x | y and checks the point is on the curve.
func ParseECDSAKeyOctets(alg uint8, k []byte) (*ecdsa.PublicKey, error) {
	c, n := curveFor(alg)
	if c == nil || len(k) != 2*n {
		return nil, errors.New("ref: bad ECDSA key length")
	}
	x, y := new(big.Int).SetBytes(k[:n]), new(big.Int).SetBytes(k[n:])
	if !c.IsOnCurve(x, y) {
		return nil, errors.New("ref: ECDSA point not on curve")
	}
	return &ecdsa.PublicKey{Curve: c, X: x, Y: y}, nil
}

// KeyOctets encodes a public key for the given algorithm.
func KeyOctets(alg uint8, pub crypto.PublicKey) ([]byte, error) {
	switch p := pub.(type) {
	case *rsa.PublicKey:
		return RSAKeyOctets(p), nil
	case *ecdsa.PublicKey:
		return ECDSAKeyOctets(alg, p), nil
	case ed25519.PublicKey:
		return append([]byte(nil), p...), nil // RFC 8080 3: the 32-octet public key as is
	}
	return nil, fmt.Errorf("ref: unsupported public key type %T", pub)
}

// ParseKeyOctets decodes the public key field of a DNSKEY/KEY record.
func ParseKeyOctets(alg uint8, k []byte) (crypto.PublicKey, error) {
	switch alg {
	case AlgRSASHA1, AlgRSASHA1NSEC3, AlgRSASHA256, AlgRSASHA512:
		return ParseRSAKeyOctets(k)
	case AlgECDSAP256, AlgECDSAP384:
		return ParseECDSAKeyOctets(alg, k)
	case AlgEd25519:
		if len(k) != ed25519.PublicKeySize {
			return nil, errors.New("ref: bad Ed25519 key length")
		}
		return ed25519.PublicKey(append([]byte(nil), k...)), nil
	}
	return nil, fmt.Errorf("ref: unsupported algorithm %d", alg)
}

// ---------------------------------------------------------------------------------------------
// signature schemes

func hashFor(alg uint8) (crypto.Hash, bool) {
	switch alg {
	case AlgRSASHA1, AlgRSASHA1NSEC3:
		return crypto.SHA1, true
	case AlgRSASHA256, AlgECDSAP256:
		return crypto.SHA256, true
	case AlgECDSAP384:
		return crypto.SHA384, true
	case AlgRSASHA512:
		return crypto.SHA512, true
	}
	return 0, false
}

func digest(h crypto.Hash, data []byte) []byte {
	x := h.New()
	x.Write(data)
	return x.Sum(nil)
}

// VerifySig verifies sig over data: RSASSA-PKCS1-v1_5 with SHA-1/256/512 (RFC 3110, 5702),
// ECDSA with the signature as fixed-width r | s of exactly 64 / 96 octets (RFC 6605 4),
// Ed25519 over the data itself with a 64-octet signature (RFC 8080 4).
func VerifySig(alg uint8, pub crypto.PublicKey, data, sig []byte) error {
	switch alg {
	case AlgRSASHA1, AlgRSASHA1NSEC3, AlgRSASHA256, AlgRSASHA512:
		p, ok := pub.(*rsa.PublicKey)
		if !ok {
			return errors.New("ref: key type does not fit algorithm")
		}
		h, _ := hashFor(alg)
		return rsa.VerifyPKCS1v15(p, h, digest(h, data), sig)
	case AlgECDSAP256, AlgECDSAP384:
		p, ok := pub.(*ecdsa.PublicKey)
		if !ok {
			return errors.New("ref: key type does not fit algorithm")
		}
		c, n := curveFor(alg)
		if p.Curve != c {
			return errors.New("ref: curve does not fit algorithm")
		}
		if len(sig) != 2*n {
			return fmt.Errorf("ref: ECDSA signature of %d octets, want exactly %d", len(sig), 2*n)
		}
		h, _ := hashFor(alg)
		r, s := new(big.Int).SetBytes(sig[:n]), new(big.Int).SetBytes(sig[n:])
		if !ecdsa.Verify(p, digest(h, data), r, s) {
			return errors.New("ref: ECDSA verification failed")
		}
		return nil
	case AlgEd25519:
		p, ok := pub.(ed25519.PublicKey)
		if !ok || len(p) != ed25519.PublicKeySize {
			return errors.New("ref: key type does not fit algorithm")
		}
		if len(sig) != ed25519.SignatureSize {
			return errors.New("ref: Ed25519 signature length")
		}
		if !ed25519.Verify(p, data, sig) {
			return errors.New("ref: Ed25519 verification failed")
		}
		return nil
	}
	return fmt.Errorf("ref: unsupported algorithm %d", alg)
}

// SignSig signs data. rnd is only used by ECDSA; nil selects deterministic nonces (RFC 6979).
func SignSig(alg uint8, priv crypto.PrivateKey, data []byte, rnd io.Reader) ([]byte, error) {
	switch alg {
	case AlgRSASHA1, AlgRSASHA1NSEC3, AlgRSASHA256, AlgRSASHA512:
		p, ok := priv.(*rsa.PrivateKey)
		if !ok {
			return nil, errors.New("ref: key type does not fit algorithm")
		}
		h, _ := hashFor(alg)
		return rsa.SignPKCS1v15(nil, p, h, digest(h, data))
	case AlgECDSAP256, AlgECDSAP384:
		p, ok := priv.(*ecdsa.PrivateKey)
		if !ok {
			return nil, errors.New("ref: key type does not fit algorithm")
		}
		c, n := curveFor(alg)
		if p.Curve != c {
			return nil, errors.New("ref: curve does not fit algorithm")
		}
		h, _ := hashFor(alg)
		der, err := p.Sign(rnd, digest(h, data), h)
		if err != nil {
			return nil, err
		}
		r, s, err := parseDERSig(der)
		if err != nil {
			return nil, err
		}
		return append(fixed(r, n), fixed(s, n)...), nil
	case AlgEd25519:
		p, ok := priv.(ed25519.PrivateKey)
		if !ok {
			return nil, errors.New("ref: key type does not fit algorithm")
		}
		return ed25519.Sign(p, data), nil
	}
	return nil, fmt.Errorf("ref: unsupported algorithm %d", alg)
}

// parseDERSig reads SEQUENCE { INTEGER r, INTEGER s } (short and long definite lengths).
func parseDERSig(der []byte) (r, s *big.Int, err error) {
	bad := errors.New("ref: bad DER signature")
	readLen := func(b []byte) (int, []byte, error) {
		if len(b) < 1 {
			return 0, nil, bad
		}
		if b[0] < 0x80 {
			return int(b[0]), b[1:], nil
		}
		n := int(b[0] & 0x7f)
		if n == 0 || n > 2 || len(b) < 1+n {
			return 0, nil, bad
		}
		l := 0
		for _, c := range b[1 : 1+n] {
			l = l<<8 | int(c)
		}
		return l, b[1+n:], nil
	}
	if len(der) < 2 || der[0] != 0x30 {
		return nil, nil, bad
	}
	l, rest, err := readLen(der[1:])
	if err != nil || l != len(rest) {
		return nil, nil, bad
	}
	readInt := func(b []byte) (*big.Int, []byte, error) {
		if len(b) < 2 || b[0] != 0x02 {
			return nil, nil, bad
		}
		l, rest, err := readLen(b[1:])
		if err != nil || l > len(rest) || l == 0 {
			return nil, nil, bad
		}
		return new(big.Int).SetBytes(rest[:l]), rest[l:], nil
	}
	r, rest, err = readInt(rest)
	if err != nil {
		return nil, nil, err
	}
	s, rest, err = readInt(rest)
	if err != nil || len(rest) != 0 {
		return nil, nil, bad
	}
	return r, s, nil
}

// PublicOf returns the public half of a private key.
func PublicOf(priv crypto.PrivateKey) crypto.PublicKey {
	switch p := priv.(type) {
	case *rsa.PrivateKey:
		return &p.PublicKey
	case *ecdsa.PrivateKey:
		return &p.PublicKey
	case ed25519.PrivateKey:
		return p.Public().(ed25519.PublicKey)
	}
	return nil
}

// DetSigner wraps a private key as a crypto.Signer that ignores the random source it is handed:
// ECDSA nonces come from RFC 6979, RSA PKCS#1 v1.5 and Ed25519 are deterministic anyway. The
// checks use it so that a saved case reproduces the same signed octets.
type DetSigner struct{ Key crypto.PrivateKey }

func (d DetSigner) Public() crypto.PublicKey { return PublicOf(d.Key) }

func (d DetSigner) Sign(_ io.Reader, dig []byte, opts crypto.SignerOpts) ([]byte, error) {
	switch p := d.Key.(type) {
	case *rsa.PrivateKey:
		return rsa.SignPKCS1v15(nil, p, opts.HashFunc(), dig)
	case *ecdsa.PrivateKey:
		return p.Sign(nil, dig, opts)
	case ed25519.PrivateKey:
		return p.Sign(nil, dig, opts)
	}
	return nil, errors.New("ref: unsupported private key")
}

// ---------------------------------------------------------------------------------------------
// deterministic key material

// ECDSAKeyFromSeed derives a private key from seed octets: d = (seed mod (n-1)) + 1.
func ECDSAKeyFromSeed(alg uint8, seed []byte) (*ecdsa.PrivateKey, error) {
	c, n := curveFor(alg)
	if c == nil {
		return nil, errors.New("ref: not an ECDSA algorithm")
	}
	order := c.Params().N
	d := new(big.Int).SetBytes(seed)
	d.Mod(d, new(big.Int).Sub(order, big.NewInt(1)))
	d.Add(d, big.NewInt(1))
	return ecdsa.ParseRawPrivateKey(c, fixed(d, n))
}

// Ed25519KeyFromSeed derives a private key from seed octets (hashed to 32 octets).
func Ed25519KeyFromSeed(seed []byte) ed25519.PrivateKey {
	s := sha256.Sum256(seed)
	return ed25519.NewKeyFromSeed(s[:])
}

// StrictBase64 decodes RFC 4648 section 4 base64 the strict way: only the 64 alphabet characters,
// length a multiple of four, '=' only as the last one or two characters of the final quantum.
// Anything else (blanks, line breaks, URL-safe characters, junk after the padding, missing
// padding) is an error. Non-zero pad bits are tolerated (RFC 4648 3.5 lets a decoder choose).
func StrictBase64(s string) ([]byte, error) {
	const al = "ABCDEFGHIJKLMNOPQRSTUVWXYZabcdefghijklmnopqrstuvwxyz0123456789+/"
	if len(s)%4 != 0 {
		return nil, errors.New("ref: base64 length is not a multiple of four")
	}
	var out []byte
	for i := 0; i < len(s); i += 4 {
		var v [4]int
		pad := 0
		for j := 0; j < 4; j++ {
			c := s[i+j]
			if c == '=' {
				if i+4 != len(s) || j < 2 {
					return nil, errors.New("ref: misplaced base64 padding")
				}
				pad++
				continue
			}
			if pad > 0 {
				return nil, errors.New("ref: base64 data after padding")
			}
			k := -1
			for x := 0; x < 64; x++ {
				if al[x] == c {
					k = x
				}
			}
			if k < 0 {
				return nil, fmt.Errorf("ref: character %q is not in the base64 alphabet", c)
			}
			v[j] = k
		}
		n := v[0]<<18 | v[1]<<12 | v[2]<<6 | v[3]
		out = append(out, byte(n>>16))
		if pad < 2 {
			out = append(out, byte(n>>8))
		}
		if pad < 1 {
			out = append(out, byte(n))
		}
	}
	return out, nil
}
