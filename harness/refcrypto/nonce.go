package refcrypto

import (
	"crypto"
	"crypto/ecdsa"
	"crypto/elliptic"
	"crypto/sha512"
	"encoding/asn1"
	"errors"
	"fmt"
	"io"
	"math/big"
)

// ECDSA with a chosen nonce (FIPS 186-4 6.4 written out with math/big). The checks use it to
// obtain *valid* signatures whose r or s has leading zero octets – about one random signature in
// 32768 has two of them in r or s, so an ordinary signer practically never shows how the library
// turns such a value into the fixed-width r | s of RFC 6605. The keys protect nothing; reusing a
// nonce is of no concern here.

// shortXCounters: scalars k whose point kG has an X coordinate with two leading zero octets, found
// by a plain search over ctr = 0..400000 with k = (SHA-384("c17-short-coordinate/<curve>/<ctr>") mod (n-1)) + 1
// (the same sequence the C17 check uses for its key table). With such a nonce, r = x(kG) mod n is short.
var shortXCounters = map[uint8][]uint64{
	AlgECDSAP256: {7594, 20196, 36601, 147941, 180828},
	AlgECDSAP384: {36805, 162592, 168949, 348012, 398913},
}

// ShortXCount is the number of short-X nonces available for alg.
func ShortXCount(alg uint8) int { return len(shortXCounters[alg]) }

// ShortXNonce returns the i-th (mod count) nonce whose point has a short X coordinate.
func ShortXNonce(alg uint8, i int) *big.Int {
	c, _ := curveFor(alg)
	tab := shortXCounters[alg]
	if c == nil || len(tab) == 0 {
		return nil
	}
	if i < 0 {
		i = -i
	}
	name := "P-256"
	if alg == AlgECDSAP384 {
		name = "P-384"
	}
	h := sha512.Sum384([]byte(fmt.Sprintf("c17-short-coordinate/%s/%d", name, tab[i%len(tab)])))
	d := new(big.Int).SetBytes(h[:])
	d.Mod(d, new(big.Int).Sub(c.Params().N, big.NewInt(1)))
	return d.Add(d, big.NewInt(1))
}

// NoncePlan precomputes what a fixed (key, nonce) pair contributes to a signature.
type NoncePlan struct {
	curve elliptic.Curve
	n     *big.Int
	R     *big.Int // x(kG) mod n
	kinv  *big.Int
	rd    *big.Int // r*d mod n
}

// NewNoncePlan prepares signing with private key priv and nonce k.
func NewNoncePlan(priv *ecdsa.PrivateKey, k *big.Int) (*NoncePlan, error) {
	n := priv.Curve.Params().N
	if k.Sign() <= 0 || k.Cmp(n) >= 0 {
		return nil, errors.New("ref: nonce out of range")
	}
	x, _ := priv.Curve.ScalarBaseMult(k.Bytes())
	r := new(big.Int).Mod(x, n)
	if r.Sign() == 0 {
		return nil, errors.New("ref: r = 0")
	}
	p := &NoncePlan{curve: priv.Curve, n: n, R: r, kinv: new(big.Int).ModInverse(k, n)}
	p.rd = new(big.Int).Mul(r, priv.D)
	p.rd.Mod(p.rd, n)
	return p, nil
}

// S is s = k^-1 (z + r d) mod n for the given message digest (z = its leftmost bits).
func (p *NoncePlan) S(digest []byte) *big.Int {
	z := new(big.Int).SetBytes(digest)
	if excess := len(digest)*8 - p.n.BitLen(); excess > 0 {
		z.Rsh(z, uint(excess))
	}
	z.Add(z, p.rd)
	z.Mul(z, p.kinv)
	return z.Mod(z, p.n)
}

// LeadingZeroOctets is the number of leading zero octets of v in the curve's fixed width.
func (p *NoncePlan) LeadingZeroOctets(v *big.Int) int {
	return (p.n.BitLen()+7)/8 - len(v.Bytes())
}

// NonceSigner is a crypto.Signer for an ECDSA key that signs with a fixed nonce and returns the
// usual ASN.1 DER signature.
type NonceSigner struct {
	Key *ecdsa.PrivateKey
	K   *big.Int
}

func (s NonceSigner) Public() crypto.PublicKey { return &s.Key.PublicKey }

func (s NonceSigner) Sign(_ io.Reader, digest []byte, _ crypto.SignerOpts) ([]byte, error) {
	p, err := NewNoncePlan(s.Key, s.K)
	if err != nil {
		return nil, err
	}
	sv := p.S(digest)
	if sv.Sign() == 0 {
		return nil, errors.New("ref: s = 0")
	}
	return asn1.Marshal(struct{ R, S *big.Int }{p.R, sv})
}

// RandCheckedSigner wraps a crypto.Signer the way a hardware-token shim or a wrapper around
// ecdsa.SignASN1(rand, ...) behaves: it really uses the entropy source it is handed. Sign fails
// when that source is nil or does not deliver 32 octets; otherwise it delegates to Inner (which may
// be deterministic). crypto.Signer documents rand as "a source of entropy", and every
// caller of the standard library passes one.
type RandCheckedSigner struct{ Inner crypto.Signer }

func (s RandCheckedSigner) Public() crypto.PublicKey { return s.Inner.Public() }

func (s RandCheckedSigner) Sign(rnd io.Reader, digest []byte, opts crypto.SignerOpts) ([]byte, error) {
	if rnd == nil {
		return nil, errors.New("ref: Sign was handed a nil entropy source")
	}
	var b [32]byte
	if _, err := io.ReadFull(rnd, b[:]); err != nil {
		return nil, fmt.Errorf("ref: the entropy source handed to Sign does not deliver: %w", err)
	}
	return s.Inner.Sign(rnd, digest, opts)
}

// FailingSigner is a crypto.Signer whose Sign always fails (a token that is unplugged).
type FailingSigner struct{ Pub crypto.PublicKey }

func (s FailingSigner) Public() crypto.PublicKey { return s.Pub }
func (s FailingSigner) Sign(io.Reader, []byte, crypto.SignerOpts) ([]byte, error) {
	return nil, errors.New("ref: the signing device is not available")
}
