package refcrypto

import (
	"crypto/rsa"
	"crypto/x509"
	"encoding/base64"
	"sync"
)

// A fixed pool of 1024-bit RSA test keys (PKCS#1 DER, base64). RSA key generation is by far the
// most expensive operation of the signing checks; cases pick a key by index, so a saved case
// reproduces the same signed octets in every process. The keys protect nothing.
var rsaPoolDER = []string{
	"MIICXgIBAAKBgQDTX8KCqsW4QrHB3L/JkwHxl5YU5bJbD2wGYmgoaQuRNtl7fNbI6d8CNnJ7a3oE815zY4FDhMBTBgbKB9WNN2MwLBE5UEv12GGibqnePCnQhXx7flGN8sNJ/LWWteYGx7XPIjO8JS9JsChX60ME0qnnijCuzYqtNoRn9ZhdvdFLAwIDAQABAoGBALJESN+69xX36cL+UiHHAhSnK8RkFJAH6atYw0+RiFfoUnN7TgoUdCiBkvvUIQyb1ESs3w/6ndlnc8Jf6RM4a0VjgfGRCcMr9BBWFgg4ElbLdnjEbKCzc0W9WbPQgjo6wSBta1ifsUMpruEV5NbrPWkQtQJFmDnVJRDTAw+//21BAkEA1RLC+UOisyBDdON6HDml5V5YBk0HNL7d4ZRwjLfmz5GK0yLgC0xZGwVHtDSe+74DT0C+Mwc8D9QKy5R3j9H7XwJBAP31XFoXrq1kXcevy+tZEbLqk/xYr/HpCNZ4/yI5J25TWLtayjC9UVCKzJuqQgu9OMHRzUemrqJqFWRRn7DC9t0CQQDMx41Pl2tlEJsEWiPfwJ/qQ7QBykIktVP2G33YIF7aGxz7Msd01FnHGFoDnZc2hzYTEzw5OrjE1ZvScMxAEyWtAkEAjj60L7I8INqqvIJ3EaeeBjzmDt4ODs2cKaU0IpMoxt7gQHCl947S0O4tlLNUswaVl9pPxOZTwpzwxnQBohxR8QJAEOvvxJwdQjCjihTjiiLegikdt5VbYMU40slPZGWHS/2UiXOYR44lq8idNfhhkTNVyzOjjUI5Pemr99EHB31JuA==",
	"MIICXwIBAAKBgQDR8uf5KC6/LHI9AHuyMztZ4LCSMXgtW/DysEUByQIHz3JYaQ6QY2xe1jd/NdPdGh7o3Z+S76jF8RUnmRblflAY9CCzIEYvE4cPnFnHWUcQ0plzxBV4+g5LqDZzteVa6/rR3qD2bKIA95HwtzQqmn+CB2aEJp1e3OMLG2s9ZEZuEwIDAQABAoGBAMcHL0HUBfzVdba+roTQbINXrgvpObRGZLSsxb5bf8FHt254qYXXuvRsv0+pB5+jE4pODuiMqcJ8OUHAryQACozkrd8LlkpXSXUaGPSoQPGAvWNJ7qq3HCzhv+q15kjAh9MHmcuW0jrsstPML8PLAMXxrxlZ/ZRwCME7hbwZ3NYBAkEA163Rt/VnDSXNFxmRKUvNx7DNzuX6+1yGVBRiW1T9hj9iRjH1D7Kdyz1nPF8Yv/ioPlEp9rtWGeE34IDAxOGI4wJBAPky2UJifd2N+WQpq1ZUKLrxM842uaLkyG+SjmVfQPREWsOyG3fXxyACyKSuojFFDN6v6K/SSKf88PI78WIs/RECQQCyhi8srRWyvVJox4Hvg85+d2uz0YuRGoIaAJF1dgEwaTDIV7u4VanlPBtCzphm9sUUaAxrLZ/UZibhTtHBZcnvAkEAhpMvQOpvjnZdd/oIzVYlqM8ZawOivJVQqPA8dgI60a8YVRaaPt4IawEV2dl1PaZMjPXycwDcu9udQzOb56jkAQJBAMaxd6rsAcoRh5be/MOQ6AuoGl28qT+2dkhfutCf2H9/GUn26upkJ7OeO6nPhuJxoPrzpagxPpFXQwsGL15vx04=",
	"MIICXQIBAAKBgQDznyCuzwYrC8GxqCvnmwwGgm4IEFiv+SHSN4mHTQ3btCYAiEkfAieyHMcs7OMTx6FMtb1vxVoWoRhfqFPhcBmjWxcOJX6MSSwJyhDZsDdlB69oJjopfHJbp5Fsu0dvz3vkIzV3ZOVAiGc9P2KFgE5u9/u9yfptk6v4yQURXqBasQIDAQABAoGAeHLKY+MzN4EeiMmOu3mq3mUKJa5/SrGwCREwS9bK7T8KMuUu0cfs/GDCEPIl6xeeJiEMwgAe5GVNea3tmt4jreta2Eww9e2rSlBwZn8jrM59dl8QbopfWTZnxvfCTOLSviRzYTL1YHahFjW7SxFGP0DWXdElBSL1aKwHQFZ14IkCQQD8yuJlma4cWNU1G5UxlwI8JTH251EubpjOcz+nJWDE8JqCxeG4WbWtFINbUC01NO9VsPnKMH++098UAxWCoRv3AkEA9rZ0WWlQpuXR1yki75cMM5s9Ji8a5tTxz+XVOdtjrlBPDZCUuSZu52IcM4qSeFAm2kOSHiMIC9hG84DV198ElwJAWjCwcXtRCUAQYXBD3Ht6CqdimiqRZjWDQzUPIr1NNzZ4ieu7yqAHF4dYDj4ewvrt4O7RT/fZu+Wvk14+UGrWpQJBAPDMeJdkYWHk4oFdF0o+ZZxhIrgINfujUDmYnBuSdKKIpAAbY+2rA4g3jEsKL5fas3FJjm53xry45dd5oj7G4BUCQQDFZAUqHNgHl7zWv5ebk8J5n9pT96vocU4RcKQ2Iao3yq7P2o77MVYwfJpnHwuicWTLa8dhCOe6JInSXJuImiBt",
	"MIICWwIBAAKBgQCo3++ij/sdt/Vheh6IxqRDaIG6gWvrjItEimo+fZvDh+ax8HrNJ2ps0yryRTcTBSwG4MIav3Kqdzhs6Y105wKDOtRjIx4kOxGavmJXrBIPNF0vuQEa0Zv8kOuMrfe2ITFt2wNPk7dfhSd88tpGO+M40AHXFzsGS74cg8ThJdZSgwIDAQABAoGAFRVQH6WGHmG3GuJaKY1TOK81cwlxZcj4Iih9tyuLZM/0t0ZkrnQ7TzbV58VIaPF+W6V31ksMj8eunbpS1MN6hp/GWFgDXFK7eJuaKgD0dT7Xw8MWFE9OVRsLX4mMcOSIyq2IDt6ftnYu42YNgabcSAfu6oJBk1Dvv1a0kNbLLPECQQDL9ipWAErmRdC9aelS0dqHucDAk9UFvRGdFgiKzUeJwjSdEj+jkyioSKgDKVqvFRBgtvbMhSsxmUd2edJz9/etAkEA0/YPTUhD5Vqb6fsSU4q6XAInu1t1D47uqfqbEvWKiF0J3Iy9YOLJu5miqHNqsZoxEEWbG7Z+uS4FuOFxVdF47wJAdmlT6toAoe+mYFE8xHhRBrswzJ0G7230693+15aWEcROB2Kwz6Z/1DNaV3uKylrQR1XxsosdqI30jzPqmqk7gQJAMdvXjZ5KGlFOC6P7k5s2ax42qmPBDX/ZtDI2+Ca6B4mbID4a7gdq3K4vDODZYB2dHO7Cpaov9O9WeT7Oohk8EQJAc0M3mm23l3tbI6hIpurkkLYugefFSz/8BwQHMf4b576l0Dilg/3/DSM61+KkMtwsiZoNcndlN/+HU3OGT5rZ/A==",
}

var (
	rsaPoolOnce sync.Once
	rsaPool     []*rsa.PrivateKey
)

// RSAPoolSize is the number of keys in the pool.
func RSAPoolSize() int { return len(rsaPoolDER) }

// RSAKey returns pool key i (mod pool size).
func RSAKey(i int) *rsa.PrivateKey {
	rsaPoolOnce.Do(func() {
		for _, s := range rsaPoolDER {
			der, err := base64.StdEncoding.DecodeString(s)
			if err != nil {
				panic(err)
			}
			k, err := x509.ParsePKCS1PrivateKey(der)
			if err != nil {
				panic(err)
			}
			rsaPool = append(rsaPool, k)
		}
	})
	if i < 0 {
		i = -i
	}
	return rsaPool[i%len(rsaPool)]
}
