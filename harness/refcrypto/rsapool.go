package refcrypto

import (
	"crypto/rsa"
	"crypto/x509"
	"encoding/base64"
	"sync"
)

// A fixed pool of 1024-bit RSA test keys (PKCS#1 DER, base64). RSA key generation is by far the
// most expensive operation of the signing checks; cases pick a key by index, so a saved case
// reproduces the same signed octets in every process. The keys protect nothing.
var rsaPoolDER = []string{
	"MIICXgIBAAKBgQDTX8KCqsW4QrHB3L/JkwHxl5YU5bJbD2wGYmgoaQuRNtl7fNbI6d8CNnJ7a3oE815zY4FDhMBTBgbKB9WNN2MwLBE5UEv12GGibqnePCnQhXx7flGN8sNJ/LWWteYGx7XPIjO8JS9JsChX60ME0qnnijCuzYqtNoRn9ZhdvdFLAwIDAQABAoGBALJESN+69xX36cL+UiHHAhSnK8RkFJAH6atYw0+RiFfoUnN7TgoUdCiBkvvUIQyb1ESs3w/6ndlnc8Jf6RM4a0VjgfGRCcMr9BBWFgg4ElbLdnjEbKCzc0W9WbPQgjo6wSBta1ifsUMpruEV5NbrPWkQtQJFmDnVJRDTAw+//21BAkEA1RLC+UOisyBDdON6HDml5V5YBk0HNL7d4ZRwjLfmz5GK0yLgC0xZGwVHtDSe+74DT0C+Mwc8D9QKy5R3j9H7XwJBAP31XFoXrq1kXcevy+tZEbLqk/xYr/HpCNZ4/yI5J25TWLtayjC9UVCKzJuqQgu9OMHRzUemrqJqFWRRn7DC9t0CQQDMx41Pl2tlEJsEWiPfwJ/qQ7QBykIktVP2G33YIF7aGxz7Msd01FnHGFoDnZc2hzYTEzw5OrjE1ZvScMxAEyWtAkEAjj60L7I8INqqvIJ3EaeeBjzmDt4ODs2cKaU0IpMoxt7gQHCl947S0O4tlLNUswaVl9pPxOZTwpzwxnQBohxR8QJAEOvvxJwdQjCjihTjiiLegikdt5VbYMU40slPZGWHS/2UiXOYR44lq8idNfhhkTNVyzOjjUI5Pemr99EHB31JuA==",
	"MIICXwIBAAKBgQDR8uf5KC6/LHI9AHuyMztZ4LCSMXgtW/DysEUByQIHz3JYaQ6QY2xe1jd/NdPdGh7o3Z+S76jF8RUnmRblflAY9CCzIEYvE4cPnFnHWUcQ0plzxBV4+g5LqDZzteVa6/rR3qD2bKIA95HwtzQqmn+CB2aEJp1e3OMLG2s9ZEZuEwIDAQABAoGBAMcHL0HUBfzVdba+roTQbINXrgvpObRGZLSsxb5bf8FHt254qYXXuvRsv0+pB5+jE4pODuiMqcJ8OUHAryQACozkrd8LlkpXSXUaGPSoQPGAvWNJ7qq3HCzhv+q15kjAh9MHmcuW0jrsstPML8PLAMXxrxlZ/ZRwCME7hbwZ3NYBAkEA163Rt/VnDSXNFxmRKUvNx7DNzuX6+1yGVBRiW1T9hj9iRjH1D7Kdyz1nPF8Yv/ioPlEp9rtWGeE34IDAxOGI4wJBAPky2UJifd2N+WQpq1ZUKLrxM842uaLkyG+SjmVfQPREWsOyG3fXxyACyKSuojFFDN6v6K/SSKf88PI78WIs/RECQQCyhi8srRWyvVJox4Hvg85+d2uz0YuRGoIaAJF1dgEwaTDIV7u4VanlPBtCzphm9sUUaAxrLZ/UZibhTtHBZcnvAkEAhpMvQOpvjnZdd/oIzVYlqM8ZawOivJVQqPA8dgI60a8YVRaaPt4IawEV2dl1PaZMjPXycwDcu9udQzOb56jkAQJBAMaxd6rsAcoRh5be/MOQ6AuoGl28qT+2dkhfutCf2H9/GUn26upkJ7OeO6nPhuJxoPrzpagxPpFXQwsGL15vx04=",
	"MIICXQIBAAKBgQDznyCuzwYrC8GxqCvnmwwGgm4IEFiv+SHSN4mHTQ3btCYAiEkfAieyHMcs7OMTx6FMtb1vxVoWoRhfqFPhcBmjWxcOJX6MSSwJyhDZsDdlB69oJjopfHJbp5Fsu0dvz3vkIzV3ZOVAiGc9P2KFgE5u9/u9yfptk6v4yQURXqBasQIDAQABAoGAeHLKY+MzN4EeiMmOu3mq3mUKJa5/SrGwCREwS9bK7T8KMuUu0cfs/GDCEPIl6xeeJiEMwgAe5GVNea3tmt4jreta2Eww9e2rSlBwZn8jrM59dl8QbopfWTZnxvfCTOLSviRzYTL1YHahFjW7SxFGP0DWXdElBSL1aKwHQFZ14IkCQQD8yuJlma4cWNU1G5UxlwI8JTH251EubpjOcz+nJWDE8JqCxeG4WbWtFINbUC01NO9VsPnKMH++098UAxWCoRv3AkEA9rZ0WWlQpuXR1yki75cMM5s9Ji8a5tTxz+XVOdtjrlBPDZCUuSZu52IcM4qSeFAm2kOSHiMIC9hG84DV198ElwJAWjCwcXtRCUAQYXBD3Ht6CqdimiqRZjWDQzUPIr1NNzZ4ieu7yqAHF4dYDj4ewvrt4O7RT/fZu+Wvk14+UGrWpQJBAPDMeJdkYWHk4oFdF0o+ZZxhIrgINfujUDmYnBuSdKKIpAAbY+2rA4g3jEsKL5fas3FJjm53xry45dd5oj7G4BUCQQDFZAUqHNgHl7zWv5ebk8J5n9pT96vocU4RcKQ2Iao3yq7P2o77MVYwfJpnHwuicWTLa8dhCOe6JInSXJuImiBt",
	"MIICWwIBAAKBgQCo3++ij/sdt/Vheh6IxqRDaIG6gWvrjItEimo+fZvDh+ax8HrNJ2ps0yryRTcTBSwG4MIav3Kqdzhs6Y105wKDOtRjIx4kOxGavmJXrBIPNF0vuQEa0Zv8kOuMrfe2ITFt2wNPk7dfhSd88tpGO+M40AHXFzsGS74cg8ThJdZSgwIDAQABAoGAFRVQH6WGHmG3GuJaKY1TOK81cwlxZcj4Iih9tyuLZM/0t0ZkrnQ7TzbV58VIaPF+W6V31ksMj8eunbpS1MN6hp/GWFgDXFK7eJuaKgD0dT7Xw8MWFE9OVRsLX4mMcOSIyq2IDt6ftnYu42YNgabcSAfu6oJBk1Dvv1a0kNbLLPECQQDL9ipWAErmRdC9aelS0dqHucDAk9UFvRGdFgiKzUeJwjSdEj+jkyioSKgDKVqvFRBgtvbMhSsxmUd2edJz9/etAkEA0/YPTUhD5Vqb6fsSU4q6XAInu1t1D47uqfqbEvWKiF0J3Iy9YOLJu5miqHNqsZoxEEWbG7Z+uS4FuOFxVdF47wJAdmlT6toAoe+mYFE8xHhRBrswzJ0G7230693+15aWEcROB2Kwz6Z/1DNaV3uKylrQR1XxsosdqI30jzPqmqk7gQJAMdvXjZ5KGlFOC6P7k5s2ax42qmPBDX/ZtDI2+Ca6B4mbID4a7gdq3K4vDODZYB2dHO7Cpaov9O9WeT7Oohk8EQJAc0M3mm23l3tbI6hIpurkkLYugefFSz/8BwQHMf4b576l0Dilg/3/DSM61+KkMtwsiZoNcndlN/+HU3OGT5rZ/A==",
}

// Keys at the bounds of what the library (and RFC 3110) supports: a 512-octet modulus, one- and
// four-octet public exponents (the latter the maximum, 2^31-1), and an in-between size. They are expensive to use (the 4096-bit
// one above all), so cases pick them explicitly and rarely: RSAKey(RSAEdgeBase + i).
var rsaEdgeDER = []string{
	"MIIJKQIBAAKCAgEArlj4xZiTaDRogQJjLHTVfxWulf3tIgTBiE1D+XyItg/rQToDuHasWvEGohmoXX2oJ2mSLU7hQxe+jpUYR0SYJ0XgTJqPvQQS/3LpZz1eeJtfAORaGh09kIb29/+vt6BO/Vv38f7uBSSIUWjCQqoWMJcALVoKlOPdMZBn3YoEFTCwYRKaR3e3RuQMfR7g2hbww1zcw69Kqc/BuOYKeo+X1A3ypvQ2SnVGYRV+BKpam1BPqLeIHwp+tm28BZsojfij7CaOmMDvuEKNsDA9F0fhbF4o7eI1vcQjvJs1LdaEAsCrCPAfokhypCOASVdh15map1wmdbHjyk1exblcDQ/0gu8devbAMvyOhjDm/JWYfvi85WBBE0xUqCoXrw9ghQRpWfKgrbTpIGqWANmW6WDWYbzyqpmvcFyBMJs4VSbiHdsjDVBcafMjj49GzFuSup9z4Aq6Q8uHKZ5k9MXeANWwzu5r+YRAcmQf61EdYVdRQSW9yP0ORKzozU2VNmKLRUm1re5Nf2CAuNttlDfDur/017T00RqrD071YAmzNPDO3Q60q0QLSW/tg/lRqnGMhoUxWEniTzlX7a3202inSCmigABr5q4ee9oTQGlGeQQPy4QWKATZu3Y9jV+oO+pt5ZTr+4hDxGSd8+xAQY9S8+hVOD/y5Et4OKXMTr908paZTI8CAwEAAQKCAgAs2Iro/LWR/MUSxiPvaAAQp+mYAFBySyni3wkIkA10U0TuqrcRSElOPSg5IwNpROyvcprcl6kewmlMMLKlhlHi7DjlS26ErpsaZRr/aMw3lrOJvbMle3b+CZFWOkkfIRegWPs+npXn8b00v48Uab66ceTkRYBqSvB3Es98r0cckkEUPx47GuKkU/2YY4xv3K3Cesz4csrwQhXw8w8n9m6V556ObkvWvDLFvysClTUoNTDAU7EqVt9AGpreEEqOtjGoCUTtqtcenNPoSYg1SFKGNvQtOF4deWm91miH6WFceeWkr2tbqWn/qXgSpWzv8b1TpkLoTEEtJNinYGX6oCuC42tUmT1eGM6Gj2FrOFh4lYY5UHjww/O9ExeyOp2UrLO28NnxHlzL+L7ZXMA+wBvIpt13X0uSyN7ublNqFyQliRi/3Ubng79FusK+4/h4eImx7UfwKAGJnQMFRvpG2gmanBL8SIh0ZaC8TyOoFj8xbCHu+H8C+/NQBhEJd1lcdYdgTLok59QlGZaBVxgBajy6trb23kVlIu7wOKGMfzcr9xeZ/beVMC+kwHEmux3lgnYCd+UA0Z6H2KCEVf6T+GwEutnkiXMMmpRNjGLjl+ez7Gxfj9J8LlppshXbSIEdTMO33QG5LCjw8AxFC7CzHlTZRBjob1c7xb2+EZWh7lIWIQKCAQEA5KRV8IjwUGJk/yvl3LkzFyK7BUOJPBUtQItrsXsicRvAKuSlsB2LJu5P0OABVSwE+T+bqcb4y5KqzbBT+4ZT+bisyiO/4VBfluAHbkupqXetw1bFxIoM3lpRKEX4w93AKer8zKHZYChOG/j0B822i6zsgMS2QaI5YwmodgfIC1nOrlVNwCuHSfESWWwEv9NTp97/btMmlON5omADb1uRmea9FXA5jnABrgvcXH5RrzWw3/ychCAueb1wxHuQYmLa8KqBxWE4Cmv4a4LQP7pRvvLNljNUdVay0Yu+Dc/nWxb1CL9dRynJxlT3N5bnkziIFt5T1Y5bl1OFUSwBXFPFoQKCAQEAwzWDUkic8ZvqrXHh7mKek8yOMY8MkSfAXGleP8MXJEOPfZj/VdJzIA++xLOqBxYampa9f2MpfsIdJsJ47xDpJxPY3cXYYo6+cDpXB3u9fYDojubxvSDKT8LN7JVqHTEiKkefr9NPTvRMAHB7tWDJEKI4osyyRDZlur0B6szbNZlXKl48JpPKuXB/BQYlatlj3W+i1W00id44JE/nVShRcXRx5s/tJWXGJPHDLK7jiBPz7DuIzMgD+sMQMCZvA5dATbpnFUlXQUj1UqASJYNRTBHhwLUeHsV9NMFgfnMYYsYMyCDY87SVKjS+hlRWZQr09FQl6Tgbtv/irDnerbGELwKCAQEArr2l7KJLv7Ojap17HJjyIgFqG5jE/oVUw1qKoObxqK5DzMRYmOPLYKKLn6BDhHuTBYcGidfGd5cNMQxM8xNzhIwOiqKN2D5b/+wR4cqzzQ/pXjwoA5BaS2mNUxE/ETqdzauJLz+W6XWEVL6MipY+qDstuTAd9sVrxHQyKprB2WL2oagSNwdNa0Zx9qOmcZCqA8dbQrDfcLT1VhK5LVc3TP7ajdLqOiECN6la7dmgxh5ropPmbthFjMcqsw+Yhoj0uTAm49nsQZLJFimwzLOyHBRm6R8rsk3jdmCtjNLTB3vhI6FVQbj/O7PeCL8tFwgCgi/CtJkLCPlND39pPs3LYQKCAQEAj3DaD3OWB5/XYR3ms8G53scX0WjZBiycmAtBGz9i2N3gKZ1sOocK24tWVbnjfZOLdv6/PkUCb8d5nkqWjKzzdiiKWeQQbdOQMm1cF/6gLgG0YZVoGt5maxetM2RTdiHthf3dZFi01UKEOmptLMly1YsubMpXT/Jc7EwIhZ2Ekq0btOFL99jvxTXZ0DpE8m/NhyCKGaRGT+x/eodQaG3Y8rJrI/yzuKBBalJQZZwZS5vFyFey3S84ZWJCme8T8iKJONR4/NZIjIts4QsIapJFAc2+AlnUSS47I7HZEvHGAIahS8l/Qgz28u2Q9qowVc0oVAUlWmtFSkJbMMzRSPbBNwKCAQBfp0BO7Hw10Ml6wge9Q2yfG2ioFKA1bfcpzZ9Ax81tUarGdScwhtXDpFeq4DynVb8F/Jr1qPzs9tQGJ1wMVaEG9ort3e7x+m24yStl6gOsKpfLEJYvVWY8yc7GIhxemEKauKcGDUhXuVMDJU4hSjudfEPjIhW5gwhDhcbKlq9m8JvcrwVKrqtnyx6EHKl62ovjatht9WkR7bKhi3G+yeAYd1mwj6R7LQppsqDueVslWntjeJ6VJtApPwH0oE5son8NEUCZIL/wrzkTZujB9NYIve4K/2KUsYTurDCkAabBkWfBtwsGhG3WRU1tkoPFdO6g5Pn4la00Y4ilFGYSnT1h", // 4096 bits, e=65537 (modulus of 512 octets: the largest the library accepts)
	"MIIEpAIBAAKCAQEAw4QorCHFTr/WhuKifCqJFbEhQWoI+yVpHcfHUYpTeHsFtvGUU4CaHeDTftz7Gam+XDmGJQs5T1McIEJlllw3EVDQrPsmW8gz2iiwIQoQxeNZ47/0M2eHGZBqHV9cTMBfMYSSw30Krb36/dhmzOFL/Ta4bIYCnm1RZZj5xQBJXIfrUVNvZiHIvyB5tNpySgLcDo+KYhi2UTLqMYcW8RxXNiVbdjivFBN61nPVZ8ALZIJJm6rUb+scl6jmpKwvkElvSCnBgwSP1w6eyDQL0NL0tJHKKkZ58bjt+CdwuFKjDfmURKdKVi8/zVK6wNahLpaTV0jkRvBje9fubE4ogacGNQIBAwKCAQEAglgbHWvY3yqPBJcW/XGwuSDA1kawp25GE9qE4QbiUFIDz0u4N6sRaUCM/z38u8Z+6CZZbgd7ijdoFYGZDugktjXgc1IZkoV35sXKwLFgg+zml9VNd5paEQrxaOo9iIA/dlhh16ixySlR/pBEiJYyqM8lna6saZ42Q7tRLgAw6FlyALnWmpGpzf7+4Voz/wyWw1fdK7js9Rzb893pn+C6fVLfw11uTuga32MzxlZJ4wRcPSD3f7RicWR7EN6KosxfFEoqsthkM38i2wWwzGMrkwiVbl7dUPg0yc7xO/oaPPBGYx/+9PYYtyo6jwkjYl43O0FA9znIvo6T9vcA0Wt68wKBgQDSOceUaaJ7VItTSI1o+S8JRLeqyyKS80K6coMb6thBzwnF/78HYki7+qlYRV/aSrE+0J8X8CANpOZFWQTCubCAzMNfqirXVJ51dgVdUoh0P86g5ukNX11riqDIXppzbGIofXSsS47bpJDPsMJZwfKWxXGkLV1QH5Gnwsq8qPd2/wKBgQDuFnUZFKTOtZaoGkW7UkDwpNQT1WC/7kTl0TcclnL9qx9F0W2CO26WjLWveN7CRUqAb1pJQDx7SKvoslmc4mZf3PchzJUiNTF1CaYlS7W/GDZJHc8gmOczPtA+f8EIRi8CMoKfmy8/FgKTOYaSWRapuPVeprxmPnBotxDqno5WywKBgQCMJoUNm8GnjbI3hbObUMoGLc/HMhcMoix8TFdn8eWBNLEuqn9aQYXSpxuQLj/m3HYp4GoP9Wqzw0QuO1iB0SBV3deVHByPjb74+Vjo4bBNf98V70YI6j5HscCFlGb3nZbFqPhy3Qnnwws1IIGRK/cPLkvCyOjgFQvFLIcocKT5/wKBgQCeuaNmDcM0eQ8avC584YCgbeK345XVSYND4M9oZEypHL+D4POsJ58PCHkfpenW2NxVn5GGKtL82x1FzDu97EQ/6KTBMw4WziD4sRluMnkqECQwvooVu0TM1IrUVSta2XSsIaxqZ3TUuVcM0QRhkLnGe04/GdLu1ErwegtHFF7khwKBgQCyQceUc5UTNUBqhfhgF3L3tSYwbaIB8fso/0yQIsUNaTG1qR1w2U87BUgN63tDKdduYof2quHzgZIuYmE5r0r+hIXSasTW5W2EDFyaVDjGMK6RMj6pk5ospl77MxhozycN0eXLIWbwRbPV0m/XjwX82QanVuRS3Ks27rhiveaGkg==",                                                                                                                                                                                                                                                                                                                                                                                                                                                                                                                                                                                                                                                                                                                                                                                                                                                                                                                                                                                                                                                                                                                                                                                                                                                                                                                                                                                                                                                                                                                                                                                                     // 2048 bits, e=3 (exponent of one octet)
	"MIICXQIBAAKBgQDNrm7toP75F4vLYsCg1TNX9lY/w8QqwOIhcEpfoEiDH5OgkDQpByNJ+l1zx30xEMkurTAPmbD/JqyIYyvFbVJuSyr0bXl/no3/DpM+/50McUPfXdzLrxDbKf+vn/PrUIPiMqEZv9hDBXDOriEP0/vZziHqaYedY6tw8gfY8Y3XfQIEf////wKBgAXGY0D3h8geSQYkH72TULHFesrbUMQT2pH42mImBLpowqwP/x74kKX7uDNRWSmowxufJkLEcVsWkf6C9/ysHe8uAw2Tg1LeEJQaYYLpZ6rqiv1wfXrRkp8sj/pJmfThNy/gLVRHKL7GoEoep9Kr65dhEt1G8dF/D4dLwk2/5hcfAkEA23aGRpTdmubd4Wb7MkcD3ZHt4EiWL9nxoYk03BA1EyHsXH56djwUflouzK7ooe1nxn2If8RzEUgpW9FS/zpKOQJBAO/sigAQ/ZXJZYlPYf8zSBjA5WwPx0yN6s/vuSunhhnSEIOyZQYs3L9cUgU4NgaxV0UAfWwiiq6Bi7rEUH+/B2UCQHkT9XF7rZFbRAuWQTdWTokrZw80XgrVM9bc8nIT4ZRE3wiXj09Ldt8kOuXZpA3mvSu7FnlcDlSxRffRIyyu/qcCQFrDYyK/FwDsFcheLE3DhhhH6At1qn2W5wjB+xaZFajqdvB0pZsbt3WgcCmNvFvB/9Pa9JeNQZVCdWck9UVebhcCQQCraHf51SmWLGqWHoL/2d7UUKgebwUjYwQRt5whYRifWkEL8cCf7LV/jEjJleLAoIlkTvVRHnUKmxtmMjEDkXDV", // 1024 bits, e=2^31-1 (four octets, the largest exponent crypto/rsa and the library accept)
	"MIIG4wIBAAKCAYEAxwub4xNLWlNfm5uIKBVDy4vxNIIWqIiGobjXAbmZpP4WgA7G93l/Bu2FVoYx0GJZRT/Uj1q7DHWvz9DzDfuQU8cy0Y1jdgxhiazfk80O9mw0b60DcY7IBl4Dgxm8SPbpdkZwq/BVB3nWk8LmIn7yvpkOISYqa0EVtefKe+Qe6PnEz+z6CIypUj97Z6zrfpHnjTYCwQRqCoXS4cpm9iK7QxQxEDhYUCjCQ1QBn+uXXOCbQ2zKoqKZumXIYDNnKkRL0m/3P4qYguW9zXLcwpeloYKfNVBRu6o8p2YK/FnRcKXn/JzqtP41AoicHCvReNva9wUUvnqj+9OcGFfI3d4X+iYDPAVrcxOEPvVoDYyuvkulOof2NNTTdd7h4cx9aLjujQ55K9u9kntjTIRuwTnnh4GY0j9+zMhVDF8xZyiiOL+JDT6ImhBz6KyOuQLNaIJzIEJCGv0kQPxW3d6z6jcneu5TMwcF5vJSXGJ2aWUBfEtQ1qKAuqiQLDf2DvK6SgVtAgMBAAECggGAAbdK58FB1AyF9Xx4xwev5vBU6wP4GAndR0WlrOEhvvdl0ELQWk/U1YV0sdNEWKyQYnVzaqz4kdnt4xfFEKjLjL1Z5c6XPexLZvlzj/2jlGJIbXILZo45kTx8QUQWiHaAesGOtRzETuUxAWMbws5fX19IbOa8VOJhwoi2CS1lStLkbHp5iVtVFl1vvewSt6ugWGpPycQ0+dQ/hizNiG+yN5jT93TU5hQD4Lq3rN5GFsnk7MbiVFachqvb92BaElY2YTaN67uMjOXX+0Eg7yiZM1z2xDDrrkPuniSyJkyVMd+C8HZg2hpXF4mKYo45p7Vc1/UxtU5lSk2hyiNVutDALflqby/Jzr3mOfAU1gmc1DOuccyPnSxsTB0SQL+p/57iZvnCMT1co1XlSTs2SmN6t++N5obRyFsqTnpM9JvN+lOx6i3+5x6XzeYzcnEkJ1RDUldYb0fnaFYkUpogifUXt9m1lq3f2EA4AQ+9WkPryBH/SfBMKj0p32nxQa8Wq1EtAoHBAMoWlZpc6QGhXRH49L2dGGdHpApwFeTFKmBYHlmOQoEJddjhPJPmUda8iYYWzu6i90UlTyRY6ePiBP0+dJ0xAjovY/r5NarcSYwvvwcv8eSZKu8UDuIjOJNbNZph0Qwpl7nRNLv26J5uot9ZfqeDIu7Gi4PmAChP2bbrN5+YOX6/FeBU0jNosvvVTY7E41eeDGXMWGBIz/yP1YmFqBNfnXUEtxnD0OkojrnnFC6lwf1lCDuAtesfHZfEiYza2RtkCwKBwQD8JTbsjhEr6AAtm1md4l/vZQ98k0PpMbKjzBeusmoHTiUf9uS8aytE4k9B+4p/yv1gTKqkgYNnuV02rnVCuVIi7AQFl1BGT0IFjKwkhDe5S8jqfMdF/YMUpCFCeGF4tHuW545K8R7x/uCJ8LR49/cnySwUeuI+jB4oUkAM/yb3xXAPgI556fC6/2xe/Nn+lFx8iX9rtkhguFOuw3XTYlV9Vid6A/00IYyu1OjMETzH8s7AeTFrtOTzr2HNmqosb2cCgcBxULCaWbadn2mchkhVeh0Q7G7jG25rVNMqKr754HcR+8gE0GczV1ZUXmuOsINf9ClKsFzsOJ8NlNLPXZHuAmkJT0F0nQCmydbDsJIg6ZVtZSVZ4Zlm2/EBT4eDBY4+j6PwIYq8Svqsu8TAEGKgczvHP7VDRFiaQgwGMWaDKswycdtGasli4jZaV4ShpW0E2C6Ddk2nz6wwJkbKUhOoqViVIQu6er5NvtwpCZWbgn6AI4K2OrnHGS9yxlWKkbxjS3kCgcEA0u2uzKTr6Hbj70MN7O36oyE/m072eJWCg1OwXAwUdpgApoS7RIPCZpWLB/+NFOqSm4SHG6bcbmC6gYvfvDmbZGtb0fGKzcZvzISpXMLeervTD5XifcJdbV8AE8LwhzE0UkDS4A5lfLtiywH5d1i4AShhH6DMstY0RDbKLhUkXBFmdRFuHr59C3GxDqUnF7i0xdmgJlMOqRqJpqEMaBDSw07XJ1M+9eU68uZY+J1S41FTc9/uX9Or087bWkwQH6vxAoHAQSqBj8BMBjYAowiiUw5B4fQqHCVS3MOVyZHYvDQ/4sJirU9WzJ6olI7we+BDR/0Hzs5oGi6gLe40qIr2Ybjw9cZ3/aBLG/AguHxDMj/jAH3J56JCxje3ENqIxhKA/Y8DWlQWdqJKdY00lOx/SD2erMZLs8+V9XDBtxN/XwL/Jg7miuocz9OuUe9WcYm/C51/7AtN6dEWQfcWZ2KMnfYJsv07QRtN5Glp5T/YRgWSnXbB59eWvMSdbhdfYJNHKOce", // 3072 bits, e=65537
}

// RSAEdgeBase is the index of the first edge key for RSAKey.
const RSAEdgeBase = 100

// RSAEdgeSize is the number of edge keys.
func RSAEdgeSize() int { return len(rsaEdgeDER) }

var (
	rsaPoolOnce sync.Once
	rsaEdge     []*rsa.PrivateKey
	rsaPool     []*rsa.PrivateKey
)

// RSAPoolSize is the number of keys in the pool.
func RSAPoolSize() int { return len(rsaPoolDER) }

// RSAKey returns pool key i (mod pool size) for i < RSAEdgeBase, edge key i - RSAEdgeBase otherwise.
func RSAKey(i int) *rsa.PrivateKey {
	rsaPoolOnce.Do(func() {
		for _, s := range rsaPoolDER {
			der, err := base64.StdEncoding.DecodeString(s)
			if err != nil {
				panic(err)
			}
			k, err := x509.ParsePKCS1PrivateKey(der)
			if err != nil {
				panic(err)
			}
			rsaPool = append(rsaPool, k)
		}
		for _, s := range rsaEdgeDER {
			der, err := base64.StdEncoding.DecodeString(s)
			if err != nil {
				panic(err)
			}
			k, err := x509.ParsePKCS1PrivateKey(der)
			if err != nil {
				panic(err)
			}
			rsaEdge = append(rsaEdge, k)
		}
	})
	if i < 0 {
		i = -i
	}
	if i >= RSAEdgeBase {
		return rsaEdge[(i-RSAEdgeBase)%len(rsaEdge)]
	}
	return rsaPool[i%len(rsaPool)]
}
