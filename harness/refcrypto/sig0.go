package refcrypto

import (
	"crypto"
	"encoding/binary"
	"errors"
	"io"
)

// Sig is the content of a SIG record (RFC 2535 4.1, as used by RFC 2931).
type Sig struct {
	TypeCovered uint16 // 0 for SIG(0)
	Algorithm   uint8
	Labels      uint8
	OrigTTL     uint32
	Expiration  uint32
	Inception   uint32
	KeyTag      uint16
	Signer      Labels
	Signature   []byte
}

// RdataNoSig is the SIG RDATA up to and excluding the signature field, signer name
// uncompressed and with its case preserved.
func (s *Sig) RdataNoSig() []byte {
	var b []byte
	b = binary.BigEndian.AppendUint16(b, s.TypeCovered)
	b = append(b, s.Algorithm, s.Labels)
	b = binary.BigEndian.AppendUint32(b, s.OrigTTL)
	b = binary.BigEndian.AppendUint32(b, s.Expiration)
	b = binary.BigEndian.AppendUint32(b, s.Inception)
	b = binary.BigEndian.AppendUint16(b, s.KeyTag)
	return append(b, s.Signer.Wire()...)
}

// ParseSig reads the SIG record at rr. sigOff is the offset of the signature field in msg.
func ParseSig(msg []byte, rr RR) (s *Sig, sigOff int, err error) {
	if rr.Type != TypeSIG {
		return nil, 0, errors.New("ref: not a SIG record")
	}
	if rr.RData+18 > rr.End {
		return nil, 0, errors.New("ref: short SIG RDATA")
	}
	b := msg[rr.RData:]
	s = &Sig{
		TypeCovered: binary.BigEndian.Uint16(b[0:]),
		Algorithm:   b[2],
		Labels:      b[3],
		OrigTTL:     binary.BigEndian.Uint32(b[4:]),
		Expiration:  binary.BigEndian.Uint32(b[8:]),
		Inception:   binary.BigEndian.Uint32(b[12:]),
		KeyTag:      binary.BigEndian.Uint16(b[16:]),
	}
	n, next, err := ReadName(msg[:rr.End], rr.RData+18)
	if err != nil {
		return nil, 0, err
	}
	s.Signer = n
	s.Signature = append([]byte(nil), msg[next:rr.End]...)
	return s, next, nil
}

// Sig0DigestInput is the data that is signed for a transaction signature (RFC 2931 3.1):
//
//	data = RDATA | DNS message - SIG(0)
//
// where RDATA is the SIG RDATA without the signature field exactly as it is transmitted, and the
// message is everything before the SIG(0) record with ARCOUNT not counting it.
// msgWithoutSig must already carry the reduced ARCOUNT.
func Sig0DigestInput(rdataNoSig, msgWithoutSig []byte) []byte {
	d := append([]byte(nil), rdataNoSig...)
	return append(d, msgWithoutSig...)
}

// Sig0Sign appends a SIG(0) record (owner root, class ANY, TTL 0) signed with priv to msg.
func Sig0Sign(msg []byte, s Sig, priv crypto.PrivateKey, rnd io.Reader) ([]byte, error) {
	rd := s.RdataNoSig()
	sig, err := SignSig(s.Algorithm, priv, Sig0DigestInput(rd, msg), rnd)
	if err != nil {
		return nil, err
	}
	out := AppendRR(append([]byte(nil), msg...), nil, TypeSIG, ClassANY, 0, append(rd, sig...))
	SetARCount(out, ARCount(msg)+1)
	return out, nil
}

// Sig0Verdict is the outcome of the reference SIG(0) verifier.
type Sig0Verdict struct {
	OK  bool
	Why string
	Sig *Sig
}

// Sig0Verify is the reference verifier: the last additional record must be a SIG record covering
// type 0 whose signer name equals keyOwner (ignoring case), alg must equal the SIG's algorithm,
// inception <= now <= expiration (plain 32-bit comparison, as RFC 2931 3.1 is applied here to
// times far from a wrap), and the signature must verify over Sig0DigestInput with pub.
// Octets after the last record are ignored.
func Sig0Verify(msg []byte, keyOwner Labels, alg uint8, pub crypto.PublicKey, now uint32) Sig0Verdict {
	stripped, last, _, err := StripLast(msg)
	if err != nil {
		return Sig0Verdict{Why: err.Error()}
	}
	s, sigOff, err := ParseSig(msg, last)
	if err != nil {
		return Sig0Verdict{Why: err.Error()}
	}
	if s.TypeCovered != 0 {
		return Sig0Verdict{Why: "type covered is not 0", Sig: s}
	}
	if s.Algorithm != alg {
		return Sig0Verdict{Why: "algorithm differs from the key's", Sig: s}
	}
	if !s.Signer.EqualFold(keyOwner) {
		return Sig0Verdict{Why: "signer name differs from the key owner", Sig: s}
	}
	if now < s.Inception || now > s.Expiration {
		return Sig0Verdict{Why: "outside the validity window", Sig: s}
	}
	data := Sig0DigestInput(msg[last.RData:sigOff], stripped)
	if err := VerifySig(alg, pub, data, s.Signature); err != nil {
		return Sig0Verdict{Why: err.Error(), Sig: s}
	}
	return Sig0Verdict{OK: true, Sig: s}
}
